(** Executable helpers used only by the correspondence check (kernel grids and sketch streams). No proofs. *)
From CacheD Require Export Base Sketch Model.

Inductive lfu_op := OInc (h : Z) (had : bool) | OEst (h : Z) (door : bool).

(** one line per operation: [0; incs; row bytes...] / [0; estimate] on success, [1] panic, [2] inadmissible answer *)
Fixpoint lfu_trace (l : tinylfu) (ops : list lfu_op) : list (list Z) :=
  match ops with
  | [] => []
  | OInc h had :: t =>
      match lfu_access l h had with
      | LOk l' => (0 :: lfu_incs l' :: concat (fc_rows (lfu_fc l'))) :: lfu_trace l' t
      | LPanic => [[1]]
      | LInadmissible => [[2]]
      end
  | OEst h door :: t =>
      match lfu_estimate l h door with
      | LOk e => [0; e] :: lfu_trace l t
      | LPanic => [[1]]
      | LInadmissible => [[2]]
      end
  end.

Definition cmp_code (c : comparison) : Z := match c with Lt => -1 | Eq => 0 | Gt => 1 end.

Definition k_row_inc (b pos : Z) : Z := match row_inc [b] pos with Some [x] => x | _ => -1 end.
Definition k_row_get (b pos : Z) : Z := match row_get [b] pos with Some x => x | None => -1 end.
Definition k_row_half (b : Z) : Z := match row_half [b] with [x] => x | _ => -1 end.
Definition k_row_multi (bytes : list Z) (pos : Z) : list Z :=
  match row_inc bytes pos, row_get bytes pos with
  | Some r, Some g => g :: r
  | _, _ => [-1]
  end.
Definition k_cmp (fa wa fb wb : Z) : Z :=
  cmp_code (sk_cmp {| sk_id := 1; sk_weight := wa; sk_freq := fa |} {| sk_id := 2; sk_weight := wb; sk_freq := fb |}).
Definition k_expiry_update (old new : option Z) : list Z :=
  match type_of_expiry_update old new with
  | XNothing => [0; 0; 0] | XAdded n => [1; n; 0] | XDeleted o => [2; o; 0] | XUpdated o n => [3; o; n]
  end.
Definition k_hit_ratio (h m : Z) : list Z :=
  let x := Build_stats h m 0 0 0 0 0 0 0 0 in [fst (hit_ratio x); snd (hit_ratio x)].

Definition k_cfg (max shards : Z) : config :=
  {| c_max := max; c_counters := 16; c_shards := shards; c_queue := 8; c_pool := 1; c_buffer := 2; c_hash := 0; c_wcalc := 1;
     c_seeds := [1; 2; 3; 4]; c_t0 := 0; c_debug := true |}.
(** is_space_available_for: (available, enough) after charging [used] for one key *)
Definition k_space (max used_ w : Z) : list Z :=
  let cfg := k_cfg max 2 in
  let s := if used_ =? 0 then init cfg else
           match weights_add cfg 1 1 1 used_ (init cfg) with Ok s' => s' | _ => init cfg end in
  [c_max cfg - used s; bool_to_Z (w <=? c_max cfg - used s)].
(** CacheWeight::update on a single charged key: [1; used; weight_added; weight_removed; keys_updated] *)
Definition k_update (old new : Z) : list Z :=
  let cfg := k_cfg 1000 2 in
  match weights_add cfg 1 1 1 old (init cfg) with
  | Ok s =>
      match weights_update cfg 1 new s with
      | Ok s' => [1; used s'; s_weight_added (st s'); s_weight_removed (st s'); s_keys_updated (st s')]
      | _ => [-1]
      end
  | _ => [-1]
  end.
Definition k_shard (shards t : Z) : Z := shard_index (k_cfg 100 shards) t.
