(** Fine-grained model of the acknowledgement protocol (src/cache/command/acknowledgement.rs), for C12.

    Shared cells: the [done] flag (atomic), the status (behind its own mutex; every access is a single
    lock-read/write-unlock statement, hence one atomic action), the waker slot behind the waker mutex W.
    One completer (the command worker calling [done(final)]) and any number of pollers.

    done(final), current code:    D1 write status := final;  D2 set flag;  D3 lock W, wake the registered waker, unlock W
    done(final), original code:   D2; D1; D3        ([flag_first = true], kept to exhibit the defect it had)
    poll(w):  P1 lock W;  P2 register w unless the slot already holds it;  P3 read flag;
              flag = true:  P4 read status, unlock W, return Ready status
              flag = false: P5 unlock W, return Pending

    A schedule is a list of thread ids: 0 is the completer, n > 0 is poller n.  An action that is not enabled
    (W is held by another thread, or the thread has finished) leaves the state unchanged.  No proofs here. *)
From CacheD Require Export Base.
From CacheD Require Import Model.

Inductive dpc := D_start | D_mid1 | D_mid2 | D_done.          (* before 1st / 2nd / 3rd statement / finished *)
Inductive ppc := P_lock | P_register | P_flag | P_ready | P_pending | P_done.

Inductive presult := RNone | RReady (x : status) | RPending.

Record poller := { p_waker : Z; p_pc : ppc; p_result : presult }.

Record astate := {
  a_flag : bool;
  a_status : status;
  a_slot : option Z;                 (* registered waker *)
  a_wlock : option Z;                (* holder of the waker mutex: 0 completer, n poller n *)
  a_dpc : dpc;
  a_pollers : list (Z * poller);     (* poller id -> state *)
  a_wakes : list Z;                  (* wakers woken, oldest first *)
  a_regs : list Z;                   (* wakers registered (slot writes), oldest first *)
  a_pending_returns : list Z;        (* pollers that returned Pending, oldest first *)
  a_wake_seen_pending : list Z;      (* at the wake step: the pollers that had already returned Pending *)
  a_wake_regs : list Z               (* at the wake step: the registrations made so far *)
}.

Definition ainit (pollers : list (Z * Z)) : astate := {|
  a_flag := false; a_status := Pending; a_slot := None; a_wlock := None; a_dpc := D_start;
  a_pollers := map (fun p => (fst p, {| p_waker := snd p; p_pc := P_lock; p_result := RNone |})) pollers;
  a_wakes := []; a_regs := []; a_pending_returns := []; a_wake_seen_pending := []; a_wake_regs := [] |}.

Definition set_poller (s : astate) (i : Z) (p : poller) : astate :=
  {| a_flag := a_flag s; a_status := a_status s; a_slot := a_slot s; a_wlock := a_wlock s; a_dpc := a_dpc s;
     a_pollers := aset i p (a_pollers s); a_wakes := a_wakes s; a_regs := a_regs s;
     a_pending_returns := a_pending_returns s; a_wake_seen_pending := a_wake_seen_pending s; a_wake_regs := a_wake_regs s |}.

(** the completer's statements *)
Definition write_status (final : status) (s : astate) : astate :=
  {| a_flag := a_flag s; a_status := final; a_slot := a_slot s; a_wlock := a_wlock s; a_dpc := a_dpc s;
     a_pollers := a_pollers s; a_wakes := a_wakes s; a_regs := a_regs s;
     a_pending_returns := a_pending_returns s; a_wake_seen_pending := a_wake_seen_pending s; a_wake_regs := a_wake_regs s |}.
Definition set_flag (s : astate) : astate :=
  {| a_flag := true; a_status := a_status s; a_slot := a_slot s; a_wlock := a_wlock s; a_dpc := a_dpc s;
     a_pollers := a_pollers s; a_wakes := a_wakes s; a_regs := a_regs s;
     a_pending_returns := a_pending_returns s; a_wake_seen_pending := a_wake_seen_pending s; a_wake_regs := a_wake_regs s |}.
Definition set_dpc (s : astate) (pc : dpc) : astate :=
  {| a_flag := a_flag s; a_status := a_status s; a_slot := a_slot s; a_wlock := a_wlock s; a_dpc := pc;
     a_pollers := a_pollers s; a_wakes := a_wakes s; a_regs := a_regs s;
     a_pending_returns := a_pending_returns s; a_wake_seen_pending := a_wake_seen_pending s; a_wake_regs := a_wake_regs s |}.
(** lock W, wake the registered waker if any, unlock W: one action, enabled only when W is free *)
Definition wake (s : astate) : astate :=
  {| a_flag := a_flag s; a_status := a_status s; a_slot := a_slot s; a_wlock := a_wlock s; a_dpc := a_dpc s;
     a_pollers := a_pollers s;
     a_wakes := match a_slot s with Some w => a_wakes s ++ [w] | None => a_wakes s end;
     a_regs := a_regs s; a_pending_returns := a_pending_returns s;
     a_wake_seen_pending := a_pending_returns s; a_wake_regs := a_regs s |}.

Definition done_step (flag_first : bool) (final : status) (s : astate) : astate :=
  match a_dpc s with
  | D_start => set_dpc (if flag_first then set_flag s else write_status final s) D_mid1
  | D_mid1 => set_dpc (if flag_first then write_status final s else set_flag s) D_mid2
  | D_mid2 => match a_wlock s with
              | None => set_dpc (wake s) D_done
              | Some _ => s                                   (* blocked on the waker mutex *)
              end
  | D_done => s
  end.

Definition set_wlock (s : astate) (h : option Z) : astate :=
  {| a_flag := a_flag s; a_status := a_status s; a_slot := a_slot s; a_wlock := h; a_dpc := a_dpc s;
     a_pollers := a_pollers s; a_wakes := a_wakes s; a_regs := a_regs s;
     a_pending_returns := a_pending_returns s; a_wake_seen_pending := a_wake_seen_pending s; a_wake_regs := a_wake_regs s |}.
Definition register (s : astate) (w : Z) : astate :=
  match a_slot s with
  | Some w' => if w' =? w then s else
      {| a_flag := a_flag s; a_status := a_status s; a_slot := Some w; a_wlock := a_wlock s; a_dpc := a_dpc s;
         a_pollers := a_pollers s; a_wakes := a_wakes s; a_regs := a_regs s ++ [w];
         a_pending_returns := a_pending_returns s; a_wake_seen_pending := a_wake_seen_pending s; a_wake_regs := a_wake_regs s |}
  | None =>
      {| a_flag := a_flag s; a_status := a_status s; a_slot := Some w; a_wlock := a_wlock s; a_dpc := a_dpc s;
         a_pollers := a_pollers s; a_wakes := a_wakes s; a_regs := a_regs s ++ [w];
         a_pending_returns := a_pending_returns s; a_wake_seen_pending := a_wake_seen_pending s; a_wake_regs := a_wake_regs s |}
  end.
Definition note_pending (s : astate) (i : Z) : astate :=
  {| a_flag := a_flag s; a_status := a_status s; a_slot := a_slot s; a_wlock := a_wlock s; a_dpc := a_dpc s;
     a_pollers := a_pollers s; a_wakes := a_wakes s; a_regs := a_regs s;
     a_pending_returns := a_pending_returns s ++ [i]; a_wake_seen_pending := a_wake_seen_pending s; a_wake_regs := a_wake_regs s |}.

Definition poll_step (i : Z) (s : astate) : astate :=
  match alookup i (a_pollers s) with
  | None => s
  | Some p =>
      match p_pc p with
      | P_lock =>
          match a_wlock s with
          | None => set_poller (set_wlock s (Some i)) i {| p_waker := p_waker p; p_pc := P_register; p_result := RNone |}
          | Some _ => s                                       (* blocked on the waker mutex *)
          end
      | P_register => set_poller (register s (p_waker p)) i {| p_waker := p_waker p; p_pc := P_flag; p_result := RNone |}
      | P_flag => set_poller s i {| p_waker := p_waker p; p_pc := if a_flag s then P_ready else P_pending; p_result := RNone |}
      | P_ready => set_poller (set_wlock s None) i {| p_waker := p_waker p; p_pc := P_done; p_result := RReady (a_status s) |}
      | P_pending => set_poller (note_pending (set_wlock s None) i) i {| p_waker := p_waker p; p_pc := P_done; p_result := RPending |}
      | P_done => s
      end
  end.

Definition astep (flag_first : bool) (final : status) (s : astate) (tid : Z) : astate :=
  if tid =? 0 then done_step flag_first final s else poll_step tid s.

Definition arun (flag_first : bool) (final : status) (pollers : list (Z * Z)) (sched : list Z) : astate :=
  fold_left (astep flag_first final) sched (ainit pollers).

(** is thread [tid] able to take a step? *)
Definition aenabled (s : astate) (tid : Z) : bool :=
  if tid =? 0 then
    match a_dpc s with
    | D_done => false
    | D_mid2 => match a_wlock s with None => true | Some _ => false end
    | _ => true
    end
  else
    match alookup tid (a_pollers s) with
    | None => false
    | Some p => match p_pc p with
                | P_done => false
                | P_lock => match a_wlock s with None => true | Some _ => false end
                | _ => true
                end
    end.

Definition all_finished (s : astate) : bool :=
  (match a_dpc s with D_done => true | _ => false end) &&
  forallb (fun p => match p_pc (snd p) with P_done => true | _ => false end) (a_pollers s).

(** observation compared with the implementation: results per poller (0 none, 1 pending, 2+code ready), wakes *)
Definition presult_code (r : presult) : Z :=
  match r with RNone => 0 | RPending => 1 | RReady x => 2 + status_code x end.
Definition adump (s : astate) : list (list Z) :=
  [flat_map (fun p => [fst p; presult_code (p_result (snd p))]) (a_pollers s); a_wakes s;
   [bool_to_Z (a_flag s); status_code (a_status s); opt_to_Z (a_slot s)]].
