(** Executable observation traces of the two ledger models (Ledger.v, LedgerUpd.v), for the action-level correspondence with
    the real CacheWeight (harness mode `ledger`): the model is run one group of actions at a time (a group = the model
    actions one call of the real code performs between two schedule points) and dumped after every group.  No proofs here. *)
From CacheD Require Export Base Ledger LedgerUpd.

Definition flat_pairs (l : list (Z * Z)) : list Z := flat_map (fun p => [fst p; snd p]) l.

Definition gpc_code (p : wpc) : Z :=
  match p with WIdle => 0 | WChecked _ _ => 1 | WInserted _ _ => 2 | WEvicting _ _ _ _ => 3 end.

(** total, worker pc, weight the sweeper still has to subtract (-1: none), charges as id, weight, id, weight ... *)
Definition gdump (s : gstate) : list Z :=
  g_used s :: gpc_code (g_wpc s) :: match g_spending s with Some w => w | None => -1 end :: flat_pairs (g_charges s).

Fixpoint gtrace (s : gstate) (groups : list (list gaction)) : list gstate :=
  match groups with
  | [] => []
  | g :: rest => let s' := fold_left gstep g s in s' :: gtrace s' rest
  end.

Definition gobs (max : Z) (groups : list (list gaction)) : list (list Z) := map gdump (gtrace (ginit max) groups).

Definition uinit (charges : list (Z * Z)) : ustate :=
  {| u_used := charges_sum charges; u_charges := charges; u_upd := None; u_del := None; u_wdel := None |}.

(** total, update in progress (0/1), sweeper's pending subtraction, worker's pending subtraction, charges *)
Definition udump (s : ustate) : list Z :=
  u_used s :: match u_upd s with Some _ => 1 | None => 0 end :: match u_del s with Some w => w | None => -1 end
  :: match u_wdel s with Some w => w | None => -1 end :: flat_pairs (u_charges s).

Fixpoint utrace (s : ustate) (groups : list (list uaction)) : list ustate :=
  match groups with
  | [] => []
  | g :: rest => let s' := fold_left (ustep true) g s in s' :: utrace s' rest
  end.

Definition uobs (charges : list (Z * Z)) (groups : list (list uaction)) : list (list Z) := map udump (utrace (uinit charges) groups).
