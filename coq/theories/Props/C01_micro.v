(** C01_micro. The bound on the total under every interleaving of the micro steps
    This file only pins statements: every theorem restates a lemma of proofs/ verbatim and is closed by it. *)
From CacheD Require Import Base Sketch Model Window Micro.
From CacheD.proofs Require Import Defs ApiProofs HistoryProofs StatsProofs.
From CacheD.proofs Require Import MicroProofs MicroBound MicroLedger MicroBoundAll.

(** (C01 at every state of every micro schedule, no restriction on the events): while the worker has not panicked
   and has never taken an UpdateWeight that asks for more than the free space (known finding D2), the total weight lies
   between 0 and the cache weight - inside every window of put_or_update, of the worker's put, put with time-to-live and
   Delete, and of shutdown() *)
Theorem C01_micro_used_bounded_all :
  forall cfg evs, c_debug cfg = true -> 0 <= c_max cfg ->
  Forall (fun p => ~ mover_all cfg (fst p) (snd p)) (mvisits_all cfg (minit cfg) evs) ->
  worker (mbase (mrun cfg evs)) <> Dead -> 0 <= used (mbase (mrun cfg evs)) <= c_max cfg.
Proof. exact micro_used_bounded_all. Qed.
Print Assumptions C01_micro_used_bounded_all.

(** (C01 for every interleaving of the micro steps of puts, deletes and reads with each other and with whole
   worker commands, sweeps and batches): the total stays within [0, max] at every state, unless an UpdateWeight that
   asks for more than the free space is executed (known finding D2) *)
Theorem C01_micro_used_bounded_run :
  forall cfg evs, wf_config cfg -> Forall plain_micro evs ->
  Forall (fun p => ~ mover_limit cfg (fst p) (snd p)) (mvisits cfg (minit cfg) evs) ->
  worker (mbase (mrun cfg evs)) <> Dead -> 0 <= used (mbase (mrun cfg evs)) <= c_max cfg.
Proof. exact micro_used_bounded_run. Qed.
Print Assumptions C01_micro_used_bounded_run.

(** (C05, C01 at every micro state of every micro schedule, no condition on the events): as long as the worker has
   not panicked, the total weight is exactly the sum of the charges, the charged ids are pairwise distinct, every charge
   is positive and the total lies between 0 and i64::MAX - inside the windows of put_or_update, of the worker's put and
   Delete and of shutdown() as well *)
Theorem C01_micro_ledger_exact_all :
  forall cfg evs, c_debug cfg = true ->
  let s := mbase (mrun cfg evs) in
  worker s <> Dead ->
  used s = weights_sum (weights s) /\ NoDup (map fst (weights s)) /\
  (forall id wk, alookup id (weights s) = Some wk -> 0 < w_weight wk) /\ 0 <= used s <= i64_max.
Proof. exact micro_ledger_exact_all. Qed.
Print Assumptions C01_micro_ledger_exact_all.

(** (C05 for every such interleaving): the total is exactly the sum of the charges of the keys the store holds,
   every stored key is charged under its id and nothing else is *)
Theorem C01_micro_accounting_exact :
  forall cfg evs, wf_config cfg -> Forall plain_micro evs ->
  let s := mbase (mrun cfg evs) in
  worker s <> Dead ->
  used s = weights_sum (weights s) /\
  (forall k e, alookup k (store s) = Some e -> exists wk, alookup (e_id e) (weights s) = Some wk /\ w_key wk = k) /\
  (forall id wk, alookup id (weights s) = Some wk -> exists e, alookup (w_key wk) (store s) = Some e /\ e_id e = id) /\
  0 <= used s.
Proof. exact micro_accounting_exact. Qed.
Print Assumptions C01_micro_accounting_exact.

(** the steps of the worker's put (admission | store insert, and with a time-to-live | index registration), back
   to back, are the atomic worker step *)
Theorem C01_mput_atomic :
  forall cfg orc ms k v id h w ttl a q,
  wdel ms = None -> wpending (win ms) = None -> worker (mbase ms) = Alive ->
  queue (mbase ms) = (match ttl with None => CPut k v id h w | Some t => CPutTTL k v id h w t end, a) :: q ->
  let r1 := mworker1 cfg ms orc in
  let r2 := if stopped (snd r1) then mworker2 cfg (fst r1) else r1 in
  let r3 := if stopped (snd r2) then mworker2 cfg (fst r2) else r2 in
  let atomic := worker_step cfg orc (mbase ms) in
  mbase (fst r3) = fst atomic /\ snd r3 = snd atomic /\ wdel (fst r3) = None /\ cps (fst r3) = cps ms /\
  ups (win (fst r3)) = ups (win ms) /\ wpending (win (fst r3)) = None.
Proof. exact mput_atomic. Qed.
Print Assumptions C01_mput_atomic.

