(** C05_micro. Accounting under every interleaving of the micro steps (calls, worker commands and shutdown() split at every schedule point)
    This file only pins statements: every theorem restates a lemma of proofs/ verbatim and is closed by it. *)
From CacheD Require Import Base Sketch Model Window Micro.
From CacheD.proofs Require Import Defs ApiProofs HistoryProofs StatsProofs.
From CacheD.proofs Require Import MicroProofs MicroLedger MicroCharged MicroFlow MicroHeld.

(** (C05, "no held key is uncharged", at every state of every micro schedule, no condition on the events): before
   shutdown() is called and while the worker has not panicked, every stored entry is charged under its own id for its own
   key - inside the windows of put_or_update, of the worker's put (between admission and store insert), put with
   time-to-live and Delete as well *)
Theorem C05_micro_held_is_charged_all :
  forall cfg evs k e, c_debug cfg = true ->
  let ms := mrun cfg evs in
  shut (mbase ms) = false -> worker (mbase ms) <> Dead ->
  alookup k (store (mbase ms)) = Some e ->
  exists wk, alookup (e_id e) (weights (mbase ms)) = Some wk /\ w_key wk = k.
Proof. exact micro_held_is_charged_all. Qed.
Print Assumptions C05_micro_held_is_charged_all.

(** (C05 at every micro state: keys and charges correspond one to one, up to the one command in flight): under the
   same guard, distinct stored keys carry distinct ids, and the expiry index never lists the id of a put that is still
   pending or let in but not yet stored - so the sweeper can never release the charge of a key that is about to be inserted *)
Theorem C05_micro_store_ids_distinct_all :
  forall cfg evs k1 k2 e1 e2, c_debug cfg = true ->
  let ms := mrun cfg evs in
  shut (mbase ms) = false -> worker (mbase ms) <> Dead ->
  alookup k1 (store (mbase ms)) = Some e1 -> alookup k2 (store (mbase ms)) = Some e2 -> e_id e1 = e_id e2 -> k1 = k2.
Proof. exact micro_store_ids_distinct_all. Qed.
Print Assumptions C05_micro_store_ids_distinct_all.

(** (why the insert after admission finds its charge): under the same guard, the expiry index (as the sweeper reads it)
   only lists ids that have been used - below the id counter, not carried by any pending put, and not the id the worker has
   let in but not yet stored - so a sweep can never release the charge of a key that is about to be inserted *)
Theorem C05_micro_index_lists_used_ids_all :
  forall cfg evs id, c_debug cfg = true ->
  let ms := mrun cfg evs in
  shut (mbase ms) = false -> worker (mbase ms) <> Dead -> TIN (ticker (mbase ms)) id ->
  id < next_id (mbase ms) /\ ~ In id (put_ids (pending_cmds (mbase ms))) /\ adm_id ms <> Some id.
Proof. exact micro_index_lists_used_ids_all. Qed.
Print Assumptions C05_micro_index_lists_used_ids_all.

(** (C05, C01 at every micro state of every micro schedule, no condition on the events): as long as the worker has
   not panicked, the total weight is exactly the sum of the charges, the charged ids are pairwise distinct, every charge
   is positive and the total lies between 0 and i64::MAX - inside the windows of put_or_update, of the worker's put and
   Delete and of shutdown() as well *)
Theorem C05_micro_ledger_exact_all :
  forall cfg evs, c_debug cfg = true ->
  let s := mbase (mrun cfg evs) in
  worker s <> Dead ->
  used s = weights_sum (weights s) /\ NoDup (map fst (weights s)) /\
  (forall id wk, alookup id (weights s) = Some wk -> 0 < w_weight wk) /\ 0 <= used s <= i64_max.
Proof. exact micro_ledger_exact_all. Qed.
Print Assumptions C05_micro_ledger_exact_all.

(** (ids): at every micro state the ids of the puts that are queued or held by a parked or stopped caller are
   pairwise distinct, not yet charged and below the id counter, and so is every charged id: no two keys can ever share a
   charge *)
Theorem C05_micro_ids_fresh_all :
  forall cfg evs, c_debug cfg = true ->
  let s := mbase (mrun cfg evs) in
  worker s <> Dead ->
  NoDup (put_ids (pending_cmds s)) /\
  (forall id, In id (put_ids (pending_cmds s)) -> id < next_id s /\ alookup id (weights s) = None) /\
  (forall id wk, alookup id (weights s) = Some wk -> id < next_id s).
Proof. exact micro_ids_fresh_all. Qed.
Print Assumptions C05_micro_ids_fresh_all.

(** (ids only flow forward, every micro step, from any state): the id counter never decreases, and every put id that
   is pending after the step was pending before it or has just been drawn - so an id below the counter that is not pending
   (an id that has been used) never becomes pending again *)
Theorem C05_micro_ids_flow_all :
  forall cfg ms ev, FL (mbase ms) (mbase (fst (mstep cfg ms ev))).
Proof. exact micro_ids_flow_all. Qed.
Print Assumptions C05_micro_ids_flow_all.

(** (C05, "no weight stays charged for a key that is gone", at every state of every micro schedule, no condition
   on the events): before shutdown() is called and while the worker has not panicked, every charged id is the id of the
   stored entry of its own key - except the single id the worker has in flight at that instant (a put let in and
   charged but not yet inserted, a Delete whose entry is removed but whose charge is not yet released), and then nobody
   else occupies that key *)
Theorem C05_micro_charged_is_stored_all :
  forall cfg evs id wk,
  let ms := mrun cfg evs in
  shut (mbase ms) = false -> worker (mbase ms) <> Dead ->
  alookup id (weights (mbase ms)) = Some wk ->
  (exists e, alookup (w_key wk) (store (mbase ms)) = Some e /\ e_id e = id) \/
  (f_id (fl_of ms) = Some id /\ alookup (w_key wk) (store (mbase ms)) = None).
Proof. exact micro_charged_is_stored_all. Qed.
Print Assumptions C05_micro_charged_is_stored_all.

(** (corollary, between commands): whenever the worker has nothing in flight, every charged id is the id of the
   stored entry of its key *)
Theorem C05_micro_charged_is_stored_quiet :
  forall cfg evs id wk,
  let ms := mrun cfg evs in
  shut (mbase ms) = false -> worker (mbase ms) <> Dead -> wdel ms = None ->
  alookup id (weights (mbase ms)) = Some wk ->
  exists e, alookup (w_key wk) (store (mbase ms)) = Some e /\ e_id e = id.
Proof. exact micro_charged_is_stored_quiet. Qed.
Print Assumptions C05_micro_charged_is_stored_quiet.

(** the micro steps of one call, executed back to back by a caller that is not inside another call, are the
   atomic call of Model.v: same state, same observation, and the caller is out of every window again *)
Theorem C05_mcall_atomic :
  forall cfg tid r idxs ms,
  caller_free ms tid = true ->
  (forall k v w ttl rm, r <> RUpsert k v w ttl rm) ->
  pool_admissible cfg r idxs (mbase ms) ->
  mcall cfg tid r idxs ms =
  (with_mbase ms (fst (call cfg tid r idxs (mbase ms))), snd (call cfg tid r idxs (mbase ms))).
Proof. exact mcall_atomic. Qed.
Print Assumptions C05_mcall_atomic.

(** the three steps of the worker's Delete, back to back, are the atomic worker step *)
Theorem C05_mdelete_atomic :
  forall cfg orc ms k a q,
  wdel ms = None -> wpending (win ms) = None -> worker (mbase ms) = Alive -> queue (mbase ms) = (CDelete k, a) :: q ->
  let r1 := mworker1 cfg ms orc in
  let r2 := if stopped (snd r1) then mworker2 cfg (fst r1) else r1 in
  let r3 := if stopped (snd r2) then mworker2 cfg (fst r2) else r2 in
  let atomic := worker_step cfg orc (mbase ms) in
  mbase (fst r3) = fst atomic /\ snd r3 = snd atomic /\ wdel (fst r3) = None /\ cps (fst r3) = cps ms /\
  ups (win (fst r3)) = ups (win ms) /\ wpending (win (fst r3)) = None.
Proof. exact mdelete_atomic. Qed.
Print Assumptions C05_mdelete_atomic.

(** the steps of the worker's put (admission | store insert, and with a time-to-live | index registration), back
   to back, are the atomic worker step *)
Theorem C05_mput_atomic :
  forall cfg orc ms k v id h w ttl a q,
  wdel ms = None -> wpending (win ms) = None -> worker (mbase ms) = Alive ->
  queue (mbase ms) = (match ttl with None => CPut k v id h w | Some t => CPutTTL k v id h w t end, a) :: q ->
  let r1 := mworker1 cfg ms orc in
  let r2 := if stopped (snd r1) then mworker2 cfg (fst r1) else r1 in
  let r3 := if stopped (snd r2) then mworker2 cfg (fst r2) else r2 in
  let atomic := worker_step cfg orc (mbase ms) in
  mbase (fst r3) = fst atomic /\ snd r3 = snd atomic /\ wdel (fst r3) = None /\ cps (fst r3) = cps ms /\
  ups (win (fst r3)) = ups (win ms) /\ wpending (win (fst r3)) = None.
Proof. exact mput_atomic. Qed.
Print Assumptions C05_mput_atomic.

(** the core invariant survives every interleaving of the micro steps of puts, deletes and reads with each
   other and with whole events of the atomic model (worker commands, sweeps, consumer batches, atomic calls) *)
Theorem C05_minv_step :
  forall cfg ms ev, wf_config cfg -> MInv cfg ms -> plain_micro ev ->
  worker (mbase (fst (mstep cfg ms ev))) <> Dead -> MInv cfg (fst (mstep cfg ms ev)).
Proof. exact minv_step. Qed.
Print Assumptions C05_minv_step.

(** every state reached by any interleaving of micro steps of puts, deletes and reads with whole events of
   the atomic model satisfies the core invariant, as long as the worker has not panicked *)
Theorem C05_minv_run :
  forall cfg evs, wf_config cfg -> Forall plain_micro evs ->
  worker (mbase (mrun cfg evs)) <> Dead -> MInv cfg (mrun cfg evs).
Proof. exact minv_run. Qed.
Print Assumptions C05_minv_run.

(** (C05 for every such interleaving): the total is exactly the sum of the charges of the keys the store holds,
   every stored key is charged under its id and nothing else is *)
Theorem C05_micro_accounting_exact :
  forall cfg evs, wf_config cfg -> Forall plain_micro evs ->
  let s := mbase (mrun cfg evs) in
  worker s <> Dead ->
  used s = weights_sum (weights s) /\
  (forall k e, alookup k (store s) = Some e -> exists wk, alookup (e_id e) (weights s) = Some wk /\ w_key wk = k) /\
  (forall id wk, alookup id (weights s) = Some wk -> exists e, alookup (w_key wk) (store s) = Some e /\ e_id e = id) /\
  0 <= used s.
Proof. exact micro_accounting_exact. Qed.
Print Assumptions C05_micro_accounting_exact.

(** (C05 / C07, the race the worker's re-check closes): both puts are queued, the one that is executed first is
   accepted, the other is answered 'key already exists'; one entry, one charge, nothing left over *)
Theorem C05_racing_puts_one_wins :
  let s := mbase (mrun mcfg racing_puts) in
  Forall plain_micro racing_puts /\
  acks s = [(1, Rejected KeyAlreadyExists); (0, Accepted)] /\
  map (fun p => (fst p, e_val (snd p), e_id (snd p))) (store s) = [(1, 20, 2)] /\
  map (fun p => (fst p, w_weight (snd p))) (weights s) = [(2, 7)] /\ used s = 7 /\ queue s = [] /\ cps (mrun mcfg racing_puts) = [].
Proof. exact racing_puts_one_wins. Qed.
Print Assumptions C05_racing_puts_one_wins.

(** a micro schedule whose calls are not overtaken (each call's micro steps run back to back; in between, any
   events of the window model) reaches exactly the states of the window model with those calls as atomic events; together
   with [atomic_schedule_refines] (Window.v without overtaking = Model.v) every theorem about Model.v transfers *)
Theorem C05_micro_schedule_refines :
  forall cfg ces ms,
  cps ms = [] -> wdel ms = None -> adm_run cfg ms ces ->
  win (fold_left (cstep_m cfg) ces ms) = fold_left (cstep_w cfg) ces (win ms) /\
  cps (fold_left (cstep_m cfg) ces ms) = [] /\ wdel (fold_left (cstep_m cfg) ces ms) = None.
Proof. exact micro_schedule_refines. Qed.
Print Assumptions C05_micro_schedule_refines.

