(** C13_micro. shutdown() split into its stages: the flag is final and refuses every call that begins after it; acknowledgements at every micro state
    This file only pins statements: every theorem restates a lemma of proofs/ verbatim and is closed by it. *)
From CacheD Require Import Base Sketch Model Window Micro.
From CacheD.proofs Require Import Defs ApiProofs HistoryProofs StatsProofs.
From CacheD.proofs Require Import MicroProofs MicroBal MicroAll MicroAck.

(** (every acknowledgement is answered): once the worker has executed Shutdown, at every later state of every micro
   schedule, no acknowledgement that was ever handed out is pending - the commands queued behind Shutdown were answered
   'shutting down', the ones before it with their outcome, and a send that arrives afterwards is answered at once *)
Theorem C13_micro_draining_no_pending_all :
  forall cfg evs a,
  let ms := mrun cfg evs in
  worker (mbase ms) = Draining -> 0 <= a -> alookup a (acks (mbase ms)) <> Some Pending.
Proof. exact micro_draining_no_pending_all. Qed.
Print Assumptions C13_micro_draining_no_pending_all.

(** (C13 / C12 at every state of every micro schedule, no condition on the events): while the worker has not
   panicked, an acknowledgement is pending exactly when its command is still queued or in flight inside the worker (in
   any of its windows); every id handed out is below the id counter; no id is queued or in flight twice *)
Theorem C13_micro_ack_pending_iff_all :
  forall cfg evs a,
  let ms := mrun cfg evs in
  worker (mbase ms) <> Dead -> 0 <= a ->
  (alookup a (acks (mbase ms)) = Some Pending <-> In a (map snd (queue (mbase ms))) \/ In a (inflight ms)).
Proof. exact micro_ack_pending_iff_all. Qed.
Print Assumptions C13_micro_ack_pending_iff_all.

(** (C13, every event of the micro model - every window of every call and of every worker command, every stage of
   shutdown): once the flag is up it stays up *)
Theorem C13_micro_shut_stable_all :
  forall cfg ms ev,
  shut (mbase ms) = true -> shut (mbase (fst (mstep cfg ms ev))) = true.
Proof. exact micro_shut_stable_all. Qed.
Print Assumptions C13_micro_shut_stable_all.

(** (C13, shutdown in stages): the flag never goes down again, whatever micro step of whatever caller (puts,
   deletes, reads, put_or_update's first half, every stage of shutdown) or whole event of the atomic model follows *)
Theorem C13_micro_shut_stable :
  forall cfg ms ev,
  (forall e0, ev = MWin e0 -> exists b, e0 = WBase b) -> (forall orc, ev <> MWorker1 orc) -> ev <> MWorker2 ->
  shut (mbase ms) = true -> shut (mbase (fst (mstep cfg ms ev))) = true.
Proof. exact micro_shut_stable. Qed.
Print Assumptions C13_micro_shut_stable.

(** (C13, shutdown in stages): from the moment the flag is up - before the Shutdown command is even queued and
   at every later stage - a call that begins is answered on the spot exactly as the atomic model answers it (writes: the
   shutting-down error, reads: absent / empty) and changes nothing but what that atomic call changes *)
Theorem C13_micro_after_flag_refused :
  forall cfg ms tid r idxs,
  caller_free ms tid = true -> shut (mbase ms) = true ->
  mstep cfg ms (MEnter tid r idxs) =
  (with_mbase ms (fst (step cfg (mbase ms) (ECall tid r idxs))), snd (step cfg (mbase ms) (ECall tid r idxs))) /\
  (is_write_request r -> valid_request r -> step cfg (mbase ms) (ECall tid r idxs) = (mbase ms, [2])) /\
  (is_read_request r -> step cfg (mbase ms) (ECall tid r idxs) = (mbase ms, [5])) /\
  (r = RShutdown -> step cfg (mbase ms) (ECall tid r idxs) = (mbase ms, [5])).
Proof. exact micro_after_flag_refused. Qed.
Print Assumptions C13_micro_after_flag_refused.

(** the micro steps of one call, executed back to back by a caller that is not inside another call, are the
   atomic call of Model.v: same state, same observation, and the caller is out of every window again *)
Theorem C13_shutdown_stages_compose :
  forall cfg tid r idxs ms,
  caller_free ms tid = true ->
  (forall k v w ttl rm, r <> RUpsert k v w ttl rm) ->
  pool_admissible cfg r idxs (mbase ms) ->
  mcall cfg tid r idxs ms =
  (with_mbase ms (fst (call cfg tid r idxs (mbase ms))), snd (call cfg tid r idxs (mbase ms))).
Proof. exact mcall_atomic. Qed.
Print Assumptions C13_shutdown_stages_compose.

