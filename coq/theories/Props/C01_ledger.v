(** C01_ledger. Total weight never exceeds the configured cache weight: every interleaving of the individual ledger actions
    This file only pins statements: every theorem restates a lemma of proofs/ verbatim and is closed by it. *)
From CacheD Require Import Base Ledger LedgerUpd LedgerRun.
From CacheD.proofs Require Import LedgerProofs LedgerRunProofs.

(** at every instant of every interleaving *)
Theorem C01_all_interleavings :
  forall max sched, 0 < max -> 0 <= g_used (grun max sched) <= max.
Proof. exact ledger_bounded. Qed.
Print Assumptions C01_all_interleavings.

(** whenever no ledger operation is half-way, the total is exactly the sum of the charges *)
Theorem C01_ledger_exact_when_quiet :
  forall max sched, 0 < max ->
  let s := grun max sched in
  g_wpc s = WIdle -> g_spending s = None -> g_used s = charges_sum (g_charges s).
Proof. exact ledger_exact_when_quiet. Qed.
Print Assumptions C01_ledger_exact_when_quiet.

(** every put the worker completes (AAdd) leaves the total at or below the limit, whatever the sweeper did
   between the space check and the add *)
Theorem C01_ledger_add_within_limit :
  forall max sched id w, 0 < max ->
  g_wpc (grun max sched) = WInserted id w ->
  g_used (gstep (grun max sched) AAdd) <= max /\ g_used (gstep (grun max sched) AAdd) = g_used (grun max sched) + w.
Proof. exact ledger_add_within_limit. Qed.
Print Assumptions C01_ledger_add_within_limit.

(** (C01): every state the action-level correspondence observes on the model side - after any number of groups of
   ledger actions of the worker and the sweeper - has its total between 0 and the cache weight *)
Theorem C01_ledger_trace_bounded :
  forall max groups st, 0 < max ->
  In st (gtrace (ginit max) groups) -> 0 <= g_used st <= max.
Proof. exact ledger_trace_bounded. Qed.
Print Assumptions C01_ledger_trace_bounded.

