(** C02_micro. Reads split at their schedule points
    This file only pins statements: every theorem restates a lemma of proofs/ verbatim and is closed by it. *)
From CacheD Require Import Base Sketch Model Window Micro.
From CacheD.proofs Require Import Defs ApiProofs HistoryProofs StatsProofs.
From CacheD.proofs Require Import MicroProofs MicroBal MicroAll MicroProv MicroPut.

(** (C02, provenance, for every micro schedule - no restriction on what overtakes what): whatever is stored under
   a key at any state was written for that key by a put or a put_or_update that had begun by then; reads return stored
   values, so no read ever returns a value nobody wrote for that key, or another key's value *)
Theorem C02_micro_store_value_provenance :
  forall cfg evs k e,
  alookup k (store (mbase (mrun cfg evs))) = Some e -> Exists (mwrites k (e_val e)) evs.
Proof. exact micro_store_value_provenance. Qed.
Print Assumptions C02_micro_store_value_provenance.

(** (C09 / C02, any state): a split read (get) decides at its `Store::get` step, on the state of that instant:
   absent (and the call ends) exactly when the key is not stored, soft-deleted or past its expiry by the clock of that
   instant; otherwise the value of the live entry is fixed there (kept with the stopped caller) *)
Theorem C02_micro_read_decides_at_lookup :
  forall cfg ms tid k idxs,
  alookup tid (cps ms) = Some (PEntered (RGet k)) ->
  (lookup_alive k (mbase ms) = None ->
     snd (mstepc cfg ms tid idxs) = [5] /\ alookup tid (cps (fst (mstepc cfg ms tid idxs))) = None) /\
  (forall e, lookup_alive k (mbase ms) = Some e ->
     snd (mstepc cfg ms tid idxs) = [9] /\
     alookup tid (cps (fst (mstepc cfg ms tid idxs))) =
       Some (PHit (key_hash (c_hash cfg) k) (if e_val e =? -1 then [5] else [5; e_val e]))).
Proof. exact micro_read_decides_at_lookup. Qed.
Print Assumptions C02_micro_read_decides_at_lookup.

(** (C09 / C02, any state): ... and the later `Pool::add` step of that caller returns exactly the value fixed at
   the lookup, whatever the state has become in between (an overwrite, a delete, an expiry, a sweep, a shutdown) *)
Theorem C02_micro_hit_returns_lookup_value :
  forall cfg ms tid h obs i s',
  alookup tid (cps ms) = Some (PHit h obs) -> pool_add cfg i h (mbase ms) = Some s' ->
  snd (mstepc cfg ms tid [i]) = obs /\ alookup tid (cps (fst (mstepc cfg ms tid [i]))) = None.
Proof. exact micro_hit_returns_lookup_value. Qed.
Print Assumptions C02_micro_hit_returns_lookup_value.

(** the micro steps of one call, executed back to back by a caller that is not inside another call, are the
   atomic call of Model.v: same state, same observation, and the caller is out of every window again *)
Theorem C02_mcall_atomic :
  forall cfg tid r idxs ms,
  caller_free ms tid = true ->
  (forall k v w ttl rm, r <> RUpsert k v w ttl rm) ->
  pool_admissible cfg r idxs (mbase ms) ->
  mcall cfg tid r idxs ms =
  (with_mbase ms (fst (call cfg tid r idxs (mbase ms))), snd (call cfg tid r idxs (mbase ms))).
Proof. exact mcall_atomic. Qed.
Print Assumptions C02_mcall_atomic.

(** (C04 / C02 along whole micro schedules, no restriction on the events): at every state of every micro
   schedule, the next step - whichever thread takes it, wherever it stands - does not re-expose a soft-deleted entry *)
Theorem C02_deleted_value_never_returned_micro :
  forall cfg evs ev k e,
  alookup k (store (mbase (mrun cfg evs))) = Some e -> e_soft e = true ->
  hid k (mbase (fst (mstep cfg (mrun cfg evs) ev))).
Proof. exact micro_hidden_run. Qed.
Print Assumptions C02_deleted_value_never_returned_micro.

