(** C08_window. put_or_update split at its schedule point: the two halves are the atomic call when nothing overtakes them
    This file only pins statements: every theorem restates a lemma of proofs/ verbatim and is closed by it. *)
From CacheD Require Import Base Sketch Model Window.
From CacheD.proofs Require Import Defs.
From CacheD.proofs Require Import WindowProofs.

(** put_or_update = second half after first half, when nothing overtakes it: same state, same observation *)
Theorem C08_upsert_halves_compose :
  forall cfg tid k v w ttl rm idxs ws,
  amem tid (ups ws) = false ->
  let r1 := wstep cfg ws (WUpsert1 tid k v w ttl rm) in
  let r2 := wstep cfg (fst r1) (WUpsert2 tid) in
  let atomic := step cfg (base ws) (ECall tid (RUpsert k v w ttl rm) idxs) in
  base (fst r2) = fst atomic /\ ups (fst r2) = ups ws /\ wpending (fst r2) = wpending ws /\
  snd atomic = (if list_eq_dec Z.eq_dec (snd r1) [9] then snd r2 else snd r1).
Proof. exact upsert_halves_compose. Qed.
Print Assumptions C08_upsert_halves_compose.

(** without overtaking the window model reaches exactly the states of the atomic model *)
Theorem C08_atomic_schedule_refines :
  forall cfg evs evs',
  collapse evs = Some evs' ->
  base (wrun cfg evs) = run_from cfg (init cfg) evs' /\ ups (wrun cfg evs) = [] /\ wpending (wrun cfg evs) = None.
Proof. exact atomic_schedule_refines. Qed.
Print Assumptions C08_atomic_schedule_refines.

(** known finding (C10, C08) - with overtaking, a sweep removes a key whose time to live has not passed *)
Theorem C08_known_finding_sweep_inside_upsert_window :
  removed_live wcfg (wrun wcfg d11) (WBase ESweep) 1 = true.
Proof. exact sweep_inside_upsert_window_refuted. Qed.
Print Assumptions C08_known_finding_sweep_inside_upsert_window.

