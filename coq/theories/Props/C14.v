(** C14. Frequency estimates never under-count, saturate safely and age by halving.
    This file only pins statements: each theorem is closed by [exact] of a lemma proved in proofs/SketchProofs.v. *)
From CacheD Require Import Base Sketch.
From CacheD.proofs Require Import SketchProofs.

(** all 256 packed-counter byte values, both nibble positions: increment saturates at 15, leaves the other nibble
    alone, never leaves the byte; halving halves each nibble (rounded down) *)
Theorem C14_nibble_ops_correct : forall b pos, 0 <= b < 256 ->
  nib_get (nib_inc b pos) pos = Z.min 15 (nib_get b pos + 1) /\
  nib_get (nib_inc b pos) (pos + 1) = nib_get b (pos + 1) /\
  0 <= nib_inc b pos < 256 /\
  nib_get (byte_half b) pos = nib_get b pos / 2 /\
  0 <= byte_half b < 256 /\
  0 <= nib_get b pos <= 15.
Proof. exact nibble_ops_correct. Qed.
Print Assumptions C14_nibble_ops_correct.

(** incrementing one counter never disturbs another *)
Theorem C14_increment_local : forall row pos q row', wf_row row -> 0 <= pos -> 0 <= q -> q <> pos ->
  row_inc row pos = Some row' -> row_get row' q = row_get row q.
Proof. exact row_inc_local. Qed.
Print Assumptions C14_increment_local.

Theorem C14_increment_own : forall row pos row', wf_row row -> 0 <= pos ->
  row_inc row pos = Some row' ->
  exists v, row_get row pos = Some v /\ row_get row' pos = Some (Z.min 15 (v + 1)) /\ 0 <= v <= 15.
Proof. exact row_inc_get_same. Qed.
Print Assumptions C14_increment_own.

(** a saturated counter stays saturated instead of wrapping *)
Theorem C14_saturates : forall row pos, wf_row row -> 0 <= pos ->
  row_get row pos = Some 15 -> row_inc row pos = Some row.
Proof. exact row_inc_saturated. Qed.
Print Assumptions C14_saturates.

(** count-min: incrementing a hash raises its estimate by one up to 15 and lowers no estimate *)
Theorem C14_sketch_increment : forall fc h, wf_fc fc ->
  exists fc', fc_increment fc h = Some fc' /\ wf_fc fc' /\ fc_total fc' = fc_total fc /\ fc_seeds fc' = fc_seeds fc /\
    (forall e, fc_estimate fc h = Some e -> fc_estimate fc' h = Some (Z.min 15 (e + 1))) /\
    (forall h' e e', fc_estimate fc h' = Some e -> fc_estimate fc' h' = Some e' -> e <= e').
Proof. exact fc_increment_spec. Qed.
Print Assumptions C14_sketch_increment.

(** within one ageing window the estimate is at least the number of recorded accesses, capped at 15, for every
    stream, every hash, every seed and every admissible sequence of bloom-filter answers; and it never exceeds 16 *)
Theorem C14_never_undercounts : forall hs l l' h ans e,
  wf_lfu l ->
  lfu_incs l + Z.of_nat (length hs) < lfu_reset_at l ->
  lfu_run l hs = LOk l' ->
  lfu_estimate l' h ans = LOk e ->
  Z.min 15 (accesses h hs) <= e /\ e <= 16.
Proof. exact never_undercounts. Qed.
Print Assumptions C14_never_undercounts.

(** ageing happens exactly at the configured number of recorded accesses and not before: every counter is halved,
    the first-access filter is cleared, the access count restarts *)
Theorem C14_ages_exactly_at_threshold : forall l h had, wf_lfu l -> door_admissible (lfu_door l) h had = true ->
  exists l', lfu_access l h had = LOk l' /\ wf_lfu l' /\ lfu_reset_at l' = lfu_reset_at l /\
   (lfu_incs l + 1 < lfu_reset_at l ->
      lfu_incs l' = lfu_incs l + 1 /\
      lfu_door l' = (if had then lfu_door l else h :: lfu_door l) /\
      est l' h = (if had then Z.min 15 (est l h + 1) else est l h) /\
      (forall h', est l h' <= est l' h')) /\
   (lfu_incs l + 1 >= lfu_reset_at l ->
      lfu_incs l' = 0 /\ lfu_door l' = [] /\
      exists fc1, (if had then fc_increment (lfu_fc l) h else Some (lfu_fc l)) = Some fc1 /\
                  lfu_fc l' = fc_reset fc1 /\
                  (forall h' e, fc_estimate fc1 h' = Some e -> est l' h' = e / 2)).
Proof. exact lfu_access_spec. Qed.
Print Assumptions C14_ages_exactly_at_threshold.

Theorem C14_halving : forall fc, wf_fc fc -> wf_fc (fc_reset fc) /\
  forall h e, fc_estimate fc h = Some e -> fc_estimate (fc_reset fc) h = Some (e / 2).
Proof. exact fc_reset_spec. Qed.
Print Assumptions C14_halving.

(** sizing: for every counter count the builder accepts (1 <= c <= 2^63) the sketch width is the least power of two
    >= c, and the freshly built TinyLFU is well-formed (so no index is ever out of bounds, non-powers of two and
    c = 1 included) *)
Theorem C14_next_power_2 : forall c, 1 <= c <= two63 ->
  is_pow2 (next_power_2 c) /\ c <= next_power_2 c /\
  (forall m, is_pow2 m -> c <= m -> next_power_2 c <= m).
Proof. exact next_power_2_spec. Qed.
Print Assumptions C14_next_power_2.

Theorem C14_new_wf : forall c seeds, 1 <= c <= two63 -> length seeds = 4%nat -> wf_lfu (lfu_new c seeds).
Proof. exact lfu_new_wf. Qed.
Print Assumptions C14_new_wf.

Theorem C14_no_index_out_of_bounds : forall hs l, wf_lfu l -> lfu_run l hs <> LPanic.
Proof. exact lfu_run_no_panic. Qed.
Print Assumptions C14_no_index_out_of_bounds.

(** non-vacuity: a concrete non-trivial stream meets the hypotheses and exercises the conclusion *)
Example C14_example :
  let l := lfu_new 8 [11; 22; 33; 44] in
  let hs := [(5, false); (5, true); (9, false); (5, true); (9, true)] in
  wf_lfu l /\ lfu_incs l + Z.of_nat (length hs) < lfu_reset_at l /\
  exists l', lfu_run l hs = LOk l' /\ lfu_estimate l' 5 true = LOk 3 /\ accesses 5 hs = 3.
Proof.
  split; [apply lfu_new_wf; [vm_compute; split; discriminate | reflexivity] |].
  split; [vm_compute; reflexivity |].
  eexists; split; [vm_compute; reflexivity |]. split; vm_compute; reflexivity.
Qed.
