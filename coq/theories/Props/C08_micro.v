(** C08_micro. put_or_update behind the flag check is Window.v's first half
    This file only pins statements: every theorem restates a lemma of proofs/ verbatim and is closed by it. *)
From CacheD Require Import Base Sketch Model Window Micro.
From CacheD.proofs Require Import Defs ApiProofs HistoryProofs StatsProofs.
From CacheD.proofs Require Import MicroProofs.

Theorem C08_mupsert_enter_is_half1 :
  forall cfg tid k v w ttl rm idxs ms,
  caller_free ms tid = true -> shut (mbase ms) = false ->
  let r1 := menter cfg ms tid (RUpsert k v w ttl rm) idxs in
  let r2 := mstepc cfg (fst r1) tid idxs in
  let h := wstep cfg (win ms) (WUpsert1 tid k v w ttl rm) in
  snd r1 = [9] /\ win (fst r2) = fst h /\ snd r2 = snd h /\ cps (fst r2) = cps ms /\ wdel (fst r2) = wdel ms.
Proof. exact mupsert_enter_is_half1. Qed.
Print Assumptions C08_mupsert_enter_is_half1.

