(** C11_micro. Writes split between building the command and sending it; the queue at every micro step
    This file only pins statements: every theorem restates a lemma of proofs/ verbatim and is closed by it. *)
From CacheD Require Import Base Sketch Model Window Micro.
From CacheD.proofs Require Import Defs ApiProofs HistoryProofs StatsProofs.
From CacheD.proofs Require Import MicroProofs MicroFifo MicroAck.

(** (C11 for every micro step, no condition on the state or the event): whatever micro step is taken - by a
   caller at any schedule point, by the worker inside any command, by the sweeper, the consumer, any stage of shutdown() -
   the command queue either grows at its tail, or loses its head to the (live) worker, or is emptied by the worker
   executing Shutdown at its head *)
Theorem C11_micro_queue_fifo_all :
  forall cfg ms ev, qstep (mbase ms) (mbase (fst (mstep cfg ms ev))).
Proof. exact micro_queue_fifo_all. Qed.
Print Assumptions C11_micro_queue_fifo_all.

(** (one at a time): the worker takes a command from the queue only when it has none in flight - neither inside a
   Delete or a put (Micro.v's windows) nor inside a put with time-to-live (Window.v's window) *)
Theorem C11_micro_worker_one_at_a_time :
  forall cfg ms orc,
  wdel ms <> None \/ wpending (win ms) <> None ->
  mstep cfg ms (MWorker1 orc) = (ms, [6]) /\ mstep cfg ms (MWin (WBase (EWorker orc))) = (ms, [6]).
Proof. exact micro_worker_one_at_a_time. Qed.
Print Assumptions C11_micro_worker_one_at_a_time.

(** (ids are not reused): at every state of every micro schedule an acknowledgement id is queued or in flight at most
   once, and every id that has a status or is queued or in flight was handed out (is below the counter) *)
Theorem C11_micro_ack_ids_unique_all :
  forall cfg evs a,
  let ms := mrun cfg evs in a <> -1 ->
  (count_occ Z.eq_dec (map snd (queue (mbase ms)) ++ inflight ms) a <= 1)%nat /\
  (forall x, alookup a (acks (mbase ms)) = Some x -> 0 <= a < next_ack (mbase ms)).
Proof. exact micro_ack_ids_unique_all. Qed.
Print Assumptions C11_micro_ack_ids_unique_all.

(** (C13 / C12 at every state of every micro schedule, no condition on the events): while the worker has not
   panicked, an acknowledgement is pending exactly when its command is still queued or in flight inside the worker (in
   any of its windows); every id handed out is below the id counter; no id is queued or in flight twice *)
Theorem C11_micro_ack_pending_iff_all :
  forall cfg evs a,
  let ms := mrun cfg evs in
  worker (mbase ms) <> Dead -> 0 <= a ->
  (alookup a (acks (mbase ms)) = Some Pending <-> In a (map snd (queue (mbase ms))) \/ In a (inflight ms)).
Proof. exact micro_ack_pending_iff_all. Qed.
Print Assumptions C11_micro_ack_pending_iff_all.

(** the micro steps of one call, executed back to back by a caller that is not inside another call, are the
   atomic call of Model.v: same state, same observation, and the caller is out of every window again *)
Theorem C11_mcall_atomic :
  forall cfg tid r idxs ms,
  caller_free ms tid = true ->
  (forall k v w ttl rm, r <> RUpsert k v w ttl rm) ->
  pool_admissible cfg r idxs (mbase ms) ->
  mcall cfg tid r idxs ms =
  (with_mbase ms (fst (call cfg tid r idxs (mbase ms))), snd (call cfg tid r idxs (mbase ms))).
Proof. exact mcall_atomic. Qed.
Print Assumptions C11_mcall_atomic.

(** the three steps of the worker's Delete, back to back, are the atomic worker step *)
Theorem C11_mdelete_atomic :
  forall cfg orc ms k a q,
  wdel ms = None -> wpending (win ms) = None -> worker (mbase ms) = Alive -> queue (mbase ms) = (CDelete k, a) :: q ->
  let r1 := mworker1 cfg ms orc in
  let r2 := if stopped (snd r1) then mworker2 cfg (fst r1) else r1 in
  let r3 := if stopped (snd r2) then mworker2 cfg (fst r2) else r2 in
  let atomic := worker_step cfg orc (mbase ms) in
  mbase (fst r3) = fst atomic /\ snd r3 = snd atomic /\ wdel (fst r3) = None /\ cps (fst r3) = cps ms /\
  ups (win (fst r3)) = ups (win ms) /\ wpending (win (fst r3)) = None.
Proof. exact mdelete_atomic. Qed.
Print Assumptions C11_mdelete_atomic.

(** the steps of the worker's put (admission | store insert, and with a time-to-live | index registration), back
   to back, are the atomic worker step *)
Theorem C11_mput_atomic :
  forall cfg orc ms k v id h w ttl a q,
  wdel ms = None -> wpending (win ms) = None -> worker (mbase ms) = Alive ->
  queue (mbase ms) = (match ttl with None => CPut k v id h w | Some t => CPutTTL k v id h w t end, a) :: q ->
  let r1 := mworker1 cfg ms orc in
  let r2 := if stopped (snd r1) then mworker2 cfg (fst r1) else r1 in
  let r3 := if stopped (snd r2) then mworker2 cfg (fst r2) else r2 in
  let atomic := worker_step cfg orc (mbase ms) in
  mbase (fst r3) = fst atomic /\ snd r3 = snd atomic /\ wdel (fst r3) = None /\ cps (fst r3) = cps ms /\
  ups (win (fst r3)) = ups (win ms) /\ wpending (win (fst r3)) = None.
Proof. exact mput_atomic. Qed.
Print Assumptions C11_mput_atomic.

(** a micro schedule whose calls are not overtaken (each call's micro steps run back to back; in between, any
   events of the window model) reaches exactly the states of the window model with those calls as atomic events; together
   with [atomic_schedule_refines] (Window.v without overtaking = Model.v) every theorem about Model.v transfers *)
Theorem C11_micro_schedule_refines :
  forall cfg ces ms,
  cps ms = [] -> wdel ms = None -> adm_run cfg ms ces ->
  win (fold_left (cstep_m cfg) ces ms) = fold_left (cstep_w cfg) ces (win ms) /\
  cps (fold_left (cstep_m cfg) ces ms) = [] /\ wdel (fold_left (cstep_m cfg) ces ms) = None.
Proof. exact micro_schedule_refines. Qed.
Print Assumptions C11_micro_schedule_refines.

