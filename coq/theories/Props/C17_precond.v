(** C17_precond. The documented preconditions: what the builders accept is what the theorems assume
    This file only pins statements: every theorem restates a lemma of proofs/ verbatim and is closed by it. *)
From CacheD Require Import Base Sketch Model Precond.
From CacheD.proofs Require Import Defs.
From CacheD.proofs Require Import PrecondProofs.

(** a configuration the builder accepts satisfies every numeric premise of [wf_config] (the remaining fields of
   [wf_config] are the harness's four sketch seeds, a clock that starts after the epoch, the overflow-checking profile,
   and the i64 / usize ranges of the arguments' types) *)
Theorem C17_accepted_config_is_wf :
  forall cfg capacity,
  config_accepted (c_counters cfg) capacity (c_max cfg) (c_pool cfg) (c_buffer cfg) (c_queue cfg) (c_shards cfg) = true ->
  c_max cfg <= i64_max -> c_counters cfg <= two63 -> length (c_seeds cfg) = 4%nat -> 0 <= c_t0 cfg -> c_debug cfg = true ->
  wf_config cfg.
Proof. exact accepted_config_is_wf. Qed.
Print Assumptions C17_accepted_config_is_wf.

(** the put_or_update requests the builder accepts are exactly the valid ones *)
Theorem C17_accepted_upsert_iff_valid :
  forall k v w ttl rm,
  (forall x, ttl = Some x -> 0 <= x) ->
  (upsert_accepted v w ttl rm = true <-> valid_request (RUpsert k v w ttl rm)).
Proof. exact accepted_upsert_iff_valid. Qed.
Print Assumptions C17_accepted_upsert_iff_valid.

(** the explicit weights the put variants accept (assert!(weight > 0)) are the valid ones *)
Theorem C17_accepted_put_weight_iff_valid :
  forall k v w ttl,
  0 <= ttl -> ((0 <? w) = true <-> valid_request (RPutWTTL k v w ttl)) /\ ((0 <? w) = true <-> valid_request (RPutW k v w)).
Proof. exact accepted_put_weight_iff_valid. Qed.
Print Assumptions C17_accepted_put_weight_iff_valid.

