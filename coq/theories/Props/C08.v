(** C08. put_or_update changes exactly what was requested, or acts as put
    This file only pins statements: every theorem restates a lemma of proofs/ verbatim and is closed by it. *)
From CacheD Require Import Base Sketch Model.
From CacheD.proofs Require Import Closing ApiProofs.

(** on a physically present key the entry is changed exactly as requested, immediately, and no other
   key is touched *)
Theorem C08_upsert_present_fields :
  forall cfg tid k v w ttl rm s e s' ret,
  alookup k (store s) = Some e ->
  (forall t, ttl = Some t -> rm = false -> calc_expiry (now s) t = Some (now s + t)) ->
  call_upsert cfg tid k v w ttl rm s = (s', ret) ->
  (exists e', alookup k (store s') = Some e' /\
     e_val e' = (match v with Some x => x | None => e_val e end) /\
     e_id e' = e_id e /\ e_soft e' = e_soft e /\
     e_exp e' = (if rm then None else match ttl with Some t => Some (now s + t) | None => e_exp e end)) /\
  (forall k', k' <> k -> alookup k' (store s') = alookup k' (store s)) /\
  weights s' = weights s /\ used s' = used s.
Proof. close_with upsert_present_fields. Qed.
Print Assumptions C08_upsert_present_fields.

(** what the call reports and queues for a present key: the weight to charge is the explicit one, else the
   recomputed one, else the old charge +-24 when a time-to-live is added / removed, else nothing *)
Theorem C08_upsert_present_weight :
  forall cfg tid k v w ttl rm s e s' ret,
  wf_config cfg -> alookup k (store s) = Some e ->
  (forall t, ttl = Some t -> rm = false -> calc_expiry (now s) t = Some (now s + t)) ->
  worker s = Alive -> Z.of_nat (length (queue s)) < c_queue cfg ->
  call_upsert cfg tid k v w ttl rm s = (s', ret) ->
  let old := match alookup (e_id e) (weights s) with Some wk => w_weight wk | None => 0 end in
  let new_exp := if rm then None else match ttl with Some t => Some (now s + t) | None => e_exp e end in
  let target :=
    match upsert_weight cfg k v w ttl with
    | Some x => Some x
    | None => match type_of_expiry_update (e_exp e) new_exp with
              | XAdded _ => Some (old + ttl_entry_size)
              | XDeleted _ => Some (old - ttl_entry_size)
              | _ => None
              end
    end in
  match target with
  | None => ret = [1; status_code Accepted] /\ queue s' = queue s
  | Some x =>
      (0 < x -> in_i64 x = true -> ret = [0; next_ack s] /\ queue s' = queue s ++ [(CUpdateWeight (e_id e) x, next_ack s)]) /\
      (x <= 0 -> in_i64 x = true -> ret = [4; site_upsert_weight] /\ queue s' = queue s)
  end.
Proof. close_with upsert_present_weight. Qed.
Print Assumptions C08_upsert_present_weight.

(** on a physically absent key put_or_update is exactly the corresponding put *)
Theorem C08_upsert_absent_is_put :
  forall cfg tid k val w ttl rm s,
  alookup k (store s) = None ->
  call_upsert cfg tid k (Some val) w ttl rm s =
  call_put cfg tid k val (match upsert_weight cfg k (Some val) w ttl with Some x => x | None => 0 end) ttl s.
Proof. close_with upsert_absent_is_put. Qed.
Print Assumptions C08_upsert_absent_is_put.

(** once UpdateWeight is executed the charge is the requested weight *)
Theorem C08_update_weight_charged :
  forall cfg orc s id w a q wk,
  wf_config cfg -> worker s = Alive -> queue s = (CUpdateWeight id w, a) :: q ->
  alookup id (weights s) = Some wk -> in_i64 (used s + (w - w_weight wk)) = true ->
  let s' := step_state cfg s (EWorker orc) in
  alookup id (weights s') = Some (Build_wkey (w_key wk) (w_hash wk) w) /\
  used s' = used s + w - w_weight wk /\ store s' = store s /\
  alookup a (acks s') = Some Accepted.
Proof. close_with update_weight_charged. Qed.
Print Assumptions C08_update_weight_charged.

