(** C15_pool. Reads never wait for the sketch; access records are counted or dropped: every interleaving of any number of readers, buffers and the consumer
    This file only pins statements: every theorem restates a lemma of proofs/ verbatim and is closed by it. *)
From CacheD Require Import Base PoolProto PoolRun.
From CacheD.proofs Require Import PoolProofs PoolRunProofs.

(** conservation at every instant of every interleaving, for every buffer capacity, channel capacity, number of
   readers and choice of buffers *)
Theorem C15_all_interleavings_hits_conserved :
  forall cap cc sched,
  let s := prun cap cc sched in
  q_hits s = in_flight s + buffered s + q_added s + q_dropped s.
Proof. exact hits_conserved. Qed.
Print Assumptions C15_all_interleavings_hits_conserved.

(** what was counted as added is queued for the consumer or already applied by it (while it is alive) *)
Theorem C15_all_interleavings_added_conserved :
  forall cap cc sched,
  let s := prun cap cc sched in
  q_consumer s = true -> q_added s = in_chan s + q_delivered s.
Proof. exact added_conserved. Qed.
Print Assumptions C15_all_interleavings_added_conserved.

(** a buffer never holds more than its capacity, the channel never more than its capacity *)
Theorem C15_pool_bounded :
  forall cap cc sched i, 1 <= cap -> 0 <= cc ->
  let s := prun cap cc sched in
  Z.of_nat (length (buf s i)) <= cap /\ Z.of_nat (length (q_chan s)) <= cc.
Proof. exact pool_bounded. Qed.
Print Assumptions C15_pool_bounded.

(** a read never waits for the sketch or its consumer: the only step that can be disabled is taking the buffer
   lock, and then the lock is held by another reader whose own next step is enabled whatever the state of the channel
   and of the consumer *)
Theorem C15_reader_never_waits_for_consumer :
  forall cap cc sched r,
  let s := prun cap cc sched in
  penabled s r = false ->
  exists h i r', rpc_of s r = RHit h i /\ alookup i (q_locks s) = Some r' /\ r' <> r /\ penabled s r' = true /\
                 (exists h', rpc_of s r' = RLocked h' i \/ rpc_of s r' = RDrained h' i \/ rpc_of s r' = RPushed i).
Proof. exact reader_never_waits_for_consumer. Qed.
Print Assumptions C15_reader_never_waits_for_consumer.

(** (C15): at every state the action-level correspondence observes on the model side - after any number of groups
   of reader actions, for every buffer and channel capacity - every counted hit is in flight, buffered, handed over or
   counted as dropped: none is lost, none counted twice *)
Theorem C15_pool_trace_hits_conserved :
  forall cap cc groups st,
  In st (ptrace (pinit cap cc) groups) -> q_hits st = in_flight st + buffered st + q_added st + q_dropped st.
Proof. exact pool_trace_hits_conserved. Qed.
Print Assumptions C15_pool_trace_hits_conserved.

(** (C15): and no buffer ever holds more than its capacity *)
Theorem C15_pool_trace_bounded :
  forall cap cc groups st i, 1 <= cap -> 0 <= cc ->
  In st (ptrace (pinit cap cc) groups) -> Z.of_nat (length (buf st i)) <= cap.
Proof. exact pool_trace_bounded. Qed.
Print Assumptions C15_pool_trace_bounded.

