(** C13. Shutdown refuses new work, answers every pending command, never blocks
    This file only pins statements: every theorem restates a lemma of proofs/ verbatim and is closed by it. *)
From CacheD Require Import Base Sketch Model.
From CacheD.proofs Require Import Closing ApiProofs HistoryProofs.

(** the shutdown flag is never reset *)
Theorem C13_shut_stable :
  forall cfg s ev, shut s = true -> shut (step_state cfg s ev) = true.
Proof. close_with shut_stable. Qed.
Print Assumptions C13_shut_stable.

(** once the flag is set every write call returns an error and every read returns absent / empty, and
   neither changes anything (weight calculation of the harness's functions is positive, so put() reaches the check) *)
Theorem C13_after_shutdown_refused :
  forall cfg tid r idxs s, shut s = true -> amem tid (blocked s) = false ->
  (is_write_request r -> valid_request r -> step cfg s (ECall tid r idxs) = (s, [2])) /\
  (is_read_request r -> step cfg s (ECall tid r idxs) = (s, [5])) /\
  (r = RShutdown -> step cfg s (ECall tid r idxs) = (s, [5])).
Proof. close_with after_shutdown_refused. Qed.
Print Assumptions C13_after_shutdown_refused.

(** once the worker has executed Shutdown no acknowledgement is left pending, and none ever will be *)
Theorem C13_every_ack_answered :
  forall cfg evs a,
  worker (run_from cfg (init cfg) evs) = Draining ->
  alookup a (acks (run_from cfg (init cfg) evs)) <> Some Pending.
Proof. close_with draining_no_pending. Qed.
Print Assumptions C13_every_ack_answered.

Theorem C13_pending_iff_queued :
  forall cfg evs, AckInv (run_from cfg (init cfg) evs).
Proof. close_with ack_inv_run. Qed.
Print Assumptions C13_pending_iff_queued.

Theorem C13_shutdown_unblocks_reachable :
  forall cfg evs tid,
  let s := run_from cfg (init cfg) evs in
  0 < c_queue cfg -> alookup tid (blocked s) = Some KShutdownCmd ->
  ((Z.of_nat (length (queue s)) < c_queue cfg \/ worker s <> Alive) -> snd (step cfg s (ERun tid)) <> [6]) /\
  (worker s = Alive -> c_queue cfg <= Z.of_nat (length (queue s)) ->
     queue s <> [] /\
     forall orc, let s' := step_state cfg s (EWorker orc) in
       queue s' <> queue s -> snd (step cfg s' (ERun tid)) <> [6]).
Proof. close_with shutdown_unblocks_reachable. Qed.
Print Assumptions C13_shutdown_unblocks_reachable.

Theorem C13_shutdown_unblocks_chan_reachable :
  forall cfg evs tid,
  let s := run_from cfg (init cfg) evs in
  alookup tid (blocked s) = Some KShutdownChan ->
  ((Z.of_nat (length (chan s)) < chan_capacity \/ consumer s <> Alive) -> snd (step cfg s (ERun tid)) <> [6]) /\
  (consumer s = Alive -> chan_capacity <= Z.of_nat (length (chan s)) ->
     chan s <> [] /\
     forall bl, let s' := step_state cfg s (EDrain bl) in
       chan s' <> chan s -> snd (step cfg s' (ERun tid)) <> [6]).
Proof. close_with shutdown_unblocks_chan_reachable. Qed.
Print Assumptions C13_shutdown_unblocks_chan_reachable.

(** a second shutdown() returns at once *)
Theorem C13_second_shutdown_returns :
  forall cfg tid idxs s, shut s = true -> amem tid (blocked s) = false ->
  step cfg s (ECall tid RShutdown idxs) = (s, [5]).
Proof. close_with second_shutdown_returns. Qed.
Print Assumptions C13_second_shutdown_returns.

(** a completed shutdown() leaves the flag set, the stop flags cleared and the store, ledger and expiry
   index empty *)
Theorem C13_shutdown_completed_effect :
  forall cfg tid idxs s s' ret,
  amem tid (blocked s) = false -> shut s = false ->
  step cfg s (ECall tid RShutdown idxs) = (s', ret) -> ret = [5] ->
  shut s' = true /\ store s' = [] /\ weights s' = [] /\ used s' = 0 /\ ticker s' = [] /\
  consumer_run s' = false /\ sweeper_run s' = false.
Proof. close_with shutdown_completed_effect. Qed.
Print Assumptions C13_shutdown_completed_effect.

(** the queue never exceeds its capacity: a send on a full queue parks the caller instead *)
Theorem C13_queue_bounded :
  forall cfg evs, 0 < c_queue cfg ->
  Z.of_nat (length (queue (run_from cfg (init cfg) evs))) <= c_queue cfg.
Proof. close_with queue_bounded. Qed.
Print Assumptions C13_queue_bounded.

Theorem C13_chan_bounded :
  forall cfg evs, Z.of_nat (length (chan (run_from cfg (init cfg) evs))) <= chan_capacity.
Proof. close_with chan_bounded. Qed.
Print Assumptions C13_chan_bounded.

