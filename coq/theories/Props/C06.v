(** C06. Admission follows the TinyLFU rule
    This file only pins statements: every theorem restates a lemma of proofs/ verbatim and is closed by it. *)
From CacheD Require Import Base Sketch Model.
From CacheD.proofs Require Import Closing InvProofs AdmissionProofs.

(** a put heavier than the whole cache is rejected for that reason and changes nothing *)
Theorem C06_admission_too_heavy :
  forall cfg orc k id h w s,
  c_max cfg < w -> admission cfg orc k id h w s = (AdStatus (Rejected TooHeavy), s, []).
Proof. close_with admission_too_heavy. Qed.
Print Assumptions C06_admission_too_heavy.

(** a put that fits in the free space is accepted, evicts nothing, and only charges the incoming id *)
Theorem C06_admission_fits :
  forall cfg orc k id h w s,
  wf_config cfg -> 0 <= used s -> 0 < w -> w <= c_max cfg - used s ->
  admission cfg orc k id h w s = (AdStatus Accepted, charged k id h w s, []).
Proof. close_with admission_fits. Qed.
Print Assumptions C06_admission_fits.

(** what an admissible pop is *)
Theorem C06_is_max_spec :
  forall x sm, In x sm -> (is_max x sm = true <-> victim_ok sm x).
Proof. close_with is_max_spec. Qed.
Print Assumptions C06_is_max_spec.

(** filling the sample keeps it consistent, without duplicates, never beyond five elements *)
Theorem C06_sample_fill_spec :
  forall est s order sm sm',
  sample_ok s sm -> (length sm <= sample_size)%nat ->
  sample_fill est (weights s) order sm = Some sm' ->
  sample_ok s sm' /\ (length sm' <= sample_size)%nat /\
  (exists added, sm' = sm ++ added /\ forall x, In x added -> In (sk_id x) order /\ sk_freq x = est (match alookup (sk_id x) (weights s) with Some wk => w_hash wk | None => 0 end)) /\
  ((length sm' < sample_size)%nat -> forall id, In id (akeys (weights s)) -> In id (map sk_id sm')).
Proof. close_with sample_fill_spec. Qed.
Print Assumptions C06_sample_fill_spec.

(** the eviction loop.  Victims are taken one at a time, each the lowest-frequency element of the sample at
   its turn, only while the victim's estimate does not exceed the incoming key's; the loop accepts exactly when enough
   space results; everything outside store / ledger / statistics is untouched. *)
Theorem C06_create_space_spec :
  forall fuel cfg est inc w orders pops sm s vs res s' vs',
  wf_config cfg -> Inv cfg s -> sample_ok s sm ->
  create_space_loop fuel cfg est inc w orders pops sm (c_max cfg - used s) s vs = (res, s', vs') ->
  (forall why, res <> SpInadmissible why) -> (forall site, res <> SpPanic site) ->
  exists new sms,
    vs' = vs ++ new /\
    Forall2 victim_ok sms new /\
    (forall sm0 rest, sms = sm0 :: rest -> sm0 = sm) /\
    Forall (fun v => sk_freq v <= inc) new /\
    (res = SpAccepted -> w <= c_max cfg - used s') /\
    (res = SpRejected -> c_max cfg - used s' < w) /\
    used s' = used s - zsum (map sk_weight new) /\
    weights s' = fold_left (fun ws v => aremove (sk_id v) ws) new (weights s) /\
    (forall k, alookup k (store s') = if existsb (fun v => match alookup (sk_id v) (weights s) with Some wk => w_key wk =? k | None => false end) new
                                      then None else alookup k (store s)) /\
    same_outside_ledger s s' /\ Inv cfg s'.
Proof. close_with create_space_spec. Qed.
Print Assumptions C06_create_space_spec.

(** the fuel given by [admission] is never exhausted *)
Theorem C06_create_space_fuel_sufficient :
  forall cfg est inc w orders pops sm s vs,
  wf_config cfg -> Inv cfg s -> sample_ok s sm ->
  forall res s' vs', create_space_loop (length (weights s) + 7) cfg est inc w orders pops sm (c_max cfg - used s) s vs = (res, s', vs') ->
  res <> SpInadmissible 9.
Proof. close_with create_space_fuel_sufficient. Qed.
Print Assumptions C06_create_space_fuel_sufficient.

(** the whole admission decision.  Accepted exactly when the space after the evictions suffices;
   victims never hotter than the incoming key; partial evictions of a rejected put stay evicted. *)
Theorem C06_admission_spec :
  forall cfg orc k id h w s res s' vs,
  wf_config cfg -> Inv cfg s -> 0 < w -> alookup id (weights s) = None ->
  admission cfg orc k id h w s = (AdStatus res, s', vs) ->
  (res = Accepted \/ res = Rejected NoSpace \/ res = Rejected TooHeavy) /\
  (res = Rejected TooHeavy <-> c_max cfg < w) /\
  (w <= c_max cfg - used s -> res = Accepted /\ vs = []) /\
  Forall (fun v => sk_freq v <= estimate_with (lfu s) (o_bloom orc) h) vs /\
  (res = Accepted -> used s' <= c_max cfg /\ alookup id (weights s') = Some (Build_wkey k h w) /\
                     used s' = used s - zsum (map sk_weight vs) + w) /\
  (res = Rejected NoSpace -> c_max cfg - used s' < w /\ used s' = used s - zsum (map sk_weight vs) /\ alookup id (weights s') = None) /\
  same_outside_ledger s s'.
Proof. close_with admission_spec. Qed.
Print Assumptions C06_admission_spec.

