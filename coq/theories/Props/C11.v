(** C11. Writes are applied exactly once, one at a time, in submission order
    This file only pins statements: every theorem restates a lemma of proofs/ verbatim and is closed by it. *)
From CacheD Require Import Base Sketch Model.
From CacheD.proofs Require Import Closing ApiProofs HistoryProofs.

(** events other than worker steps only ever append to the queue *)
Theorem C11_queue_only_appended :
  forall cfg s ev, (forall orc, ev <> EWorker orc) ->
  exists added, queue (step_state cfg s ev) = queue s ++ added.
Proof. close_with queue_only_appended. Qed.
Print Assumptions C11_queue_only_appended.

(** a worker step removes exactly the head (one command at a time), or - executing Shutdown - answers and
   drops everything behind it, or does nothing *)
Theorem C11_worker_takes_head :
  forall cfg s orc,
  let s' := step_state cfg s (EWorker orc) in
  queue s' = queue s \/
  (exists x q, queue s = x :: q /\ queue s' = q /\ worker s = Alive) \/
  (exists a q, queue s = (CShutdown, a) :: q /\ queue s' = [] /\ worker s' = Draining).
Proof. close_with worker_takes_head. Qed.
Print Assumptions C11_worker_takes_head.

(** FIFO, exactly once: while the worker has not executed Shutdown, what it has executed followed by what is
   still queued is exactly what was enqueued, in order: nothing dropped, duplicated or reordered, for every capacity *)
Theorem C11_executed_is_prefix_of_sent :
  forall cfg evs,
  worker (run_from cfg (init cfg) evs) = Alive ->
  exec_log cfg (init cfg) evs ++ queue (run_from cfg (init cfg) evs) = sent_log cfg (init cfg) evs.
Proof. close_with executed_is_prefix_of_sent. Qed.
Print Assumptions C11_executed_is_prefix_of_sent.

(** the queue never exceeds its capacity: a send on a full queue parks the caller instead *)
Theorem C11_queue_bounded :
  forall cfg evs, 0 < c_queue cfg ->
  Z.of_nat (length (queue (run_from cfg (init cfg) evs))) <= c_queue cfg.
Proof. close_with queue_bounded. Qed.
Print Assumptions C11_queue_bounded.

Theorem C11_ack_inv_run :
  forall cfg evs, AckInv (run_from cfg (init cfg) evs).
Proof. close_with ack_inv_run. Qed.
Print Assumptions C11_ack_inv_run.

(** a resolved acknowledgement never changes again (resolves exactly once) *)
Theorem C11_ack_resolved_stable :
  forall cfg evs ev a x,
  let s := run_from cfg (init cfg) evs in
  alookup a (acks s) = Some x -> x <> Pending ->
  alookup a (acks (step_state cfg s ev)) = Some x.
Proof. close_with ack_resolved_stable. Qed.
Print Assumptions C11_ack_resolved_stable.

(** acknowledgements of queued commands complete in queue order: when the worker resolves an ack, every
   ack queued before it is already resolved *)
Theorem C11_acks_complete_in_order :
  forall cfg evs orc a,
  let s := run_from cfg (init cfg) evs in
  let s' := step_state cfg s (EWorker orc) in
  worker s = Alive -> worker s' <> Dead ->
  alookup a (acks s) = Some Pending -> alookup a (acks s') <> Some Pending ->
  (exists c q, queue s = (c, a) :: q) \/ (exists a0 q, queue s = (CShutdown, a0) :: q /\ In a (map snd q)).
Proof. close_with acks_complete_in_order. Qed.
Print Assumptions C11_acks_complete_in_order.

