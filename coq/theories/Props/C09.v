(** C09. Expired values are never served
    This file only pins statements: every theorem restates a lemma of proofs/ verbatim and is closed by it. *)
From CacheD Require Import Base Sketch Model.
From CacheD.proofs Require Import Closing ApiProofs.

(** a key is served iff it is stored, not soft-deleted, and the clock is not past its expiry *)
Theorem C09_lookup_alive_spec :
  forall k s e,
  lookup_alive k s = Some e <->
  alookup k (store s) = Some e /\ e_soft e = false /\ (forall t, e_exp e = Some t -> now s <= t).
Proof. close_with lookup_alive_spec. Qed.
Print Assumptions C09_lookup_alive_spec.

(** never served after expiry *)
Theorem C09_lookup_alive_expired :
  forall k s e t,
  alookup k (store s) = Some e -> e_exp e = Some t -> t < now s -> lookup_alive k s = None.
Proof. close_with lookup_alive_expired. Qed.
Print Assumptions C09_lookup_alive_expired.

(** keys without a time-to-live never expire *)
Theorem C09_lookup_alive_no_ttl :
  forall k s e,
  alookup k (store s) = Some e -> e_exp e = None -> e_soft e = false -> lookup_alive k s = Some e.
Proof. close_with lookup_alive_no_ttl. Qed.
Print Assumptions C09_lookup_alive_no_ttl.

(** one lookup: the value of the live entry or absent; exactly one of hit / miss; on a hit exactly one
   access record goes to the pool *)
Theorem C09_read_one_spec :
  forall cfg k idxs s v s' idxs',
  read_one cfg k idxs s = Some (v, s', idxs') ->
  read_frame s s' /\
  ((lookup_alive k s = None /\ v = -1 /\ s' = upd_st add_misses 1 s /\ idxs' = idxs) \/
   (exists e i, lookup_alive k s = Some e /\ v = e_val e /\ idxs = i :: idxs' /\
                pool_add cfg i (key_hash (c_hash cfg) k) (upd_st add_hits 1 s) = Some s')).
Proof. close_with read_one_spec. Qed.
Print Assumptions C09_read_one_spec.

(** the expiry of a put is the time it is applied plus the time-to-live; a plain put never expires *)
Theorem C09_expiry_is_apply_time_plus_ttl :
  forall cfg orc s c a q,
  worker s = Alive -> queue s = (c, a) :: q ->
  alookup a (acks s) = Some Pending ->
  let s' := step_state cfg s (EWorker orc) in
  alookup a (acks s') = Some Accepted ->
  match c with
  | CPut k v id h w =>
      alookup k (store s') = Some {| e_val := v; e_id := id; e_exp := None; e_soft := false |}
  | CPutTTL k v id h w ttl =>
      alookup k (store s') = Some {| e_val := v; e_id := id; e_exp := Some (now s + ttl); e_soft := false |} /\
      alookup id (shard_entries (ticker s') (shard_index cfg (now s + ttl))) = Some (now s + ttl)
  | _ => True
  end.
Proof. close_with worker_put_entry. Qed.
Print Assumptions C09_expiry_is_apply_time_plus_ttl.

(** on a physically present key the entry is changed exactly as requested, immediately, and no other
   key is touched *)
Theorem C09_upsert_moves_the_deadline :
  forall cfg tid k v w ttl rm s e s' ret,
  alookup k (store s) = Some e ->
  (forall t, ttl = Some t -> rm = false -> calc_expiry (now s) t = Some (now s + t)) ->
  call_upsert cfg tid k v w ttl rm s = (s', ret) ->
  (exists e', alookup k (store s') = Some e' /\
     e_val e' = (match v with Some x => x | None => e_val e end) /\
     e_id e' = e_id e /\ e_soft e' = e_soft e /\
     e_exp e' = (if rm then None else match ttl with Some t => Some (now s + t) | None => e_exp e end)) /\
  (forall k', k' <> k -> alookup k' (store s') = alookup k' (store s)) /\
  weights s' = weights s /\ used s' = used s.
Proof. close_with upsert_present_fields. Qed.
Print Assumptions C09_upsert_moves_the_deadline.

(** reads use "now > expiry", the sweeper removes "expiry < now": a key that is served is not sweepable *)
Theorem C09_boundary_agrees_with_sweeper :
  forall now_ e t,
  e_exp e = Some t -> e_soft e = false -> is_alive now_ e = negb (t <? now_).
Proof. close_with boundary_agrees_with_sweeper. Qed.
Print Assumptions C09_boundary_agrees_with_sweeper.

