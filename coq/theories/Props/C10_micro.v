(** C10_micro. Sweeps at every state of every interleaving of micro steps
    This file only pins statements: every theorem restates a lemma of proofs/ verbatim and is closed by it. *)
From CacheD Require Import Base Sketch Model Window Micro.
From CacheD.proofs Require Import Defs ApiProofs HistoryProofs StatsProofs.
From CacheD.proofs Require Import MicroProofs MicroBound.

(** (C10 / C03 at every state of every interleaving of the micro steps of puts, deletes and reads): a sweep spares
   every key that has no time-to-live, whose expiry has not passed, or whose expiry belongs to another shard *)
Theorem C10_micro_sweep_spares :
  forall cfg evs k e, wf_config cfg -> Forall plain_micro evs ->
  let ms := mrun cfg evs in
  worker (mbase ms) <> Dead -> sweeper (mbase ms) = Alive ->
  alookup k (store (mbase ms)) = Some e ->
  (e_exp e = None \/ (exists t, e_exp e = Some t /\ now (mbase ms) <= t) \/
   (exists t, e_exp e = Some t /\ shard_index cfg t <> shard_index cfg (now (mbase ms)))) ->
  alookup k (store (mbase (fst (mstep cfg ms (MWin (WBase ESweep)))))) = Some e.
Proof. exact micro_sweep_spares. Qed.
Print Assumptions C10_micro_sweep_spares.

