(** C17. Valid calls never panic or kill a background worker
    This file only pins statements: every theorem restates a lemma of proofs/ verbatim and is closed by it. *)
From CacheD Require Import Base Sketch Model.
From CacheD.proofs Require Import Closing InvProofs PanicProofs.

(** from a state satisfying the invariant, a valid event outside the identified classes does not panic in the
   caller and kills neither the worker, nor the sweeper, nor the consumer; and the invariant carries on *)
Theorem C17_valid_calls_never_panic :
  forall cfg s ev, wf_config cfg -> Inv cfg s -> valid_event ev ->
  ~ risky cfg s ev ->
  ~ is_panic (snd (step cfg s ev)) /\
  (worker s <> Dead -> worker (step_state cfg s ev) <> Dead) /\
  (sweeper s <> Dead -> sweeper (step_state cfg s ev) <> Dead) /\
  (consumer s <> Dead -> consumer (step_state cfg s ev) <> Dead).
Proof. close_with valid_calls_never_panic. Qed.
Print Assumptions C17_valid_calls_never_panic.

(** along every run of valid events that never meets a risky event, nothing ever panics and all three
   background threads stay alive (not Dead) *)
Theorem C17_valid_runs_never_panic :
  forall evs cfg, wf_config cfg -> Forall valid_event evs ->
  Forall (fun p => ~ risky cfg (fst p) (snd p)) (visits cfg (init cfg) evs) ->
  Forall (fun p => ~ is_panic (snd (step cfg (fst p) (snd p)))) (visits cfg (init cfg) evs) /\
  worker (run_from cfg (init cfg) evs) <> Dead /\
  sweeper (run_from cfg (init cfg) evs) <> Dead /\
  consumer (run_from cfg (init cfg) evs) <> Dead.
Proof. close_with valid_runs_never_panic. Qed.
Print Assumptions C17_valid_runs_never_panic.

(** the cache keeps serving afterwards: with a live worker, a non-full queue and no shutdown, a valid put of
   an absent key is queued, and a worker step on a fitting put answers it Accepted *)
Theorem C17_still_serves :
  forall cfg s tid k v w orc,
  wf_config cfg -> Inv cfg s -> worker s = Alive -> shut s = false -> amem tid (blocked s) = false ->
  queue s = [] -> alookup k (store s) = None -> 0 < w -> w <= c_max cfg - used s ->
  let s1 := step_state cfg s (ECall tid (RPutW k v w) []) in
  snd (step cfg s (ECall tid (RPutW k v w) [])) = [0; next_ack s] /\
  let s2 := step_state cfg s1 (EWorker orc) in
  alookup (next_ack s) (acks s2) = Some Accepted /\ served_val k s2 = v /\ worker s2 = Alive.
Proof. close_with still_serves. Qed.
Print Assumptions C17_still_serves.

(** D7 — remove_time_to_live on a key charged 10: the caller panics after store and index were changed *)
Theorem C17_known_finding_remove_ttl_small_weight :
  let evs := [ECall 0 (RPutWTTL 1 1001 10 5000000000) []; EWorker p_orc] in
  let s := run_from p_cfg (init p_cfg) evs in
  Forall valid_event (evs ++ [ECall 0 (RUpsert 1 None None None true) []]) /\
  snd (step p_cfg s (ECall 0 (RUpsert 1 None None None true) [])) = [4; site_upsert_weight].
Proof. close_with C17_refuted_remove_ttl_small_weight. Qed.
Print Assumptions C17_known_finding_remove_ttl_small_weight.

(** D9 — a put whose time-to-live overflows SystemTime kills the worker *)
Theorem C17_known_finding_ttl_overflow :
  let evs := [ECall 0 (RPutWTTL 1 1001 5 18446744073709551615999999999) []; EWorker p_orc] in
  Forall valid_event evs /\ worker (run_from p_cfg (init p_cfg) evs) = Dead.
Proof. close_with C17_refuted_ttl_overflow. Qed.
Print Assumptions C17_known_finding_ttl_overflow.

Theorem C17_one_counter_sketch_no_panic :
  forall hs, lfu_run (lfu_new 1 [1;2;3;4]) hs <> LPanic.
Proof. close_with counters_1_no_panic. Qed.
Print Assumptions C17_one_counter_sketch_no_panic.

