(** C05. Weight accounting matches the set of held keys
    This file only pins statements: every theorem restates a lemma of proofs/ verbatim and is closed by it. *)
From CacheD Require Import Base Sketch Model.
From CacheD.proofs Require Import Closing InvProofs.

Theorem C05_inv_init :
  forall cfg, wf_config cfg -> Inv cfg (init cfg).
Proof. close_with inv_init. Qed.
Print Assumptions C05_inv_init.

Theorem C05_inv_step :
  forall cfg s ev, wf_config cfg -> Inv cfg s -> valid_event ev ->
  worker (step_state cfg s ev) <> Dead -> Inv cfg (step_state cfg s ev).
Proof. close_with inv_step. Qed.
Print Assumptions C05_inv_step.

(** every state reachable by a run of valid events in which the worker did not panic satisfies Inv *)
Theorem C05_inv_run :
  forall cfg evs, wf_config cfg -> Forall valid_event evs ->
  worker (run_from cfg (init cfg) evs) <> Dead -> Inv cfg (run_from cfg (init cfg) evs).
Proof. close_with inv_run. Qed.
Print Assumptions C05_inv_run.

Theorem C05_accounting_exact :
  forall cfg s, Inv cfg s ->
  used s = zsum (map (fun p => charge_of s (snd p)) (store s)) /\
  length (weights s) = length (store s) /\
  (forall id wk, alookup id (weights s) = Some wk -> exists e, alookup (w_key wk) (store s) = Some e /\ e_id e = id) /\
  (forall k e, alookup k (store s) = Some e -> exists wk, alookup (e_id e) (weights s) = Some wk /\ w_key wk = k).
Proof. close_with accounting_exact. Qed.
Print Assumptions C05_accounting_exact.

Theorem C05_inv_background_alive :
  forall cfg s ev, wf_config cfg -> Inv cfg s -> valid_event ev ->
  (sweeper s <> Dead -> sweeper (step_state cfg s ev) <> Dead) /\
  (consumer s <> Dead -> consumer (step_state cfg s ev) <> Dead).
Proof. close_with inv_background_alive. Qed.
Print Assumptions C05_inv_background_alive.

