(** C15. Every hit is accounted exactly once; reads never wait for the counting pipeline
    This file only pins statements: every theorem restates a lemma of proofs/ verbatim and is closed by it. *)
From CacheD Require Import Base Sketch Model.
From CacheD.proofs Require Import Closing ApiProofs StatsProofs.

(** handing a full buffer over is all-or-nothing: the whole batch is queued for the consumer and counted as
   added, or the whole batch is counted as dropped; nothing else changes *)
Theorem C15_accept_batch_spec :
  forall hs s,
  let n := Z.of_nat (length hs) in
  let s' := accept_batch hs s in
  (chan s' = chan s ++ [Batch hs] /\ st s' = add_access_added (st s) n /\ consumer s = Alive /\
     Z.of_nat (length (chan s)) < chan_capacity) \/
  (chan s' = chan s /\ st s' = add_access_dropped (st s) n /\
     (consumer s <> Alive \/ chan_capacity <= Z.of_nat (length (chan s)))).
Proof. close_with accept_batch_spec. Qed.
Print Assumptions C15_accept_batch_spec.

Theorem C15_hits_accounted_step_partial :
  forall cfg s ev, wf_config cfg ->
  length (pool s) = Z.to_nat (c_pool cfg) ->
  (shut s = false -> blocked_sends s) ->
  hits_accounted s -> shut (step_state cfg s ev) = false -> hits_accounted (step_state cfg s ev).
Proof. close_with hits_accounted_step_partial. Qed.
Print Assumptions C15_hits_accounted_step_partial.

Theorem C15_hits_accounted_run :
  forall cfg evs, wf_config cfg ->
  shut (run_from cfg (init cfg) evs) = false -> hits_accounted (run_from cfg (init cfg) evs).
Proof. close_with hits_accounted_run. Qed.
Print Assumptions C15_hits_accounted_run.

(** a read never waits: whatever the state of the buffer channel and of the consumer (full, stalled, gone),
   a read call by a caller that is not parked completes: it is never parked and never disabled *)
Theorem C15_read_never_blocks :
  forall cfg tid r idxs s,
  amem tid (blocked s) = false ->
  match r with
  | RGet _ | RGetRef _ | RMapGet _ | RMapGetRef _ | RMultiGet _ | RMultiIter _ | RMultiMapIter _ =>
      let '(s', ret) := step cfg s (ECall tid r idxs) in
      (exists vs, ret = 5 :: vs) \/ ret = [7]     (* a result, or an inadmissible index oracle (never the real code) *)
  | _ => True
  end /\
  (forall k, blocked (step_state cfg s (ECall tid (RGet k) idxs)) = blocked s).
Proof. close_with read_never_blocks. Qed.
Print Assumptions C15_read_never_blocks.

(** the consumer applies a batch as a whole, under its one write lock: the sketch afterwards is the sketch
   after every access of the batch; the batch leaves the channel; statistics are untouched *)
Theorem C15_drain_applies_whole_batch :
  forall cfg bl s hs rest s' ret,
  consumer s = Alive -> chan s = Batch hs :: rest ->
  step cfg s (EDrain bl) = (s', ret) -> ret = [5] ->
  length bl = length hs /\
  lfu_run (lfu s) (combine hs bl) = LOk (lfu s') /\
  (chan s' = rest \/ (chan s' = [] /\ consumer s' = Exited)) /\
  st s' = st s /\ store s' = store s /\ weights s' = weights s /\ used s' = used s /\ pool s' = pool s.
Proof. close_with drain_applies_whole_batch. Qed.
Print Assumptions C15_drain_applies_whole_batch.

(** one lookup: the value of the live entry or absent; exactly one of hit / miss; on a hit exactly one
   access record goes to the pool *)
Theorem C15_one_record_per_hit :
  forall cfg k idxs s v s' idxs',
  read_one cfg k idxs s = Some (v, s', idxs') ->
  read_frame s s' /\
  ((lookup_alive k s = None /\ v = -1 /\ s' = upd_st add_misses 1 s /\ idxs' = idxs) \/
   (exists e i, lookup_alive k s = Some e /\ v = e_val e /\ idxs = i :: idxs' /\
                pool_add cfg i (key_hash (c_hash cfg) k) (upd_st add_hits 1 s) = Some s')).
Proof. close_with read_one_spec. Qed.
Print Assumptions C15_one_record_per_hit.

