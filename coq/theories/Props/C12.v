(** C12. Every acknowledgement resolves exactly once to the command's real outcome
    This file only pins statements: every theorem restates a lemma of proofs/ verbatim and is closed by it. *)
From CacheD Require Import Base Sketch Model Ack.
From CacheD.proofs Require Import AckProofs.

(** the flag is never visible before the status *)
Theorem C12_flag_implies_status :
  forall final pollers s, reach final pollers s -> a_flag s = true -> a_status s = final.
Proof. exact flag_implies_status. Qed.
Print Assumptions C12_flag_implies_status.

(** no poll ever yields the placeholder: a poll that returns Ready returns the status passed to done() *)
Theorem C12_never_ready_pending :
  forall final pollers s i p x, reach final pollers s ->
  alookup i (a_pollers s) = Some p -> p_result p = RReady x -> x = final.
Proof. exact never_ready_pending. Qed.
Print Assumptions C12_never_ready_pending.

(** and the same status on every later poll: once the flag is set, every poll that starts afterwards and
   finishes returns Ready final, under any continuation of the schedule *)
Theorem C12_ready_is_stable :
  forall final pollers s i p sched p', reach final pollers s ->
  a_flag s = true -> alookup i (a_pollers s) = Some p -> p_pc p = P_lock ->
  alookup i (a_pollers (fold_left (astep false final) sched s)) = Some p' -> p_pc p' = P_done ->
  p_result p' = RReady final.
Proof. exact ready_is_stable. Qed.
Print Assumptions C12_ready_is_stable.

(** the status cell is written exactly once, by the completer; the completer wakes at most once *)
Theorem C12_status_written_once :
  forall final pollers s, reach final pollers s ->
  (a_status s = Pending \/ a_status s = final) /\
  (a_dpc s = D_start -> a_status s = Pending /\ a_flag s = false) /\
  (length (a_wakes s) <= 1)%nat /\ (a_dpc s <> D_done -> a_wakes s = []).
Proof. exact status_written_once. Qed.
Print Assumptions C12_status_written_once.

(** no lost wake-up.  In every reachable state in which the completer has finished: every poll that
   returned Pending had returned before the wake step, the wake step woke exactly the waker registered most recently
   before it, and that poll's own waker had been registered by then. *)
Theorem C12_no_lost_wakeup :
  forall final pollers s i, wf_pollers pollers -> reach final pollers s ->
  a_dpc s = D_done -> In i (a_pending_returns s) ->
  In i (a_wake_seen_pending s) /\
  (exists w, a_wakes s = [w] /\ a_wake_regs s <> [] /\ w = last (a_wake_regs s) 0) /\
  (forall w, In (i, w) pollers -> In w (a_wake_regs s)).
Proof. exact no_lost_wakeup. Qed.
Print Assumptions C12_no_lost_wakeup.

(** a poll that starts after the completer finished never returns Pending *)
Theorem C12_no_pending_after_done :
  forall final pollers s i p sched p', reach final pollers s ->
  a_dpc s = D_done -> alookup i (a_pollers s) = Some p -> p_pc p = P_lock ->
  alookup i (a_pollers (fold_left (astep false final) sched s)) = Some p' -> p_result p' <> RPending.
Proof. exact no_pending_after_done. Qed.
Print Assumptions C12_no_pending_after_done.

(** no deadlock in the protocol: while anything is unfinished some thread is enabled *)
Theorem C12_ack_no_deadlock :
  forall final pollers s, wf_pollers pollers -> reach final pollers s ->
  all_finished s = false -> exists tid, aenabled s tid = true.
Proof. exact ack_no_deadlock. Qed.
Print Assumptions C12_ack_no_deadlock.

(** every enabled step makes progress, so any schedule that keeps choosing enabled threads finishes
   everything within [remaining (ainit pollers)] steps; in particular the completer finishes *)
Theorem C12_ack_enabled_step_progress :
  forall final pollers s tid, wf_pollers pollers -> reach final pollers s ->
  aenabled s tid = true -> (remaining (astep false final s tid) < remaining s)%nat.
Proof. exact ack_enabled_step_progress. Qed.
Print Assumptions C12_ack_enabled_step_progress.

(** a step that is not enabled changes nothing *)
Theorem C12_ack_disabled_step_noop :
  forall ff final s tid, aenabled s tid = false -> astep ff final s tid = s.
Proof. exact ack_disabled_step_noop. Qed.
Print Assumptions C12_ack_disabled_step_noop.

Theorem C12_original_order_refuted :
  exists p, alookup 1 (a_pollers (arun true Accepted [(1, 7)] [0; 1; 1; 1; 1])) = Some p /\ p_result p = RReady Pending.
Proof. exact C12_refuted_flag_first. Qed.
Print Assumptions C12_original_order_refuted.

