(** C10_window. Expiry sweeps with overtaking: put_or_update and the worker's put with time-to-live split at their schedule points
    This file only pins statements: every theorem restates a lemma of proofs/ verbatim and is closed by it. *)
From CacheD Require Import Base Sketch Model Window.
From CacheD.proofs Require Import Defs.
From CacheD.proofs Require Import WindowProofs.

(** put_or_update = second half after first half, when nothing overtakes it: same state, same observation *)
Theorem C10_upsert_halves_compose :
  forall cfg tid k v w ttl rm idxs ws,
  amem tid (ups ws) = false ->
  let r1 := wstep cfg ws (WUpsert1 tid k v w ttl rm) in
  let r2 := wstep cfg (fst r1) (WUpsert2 tid) in
  let atomic := step cfg (base ws) (ECall tid (RUpsert k v w ttl rm) idxs) in
  base (fst r2) = fst atomic /\ ups (fst r2) = ups ws /\ wpending (fst r2) = wpending ws /\
  snd atomic = (if list_eq_dec Z.eq_dec (snd r1) [9] then snd r2 else snd r1).
Proof. exact upsert_halves_compose. Qed.
Print Assumptions C10_upsert_halves_compose.

(** a worker step = second half after first half, when nothing overtakes it *)
Theorem C10_worker_halves_compose :
  forall cfg orc ws,
  wpending ws = None ->
  let r1 := wstep cfg ws (WPut1 orc) in
  let r2 := wstep cfg (fst r1) WPut2 in
  let atomic := step cfg (base ws) (EWorker orc) in
  base (fst r2) = fst atomic /\ ups (fst r2) = ups ws /\ wpending (fst r2) = None /\
  snd atomic = (if list_eq_dec Z.eq_dec (snd r1) [9] then snd r2 else snd r1).
Proof. exact worker_halves_compose. Qed.
Print Assumptions C10_worker_halves_compose.

(** without overtaking the window model reaches exactly the states of the atomic model *)
Theorem C10_atomic_schedule_refines :
  forall cfg evs evs',
  collapse evs = Some evs' ->
  base (wrun cfg evs) = run_from cfg (init cfg) evs' /\ ups (wrun cfg evs) = [] /\ wpending (wrun cfg evs) = None.
Proof. exact atomic_schedule_refines. Qed.
Print Assumptions C10_atomic_schedule_refines.

(** hence, without overtaking, the invariant of the atomic model holds and a sweep spares every key whose time
   to live has not passed *)
Theorem C10_atomic_schedule_sweep_spares :
  forall cfg evs evs' k e,
  wf_config cfg -> collapse evs = Some evs' -> Forall valid_event evs' ->
  worker (base (wrun cfg evs)) <> Dead -> sweeper (base (wrun cfg evs)) = Alive ->
  alookup k (store (base (wrun cfg evs))) = Some e ->
  (e_exp e = None \/ exists t, e_exp e = Some t /\ now (base (wrun cfg evs)) <= t) ->
  removed_live cfg (wrun cfg evs) (WBase ESweep) k = false.
Proof. exact atomic_schedule_sweep_spares. Qed.
Print Assumptions C10_atomic_schedule_sweep_spares.

(** known finding (C10, C08) - with overtaking, a sweep removes a key whose time to live has not passed *)
Theorem C10_known_finding_sweep_inside_upsert_window :
  removed_live wcfg (wrun wcfg d11) (WBase ESweep) 1 = true.
Proof. exact sweep_inside_upsert_window_refuted. Qed.
Print Assumptions C10_known_finding_sweep_inside_upsert_window.

(** known finding (C10) - a stale second index entry makes a later sweep remove the live key *)
Theorem C10_known_finding_stale_duplicate_index_entry :
  removed_live wcfg (wrun wcfg d12) (WBase ESweep) 1 = true.
Proof. exact stale_duplicate_index_entry_refuted. Qed.
Print Assumptions C10_known_finding_stale_duplicate_index_entry.

