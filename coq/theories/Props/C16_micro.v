(** C16_micro. Key and weight balances at every state of every micro schedule, all windows included
    This file only pins statements: every theorem restates a lemma of proofs/ verbatim and is closed by it. *)
From CacheD Require Import Base Sketch Model Window Micro.
From CacheD.proofs Require Import Defs ApiProofs HistoryProofs StatsProofs.
From CacheD.proofs Require Import MicroProofs MicroBal.

(** (C16 at every state of every micro schedule): both balances are preserved by every micro step of every
   thread - put_or_update's two halves, the worker's windows inside put, put with time-to-live and Delete, every caller
   step - as long as no caller is inside the stages of shutdown() *)
Theorem C16_mbal_step :
  forall cfg ms ev, MBal ms -> bal_event ev -> MBal (fst (mstep cfg ms ev)).
Proof. exact mbal_step. Qed.
Print Assumptions C16_mbal_step.

(** at every state of every micro schedule in which nobody calls shutdown() - whatever is overtaken by whatever,
   windows of put_or_update and of the worker included - keys added minus keys deleted is the number of stored keys and
   weight added minus weight removed is the total weight used (the counters are u64: modulo 2^64) *)
Theorem C16_micro_balances_run :
  forall cfg evs, Forall bal_event evs ->
  let s := mbase (mrun cfg evs) in
  (s_keys_added (st s) - s_keys_deleted (st s)) mod two64 = Z.of_nat (length (store s)) mod two64 /\
  (s_weight_added (st s) - s_weight_removed (st s)) mod two64 = used s mod two64.
Proof. exact micro_balances_run. Qed.
Print Assumptions C16_micro_balances_run.

