(** C07. put never overwrites; 'key already exists' only for keys that can be read
    This file only pins statements: every theorem restates a lemma of proofs/ verbatim and is closed by it. *)
From CacheD Require Import Base Sketch Model.
From CacheD.proofs Require Import Closing ApiProofs.

(** a put (any variant) of a key that is physically present — in particular of a readable key — is
   answered on the spot with Rejected(KeyAlreadyExists) and changes nothing *)
Theorem C07_put_present_rejected_unchanged :
  forall cfg tid r k idxs s e,
  wf_config cfg -> is_put_request r k -> valid_request r ->
  alookup k (store s) = Some e -> shut s = false -> amem tid (blocked s) = false ->
  call cfg tid r idxs s = (s, [1; status_code (Rejected KeyAlreadyExists)]).
Proof. close_with put_present_rejected_unchanged. Qed.
Print Assumptions C07_put_present_rejected_unchanged.

(** a put of a physically absent key is never answered with KeyAlreadyExists on the spot *)
Theorem C07_put_absent_not_rejected_on_the_spot :
  forall cfg tid r k idxs s s' ret,
  is_put_request r k -> alookup k (store s) = None ->
  call cfg tid r idxs s = (s', ret) -> ret <> [1; status_code (Rejected KeyAlreadyExists)].
Proof. close_with put_absent_not_rejected_on_the_spot. Qed.
Print Assumptions C07_put_absent_not_rejected_on_the_spot.

(** the worker refuses a put for KeyAlreadyExists exactly when the key is physically present at that
   moment (and then changes nothing); for an absent key the answer is never KeyAlreadyExists: admission decides *)
Theorem C07_worker_put_status :
  forall cfg orc s c k a q,
  worker s = Alive -> queue s = (c, a) :: q -> cmd_put_key c = Some k ->
  alookup a (acks s) = Some Pending ->
  let s' := step_state cfg s (EWorker orc) in
  (alookup k (store s) <> None ->
     alookup a (acks s') = Some (Rejected KeyAlreadyExists) /\ store s' = store s /\ weights s' = weights s /\
     used s' = used s /\ ticker s' = ticker s /\ st s' = st s) /\
  (alookup k (store s) = None -> alookup a (acks s') <> Some (Rejected KeyAlreadyExists)).
Proof. close_with worker_put_status. Qed.
Print Assumptions C07_worker_put_status.

