(** C03. No spurious loss: without memory pressure an accepted key stays readable
    This file only pins statements: every theorem restates a lemma of proofs/ verbatim and is closed by it. *)
From CacheD Require Import Base Sketch Model.
From CacheD.proofs Require Import Closing InvProofs SweepProofs DemandProofs.

(** one event that is not about k, under no memory pressure, leaves k's entry exactly as it was, unless it is
   a sweep at which the entry is due *)
Theorem C03_step_preserves_entry :
  forall cfg s ev k e, wf_config cfg -> Inv cfg s -> valid_event ev ->
  alookup k (store s) = Some e ->
  ~ touches k s ev -> ~ pressure cfg s ev ->
  (ev = ESweep -> expired_here cfg s e = false) ->
  alookup k (store (step_state cfg s ev)) = Some e.
Proof. close_with step_preserves_entry. Qed.
Print Assumptions C03_step_preserves_entry.

(** the clock never runs backwards under valid events *)
Theorem C03_now_monotone :
  forall cfg s ev, valid_event ev -> now s <= now (step_state cfg s ev).
Proof. close_with now_monotone. Qed.
Print Assumptions C03_now_monotone.

(** without memory pressure an accepted key stays readable with its value, whatever else happens, until
   it is touched itself or its time-to-live elapses *)
Theorem C03_no_spurious_loss_per_put :
  forall evs cfg s k e, wf_config cfg -> Inv cfg s -> worker s <> Dead ->
  alookup k (store s) = Some e -> e_soft e = false ->
  Forall valid_event evs ->
  Forall (fun p => ~ touches k (fst p) (snd p) /\ ~ pressure cfg (fst p) (snd p)) (visits cfg s evs) ->
  let s' := run_from cfg s evs in
  worker s' <> Dead ->
  (forall t, e_exp e = Some t -> now s' <= t) ->
  alookup k (store s') = Some e /\ served_value k s' = e_val e.
Proof. close_with no_spurious_loss. Qed.
Print Assumptions C03_no_spurious_loss_per_put.

(** the total is the sum of the charges of the stored keys, each within its demand, so the incoming key of an
   absent key always fits *)
Theorem C03_fitting_demand_no_pressure :
  forall cfg keys demand s ev,
  wf_config cfg -> Inv cfg s -> demand_ok cfg keys demand -> within_demand keys demand s ->
  ~ real_pressure cfg s ev.
Proof. close_with fitting_demand_no_pressure. Qed.
Print Assumptions C03_fitting_demand_no_pressure.

(** [step_preserves_entry] with the weaker hypothesis (pressure only counts for puts of absent keys) *)
Theorem C03_step_preserves_entry_real :
  forall cfg s ev k e, wf_config cfg -> Inv cfg s -> valid_event ev ->
  alookup k (store s) = Some e ->
  ~ touches k s ev -> ~ real_pressure cfg s ev ->
  (ev = ESweep -> expired_here cfg s e = false) ->
  alookup k (store (step_state cfg s ev)) = Some e.
Proof. close_with step_preserves_entry_real. Qed.
Print Assumptions C03_step_preserves_entry_real.

(** C03 as stated: if the states visited stay within demands that fit the cache, an accepted key stays
   readable with its value until it is touched itself or its time-to-live elapses *)
Theorem C03_no_spurious_loss_fitting_demand :
  forall evs cfg keys demand s k e,
  wf_config cfg -> Inv cfg s -> worker s <> Dead -> demand_ok cfg keys demand ->
  alookup k (store s) = Some e -> e_soft e = false ->
  Forall valid_event evs ->
  Forall (fun p => within_demand keys demand (fst p) /\ ~ touches k (fst p) (snd p)) (visits cfg s evs) ->
  let s' := run_from cfg s evs in
  worker s' <> Dead ->
  (forall t, e_exp e = Some t -> now s' <= t) ->
  alookup k (store s') = Some e /\ served_value k s' = e_val e.
Proof. close_with no_spurious_loss_fitting_demand. Qed.
Print Assumptions C03_no_spurious_loss_fitting_demand.

