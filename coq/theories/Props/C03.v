(** C03. No spurious loss: without memory pressure an accepted key stays readable
    This file only pins statements: every theorem restates a lemma of proofs/ verbatim and is closed by it. *)
From CacheD Require Import Base Sketch Model.
From CacheD.proofs Require Import Closing InvProofs SweepProofs.

(** one event that is not about k, under no memory pressure, leaves k's entry exactly as it was, unless it is
   a sweep at which the entry is due *)
Theorem C03_step_preserves_entry :
  forall cfg s ev k e, wf_config cfg -> Inv cfg s -> valid_event ev ->
  alookup k (store s) = Some e ->
  ~ touches k s ev -> ~ pressure cfg s ev ->
  (ev = ESweep -> expired_here cfg s e = false) ->
  alookup k (store (step_state cfg s ev)) = Some e.
Proof. close_with step_preserves_entry. Qed.
Print Assumptions C03_step_preserves_entry.

(** the clock never runs backwards under valid events *)
Theorem C03_now_monotone :
  forall cfg s ev, valid_event ev -> now s <= now (step_state cfg s ev).
Proof. close_with now_monotone. Qed.
Print Assumptions C03_now_monotone.

(** without memory pressure an accepted key stays readable with its value, whatever else happens, until
   it is touched itself or its time-to-live elapses *)
Theorem C03_no_spurious_loss_partial :
  forall evs cfg s k e, wf_config cfg -> Inv cfg s -> worker s <> Dead ->
  alookup k (store s) = Some e -> e_soft e = false ->
  Forall valid_event evs ->
  Forall (fun p => ~ touches k (fst p) (snd p) /\ ~ pressure cfg (fst p) (snd p)) (visits cfg s evs) ->
  let s' := run_from cfg s evs in
  worker s' <> Dead ->
  (forall t, e_exp e = Some t -> now s' <= t) ->
  alookup k (store s') = Some e /\ served_value k s' = e_val e.
Proof. close_with no_spurious_loss. Qed.
Print Assumptions C03_no_spurious_loss_partial.

