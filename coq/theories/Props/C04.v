(** C04. Delete hides the key immediately and releases it completely
    This file only pins statements: every theorem restates a lemma of proofs/ verbatim and is closed by it. *)
From CacheD Require Import Base Sketch Model.
From CacheD.proofs Require Import Closing ApiProofs.

(** delete() hides the key before it returns *)
Theorem C04_delete_hides_immediately :
  forall cfg tid k idxs s s' ret,
  shut s = false -> amem tid (blocked s) = false ->
  call cfg tid (RDelete k) idxs s = (s', ret) ->
  lookup_alive k s' = None /\
  (forall e, alookup k (store s) = Some e -> exists e', alookup k (store s') = Some e' /\ e_soft e' = true /\ e_id e' = e_id e) /\
  (forall k', k' <> k -> alookup k' (store s') = alookup k' (store s)).
Proof. close_with delete_hides_immediately. Qed.
Print Assumptions C04_delete_hides_immediately.

(** a soft-deleted entry stays hidden until it is physically removed: no event re-exposes it *)
Theorem C04_soft_deleted_stays_hidden :
  forall cfg s ev k e,
  alookup k (store s) = Some e -> e_soft e = true ->
  let s' := step_state cfg s ev in
  alookup k (store s') = None \/ exists e', alookup k (store s') = Some e' /\ e_soft e' = true.
Proof. close_with soft_deleted_stays_hidden. Qed.
Print Assumptions C04_soft_deleted_stays_hidden.

(** the Delete command releases the key completely *)
Theorem C04_delete_cmd_releases :
  forall cfg orc s k a q e,
  wf_config cfg -> Inv cfg s -> worker s = Alive -> queue s = (CDelete k, a) :: q ->
  alookup k (store s) = Some e ->
  let s' := step_state cfg s (EWorker orc) in
  worker s' <> Dead ->
  alookup k (store s') = None /\ alookup (e_id e) (weights s') = None /\
  used s' = used s - charge_of_id s (e_id e) /\
  (forall t, e_exp e = Some t -> alookup (e_id e) (shard_entries (ticker s') (shard_index cfg t)) = None) /\
  alookup a (acks s') = Some Accepted /\
  (forall k', k' <> k -> alookup k' (store s') = alookup k' (store s)).
Proof. close_with delete_cmd_releases. Qed.
Print Assumptions C04_delete_cmd_releases.

(** deleting a key that is not in the cache is rejected and changes nothing but the queue and the ack *)
Theorem C04_delete_cmd_absent :
  forall cfg orc s k a q,
  worker s = Alive -> queue s = (CDelete k, a) :: q -> alookup k (store s) = None ->
  let s' := step_state cfg s (EWorker orc) in
  alookup a (acks s') = Some (Rejected KeyDoesNotExist) /\
  store s' = store s /\ weights s' = weights s /\ used s' = used s /\ ticker s' = ticker s /\ st s' = st s.
Proof. close_with delete_cmd_absent. Qed.
Print Assumptions C04_delete_cmd_absent.

(** a put of a physically absent key is never answered with KeyAlreadyExists on the spot *)
Theorem C04_reput_after_release :
  forall cfg tid r k idxs s s' ret,
  is_put_request r k -> alookup k (store s) = None ->
  call cfg tid r idxs s = (s', ret) -> ret <> [1; status_code (Rejected KeyAlreadyExists)].
Proof. close_with put_absent_not_rejected_on_the_spot. Qed.
Print Assumptions C04_reput_after_release.

