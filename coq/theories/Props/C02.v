(** C02. Reads return only the current value of the key, never stale or foreign
    This file only pins statements: every theorem restates a lemma of proofs/ verbatim and is closed by it. *)
From CacheD Require Import Base Sketch Model.
From CacheD.proofs Require Import Closing ApiProofs HistoryProofs.

(** for every history, every hash function (the hash never enters the lookup), every oracle *)
Theorem C02_store_value_provenance :
  forall cfg evs k e,
  alookup k (store (run_from cfg (init cfg) evs)) = Some e -> Exists (writes_value k (e_val e)) evs.
Proof. close_with store_value_provenance. Qed.
Print Assumptions C02_store_value_provenance.

(** hence a read never returns a value nobody wrote to that key *)
Theorem C02_read_value_was_written :
  forall cfg evs k e,
  lookup_alive k (run_from cfg (init cfg) evs) = Some e -> Exists (writes_value k (e_val e)) evs.
Proof. close_with read_value_was_written. Qed.
Print Assumptions C02_read_value_was_written.

(** one lookup: the value of the live entry or absent; exactly one of hit / miss; on a hit exactly one
   access record goes to the pool *)
Theorem C02_read_one_spec :
  forall cfg k idxs s v s' idxs',
  read_one cfg k idxs s = Some (v, s', idxs') ->
  read_frame s s' /\
  ((lookup_alive k s = None /\ v = -1 /\ s' = upd_st add_misses 1 s /\ idxs' = idxs) \/
   (exists e i, lookup_alive k s = Some e /\ v = e_val e /\ idxs = i :: idxs' /\
                pool_add cfg i (key_hash (c_hash cfg) k) (upd_st add_hits 1 s) = Some s')).
Proof. close_with read_one_spec. Qed.
Print Assumptions C02_read_one_spec.

(** multi_get and both iterators are the map of get over one and the same store *)
Theorem C02_read_many_spec :
  forall cfg ks idxs s vs s' idxs',
  read_many cfg ks idxs s = Some (vs, s', idxs') ->
  read_frame s s' /\ vs = map (fun k => served k s) ks.
Proof. close_with read_many_spec. Qed.
Print Assumptions C02_read_many_spec.

(** all read variants agree: each returns [served k s] (the map variants through the map function),
   and absent / empty once the cache is shutting down *)
Theorem C02_read_variants_agree :
  forall cfg tid k idxs s,
  amem tid (blocked s) = false ->
  forall s1 r1, call cfg tid (RGet k) idxs s = (s1, r1) -> r1 <> [7] ->
  call cfg tid (RGetRef k) idxs s = (s1, r1) /\
  (shut s = true -> r1 = [5] /\ s1 = s) /\
  (shut s = false -> r1 = (if served k s =? -1 then [5] else [5; served k s]) /\
     call cfg tid (RMapGet k) idxs s = (s1, if served k s =? -1 then [5] else [5; mapped (served k s)]) /\
     call cfg tid (RMapGetRef k) idxs s = (s1, if served k s =? -1 then [5] else [5; mapped (served k s)]) /\
     call cfg tid (RMultiGet [k]) idxs s = (s1, [5; served k s]) /\
     call cfg tid (RMultiIter [k]) idxs s = (s1, [5; served k s]) /\
     call cfg tid (RMultiMapIter [k]) idxs s = (s1, [5; mapped (served k s)])).
Proof. close_with read_variants_agree. Qed.
Print Assumptions C02_read_variants_agree.

(** a key is served iff it is stored, not soft-deleted, and the clock is not past its expiry *)
Theorem C02_served_iff_stored_alive :
  forall k s e,
  lookup_alive k s = Some e <->
  alookup k (store s) = Some e /\ e_soft e = false /\ (forall t, e_exp e = Some t -> now s <= t).
Proof. close_with lookup_alive_spec. Qed.
Print Assumptions C02_served_iff_stored_alive.

(** a soft-deleted entry stays hidden until it is physically removed: no event re-exposes it *)
Theorem C02_deleted_value_never_returned :
  forall cfg s ev k e,
  alookup k (store s) = Some e -> e_soft e = true ->
  let s' := step_state cfg s ev in
  alookup k (store s') = None \/ exists e', alookup k (store s') = Some e' /\ e_soft e' = true.
Proof. close_with soft_deleted_stays_hidden. Qed.
Print Assumptions C02_deleted_value_never_returned.

(** on a physically present key the entry is changed exactly as requested, immediately, and no other
   key is touched *)
Theorem C02_overwrite_visible_at_return :
  forall cfg tid k v w ttl rm s e s' ret,
  alookup k (store s) = Some e ->
  (forall t, ttl = Some t -> rm = false -> calc_expiry (now s) t = Some (now s + t)) ->
  call_upsert cfg tid k v w ttl rm s = (s', ret) ->
  (exists e', alookup k (store s') = Some e' /\
     e_val e' = (match v with Some x => x | None => e_val e end) /\
     e_id e' = e_id e /\ e_soft e' = e_soft e /\
     e_exp e' = (if rm then None else match ttl with Some t => Some (now s + t) | None => e_exp e end)) /\
  (forall k', k' <> k -> alookup k' (store s') = alookup k' (store s)) /\
  weights s' = weights s /\ used s' = used s.
Proof. close_with upsert_present_fields. Qed.
Print Assumptions C02_overwrite_visible_at_return.

(** the expiry of a put is the time it is applied plus the time-to-live; a plain put never expires *)
Theorem C02_accepted_put_visible :
  forall cfg orc s c a q,
  worker s = Alive -> queue s = (c, a) :: q ->
  alookup a (acks s) = Some Pending ->
  let s' := step_state cfg s (EWorker orc) in
  alookup a (acks s') = Some Accepted ->
  match c with
  | CPut k v id h w =>
      alookup k (store s') = Some {| e_val := v; e_id := id; e_exp := None; e_soft := false |}
  | CPutTTL k v id h w ttl =>
      alookup k (store s') = Some {| e_val := v; e_id := id; e_exp := Some (now s + ttl); e_soft := false |} /\
      alookup id (shard_entries (ticker s') (shard_index cfg (now s + ttl))) = Some (now s + ttl)
  | _ => True
  end.
Proof. close_with worker_put_entry. Qed.
Print Assumptions C02_accepted_put_visible.

