(** C05_ledger. CacheWeight::update against the sweeper's CacheWeight::delete, one lock-delimited action at a time: the entry guard makes the update atomic
    This file only pins statements: every theorem restates a lemma of proofs/ verbatim and is closed by it. *)
From CacheD Require Import Base Ledger LedgerUpd LedgerRun.
From CacheD.proofs Require Import LedgerUpdProofs LedgerRunProofs.

(** (C05 / C01, every interleaving of the worker's UpdateWeight and deletes with the sweeper's evictions, one
   lock-delimited action at a time; two deleters of one id: only one of them finds the entry): with the entry guard held across the update, whenever neither operation is half-way the total is exactly the
   sum of the charges *)
Theorem C05_guarded_update_exact :
  forall s sched, uconsistent s ->
  uquiet (urun true s sched) -> u_used (urun true s sched) = charges_sum (u_charges (urun true s sched)).
Proof. exact guarded_update_exact. Qed.
Print Assumptions C05_guarded_update_exact.

(** the guard is necessary - if update reads the existing weight and lets go of the entry (a narrowed lock
   scope), the sweeper's eviction of that id slips in between, and afterwards, with nothing half-way and no key charged,
   the total is 53 for ever; with the guard the same schedule ends at 0 *)
Theorem C05_guard_is_necessary :
  uconsistent u0 /\
  uquiet (urun false u0 unguarded_race) /\ u_charges (urun false u0 unguarded_race) = [] /\ u_used (urun false u0 unguarded_race) = 53 /\
  u_used (urun true u0 (unguarded_race ++ [SRemove 1; SSub])) = 0 /\ u_charges (urun true u0 (unguarded_race ++ [SRemove 1; SSub])) = [].
Proof. exact unguarded_update_refuted. Qed.
Print Assumptions C05_guard_is_necessary.

(** (C05): and whenever neither thread is half-way through an operation, the total it shows is exactly the sum of
   the charges *)
Theorem C05_ledger_trace_exact_when_quiet :
  forall max groups st, 0 < max ->
  In st (gtrace (ginit max) groups) -> g_wpc st = WIdle -> g_spending st = None -> g_used st = charges_sum (g_charges st).
Proof. exact ledger_trace_exact_when_quiet. Qed.
Print Assumptions C05_ledger_trace_exact_when_quiet.

(** (C05): the same for the update model - every observed state in which no update or removal is half-way shows
   a total equal to the sum of the charges, whatever was charged at the start *)
Theorem C05_update_trace_exact_when_quiet :
  forall charges groups st, NoDup (map fst charges) ->
  In st (utrace (uinit charges) groups) -> uquiet st -> u_used st = charges_sum (u_charges st).
Proof. exact update_trace_exact_when_quiet. Qed.
Print Assumptions C05_update_trace_exact_when_quiet.

