(** C07_micro. put split at its schedule points: the race between two puts of one key
    This file only pins statements: every theorem restates a lemma of proofs/ verbatim and is closed by it. *)
From CacheD Require Import Base Sketch Model Window Micro.
From CacheD.proofs Require Import Defs ApiProofs HistoryProofs StatsProofs.
From CacheD.proofs Require Import MicroProofs.

(** (C05 / C07, the race the worker's re-check closes): both puts are queued, the one that is executed first is
   accepted, the other is answered 'key already exists'; one entry, one charge, nothing left over *)
Theorem C07_racing_puts_one_wins :
  let s := mbase (mrun mcfg racing_puts) in
  Forall plain_micro racing_puts /\
  acks s = [(1, Rejected KeyAlreadyExists); (0, Accepted)] /\
  map (fun p => (fst p, e_val (snd p), e_id (snd p))) (store s) = [(1, 20, 2)] /\
  map (fun p => (fst p, w_weight (snd p))) (weights s) = [(2, 7)] /\ used s = 7 /\ queue s = [] /\ cps (mrun mcfg racing_puts) = [].
Proof. exact racing_puts_one_wins. Qed.
Print Assumptions C07_racing_puts_one_wins.

(** every state reached by any interleaving of micro steps of puts, deletes and reads with whole events of
   the atomic model satisfies the core invariant, as long as the worker has not panicked *)
Theorem C07_minv_run :
  forall cfg evs, wf_config cfg -> Forall plain_micro evs ->
  worker (mbase (mrun cfg evs)) <> Dead -> MInv cfg (mrun cfg evs).
Proof. exact minv_run. Qed.
Print Assumptions C07_minv_run.

(** the micro steps of one call, executed back to back by a caller that is not inside another call, are the
   atomic call of Model.v: same state, same observation, and the caller is out of every window again *)
Theorem C07_mcall_atomic :
  forall cfg tid r idxs ms,
  caller_free ms tid = true ->
  (forall k v w ttl rm, r <> RUpsert k v w ttl rm) ->
  pool_admissible cfg r idxs (mbase ms) ->
  mcall cfg tid r idxs ms =
  (with_mbase ms (fst (call cfg tid r idxs (mbase ms))), snd (call cfg tid r idxs (mbase ms))).
Proof. exact mcall_atomic. Qed.
Print Assumptions C07_mcall_atomic.

