(** C07_micro. put split at its schedule points: both presence checks from any state; the race between two puts of one key
    This file only pins statements: every theorem restates a lemma of proofs/ verbatim and is closed by it. *)
From CacheD Require Import Base Sketch Model Window Micro.
From CacheD.proofs Require Import Defs ApiProofs HistoryProofs StatsProofs.
From CacheD.proofs Require Import MicroProofs MicroPut.

(** (C07, caller side, any state): the `put.checked` step of a put (any variant, valid weight) whose key is
   physically present at that moment answers 'key already exists' on the spot, ends the call and changes nothing *)
Theorem C07_micro_put_check_present :
  forall cfg ms tid r k idxs e,
  is_put_request r k -> valid_request r ->
  alookup tid (cps ms) = Some (PEntered r) -> alookup k (store (mbase ms)) = Some e ->
  snd (mstepc cfg ms tid idxs) = [1; status_code (Rejected KeyAlreadyExists)] /\
  mbase (fst (mstepc cfg ms tid idxs)) = mbase ms /\ alookup tid (cps (fst (mstepc cfg ms tid idxs))) = None.
Proof. exact micro_put_check_present. Qed.
Print Assumptions C07_micro_put_check_present.

(** (C07, caller side, any state): and when the key is physically absent at that moment the step never answers
   'key already exists' *)
Theorem C07_micro_put_check_absent :
  forall cfg ms tid r k idxs,
  is_put_request r k -> alookup tid (cps ms) = Some (PEntered r) -> alookup k (store (mbase ms)) = None ->
  snd (mstepc cfg ms tid idxs) <> [1; status_code (Rejected KeyAlreadyExists)].
Proof. exact micro_put_check_absent. Qed.
Print Assumptions C07_micro_put_check_absent.

(** (C07, worker side, any state): when the worker takes a put whose key is physically present at that moment it
   answers 'key already exists', opens no window and leaves store, ledger, expiry index and statistics untouched; when the
   key is absent the answer - whenever it comes - is never 'key already exists' *)
Theorem C07_micro_worker_put_status :
  forall cfg ms orc c k a q,
  wdel ms = None -> wpending (win ms) = None ->
  worker (mbase ms) = Alive -> queue (mbase ms) = (c, a) :: q -> cmd_put_key c = Some k ->
  alookup a (acks (mbase ms)) = Some Pending ->
  let ms' := fst (mworker1 cfg ms orc) in
  (alookup k (store (mbase ms)) <> None ->
     alookup a (acks (mbase ms')) = Some (Rejected KeyAlreadyExists) /\ wdel ms' = None /\ wpending (win ms') = None /\
     store (mbase ms') = store (mbase ms) /\ weights (mbase ms') = weights (mbase ms) /\ used (mbase ms') = used (mbase ms) /\
     ticker (mbase ms') = ticker (mbase ms) /\ st (mbase ms') = st (mbase ms)) /\
  (alookup k (store (mbase ms)) = None -> alookup a (acks (mbase ms')) <> Some (Rejected KeyAlreadyExists)).
Proof. exact micro_worker_put_status. Qed.
Print Assumptions C07_micro_worker_put_status.

(** (C05 / C07, the race the worker's re-check closes): both puts are queued, the one that is executed first is
   accepted, the other is answered 'key already exists'; one entry, one charge, nothing left over *)
Theorem C07_racing_puts_one_wins :
  let s := mbase (mrun mcfg racing_puts) in
  Forall plain_micro racing_puts /\
  acks s = [(1, Rejected KeyAlreadyExists); (0, Accepted)] /\
  map (fun p => (fst p, e_val (snd p), e_id (snd p))) (store s) = [(1, 20, 2)] /\
  map (fun p => (fst p, w_weight (snd p))) (weights s) = [(2, 7)] /\ used s = 7 /\ queue s = [] /\ cps (mrun mcfg racing_puts) = [].
Proof. exact racing_puts_one_wins. Qed.
Print Assumptions C07_racing_puts_one_wins.

(** every state reached by any interleaving of micro steps of puts, deletes and reads with whole events of
   the atomic model satisfies the core invariant, as long as the worker has not panicked *)
Theorem C07_minv_run :
  forall cfg evs, wf_config cfg -> Forall plain_micro evs ->
  worker (mbase (mrun cfg evs)) <> Dead -> MInv cfg (mrun cfg evs).
Proof. exact minv_run. Qed.
Print Assumptions C07_minv_run.

(** the micro steps of one call, executed back to back by a caller that is not inside another call, are the
   atomic call of Model.v: same state, same observation, and the caller is out of every window again *)
Theorem C07_mcall_atomic :
  forall cfg tid r idxs ms,
  caller_free ms tid = true ->
  (forall k v w ttl rm, r <> RUpsert k v w ttl rm) ->
  pool_admissible cfg r idxs (mbase ms) ->
  mcall cfg tid r idxs ms =
  (with_mbase ms (fst (call cfg tid r idxs (mbase ms))), snd (call cfg tid r idxs (mbase ms))).
Proof. exact mcall_atomic. Qed.
Print Assumptions C07_mcall_atomic.

(** the steps of the worker's put (admission | store insert, and with a time-to-live | index registration), back
   to back, are the atomic worker step *)
Theorem C07_mput_atomic :
  forall cfg orc ms k v id h w ttl a q,
  wdel ms = None -> wpending (win ms) = None -> worker (mbase ms) = Alive ->
  queue (mbase ms) = (match ttl with None => CPut k v id h w | Some t => CPutTTL k v id h w t end, a) :: q ->
  let r1 := mworker1 cfg ms orc in
  let r2 := if stopped (snd r1) then mworker2 cfg (fst r1) else r1 in
  let r3 := if stopped (snd r2) then mworker2 cfg (fst r2) else r2 in
  let atomic := worker_step cfg orc (mbase ms) in
  mbase (fst r3) = fst atomic /\ snd r3 = snd atomic /\ wdel (fst r3) = None /\ cps (fst r3) = cps ms /\
  ups (win (fst r3)) = ups (win ms) /\ wpending (win (fst r3)) = None.
Proof. exact mput_atomic. Qed.
Print Assumptions C07_mput_atomic.

