(** C01. Total weight never exceeds the configured cache weight
    This file only pins statements: every theorem restates a lemma of proofs/ verbatim and is closed by it. *)
From CacheD Require Import Base Sketch Model.
From CacheD.proofs Require Import Closing InvProofs AdmissionProofs.

(** one step keeps the total within [0, max] unless it is an over-limit UpdateWeight *)
Theorem C01_used_bounded_step :
  forall cfg s ev, wf_config cfg -> Inv cfg s -> valid_event ev ->
  0 <= used s <= c_max cfg -> ~ over_limit_update cfg s ev ->
  worker (step_state cfg s ev) <> Dead ->
  0 <= used (step_state cfg s ev) <= c_max cfg.
Proof. close_with used_bounded_step. Qed.
Print Assumptions C01_used_bounded_step.

(** at every instant of every run without an over-limit UpdateWeight *)
Theorem C01_used_bounded_run :
  forall cfg evs, wf_config cfg -> Forall valid_event evs ->
  Forall (fun p => ~ over_limit_update cfg (fst p) (snd p)) (visits cfg (init cfg) evs) ->
  worker (run_from cfg (init cfg) evs) <> Dead ->
  0 <= used (run_from cfg (init cfg) evs) <= c_max cfg.
Proof. close_with used_bounded_run. Qed.
Print Assumptions C01_used_bounded_run.

Theorem C01_used_nonneg :
  forall cfg s, Inv cfg s -> 0 <= used s.
Proof. close_with used_nonneg. Qed.
Print Assumptions C01_used_nonneg.

Theorem C01_accepted_put_within_limit_admissible :
  forall cfg s orc c a q,
  wf_config cfg -> Inv cfg s -> worker s = Alive -> queue s = (c, a) :: q ->
  (exists k v id h w, c = CPut k v id h w) \/ (exists k v id h w ttl, c = CPutTTL k v id h w ttl) ->
  (forall why, snd (step cfg s (EWorker orc)) <> [7; why]) ->
  alookup a (acks (step_state cfg s (EWorker orc))) = Some Accepted ->
  used (step_state cfg s (EWorker orc)) <= c_max cfg.
Proof. close_with accepted_put_within_limit_admissible. Qed.
Print Assumptions C01_accepted_put_within_limit_admissible.

(** (original, refuted by [accepted_put_within_limit_counterexample]):
Lemma accepted_put_within_limit : forall cfg s orc c a q,
  wf_config cfg -> Inv cfg s -> worker s = Alive -> queue s = (c, a) :: q ->
  (exists k v id h w, c = CPut k v id h w) \/ (exists k v id h w ttl, c = CPutTTL k v id h w ttl) ->
  alookup a (acks (step_state cfg s (EWorker orc))) = Some Accepted ->
  ~ In a (map snd q) ->
  used (step_state cfg s (EWorker orc)) <= c_max cfg.
*)

(** the true variant: the same statement with the one premise [Inv] does not give, namely that the put had not been
    answered [Accepted] already (in reachable states its acknowledgement is [Pending]).  The premise
    [~ In a (map snd q)] of the original is kept although it is not needed. *)
(* STATEMENT *)
Theorem C01_accepted_put_within_limit_partial :
  forall cfg s orc c a q,
  wf_config cfg -> Inv cfg s -> worker s = Alive -> queue s = (c, a) :: q ->
  (exists k v id h w, c = CPut k v id h w) \/ (exists k v id h w ttl, c = CPutTTL k v id h w ttl) ->
  alookup a (acks s) <> Some Accepted ->
  alookup a (acks (step_state cfg s (EWorker orc))) = Some Accepted ->
  ~ In a (map snd q) ->
  used (step_state cfg s (EWorker orc)) <= c_max cfg.
Proof. close_with accepted_put_within_limit_partial. Qed.
Print Assumptions C01_accepted_put_within_limit_partial.

Theorem C01_known_finding_update_weight :
  wf_config d2_cfg /\ Forall valid_event d2_events /\
  used (run_from d2_cfg (init d2_cfg) d2_events) = 140 /\ c_max d2_cfg = 100 /\
  worker (run_from d2_cfg (init d2_cfg) d2_events) = Alive.
Proof. close_with C01_refuted_by_update. Qed.
Print Assumptions C01_known_finding_update_weight.

