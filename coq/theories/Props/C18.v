(** C18. No deadlock: every call returns under every interleaving
    This file only pins statements: every theorem restates a lemma of proofs/ verbatim and is closed by it. *)
From CacheD Require Import Base Locks.
Local Open Scope nat_scope.
From CacheD.proofs Require Import LocksProofs.

(** ordered locking + queue consumers => no deadlock.  In a well-formed state, if any thread is in the middle of
   something (has a next action other than waiting for work), then some thread can take a step. *)
Theorem C18_ordered_locking_progress :
  forall rank s, lwf rank s ->
  (exists i t, nth_error (l_threads s) i = Some t /\ lpending t = true) ->
  exists i ch, lenabled s i ch = true.
Proof. exact ordered_locking_progress. Qed.
Print Assumptions C18_ordered_locking_progress.

(** well-formedness is preserved by every step of every thread *)
Theorem C18_lwf_step :
  forall rank s ic, lwf rank s -> lwf rank (lstep s ic).
Proof. exact lwf_step. Qed.
Print Assumptions C18_lwf_step.

Theorem C18_lwf_run :
  forall rank s sched, lwf rank s -> lwf rank (lrun s sched).
Proof. exact lwf_run. Qed.
Print Assumptions C18_lwf_run.

(** an enabled step changes the state (so "enabled" really is progress) and a disabled one does not *)
Theorem C18_lstep_disabled_noop :
  forall s i ch, lenabled s i ch = false -> lstep s (i, ch) = s.
Proof. exact lstep_disabled_noop. Qed.
Print Assumptions C18_lstep_disabled_noop.

Theorem C18_cached_lock_programs_ordered :
  forallb (prog_balanced cached_rank) caller_programs = true /\
  forallb (loop_ok cached_rank CmdQueue) worker_loops = true /\
  prog_balanced cached_rank s_sweep = true /\
  loop_ok cached_rank BufQueue c_batch = true /\
  forallb (fun e => Nat.ltb (cached_rank (fst e)) (cached_rank (snd e))) cached_edges = true.
Proof. exact cached_lock_programs_ordered. Qed.
Print Assumptions C18_cached_lock_programs_ordered.

(** the initial system of CacheD is well-formed for any number of callers running any of the caller programs
   and any command-queue capacity >= 1 *)
Theorem C18_cached_sys_wf :
  forall callers cap, 1 <= cap ->
  Forall (fun p => In p caller_programs) callers -> lwf cached_rank (cached_sys callers cap).
Proof. exact cached_sys_wf. Qed.
Print Assumptions C18_cached_sys_wf.

(** hence under every interleaving of any number of callers with the worker, the sweeper and the consumer,
   whenever some thread is in the middle of a call or an iteration, some thread can step *)
Theorem C18_cached_no_deadlock :
  forall callers cap sched, 1 <= cap ->
  Forall (fun p => In p caller_programs) callers ->
  let s := lrun (cached_sys callers cap) sched in
  (exists i t, nth_error (l_threads s) i = Some t /\ lpending t = true) ->
  exists i ch, lenabled s i ch = true.
Proof. exact cached_no_deadlock. Qed.
Print Assumptions C18_cached_no_deadlock.

(** the excluded program - a caller that keeps a get_ref guard alive while calling back into the cache - does
   not satisfy the discipline, and it can deadlock even alone: after taking the store shard lock it waits for it for ever *)
Theorem C18_reentrant_get_ref_excluded :
  prog_balanced cached_rank a_get_ref_reentrant = false /\
  let s := lrun (cached_sys [a_get_ref_reentrant] 1) [(0, 0)] in
  (exists t, nth_error (l_threads s) 0 = Some t /\ lpending t = true) /\
  forall ch, lenabled s 0 ch = false.
Proof. exact reentrant_get_ref_excluded. Qed.
Print Assumptions C18_reentrant_get_ref_excluded.

