(** C10. The sweeper removes exactly the expired keys and reclaims their weight
    This file only pins statements: every theorem restates a lemma of proofs/ verbatim and is closed by it. *)
From CacheD Require Import Base Sketch Model.
From CacheD.proofs Require Import Closing InvProofs SweepProofs.

(** one sweep removes exactly the stored keys that are due in the visited shard, releases exactly their
   charges, keeps exactly the not-yet-due index entries of that shard, and touches nothing else *)
Theorem C10_sweep_exact :
  forall cfg s, wf_config cfg -> Inv cfg s -> sweeper s = Alive ->
  let s' := step_state cfg s ESweep in
  (forall k, alookup k (store s') =
     match alookup k (store s) with
     | Some e => if expired_here cfg s e then None else Some e
     | None => None
     end) /\
  (forall id, alookup id (weights s') =
     match alookup id (weights s) with
     | Some wk => match alookup (w_key wk) (store s) with
                  | Some e => if expired_here cfg s e then None else Some wk
                  | None => Some wk
                  end
     | None => None
     end) /\
  (forall sh, sh <> shard_index cfg (now s) -> shard_entries (ticker s') sh = shard_entries (ticker s) sh) /\
  (forall id t, alookup id (shard_entries (ticker s') (shard_index cfg (now s))) = Some t <->
                alookup id (shard_entries (ticker s) (shard_index cfg (now s))) = Some t /\ now s <= t) /\
  sweep_frame s s' /\ Inv cfg s' /\ sweeper s' <> Dead.
Proof. close_with sweep_exact. Qed.
Print Assumptions C10_sweep_exact.

(** a sweep never removes a key without time-to-live, a key whose expiry lies in the future, or a key that
   is due in another shard; the entry survives unchanged *)
Theorem C10_sweep_spares :
  forall cfg s k e, wf_config cfg -> Inv cfg s -> sweeper s = Alive ->
  alookup k (store s) = Some e ->
  (e_exp e = None \/ (exists t, e_exp e = Some t /\ now s <= t) \/
   (exists t, e_exp e = Some t /\ shard_index cfg t <> shard_index cfg (now s))) ->
  alookup k (store (step_state cfg s ESweep)) = Some e.
Proof. close_with sweep_spares. Qed.
Print Assumptions C10_sweep_spares.

(** a sweep at an instant past the expiry that visits the expiry's shard removes the key and its charge *)
Theorem C10_sweep_eventually :
  forall cfg s k e t wk, wf_config cfg -> Inv cfg s -> sweeper s = Alive ->
  alookup k (store s) = Some e -> e_exp e = Some t -> t < now s ->
  shard_index cfg t = shard_index cfg (now s) ->
  alookup (e_id e) (weights s) = Some wk ->
  let s' := step_state cfg s ESweep in
  alookup k (store s') = None /\ alookup (e_id e) (weights s') = None /\ used s' <= used s - w_weight wk.
Proof. close_with sweep_removes_due. Qed.
Print Assumptions C10_sweep_eventually.

(** an index entry whose id is no longer charged (the key was deleted or evicted earlier, possibly put
   again under a new id) is inert *)
Theorem C10_stale_entry_inert :
  forall cfg s id, alookup id (weights s) = None -> weights_delete cfg id true s = Ok s.
Proof. close_with stale_entry_inert. Qed.
Print Assumptions C10_stale_entry_inert.

Theorem C10_known_finding_starved_shard :
  forall n cfg s k e t, wf_config cfg -> Inv cfg s -> worker s <> Dead ->
  alookup k (store s) = Some e -> e_exp e = Some t ->
  shard_index cfg t <> shard_index cfg (now s) ->
  alookup k (store (run_from cfg s (starving_rounds cfg n))) = Some e.
Proof. close_with C10_starved_shard. Qed.
Print Assumptions C10_known_finding_starved_shard.

