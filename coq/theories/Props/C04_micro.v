(** C04_micro. Delete split at its schedule points: the mark hides the key under every interleaving of micro steps
    This file only pins statements: every theorem restates a lemma of proofs/ verbatim and is closed by it. *)
From CacheD Require Import Base Sketch Model Window Micro.
From CacheD.proofs Require Import Defs ApiProofs HistoryProofs StatsProofs.
From CacheD.proofs Require Import MicroProofs MicroBal MicroAll.

(** (C04 / C02, every event of the micro model - every window of every call and of every worker command, every
   stage of shutdown): a soft-deleted entry is never made readable again; [WAbs] (the key the worker is about to insert is
   absent) holds at every state of every micro schedule, see [wabs_run] *)
Theorem C04_micro_hidden_all :
  forall cfg ms ev k e, WAbs ms ->
  alookup k (store (mbase ms)) = Some e -> e_soft e = true ->
  hid k (mbase (fst (mstep cfg ms ev))).
Proof. exact micro_hidden_all. Qed.
Print Assumptions C04_micro_hidden_all.

(** (C04 / C02 along whole micro schedules, no restriction on the events): at every state of every micro
   schedule, the next step - whichever thread takes it, wherever it stands - does not re-expose a soft-deleted entry *)
Theorem C04_micro_hidden_run :
  forall cfg evs ev k e,
  alookup k (store (mbase (mrun cfg evs))) = Some e -> e_soft e = true ->
  hid k (mbase (fst (mstep cfg (mrun cfg evs) ev))).
Proof. exact micro_hidden_run. Qed.
Print Assumptions C04_micro_hidden_run.

(** (C04 under every interleaving of caller micro steps): once the entry of k is soft-deleted (delete(k) passed
   its `delete.marked` point), no micro step of any caller (puts, deletes, reads, put_or_update's first half, shutdown
   stages) and no whole event of the atomic model makes it readable again: it stays hidden until it is physically removed *)
Theorem C04_micro_soft_deleted_stays_hidden :
  forall cfg ms ev k e,
  (forall e0, ev = MWin e0 -> exists b, e0 = WBase b) -> (forall orc, ev <> MWorker1 orc) -> ev <> MWorker2 ->
  alookup k (store (mbase ms)) = Some e -> e_soft e = true ->
  hid k (mbase (fst (mstep cfg ms ev))).
Proof. exact micro_soft_deleted_stays_hidden. Qed.
Print Assumptions C04_micro_soft_deleted_stays_hidden.

(** the micro steps of one call, executed back to back by a caller that is not inside another call, are the
   atomic call of Model.v: same state, same observation, and the caller is out of every window again *)
Theorem C04_mcall_atomic :
  forall cfg tid r idxs ms,
  caller_free ms tid = true ->
  (forall k v w ttl rm, r <> RUpsert k v w ttl rm) ->
  pool_admissible cfg r idxs (mbase ms) ->
  mcall cfg tid r idxs ms =
  (with_mbase ms (fst (call cfg tid r idxs (mbase ms))), snd (call cfg tid r idxs (mbase ms))).
Proof. exact mcall_atomic. Qed.
Print Assumptions C04_mcall_atomic.

(** the three steps of the worker's Delete, back to back, are the atomic worker step *)
Theorem C04_mdelete_atomic :
  forall cfg orc ms k a q,
  wdel ms = None -> wpending (win ms) = None -> worker (mbase ms) = Alive -> queue (mbase ms) = (CDelete k, a) :: q ->
  let r1 := mworker1 cfg ms orc in
  let r2 := if stopped (snd r1) then mworker2 cfg (fst r1) else r1 in
  let r3 := if stopped (snd r2) then mworker2 cfg (fst r2) else r2 in
  let atomic := worker_step cfg orc (mbase ms) in
  mbase (fst r3) = fst atomic /\ snd r3 = snd atomic /\ wdel (fst r3) = None /\ cps (fst r3) = cps ms /\
  ups (win (fst r3)) = ups (win ms) /\ wpending (win (fst r3)) = None.
Proof. exact mdelete_atomic. Qed.
Print Assumptions C04_mdelete_atomic.

