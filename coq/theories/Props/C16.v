(** C16. Statistics are exact
    This file only pins statements: every theorem restates a lemma of proofs/ verbatim and is closed by it. *)
From CacheD Require Import Base Sketch Model.
From CacheD.proofs Require Import Closing ApiProofs StatsProofs.

(** keys added minus keys deleted is the number of keys held *)
Theorem C16_keys_balance_run :
  forall cfg evs, wf_config cfg -> Forall valid_event evs ->
  let s := run_from cfg (init cfg) evs in
  worker s <> Dead ->
  (s_keys_added (st s) - s_keys_deleted (st s)) mod two64 = Z.of_nat (length (store s)) mod two64.
Proof. close_with keys_balance_run. Qed.
Print Assumptions C16_keys_balance_run.

(** weight added minus weight removed is the total weight used (two's-complement add for decreases) *)
Theorem C16_weight_balance_run :
  forall cfg evs, wf_config cfg -> Forall valid_event evs ->
  let s := run_from cfg (init cfg) evs in
  worker s <> Dead ->
  (s_weight_added (st s) - s_weight_removed (st s)) mod two64 = used s mod two64.
Proof. close_with weight_balance_run. Qed.
Print Assumptions C16_weight_balance_run.

(** hits plus misses grows by exactly the number of lookups of each event (unless the event is a shutdown
   that clears the statistics, or its oracle is inadmissible) *)
Theorem C16_lookups_counted_step :
  forall cfg s ev,
  let s' := step_state cfg s ev in
  snd (step cfg s ev) <> [7] ->
  st s' = stats_zero \/
  (s_hits (st s') + s_misses (st s')) mod two64 = (s_hits (st s) + s_misses (st s) + lookups_of s ev) mod two64.
Proof. close_with lookups_counted_step. Qed.
Print Assumptions C16_lookups_counted_step.

(** rejected keys counts exactly the puts refused by admission *)
Theorem C16_rejected_counted_step :
  forall cfg s orc c a q,
  worker s = Alive -> queue s = (c, a) :: q -> alookup a (acks s) = Some Pending ->
  let s' := step_state cfg s (EWorker orc) in
  worker s' <> Dead ->
  let refused_by_admission :=
    (exists k, cmd_put_key_of c = Some k) /\
    (alookup a (acks s') = Some (Rejected NoSpace) \/ alookup a (acks s') = Some (Rejected TooHeavy)) in
  (refused_by_admission -> s_keys_rejected (st s') = wrap_u64 (s_keys_rejected (st s) + 1)) /\
  (~ refused_by_admission -> s_keys_rejected (st s') = s_keys_rejected (st s)).
Proof. close_with rejected_counted_step. Qed.
Print Assumptions C16_rejected_counted_step.

(** the hit ratio is hits / (hits + misses), and zero only when there were no hits *)
Theorem C16_hit_ratio_spec :
  forall x, 0 <= s_hits x -> 0 <= s_misses x ->
  (s_hits x = 0 -> hit_ratio x = (0, 1)) /\
  (0 < s_hits x -> hit_ratio x = (s_hits x, s_hits x + s_misses x) /\ 0 < snd (hit_ratio x)) /\
  (fst (hit_ratio x) = 0 <-> s_hits x = 0).
Proof. close_with hit_ratio_spec. Qed.
Print Assumptions C16_hit_ratio_spec.

