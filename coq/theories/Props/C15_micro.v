(** C15_micro. Hit accounting with reads split between the store lookup and the access record
    This file only pins statements: every theorem restates a lemma of proofs/ verbatim and is closed by it. *)
From CacheD Require Import Base Sketch Model Window Micro.
From CacheD.proofs Require Import Defs ApiProofs HistoryProofs StatsProofs.
From CacheD.proofs Require Import MicroProofs MicroStats.

(** (C15 for every interleaving of the micro steps of puts, deletes and reads with each other and with whole
   events of the atomic model): while the flag is down, every hit is either still in flight between Store::get and
   Pool::add, buffered, delivered or counted as dropped - never lost, never counted twice (counters are u64: modulo 2^64) *)
Theorem C15_micro_hits_accounted_run :
  forall cfg evs, Forall plain_micro evs ->
  let ms := mrun cfg evs in
  shut (mbase ms) = false ->
  (pool_total (mbase ms) + s_access_added (st (mbase ms)) + s_access_dropped (st (mbase ms)) + inflight_hits ms) mod two64
  = s_hits (st (mbase ms)) mod two64.
Proof. exact micro_hits_accounted_run. Qed.
Print Assumptions C15_micro_hits_accounted_run.

(** the in-flight term is needed and the premises are satisfiable *)
Theorem C15_read_in_flight_witness :
  let ms := mrun mcfg read_in_flight in
  Forall plain_micro read_in_flight /\ shut (mbase ms) = false /\
  s_hits (st (mbase ms)) = 1 /\ pool (mbase ms) = [[]] /\ s_access_added (st (mbase ms)) = 0 /\
  s_access_dropped (st (mbase ms)) = 0 /\ inflight_hits ms = 1.
Proof. exact read_in_flight_witness. Qed.
Print Assumptions C15_read_in_flight_witness.

(** the micro steps of one call, executed back to back by a caller that is not inside another call, are the
   atomic call of Model.v: same state, same observation, and the caller is out of every window again *)
Theorem C15_mcall_atomic :
  forall cfg tid r idxs ms,
  caller_free ms tid = true ->
  (forall k v w ttl rm, r <> RUpsert k v w ttl rm) ->
  pool_admissible cfg r idxs (mbase ms) ->
  mcall cfg tid r idxs ms =
  (with_mbase ms (fst (call cfg tid r idxs (mbase ms))), snd (call cfg tid r idxs (mbase ms))).
Proof. exact mcall_atomic. Qed.
Print Assumptions C15_mcall_atomic.

