(** Fine-grained model of the weight ledger (src/cache/policy/cache_weight.rs, admission_policy.rs:104-125), for the
    interleaving half of C01: the command worker's check-then-add and its evictions interleaved, one lock-delimited
    action at a time, with the sweeper's evictions and with observers reading the total.

    Shared cells: [used] (the RwLock<i64>) and the map of charges (DashMap id -> weight).
    Worker (one put at a time):   W_check   read used: space := max - used, fits := w <= space
                                  W_insert  (if it fits) key_weights.insert(id, w)
                                  W_add     used += w
                                  W_evict_remove / W_evict_sub   one eviction = remove the entry, then used -= weight
                                  (create_space: after each eviction the worker re-reads used)
    Sweeper (any number of evictions):  S_remove id   key_weights.remove(id);   S_sub   used -= weight
    UpdateWeight is not part of this model: it has no bound check (known finding of C01).
    A schedule is a list of actions; an action that is not enabled leaves the state unchanged.  No proofs here. *)
From CacheD Require Export Base.

Inductive wpc :=
| WIdle                         (* between two commands *)
| WChecked (id w : Z)           (* space check passed for (id, w) *)
| WInserted (id w : Z)          (* entry inserted, total not yet raised *)
| WEvicting (id w vid vw : Z).  (* evicting victim vid: entry removed, total not yet lowered; then back to the check *)

Record gstate := {
  g_max : Z;
  g_used : Z;
  g_charges : list (Z * Z);      (* id -> weight *)
  g_wpc : wpc;
  g_wput : option (Z * Z);       (* the put the worker is working on: (id, weight) *)
  g_spending : option Z          (* the sweeper removed an entry of this weight and has not lowered the total yet *)
}.

Inductive gaction :=
| AStart (id w : Z)             (* the worker dequeues a put of weight w with fresh id *)
| ACheck                        (* is_space_available_for *)
| AInsert | AAdd                (* CacheWeight::add *)
| AEvictRemove (vid : Z)        (* CacheWeight::delete, first half, on the worker (create_space) *)
| AEvictSub                     (* second half *)
| AGiveUp                       (* create_space rejects: the put ends without being charged *)
| ASweepRemove (vid : Z)        (* CacheWeight::delete, first half, on the sweeper *)
| ASweepSub.                    (* second half *)

Definition set_g (s : gstate) used charges pc wput spending : gstate :=
  {| g_max := g_max s; g_used := used; g_charges := charges; g_wpc := pc; g_wput := wput; g_spending := spending |}.

Definition gstep (s : gstate) (a : gaction) : gstate :=
  match a, g_wpc s with
  | AStart id w, WIdle =>
      if (0 <? w) && negb (amem id (g_charges s)) && (w <=? g_max s)
      then set_g s (g_used s) (g_charges s) WIdle (Some (id, w)) (g_spending s) else s
  | ACheck, WIdle =>
      match g_wput s with
      | Some (id, w) => if w <=? g_max s - g_used s
                        then set_g s (g_used s) (g_charges s) (WChecked id w) (g_wput s) (g_spending s) else s
      | None => s
      end
  | AInsert, WChecked id w => set_g s (g_used s) (aset id w (g_charges s)) (WInserted id w) (g_wput s) (g_spending s)
  | AAdd, WInserted id w => set_g s (g_used s + w) (g_charges s) WIdle None (g_spending s)
  | AEvictRemove vid, WIdle =>
      match g_wput s, alookup vid (g_charges s) with
      | Some (id, w), Some vw =>
          if g_max s - g_used s <? w      (* create_space is entered only when the space does not suffice *)
          then set_g s (g_used s) (aremove vid (g_charges s)) (WEvicting id w vid vw) (g_wput s) (g_spending s) else s
      | _, _ => s
      end
  | AEvictSub, WEvicting id w vid vw => set_g s (g_used s - vw) (g_charges s) WIdle (g_wput s) (g_spending s)
  | AGiveUp, WIdle => set_g s (g_used s) (g_charges s) WIdle None (g_spending s)
  | ASweepRemove vid, _ =>
      match g_spending s, alookup vid (g_charges s) with
      | None, Some vw =>
          (* the sweeper never evicts the id the worker is inserting: it is not in the expiry index yet *)
          match g_wpc s with
          | WInserted id _ => if id =? vid then s else set_g s (g_used s) (aremove vid (g_charges s)) (g_wpc s) (g_wput s) (Some vw)
          | _ => set_g s (g_used s) (aremove vid (g_charges s)) (g_wpc s) (g_wput s) (Some vw)
          end
      | _, _ => s
      end
  | ASweepSub, _ =>
      match g_spending s with
      | Some vw => set_g s (g_used s - vw) (g_charges s) (g_wpc s) (g_wput s) None
      | None => s
      end
  | _, _ => s
  end.

Definition ginit (max : Z) : gstate :=
  {| g_max := max; g_used := 0; g_charges := []; g_wpc := WIdle; g_wput := None; g_spending := None |}.

Definition grun (max : Z) (sched : list gaction) : gstate := fold_left gstep sched (ginit max).

Definition charges_sum (l : list (Z * Z)) : Z := zsum (map snd l).
