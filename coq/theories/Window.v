(** Window model: the two operations of the cache that are *not* atomic with respect to the other threads, split at the
    place where the real code can be overtaken (the schedule points `upsert.after_store_update` in cached.rs and
    `worker.put_ttl.after_store_insert` in command_executor.rs):

      put_or_update      first half   Store::update under the entry guard (value, expiry; the response is kept)
                         second half  expiry index (TTLTicker) update, weight adjustment, UpdateWeight / Put command
      worker PutWithTTL  first half   presence re-check, admission (evictions, ledger), Store::put_with_ttl
                         second half  TTLTicker::put, acknowledgement

    Between the halves any complete event of [Model.step] may happen (other callers, a sweep, a worker command while a
    caller is in its window, calls while the worker is in its window).  The halves are built from the same functions as
    the atomic steps of Model.v; proofs/WindowProofs.v shows that a first half immediately followed by its second half IS
    the atomic step, so Model.v is the quotient of this model by "no overtaking".  No proofs here. *)
From CacheD Require Export Base Sketch Model.

(** what put_or_update keeps across its window: the request and the response of Store::update *)
Record upend := {
  u_k : Z; u_v : option Z; u_w : option Z; u_ttl : option Z; u_rm : bool;
  u_resp : option (Z * option Z * option Z)        (* None: the key was absent; Some (id, expiry before, expiry after) *)
}.
(** what the worker keeps across its window: acknowledgement, key id, expiry to register, observation of the step *)
Record wpend := { p_ack : Z; p_id : Z; p_exp : Z; p_obs : list Z }.

Record wstate := { base : state; ups : list (Z * upend); wpending : option wpend }.

Inductive wevent :=
| WBase (e : event)
| WUpsert1 (tid k : Z) (v w ttl : option Z) (rm : bool)
| WUpsert2 (tid : Z)
| WPut1 (orc : worker_oracle)
| WPut2.

Definition requested_weight (cfg : config) (k : Z) (v w ttl : option Z) : option Z :=
  match w with
  | Some x => Some x
  | None => match v with
            | Some val => Some (weight_calc (c_wcalc cfg) k val (match ttl with Some _ => true | None => false end))
            | None => None
            end
  end.

(** first half of put_or_update: [inl] = stopped at the point with the response, [inr] = the call is over (panic) *)
Definition upsert_half1 (cfg : config) (k : Z) (v w ttl : option Z) (rm : bool) (s : state) : (state * upend) + (state * list Z) :=
  match alookup k (store s) with
  | None => inl (s, {| u_k := k; u_v := v; u_w := w; u_ttl := ttl; u_rm := rm; u_resp := None |})
  | Some e =>
      let new_exp_o :=
        if rm then Some None else
        match ttl with
        | Some t => match calc_expiry (now s) t with Some x => Some (Some x) | None => None end
        | None => Some (e_exp e)
        end in
      match new_exp_o with
      | None => inr (s, [4; site_expiry_overflow])
      | Some new_exp =>
          let e' := {| e_val := match v with Some val => val | None => e_val e end;
                       e_id := e_id e; e_exp := new_exp; e_soft := e_soft e |} in
          inl (set_store s (aset k e' (store s)),
               {| u_k := k; u_v := v; u_w := w; u_ttl := ttl; u_rm := rm; u_resp := Some (e_id e, e_exp e, new_exp) |})
      end
  end.

(** second half of put_or_update, on whatever the state has become in the meantime *)
Definition upsert_half2 (cfg : config) (tid : Z) (u : upend) (s : state) : state * list Z :=
  let uw := requested_weight cfg (u_k u) (u_v u) (u_w u) (u_ttl u) in
  match u_resp u with
  | None =>
      match u_v u, uw with
      | Some val, Some wt =>
          if wt <=? 0 then (s, [4; site_weight_assert]) else
          let id := next_id s in
          let h := key_hash (c_hash cfg) (u_k u) in
          let s1 := set_next_id s (id + 1) in
          match u_ttl u with
          | Some t => do_send cfg tid (CPutTTL (u_k u) val id h wt t) s1
          | None => do_send cfg tid (CPut (u_k u) val id h wt) s1
          end
      | _, _ => (s, [4; site_value_missing])
      end
  | Some (id, old, new_exp) =>
      let existing := match alookup id (weights s) with Some wk => w_weight wk | None => 0 end in
      let '(s2, uw') :=
        match type_of_expiry_update old new_exp with
        | XNothing => (s, Some uw)
        | XAdded n =>
            (set_ticker s (ticker_put cfg id n (ticker s)),
             match uw with Some x => Some (Some x)
                         | None => match add_i64 cfg existing ttl_entry_size with Some x => Some (Some x) | None => None end end)
        | XDeleted o =>
            (set_ticker s (ticker_delete cfg id o (ticker s)),
             match uw with Some x => Some (Some x)
                         | None => match add_i64 cfg existing (- ttl_entry_size) with Some x => Some (Some x) | None => None end end)
        | XUpdated o n =>
            (set_ticker s (ticker_update cfg id o n (ticker s)), Some uw)
        end in
      match uw' with
      | None => (s2, [4; site_i64_overflow])
      | Some None => (s2, [1; status_code Accepted])
      | Some (Some wt) =>
          if wt <=? 0 then (s2, [4; site_upsert_weight])
          else do_send cfg tid (CUpdateWeight id wt) s2
      end
  end.

(** first half of a worker step: only an accepted PutWithTTL has a window; every other command runs to its end *)
Definition worker_half1 (cfg : config) (orc : worker_oracle) (s : state) : (state * wpend) + (state * list Z) :=
  match worker s, queue s with
  | Alive, (CPutTTL k v id h w ttl, a) :: q =>
      let s0 := set_queue s q in
      if amem k (store s0) then inr (worker_step cfg orc s) else
      match admission cfg orc k id h w s0 with
      | (AdStatus Accepted, s1, vs) =>
          match calc_expiry (now s1) ttl with
          | None => inr (worker_step cfg orc s)
          | Some e => inl (store_insert k v id (Some e) s1, {| p_ack := a; p_id := id; p_exp := e; p_obs := 5 :: 1 :: map sk_id vs |})
          end
      | _ => inr (worker_step cfg orc s)
      end
  | _, _ => inr (worker_step cfg orc s)
  end.

Definition worker_half2 (cfg : config) (p : wpend) (s : state) : state * list Z :=
  (set_ack (p_ack p) Accepted (set_ticker s (ticker_put cfg (p_id p) (p_exp p) (ticker s))), p_obs p).

Definition with_base (ws : wstate) (s : state) : wstate := {| base := s; ups := ups ws; wpending := wpending ws |}.

(** observations: [9] = stopped at the schedule point; [6] = event not enabled *)
Definition wstep (cfg : config) (ws : wstate) (ev : wevent) : wstate * list Z :=
  match ev with
  | WBase e =>
      let enabled :=
        match e with
        | ECall tid _ _ | ERun tid => negb (amem tid (ups ws))
        | EWorker _ => match wpending ws with Some _ => false | None => true end
        | _ => true
        end in
      if enabled then let '(s', ret) := step cfg (base ws) e in (with_base ws s', ret) else (ws, [6])
  | WUpsert1 tid k v w ttl rm =>
      if amem tid (ups ws) || amem tid (blocked (base ws)) then (ws, [6]) else
      if shut (base ws) then (ws, [2]) else
      match upsert_half1 cfg k v w ttl rm (base ws) with
      | inl (s', u) => ({| base := s'; ups := aset tid u (ups ws); wpending := wpending ws |}, [9])
      | inr (s', ret) => (with_base ws s', ret)
      end
  | WUpsert2 tid =>
      match alookup tid (ups ws) with
      | None => (ws, [6])
      | Some u =>
          let '(s', ret) := upsert_half2 cfg tid u (base ws) in
          ({| base := s'; ups := aremove tid (ups ws); wpending := wpending ws |}, ret)
      end
  | WPut1 orc =>
      match wpending ws with
      | Some _ => (ws, [6])
      | None =>
          match worker_half1 cfg orc (base ws) with
          | inl (s', p) => ({| base := s'; ups := ups ws; wpending := Some p |}, [9])
          | inr (s', ret) => (with_base ws s', ret)
          end
      end
  | WPut2 =>
      match wpending ws with
      | None => (ws, [6])
      | Some p =>
          let '(s', ret) := worker_half2 cfg p (base ws) in
          ({| base := s'; ups := ups ws; wpending := None |}, ret)
      end
  end.

Definition winit (cfg : config) : wstate := {| base := init cfg; ups := []; wpending := None |}.
Definition wrun (cfg : config) (evs : list wevent) : wstate := fold_left (fun ws ev => fst (wstep cfg ws ev)) evs (winit cfg).

Fixpoint wtrace (cfg : config) (ws : wstate) (evs : list wevent) : list (list (list Z)) :=
  match evs with
  | [] => []
  | ev :: t => let '(ws', ret) := wstep cfg ws ev in dump (base ws') ret :: wtrace cfg ws' t
  end.

(** a schedule without overtaking: every first half is directly followed by its second half; [collapse] is the
    corresponding schedule of atomic steps *)
Fixpoint collapse (evs : list wevent) : option (list event) :=
  match evs with
  | [] => Some []
  | WBase e :: t => option_map (cons e) (collapse t)
  | WUpsert1 tid k v w ttl rm :: WUpsert2 tid' :: t =>
      if tid =? tid' then option_map (cons (ECall tid (RUpsert k v w ttl rm) [])) (collapse t) else None
  | WPut1 orc :: WPut2 :: t => option_map (cons (EWorker orc)) (collapse t)
  | _ => None
  end.

(** the sweep of event [ev] removed key [k] although the expiry the store held for it had not passed *)
Definition removed_live (cfg : config) (ws : wstate) (ev : wevent) (k : Z) : bool :=
  match ev, alookup k (store (base ws)) with
  | WBase ESweep, Some e =>
      negb (amem k (store (base (fst (wstep cfg ws ev))))) &&
      match e_exp e with Some x => now (base ws) <=? x | None => true end
  | _, _ => false
  end.
