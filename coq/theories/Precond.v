(** What the two builders of the public API accept (config/mod.rs:113-116,165-199; put_or_update.rs:77-105), as boolean
    functions that are compared with the real builders on a grid every run.  proofs/PrecondProofs.v shows that they are
    exactly the premises [wf_config] / [valid_request] the theorems are stated under.  No proofs here. *)
From CacheD Require Export Base Sketch Model.

Fixpoint pow2_fuel (fuel : nat) (n : Z) : bool :=
  match fuel with
  | O => false
  | S f => if n =? 1 then true else if (n <=? 0) || negb (n mod 2 =? 0) then false else pow2_fuel f (n / 2)
  end.
(** usize::is_power_of_two for 0 <= n < 2^64 *)
Definition is_power_of_two (n : Z) : bool := pow2_fuel 65 n.

(** ConfigBuilder::new(counters, capacity, weight).access_pool_size(p).access_buffer_size(b).command_buffer_size(q).shards(s) *)
Definition config_accepted (counters capacity max pool buffer queue shards : Z) : bool :=
  (0 <? counters) && (0 <? capacity) && (0 <? max) && (0 <? pool) && (0 <? buffer) && (0 <? queue) &&
  (1 <? shards) && is_power_of_two shards.

(** PutOrUpdateRequestBuilder: .weight(w) asserts w > 0; build() asserts that something is asked for and that a
    time-to-live is not both set and removed.  Durations are non-negative by type. *)
Definition upsert_accepted (v w ttl : option Z) (rm : bool) : bool :=
  match w with Some x => 0 <? x | None => true end &&
  (match v with Some _ => true | None => false end || match w with Some _ => true | None => false end ||
   match ttl with Some _ => true | None => false end || rm) &&
  negb (match ttl with Some _ => true | None => false end && rm).
