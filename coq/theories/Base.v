(** Base utilities: association lists keyed by [Z], machine-integer helpers.  No proofs here. *)
From Coq Require Export List ZArith Bool Lia.
Export ListNotations.
Open Scope Z_scope.

Set Implicit Arguments.

(** * Association lists keyed by Z.  [aset] puts the binding in front after removing every older binding,
    so lookups never see stale bindings and [NoDup (map fst _)] is preserved unconditionally. *)
Section AList.
  Variable A : Type.

  Fixpoint alookup (k : Z) (l : list (Z * A)) : option A :=
    match l with
    | [] => None
    | (k', v) :: t => if Z.eqb k k' then Some v else alookup k t
    end.

  Fixpoint aremove (k : Z) (l : list (Z * A)) : list (Z * A) :=
    match l with
    | [] => []
    | (k', v) :: t => if Z.eqb k k' then aremove k t else (k', v) :: aremove k t
    end.

  Definition aset (k : Z) (v : A) (l : list (Z * A)) : list (Z * A) := (k, v) :: aremove k l.

  Definition amem (k : Z) (l : list (Z * A)) : bool :=
    match alookup k l with Some _ => true | None => false end.

  Definition akeys (l : list (Z * A)) : list Z := map fst l.
End AList.

Fixpoint zmem (x : Z) (l : list Z) : bool :=
  match l with [] => false | y :: t => if Z.eqb x y then true else zmem x t end.

Fixpoint znodup (l : list Z) : bool :=
  match l with [] => true | x :: t => negb (zmem x t) && znodup t end.

Definition zsubset (a b : list Z) : bool := forallb (fun x => zmem x b) a.

Fixpoint zsum (l : list Z) : Z := match l with [] => 0 | x :: t => x + zsum t end.

Fixpoint zcount (x : Z) (l : list Z) : Z :=
  match l with [] => 0 | y :: t => (if Z.eqb x y then 1 else 0) + zcount x t end.

(** replace the n-th element (no change when out of range) *)
Fixpoint set_nth {A} (n : nat) (x : A) (l : list A) : list A :=
  match l, n with
  | [], _ => []
  | _ :: t, O => x :: t
  | h :: t, S n' => h :: set_nth n' x t
  end.

(** insertion sort on Z keys (used only to print canonical dumps) *)
Fixpoint zinsert_by {A} (key : A -> Z) (x : A) (l : list A) : list A :=
  match l with
  | [] => [x]
  | y :: t => if Z.leb (key x) (key y) then x :: y :: t else y :: zinsert_by key x t
  end.
Definition zsort_by {A} (key : A -> Z) (l : list A) : list A := fold_right (zinsert_by key) [] l.

(** * Machine integers *)
Definition two64 : Z := 18446744073709551616.
Definition two63 : Z := 9223372036854775808.
Definition i64_max : Z := 9223372036854775807.
Definition i64_min : Z := -9223372036854775808.
Definition wrap_u64 (x : Z) : Z := x mod two64.
Definition in_i64 (x : Z) : bool := (i64_min <=? x) && (x <=? i64_max).
(** two's complement reinterpretation of an i64 as u64 ([as u64] in Rust) *)
Definition i64_as_u64 (x : Z) : Z := x mod two64.
Definition wrap_i64 (x : Z) : Z := ((x + two63) mod two64) - two63.

Definition opt_to_Z (o : option Z) : Z := match o with Some x => x | None => -1 end.
Definition bool_to_Z (b : bool) : Z := if b then 1 else 0.
