(** Fine-grained model of the access-counting pipeline (src/cache/pool.rs, admission_policy.rs:218-244, cached.rs:470-472),
    for the "any number of reading threads" half of C15.

    A successful read: H  bump the hit counter (Store::get);  L  lock buffer i (Pool::add, the index is arbitrary);
    D  if the buffer is full hand the whole batch over - non-blocking: queued for the consumer and counted as added, or
       counted as dropped when the channel is full or the consumer is gone - and clear it;  P  push the hash;  U  unlock.
    D and P happen under the buffer's lock.  The consumer receives one batch at a time; it may stop at any moment.
    A schedule is a list of actions; an action that is not enabled leaves the state unchanged.  No proofs here. *)
From CacheD Require Export Base.

Inductive rpc :=
| RIdle
| RHit (h i : Z)          (* hit counted, access not yet recorded *)
| RLocked (h i : Z)       (* holds the lock of buffer i *)
| RDrained (h i : Z)      (* a full buffer has been handed over (or there was room) *)
| RPushed (i : Z).        (* hash pushed, lock still held *)

Record pstate := {
  q_cap : Z;                       (* buffer capacity (>= 1) *)
  q_chan_cap : Z;                  (* channel capacity *)
  q_hits : Z;
  q_bufs : list (Z * list Z);      (* buffer index -> hashes *)
  q_locks : list (Z * Z);          (* buffer index -> holder (reader id) *)
  q_chan : list (list Z);          (* batches queued for the consumer, oldest first *)
  q_added : Z;
  q_dropped : Z;
  q_delivered : Z;                 (* accesses the consumer has applied *)
  q_consumer : bool;               (* consumer alive *)
  q_readers : list (Z * rpc)
}.

Inductive paction :=
| PHit (r h i : Z)                 (* reader r starts recording a hit of hash h in buffer i *)
| PLock (r : Z) | PDrain (r : Z) | PPush (r : Z) | PUnlock (r : Z)
| PRecv                            (* the consumer applies the oldest batch *)
| PStopConsumer.

Definition buf (s : pstate) (i : Z) : list Z := match alookup i (q_bufs s) with Some b => b | None => [] end.
Definition rpc_of (s : pstate) (r : Z) : rpc := match alookup r (q_readers s) with Some p => p | None => RIdle end.

Definition upd (s : pstate) hits bufs locks chan added dropped delivered consumer readers : pstate :=
  {| q_cap := q_cap s; q_chan_cap := q_chan_cap s; q_hits := hits; q_bufs := bufs; q_locks := locks; q_chan := chan;
     q_added := added; q_dropped := dropped; q_delivered := delivered; q_consumer := consumer; q_readers := readers |}.

Definition set_rpc (s : pstate) (r : Z) (p : rpc) : pstate :=
  upd s (q_hits s) (q_bufs s) (q_locks s) (q_chan s) (q_added s) (q_dropped s) (q_delivered s) (q_consumer s) (aset r p (q_readers s)).

Definition pstep (s : pstate) (a : paction) : pstate :=
  match a with
  | PHit r h i =>
      match rpc_of s r with
      | RIdle => upd s (q_hits s + 1) (q_bufs s) (q_locks s) (q_chan s) (q_added s) (q_dropped s) (q_delivered s) (q_consumer s)
                     (aset r (RHit h i) (q_readers s))
      | _ => s
      end
  | PLock r =>
      match rpc_of s r with
      | RHit h i =>
          match alookup i (q_locks s) with
          | Some _ => s                                            (* blocked on the buffer lock *)
          | None => upd s (q_hits s) (q_bufs s) (aset i r (q_locks s)) (q_chan s) (q_added s) (q_dropped s) (q_delivered s) (q_consumer s)
                        (aset r (RLocked h i) (q_readers s))
          end
      | _ => s
      end
  | PDrain r =>
      match rpc_of s r with
      | RLocked h i =>
          let b := buf s i in
          let n := Z.of_nat (length b) in
          if q_cap s <=? n then
            (* hand over the whole batch, never blocking *)
            if q_consumer s && (Z.of_nat (length (q_chan s)) <? q_chan_cap s)
            then upd s (q_hits s) (aset i [] (q_bufs s)) (q_locks s) (q_chan s ++ [b]) (q_added s + n) (q_dropped s) (q_delivered s) (q_consumer s)
                     (aset r (RDrained h i) (q_readers s))
            else upd s (q_hits s) (aset i [] (q_bufs s)) (q_locks s) (q_chan s) (q_added s) (q_dropped s + n) (q_delivered s) (q_consumer s)
                     (aset r (RDrained h i) (q_readers s))
          else set_rpc s r (RDrained h i)
      | _ => s
      end
  | PPush r =>
      match rpc_of s r with
      | RDrained h i => upd s (q_hits s) (aset i (buf s i ++ [h]) (q_bufs s)) (q_locks s) (q_chan s) (q_added s) (q_dropped s) (q_delivered s)
                            (q_consumer s) (aset r (RPushed i) (q_readers s))
      | _ => s
      end
  | PUnlock r =>
      match rpc_of s r with
      | RPushed i => upd s (q_hits s) (q_bufs s) (aremove i (q_locks s)) (q_chan s) (q_added s) (q_dropped s) (q_delivered s) (q_consumer s)
                         (aset r RIdle (q_readers s))
      | _ => s
      end
  | PRecv =>
      if q_consumer s then
        match q_chan s with
        | b :: rest => upd s (q_hits s) (q_bufs s) (q_locks s) rest (q_added s) (q_dropped s) (q_delivered s + Z.of_nat (length b)) (q_consumer s) (q_readers s)
        | [] => s
        end
      else s
  | PStopConsumer =>
      (* the receiver is dropped: queued batches are lost with it (the cache is shutting down) *)
      upd s (q_hits s) (q_bufs s) (q_locks s) (q_chan s) (q_added s) (q_dropped s) (q_delivered s) false (q_readers s)
  end.

Definition pinit (cap chan_cap : Z) : pstate :=
  {| q_cap := cap; q_chan_cap := chan_cap; q_hits := 0; q_bufs := []; q_locks := []; q_chan := []; q_added := 0; q_dropped := 0;
     q_delivered := 0; q_consumer := true; q_readers := [] |}.

Definition prun (cap chan_cap : Z) (sched : list paction) : pstate := fold_left pstep sched (pinit cap chan_cap).

Definition buffered (s : pstate) : Z := zsum (map (fun p => Z.of_nat (length (snd p))) (q_bufs s)).
Definition in_chan (s : pstate) : Z := zsum (map (fun b => Z.of_nat (length b)) (q_chan s)).
(** reads that have counted their hit and not yet pushed their access record *)
Definition in_flight (s : pstate) : Z :=
  zsum (map (fun p => match snd p with RHit _ _ | RLocked _ _ | RDrained _ _ => 1 | _ => 0 end) (q_readers s)).

(** is reader [r]'s next step enabled? (only the lock step can be disabled) *)
Definition penabled (s : pstate) (r : Z) : bool :=
  match rpc_of s r with
  | RHit _ i => match alookup i (q_locks s) with Some _ => false | None => true end
  | _ => true
  end.
