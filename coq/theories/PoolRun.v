(** Executable observation traces of the access-pool model (PoolProto.v), for the action-level correspondence with the real
    Pool (harness mode `pool`): the model is run one group of actions at a time (a group = the model actions one reader
    performs between two schedule points of the real code) and dumped after every group.  No proofs here. *)
From CacheD Require Export Base PoolProto.

(** [hits; added; dropped; in flight] :: [-1] :: the batches queued for the consumer, oldest first, then [-2] and the buffers
    as index :: hashes *)
Definition pdump (s : pstate) : list (list Z) :=
  [q_hits s; q_added s; q_dropped s; in_flight s] :: [-1] :: q_chan s ++ [-2] :: map (fun p => fst p :: snd p) (q_bufs s).

Fixpoint ptrace (s : pstate) (groups : list (list paction)) : list pstate :=
  match groups with
  | [] => []
  | g :: rest => let s' := fold_left pstep g s in s' :: ptrace s' rest
  end.

Definition pobs (cap chan_cap : Z) (groups : list (list paction)) : list (list (list Z)) :=
  map pdump (ptrace (pinit cap chan_cap) groups).
