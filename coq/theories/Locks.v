(** Lock and queue waits (C18).

    A generic system of threads that acquire and release locks and send to / receive from bounded queues, and the table
    of the lock programs of CacheD read off the source.  A lock is (class, instance); classes carry a rank.
    Reader/writer locks are treated as exclusive (every wait-for edge of the real locks is an edge here).
    No proofs in this file. *)
From CacheD Require Export Base.
Local Open Scope nat_scope.

Inductive lact :=
| LAcq (cls inst : nat)          (* blocks while another thread holds (cls, inst) *)
| LRel (cls inst : nat)
| LSend (q : nat)                (* blocking send: blocks while queue q is full *)
| LTrySend (q : nat)             (* non-blocking hand-over: drops when full *)
| LRecv (q : nat).               (* blocks while queue q is empty *)

Record lthread := {
  t_prog : list lact;            (* remaining actions of the current call / loop iteration *)
  t_loop : list (list lact);     (* a background loop restarts with one of these bodies; [] for a caller thread *)
  t_held : list (nat * nat)      (* locks held, most recent first *)
}.

Record lsys := {
  l_threads : list lthread;
  l_queues : list nat;           (* current lengths *)
  l_caps : list nat              (* capacities (>= 1) *)
}.

Definition lock_eqb (a b : nat * nat) : bool := Nat.eqb (fst a) (fst b) && Nat.eqb (snd a) (snd b).
Definition holds (t : lthread) (l : nat * nat) : bool := existsb (lock_eqb l) (t_held t).
Definition held_by_any (ts : list lthread) (l : nat * nat) : bool := existsb (fun t => holds t l) ts.

(** the program a thread is about to run: a background loop reloads one of its bodies ([ch] selects which: it stands
    for the command it is going to receive) when the iteration is over *)
Definition cur_prog (t : lthread) (ch : nat) : list lact :=
  match t_prog t with [] => nth ch (t_loop t) [] | p => p end.

Definition qlen (s : lsys) (q : nat) : nat := nth q (l_queues s) 0.
Definition qcap (s : lsys) (q : nat) : nat := nth q (l_caps s) 1.

(** is thread number [i] able to perform its next action (with body choice [ch])? *)
Definition lenabled (s : lsys) (i ch : nat) : bool :=
  match nth_error (l_threads s) i with
  | None => false
  | Some t =>
      match cur_prog t ch with
      | [] => false
      | LAcq c n :: _ => negb (held_by_any (l_threads s) (c, n))
      | LRel _ _ :: _ => true
      | LSend q :: _ => Nat.ltb (qlen s q) (qcap s q)
      | LTrySend _ :: _ => true
      | LRecv q :: _ => Nat.ltb 0 (qlen s q)
      end
  end.

(** a thread is in the middle of something: it has a next action in its current call / iteration that is not a receive
    (a background loop between two iterations, or about to receive, is only waiting for work) *)
Definition lpending (t : lthread) : bool :=
  match t_prog t with
  | [] => false
  | LRecv _ :: _ => false
  | _ => true
  end.

Fixpoint remove_lock (l : nat * nat) (h : list (nat * nat)) : list (nat * nat) :=
  match h with
  | [] => []
  | x :: t => if lock_eqb l x then t else x :: remove_lock l t
  end.

Definition set_queue_len (s : lsys) (q n : nat) : list nat :=
  (fix go (i : nat) (l : list nat) : list nat :=
     match l with
     | [] => []
     | x :: t => (if Nat.eqb i q then n else x) :: go (S i) t
     end) 0 (l_queues s).

(** one step of thread [i] with body choice [ch] (no change when it is not enabled) *)
Definition lstep (s : lsys) (ic : nat * nat) : lsys :=
  let (i, ch) := ic in
  if negb (lenabled s i ch) then s else
  match nth_error (l_threads s) i with
  | None => s
  | Some t =>
      match cur_prog t ch with
      | [] => s
      | a :: rest =>
          let held' := match a with
                       | LAcq c n => (c, n) :: t_held t
                       | LRel c n => remove_lock (c, n) (t_held t)
                       | _ => t_held t
                       end in
          let t' := {| t_prog := rest; t_loop := t_loop t; t_held := held' |} in
          let queues' := match a with
                         | LSend q => set_queue_len s q (S (qlen s q))
                         | LTrySend q => if Nat.ltb (qlen s q) (qcap s q) then set_queue_len s q (S (qlen s q)) else l_queues s
                         | LRecv q => set_queue_len s q (pred (qlen s q))
                         | _ => l_queues s
                         end in
          {| l_threads := set_nth i t' (l_threads s); l_queues := queues'; l_caps := l_caps s |}
      end
  end.

Definition lrun (s : lsys) (sched : list (nat * nat)) : lsys := fold_left lstep sched s.

(** * Discipline of a program (decidable) *)

(** walking a program from a held set: every acquisition has a class rank above every held lock's class rank (so also at
    most one instance per class), every release is of a held lock, blocking sends and receives happen with nothing held;
    returns the final held set *)
Fixpoint prog_ok (rank : nat -> nat) (held : list (nat * nat)) (p : list lact) : option (list (nat * nat)) :=
  match p with
  | [] => Some held
  | LAcq c n :: rest =>
      if forallb (fun h => Nat.ltb (rank (fst h)) (rank c)) held then prog_ok rank ((c, n) :: held) rest else None
  | LRel c n :: rest =>
      if existsb (lock_eqb (c, n)) held then prog_ok rank (remove_lock (c, n) held) rest else None
  | LSend _ :: rest | LRecv _ :: rest =>
      match held with [] => prog_ok rank held rest | _ => None end
  | LTrySend _ :: rest => prog_ok rank held rest
  end.

(** a well-disciplined program ends with nothing held *)
Definition prog_balanced (rank : nat -> nat) (p : list lact) : bool :=
  match prog_ok rank [] p with Some [] => true | _ => false end.

(** a background loop: starts with the receive on its own queue, the body is balanced and neither sends (blocking) nor
    receives again *)
Definition loop_ok (rank : nat -> nat) (q : nat) (p : list lact) : bool :=
  match p with
  | LRecv q' :: body =>
      Nat.eqb q q' && prog_balanced rank body &&
      forallb (fun a => match a with LSend _ | LRecv _ => false | _ => true end) body
  | _ => false
  end.

(** * The lock classes and programs of CacheD (read off src/cache) *)
Definition TickerShard : nat := 0.
Definition KeyWeightsShard : nat := 1.
Definition WeightUsed : nat := 2.
Definition SketchLock : nat := 3.
Definition StoreShard : nat := 4.
Definition PoolBuffer : nat := 5.
Definition AckWaker : nat := 6.
Definition AckStatus : nat := 7.
Definition cached_rank (c : nat) : nat := c.

Definition CmdQueue : nat := 0.
Definition BufQueue : nat := 1.

(** instances are abstracted to 0/1: what matters is that no program ever holds two locks of one class *)
Definition acq1 (c : nat) : list lact := [LAcq c 0; LRel c 0].        (* a single lock operation *)

(** eviction of one key id: key_weights.remove, then weight_used held across the store removal hook
    (cache_weight.rs:236-245) *)
Definition p_evict : list lact :=
  acq1 KeyWeightsShard ++ [LAcq WeightUsed 0; LAcq StoreShard 0; LRel StoreShard 0; LRel WeightUsed 0].
(** sampling: iterate one key_weights shard at a time, estimating under the sketch read lock *)
Definition p_sample : list lact := [LAcq KeyWeightsShard 0; LAcq SketchLock 0; LRel SketchLock 0; LRel KeyWeightsShard 0].
Definition p_add : list lact := acq1 KeyWeightsShard ++ acq1 WeightUsed.
(** maybe_add with an eviction round: check, estimate, sample, evict, re-check, refill, add *)
Definition p_admission : list lact :=
  acq1 WeightUsed ++ acq1 SketchLock ++ p_sample ++ p_evict ++ acq1 WeightUsed ++ p_sample ++ acq1 WeightUsed ++ p_add.
Definition p_done : list lact := acq1 AckStatus ++ acq1 AckWaker.

(** one iteration of the command worker for each command kind (command_executor.rs:111-237) *)
Definition w_put : list lact := [LRecv CmdQueue] ++ acq1 StoreShard ++ p_admission ++ acq1 StoreShard ++ p_done.
Definition w_put_ttl : list lact := [LRecv CmdQueue] ++ acq1 StoreShard ++ p_admission ++ acq1 StoreShard ++ acq1 TickerShard ++ p_done.
Definition w_delete : list lact :=
  [LRecv CmdQueue] ++ acq1 StoreShard ++ acq1 KeyWeightsShard ++ acq1 WeightUsed ++ acq1 TickerShard ++ p_done.
(** CacheWeight::update: the key_weights entry guard is held around the weight_used section (cache_weight.rs:218-234) *)
Definition w_update : list lact :=
  [LRecv CmdQueue; LAcq KeyWeightsShard 0; LAcq WeightUsed 0; LRel WeightUsed 0; LRel KeyWeightsShard 0] ++ p_done.
Definition w_shutdown : list lact := [LRecv CmdQueue] ++ p_done.

(** the sweeper: the shard lock is held across every eviction (expiration/mod.rs:94-107) *)
Definition s_sweep : list lact := [LAcq TickerShard 0] ++ p_evict ++ p_evict ++ [LRel TickerShard 0].
(** the access consumer: one batch under the sketch write lock *)
Definition c_batch : list lact := [LRecv BufQueue] ++ acq1 SketchLock.

(** callers *)
Definition a_put : list lact := acq1 StoreShard ++ [LSend CmdQueue].
(** put_or_update on a present key: store entry guard released before weights, expiry index and queue are touched *)
Definition a_upsert : list lact :=
  acq1 StoreShard ++ acq1 KeyWeightsShard ++ acq1 TickerShard ++ acq1 TickerShard ++ [LSend CmdQueue].
Definition a_delete : list lact := acq1 StoreShard ++ [LSend CmdQueue].
(** get: the store guard is dropped before the access is recorded; the hand-over of a full buffer is non-blocking *)
Definition a_get : list lact := acq1 StoreShard ++ [LAcq PoolBuffer 0; LTrySend BufQueue; LRel PoolBuffer 0].
(** get_ref: the returned reference guard keeps the store shard locked while the access is recorded *)
Definition a_get_ref : list lact := [LAcq StoreShard 0; LAcq PoolBuffer 0; LTrySend BufQueue; LRel PoolBuffer 0; LRel StoreShard 0].
Definition a_weight_used : list lact := acq1 WeightUsed.
Definition a_poll : list lact := [LAcq AckWaker 0; LAcq AckStatus 0; LRel AckStatus 0; LRel AckWaker 0].
Definition a_shutdown : list lact :=
  [LSend CmdQueue; LSend BufQueue] ++ acq1 StoreShard ++ acq1 KeyWeightsShard ++ acq1 WeightUsed ++ acq1 SketchLock ++ acq1 TickerShard.

Definition caller_programs : list (list lact) :=
  [a_put; a_upsert; a_delete; a_get; a_get_ref; a_weight_used; a_poll; a_shutdown].
Definition worker_loops : list (list lact) := [w_put; w_put_ttl; w_delete; w_update; w_shutdown].

(** the excluded program: a caller keeps a get_ref guard and calls back into the cache (here: put on the same shard) *)
Definition a_get_ref_reentrant : list lact := [LAcq StoreShard 0] ++ a_put ++ [LRel StoreShard 0].

(** every nested acquisition edge (held class, acquired class) a program can exhibit *)
Fixpoint prog_edges (held : list nat) (p : list lact) : list (nat * nat) :=
  match p with
  | [] => []
  | LAcq c _ :: rest => map (fun h => (h, c)) held ++ prog_edges (c :: held) rest
  | LRel c _ :: rest => prog_edges (remove Nat.eq_dec c held) rest
  | _ :: rest => prog_edges held rest
  end.
Definition cached_edges : list (nat * nat) :=
  flat_map (prog_edges []) (caller_programs ++ worker_loops ++ [s_sweep; c_batch]).

(** the system of CacheD: [n] caller threads with arbitrary caller programs, the worker, the sweeper, the consumer *)
Definition mk_thread (p : list lact) : lthread := {| t_prog := p; t_loop := []; t_held := [] |}.
Definition cached_sys (callers : list (list lact)) (qcap_cmd : nat) : lsys :=
  {| l_threads := map mk_thread callers ++
                  [ {| t_prog := []; t_loop := worker_loops; t_held := [] |};
                    {| t_prog := []; t_loop := [ [LRecv 2] ++ s_sweep ]; t_held := [] |};    (* queue 2: the tick channel *)
                    {| t_prog := []; t_loop := [c_batch]; t_held := [] |} ];
     l_queues := [0; 0; 0]; l_caps := [qcap_cmd; 10; 1] |}.
