(** Model of [src/cache/lfu]: packed 4-bit counter rows, count-min sketch, sizing, doorkeeper (as an oracle-driven
    set), TinyLFU with ageing.  Executable; no proofs here. *)
From CacheD Require Export Base.

(** * Row of packed counters (frequency_counter.rs:14-54).  A row is a list of bytes. *)
Definition nib_shift (pos : Z) : Z := 4 * (Z.land pos 1).
Definition nib_get (b pos : Z) : Z := Z.land (Z.shiftr b (nib_shift pos)) 15.
Definition nib_inc (b pos : Z) : Z :=
  if nib_get b pos <? 15 then b + Z.shiftl 1 (nib_shift pos) else b.
Definition byte_half (b : Z) : Z := Z.land (Z.shiftr b 1) 119 (* 0x77 *).

(** [None] = index out of bounds (a panic in the code) *)
Definition row_get (row : list Z) (pos : Z) : option Z :=
  match nth_error row (Z.to_nat (pos / 2)) with
  | Some b => Some (nib_get b pos)
  | None => None
  end.
Definition row_inc (row : list Z) (pos : Z) : option (list Z) :=
  match nth_error row (Z.to_nat (pos / 2)) with
  | Some b => Some (set_nth (Z.to_nat (pos / 2)) (nib_inc b pos) row)
  | None => None
  end.
Definition row_half (row : list Z) : list Z := map byte_half row.
Definition row_clear (row : list Z) : list Z := map (fun _ => 0) row.

(** * Sizing (frequency_counter.rs:117-151).  u64 arithmetic written out: [c - 1] and [+ 1] wrap. *)
Definition smear (x k : Z) : Z := Z.lor x (Z.shiftr x k).
Definition next_power_2 (c : Z) : Z :=
  let x := wrap_u64 (c - 1) in
  let x := smear x 1 in let x := smear x 2 in let x := smear x 4 in
  let x := smear x 8 in let x := smear x 16 in let x := smear x 32 in
  wrap_u64 (x + 1).

(** * Count-min sketch: 4 rows, 4 seeds *)
Record fcounter := { fc_rows : list (list Z); fc_seeds : list Z; fc_total : Z }.

Definition fc_new (counters : Z) (seeds : list Z) : fcounter :=
  let total := next_power_2 counters in
  (* the row length is at least one byte (fix for counters = 1) *)
  {| fc_rows := repeat (repeat 0 (Z.to_nat (Z.max 1 (total / 2)))) 4; fc_seeds := seeds; fc_total := total |}.

Definition fc_pos (fc : fcounter) (h seed : Z) : Z := (Z.lxor h seed) mod (fc_total fc).

(** increment every row; [None] if some index is out of bounds *)
Fixpoint rows_inc (total : Z) (h : Z) (rows : list (list Z)) (seeds : list Z) : option (list (list Z)) :=
  match rows, seeds with
  | r :: rt, s :: st =>
      match row_inc r ((Z.lxor h s) mod total), rows_inc total h rt st with
      | Some r', Some rt' => Some (r' :: rt')
      | _, _ => None
      end
  | _, _ => Some rows
  end.
Definition fc_increment (fc : fcounter) (h : Z) : option fcounter :=
  match rows_inc (fc_total fc) h (fc_rows fc) (fc_seeds fc) with
  | Some rows => Some {| fc_rows := rows; fc_seeds := fc_seeds fc; fc_total := fc_total fc |}
  | None => None
  end.

Fixpoint rows_min (total : Z) (h : Z) (rows : list (list Z)) (seeds : list Z) (acc : Z) : option Z :=
  match rows, seeds with
  | r :: rt, s :: st =>
      match row_get r ((Z.lxor h s) mod total) with
      | Some v => rows_min total h rt st (Z.min acc v)
      | None => None
      end
  | _, _ => Some acc
  end.
Definition fc_estimate (fc : fcounter) (h : Z) : option Z :=
  rows_min (fc_total fc) h (fc_rows fc) (fc_seeds fc) 255.

Definition fc_reset (fc : fcounter) : fcounter :=
  {| fc_rows := map row_half (fc_rows fc); fc_seeds := fc_seeds fc; fc_total := fc_total fc |}.
Definition fc_clear (fc : fcounter) : fcounter :=
  {| fc_rows := map row_clear (fc_rows fc); fc_seeds := fc_seeds fc; fc_total := fc_total fc |}.

(** * TinyLFU (tiny_lfu.rs).  The bloom filter is an oracle: [door] is the set of hashes set since the last clear and
    every query carries the answer the real filter gave.  An answer is admissible iff it is [true] whenever the
    hash is in [door] (a bloom filter has false positives but no false negatives). *)
Record tinylfu := { lfu_fc : fcounter; lfu_door : list Z; lfu_incs : Z; lfu_reset_at : Z }.

Definition lfu_new (counters : Z) (seeds : list Z) : tinylfu :=
  {| lfu_fc := fc_new counters seeds; lfu_door := []; lfu_incs := 0; lfu_reset_at := counters |}.

Definition door_admissible (door : list Z) (h : Z) (answer : bool) : bool :=
  if zmem h door then answer else true.

Inductive lfu_result (A : Type) := LOk (a : A) | LPanic | LInadmissible.
Arguments LOk {A} a. Arguments LPanic {A}. Arguments LInadmissible {A}.

(** one recorded access (tiny_lfu.rs:62-71); [had] is the doorkeeper's answer *)
Definition lfu_access (l : tinylfu) (h : Z) (had : bool) : lfu_result tinylfu :=
  if negb (door_admissible (lfu_door l) h had) then LInadmissible else
  let door := if had then lfu_door l else h :: lfu_door l in
  match (if had then fc_increment (lfu_fc l) h else Some (lfu_fc l)) with
  | None => LPanic
  | Some fc =>
      let incs := lfu_incs l + 1 in
      if lfu_reset_at l <=? incs
      then LOk {| lfu_fc := fc_reset fc; lfu_door := []; lfu_incs := 0; lfu_reset_at := lfu_reset_at l |}
      else LOk {| lfu_fc := fc; lfu_door := door; lfu_incs := incs; lfu_reset_at := lfu_reset_at l |}
  end.

(** estimate (tiny_lfu.rs:36-42); [ans] is the doorkeeper's answer *)
Definition lfu_estimate (l : tinylfu) (h : Z) (ans : bool) : lfu_result Z :=
  if negb (door_admissible (lfu_door l) h ans) then LInadmissible else
  match fc_estimate (lfu_fc l) h with
  | None => LPanic
  | Some e => LOk (if ans then e + 1 else e)
  end.

Definition lfu_clear (l : tinylfu) : tinylfu :=
  {| lfu_fc := fc_clear (lfu_fc l); lfu_door := []; lfu_incs := 0; lfu_reset_at := lfu_reset_at l |}.

(** a stream of accesses with the doorkeeper answers *)
Fixpoint lfu_run (l : tinylfu) (hs : list (Z * bool)) : lfu_result tinylfu :=
  match hs with
  | [] => LOk l
  | (h, had) :: t =>
      match lfu_access l h had with
      | LOk l' => lfu_run l' t
      | LPanic => LPanic
      | LInadmissible => LInadmissible
      end
  end.
