(** Fine-grained model of CacheWeight::update against CacheWeight::delete on another thread (cache_weight.rs:248-285): the
    worker's UpdateWeight and an eviction by the sweeper, one lock-delimited action at a time.

      update   U_start  key_weights.get_mut(id): the entry guard is taken, the existing weight is read
               U_add    weight_used += new - existing           (under the entry guard, if [guarded])
               U_store  entry.weight := new; the guard is released
      delete   S_remove key_weights.remove(id)  (waits while another thread holds that entry's guard)
               S_sub    weight_used -= removed weight
               W_remove / W_sub: the same on the worker thread (Delete command, eviction); the worker runs one command at
               a time, so it does not start a delete while its own update is half-way

    [guarded] says whether update keeps the entry guard from U_start to U_store, as the code does.  With the guard the
    total is exact whenever no operation is half-way (proofs/LedgerUpdProofs.v); without it there is a schedule after
    which the total is off for ever - the guard is what makes [Model.weights_update] an atomic action.  No proofs here. *)
From CacheD Require Export Base Ledger.

Record ustate := {
  u_used : Z;
  u_charges : list (Z * Z);
  u_upd : option (Z * Z * Z * bool);     (* id, existing weight read, new weight, total already adjusted *)
  u_del : option Z;                      (* weight of an entry removed by the sweeper and not yet subtracted *)
  u_wdel : option Z                      (* the same for a removal by the worker (Delete command, eviction) *)
}.

Inductive uaction :=
| UStart (id w : Z)
| UAdd
| UStore
| SRemove (vid : Z)
| SSub
| WRemove (vid : Z)                      (* the worker's CacheWeight::delete (Delete command / eviction), first half *)
| WSub.

Definition holds_guard (s : ustate) (id : Z) : bool :=
  match u_upd s with Some (i, _, _, _) => i =? id | None => false end.

Definition ustep (guarded : bool) (s : ustate) (a : uaction) : ustate :=
  match a with
  | UStart id w =>
      match u_upd s, alookup id (u_charges s) with
      | None, Some old => if 0 <? w then {| u_used := u_used s; u_charges := u_charges s; u_upd := Some (id, old, w, false); u_del := u_del s; u_wdel := u_wdel s |} else s
      | _, _ => s
      end
  | UAdd =>
      match u_upd s with
      | Some (id, old, w, false) => {| u_used := u_used s + (w - old); u_charges := u_charges s; u_upd := Some (id, old, w, true); u_del := u_del s; u_wdel := u_wdel s |}
      | _ => s
      end
  | UStore =>
      match u_upd s with
      | Some (id, old, w, true) =>
          {| u_used := u_used s;
             u_charges := if amem id (u_charges s) then aset id w (u_charges s) else u_charges s;
             u_upd := None; u_del := u_del s; u_wdel := u_wdel s |}
      | _ => s
      end
  | SRemove vid =>
      match u_del s, alookup vid (u_charges s) with
      | None, Some vw =>
          if guarded && holds_guard s vid then s
          else {| u_used := u_used s; u_charges := aremove vid (u_charges s); u_upd := u_upd s; u_del := Some vw; u_wdel := u_wdel s |}
      | _, _ => s
      end
  | SSub =>
      match u_del s with
      | Some vw => {| u_used := u_used s - vw; u_charges := u_charges s; u_upd := u_upd s; u_del := None; u_wdel := u_wdel s |}
      | None => s
      end
  | WRemove vid =>
      match u_upd s, u_wdel s, alookup vid (u_charges s) with
      | None, None, Some vw =>
          {| u_used := u_used s; u_charges := aremove vid (u_charges s); u_upd := None; u_del := u_del s; u_wdel := Some vw |}
      | _, _, _ => s
      end
  | WSub =>
      match u_wdel s with
      | Some vw => {| u_used := u_used s - vw; u_charges := u_charges s; u_upd := u_upd s; u_del := u_del s; u_wdel := None |}
      | None => s
      end
  end.

Definition urun (guarded : bool) (s : ustate) (sched : list uaction) : ustate := fold_left (ustep guarded) sched s.

Definition uquiet (s : ustate) : Prop := u_upd s = None /\ u_del s = None /\ u_wdel s = None.
Definition uconsistent (s : ustate) : Prop :=
  NoDup (map fst (u_charges s)) /\ u_used s = charges_sum (u_charges s) /\ uquiet s.
