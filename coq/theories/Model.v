(** Executable model of CacheD at the phase-contiguous granularity (DESIGN §3): one event is one API call's
    caller-side part, one worker command, one sweep, one consumer batch, one clock advance, one poll, or the
    resumption of a caller parked in front of a full queue.  Everything the code leaves to its environment
    (map iteration order, heap pops among equals, random pool index, bloom answers) is an oracle argument of the
    event, checked for admissibility.  No proofs in this file. *)
From CacheD Require Export Base Sketch.

(** * Configuration (what ConfigBuilder accepts, plus the harness's choice of hash / weight functions) *)
Record config := {
  c_max : Z;          (* total cache weight *)
  c_counters : Z;
  c_shards : Z;
  c_queue : Z;        (* command buffer size *)
  c_pool : Z;
  c_buffer : Z;
  c_hash : Z;         (* key hash function: 0 identity, 1 constant, 2 mod 2, else multiplicative *)
  c_wcalc : Z;        (* weight calculation: 0 crate default (40 / 64 with ttl), else 1 + v mod 5 (+24 with ttl) *)
  c_seeds : list Z;
  c_t0 : Z;           (* initial clock, ns since the epoch *)
  c_debug : bool      (* overflow checks on (debug profile) *)
}.

Definition chan_capacity : Z := 10.
Definition sample_size : nat := 5.
Definition ttl_entry_size : Z := 24.
Definition ns_per_sec : Z := 1000000000.

Definition key_hash (kind k : Z) : Z :=
  if kind =? 0 then k else if kind =? 1 then 7 else if kind =? 2 then k mod 2
  else (k * 11400714819323198485) mod two64.

Definition weight_calc (kind k v : Z) (ttl : bool) : Z :=
  if kind =? 0 then (if ttl then 64 else 40)
  else 1 + v mod 5 + (if ttl then 24 else 0).

(** * State *)
Record entry := { e_val : Z; e_id : Z; e_exp : option Z; e_soft : bool }.
Record wkey := { w_key : Z; w_hash : Z; w_weight : Z }.

Inductive reason := NoSpace | TooHeavy | KeyDoesNotExist | KeyAlreadyExists.
Inductive status := Pending | Accepted | Rejected (r : reason) | ShuttingDown.

Inductive cmd :=
| CPut (k v id h w : Z)
| CPutTTL (k v id h w ttl : Z)
| CDelete (k : Z)
| CUpdateWeight (id w : Z)
| CShutdown.

Inductive chan_item := Batch (hs : list Z) | ChanShutdown.

Record stats := {
  s_hits : Z; s_misses : Z; s_keys_added : Z; s_keys_deleted : Z; s_keys_updated : Z;
  s_keys_rejected : Z; s_weight_added : Z; s_weight_removed : Z; s_access_added : Z; s_access_dropped : Z }.

Definition stats_zero : stats := Build_stats 0 0 0 0 0 0 0 0 0 0.

Inductive role := Alive | Draining | Exited | Dead.

(** what a caller parked in front of a full queue still has to do *)
Inductive cont :=
| KSend (c : cmd)          (* a write waiting to enqueue its command *)
| KShutdownCmd             (* shutdown() waiting to enqueue Shutdown *)
| KShutdownChan.           (* shutdown() waiting to send the consumer's shutdown event *)

Record state := {
  store : list (Z * entry);
  weights : list (Z * wkey);
  used : Z;
  ticker : list (Z * list (Z * Z));     (* shard -> (id -> expiry) *)
  queue : list (cmd * Z);               (* (command, ack id), oldest first *)
  acks : list (Z * status);
  lfu : tinylfu;
  pool : list (list Z);                 (* buffers, oldest hash first *)
  chan : list chan_item;                (* oldest first *)
  st : stats;
  now : Z;
  next_id : Z;
  next_ack : Z;
  shut : bool;                          (* is_shutting_down *)
  consumer_run : bool;                  (* AdmissionPolicy.keep_running *)
  sweeper_run : bool;                   (* TTLTicker.keep_running *)
  worker : role;
  sweeper : role;
  consumer : role;
  blocked : list (Z * cont)             (* tid -> continuation *)
}.

(** record update helpers *)
Definition set_store s x := Build_state x (weights s) (used s) (ticker s) (queue s) (acks s) (lfu s) (pool s) (chan s) (st s) (now s) (next_id s) (next_ack s) (shut s) (consumer_run s) (sweeper_run s) (worker s) (sweeper s) (consumer s) (blocked s).
Definition set_weights s x := Build_state (store s) x (used s) (ticker s) (queue s) (acks s) (lfu s) (pool s) (chan s) (st s) (now s) (next_id s) (next_ack s) (shut s) (consumer_run s) (sweeper_run s) (worker s) (sweeper s) (consumer s) (blocked s).
Definition set_used s x := Build_state (store s) (weights s) x (ticker s) (queue s) (acks s) (lfu s) (pool s) (chan s) (st s) (now s) (next_id s) (next_ack s) (shut s) (consumer_run s) (sweeper_run s) (worker s) (sweeper s) (consumer s) (blocked s).
Definition set_ticker s x := Build_state (store s) (weights s) (used s) x (queue s) (acks s) (lfu s) (pool s) (chan s) (st s) (now s) (next_id s) (next_ack s) (shut s) (consumer_run s) (sweeper_run s) (worker s) (sweeper s) (consumer s) (blocked s).
Definition set_queue s x := Build_state (store s) (weights s) (used s) (ticker s) x (acks s) (lfu s) (pool s) (chan s) (st s) (now s) (next_id s) (next_ack s) (shut s) (consumer_run s) (sweeper_run s) (worker s) (sweeper s) (consumer s) (blocked s).
Definition set_acks s x := Build_state (store s) (weights s) (used s) (ticker s) (queue s) x (lfu s) (pool s) (chan s) (st s) (now s) (next_id s) (next_ack s) (shut s) (consumer_run s) (sweeper_run s) (worker s) (sweeper s) (consumer s) (blocked s).
Definition set_lfu s x := Build_state (store s) (weights s) (used s) (ticker s) (queue s) (acks s) x (pool s) (chan s) (st s) (now s) (next_id s) (next_ack s) (shut s) (consumer_run s) (sweeper_run s) (worker s) (sweeper s) (consumer s) (blocked s).
Definition set_pool s x := Build_state (store s) (weights s) (used s) (ticker s) (queue s) (acks s) (lfu s) x (chan s) (st s) (now s) (next_id s) (next_ack s) (shut s) (consumer_run s) (sweeper_run s) (worker s) (sweeper s) (consumer s) (blocked s).
Definition set_chan s x := Build_state (store s) (weights s) (used s) (ticker s) (queue s) (acks s) (lfu s) (pool s) x (st s) (now s) (next_id s) (next_ack s) (shut s) (consumer_run s) (sweeper_run s) (worker s) (sweeper s) (consumer s) (blocked s).
Definition set_st s x := Build_state (store s) (weights s) (used s) (ticker s) (queue s) (acks s) (lfu s) (pool s) (chan s) x (now s) (next_id s) (next_ack s) (shut s) (consumer_run s) (sweeper_run s) (worker s) (sweeper s) (consumer s) (blocked s).
Definition set_now s x := Build_state (store s) (weights s) (used s) (ticker s) (queue s) (acks s) (lfu s) (pool s) (chan s) (st s) x (next_id s) (next_ack s) (shut s) (consumer_run s) (sweeper_run s) (worker s) (sweeper s) (consumer s) (blocked s).
Definition set_next_id s x := Build_state (store s) (weights s) (used s) (ticker s) (queue s) (acks s) (lfu s) (pool s) (chan s) (st s) (now s) x (next_ack s) (shut s) (consumer_run s) (sweeper_run s) (worker s) (sweeper s) (consumer s) (blocked s).
Definition set_next_ack s x := Build_state (store s) (weights s) (used s) (ticker s) (queue s) (acks s) (lfu s) (pool s) (chan s) (st s) (now s) (next_id s) x (shut s) (consumer_run s) (sweeper_run s) (worker s) (sweeper s) (consumer s) (blocked s).
Definition set_shut s x := Build_state (store s) (weights s) (used s) (ticker s) (queue s) (acks s) (lfu s) (pool s) (chan s) (st s) (now s) (next_id s) (next_ack s) x (consumer_run s) (sweeper_run s) (worker s) (sweeper s) (consumer s) (blocked s).
Definition set_consumer_run s x := Build_state (store s) (weights s) (used s) (ticker s) (queue s) (acks s) (lfu s) (pool s) (chan s) (st s) (now s) (next_id s) (next_ack s) (shut s) x (sweeper_run s) (worker s) (sweeper s) (consumer s) (blocked s).
Definition set_sweeper_run s x := Build_state (store s) (weights s) (used s) (ticker s) (queue s) (acks s) (lfu s) (pool s) (chan s) (st s) (now s) (next_id s) (next_ack s) (shut s) (consumer_run s) x (worker s) (sweeper s) (consumer s) (blocked s).
Definition set_worker s x := Build_state (store s) (weights s) (used s) (ticker s) (queue s) (acks s) (lfu s) (pool s) (chan s) (st s) (now s) (next_id s) (next_ack s) (shut s) (consumer_run s) (sweeper_run s) x (sweeper s) (consumer s) (blocked s).
Definition set_sweeper s x := Build_state (store s) (weights s) (used s) (ticker s) (queue s) (acks s) (lfu s) (pool s) (chan s) (st s) (now s) (next_id s) (next_ack s) (shut s) (consumer_run s) (sweeper_run s) (worker s) x (consumer s) (blocked s).
Definition set_consumer s x := Build_state (store s) (weights s) (used s) (ticker s) (queue s) (acks s) (lfu s) (pool s) (chan s) (st s) (now s) (next_id s) (next_ack s) (shut s) (consumer_run s) (sweeper_run s) (worker s) (sweeper s) x (blocked s).
Definition set_blocked s x := Build_state (store s) (weights s) (used s) (ticker s) (queue s) (acks s) (lfu s) (pool s) (chan s) (st s) (now s) (next_id s) (next_ack s) (shut s) (consumer_run s) (sweeper_run s) (worker s) (sweeper s) (consumer s) x.

Definition init (cfg : config) : state := {|
  store := []; weights := []; used := 0; ticker := []; queue := []; acks := [];
  lfu := lfu_new (c_counters cfg) (c_seeds cfg);
  pool := repeat [] (Z.to_nat (c_pool cfg)); chan := []; st := stats_zero;
  now := c_t0 cfg; next_id := 1; next_ack := 0; shut := false; consumer_run := true; sweeper_run := true;
  worker := Alive; sweeper := Alive; consumer := Alive; blocked := [] |}.

(** * Statistics (stats/mod.rs): AtomicU64 fetch_add wraps *)
Definition add_hits s n := Build_stats (wrap_u64 (s_hits s + n)) (s_misses s) (s_keys_added s) (s_keys_deleted s) (s_keys_updated s) (s_keys_rejected s) (s_weight_added s) (s_weight_removed s) (s_access_added s) (s_access_dropped s).
Definition add_misses s n := Build_stats (s_hits s) (wrap_u64 (s_misses s + n)) (s_keys_added s) (s_keys_deleted s) (s_keys_updated s) (s_keys_rejected s) (s_weight_added s) (s_weight_removed s) (s_access_added s) (s_access_dropped s).
Definition add_keys_added s n := Build_stats (s_hits s) (s_misses s) (wrap_u64 (s_keys_added s + n)) (s_keys_deleted s) (s_keys_updated s) (s_keys_rejected s) (s_weight_added s) (s_weight_removed s) (s_access_added s) (s_access_dropped s).
Definition add_keys_deleted s n := Build_stats (s_hits s) (s_misses s) (s_keys_added s) (wrap_u64 (s_keys_deleted s + n)) (s_keys_updated s) (s_keys_rejected s) (s_weight_added s) (s_weight_removed s) (s_access_added s) (s_access_dropped s).
Definition add_keys_updated s n := Build_stats (s_hits s) (s_misses s) (s_keys_added s) (s_keys_deleted s) (wrap_u64 (s_keys_updated s + n)) (s_keys_rejected s) (s_weight_added s) (s_weight_removed s) (s_access_added s) (s_access_dropped s).
Definition add_keys_rejected s n := Build_stats (s_hits s) (s_misses s) (s_keys_added s) (s_keys_deleted s) (s_keys_updated s) (wrap_u64 (s_keys_rejected s + n)) (s_weight_added s) (s_weight_removed s) (s_access_added s) (s_access_dropped s).
Definition add_weight_added s n := Build_stats (s_hits s) (s_misses s) (s_keys_added s) (s_keys_deleted s) (s_keys_updated s) (s_keys_rejected s) (wrap_u64 (s_weight_added s + n)) (s_weight_removed s) (s_access_added s) (s_access_dropped s).
Definition add_weight_removed s n := Build_stats (s_hits s) (s_misses s) (s_keys_added s) (s_keys_deleted s) (s_keys_updated s) (s_keys_rejected s) (s_weight_added s) (wrap_u64 (s_weight_removed s + n)) (s_access_added s) (s_access_dropped s).
Definition add_access_added s n := Build_stats (s_hits s) (s_misses s) (s_keys_added s) (s_keys_deleted s) (s_keys_updated s) (s_keys_rejected s) (s_weight_added s) (s_weight_removed s) (wrap_u64 (s_access_added s + n)) (s_access_dropped s).
Definition add_access_dropped s n := Build_stats (s_hits s) (s_misses s) (s_keys_added s) (s_keys_deleted s) (s_keys_updated s) (s_keys_rejected s) (s_weight_added s) (s_weight_removed s) (s_access_added s) (wrap_u64 (s_access_dropped s + n)).

Definition upd_st (f : stats -> Z -> stats) (n : Z) (s : state) : state := set_st s (f (st s) n).

(** hit ratio as the code computes it (stats/mod.rs:150-157, after the fix "hits == 0" only): numerator,
    denominator; (0, 1) stands for 0.0 *)
Definition hit_ratio (x : stats) : Z * Z :=
  if s_hits x =? 0 then (0, 1) else (s_hits x, s_hits x + s_misses x).

(** * Time (clock.rs, stored_value.rs, expiration/mod.rs) *)
Definition has_passed (now_ t : Z) : bool := t <? now_.          (* now > t *)
Definition is_alive (now_ : Z) (e : entry) : bool :=
  if e_soft e then false else
  match e_exp e with Some t => negb (has_passed now_ t) | None => true end.

(** [now + ttl] on SystemTime: overflow (a panic) iff the seconds leave i64 *)
Definition calc_expiry (now_ ttl : Z) : option Z :=
  let t := now_ + ttl in
  if t / ns_per_sec <=? i64_max then Some t else None.

Definition shard_index (cfg : config) (t : Z) : Z := (t / ns_per_sec) mod (c_shards cfg).

(** * Ticker (expiration/mod.rs) *)
Definition shard_entries (tk : list (Z * list (Z * Z))) (sh : Z) : list (Z * Z) :=
  match alookup sh tk with Some l => l | None => [] end.
Definition ticker_put (cfg : config) (id e : Z) (tk : list (Z * list (Z * Z))) :=
  let sh := shard_index cfg e in aset sh (aset id e (shard_entries tk sh)) tk.
Definition ticker_delete (cfg : config) (id e : Z) (tk : list (Z * list (Z * Z))) :=
  let sh := shard_index cfg e in aset sh (aremove id (shard_entries tk sh)) tk.
Definition ticker_update (cfg : config) (id old new : Z) tk := ticker_put cfg id new (ticker_delete cfg id old tk).

(** * Weights ledger (cache_weight.rs) *)
Inductive outcome (A : Type) := Ok (a : A) | Panic (site : Z) (partial : A) | Inadmissible (why : Z).
Arguments Ok {A} a. Arguments Panic {A} site partial. Arguments Inadmissible {A} why.

(** panic sites *)
Definition site_weight_assert : Z := 1.
Definition site_value_missing : Z := 2.
Definition site_upsert_weight : Z := 3.
Definition site_expiry_overflow : Z := 4.
Definition site_i64_overflow : Z := 5.
Definition site_row_index : Z := 6.

(** i64 addition under the profile: debug panics, release wraps *)
Definition add_i64 (cfg : config) (a b : Z) : option Z :=
  if in_i64 (a + b) then Some (a + b) else if c_debug cfg then None else Some (wrap_i64 (a + b)).

Definition store_delete (k : Z) (s : state) : state :=
  match alookup k (store s) with
  | Some _ => upd_st add_keys_deleted 1 (set_store s (aremove k (store s)))
  | None => s
  end.

(** CacheWeight::delete with the store-removal hook (hook = true) or the no-op hook (hook = false) *)
Definition weights_delete (cfg : config) (id : Z) (hook : bool) (s : state) : outcome state :=
  match alookup id (weights s) with
  | None => Ok s
  | Some wk =>
      let s1 := set_weights s (aremove id (weights s)) in
      match add_i64 cfg (used s1) (- w_weight wk) with
      | None => Panic site_i64_overflow s1
      | Some u =>
          let s2 := set_used s1 u in
          let s3 := if hook then store_delete (w_key wk) s2 else s2 in
          Ok (upd_st add_weight_removed (i64_as_u64 (w_weight wk)) s3)
      end
  end.

Definition weights_add (cfg : config) (k id h w : Z) (s : state) : outcome state :=
  let s1 := set_weights s (aset id (Build_wkey k h w) (weights s)) in
  match add_i64 cfg (used s1) w with
  | None => Panic site_i64_overflow s1
  | Some u => Ok (upd_st add_weight_added (i64_as_u64 w) (set_used s1 u))
  end.

Definition weights_update (cfg : config) (id w : Z) (s : state) : outcome state :=
  match alookup id (weights s) with
  | None => Ok s
  | Some wk =>
      (* weight - existing.weight cannot overflow for positive weights; the sum can *)
      match add_i64 cfg (used s) (w - w_weight wk) with
      | None => Panic site_i64_overflow s
      | Some u =>
          let s1 := upd_st add_keys_updated 1 (set_used s u) in
          let s2 := upd_st add_weight_added (i64_as_u64 (w - w_weight wk)) s1 in
          Ok (set_weights s2 (aset id (Build_wkey (w_key wk) (w_hash wk) w) (weights s2)))
      end
  end.

(** * Sampler (cache_weight.rs:72-169) and admission (admission_policy.rs:104-215) *)
Record sampled := { sk_id : Z; sk_weight : Z; sk_freq : Z }.

(** SampledKey::cmp a b = (b.freq, a.weight).cmp(&(a.freq, b.weight)) *)
Definition sk_cmp (a b : sampled) : comparison :=
  match Z.compare (sk_freq b) (sk_freq a) with
  | Eq => Z.compare (sk_weight a) (sk_weight b)
  | c => c
  end.

Definition sample_ids (sm : list sampled) : list Z := map sk_id sm.
Definition sample_mem (id : Z) (sm : list sampled) : bool := zmem id (sample_ids sm).

(** admissible pop: the id is in the sample and no other element is strictly greater under cmp *)
Definition is_max (x : sampled) (sm : list sampled) : bool :=
  forallb (fun y => match sk_cmp y x with Gt => false | _ => true end) sm.
Fixpoint sample_find (id : Z) (sm : list sampled) : option sampled :=
  match sm with [] => None | x :: t => if sk_id x =? id then Some x else sample_find id t end.
Definition sample_remove (id : Z) (sm : list sampled) : list sampled :=
  filter (fun x => negb (sk_id x =? id)) sm.

Definition mk_sampled (est : Z -> Z) (id : Z) (wk : wkey) : sampled :=
  {| sk_id := id; sk_weight := w_weight wk; sk_freq := est (w_hash wk) |}.

(** iterate over [order] adding unseen ids until the sample is full; [None] = the order is not one the map iterator
    could have produced (unknown id, or it kept iterating after the sample was full) *)
Fixpoint fill_from (est : Z -> Z) (ws : list (Z * wkey)) (order : list Z) (sm : list sampled) : option (list sampled) :=
  match order with
  | [] => Some sm
  | id :: t =>
      if Nat.leb sample_size (length sm) then None else
      match alookup id ws with
      | None => None
      | Some wk =>
          if sample_mem id sm then fill_from est ws t sm
          else fill_from est ws t (sm ++ [mk_sampled est id wk])
      end
  end.

(** the iterator stopped early only if the sample became full; otherwise it visited every charged id *)
Definition order_admissible (ws : list (Z * wkey)) (order : list Z) (sm_after : list sampled) : bool :=
  znodup order &&
  (Nat.leb sample_size (length sm_after) || zsubset (akeys ws) order).

Definition sample_fill (est : Z -> Z) (ws : list (Z * wkey)) (order : list Z) (sm : list sampled) : option (list sampled) :=
  match fill_from est ws order sm with
  | Some sm' => if order_admissible ws order sm' then Some sm' else None
  | None => None
  end.

Record worker_oracle := { o_orders : list (list Z); o_pops : list Z; o_bloom : list (Z * bool) }.

Definition bloom_answer (bl : list (Z * bool)) (h : Z) : bool :=
  match alookup h bl with Some b => b | None => false end.
Definition bloom_admissible (door : list Z) (bl : list (Z * bool)) : bool :=
  forallb (fun p => door_admissible door (fst p) (snd p)) bl.

(** estimate used by admission: sketch minimum + doorkeeper answer; 0 stands in when the index is out of bounds
    (that case is a panic and is detected separately by [est_panics]) *)
Definition estimate_with (l : tinylfu) (bl : list (Z * bool)) (h : Z) : Z :=
  match fc_estimate (lfu_fc l) h with
  | Some e => if bloom_answer bl h then e + 1 else e
  | None => 0
  end.
Definition est_panics (l : tinylfu) : bool :=
  match fc_estimate (lfu_fc l) 0 with Some _ => false | None => true end.

Inductive space_result :=
| SpAccepted | SpRejected | SpPanic (site : Z) | SpInadmissible (why : Z).

(** create_space loop.  [fuel] bounds the iterations; exhaustion is reported as inadmissible (it is unreachable,
    see proofs/AdmissionProofs.v). Returns the result, the state and the victims (id, weight, frequency). *)
Fixpoint create_space_loop (fuel : nat) (cfg : config) (est : Z -> Z) (inc_freq w : Z)
         (orders : list (list Z)) (pops : list Z) (sm : list sampled) (space : Z)
         (s : state) (victims : list sampled) : space_result * state * list sampled :=
  match fuel with
  | O => (SpInadmissible 9, s, victims)
  | S fuel' =>
      if w <=? space then (SpAccepted, s, victims) else
      match pops with
      | [] => (SpInadmissible 1, s, victims)
      | p :: pops' =>
          if p =? -1 then
            (* the heap was empty *)
            match sm with
            | _ :: _ => (SpInadmissible 2, s, victims)
            | [] => if w <=? c_max cfg - used s then (SpAccepted, s, victims) else (SpRejected, s, victims)
            end
          else
            match sample_find p sm with
            | None => (SpInadmissible 3, s, victims)
            | Some x =>
                if negb (is_max x sm) then (SpInadmissible 4, s, victims) else
                if inc_freq <? sk_freq x then (SpRejected, s, victims) else
                match weights_delete cfg p true s with
                | Panic site s' => (SpPanic site, s', victims)
                | Inadmissible why => (SpInadmissible why, s, victims)
                | Ok s' =>
                    let space' := c_max cfg - used s' in
                    match orders with
                    | [] => (SpInadmissible 5, s', victims ++ [x])
                    | order :: orders' =>
                        match sample_fill est (weights s') order (sample_remove p sm) with
                        | None => (SpInadmissible 6, s', victims ++ [x])
                        | Some sm' => create_space_loop fuel' cfg est inc_freq w orders' pops' sm' space' s' (victims ++ [x])
                        end
                    end
                end
            end
      end
  end.

(** maybe_add: result status, state, victims *)
Inductive admission_result :=
| AdStatus (stt : status) | AdPanic (site : Z) | AdInadmissible (why : Z).

Definition admission (cfg : config) (orc : worker_oracle) (k id h w : Z) (s : state) : admission_result * state * list sampled :=
  if c_max cfg <? w then (AdStatus (Rejected TooHeavy), s, []) else
  let space := c_max cfg - used s in
  if w <=? space then
    match weights_add cfg k id h w s with
    | Ok s' => (AdStatus Accepted, s', [])
    | Panic site s' => (AdPanic site, s', [])
    | Inadmissible why => (AdInadmissible why, s, [])
    end
  else
    if negb (bloom_admissible (lfu_door (lfu s)) (o_bloom orc)) then (AdInadmissible 7, s, []) else
    if est_panics (lfu s) then (AdPanic site_row_index, s, []) else
    let est := estimate_with (lfu s) (o_bloom orc) in
    let inc_freq := est h in
    match o_orders orc with
    | [] => (AdInadmissible 8, s, [])
    | order0 :: orders =>
        (* initial sample: the first min(5, n) ids of the iteration *)
        if negb (Nat.leb (length order0) sample_size) then (AdInadmissible 10, s, []) else
        match sample_fill est (weights s) order0 [] with
        | None => (AdInadmissible 11, s, [])
        | Some sm0 =>
            match create_space_loop (length (weights s) + 7) cfg est inc_freq w orders (o_pops orc) sm0 space s [] with
            | (SpAccepted, s', vs) =>
                match weights_add cfg k id h w s' with
                | Ok s'' => (AdStatus Accepted, s'', vs)
                | Panic site s'' => (AdPanic site, s'', vs)
                | Inadmissible why => (AdInadmissible why, s', vs)
                end
            | (SpRejected, s', vs) => (AdStatus (Rejected NoSpace), s', vs)
            | (SpPanic site, s', vs) => (AdPanic site, s', vs)
            | (SpInadmissible why, s', vs) => (AdInadmissible why, s', vs)
            end
        end
    end.

(** * Pool (pool.rs) and the hand-over to the consumer (admission_policy.rs:218-244) *)
Definition accept_batch (hs : list Z) (s : state) : state :=
  let n := Z.of_nat (length hs) in
  match consumer s with
  | Alive =>
      if Z.of_nat (length (chan s)) <? chan_capacity
      then upd_st add_access_added n (set_chan s (chan s ++ [Batch hs]))
      else upd_st add_access_dropped n s
  | _ => upd_st add_access_dropped n s
  end.

Definition pool_add (cfg : config) (idx h : Z) (s : state) : option state :=
  if (idx <? 0) || (c_pool cfg <=? idx) then None else
  match nth_error (pool s) (Z.to_nat idx) with
  | None => None
  | Some buf =>
      if c_buffer cfg <=? Z.of_nat (length buf)
      then let s1 := accept_batch buf s in
           Some (set_pool s1 (set_nth (Z.to_nat idx) [h] (pool s1)))
      else Some (set_pool s (set_nth (Z.to_nat idx) (buf ++ [h]) (pool s)))
  end.

(** * Reads (store/mod.rs:138-191, cached.rs:373-409,514-631) *)
Definition lookup_alive (k : Z) (s : state) : option entry :=
  match alookup k (store s) with
  | Some e => if is_alive (now s) e then Some e else None
  | None => None
  end.

(** one store lookup with its hit/miss counter and, on a hit, the access record.
    [idxs] are the pool indices still available; returns the value (-1 = absent), state, remaining indices *)
Definition read_one (cfg : config) (k : Z) (idxs : list Z) (s : state) : option (Z * state * list Z) :=
  match lookup_alive k s with
  | None => Some (-1, upd_st add_misses 1 s, idxs)
  | Some e =>
      match idxs with
      | [] => None
      | i :: idxs' =>
          match pool_add cfg i (key_hash (c_hash cfg) k) (upd_st add_hits 1 s) with
          | Some s' => Some (e_val e, s', idxs')
          | None => None
          end
      end
  end.

Fixpoint read_many (cfg : config) (ks : list Z) (idxs : list Z) (s : state) : option (list Z * state * list Z) :=
  match ks with
  | [] => Some ([], s, idxs)
  | k :: t =>
      match read_one cfg k idxs s with
      | None => None
      | Some (v, s', idxs') =>
          match read_many cfg t idxs' s' with
          | None => None
          | Some (vs, s'', idxs'') => Some (v :: vs, s'', idxs'')
          end
      end
  end.

(** * Requests *)
Inductive request :=
| RPut (k v : Z)
| RPutW (k v w : Z)
| RPutTTL (k v ttl : Z)
| RPutWTTL (k v w ttl : Z)
| RUpsert (k : Z) (v w ttl : option Z) (rm : bool)
| RDelete (k : Z)
| RGet (k : Z) | RGetRef (k : Z) | RMapGet (k : Z) | RMapGetRef (k : Z)
| RMultiGet (ks : list Z) | RMultiIter (ks : list Z) | RMultiMapIter (ks : list Z)
| RWeightUsed | RStats | RShutdown.

(** return codes (first element of the observation):
    0 queued (ack id) / 1 answered on the spot (status code) / 2 error (shutting down or worker gone) /
    3 parked in front of a full queue (0 = command queue, 1 = buffer channel) / 4 panic (site) / 5 value(s) /
    6 event not enabled / 7 inadmissible oracle *)
Definition status_code (x : status) : Z :=
  match x with
  | Pending => 0 | Accepted => 1 | Rejected NoSpace => 2 | Rejected TooHeavy => 3
  | Rejected KeyDoesNotExist => 4 | Rejected KeyAlreadyExists => 5 | ShuttingDown => 6
  end.

(** send on the command queue *)
Definition do_send (cfg : config) (tid : Z) (c : cmd) (s : state) : state * list Z :=
  match worker s with
  | Dead | Exited => (s, [2])
  | Draining =>
      let a := next_ack s in
      (set_next_ack (set_acks s (aset a ShuttingDown (acks s))) (a + 1), [0; a])
  | Alive =>
      if Z.of_nat (length (queue s)) <? c_queue cfg then
        let a := next_ack s in
        (set_next_ack (set_acks (set_queue s (queue s ++ [(c, a)])) (aset a Pending (acks s))) (a + 1), [0; a])
      else (set_blocked s (aset tid (KSend c) (blocked s)), [3; 0])
  end.

Definition mapped (v : Z) : Z := if v =? -1 then -1 else 2 * v + 1.

(** the tail of shutdown() after both sends (cached.rs:461-466) *)
Definition shutdown_finish (s : state) : state :=
  let s := set_consumer_run s false in
  let s := set_sweeper_run s false in
  let s := set_store s [] in
  let s := set_used (set_weights s []) 0 in
  let s := set_lfu s (lfu_clear (lfu s)) in
  let s := set_st s stats_zero in
  set_ticker s [].

(** send of the consumer's shutdown event (blocking); continues with [shutdown_finish] *)
Definition shutdown_chan (tid : Z) (s : state) : state * list Z :=
  match consumer s with
  | Alive =>
      if Z.of_nat (length (chan s)) <? chan_capacity
      then (shutdown_finish (set_chan s (chan s ++ [ChanShutdown])), [5])
      else (set_blocked s (aset tid KShutdownChan (blocked s)), [3; 1])
  | _ => (shutdown_finish s, [5])
  end.

(** send of the Shutdown command (blocking), then [shutdown_chan] *)
Definition shutdown_cmd (cfg : config) (tid : Z) (s : state) : state * list Z :=
  match worker s with
  | Dead | Exited => shutdown_chan tid s
  | Draining => shutdown_chan tid s
  | Alive =>
      (* the acknowledgement of the Shutdown command is dropped by shutdown(): it gets the untracked id -1 *)
      if Z.of_nat (length (queue s)) <? c_queue cfg then
        shutdown_chan tid (set_queue s (queue s ++ [(CShutdown, -1)]))
      else (set_blocked s (aset tid KShutdownCmd (blocked s)), [3; 0])
  end.

(** put_with_weight after the weight is known (cached.rs:160-171, 196-207, 233-243) *)
Definition call_put (cfg : config) (tid k v w : Z) (ttl : option Z) (s : state) : state * list Z :=
  if w <=? 0 then (s, [4; site_weight_assert]) else
  if amem k (store s) then (s, [1; status_code (Rejected KeyAlreadyExists)]) else
  let id := next_id s in
  let h := key_hash (c_hash cfg) k in
  let s1 := set_next_id s (id + 1) in
  match ttl with
  | None => do_send cfg tid (CPut k v id h w) s1
  | Some t => do_send cfg tid (CPutTTL k v id h w t) s1
  end.

(** classification of an expiry change (store/mod.rs:65-81) *)
Inductive exp_update := XNothing | XAdded (n : Z) | XDeleted (o : Z) | XUpdated (o n : Z).
Definition type_of_expiry_update (old new : option Z) : exp_update :=
  match old, new with
  | None, None => XNothing
  | None, Some n => XAdded n
  | Some o, None => XDeleted o
  | Some o, Some n => if o =? n then XNothing else XUpdated o n
  end.

(** put_or_update (cached.rs:264-319) *)
Definition call_upsert (cfg : config) (tid k : Z) (v w ttl : option Z) (rm : bool) (s : state) : state * list Z :=
  let uw := match w with
            | Some x => Some x
            | None => match v with
                      | Some val => Some (weight_calc (c_wcalc cfg) k val (match ttl with Some _ => true | None => false end))
                      | None => None
                      end
            end in
  match alookup k (store s) with
  | None =>
      match v, uw with
      | Some val, Some wt =>
          if wt <=? 0 then (s, [4; site_weight_assert]) else
          let id := next_id s in
          let h := key_hash (c_hash cfg) k in
          let s1 := set_next_id s (id + 1) in
          match ttl with
          | Some t => do_send cfg tid (CPutTTL k val id h wt t) s1
          | None => do_send cfg tid (CPut k val id h wt) s1
          end
      | _, _ => (s, [4; site_value_missing])
      end
  | Some e =>
      (* Store::update under the entry guard *)
      let new_exp_o :=
        if rm then Some None else
        match ttl with
        | Some t => match calc_expiry (now s) t with Some x => Some (Some x) | None => None end
        | None => Some (e_exp e)
        end in
      match new_exp_o with
      | None => (s, [4; site_expiry_overflow])
      | Some new_exp =>
          let e' := {| e_val := match v with Some val => val | None => e_val e end;
                       e_id := e_id e; e_exp := new_exp; e_soft := e_soft e |} in
          let s1 := set_store s (aset k e' (store s)) in
          let id := e_id e in
          let existing := match alookup id (weights s1) with Some wk => w_weight wk | None => 0 end in
          (* type_of_expiry_update drives the ticker and the weight adjustment *)
          let '(s2, uw') :=
            match type_of_expiry_update (e_exp e) new_exp with
            | XNothing => (s1, Some uw)
            | XAdded n =>
                (set_ticker s1 (ticker_put cfg id n (ticker s1)),
                 match uw with Some x => Some (Some x)
                             | None => match add_i64 cfg existing ttl_entry_size with Some x => Some (Some x) | None => None end end)
            | XDeleted o =>
                (set_ticker s1 (ticker_delete cfg id o (ticker s1)),
                 match uw with Some x => Some (Some x)
                             | None => match add_i64 cfg existing (- ttl_entry_size) with Some x => Some (Some x) | None => None end end)
            | XUpdated o n =>
                (set_ticker s1 (ticker_update cfg id o n (ticker s1)), Some uw)
            end in
          match uw' with
          | None => (s2, [4; site_i64_overflow])
          | Some None => (s2, [1; status_code Accepted])
          | Some (Some wt) =>
              if wt <=? 0 then (s2, [4; site_upsert_weight])
              else do_send cfg tid (CUpdateWeight id wt) s2
          end
      end
  end.

Definition call (cfg : config) (tid : Z) (r : request) (idxs : list Z) (s : state) : state * list Z :=
  match amem tid (blocked s) with
  | true => (s, [6])
  | false =>
  match r with
  | RPut k v =>
      let w := weight_calc (c_wcalc cfg) k v false in
      if w <=? 0 then (s, [4; site_weight_assert]) else
      if shut s then (s, [2]) else call_put cfg tid k v w None s
  | RPutW k v w =>
      if shut s then (s, [2]) else call_put cfg tid k v w None s
  | RPutTTL k v ttl =>
      if shut s then (s, [2]) else
      call_put cfg tid k v (weight_calc (c_wcalc cfg) k v true) (Some ttl) s
  | RPutWTTL k v w ttl =>
      if shut s then (s, [2]) else call_put cfg tid k v w (Some ttl) s
  | RUpsert k v w ttl rm =>
      if shut s then (s, [2]) else call_upsert cfg tid k v w ttl rm s
  | RDelete k =>
      if shut s then (s, [2]) else
      let s1 := match alookup k (store s) with
                | Some e => set_store s (aset k {| e_val := e_val e; e_id := e_id e; e_exp := e_exp e; e_soft := true |} (store s))
                | None => s
                end in
      do_send cfg tid (CDelete k) s1
  | RGet k | RGetRef k =>
      if shut s then (s, [5]) else
      match read_one cfg k idxs s with
      | Some (v, s', []) => (s', if v =? -1 then [5] else [5; v])
      | _ => (s, [7])
      end
  | RMapGet k | RMapGetRef k =>
      if shut s then (s, [5]) else
      match read_one cfg k idxs s with
      | Some (v, s', []) => (s', if v =? -1 then [5] else [5; mapped v])
      | _ => (s, [7])
      end
  | RMultiGet ks | RMultiIter ks =>
      if shut s then (s, [5]) else
      match read_many cfg ks idxs s with
      | Some (vs, s', []) => (s', 5 :: vs)
      | _ => (s, [7])
      end
  | RMultiMapIter ks =>
      if shut s then (s, [5]) else
      match read_many cfg ks idxs s with
      | Some (vs, s', []) => (s', 5 :: map mapped vs)
      | _ => (s, [7])
      end
  | RWeightUsed => (s, [5; used s])
  | RStats =>
      let x := st s in
      (s, [5; s_hits x; s_misses x; s_keys_added x; s_keys_deleted x; s_keys_updated x; s_keys_rejected x;
           s_weight_added x; s_weight_removed x; s_access_added x; s_access_dropped x;
           fst (hit_ratio x); snd (hit_ratio x)])
  | RShutdown =>
      if shut s then (s, [5]) else shutdown_cmd cfg tid (set_shut s true)
  end
  end.

(** resumption of a parked caller *)
Definition resume (cfg : config) (tid : Z) (s : state) : state * list Z :=
  match alookup tid (blocked s) with
  | None => (s, [6])
  | Some k =>
      let s0 := set_blocked s (aremove tid (blocked s)) in
      match k with
      | KSend c =>
          match worker s0 with
          | Alive => if Z.of_nat (length (queue s0)) <? c_queue cfg then do_send cfg tid c s0 else (s, [6])
          | _ => do_send cfg tid c s0
          end
      | KShutdownCmd =>
          match worker s0 with
          | Alive => if Z.of_nat (length (queue s0)) <? c_queue cfg then shutdown_cmd cfg tid s0 else (s, [6])
          | _ => shutdown_cmd cfg tid s0
          end
      | KShutdownChan =>
          match consumer s0 with
          | Alive => if Z.of_nat (length (chan s0)) <? chan_capacity then shutdown_chan tid s0 else (s, [6])
          | _ => shutdown_chan tid s0
          end
      end
  end.

(** * Worker (command_executor.rs:111-237) *)
Definition set_ack (a : Z) (x : status) (s : state) : state := set_acks s (aset a x (acks s)).

Definition store_insert (k v id : Z) (exp : option Z) (s : state) : state :=
  upd_st add_keys_added 1 (set_store s (aset k {| e_val := v; e_id := id; e_exp := exp; e_soft := false |} (store s))).

(** answer everything still queued with ShuttingDown *)
Fixpoint drain_queue (q : list (cmd * Z)) (s : state) : state :=
  match q with
  | [] => s
  | (_, a) :: t => drain_queue t (set_ack a ShuttingDown s)
  end.

(** observation of a worker step: [5; status code; victim ids...] or [4; site] *)
Definition worker_step (cfg : config) (orc : worker_oracle) (s : state) : state * list Z :=
  match worker s, queue s with
  | Alive, (c, a) :: q =>
      let s0 := set_queue s q in
      match c with
      | CPut k v id h w =>
          (* the worker re-checks presence (fix for two puts of one key pending together) *)
          if amem k (store s0) then (set_ack a (Rejected KeyAlreadyExists) s0, [5; 5]) else
          match admission cfg orc k id h w s0 with
          | (AdStatus Accepted, s1, vs) => (set_ack a Accepted (store_insert k v id None s1), 5 :: 1 :: map sk_id vs)
          | (AdStatus x, s1, vs) => (set_ack a x (upd_st add_keys_rejected 1 s1), 5 :: status_code x :: map sk_id vs)
          | (AdPanic site, s1, _) => (set_worker s1 Dead, [4; site])
          | (AdInadmissible why, _, _) => (s, [7; why])
          end
      | CPutTTL k v id h w ttl =>
          if amem k (store s0) then (set_ack a (Rejected KeyAlreadyExists) s0, [5; 5]) else
          match admission cfg orc k id h w s0 with
          | (AdStatus Accepted, s1, vs) =>
              match calc_expiry (now s1) ttl with
              | None => (set_worker s1 Dead, [4; site_expiry_overflow])
              | Some e =>
                  let s2 := store_insert k v id (Some e) s1 in
                  (set_ack a Accepted (set_ticker s2 (ticker_put cfg id e (ticker s2))), 5 :: 1 :: map sk_id vs)
              end
          | (AdStatus x, s1, vs) => (set_ack a x (upd_st add_keys_rejected 1 s1), 5 :: status_code x :: map sk_id vs)
          | (AdPanic site, s1, _) => (set_worker s1 Dead, [4; site])
          | (AdInadmissible why, _, _) => (s, [7; why])
          end
      | CUpdateWeight id w =>
          match weights_update cfg id w s0 with
          | Ok s1 => (set_ack a Accepted s1, [5; 1])
          | Panic site s1 => (set_worker s1 Dead, [4; site])
          | Inadmissible why => (s0, [7; why])
          end
      | CDelete k =>
          match alookup k (store s0) with
          | None => (set_ack a (Rejected KeyDoesNotExist) s0, [5; 4])
          | Some e =>
              let s1 := store_delete k s0 in
              match weights_delete cfg (e_id e) false s1 with
              | Ok s2 =>
                  let s3 := match e_exp e with
                            | Some x => set_ticker s2 (ticker_delete cfg (e_id e) x (ticker s2))
                            | None => s2 end in
                  (set_ack a Accepted s3, [5; 1])
              | Panic site s2 => (set_worker s2 Dead, [4; site])
              | Inadmissible why => (s0, [7; why])
              end
          end
      | CShutdown =>
          (set_worker (set_queue (drain_queue q s0) []) Draining, [5; 1])
      end
  | _, _ => (s, [6])
  end.

(** * Sweeper (expiration/mod.rs:90-116) *)
Fixpoint sweep_entries (cfg : config) (now_ : Z) (es : list (Z * Z)) (s : state) : outcome state :=
  match es with
  | [] => Ok s
  | (id, e) :: t =>
      if e <? now_ then
        match weights_delete cfg id true s with
        | Ok s' => sweep_entries cfg now_ t s'
        | other => other
        end
      else sweep_entries cfg now_ t s
  end.

Definition sweep (cfg : config) (s : state) : state * list Z :=
  match sweeper s with
  | Alive =>
      let sh := shard_index cfg (now s) in
      let es := shard_entries (ticker s) sh in
      let keep := filter (fun p => negb (snd p <? now s)) es in
      let s1 := set_ticker s (aset sh keep (ticker s)) in
      match sweep_entries cfg (now s) es s1 with
      | Ok s2 => ((if sweeper_run s2 then s2 else set_sweeper s2 Exited), [5])
      | Panic site s2 => (set_sweeper s2 Dead, [4; site])
      | Inadmissible why => (s, [7; why])
      end
  | _ => (s, [6])
  end.

(** * Consumer (admission_policy.rs:75-98) *)
Fixpoint apply_batch (l : tinylfu) (hs : list Z) (bl : list bool) : lfu_result tinylfu * list bool :=
  match hs with
  | [] => (LOk l, bl)
  | h :: t =>
      match bl with
      | [] => (LInadmissible, [])
      | b :: bl' =>
          match lfu_access l h b with
          | LOk l' => apply_batch l' t bl'
          | LPanic => (LPanic, bl')
          | LInadmissible => (LInadmissible, bl')
          end
      end
  end.

(** the state of the sketch when a batch panics half way: every access before the failing one is applied *)
Fixpoint apply_batch_partial (l : tinylfu) (hs : list Z) (bl : list bool) : tinylfu :=
  match hs, bl with
  | h :: t, b :: bl' =>
      match lfu_access l h b with
      | LOk l' => apply_batch_partial l' t bl'
      | _ => l
      end
  | _, _ => l
  end.

Definition drain (cfg : config) (bl : list bool) (s : state) : state * list Z :=
  match consumer s, chan s with
  | Alive, Batch hs :: rest =>
      match apply_batch (lfu s) hs bl with
      | (LOk l', []) =>
          let s1 := set_lfu (set_chan s rest) l' in
          ((if consumer_run s1 then s1 else set_chan (set_consumer s1 Exited) []), [5])
      | (LOk _, _ :: _) => (s, [7; 20])
      | (LPanic, _) => (set_chan (set_consumer (set_lfu s (apply_batch_partial (lfu s) hs bl)) Dead) [], [4; site_row_index])
      | (LInadmissible, _) => (s, [7; 21])
      end
  | Alive, ChanShutdown :: rest => (set_chan (set_consumer s Exited) [], [5])
  | _, _ => (s, [6])
  end.

(** * Events and the step function *)
Inductive event :=
| ECall (tid : Z) (r : request) (pool_idx : list Z)
| ERun (tid : Z)
| EWorker (orc : worker_oracle)
| ESweep
| EDrain (bloom : list bool)
| EAdvance (dt : Z)
| EPoll (a : Z).

Definition step (cfg : config) (s : state) (ev : event) : state * list Z :=
  match ev with
  | ECall tid r idxs => call cfg tid r idxs s
  | ERun tid => resume cfg tid s
  | EWorker orc => worker_step cfg orc s
  | ESweep => sweep cfg s
  | EDrain bl => drain cfg bl s
  | EAdvance dt => (set_now s (now s + dt), [])
  | EPoll a => (s, match alookup a (acks s) with Some x => [5; status_code x] | None => [6] end)
  end.

Definition run (cfg : config) (evs : list event) : state := fold_left (fun s ev => fst (step cfg s ev)) evs (init cfg).

(** * Canonical dump (compared field by field with the implementation's snapshot) *)
Definition role_code (r : role) : Z := match r with Alive => 0 | Draining => 1 | Exited => 2 | Dead => 3 end.

Definition dump_store (s : state) : list Z :=
  flat_map (fun p => [fst p; e_val (snd p); e_id (snd p); opt_to_Z (e_exp (snd p)); bool_to_Z (e_soft (snd p))]) (store s).
Definition dump_weights (s : state) : list Z :=
  flat_map (fun p => [fst p; w_key (snd p); w_hash (snd p); w_weight (snd p)]) (weights s).
Definition dump_ticker (s : state) : list Z :=
  flat_map (fun sh => flat_map (fun p => [fst sh; fst p; snd p]) (snd sh)) (ticker s).
Definition dump_stats (s : state) : list Z :=
  let x := st s in
  [s_hits x; s_misses x; s_keys_added x; s_keys_deleted x; s_keys_updated x; s_keys_rejected x;
   s_weight_added x; s_weight_removed x; s_access_added x; s_access_dropped x; fst (hit_ratio x); snd (hit_ratio x)].
Definition dump_acks (s : state) : list Z :=
  flat_map (fun p => [fst p; status_code (snd p)]) (acks s).
Definition dump_misc (s : state) : list Z :=
  [Z.of_nat (length (queue s)); Z.of_nat (length (chan s)); lfu_incs (lfu s); next_id s; bool_to_Z (shut s);
   role_code (worker s); role_code (sweeper s); role_code (consumer s); now s].

Definition dump (s : state) (ret : list Z) : list (list Z) :=
  [ret; dump_acks s; dump_store s; dump_weights s; [used s]; dump_ticker s; dump_stats s; dump_misc s]
  ++ pool s ++ fc_rows (lfu_fc (lfu s)).

(** run a schedule and dump after every event *)
Fixpoint trace (cfg : config) (s : state) (evs : list event) : list (list (list Z)) :=
  match evs with
  | [] => []
  | ev :: t => let '(s', ret) := step cfg s ev in dump s' ret :: trace cfg s' t
  end.
