(** C11 at every step of every micro schedule: the command queue changes in three ways only - commands are appended at
    its tail (by a caller's send), its head is taken by the worker (one command at a time: the worker takes a command
    only when it has none in flight), or everything is dropped when the worker executes Shutdown.  No micro step - no
    window of put_or_update, of the worker's put / Delete, no stage of shutdown() - removes, duplicates or reorders a
    queued command. *)
From CacheD Require Import Base Sketch Model Window Micro.
From CacheD.proofs Require Import Defs AListLemmas InvLemmas InvOps InvCalls InvWorker InvProofs ApiProofs HistoryProofs.
From Coq Require Import ZifyBool.

Definition qstep (s s' : state) : Prop :=
  (exists added, queue s' = queue s ++ added) \/
  (exists x, queue s = x :: queue s' /\ worker s = Alive) \/
  (exists a q, queue s = (CShutdown, a) :: q /\ queue s' = [] /\ worker s = Alive).

Lemma qstep_same : forall s s', queue s' = queue s -> qstep s s'.
Proof. intros s s' H. left. exists []. rewrite app_nil_r. exact H. Qed.

Lemma qstep_pre : forall s s0 s', queue s0 = queue s -> worker s0 = worker s -> qstep s0 s' -> qstep s s'.
Proof. intros s s0 s' Hq Hw H. unfold qstep in *. rewrite Hq, Hw in H. exact H. Qed.

Lemma do_send_q : forall cfg tid c s, qstep s (fst (do_send cfg tid c s)).
Proof.
  intros cfg tid c s. unfold do_send.
  destruct (worker s); [destruct (_ <? c_queue cfg)|..]; cbn [fst]; try (apply qstep_same; reflexivity).
  left. eexists. reflexivity.
Qed.

Lemma step_q : forall cfg s ev, qstep s (step_state cfg s ev).
Proof.
  intros cfg s ev.
  assert (Hd : (exists orc, ev = EWorker orc) \/ forall orc, ev <> EWorker orc).
  { destruct ev; try (right; intros orc0; discriminate). left; eexists; reflexivity. }
  destruct Hd as [(orc & ->)|Hnw].
  - pose proof (worker_takes_head cfg s orc) as H. cbv zeta in H.
    destruct H as [H|[(x & q & H1 & H2 & H3)|(a & q & H1 & H2 & H3)]].
    + apply qstep_same. exact H.
    + right; left. exists x. rewrite H2. split; assumption.
    + right; right. exists a, q. split; [exact H1|]. split; [exact H2|].
      destruct (worker s) eqn:Hw; [reflexivity|..]; exfalso;
        unfold step_state in H2; cbn [step] in H2; unfold worker_step in H2; rewrite Hw in H2; cbn [fst] in H2;
        rewrite H1 in H2; discriminate.
  - left. apply queue_only_appended. exact Hnw.
Qed.

Lemma upsert_half1_q : forall cfg k v w ttl rm s,
  match upsert_half1 cfg k v w ttl rm s with inl (s', _) => queue s' = queue s | inr (s', _) => queue s' = queue s end.
Proof.
  intros cfg k v w ttl rm s. unfold upsert_half1.
  destruct (alookup k (store s)); [|reflexivity]. cbv zeta.
  destruct rm; [reflexivity|]. destruct ttl as [t|]; [destruct (calc_expiry (now s) t)|]; reflexivity.
Qed.

Lemma upsert_half2_q : forall cfg tid u s, qstep s (fst (upsert_half2 cfg tid u s)).
Proof.
  intros cfg tid u s. unfold upsert_half2. cbv zeta.
  destruct (u_resp u) as [[[id old] new_exp]|].
  - destruct (type_of_expiry_update old new_exp);
      repeat (match goal with
              | |- qstep _ (fst (match ?x with _ => _ end)) => destruct x eqn:?
              | |- qstep _ (fst (if ?b then _ else _)) => destruct b eqn:?
              end); cbn [fst]; try (apply qstep_same; reflexivity);
      match goal with |- qstep ?s (fst (do_send ?c ?t ?cm ?s0)) =>
        apply (qstep_pre s s0); [reflexivity|reflexivity|apply do_send_q] end.
  - destruct (u_v u) as [val|]; [|apply qstep_same; reflexivity].
    destruct (requested_weight cfg (u_k u) (Some val) (u_w u) (u_ttl u)) as [wt|]; [|apply qstep_same; reflexivity].
    destruct (wt <=? 0); [apply qstep_same; reflexivity|].
    destruct (u_ttl u);
      match goal with |- qstep ?s (fst (do_send ?c ?t ?cm ?s0)) =>
        apply (qstep_pre s s0); [reflexivity|reflexivity|apply do_send_q] end.
Qed.

(** after the worker has taken the head, admission leaves the rest of the queue alone *)
Lemma admission_q : forall cfg orc k id h w s0 r s1 vs, admission cfg orc k id h w s0 = (r, s1, vs) -> queue s1 = queue s0.
Proof. intros. pose proof (admission_frame _ _ _ _ _ _ _ _ _ _ H) as (_ & Fq & _). exact Fq. Qed.

Lemma worker_half1_q : forall cfg orc s,
  match worker_half1 cfg orc s with inl (s', _) => qstep s s' | inr (s', _) => qstep s s' end.
Proof.
  intros cfg orc s. unfold worker_half1.
  pose proof (step_q cfg s (EWorker orc)) as Hws. unfold step_state in Hws. cbn [step] in Hws.
  destruct (worker_step cfg orc s) as [sw rw] eqn:Ew. cbn [fst] in Hws.
  destruct (worker s) eqn:Hwk; try exact Hws.
  destruct (queue s) as [|[c a] q] eqn:Hq; [exact Hws|].
  destruct c as [k v id h w|k v id h w ttl|k|id w|]; try exact Hws.
  cbv zeta.
  destruct (amem k (store (set_queue s q))); [exact Hws|].
  destruct (admission cfg orc k id h w (set_queue s q)) as [[r s1] vs] eqn:E.
  pose proof (admission_q _ _ _ _ _ _ _ _ _ _ E) as Hq1.
  destruct r as [[| |rj|]|site|why]; try exact Hws.
  destruct (calc_expiry (now s1) ttl); [|exact Hws].
  right; left. exists (CPutTTL k v id h w ttl, a). rewrite Hq. split; [|exact Hwk].
  f_equal. cbn. exact (eq_sym Hq1).
Qed.

Lemma wstep_q : forall cfg ws ev, qstep (base ws) (base (fst (wstep cfg ws ev))).
Proof.
  intros cfg ws ev. destruct ev as [e|tid k v w ttl rm|tid|orc|]; cbn [wstep].
  - match goal with |- context [if ?b then _ else _] => destruct b end; [|apply qstep_same; reflexivity].
    pose proof (step_q cfg (base ws) e) as H. unfold step_state in H.
    destruct (step cfg (base ws) e) as [s' ret]. exact H.
  - destruct (_ || _); [apply qstep_same; reflexivity|]. destruct (shut (base ws)); [apply qstep_same; reflexivity|].
    pose proof (upsert_half1_q cfg k v w ttl rm (base ws)) as H.
    destruct (upsert_half1 cfg k v w ttl rm (base ws)) as [[s' u]|[s' ret]]; apply qstep_same; exact H.
  - destruct (alookup tid (ups ws)) as [u|]; [|apply qstep_same; reflexivity].
    pose proof (upsert_half2_q cfg tid u (base ws)) as H.
    destruct (upsert_half2 cfg tid u (base ws)) as [s' ret]. exact H.
  - destruct (wpending ws); [apply qstep_same; reflexivity|].
    pose proof (worker_half1_q cfg orc (base ws)) as H.
    destruct (worker_half1 cfg orc (base ws)) as [[s' p]|[s' ret]]; exact H.
  - destruct (wpending ws) as [p|]; [|apply qstep_same; reflexivity]. apply qstep_same. reflexivity.
Qed.

Lemma shutdown_stage_q : forall cfg ms tid n, qstep (mbase ms) (mbase (fst (shutdown_stage cfg ms tid n))).
Proof.
  intros cfg ms tid n. unfold shutdown_stage. cbv zeta.
  destruct (n =? 0).
  { destruct (worker (mbase ms)); try (apply qstep_same; reflexivity).
    destruct (_ <? c_queue cfg); [|apply qstep_same; reflexivity].
    left. eexists. reflexivity. }
  destruct (n =? 1).
  { destruct (consumer (mbase ms)); try (apply qstep_same; reflexivity).
    destruct (_ <? chan_capacity); apply qstep_same; reflexivity. }
  repeat match goal with |- context [if ?b then _ else _] => destruct b end; apply qstep_same; reflexivity.
Qed.

(* STATEMENT (C11 for every micro step, no condition on the state or the event): whatever micro step is taken - by a
   caller at any schedule point, by the worker inside any command, by the sweeper, the consumer, any stage of shutdown() -
   the command queue either grows at its tail, or loses its head to the (live) worker, or is emptied by the worker
   executing Shutdown at its head *)
Lemma micro_queue_fifo_all : forall cfg ms ev, qstep (mbase ms) (mbase (fst (mstep cfg ms ev))).
Proof.
  intros cfg ms ev. destruct ev as [e|tid r idxs|tid idxs|orc|]; cbn [mstep].
  - destruct (mwin_enabled ms e); [|apply qstep_same; reflexivity].
    pose proof (wstep_q cfg (win ms) e) as H.
    destruct (wstep cfg (win ms) e) as [w' ret]. exact H.
  - unfold menter. destruct (negb (caller_free ms tid)); [apply qstep_same; reflexivity|]. cbv zeta.
    destruct (shut (mbase ms) || negb (micro_request r) || early_panic cfg r).
    + pose proof (step_q cfg (mbase ms) (ECall tid r idxs)) as H. unfold step_state in H. cbn [step] in H.
      destruct (call cfg tid r idxs (mbase ms)) as [s' ret]. exact H.
    + destruct r; apply qstep_same; reflexivity.
  - unfold mstepc. cbv zeta. destruct (alookup tid (cps ms)) as [p|] eqn:Hp; [|apply qstep_same; reflexivity].
    destruct p as [r|k v w ttl| |h obs|n].
    + destruct r; try (apply qstep_same; reflexivity);
        try (unfold put_check; cbv zeta;
             repeat match goal with |- context [if ?b then _ else _] => destruct b end; apply qstep_same; reflexivity);
        try (unfold read_lookup; cbv zeta; destruct (lookup_alive _ _); apply qstep_same; reflexivity).
      * pose proof (upsert_half1_q cfg k v w ttl rm (mbase ms)) as H.
        destruct (upsert_half1 cfg k v w ttl rm (mbase ms)) as [[s' u]|[s' ret]]; apply qstep_same; exact H.
      * apply qstep_same. cbn. unfold soft_mark. destruct (alookup k (store (mbase ms))); reflexivity.
      * unfold read_body. destruct (read_one cfg k idxs (mbase ms)) as [[[v0 s'] [|i l]]|] eqn:Hr;
          try (apply qstep_same; reflexivity).
        apply qstep_same. cbn. pose proof (InvCalls.read_one_frame cfg k idxs _ _ _ _ Hr) as F. apply F.
      * unfold read_body. destruct (read_one cfg k idxs (mbase ms)) as [[[v0 s'] [|i l]]|] eqn:Hr;
          try (apply qstep_same; reflexivity).
        apply qstep_same. cbn. pose proof (InvCalls.read_one_frame cfg k idxs _ _ _ _ Hr) as F. apply F.
    + apply qstep_same. reflexivity.
    + destruct (alookup tid (blocked (mbase ms))) as [[c| |]|]; try (apply qstep_same; reflexivity).
      pose proof (do_send_q cfg tid c (set_blocked (mbase ms) (aremove tid (blocked (mbase ms))))) as H.
      destruct (do_send cfg tid c (set_blocked (mbase ms) (aremove tid (blocked (mbase ms))))) as [s' ret].
      cbn [fst] in *. eapply qstep_pre; [| |exact H]; reflexivity.
    + destruct idxs as [|i [|j l]]; try (apply qstep_same; reflexivity).
      destruct (pool_add cfg i h (mbase ms)) as [s'|] eqn:Hpa; [|apply qstep_same; reflexivity].
      apply qstep_same. cbn. pose proof (InvCalls.pool_add_frame cfg i h _ _ Hpa) as F. apply F.
    + apply shutdown_stage_q.
  - unfold mworker1. cbv zeta. destruct (wdel ms); [apply qstep_same; reflexivity|].
    destruct (wpending (win ms)); [apply qstep_same; reflexivity|].
    assert (Hfall : qstep (mbase ms) (mbase (fst (let '(w', ret) := wstep cfg (win ms) (WPut1 orc) in
                                                  ({| win := w'; cps := cps ms; wdel := None |}, ret))))).
    { pose proof (wstep_q cfg (win ms) (WPut1 orc)) as H.
      destruct (wstep cfg (win ms) (WPut1 orc)) as [w' ret]. exact H. }
    destruct (worker (mbase ms)) eqn:Hwk; try exact Hfall.
    destruct (queue (mbase ms)) as [|[c a] q] eqn:Hq; [exact Hfall|].
    assert (Hput : forall k v id h w ttl, qstep (mbase ms) (mbase (fst (mput1 cfg ms orc k v id h w ttl a q)))).
    { intros k v id h w ttl. unfold mput1. cbv zeta.
      destruct (amem k (store (set_queue (mbase ms) q))).
      { right; left. exists (c, a). rewrite Hq. split; [reflexivity|exact Hwk]. }
      destruct (admission cfg orc k id h w (set_queue (mbase ms) q)) as [[r s1] vs] eqn:E.
      pose proof (admission_q _ _ _ _ _ _ _ _ _ _ E) as Hq1. cbn in Hq1.
      destruct r as [[| |rj|]|site|why]; cbn [fst]; try (apply qstep_same; reflexivity);
        (right; left; exists (c, a); rewrite Hq; split; [f_equal; cbn; congruence|exact Hwk]). }
    destruct c as [k v id h w|k v id h w ttl|k|id w|]; try exact Hfall; try apply Hput.
    destruct (alookup k (store (set_queue (mbase ms) q))) as [e|]; cbn [fst];
      (right; left; exists (CDelete k, a); rewrite Hq; split; [f_equal; cbn; try reflexivity|exact Hwk]).
    unfold store_delete. cbn. destruct (alookup k (store (mbase ms))); reflexivity.
  - unfold mworker2. cbv zeta. destruct (wdel ms) as [[a id exp|a id exp|a k v id ttl obs]|].
    + pose proof (weights_delete_frame cfg id false (mbase ms)) as Hf.
      destruct (weights_delete cfg id false (mbase ms)) as [s2|site s2|why]; try (apply qstep_same; reflexivity);
        apply qstep_same; cbn; destruct Hf as (_ & Fq & _); exact Fq.
    + apply qstep_same. cbn. destruct exp; reflexivity.
    + destruct ttl as [t|]; [destruct (calc_expiry (now (mbase ms)) t)|]; apply qstep_same; reflexivity.
    + pose proof (wstep_q cfg (win ms) WPut2) as H.
      destruct (wstep cfg (win ms) WPut2) as [w' ret]. exact H.
Qed.

(* STATEMENT (one at a time): the worker takes a command from the queue only when it has none in flight - neither inside a
   Delete or a put (Micro.v's windows) nor inside a put with time-to-live (Window.v's window) *)
Lemma micro_worker_one_at_a_time : forall cfg ms orc,
  wdel ms <> None \/ wpending (win ms) <> None ->
  mstep cfg ms (MWorker1 orc) = (ms, [6]) /\ mstep cfg ms (MWin (WBase (EWorker orc))) = (ms, [6]).
Proof.
  intros cfg ms orc H. cbn [mstep]. unfold mworker1, mwin_enabled. cbv zeta.
  destruct (wdel ms) as [d|] eqn:Hd.
  - split; reflexivity.
  - destruct H as [H|H]; [contradiction|].
    destruct (wpending (win ms)) as [p|] eqn:Hp; [|contradiction].
    split; [reflexivity|]. cbn [wstep]. rewrite Hp. destruct ms as [w c d]; cbn in *. subst d. destruct w; reflexivity.
Qed.
