(** C12: every acknowledgement resolves exactly once to the command's real outcome — for every interleaving of the
    completer with any number of pollers, at the granularity of the individual accesses to flag, status and waker slot. *)
From CacheD Require Import Base Model Ack.
From Coq Require Import ZifyBool.

(** the current code writes the status first ([flag_first = false]) *)
Definition reach (final : status) (pollers : list (Z * Z)) (s : astate) : Prop :=
  exists sched, s = arun false final pollers sched.

(** * helpers: association lists *)
Section AListFacts.
  Variable A : Type.

  Lemma alookup_aremove_neq : forall i j (l : list (Z * A)), j <> i -> alookup j (aremove i l) = alookup j l.
  Proof.
    intros i j l Hne. induction l as [|[k v] t IH]; simpl; [reflexivity|].
    destruct (i =? k) eqn:E.
    - apply Z.eqb_eq in E. subst k. destruct (j =? i) eqn:E2; [apply Z.eqb_eq in E2; contradiction|]. exact IH.
    - simpl. destruct (j =? k); [reflexivity|exact IH].
  Qed.

  Lemma alookup_aset : forall i j (p : A) (l : list (Z * A)),
    alookup j (aset i p l) = if j =? i then Some p else alookup j l.
  Proof.
    intros i j p l. unfold aset. simpl. destruct (j =? i) eqn:E; [reflexivity|].
    apply alookup_aremove_neq. apply Z.eqb_neq. exact E.
  Qed.

  Lemma keys_aremove : forall i k (l : list (Z * A)), In k (map fst (aremove i l)) -> In k (map fst l).
  Proof.
    intros i k l. induction l as [|[k' v] t IH]; simpl; intros H; [exact H|].
    destruct (i =? k'); [right; apply IH; exact H|].
    simpl in H. destruct H as [H|H]; [left; exact H|right; apply IH; exact H].
  Qed.

  Lemma keys_aremove_not : forall i (l : list (Z * A)), ~ In i (map fst (aremove i l)).
  Proof.
    intros i l. induction l as [|[k' v] t IH]; simpl; [tauto|].
    destruct (i =? k') eqn:E; [exact IH|].
    simpl. intros [H|H]; [apply Z.eqb_neq in E; congruence|exact (IH H)].
  Qed.

  Lemma nodup_aremove : forall i (l : list (Z * A)), NoDup (map fst l) -> NoDup (map fst (aremove i l)).
  Proof.
    intros i l. induction l as [|[k' v] t IH]; simpl; intros H; [constructor|].
    inversion H as [|x xs Hnin Hnd]; subst.
    destruct (i =? k'); [apply IH; exact Hnd|].
    simpl. constructor; [intro Hin; apply Hnin; eapply keys_aremove; exact Hin|apply IH; exact Hnd].
  Qed.

  Lemma nodup_aset : forall i (p : A) (l : list (Z * A)), NoDup (map fst l) -> NoDup (map fst (aset i p l)).
  Proof.
    intros i p l H. unfold aset. simpl. constructor; [apply keys_aremove_not|apply nodup_aremove; exact H].
  Qed.

  Lemma keys_aset : forall i k (p : A) (l : list (Z * A)), In k (map fst (aset i p l)) -> k = i \/ In k (map fst l).
  Proof.
    intros i k p l H. unfold aset in H. simpl in H.
    destruct H as [H|H]; [left; symmetry; exact H|right; eapply keys_aremove; exact H].
  Qed.

  Lemma alookup_some_in : forall i (p : A) (l : list (Z * A)), alookup i l = Some p -> In (i, p) l.
  Proof.
    intros i p l. induction l as [|[k' v] t IH]; simpl; intros H; [discriminate|].
    destruct (i =? k') eqn:E.
    - apply Z.eqb_eq in E. inversion H; subst. left; reflexivity.
    - right; apply IH; exact H.
  Qed.

  Lemma alookup_some_key : forall i (p : A) (l : list (Z * A)), alookup i l = Some p -> In i (map fst l).
  Proof.
    intros i p l H. apply alookup_some_in in H. apply (in_map fst) in H. exact H.
  Qed.

  Lemma in_alookup_nodup : forall k (p : A) (l : list (Z * A)),
    NoDup (map fst l) -> In (k, p) l -> alookup k l = Some p.
  Proof.
    intros k p l. induction l as [|[k' v] t IH]; simpl; intros Hnd Hin; [contradiction|].
    inversion Hnd as [|x xs Hnin Hnd']; subst. destruct Hin as [Heq|Hin].
    - inversion Heq; subst. rewrite Z.eqb_refl. reflexivity.
    - destruct (k =? k') eqn:E.
      + apply Z.eqb_eq in E; subst k'. exfalso; apply Hnin. apply (in_map fst) in Hin. exact Hin.
      + apply IH; assumption.
  Qed.
End AListFacts.

(** * projections *)
Ltac proj :=
  cbn [a_flag a_status a_slot a_wlock a_dpc a_pollers a_wakes a_regs a_pending_returns a_wake_seen_pending
       a_wake_regs set_poller set_wlock note_pending wake set_dpc set_flag write_status p_waker p_pc p_result].

Ltac proj_in H :=
  cbn [a_flag a_status a_slot a_wlock a_dpc a_pollers a_wakes a_regs a_pending_returns a_wake_seen_pending
       a_wake_regs set_poller set_wlock note_pending wake set_dpc set_flag write_status p_waker p_pc p_result] in H.

(** the pcs at which a poller holds the waker mutex / has already registered its waker *)
Definition holdsb (pc : ppc) : bool :=
  match pc with P_register | P_flag | P_ready | P_pending => true | _ => false end.
Definition regdb (pc : ppc) : bool :=
  match pc with P_flag | P_ready | P_pending => true | _ => false end.

(** * the invariant *)
Record AInv (final : status) (pollers : list (Z * Z)) (s : astate) : Prop := {
  I_status : a_status s = Pending \/ a_status s = final;
  I_start : a_dpc s = D_start -> a_status s = Pending /\ a_flag s = false;
  I_nstart : a_dpc s <> D_start -> a_status s = final;
  I_flag : a_flag s = true <-> (a_dpc s = D_mid2 \/ a_dpc s = D_done);
  I_lock : forall j, a_wlock s = Some j <-> exists p, alookup j (a_pollers s) = Some p /\ holdsb (p_pc p) = true;
  I_lock0 : a_wlock s <> Some 0;
  I_keys : forall k, In k (map fst (a_pollers s)) -> In k (map fst pollers);
  I_waker : forall i p, alookup i (a_pollers s) = Some p -> alookup i pollers = Some (p_waker p);
  I_res_done : forall i p, alookup i (a_pollers s) = Some p -> (p_pc p = P_done <-> p_result p <> RNone);
  I_res_ready : forall i p, alookup i (a_pollers s) = Some p -> forall x, p_result p = RReady x -> x = final;
  I_pc_ready : forall i p, alookup i (a_pollers s) = Some p -> p_pc p = P_ready -> a_flag s = true;
  I_pc_pending : forall i p, alookup i (a_pollers s) = Some p -> p_pc p = P_pending -> a_dpc s <> D_done;
  I_slot_none : a_slot s = None <-> a_regs s = [];
  I_slot_some : forall w, a_slot s = Some w -> a_regs s <> [] /\ last (a_regs s) 0 = w;
  I_registered : forall i p, alookup i (a_pollers s) = Some p -> regdb (p_pc p) = true -> In (p_waker p) (a_regs s);
  I_ndone : a_dpc s <> D_done -> a_wakes s = [] /\ a_wake_seen_pending s = [] /\ a_wake_regs s = [];
  I_done : a_dpc s = D_done ->
           a_wakes s = match a_wake_regs s with [] => [] | _ :: _ => [last (a_wake_regs s) 0] end /\
           a_wake_seen_pending s = a_pending_returns s;
  I_pending : forall i, In i (a_pending_returns s) ->
              exists p, alookup i (a_pollers s) = Some p /\ p_pc p = P_done /\ p_result p = RPending /\
                        In (p_waker p) (a_regs s) /\ (a_dpc s = D_done -> In (p_waker p) (a_wake_regs s))
}.
Arguments I_status {final pollers s} _.
Arguments I_start {final pollers s} _.
Arguments I_nstart {final pollers s} _.
Arguments I_flag {final pollers s} _.
Arguments I_lock {final pollers s} _.
Arguments I_lock0 {final pollers s} _.
Arguments I_keys {final pollers s} _.
Arguments I_waker {final pollers s} _.
Arguments I_res_done {final pollers s} _.
Arguments I_res_ready {final pollers s} _.
Arguments I_pc_ready {final pollers s} _.
Arguments I_pc_pending {final pollers s} _.
Arguments I_slot_none {final pollers s} _.
Arguments I_slot_some {final pollers s} _.
Arguments I_registered {final pollers s} _.
Arguments I_ndone {final pollers s} _.
Arguments I_done {final pollers s} _.
Arguments I_pending {final pollers s} _.

Lemma init_inv : forall final pollers, AInv final pollers (ainit pollers).
Proof.
  intros final pollers.
  assert (Hlk : forall i p, alookup i (a_pollers (ainit pollers)) = Some p ->
                  p_pc p = P_lock /\ p_result p = RNone /\ alookup i pollers = Some (p_waker p)).
  { unfold ainit. proj. induction pollers as [|[k w] t IH]; simpl; intros i p H; [discriminate|].
    destruct (i =? k); [inversion H; subst; simpl; auto|apply IH; exact H]. }
  constructor; unfold ainit at 1; proj.
  - left; reflexivity.
  - intros _; split; reflexivity.
  - intros H; contradiction H; reflexivity.
  - split; [discriminate|intros [H|H]; discriminate].
  - intros j. split; [discriminate|]. intros (p & Hp & Hh). apply Hlk in Hp. destruct Hp as (Hpc & _).
    rewrite Hpc in Hh. discriminate.
  - discriminate.
  - intros k. rewrite map_map. simpl. intros H; exact H.
  - intros i p H. apply Hlk in H. tauto.
  - intros i p H. apply Hlk in H. destruct H as (Hpc & Hr & _). rewrite Hpc, Hr.
    split; [discriminate|intros H; contradiction H; reflexivity].
  - intros i p H x Hx. apply Hlk in H. destruct H as (_ & Hr & _). rewrite Hr in Hx. discriminate.
  - intros i p H Hx. apply Hlk in H. destruct H as (Hpc & _). rewrite Hpc in Hx. discriminate.
  - intros i p H Hx. apply Hlk in H. destruct H as (Hpc & _). rewrite Hpc in Hx. discriminate.
  - split; reflexivity.
  - discriminate.
  - intros i p H Hx. apply Hlk in H. destruct H as (Hpc & _). rewrite Hpc in Hx. discriminate.
  - intros _. auto.
  - discriminate.
  - intros i [].
Qed.

(** * preservation *)
Ltac old HI :=
  first [ exact (I_status HI) | exact (I_start HI) | exact (I_nstart HI) | exact (I_flag HI) | exact (I_lock HI)
        | exact (I_lock0 HI) | exact (I_keys HI) | exact (I_waker HI) | exact (I_res_done HI) | exact (I_res_ready HI)
        | exact (I_pc_ready HI) | exact (I_pc_pending HI) | exact (I_slot_none HI) | exact (I_slot_some HI)
        | exact (I_registered HI) | exact (I_ndone HI) | exact (I_done HI) | exact (I_pending HI) ].

Lemma done_step_inv : forall final pollers s, AInv final pollers s -> AInv final pollers (done_step false final s).
Proof.
  intros final pollers s HI. unfold done_step.
  destruct (a_dpc s) eqn:Hd.
  - (* D_start: write the status *)
    destruct (I_start HI Hd) as [Hst Hfl].
    assert (Hnd : a_dpc s <> D_done) by (rewrite Hd; discriminate).
    constructor; proj; try (old HI).
    + right; reflexivity.
    + discriminate.
    + reflexivity.
    + rewrite Hfl. split; [discriminate|intros [H|H]; discriminate].
    + intros; discriminate.
    + intros _. exact (I_ndone HI Hnd).
    + discriminate.
    + intros i Hi. destruct (I_pending HI i Hi) as (p & H1 & H2 & H3 & H4 & _).
      exists p. repeat split; try assumption. discriminate.
  - (* D_mid1: set the flag *)
    assert (Hns : a_dpc s <> D_start) by (rewrite Hd; discriminate).
    assert (Hnd : a_dpc s <> D_done) by (rewrite Hd; discriminate).
    constructor; proj; try (old HI).
    + discriminate.
    + intros _. exact (I_nstart HI Hns).
    + split; [intros _; left; reflexivity|reflexivity].
    + reflexivity.
    + intros; discriminate.
    + intros _. exact (I_ndone HI Hnd).
    + discriminate.
    + intros i Hi. destruct (I_pending HI i Hi) as (p & H1 & H2 & H3 & H4 & _).
      exists p. repeat split; try assumption. discriminate.
  - (* D_mid2: the wake step, enabled only when W is free *)
    destruct (a_wlock s) as [h|] eqn:Hw; [exact HI|].
    assert (Hns : a_dpc s <> D_start) by (rewrite Hd; discriminate).
    assert (Hnd : a_dpc s <> D_done) by (rewrite Hd; discriminate).
    destruct (I_ndone HI Hnd) as (Hwk & Hsp & Hwr).
    assert (Hfl : a_flag s = true) by (apply (I_flag HI); left; exact Hd).
    constructor; proj; try (old HI).
    + discriminate.
    + intros _. exact (I_nstart HI Hns).
    + split; [intros _; right; reflexivity|intros _; exact Hfl].
    + intros i p Hp Hpc _.
      assert (Hx : a_wlock s = Some i).
      { apply (I_lock HI). exists p. split; [exact Hp|]. rewrite Hpc. reflexivity. }
      rewrite Hw in Hx. discriminate.
    + intros H; contradiction H; reflexivity.
    + intros _. split; [|reflexivity]. rewrite Hwk.
      destruct (a_slot s) as [w|] eqn:Hs.
      * destruct (I_slot_some HI w Hs) as (Hne & Hl).
        destruct (a_regs s) as [|r0 rs] eqn:Hr; [contradiction Hne; reflexivity|].
        rewrite Hl. reflexivity.
      * apply (I_slot_none HI) in Hs. rewrite Hs. reflexivity.
    + intros i Hi. destruct (I_pending HI i Hi) as (p & H1 & H2 & H3 & H4 & _).
      exists p. repeat split; try assumption. intros _. exact H4.
  - exact HI.
Qed.

Lemma last_in : forall (l : list Z) d, l <> [] -> In (last l d) l.
Proof.
  intros l d Hne. rewrite (app_removelast_last d Hne) at 2. apply in_or_app. right. left. reflexivity.
Qed.

Lemma register_facts : forall final pollers s w, AInv final pollers s ->
  a_flag (register s w) = a_flag s /\ a_status (register s w) = a_status s /\
  a_wlock (register s w) = a_wlock s /\ a_dpc (register s w) = a_dpc s /\
  a_pollers (register s w) = a_pollers s /\ a_wakes (register s w) = a_wakes s /\
  a_pending_returns (register s w) = a_pending_returns s /\
  a_wake_seen_pending (register s w) = a_wake_seen_pending s /\
  a_wake_regs (register s w) = a_wake_regs s /\
  a_slot (register s w) = Some w /\
  (forall x, In x (a_regs s) -> In x (a_regs (register s w))) /\
  In w (a_regs (register s w)) /\
  a_regs (register s w) <> [] /\ last (a_regs (register s w)) 0 = w.
Proof.
  intros final pollers s w HI. unfold register.
  destruct (a_slot s) as [w'|] eqn:Hs; [destruct (w' =? w) eqn:Eww|].
  - apply Z.eqb_eq in Eww. subst w'. destruct (I_slot_some HI w Hs) as (Hne & Hl).
    repeat split; try reflexivity; try assumption.
    + intros x Hx; exact Hx.
    + rewrite <- Hl. apply last_in. exact Hne.
  - proj. repeat split; try reflexivity.
    + intros x Hx. apply in_or_app. left; exact Hx.
    + apply in_or_app. right. left. reflexivity.
    + intros H. apply app_eq_nil in H. destruct H as (_ & H). discriminate.
    + apply last_last.
  - proj. repeat split; try reflexivity.
    + intros x Hx. apply in_or_app. left; exact Hx.
    + apply in_or_app. right. left. reflexivity.
    + intros H. apply app_eq_nil in H. destruct H as (_ & H). discriminate.
    + apply last_last.
Qed.

Ltac lk i :=
  let j := fresh "j" in let q := fresh "q" in let Hq := fresh "Hq" in let E := fresh "E" in
  intros j q Hq; rewrite alookup_aset in Hq; destruct (j =? i) eqn:E;
  [apply Z.eqb_eq in E; subst j; injection Hq as <-; proj|apply Z.eqb_neq in E].

Ltac lockcase i :=
  let j := fresh "j" in let E := fresh "E" in
  intros j; rewrite alookup_aset; destruct (j =? i) eqn:E;
  [apply Z.eqb_eq in E; subst j|apply Z.eqb_neq in E].

(* the poller taking the step is not at P_done, so it is not among the pending returns *)
Ltac pendcase HI i Hlk :=
  let k := fresh "k" in let Hk := fresh "Hk" in let q := fresh "q" in let E := fresh "E" in
  let H1 := fresh "H1" in let H2 := fresh "H2" in let H3 := fresh "H3" in let H4 := fresh "H4" in let H5 := fresh "H5" in
  intros k Hk; destruct (I_pending HI k Hk) as (q & H1 & H2 & H3 & H4 & H5); exists q;
  rewrite alookup_aset; destruct (k =? i) eqn:E;
  [apply Z.eqb_eq in E; subst k; rewrite Hlk in H1; injection H1 as <-; proj_in H2; discriminate H2|];
  repeat split; auto.

Lemma poll_step_inv : forall final pollers s i, i <> 0 -> AInv final pollers s -> AInv final pollers (poll_step i s).
Proof.
  intros final pollers s i Hi0 HI. unfold poll_step.
  destruct (alookup i (a_pollers s)) as [p|] eqn:Hlk; [|exact HI].
  destruct p as [w pc r]. proj.
  assert (Hwk : alookup i pollers = Some w) by exact (I_waker HI i _ Hlk).
  assert (Hkeys : forall p' k, In k (map fst (aset i p' (a_pollers s))) -> In k (map fst pollers)).
  { intros p' k Hk. apply keys_aset in Hk. destruct Hk as [Hk|Hk].
    - subst k. apply (I_keys HI). eapply alookup_some_key. exact Hlk.
    - apply (I_keys HI). exact Hk. }
  assert (Hwi : holdsb pc = true -> a_wlock s = Some i).
  { intros Hh. apply (I_lock HI). eexists. split; [exact Hlk|exact Hh]. }
  destruct pc.
  - (* P_lock *)
    destruct (a_wlock s) as [h|] eqn:Hw; [exact HI|].
    constructor; proj; try (old HI); try (apply Hkeys).
    + lockcase i.
      * split; [intros _; eexists; split; reflexivity|reflexivity].
      * split; [intros H; injection H as H; congruence|].
        intros Hex. apply (I_lock HI) in Hex. rewrite Hw in Hex. discriminate.
    + intros H; injection H as H; exact (Hi0 H).
    + lk i; [exact Hwk|eapply (I_waker HI); eassumption].
    + lk i; [split; [discriminate|intros H; contradiction H; reflexivity]|eapply (I_res_done HI); eassumption].
    + lk i; [intros; discriminate|eapply (I_res_ready HI); eassumption].
    + lk i; [intros; discriminate|eapply (I_pc_ready HI); eassumption].
    + lk i; [intros; discriminate|eapply (I_pc_pending HI); eassumption].
    + lk i; [intros; discriminate|eapply (I_registered HI); eassumption].
    + pendcase HI i Hlk.
  - (* P_register *)
    specialize (Hwi eq_refl).
    pose proof (register_facts final pollers s w HI) as HR.
    remember (register s w) as s1 eqn:Hs1. clear Hs1.
    destruct HR as (Rfl & Rst & Rwl & Rdpc & Rpol & Rwk & Rpr & Rwsp & Rwr & Rslot & Rmono & Rin & Rne & Rlast).
    constructor; proj; rewrite ?Rfl, ?Rst, ?Rwl, ?Rdpc, ?Rpol, ?Rwk, ?Rpr, ?Rwsp, ?Rwr, ?Rslot;
      try (old HI); try (apply Hkeys).
    + lockcase i; [split; [intros _; eexists; split; reflexivity|intros _; exact Hwi]|exact (I_lock HI _)].
    + lk i; [exact Hwk|eapply (I_waker HI); eassumption].
    + lk i; [split; [discriminate|intros H; contradiction H; reflexivity]|eapply (I_res_done HI); eassumption].
    + lk i; [intros; discriminate|eapply (I_res_ready HI); eassumption].
    + lk i; [intros; discriminate|eapply (I_pc_ready HI); eassumption].
    + lk i; [intros; discriminate|eapply (I_pc_pending HI); eassumption].
    + split; [discriminate|intros H; contradiction (Rne H)].
    + intros w0 H0. injection H0 as <-. split; assumption.
    + lk i; [intros _; exact Rin|intros Hr; apply Rmono; eapply (I_registered HI); eassumption].
    + pendcase HI i Hlk.
  - (* P_flag *)
    specialize (Hwi eq_refl).
    assert (Hreg : In w (a_regs s)) by exact (I_registered HI i _ Hlk eq_refl).
    constructor; proj; try (old HI); try (apply Hkeys).
    + lockcase i; [|exact (I_lock HI _)].
      split; [intros _; eexists; split; [reflexivity|proj; destruct (a_flag s); reflexivity]|intros _; exact Hwi].
    + lk i; [exact Hwk|eapply (I_waker HI); eassumption].
    + lk i; [|eapply (I_res_done HI); eassumption].
      destruct (a_flag s); (split; [discriminate|intros H; contradiction H; reflexivity]).
    + lk i; [intros; discriminate|eapply (I_res_ready HI); eassumption].
    + lk i; [|eapply (I_pc_ready HI); eassumption].
      destruct (a_flag s); [reflexivity|discriminate].
    + lk i; [|eapply (I_pc_pending HI); eassumption].
      destruct (a_flag s) eqn:Hfl; [discriminate|]. intros _ Hd.
      assert (Hx : a_flag s = true) by (apply (I_flag HI); right; exact Hd).
      rewrite Hfl in Hx. discriminate.
    + lk i; [intros _; exact Hreg|eapply (I_registered HI); eassumption].
    + pendcase HI i Hlk.
  - (* P_ready *)
    specialize (Hwi eq_refl).
    assert (Hfl : a_flag s = true) by exact (I_pc_ready HI i _ Hlk eq_refl).
    assert (Hst : a_status s = final).
    { apply (I_nstart HI). intros Hd. destruct (I_start HI Hd) as (_ & Hx). rewrite Hfl in Hx. discriminate. }
    constructor; proj; try (old HI); try (apply Hkeys).
    + lockcase i.
      * split; [discriminate|]. intros (q & Hq & Hh). injection Hq as <-. discriminate Hh.
      * split; [discriminate|]. intros Hex. apply (I_lock HI) in Hex. rewrite Hwi in Hex.
        injection Hex as Hex. congruence.
    + discriminate.
    + lk i; [exact Hwk|eapply (I_waker HI); eassumption].
    + lk i; [split; [intros _; discriminate|reflexivity]|eapply (I_res_done HI); eassumption].
    + lk i; [|eapply (I_res_ready HI); eassumption].
      intros x Hx. injection Hx as <-. exact Hst.
    + lk i; [intros; discriminate|eapply (I_pc_ready HI); eassumption].
    + lk i; [intros; discriminate|eapply (I_pc_pending HI); eassumption].
    + lk i; [intros; discriminate|eapply (I_registered HI); eassumption].
    + pendcase HI i Hlk.
  - (* P_pending *)
    specialize (Hwi eq_refl).
    assert (Hreg : In w (a_regs s)) by exact (I_registered HI i _ Hlk eq_refl).
    assert (Hnd : a_dpc s <> D_done) by exact (I_pc_pending HI i _ Hlk eq_refl).
    constructor; proj; try (old HI); try (apply Hkeys).
    + lockcase i.
      * split; [discriminate|]. intros (q & Hq & Hh). injection Hq as <-. discriminate Hh.
      * split; [discriminate|]. intros Hex. apply (I_lock HI) in Hex. rewrite Hwi in Hex.
        injection Hex as Hex. congruence.
    + discriminate.
    + lk i; [exact Hwk|eapply (I_waker HI); eassumption].
    + lk i; [split; [intros _; discriminate|reflexivity]|eapply (I_res_done HI); eassumption].
    + lk i; [intros; discriminate|eapply (I_res_ready HI); eassumption].
    + lk i; [intros; discriminate|eapply (I_pc_ready HI); eassumption].
    + lk i; [intros; discriminate|eapply (I_pc_pending HI); eassumption].
    + lk i; [intros; discriminate|eapply (I_registered HI); eassumption].
    + intros Hd. contradiction (Hnd Hd).
    + intros k Hk. apply in_app_or in Hk. destruct Hk as [Hk|Hk].
      * revert k Hk. pendcase HI i Hlk.
      * destruct Hk as [Hk|[]]. subst k. eexists. rewrite alookup_aset, Z.eqb_refl.
        split; [reflexivity|]. proj. repeat split; try assumption. intros Hd. contradiction (Hnd Hd).
  - (* P_done *) exact HI.
Qed.

Lemma astep_inv : forall final pollers s tid, AInv final pollers s -> AInv final pollers (astep false final s tid).
Proof.
  intros final pollers s tid HI. unfold astep. destruct (tid =? 0) eqn:E.
  - apply done_step_inv. exact HI.
  - apply poll_step_inv; [apply Z.eqb_neq; exact E|exact HI].
Qed.

Lemma fold_inv : forall final pollers sched s,
  AInv final pollers s -> AInv final pollers (fold_left (astep false final) sched s).
Proof.
  intros final pollers sched. induction sched as [|t sched IH]; simpl; intros s H; [exact H|].
  apply IH. apply astep_inv. exact H.
Qed.

Lemma reach_inv : forall final pollers s, reach final pollers s -> AInv final pollers s.
Proof.
  intros final pollers s (sched & ->). unfold arun. apply fold_inv. apply init_inv.
Qed.

(** * facts about [register] that need no invariant *)
Lemma register_flag : forall s w, a_flag (register s w) = a_flag s.
Proof. intros s w. unfold register. destruct (a_slot s) as [w'|]; [destruct (w' =? w)|]; reflexivity. Qed.
Lemma register_pollers : forall s w, a_pollers (register s w) = a_pollers s.
Proof. intros s w. unfold register. destruct (a_slot s) as [w'|]; [destruct (w' =? w)|]; reflexivity. Qed.
Lemma register_dpc : forall s w, a_dpc (register s w) = a_dpc s.
Proof. intros s w. unfold register. destruct (a_slot s) as [w'|]; [destruct (w' =? w)|]; reflexivity. Qed.

(** * once the flag is set, a poller that is not about to return Pending never returns Pending *)
Definition Stable (i : Z) (s : astate) : Prop :=
  a_flag s = true /\ exists p, alookup i (a_pollers s) = Some p /\ p_pc p <> P_pending /\ p_result p <> RPending.

Lemma stable_step : forall final i s tid, Stable i s -> Stable i (astep false final s tid).
Proof.
  intros final i s tid (Hfl & p & Hp & Hpc & Hr). unfold astep.
  destruct (tid =? 0) eqn:E.
  - unfold done_step, Stable.
    destruct (a_dpc s); [| |destruct (a_wlock s)|]; proj;
      (split; [first [exact Hfl|reflexivity]|exists p; repeat split; assumption]).
  - apply Z.eqb_neq in E. unfold poll_step.
    destruct (alookup tid (a_pollers s)) as [q|] eqn:Hq;
      [|split; [exact Hfl|exists p; repeat split; assumption]].
    destruct (Z.eq_dec i tid) as [Heq|Hne].
    + subst tid. rewrite Hp in Hq. injection Hq as <-. destruct p as [w pc r]. proj_in Hpc. proj_in Hr. proj.
      assert (Hsame : Stable i s).
      { split; [exact Hfl|]. eexists. split; [exact Hp|]. split; assumption. }
      unfold Stable.
      destruct pc.
      * destruct (a_wlock s); [exact Hsame|]. proj. rewrite alookup_aset, Z.eqb_refl.
        split; [exact Hfl|]. eexists. split; [reflexivity|]. proj. split; discriminate.
      * proj. rewrite register_flag, register_pollers, alookup_aset, Z.eqb_refl.
        split; [exact Hfl|]. eexists. split; [reflexivity|]. proj. split; discriminate.
      * proj. rewrite alookup_aset, Z.eqb_refl, Hfl.
        split; [reflexivity|]. eexists. split; [reflexivity|]. proj. split; discriminate.
      * proj. rewrite alookup_aset, Z.eqb_refl.
        split; [exact Hfl|]. eexists. split; [reflexivity|]. proj. split; discriminate.
      * contradiction Hpc. reflexivity.
      * exact Hsame.
    + assert (Hne' : (i =? tid) = false) by (apply Z.eqb_neq; exact Hne).
      assert (Hsame : Stable i s).
      { split; [exact Hfl|]. exists p. repeat split; assumption. }
      unfold Stable.
      destruct (p_pc q).
      * destruct (a_wlock s); [exact Hsame|]. proj. rewrite alookup_aset, Hne'.
        split; [exact Hfl|]. exists p. repeat split; assumption.
      * proj. rewrite register_flag, register_pollers, alookup_aset, Hne'.
        split; [exact Hfl|]. exists p. repeat split; assumption.
      * proj. rewrite alookup_aset, Hne'.
        split; [exact Hfl|]. exists p. repeat split; assumption.
      * proj. rewrite alookup_aset, Hne'.
        split; [exact Hfl|]. exists p. repeat split; assumption.
      * proj. rewrite alookup_aset, Hne'.
        split; [exact Hfl|]. exists p. repeat split; assumption.
      * exact Hsame.
Qed.

Lemma stable_fold : forall final i sched s, Stable i s -> Stable i (fold_left (astep false final) sched s).
Proof.
  intros final i sched. induction sched as [|t sched IH]; simpl; intros s H; [exact H|].
  apply IH. apply stable_step. exact H.
Qed.

Lemma lock_pc_stable : forall final pollers s i p, AInv final pollers s -> a_flag s = true ->
  alookup i (a_pollers s) = Some p -> p_pc p = P_lock -> Stable i s.
Proof.
  intros final pollers s i p HI Hfl Hp Hpc. split; [exact Hfl|]. exists p. split; [exact Hp|].
  split; [rewrite Hpc; discriminate|].
  intros Hr. assert (Hx : p_pc p = P_done).
  { apply (I_res_done HI i p Hp). rewrite Hr. discriminate. }
  rewrite Hpc in Hx. discriminate.
Qed.

(** * the statements *)

(* STATEMENT: the flag is never visible before the status *)
Lemma flag_implies_status : forall final pollers s, reach final pollers s -> a_flag s = true -> a_status s = final.
Proof.
  intros final pollers s Hr Hfl. apply reach_inv in Hr.
  apply (I_nstart Hr). intros Hd. destruct (I_start Hr Hd) as (_ & Hx). rewrite Hfl in Hx. discriminate.
Qed.

(* STATEMENT: no poll ever yields the placeholder: a poll that returns Ready returns the status passed to done() *)
Lemma never_ready_pending : forall final pollers s i p x, reach final pollers s ->
  alookup i (a_pollers s) = Some p -> p_result p = RReady x -> x = final.
Proof.
  intros final pollers s i p x Hr Hp Hx. apply reach_inv in Hr. exact (I_res_ready Hr i p Hp x Hx).
Qed.

(* STATEMENT: and the same status on every later poll: once the flag is set, every poll that starts afterwards and
   finishes returns Ready final, under any continuation of the schedule *)
Lemma ready_is_stable : forall final pollers s i p sched p', reach final pollers s ->
  a_flag s = true -> alookup i (a_pollers s) = Some p -> p_pc p = P_lock ->
  alookup i (a_pollers (fold_left (astep false final) sched s)) = Some p' -> p_pc p' = P_done ->
  p_result p' = RReady final.
Proof.
  intros final pollers s i p sched p' Hr Hfl Hp Hpc Hp' Hpc'. apply reach_inv in Hr.
  pose proof (fold_inv final pollers sched s Hr) as HI'.
  pose proof (stable_fold final i sched s (lock_pc_stable final pollers s i p Hr Hfl Hp Hpc)) as (_ & q & Hq & _ & Hres).
  rewrite Hp' in Hq. injection Hq as <-.
  pose proof (proj1 (I_res_done HI' i p' Hp') Hpc') as Hnn.
  destruct (p_result p') as [|x|] eqn:Hres'.
  - contradiction Hnn. reflexivity.
  - rewrite (I_res_ready HI' i p' Hp' x Hres'). reflexivity.
  - contradiction Hres. reflexivity.
Qed.

(* STATEMENT: the status cell is written exactly once, by the completer; the completer wakes at most once *)
Lemma status_written_once : forall final pollers s, reach final pollers s ->
  (a_status s = Pending \/ a_status s = final) /\
  (a_dpc s = D_start -> a_status s = Pending /\ a_flag s = false) /\
  (length (a_wakes s) <= 1)%nat /\ (a_dpc s <> D_done -> a_wakes s = []).
Proof.
  intros final pollers s Hr. apply reach_inv in Hr.
  split; [exact (I_status Hr)|]. split; [exact (I_start Hr)|]. split.
  - assert (Hdec : a_dpc s = D_done \/ a_dpc s <> D_done) by (destruct (a_dpc s); auto; right; discriminate).
    destruct Hdec as [Hd|Hd].
    + destruct (I_done Hr Hd) as (Hw & _). rewrite Hw. destruct (a_wake_regs s); cbn [length]; lia.
    + destruct (I_ndone Hr Hd) as (Hw & _). rewrite Hw. cbn [length]. lia.
  - intros Hd. destruct (I_ndone Hr Hd) as (Hw & _). exact Hw.
Qed.

(** wakers are distinct from the empty slot marker and pollers have distinct positive ids *)
Definition wf_pollers (pollers : list (Z * Z)) : Prop :=
  NoDup (map fst pollers) /\ forall i w, In (i, w) pollers -> 0 < i.

(* STATEMENT: no lost wake-up.  In every reachable state in which the completer has finished: every poll that
   returned Pending had returned before the wake step, the wake step woke exactly the waker registered most recently
   before it, and that poll's own waker had been registered by then. *)
Lemma no_lost_wakeup : forall final pollers s i, wf_pollers pollers -> reach final pollers s ->
  a_dpc s = D_done -> In i (a_pending_returns s) ->
  In i (a_wake_seen_pending s) /\
  (exists w, a_wakes s = [w] /\ a_wake_regs s <> [] /\ w = last (a_wake_regs s) 0) /\
  (forall w, In (i, w) pollers -> In w (a_wake_regs s)).
Proof.
  intros final pollers s i (Hnd & _) Hr Hd Hi. apply reach_inv in Hr.
  destruct (I_done Hr Hd) as (Hwk & Hsp).
  destruct (I_pending Hr i Hi) as (p & Hp & _ & _ & _ & Hin). specialize (Hin Hd).
  split; [rewrite Hsp; exact Hi|]. split.
  - exists (last (a_wake_regs s) 0). rewrite Hwk.
    destruct (a_wake_regs s) as [|r0 rs] eqn:Hwr; [contradiction Hin|].
    split; [reflexivity|]. split; [discriminate|reflexivity].
  - intros w Hw. apply in_alookup_nodup in Hw; [|exact Hnd].
    rewrite (I_waker Hr i p Hp) in Hw. injection Hw as <-. exact Hin.
Qed.

(* STATEMENT: a poll that starts after the completer finished never returns Pending *)
Lemma no_pending_after_done : forall final pollers s i p sched p', reach final pollers s ->
  a_dpc s = D_done -> alookup i (a_pollers s) = Some p -> p_pc p = P_lock ->
  alookup i (a_pollers (fold_left (astep false final) sched s)) = Some p' -> p_result p' <> RPending.
Proof.
  intros final pollers s i p sched p' Hr Hd Hp Hpc Hp'. apply reach_inv in Hr.
  assert (Hfl : a_flag s = true) by (apply (I_flag Hr); right; exact Hd).
  pose proof (stable_fold final i sched s (lock_pc_stable final pollers s i p Hr Hfl Hp Hpc)) as (_ & q & Hq & _ & Hres).
  rewrite Hp' in Hq. injection Hq as <-. exact Hres.
Qed.

(** ** progress *)
Definition poller_remaining (p : poller) : nat :=
  match p_pc p with P_lock => 4 | P_register => 3 | P_flag => 2 | P_ready => 1 | P_pending => 1 | P_done => 0 end.
Definition remaining (s : astate) : nat :=
  (match a_dpc s with D_start => 3 | D_mid1 => 2 | D_mid2 => 1 | D_done => 0 end +
   fold_right (fun p acc => poller_remaining (snd p) + acc) 0 (a_pollers s))%nat.

(** poller ids stay distinct when they are distinct initially *)
Lemma nodup_step : forall ff final s tid,
  NoDup (map fst (a_pollers s)) -> NoDup (map fst (a_pollers (astep ff final s tid))).
Proof.
  intros ff final s tid H. unfold astep. destruct (tid =? 0).
  - unfold done_step. destruct (a_dpc s); [destruct ff|destruct ff|destruct (a_wlock s)|]; proj; exact H.
  - unfold poll_step. destruct (alookup tid (a_pollers s)) as [q|]; [|exact H].
    destruct (p_pc q); [destruct (a_wlock s)| | | | |]; proj; rewrite ?register_pollers;
      first [exact H|apply nodup_aset; exact H].
Qed.

Lemma nodup_fold : forall ff final sched s,
  NoDup (map fst (a_pollers s)) -> NoDup (map fst (a_pollers (fold_left (astep ff final) sched s))).
Proof.
  intros ff final sched. induction sched as [|t sched IH]; simpl; intros s H; [exact H|].
  apply IH. apply nodup_step. exact H.
Qed.

Lemma reach_nodup : forall final pollers s, NoDup (map fst pollers) -> reach final pollers s ->
  NoDup (map fst (a_pollers s)).
Proof.
  intros final pollers s Hnd (sched & ->). unfold arun. apply nodup_fold.
  unfold ainit. proj. rewrite map_map. cbn [fst]. exact Hnd.
Qed.

Lemma forallb_false_ex : forall (A : Type) (f : A -> bool) (l : list A),
  forallb f l = false -> exists x, In x l /\ f x = false.
Proof.
  intros A f l. induction l as [|a t IH]; simpl; intros H; [discriminate|].
  destruct (f a) eqn:Hfa.
  - simpl in H. destruct (IH H) as (x & Hx & Hfx). exists x. split; [right; exact Hx|exact Hfx].
  - exists a. split; [left; reflexivity|exact Hfa].
Qed.

(* STATEMENT: no deadlock in the protocol: while anything is unfinished some thread is enabled *)
Lemma ack_no_deadlock : forall final pollers s, wf_pollers pollers -> reach final pollers s ->
  all_finished s = false -> exists tid, aenabled s tid = true.
Proof.
  intros final pollers s (Hnd & Hpos) Hr Hnf.
  pose proof (reach_nodup final pollers s Hnd Hr) as Hnds. apply reach_inv in Hr.
  destruct (a_wlock s) as [h|] eqn:Hw.
  - (* the holder of W can move *)
    destruct (proj1 (I_lock Hr h) Hw) as (p & Hp & Hh).
    assert (Hh0 : (h =? 0) = false).
    { apply Z.eqb_neq. intros ->. apply (I_lock0 Hr). exact Hw. }
    exists h. unfold aenabled. rewrite Hh0, Hp. destruct (p_pc p); try reflexivity; discriminate Hh.
  - unfold all_finished in Hnf.
    destruct (a_dpc s) eqn:Hd.
    + exists 0. unfold aenabled. rewrite Hd. reflexivity.
    + exists 0. unfold aenabled. rewrite Hd. reflexivity.
    + exists 0. unfold aenabled. rewrite Hd, Hw. reflexivity.
    + cbn [andb] in Hnf. apply forallb_false_ex in Hnf. destruct Hnf as ((k, p) & Hin & Hpc).
      cbn [snd] in Hpc.
      assert (Hk : 0 < k).
      { assert (Hkk : In k (map fst pollers)).
        { apply (I_keys Hr). apply (in_map fst) in Hin. exact Hin. }
        apply in_map_iff in Hkk. destruct Hkk as ((k', w) & Hfst & Hkw). cbn [fst] in Hfst. subst k'.
        exact (Hpos k w Hkw). }
      assert (Hk0 : (k =? 0) = false) by (apply Z.eqb_neq; lia).
      apply in_alookup_nodup in Hin; [|exact Hnds].
      exists k. unfold aenabled. rewrite Hk0, Hin, Hw. destruct (p_pc p); try reflexivity; discriminate Hpc.
Qed.

Definition psum (l : list (Z * poller)) : nat :=
  fold_right (fun p acc => poller_remaining (snd p) + acc)%nat 0%nat l.

Lemma psum_cons : forall k p l, psum ((k, p) :: l) = (poller_remaining p + psum l)%nat.
Proof. reflexivity. Qed.

Lemma psum_aremove_le : forall i l, (psum (aremove i l) <= psum l)%nat.
Proof.
  intros i l. induction l as [|[k v] t IH]; [apply le_n|].
  cbn [aremove]. destruct (i =? k); rewrite ?psum_cons; lia.
Qed.

Lemma psum_aremove_lookup : forall i l p, alookup i l = Some p ->
  (psum (aremove i l) + poller_remaining p <= psum l)%nat.
Proof.
  intros i l p. induction l as [|[k v] t IH]; cbn [alookup aremove]; intros H; [discriminate|].
  destruct (i =? k).
  - injection H as <-. pose proof (psum_aremove_le i t). rewrite psum_cons. lia.
  - specialize (IH H). rewrite !psum_cons. lia.
Qed.

Lemma psum_aset : forall i l p p', alookup i l = Some p ->
  (poller_remaining p' < poller_remaining p)%nat -> (psum (aset i p' l) < psum l)%nat.
Proof.
  intros i l p p' H Hlt. unfold aset. rewrite psum_cons. pose proof (psum_aremove_lookup i l p H). lia.
Qed.

Lemma remaining_eq : forall s,
  remaining s = ((match a_dpc s with D_start => 3 | D_mid1 => 2 | D_mid2 => 1 | D_done => 0 end) + psum (a_pollers s))%nat.
Proof. reflexivity. Qed.

(* STATEMENT: every enabled step makes progress, so any schedule that keeps choosing enabled threads finishes
   everything within [remaining (ainit pollers)] steps; in particular the completer finishes *)
Lemma ack_enabled_step_progress : forall final pollers s tid, wf_pollers pollers -> reach final pollers s ->
  aenabled s tid = true -> (remaining (astep false final s tid) < remaining s)%nat.
Proof.
  intros final pollers s tid _ _ Hen. unfold aenabled in Hen. unfold astep. rewrite !remaining_eq.
  destruct (tid =? 0).
  - unfold done_step. destruct (a_dpc s); [| |destruct (a_wlock s)|]; try discriminate Hen; proj; lia.
  - unfold poll_step. destruct (alookup tid (a_pollers s)) as [q|] eqn:Hq; [|discriminate Hen].
    destruct q as [w pc r]. proj. proj_in Hen.
    destruct pc; [destruct (a_wlock s)| | | | |]; try discriminate Hen; proj;
      rewrite ?register_dpc, ?register_pollers;
      (match goal with |- (_ + psum (aset _ ?p' _) < _)%nat =>
         assert (Hlt : (psum (aset tid p' (a_pollers s)) < psum (a_pollers s))%nat)
           by (apply (psum_aset tid (a_pollers s) _ p' Hq); unfold poller_remaining; proj;
               try (destruct (a_flag s)); lia)
       end); lia.
Qed.

(* STATEMENT: a step that is not enabled changes nothing *)
Lemma ack_disabled_step_noop : forall ff final s tid, aenabled s tid = false -> astep ff final s tid = s.
Proof.
  intros ff final s tid Hen. unfold aenabled in Hen. unfold astep. destruct (tid =? 0).
  - unfold done_step. destruct (a_dpc s); [| |destruct (a_wlock s)|]; try discriminate Hen; reflexivity.
  - unfold poll_step. destruct (alookup tid (a_pollers s)) as [q|]; [|reflexivity].
    destruct (p_pc q); [destruct (a_wlock s)| | | | |]; try discriminate Hen; reflexivity.
Qed.

(** ** the original order (flag first) did yield the placeholder *)
(* STATEMENT *)
Lemma C12_refuted_flag_first :
  exists p, alookup 1 (a_pollers (arun true Accepted [(1, 7)] [0; 1; 1; 1; 1])) = Some p /\ p_result p = RReady Pending.
Proof. eexists. split; vm_compute; reflexivity. Qed.

(** non-vacuity: a run in which a poll returns Pending and is woken afterwards *)
Example ack_example :
  let s := arun false Accepted [(1, 7); (2, 8)] [1; 1; 1; 1; 0; 0; 0; 2; 2; 2; 2] in
  a_dpc s = D_done /\ a_pending_returns s = [1] /\ a_wakes s = [7] /\
  (exists p, alookup 2 (a_pollers s) = Some p /\ p_result p = RReady Accepted).
Proof. vm_compute. repeat split. eexists; split; reflexivity. Qed.

Print Assumptions no_lost_wakeup.
Print Assumptions ready_is_stable.
Print Assumptions no_pending_after_done.
Print Assumptions ack_no_deadlock.
Print Assumptions ack_enabled_step_progress.
