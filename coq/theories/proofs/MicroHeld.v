(** C05, second half, at every state of every micro schedule before shutdown(): no held key is uncharged.  Every stored
    entry is charged under its own id for its own key - inside the windows of put_or_update, of the worker and between the
    worker's admission and its store insert.  The delicate step is the insert after admission: the charge made at admission
    must still be there, and the only thread that could have released it meanwhile is the sweeper, which releases what the
    expiry index lists; so the invariant says that the expiry index (and the ids kept in the windows of put_or_update and
    of the worker, which are what is written into it) only ever mentions ids that have been used: below the id counter,
    not pending, not the one let in.  That such ids never become pending again is MicroFlow.v. *)
From CacheD Require Import Base Sketch Model Window Micro.
From CacheD.proofs Require Import Defs AListLemmas InvLemmas InvOps InvCalls InvWorker InvProofs ApiProofs HistoryProofs
                                  StatsProofs MicroLedger MicroAll MicroCharged MicroFlow.
From CacheD.proofs Require MicroAck.
From Coq Require Import ZifyBool.

(** ** ids listed by the expiry index (as the sweeper sees them: the entries of the shard it reads) *)
Definition TIN (tk : list (Z * list (Z * Z))) (id : Z) : Prop := exists sh e, In (id, e) (shard_entries tk sh).

Lemma shard_entries_aset : forall tk sh0 l sh,
  shard_entries (aset sh0 l tk) sh = if sh =? sh0 then l else shard_entries tk sh.
Proof. intros tk sh0 l sh. unfold shard_entries. rewrite alookup_aset. destruct (sh =? sh0); reflexivity. Qed.

Lemma TIN_put : forall cfg id e tk id', TIN (ticker_put cfg id e tk) id' -> id' = id \/ TIN tk id'.
Proof.
  intros cfg id e tk id' (sh & e' & H). unfold ticker_put in H. cbv zeta in H. rewrite shard_entries_aset in H.
  destruct (sh =? shard_index cfg e) eqn:E.
  - unfold aset in H. destruct H as [H|H]; [left; congruence|]. right. apply In_aremove in H as [H _].
    exists (shard_index cfg e), e'. exact H.
  - right. exists sh, e'. exact H.
Qed.

Lemma TIN_delete : forall cfg id e tk id', TIN (ticker_delete cfg id e tk) id' -> TIN tk id'.
Proof.
  intros cfg id e tk id' (sh & e' & H). unfold ticker_delete in H. cbv zeta in H. rewrite shard_entries_aset in H.
  destruct (sh =? shard_index cfg e) eqn:E.
  - apply In_aremove in H as [H _]. exists (shard_index cfg e), e'. exact H.
  - exists sh, e'. exact H.
Qed.

Lemma TIN_update : forall cfg id o n tk id', TIN (ticker_update cfg id o n tk) id' -> id' = id \/ TIN tk id'.
Proof.
  intros cfg id o n tk id' H. unfold ticker_update in H. apply TIN_put in H. destruct H as [H|H]; [left; exact H|right].
  eapply TIN_delete. exact H.
Qed.

Lemma TIN_filter : forall tk sh (p : Z * Z -> bool) id', TIN (aset sh (filter p (shard_entries tk sh)) tk) id' -> TIN tk id'.
Proof.
  intros tk sh p id' (sh' & e' & H). rewrite shard_entries_aset in H. destruct (sh' =? sh) eqn:E.
  - apply filter_In in H as [H _]. exists sh, e'. exact H.
  - exists sh', e'. exact H.
Qed.

(** ** what a sweep leaves alone: the charge of an id the visited shard does not list *)
Lemma weights_delete_other : forall cfg id hook s id0, id0 <> id ->
  match weights_delete cfg id hook s with
  | Ok s' | Panic _ s' => alookup id0 (weights s') = alookup id0 (weights s)
  | Inadmissible _ => True
  end.
Proof.
  intros cfg id hook s id0 Hne. unfold weights_delete.
  destruct (alookup id (weights s)) as [wk|]; [|reflexivity]. cbv zeta.
  destruct (add_i64 cfg _ _) as [u|].
  - change (weights (upd_st ?f ?x ?y)) with (weights y). destruct hook; rewrite ?weights_store_delete; sred;
      apply alookup_aremove_neq; exact Hne.
  - sred. apply alookup_aremove_neq; exact Hne.
Qed.

Lemma sweep_entries_other : forall cfg now_ es s id0, (forall e, ~ In (id0, e) es) ->
  match sweep_entries cfg now_ es s with
  | Ok s' | Panic _ s' => alookup id0 (weights s') = alookup id0 (weights s)
  | Inadmissible _ => True
  end.
Proof.
  intros cfg now_ es. induction es as [|[id ex] t IH]; intros s id0 Hn; cbn [sweep_entries]; [reflexivity|].
  assert (Ht : forall e, ~ In (id0, e) t) by (intros e H; apply (Hn e); right; exact H).
  destruct (ex <? now_); [|apply IH; exact Ht].
  assert (Hne : id0 <> id) by (intros ->; apply (Hn ex); left; reflexivity).
  pose proof (weights_delete_other cfg id true s id0 Hne) as Hw.
  destruct (weights_delete cfg id true s) as [s1|site s1|why]; [|exact Hw|exact I].
  specialize (IH s1 id0 Ht). destruct (sweep_entries cfg now_ t s1); try exact I; congruence.
Qed.

(** ** stored => charged, and the primitives *)
Definition Held (s : state) : Prop :=
  forall k id, idof s k = Some id -> exists wk, alookup id (weights s) = Some wk /\ w_key wk = k.

Lemma Held_kf : forall s s', kf s s' -> Held s -> Held s'.
Proof. intros s s' [Hw Hi] H k id Hk. rewrite Hi in Hk. rewrite Hw. exact (H k id Hk). Qed.

Lemma Held_same : forall s s', store s' = store s -> weights s' = weights s -> Held s -> Held s'.
Proof. intros s s' H1 H2. apply Held_kf. apply kf_store; assumption. Qed.

(** releasing a charge together with the stored entry of its key (sweep, eviction); under the ledger invariant the
    subtraction cannot overflow, so there is no panic branch to consider *)
Lemma weights_delete_Held : forall cfg id s, c_debug cfg = true -> Led s -> Held s ->
  match weights_delete cfg id true s with Ok s' => Led s' /\ Held s' | Panic _ _ => False | Inadmissible _ => True end.
Proof.
  intros cfg id s Hd HL H.
  pose proof (weights_delete_led cfg id true s Hd HL) as HLd.
  unfold weights_delete in *.
  destruct (alookup id (weights s)) as [wk|] eqn:Hwk; [|split; [exact HL|exact H]]. cbv zeta in *.
  destruct (add_i64 cfg _ _) as [u|]; [|exact HLd]. split; [exact (proj1 HLd)|].
  intros k0 id0 Hk0. change (idof (upd_st ?f ?x ?y) k0) with (idof y k0) in Hk0. rewrite idof_store_delete in Hk0.
  destruct (Z.eqb_spec k0 (w_key wk)) as [|Hne]; [discriminate|].
  change (idof (set_used (set_weights s (aremove id (weights s))) u) k0) with (idof s k0) in Hk0.
  destruct (H k0 id0 Hk0) as (wk0 & Hl & Hkk). exists wk0. split; [|exact Hkk].
  change (weights (upd_st ?f ?x ?y)) with (weights y). rewrite weights_store_delete. sred.
  rewrite alookup_aremove. destruct (Z.eqb_spec id0 id) as [->|_]; [|exact Hl].
  exfalso. rewrite Hwk in Hl. injection Hl as <-. apply Hne. symmetry. exact Hkk.
Qed.

(** releasing the charge of an id no stored entry carries (the worker's Delete, after it removed the entry) *)
Lemma weights_delete_nohook_Held : forall cfg id s, Held s -> (forall k, idof s k <> Some id) ->
  match weights_delete cfg id false s with Ok s' | Panic _ s' => Held s' | Inadmissible _ => True end.
Proof.
  intros cfg id s H Hno. unfold weights_delete.
  destruct (alookup id (weights s)) as [wk|] eqn:Hwk; [|exact H]. cbv zeta.
  assert (Hh : forall s1, weights s1 = aremove id (weights s) -> (forall k, idof s1 k = idof s k) -> Held s1).
  { intros s1 Hw Hi k0 id0 Hk0. rewrite Hi in Hk0. destruct (H k0 id0 Hk0) as (wk0 & Hl & Hkk). exists wk0. split; [|exact Hkk].
    rewrite Hw, alookup_aremove. destruct (Z.eqb_spec id0 id) as [->|_]; [|exact Hl]. exfalso. exact (Hno k0 Hk0). }
  destruct (add_i64 cfg _ _) as [u|]; apply Hh; try reflexivity; intros k; reflexivity.
Qed.

Lemma store_delete_Held : forall k s, Held s -> Held (store_delete k s).
Proof.
  intros k s H k0 id0 Hk0. rewrite idof_store_delete in Hk0. destruct (k0 =? k); [discriminate|].
  rewrite weights_store_delete. exact (H k0 id0 Hk0).
Qed.

(** after the worker removed the entry of [k], no stored entry carries its id any more *)
Lemma store_delete_no_id : forall k e s, Held s -> alookup k (store s) = Some e ->
  forall k0, idof (store_delete k s) k0 <> Some (e_id e).
Proof.
  intros k e s H Hl k0 Hk0. rewrite idof_store_delete in Hk0. destruct (Z.eqb_spec k0 k) as [|Hne]; [discriminate|].
  assert (Hk : idof s k = Some (e_id e)) by (unfold idof; rewrite Hl; reflexivity).
  destruct (H k _ Hk) as (wk & Hw & Hkk). destruct (H k0 _ Hk0) as (wk0 & Hw0 & Hkk0). congruence.
Qed.

Lemma weights_add_Held : forall cfg k id h w s, Held s -> alookup id (weights s) = None ->
  match weights_add cfg k id h w s with Ok s' | Panic _ s' => Held s' | Inadmissible _ => True end.
Proof.
  intros cfg k id h w s H Hfresh. unfold weights_add. cbv zeta.
  assert (Hh : forall s1, weights s1 = aset id (Build_wkey k h w) (weights s) -> (forall k0, idof s1 k0 = idof s k0) -> Held s1).
  { intros s1 Hw Hi k0 id0 Hk0. rewrite Hi in Hk0. destruct (H k0 id0 Hk0) as (wk0 & Hl & Hkk). exists wk0. split; [|exact Hkk].
    rewrite Hw, alookup_aset. destruct (Z.eqb_spec id0 id) as [->|_]; [congruence|exact Hl]. }
  destruct (add_i64 cfg _ w) as [u|]; apply Hh; try reflexivity; intros k0; reflexivity.
Qed.

Lemma weights_update_Held : forall cfg id w s, Held s ->
  match weights_update cfg id w s with Ok s' | Panic _ s' => Held s' | Inadmissible _ => True end.
Proof.
  intros cfg id w s H. unfold weights_update.
  destruct (alookup id (weights s)) as [wk|] eqn:Hwk; [|exact H].
  destruct (add_i64 cfg (used s) (w - w_weight wk)) as [u|]; [|exact H].
  intros k0 id0 Hk0. change (idof (set_weights ?x ?y) k0) with (idof x k0) in Hk0.
  change (idof (upd_st ?f ?x ?y) k0) with (idof y k0) in Hk0. change (idof (upd_st ?f ?x ?y) k0) with (idof y k0) in Hk0.
  change (idof (set_used s u) k0) with (idof s k0) in Hk0.
  destruct (H k0 id0 Hk0) as (wk0 & Hl & Hkk). sred. rewrite alookup_aset. destruct (Z.eqb_spec id0 id) as [->|_].
  - rewrite Hwk in Hl. injection Hl as <-. eexists. split; [reflexivity|exact Hkk].
  - exists wk0. split; assumption.
Qed.

Lemma store_insert_Held : forall k v id exp s wk, Held s -> alookup id (weights s) = Some wk -> w_key wk = k ->
  Held (store_insert k v id exp s).
Proof.
  intros k v id exp s wk H Hw Hk k0 id0 Hk0.
  assert (Hi : idof (store_insert k v id exp s) k0 = if k0 =? k then Some id else idof s k0).
  { unfold store_insert, idof. sred. rewrite alookup_aset. destruct (k0 =? k); reflexivity. }
  rewrite Hi in Hk0. change (weights (store_insert k v id exp s)) with (weights s).
  destruct (Z.eqb_spec k0 k) as [->|_].
  - injection Hk0 as <-. exists wk. split; assumption.
  - exact (H k0 id0 Hk0).
Qed.

(** the eviction loop and the sweeper's loop *)
Lemma create_space_loop_Held : forall fuel cfg est inc_freq w orders pops sm space s victims r s' vs,
  c_debug cfg = true -> Led s -> Held s ->
  create_space_loop fuel cfg est inc_freq w orders pops sm space s victims = (r, s', vs) -> Led s' /\ Held s'.
Proof.
  induction fuel as [|fuel IH]; intros cfg est inc_freq w orders pops sm space s victims r s' vs Hd HL HH H;
    cbn [create_space_loop] in H.
  - inversion H; subst. split; assumption.
  - destruct (w <=? space) eqn:E1; [inversion H; subst; split; assumption|].
    destruct pops as [|p pops']; [inversion H; subst; split; assumption|].
    destruct (p =? -1) eqn:E2.
    { destruct sm as [|x0 sm0]; [|inversion H; subst; split; assumption].
      destruct (w <=? c_max cfg - used s); inversion H; subst; split; assumption. }
    destruct (sample_find p sm) as [x|] eqn:E3; [|inversion H; subst; split; assumption].
    destruct (negb (is_max x sm)) eqn:E4; [inversion H; subst; split; assumption|].
    destruct (inc_freq <? sk_freq x) eqn:E5; [inversion H; subst; split; assumption|].
    pose proof (weights_delete_Held cfg p s Hd HL HH) as Hwd.
    destruct (weights_delete cfg p true s) as [s1|site s1|why] eqn:E6.
    + destruct Hwd as [HL1 HH1].
      destruct orders as [|order orders']; [inversion H; subst; split; assumption|].
      destruct (sample_fill est (weights s1) order (sample_remove p sm)) as [sm'|] eqn:E7;
        [|inversion H; subst; split; assumption].
      eapply IH; eassumption.
    + contradiction.
    + inversion H; subst; split; assumption.
Qed.

Lemma sweep_entries_Held : forall cfg now_ es s, c_debug cfg = true -> Led s -> Held s ->
  match sweep_entries cfg now_ es s with Ok s' => Led s' /\ Held s' | Panic _ _ => False | Inadmissible _ => True end.
Proof.
  intros cfg now_ es. induction es as [|[id ex] t IH]; intros s Hd HL HH; cbn [sweep_entries].
  - split; assumption.
  - destruct (ex <? now_); [|apply IH; assumption].
    pose proof (weights_delete_Held cfg id s Hd HL HH) as Hwd.
    destruct (weights_delete cfg id true s) as [s1|site s1|why]; [|contradiction|exact I].
    destruct Hwd as [HL1 HH1]. apply IH; assumption.
Qed.

(** ** the invariant *)
Definition adm_id (ms : mstate) : option Z :=
  match wdel ms with Some (WPCharged _ _ _ id _ _) => Some id | _ => None end.

Definition Used (s : state) (adm : option Z) (id : Z) : Prop := Oldp s id /\ adm <> Some id.

Record HC (ms : mstate) : Prop := {
  h_held : Held (mbase ms);
  h_adm : forall a k v id ttl obs, wdel ms = Some (WPCharged a k v id ttl obs) ->
            (exists wk, alookup id (weights (mbase ms)) = Some wk /\ w_key wk = k) /\ Oldp (mbase ms) id;
  h_del : forall a id exp, wdel ms = Some (WDStore a id exp) -> forall k, idof (mbase ms) k <> Some id;
  h_tick : forall id, TIN (ticker (mbase ms)) id -> Used (mbase ms) (adm_id ms) id;
  h_ups : forall tid u id o n, alookup tid (ups (win ms)) = Some u -> u_resp u = Some (id, o, n) ->
            Used (mbase ms) (adm_id ms) id;
  h_wp : forall p, wpending (win ms) = Some p -> Oldp (mbase ms) (p_id p)
}.

Lemma Used_FL : forall s s' adm id, FL s s' -> Used s adm id -> Used s' adm id.
Proof. intros s s' adm id F [H1 H2]. split; [eapply FL_oldp; eassumption|exact H2]. Qed.

(** the id of a stored entry has been used: it is charged (hence below the counter and not pending), and it is not the
    let in id, whose key is not stored *)
Lemma stored_id_used : forall s f k id, Led s -> SI s f -> Held s -> idof s k = Some id ->
  Oldp s id /\ (f_key f <> None -> f_id f <> Some id).
Proof.
  intros s f k id HL HS HH Hk. destruct (HH k id Hk) as (wk & Hw & Hkk). split.
  - split; [exact (led_ids s HL id wk Hw)|]. intros Hin. destruct (proj2 (led_pending s HL) id Hin) as [_ Hn]. congruence.
  - intros Hfk Hfi. destruct (f_key f) as [kf|] eqn:Ekf; [|contradiction].
    pose proof (si_flight_key s f HS kf id wk Ekf Hfi Hw) as E. pose proof (si_key s f HS kf Ekf) as Hn. congruence.
Qed.

Lemma fl_of_adm : forall ms, f_key (fl_of ms) <> None -> f_id (fl_of ms) = adm_id ms.
Proof. intros ms. unfold fl_of, adm_id. destruct (wdel ms) as [[| |]|]; cbn; congruence. Qed.

Lemma adm_fl_of : forall ms id, adm_id ms = Some id -> f_key (fl_of ms) <> None /\ f_id (fl_of ms) = Some id.
Proof. intros ms id. unfold fl_of, adm_id. destruct (wdel ms) as [[| |]|]; cbn; intros H; try discriminate. split; [discriminate|exact H]. Qed.

Lemma stored_id_Used : forall ms k id, Led (mbase ms) -> SI (mbase ms) (fl_of ms) -> Held (mbase ms) ->
  idof (mbase ms) k = Some id -> Used (mbase ms) (adm_id ms) id.
Proof.
  intros ms k id HL HS HH Hk. destruct (stored_id_used _ _ k id HL HS HH Hk) as [Ho Hn]. split; [exact Ho|].
  intros Ha. destruct (adm_fl_of ms id Ha) as [H1 H2]. exact (Hn H1 H2).
Qed.

(** ** frame: a step that keeps keys, ids and charges, only shrinks the expiry index and the windows *)
Lemma HC_frame : forall ms ms',
  kf (mbase ms) (mbase ms') -> FL (mbase ms) (mbase ms') ->
  (forall id, TIN (ticker (mbase ms')) id -> TIN (ticker (mbase ms)) id) ->
  wdel ms' = wdel ms ->
  (forall tid u, alookup tid (ups (win ms')) = Some u -> alookup tid (ups (win ms)) = Some u) ->
  wpending (win ms') = wpending (win ms) ->
  HC ms -> HC ms'.
Proof.
  intros ms ms' Hk HF Ht Hw Hu Hp [A B C D E F].
  assert (Ha : adm_id ms' = adm_id ms) by (unfold adm_id; rewrite Hw; reflexivity).
  constructor.
  - eapply Held_kf; eassumption.
  - intros a k v id ttl obs H. rewrite Hw in H. destruct (B _ _ _ _ _ _ H) as [(wk & H1 & H2) H3]. split.
    + exists wk. rewrite (proj1 Hk). split; assumption.
    + eapply FL_oldp; eassumption.
  - intros a id exp H k. rewrite Hw in H. rewrite (proj2 Hk). exact (C _ _ _ H k).
  - intros id H. rewrite Ha. eapply Used_FL; [exact HF|]. apply D. apply Ht. exact H.
  - intros tid u id o n H1 H2. rewrite Ha. eapply Used_FL; [exact HF|]. eapply E; [apply Hu; exact H1|exact H2].
  - intros p H. rewrite Hp in H. eapply FL_oldp; [exact HF|]. apply F. exact H.
Qed.

(** the same, when the expiry index and put_or_update's windows may gain ids that have been used *)
Lemma HC_frame2 : forall ms ms',
  kf (mbase ms) (mbase ms') -> FL (mbase ms) (mbase ms') ->
  (forall id, TIN (ticker (mbase ms')) id -> TIN (ticker (mbase ms)) id \/ Used (mbase ms) (adm_id ms) id) ->
  wdel ms' = wdel ms ->
  (forall tid u, alookup tid (ups (win ms')) = Some u -> alookup tid (ups (win ms)) = Some u \/
                 forall id o n, u_resp u = Some (id, o, n) -> Used (mbase ms) (adm_id ms) id) ->
  wpending (win ms') = wpending (win ms) ->
  HC ms -> HC ms'.
Proof.
  intros ms ms' Hk HF Ht Hw Hu Hp [A B C D E F].
  assert (Ha : adm_id ms' = adm_id ms) by (unfold adm_id; rewrite Hw; reflexivity).
  constructor.
  - eapply Held_kf; eassumption.
  - intros a k v id ttl obs H. rewrite Hw in H. destruct (B _ _ _ _ _ _ H) as [(wk & H1 & H2) H3]. split.
    + exists wk. rewrite (proj1 Hk). split; assumption.
    + eapply FL_oldp; eassumption.
  - intros a id exp H k. rewrite Hw in H. rewrite (proj2 Hk). exact (C _ _ _ H k).
  - intros id H. rewrite Ha. eapply Used_FL; [exact HF|]. destruct (Ht id H) as [H1|H1]; [apply D; exact H1|exact H1].
  - intros tid u id o n H1 H2. rewrite Ha. eapply Used_FL; [exact HF|].
    destruct (Hu tid u H1) as [H3|H3]; [eapply E; eassumption|eapply H3; eassumption].
  - intros p H. rewrite Hp in H. eapply FL_oldp; [exact HF|]. apply F. exact H.
Qed.

(** ** what the callers' operations do to keys, ids, charges and the expiry index *)
Definition EFF (s s' : state) : Prop :=
  kf s s' /\ forall id, TIN (ticker s') id -> TIN (ticker s) id \/ exists k, idof s k = Some id.

Lemma EFF_refl : forall s, EFF s s.
Proof. intros s. split; [apply kf_refl|auto]. Qed.

Lemma EFF_same : forall s s', store s' = store s -> weights s' = weights s -> ticker s' = ticker s -> EFF s s'.
Proof. intros s s' H1 H2 H3. split; [apply kf_store; assumption|]. intros id H. left. rewrite H3 in H. exact H. Qed.

Lemma EFF_trans : forall a b c, EFF a b -> EFF b c -> EFF a c.
Proof.
  intros a b c [K1 T1] [K2 T2]. split; [eapply kf_trans; eassumption|]. intros id H.
  destruct (T2 id H) as [H2|(k & H2)].
  - exact (T1 id H2).
  - right. exists k. rewrite <- (proj2 K1 k). exact H2.
Qed.

Lemma do_send_EFF : forall cfg tid c s, EFF s (fst (do_send cfg tid c s)).
Proof.
  intros cfg tid c s. destruct (do_send cfg tid c s) as [s' ret] eqn:E. cbn [fst].
  apply do_send_spec in E as ((Hst & Hw & _ & Ht & _) & _). apply EFF_same; assumption.
Qed.

Lemma ups_s2_EFF : forall cfg k v e new_exp s, alookup k (store s) = Some e -> EFF s (ups_s2 cfg k v e new_exp s).
Proof.
  intros cfg k v e new_exp s Hl.
  assert (Hk : kf s (ups_s2 cfg k v e new_exp s)).
  { pose proof (ups_s2_fields cfg k v e new_exp s) as (Fst & Fw & _). split; [exact Fw|].
    intros k0. unfold idof at 1. rewrite Fst. apply (idof_aset_same_id s k e _ Hl). reflexivity. }
  split; [exact Hk|]. intros id H.
  assert (Hid : idof s k = Some (e_id e)) by (unfold idof; rewrite Hl; reflexivity).
  unfold ups_s2 in H. cbv zeta in H.
  destruct (type_of_expiry_update (e_exp e) new_exp); sred.
  - left. exact H.
  - apply TIN_put in H. destruct H as [->|H]; [right; exists k; exact Hid|left; exact H].
  - apply TIN_delete in H. left. exact H.
  - apply TIN_update in H. destruct H as [->|H]; [right; exists k; exact Hid|left; exact H].
Qed.

Lemma call_upsert_EFF : forall cfg tid k v w ttl rm s, EFF s (fst (call_upsert cfg tid k v w ttl rm s)).
Proof.
  intros cfg tid k v w ttl rm s.
  destruct (alookup k (store s)) as [e0|] eqn:El0.
  - rewrite call_upsert_present_eq with (e := e0) by exact El0.
    destruct (ups_new_exp_o rm ttl e0 s) as [new_exp|]; [|apply EFF_refl].
    eapply EFF_trans; [apply (ups_s2_EFF cfg k v e0 new_exp s El0)|].
    destruct (ups_tail cfg tid (e_id e0) (ups_s2 cfg k v e0 new_exp s) _) as [s' ret] eqn:E. cbn [fst].
    apply ups_tail_frame in E as (Hst & Hw & _ & Ht & _). apply EFF_same; assumption.
  - destruct v as [val|].
    + rewrite upsert_absent_is_put by exact El0.
      destruct (call_put cfg tid k val _ ttl s) as [s' ret] eqn:E. cbn [fst].
      apply call_put_spec in E as ((Hst & Hw & _ & Ht & _) & _). apply EFF_same; assumption.
    + unfold call_upsert. rewrite El0. cbv zeta. destruct w; apply EFF_refl.
Qed.

Lemma call_EFF : forall cfg tid r idxs s, EFF s (fst (call cfg tid r idxs s)) \/ shut (fst (call cfg tid r idxs s)) = true.
Proof.
  intros cfg tid r idxs s. unfold call.
  destruct (amem tid (blocked s)); [left; apply EFF_refl|].
  assert (Hput : forall k v w ttl, EFF s (fst (call_put cfg tid k v w ttl s))).
  { intros k v w ttl. destruct (call_put cfg tid k v w ttl s) as [s' ret] eqn:E. cbn [fst].
    apply call_put_spec in E as ((Hst & Hw & _ & Ht & _) & _). apply EFF_same; assumption. }
  assert (Hr1 : forall k (g : Z -> list Z), EFF s (fst (match read_one cfg k idxs s with
                                         | Some (v, s', []) => (s', g v) | _ => (s, [7]) end))).
  { intros k g. destruct (read_one cfg k idxs s) as [[[v0 s0] [|i0 idxs0]]|] eqn:E; cbn [fst]; try apply EFF_refl.
    apply read_one_spec in E as ((Hst & Hw & _ & Ht & _) & _). apply EFF_same; assumption. }
  assert (Hrm : forall ks (g : list Z -> list Z), EFF s (fst (match read_many cfg ks idxs s with
                                         | Some (vs, s', []) => (s', g vs) | _ => (s, [7]) end))).
  { intros ks g. destruct (read_many cfg ks idxs s) as [[[v0 s0] [|i0 idxs0]]|] eqn:E; cbn [fst]; try apply EFF_refl.
    apply read_many_spec in E as ((Hst & Hw & _ & Ht & _) & _). apply EFF_same; assumption. }
  destruct r as [k0 v|k0 v w|k0 v ttl|k0 v w ttl|k0 v w ttl rm|k0|k0|k0|k0|k0|ks|ks|ks| | |]; cbv beta iota zeta.
  - left. destruct (_ <=? 0); [apply EFF_refl|]. destruct (shut s); [apply EFF_refl|apply Hput].
  - left. destruct (shut s); [apply EFF_refl|apply Hput].
  - left. destruct (shut s); [apply EFF_refl|apply Hput].
  - left. destruct (shut s); [apply EFF_refl|apply Hput].
  - left. destruct (shut s); [apply EFF_refl|apply call_upsert_EFF].
  - left. destruct (shut s); [apply EFF_refl|].
    eapply EFF_trans; [|apply do_send_EFF].
    split; [apply (soft_mark_kf k0 s)|]. intros id H. left.
    destruct (alookup k0 (store s)); exact H.
  - left. destruct (shut s); [apply EFF_refl|]. apply (Hr1 k0 (fun v => if v =? -1 then [5] else [5; v])).
  - left. destruct (shut s); [apply EFF_refl|]. apply (Hr1 k0 (fun v => if v =? -1 then [5] else [5; v])).
  - left. destruct (shut s); [apply EFF_refl|]. apply (Hr1 k0 (fun v => if v =? -1 then [5] else [5; mapped v])).
  - left. destruct (shut s); [apply EFF_refl|]. apply (Hr1 k0 (fun v => if v =? -1 then [5] else [5; mapped v])).
  - left. destruct (shut s); [apply EFF_refl|]. apply (Hrm ks (fun vs => 5 :: vs)).
  - left. destruct (shut s); [apply EFF_refl|]. apply (Hrm ks (fun vs => 5 :: vs)).
  - left. destruct (shut s); [apply EFF_refl|]. apply (Hrm ks (fun vs => 5 :: map mapped vs)).
  - left. apply EFF_refl.
  - left. apply EFF_refl.
  - destruct (shut s) eqn:Hs; [left; apply EFF_refl|]. right.
    pose proof (shutdown_cmd_fields cfg tid (set_shut s true)) as (_ & _ & _ & Hsh & _). cbv zeta in Hsh. exact Hsh.
Qed.

(** ** continuations of shutdown() are parked only after the flag has been raised *)
Definition shutk (k : cont) : Prop := forall c, k <> KSend c.
Definition BS (s : state) : Prop := forall tid k, alookup tid (blocked s) = Some k -> shutk k -> shut s = true.
Definition BEFF (s s' : state) : Prop :=
  shut s' = true \/ forall tid k, alookup tid (blocked s') = Some k -> shutk k -> alookup tid (blocked s) = Some k.

Lemma BS_BEFF : forall s s', (shut s = true -> shut s' = true) -> BS s -> BEFF s s' -> BS s'.
Proof.
  intros s s' Hst HB [H|H] tid k Hl Hk; [exact H|]. apply Hst. exact (HB tid k (H tid k Hl Hk) Hk).
Qed.

Lemma BEFF_refl : forall s, BEFF s s.
Proof. intros s. right. auto. Qed.

Lemma BEFF_same : forall s s', blocked s' = blocked s -> BEFF s s'.
Proof. intros s s' H. right. intros tid k Hl _. rewrite H in Hl. exact Hl. Qed.

Lemma BEFF_trans : forall a b c, (shut b = true -> shut c = true) -> BEFF a b -> BEFF b c -> BEFF a c.
Proof.
  intros a b c Hst [H1|H1] [H2|H2]; try (left; first [exact H2|apply Hst; exact H1]).
  right. intros tid k Hl Hk. apply H1; [apply H2; assumption|exact Hk].
Qed.

Lemma do_send_BEFF : forall cfg tid c s, BEFF s (fst (do_send cfg tid c s)).
Proof.
  intros cfg tid c s. pose proof (do_send_fields cfg tid c s) as (_ & _ & _ & _ & _ & H). cbv zeta in H.
  assert (Hb : blocked (fst (do_send cfg tid c s)) = blocked s \/ blocked (fst (do_send cfg tid c s)) = aset tid (KSend c) (blocked s)).
  { destruct H as [(_ & _ & _ & Hb)|[(_ & _ & _ & _ & _ & Hb)|(_ & _ & _ & _ & Hb)]]; [exact Hb|left; exact Hb|left; exact Hb]. }
  right. intros t k Hl Hk. destruct Hb as [Hb|Hb]; rewrite Hb in Hl; [exact Hl|].
  rewrite alookup_aset in Hl. destruct (t =? tid); [|exact Hl]. injection Hl as <-. exfalso. exact (Hk c eq_refl).
Qed.

Lemma do_send_shut : forall cfg tid c s, shut (fst (do_send cfg tid c s)) = shut s.
Proof. intros cfg tid c s. exact (proj1 (proj2 (do_send_fields cfg tid c s))). Qed.

Lemma unpark_BEFF : forall tid s, BEFF s (set_blocked s (aremove tid (blocked s))).
Proof.
  intros tid s. right. intros t k Hl _. cbn [blocked set_blocked] in Hl. rewrite alookup_aremove in Hl.
  destruct (t =? tid); [discriminate|exact Hl].
Qed.

Lemma call_BEFF : forall cfg tid r idxs s, BEFF s (fst (call cfg tid r idxs s)).
Proof.
  intros cfg tid r idxs s. destruct (call cfg tid r idxs s) as [s' ret] eqn:E. cbn [fst].
  apply call_cshape in E as [(F & _)|[(_ & _ & c & s1 & F & _ & _ & _ & Hc & _ & ->)|(_ & Hs & ->)]].
  - apply BEFF_same. apply F.
  - eapply BEFF_trans; [|apply BEFF_same; apply F|apply do_send_BEFF]. rewrite do_send_shut. auto.
  - left. pose proof (shutdown_cmd_fields cfg tid (set_shut s true)) as (_ & _ & _ & Hsh & _). cbv zeta in Hsh. exact Hsh.
Qed.

Lemma resume_BEFF : forall cfg tid s, BS s -> BEFF s (fst (resume cfg tid s)).
Proof.
  intros cfg tid s HB. destruct (resume cfg tid s) as [s' ret] eqn:E. cbn [fst].
  apply resume_shape in E as [->|[(c & Hl & ->)|[(Hl & ->)|(Hl & ->)]]].
  - apply BEFF_refl.
  - eapply BEFF_trans; [|apply (unpark_BEFF tid s)|apply do_send_BEFF]. rewrite do_send_shut. auto.
  - left. pose proof (shutdown_cmd_fields cfg tid (unpark tid s)) as (_ & _ & _ & Hsh & _). cbv zeta in Hsh. rewrite Hsh.
    unfold unpark; sred. apply (HB tid KShutdownCmd Hl). intros c; discriminate.
  - left. pose proof (shutdown_chan_fields tid (unpark tid s)) as (_ & _ & _ & _ & Hsh & _). cbv zeta in Hsh. rewrite Hsh.
    unfold unpark; sred. apply (HB tid KShutdownChan Hl). intros c; discriminate.
Qed.

Lemma step_BEFF : forall cfg s ev, BS s -> BEFF s (fst (step cfg s ev)).
Proof.
  intros cfg s ev HB. destruct ev as [tid r idxs|tid|orc| |bl|dt|a]; cbn [step].
  - apply call_BEFF.
  - apply resume_BEFF. exact HB.
  - destruct (worker_step cfg orc s) as [s' ret] eqn:E. cbn [fst]. apply worker_step_cases in E as (_ & Hb & _).
    apply BEFF_same. exact Hb.
  - destruct (sweep cfg s) as [s' ret] eqn:E. cbn [fst]. apply sweep_frame in E as ((_ & _ & _ & _ & Hb & _) & _).
    apply BEFF_same. exact Hb.
  - destruct (drain cfg bl s) as [s' ret] eqn:E. cbn [fst]. apply drain_frame in E as ((_ & _ & _ & _ & Hb & _) & _).
    apply BEFF_same. exact Hb.
  - apply BEFF_same. reflexivity.
  - apply BEFF_refl.
Qed.

Lemma upsert_half2_BEFF : forall cfg tid u s, BEFF s (fst (upsert_half2 cfg tid u s)).
Proof.
  intros cfg tid u s. unfold upsert_half2. cbv zeta.
  destruct (u_resp u) as [[[id old] new_exp]|].
  - destruct (type_of_expiry_update old new_exp);
      repeat (match goal with
              | |- BEFF _ (fst (match ?x with _ => _ end)) => destruct x eqn:?
              | |- BEFF _ (fst (if ?b then _ else _)) => destruct b eqn:?
              end); cbn [fst];
      first [ apply BEFF_refl
            | solve [apply BEFF_same; reflexivity]
            | match goal with |- BEFF ?s (fst (do_send ?c ?t ?cm ?s0)) =>
                apply (BEFF_trans s s0); [rewrite do_send_shut; auto|apply BEFF_same; reflexivity|apply do_send_BEFF] end ].
  - destruct (u_v u) as [val|]; [|apply BEFF_refl].
    destruct (requested_weight cfg (u_k u) (Some val) (u_w u) (u_ttl u)) as [wt|]; [|apply BEFF_refl].
    destruct (wt <=? 0); [apply BEFF_refl|].
    destruct (u_ttl u);
      match goal with |- BEFF ?s (fst (do_send ?c ?t ?cm ?s0)) =>
        apply (BEFF_trans s s0); [rewrite do_send_shut; auto|apply BEFF_same; reflexivity|apply do_send_BEFF] end.
Qed.

Lemma wstep_BEFF : forall cfg ws ev, BS (base ws) -> BEFF (base ws) (base (fst (wstep cfg ws ev))).
Proof.
  intros cfg ws ev HB. destruct ev as [e|tid k v w ttl rm|tid|orc|]; cbn [wstep].
  - match goal with |- context [if ?b then _ else _] => destruct b end; [|apply BEFF_refl].
    pose proof (step_BEFF cfg (base ws) e HB) as H. destruct (step cfg (base ws) e) as [s' ret]. exact H.
  - destruct (_ || _); [apply BEFF_refl|]. destruct (shut (base ws)); [apply BEFF_refl|].
    pose proof (MicroAck.upsert_half1_xframe cfg k v w ttl rm (base ws)) as H.
    destruct (upsert_half1 cfg k v w ttl rm (base ws)) as [[s' u]|[s' ret]]; apply BEFF_same; apply H.
  - destruct (alookup tid (ups ws)) as [u|]; [|apply BEFF_refl].
    pose proof (upsert_half2_BEFF cfg tid u (base ws)) as H.
    destruct (upsert_half2 cfg tid u (base ws)) as [s' ret]. exact H.
  - destruct (wpending ws); [apply BEFF_refl|].
    unfold worker_half1.
    assert (Hws : BEFF (base ws) (fst (worker_step cfg orc (base ws)))) by (apply (step_BEFF cfg (base ws) (EWorker orc) HB)).
    destruct (worker_step cfg orc (base ws)) as [sw rw] eqn:Ew. cbn [fst] in Hws.
    destruct (worker (base ws)); try exact Hws.
    destruct (queue (base ws)) as [|[c a] q]; [exact Hws|].
    destruct c as [k v id h w|k v id h w ttl|k|id w|]; try exact Hws. cbv zeta.
    destruct (amem k _); [exact Hws|].
    destruct (admission cfg orc k id h w (set_queue (base ws) q)) as [[r s1] vs] eqn:E.
    pose proof (admission_xframe _ _ _ _ _ _ _ _ _ _ E) as (_ & _ & _ & _ & Xb & _).
    destruct r as [[| |rj|]|site|why]; try exact Hws.
    destruct (calc_expiry (now s1) ttl); [|exact Hws]. apply BEFF_same. sred. exact Xb.
  - destruct (wpending ws) as [p|]; [|apply BEFF_refl]. apply BEFF_same. reflexivity.
Qed.

Lemma mstep_BEFF : forall cfg ms ev, BS (mbase ms) -> pshut_ok ms -> BEFF (mbase ms) (mbase (fst (mstep cfg ms ev))).
Proof.
  intros cfg ms ev HB HP. destruct ev as [e|tid r idxs|tid idxs|orc|]; cbn [mstep].
  - destruct (mwin_enabled ms e); [|apply BEFF_refl].
    pose proof (wstep_BEFF cfg (win ms) e HB) as H. destruct (wstep cfg (win ms) e) as [w' ret]. exact H.
  - unfold menter. destruct (negb (caller_free ms tid)); [apply BEFF_refl|]. cbv zeta.
    destruct (shut (mbase ms) || negb (micro_request r) || early_panic cfg r).
    + pose proof (call_BEFF cfg tid r idxs (mbase ms)) as H. destruct (call cfg tid r idxs (mbase ms)) as [s' ret]. exact H.
    + destruct r; cbn [fst]; first [apply BEFF_refl|apply BEFF_same; reflexivity].
  - unfold mstepc. cbv zeta. destruct (alookup tid (cps ms)) as [p|] eqn:Hp; [|apply BEFF_refl].
    assert (Hpark : forall s c, blocked s = blocked (mbase ms) -> BEFF (mbase ms) (park tid c s)).
    { intros s c Hb. right. intros t k Hl Hk. unfold park in Hl. cbn [blocked set_blocked] in Hl. rewrite alookup_aset in Hl.
      destruct (t =? tid); [injection Hl as <-; exfalso; exact (Hk c eq_refl)|rewrite Hb in Hl; exact Hl]. }
    destruct p as [r|k v w ttl| |h obs|n].
    + destruct r; try apply BEFF_refl;
        try (unfold put_check; cbv zeta; repeat match goal with |- context [if ?b then _ else _] => destruct b end; apply BEFF_refl);
        try (unfold read_lookup; cbv zeta; destruct (lookup_alive _ _); apply BEFF_same; reflexivity).
      * pose proof (MicroAck.upsert_half1_xframe cfg k v w ttl rm (mbase ms)) as H.
        destruct (upsert_half1 cfg k v w ttl rm (mbase ms)) as [[s' u]|[s' ret]]; apply BEFF_same; apply H.
      * cbn [fst mbase set_cp win with_base base]. apply Hpark. unfold soft_mark. destruct (alookup k (store (mbase ms))); reflexivity.
      * unfold read_body. destruct (read_one cfg k idxs (mbase ms)) as [[[v0 s'] [|i l]]|] eqn:Hr; try apply BEFF_refl.
        apply BEFF_same. apply (InvCalls.read_one_frame cfg k idxs _ _ _ _ Hr).
      * unfold read_body. destruct (read_one cfg k idxs (mbase ms)) as [[[v0 s'] [|i l]]|] eqn:Hr; try apply BEFF_refl.
        apply BEFF_same. apply (InvCalls.read_one_frame cfg k idxs _ _ _ _ Hr).
    + cbn [fst mbase set_cp win with_base base]. apply Hpark. reflexivity.
    + destruct (alookup tid (blocked (mbase ms))) as [[c| |]|] eqn:Hb; try apply BEFF_refl.
      pose proof (do_send_BEFF cfg tid c (set_blocked (mbase ms) (aremove tid (blocked (mbase ms))))) as H.
      pose proof (do_send_shut cfg tid c (set_blocked (mbase ms) (aremove tid (blocked (mbase ms))))) as Hs.
      destruct (do_send cfg tid c (set_blocked (mbase ms) (aremove tid (blocked (mbase ms))))) as [s' ret].
      cbn [fst mbase end_cp win with_base base] in *. eapply BEFF_trans; [|apply (unpark_BEFF tid (mbase ms))|exact H]. rewrite Hs. auto.
    + destruct idxs as [|i [|j l]]; try apply BEFF_refl.
      destruct (pool_add cfg i h (mbase ms)) as [s'|] eqn:Hpa; [|apply BEFF_refl].
      apply BEFF_same. apply (InvCalls.pool_add_frame cfg i h _ _ Hpa).
    + left. apply shutdown_stage_shut. exact (HP tid n Hp).
  - apply BEFF_same. unfold mworker1. cbv zeta. destruct (wdel ms); [reflexivity|]. destruct (wpending (win ms)) eqn:Hwp; [reflexivity|].
    assert (Hfall : blocked (mbase (fst (let '(w', ret) := wstep cfg (win ms) (WPut1 orc) in
                                         ({| win := w'; cps := cps ms; wdel := None |}, ret)))) = blocked (mbase ms)).
    { cbn [wstep]. rewrite Hwp. unfold worker_half1.
      assert (Hws : blocked (fst (worker_step cfg orc (mbase ms))) = blocked (mbase ms)).
      { destruct (worker_step cfg orc (mbase ms)) as [s' ret] eqn:E. apply worker_step_cases in E as (_ & Hb & _). exact Hb. }
      fold (mbase ms).
      destruct (worker_step cfg orc (mbase ms)) as [sw rw] eqn:Ew. cbn [fst] in Hws.
      destruct (worker (mbase ms)); try exact Hws.
      destruct (queue (mbase ms)) as [|[c a] q]; [exact Hws|].
      destruct c as [k v id h w|k v id h w ttl|k|id w|]; try exact Hws. cbv zeta.
      destruct (amem k _); [exact Hws|].
      destruct (admission cfg orc k id h w (set_queue (mbase ms) q)) as [[r s1] vs] eqn:E.
      pose proof (admission_xframe _ _ _ _ _ _ _ _ _ _ E) as (_ & _ & _ & _ & Xb & _).
      destruct r as [[| |rj|]|site|why]; try exact Hws.
      destruct (calc_expiry (now s1) ttl); [|exact Hws]. sred. exact Xb. }
    destruct (worker (mbase ms)); try exact Hfall.
    destruct (queue (mbase ms)) as [|[c a] q]; [exact Hfall|].
    assert (Hput : forall k v id h w ttl, blocked (mbase (fst (mput1 cfg ms orc k v id h w ttl a q))) = blocked (mbase ms)).
    { intros. unfold mput1. cbv zeta. destruct (amem _ _); [reflexivity|].
      destruct (admission cfg orc k id h w (set_queue (mbase ms) q)) as [[r s1] vs] eqn:E.
      pose proof (admission_xframe _ _ _ _ _ _ _ _ _ _ E) as (_ & _ & _ & _ & Xb & _).
      destruct r as [[| |rj|]|site|why]; cbn [fst mbase with_mbase win with_base base]; unfold set_ack; sred; first [exact Xb|reflexivity]. }
    destruct c as [k0 v0 id0 h0 w0|k0 v0 id0 h0 w0 ttl0|k0|id0 w0|]; try exact Hfall; try apply Hput.
    destruct (alookup k0 (store (set_queue (mbase ms) q))); cbn [fst mbase with_mbase win with_base base]; [|reflexivity].
    apply (store_delete_xframe k0 (set_queue (mbase ms) q)).
  - apply BEFF_same. unfold mworker2. cbv zeta. destruct (wdel ms) as [[a id exp|a id exp|a k v id ttl obs]|].
    + pose proof (weights_delete_xframe cfg id false (mbase ms)) as Hx.
      destruct (weights_delete cfg id false (mbase ms)) as [s2|site s2|why]; cbn [fst mbase win with_base base]; try reflexivity;
        sred; apply Hx.
    + cbn [fst mbase win with_base base]. destruct exp; reflexivity.
    + destruct ttl as [t|]; [destruct (calc_expiry (now (mbase ms)) t)|]; reflexivity.
    + cbn [wstep]. destruct (wpending (win ms)); reflexivity.
Qed.

Lemma BS_run : forall cfg evs, BS (mbase (mrun cfg evs)).
Proof.
  intros cfg evs. unfold mrun, mrun_from.
  assert (H : forall ms, MSI ms -> BS (mbase ms) ->
              BS (mbase (fold_left (fun m ev => fst (mstep cfg m ev)) evs ms))).
  { induction evs as [|ev t IH]; intros ms HM HB; [exact HB|]. cbn [fold_left]. apply IH.
    - apply mstep_MSI. exact HM.
    - eapply BS_BEFF; [apply micro_shut_stable_all|exact HB|apply mstep_BEFF; [exact HB|exact (msi_pshut ms HM)]]. }
  apply H; [apply MSI_init|]. intros tid k Hl. discriminate.
Qed.

(** ** the worker's put: admission of a fresh id keeps every held key charged and, when it accepts, charges the new key *)
Lemma admission_Held : forall cfg orc k id h w s r s' vs, c_debug cfg = true -> Led s -> Held s -> lfresh id s -> 0 < w ->
  admission cfg orc k id h w s = (r, s', vs) ->
  match r with
  | AdPanic _ => True
  | AdStatus Accepted => Held s' /\ alookup id (weights s') = Some (Build_wkey k h w)
  | _ => Held s'
  end.
Proof.
  intros cfg orc k id h w s r s' vs Hd HL HH Hfr Hw H. unfold admission in H.
  assert (Hadd : forall s1, Held s1 -> alookup id (weights s1) = None ->
            match weights_add cfg k id h w s1 with
            | Ok s2 => Held s2 /\ alookup id (weights s2) = Some (Build_wkey k h w)
            | _ => True end).
  { clear H. intros s1 H1 Hn. pose proof (weights_add_Held cfg k id h w s1 H1 Hn) as Ha. unfold weights_add in *. cbv zeta in *.
    destruct (add_i64 cfg _ w) as [u|]; [|exact I]. split; [exact Ha|]. sred. apply alookup_aset_eq. }
  destruct (c_max cfg <? w) eqn:E0; [inversion H; subst; exact HH|].
  destruct (w <=? c_max cfg - used s) eqn:E1.
  { specialize (Hadd s HH (proj1 Hfr)).
    destruct (weights_add cfg k id h w s) as [s1|site s1|why] eqn:E2; inversion H; subst; first [exact Hadd|exact I|exact HH]. }
  destruct (negb (bloom_admissible _ _)) eqn:E2; [inversion H; subst; exact HH|].
  destruct (est_panics (lfu s)) eqn:E3; [inversion H; subst; exact I|].
  destruct (o_orders orc) as [|order0 orders] eqn:E4; [inversion H; subst; exact HH|].
  destruct (negb (Nat.leb (length order0) sample_size)) eqn:E5; [inversion H; subst; exact HH|].
  destruct (sample_fill _ (weights s) order0 []) as [sm0|] eqn:E6; [|inversion H; subst; exact HH].
  destruct (create_space_loop _ cfg _ _ w orders (o_pops orc) sm0 _ s []) as [[sr s1] vs1] eqn:E7.
  destruct (create_space_loop_Held _ _ _ _ _ _ _ _ _ _ _ _ _ _ Hd HL HH E7) as [HL1 HH1].
  destruct (create_space_loop_led _ cfg id _ _ _ _ _ _ _ _ _ _ _ _ E7 Hd HL) as [_ Hfr1].
  destruct sr as [| |site|why]; try (inversion H; subst; first [exact HH1|exact I]).
  specialize (Hadd s1 HH1 (proj1 (Hfr1 Hfr))).
  destruct (weights_add cfg k id h w s1) as [s2|site s2|why] eqn:E8; inversion H; subst; first [exact Hadd|exact I|exact HH1].
Qed.

(** admission and the ledger primitives never touch the expiry index *)
Lemma admission_ticker : forall cfg orc k id h w s r s' vs, admission cfg orc k id h w s = (r, s', vs) -> ticker s' = ticker s.
Proof. intros. exact (proj1 (admission_frame _ _ _ _ _ _ _ _ _ _ H)). Qed.

(** an id that has just been taken from the queue has been used *)
Lemma popped_Oldp : forall s c a q id, Led s -> queue s = (c, a) :: q -> cmd_put_id c = Some id -> Oldp (set_queue s q) id.
Proof.
  intros s c a q id HL Hq Hid. destruct (pop_led s c a q HL Hq) as (_ & _ & Hfr). destruct (Hfr id Hid) as (_ & Hlt & Hn).
  split; [exact Hlt|exact Hn].
Qed.

Lemma Oldp_same : forall s s' id, next_id s' = next_id s -> queue s' = queue s -> blocked s' = blocked s -> Oldp s id -> Oldp s' id.
Proof. intros s s' id A B C H. exact (FL_oldp s s' id (FL_same s s' A B C) H). Qed.

(** ** assembling the invariant after a step *)
(** the windows are untouched; keys may disappear from the store, the let in id keeps its charge *)
Lemma HC_intro_same : forall ms ms',
  wdel ms' = wdel ms -> ups (win ms') = ups (win ms) -> wpending (win ms') = wpending (win ms) ->
  FL (mbase ms) (mbase ms') -> Held (mbase ms') ->
  (forall id, TIN (ticker (mbase ms')) id -> TIN (ticker (mbase ms)) id \/ Used (mbase ms) (adm_id ms) id) ->
  (forall id, adm_id ms = Some id -> alookup id (weights (mbase ms')) = alookup id (weights (mbase ms))) ->
  (forall k, idof (mbase ms') k = None \/ idof (mbase ms') k = idof (mbase ms) k) ->
  HC ms -> HC ms'.
Proof.
  intros ms ms' Hw Hu Hp HF HH Ht Hc Hi [A B C D E F].
  assert (Ha : adm_id ms' = adm_id ms) by (unfold adm_id; rewrite Hw; reflexivity).
  constructor.
  - exact HH.
  - intros a k v id ttl obs H. rewrite Hw in H. destruct (B _ _ _ _ _ _ H) as [(wk & H1 & H2) H3]. split.
    + exists wk. rewrite (Hc id); [split; assumption|]. unfold adm_id. rewrite H. reflexivity.
    + eapply FL_oldp; eassumption.
  - intros a id exp H k. rewrite Hw in H. destruct (Hi k) as [E0|E0]; rewrite E0; [discriminate|exact (C _ _ _ H k)].
  - intros id H. rewrite Ha. eapply Used_FL; [exact HF|]. destruct (Ht id H) as [H1|H1]; [apply D; exact H1|exact H1].
  - intros tid u id o n H1 H2. rewrite Ha. rewrite Hu in H1. eapply Used_FL; [exact HF|]. eapply E; eassumption.
  - intros p H. rewrite Hp in H. eapply FL_oldp; [exact HF|]. apply F. exact H.
Qed.

(** nothing in flight before or after (a whole worker command, or the first half of a put with time-to-live) *)
Lemma HC_intro_quiet : forall ms ms', wdel ms = None -> wdel ms' = None -> ups (win ms') = ups (win ms) ->
  FL (mbase ms) (mbase ms') -> Held (mbase ms') ->
  (forall id, TIN (ticker (mbase ms')) id -> TIN (ticker (mbase ms)) id \/ Oldp (mbase ms') id) ->
  (forall p, wpending (win ms') = Some p -> wpending (win ms) = Some p \/ Oldp (mbase ms') (p_id p)) ->
  HC ms -> HC ms'.
Proof.
  intros ms ms' Hw Hw' Hu HF HH Ht Hp [A B C D E F].
  assert (Ha : adm_id ms = None) by (unfold adm_id; rewrite Hw; reflexivity).
  assert (Ha' : adm_id ms' = None) by (unfold adm_id; rewrite Hw'; reflexivity).
  constructor.
  - exact HH.
  - intros a k v id ttl obs H. rewrite Hw' in H. discriminate.
  - intros a id exp H. rewrite Hw' in H. discriminate.
  - intros id H. rewrite Ha'. destruct (Ht id H) as [H1|H1].
    + rewrite <- Ha. eapply Used_FL; [exact HF|]. apply D. exact H1.
    + split; [exact H1|discriminate].
  - intros tid u id o n H1 H2. rewrite Ha'. rewrite Hu in H1. rewrite <- Ha. eapply Used_FL; [exact HF|]. eapply E; eassumption.
  - intros p H. destruct (Hp p H) as [H1|H1]; [eapply FL_oldp; [exact HF|]; apply F; exact H1|exact H1].
Qed.

(** ** the worker's whole step on the base state (nothing in flight) *)
Definition TKO (s s' : state) : Prop := forall id, TIN (ticker s') id -> TIN (ticker s) id \/ Oldp s' id.

Lemma TKO_same : forall s s', ticker s' = ticker s -> TKO s s'.
Proof. intros s s' H id Hi. left. rewrite H in Hi. exact Hi. Qed.

Lemma worker_step_base : forall cfg orc s, c_debug cfg = true -> Led s -> Held s ->
  worker (fst (worker_step cfg orc s)) <> Dead ->
  Held (fst (worker_step cfg orc s)) /\ TKO s (fst (worker_step cfg orc s)).
Proof.
  intros cfg orc s Hd HL HH. unfold worker_step.
  destruct (worker s) eqn:Hwk; try (intros _; split; [exact HH|apply TKO_same; reflexivity]).
  destruct (queue s) as [|[c a] q] eqn:Hq; [intros _; split; [exact HH|apply TKO_same; reflexivity]|]. cbv zeta.
  destruct (pop_led s c a q HL Hq) as (HL0 & Hwok & Hfr).
  assert (HH0 : Held (set_queue s q)) by (apply (Held_same s _ eq_refl eq_refl HH)).
  assert (Hsame : forall s1, Held s1 -> ticker s1 = ticker s ->
            forall s2, store s2 = store s1 -> weights s2 = weights s1 -> ticker s2 = ticker s1 -> Held s2 /\ TKO s s2).
  { intros s1 H1 T1 s2 A B C. split; [apply (Held_same s1 s2 A B H1)|apply TKO_same; congruence]. }
  destruct c as [k v id h w|k v id h w ttl|k|id w|].
  - destruct (amem k (store (set_queue s q))); [intros _; cbn [fst]; apply (Hsame _ HH0 eq_refl); reflexivity|].
    pose proof (admission_Held cfg orc k id h w (set_queue s q)) as Hadm.
    destruct (admission cfg orc k id h w (set_queue s q)) as [[r s1] vs] eqn:E.
    specialize (Hadm r s1 vs Hd HL0 HH0 (Hfr id eq_refl) Hwok eq_refl).
    pose proof (admission_ticker _ _ _ _ _ _ _ _ _ _ E) as Ht.
    destruct r as [[| |rj|]|site|why]; cbn [fst]; intros Hnd;
      try (apply (Hsame _ Hadm Ht); reflexivity); try (exfalso; apply Hnd; reflexivity); try (split; [exact HH|apply TKO_same; reflexivity]).
    destruct Hadm as [H1 H2].
    apply (Hsame (store_insert k v id None s1)); try reflexivity; [|exact Ht].
    apply (store_insert_Held k v id None s1 _ H1 H2). reflexivity.
  - destruct (amem k (store (set_queue s q))); [intros _; cbn [fst]; apply (Hsame _ HH0 eq_refl); reflexivity|].
    pose proof (admission_Held cfg orc k id h w (set_queue s q)) as Hadm.
    destruct (admission cfg orc k id h w (set_queue s q)) as [[r s1] vs] eqn:E.
    specialize (Hadm r s1 vs Hd HL0 HH0 (Hfr id eq_refl) Hwok eq_refl).
    pose proof (admission_ticker _ _ _ _ _ _ _ _ _ _ E) as Ht.
    pose proof (admission_frame _ _ _ _ _ _ _ _ _ _ E) as (_ & Fq & Fb & Fn & _).
    destruct r as [[| |rj|]|site|why]; cbn [fst];
      try (intros Hnd; first [apply (Hsame _ Hadm Ht); reflexivity | exfalso; apply Hnd; reflexivity
                             | split; [exact HH|apply TKO_same; reflexivity]]).
    destruct Hadm as [H1 H2].
    destruct (calc_expiry (now s1) ttl) as [e|]; cbn [fst]; intros Hnd; [|exfalso; apply Hnd; reflexivity].
    split.
    + apply (Held_same (store_insert k v id (Some e) s1)); try reflexivity.
      apply (store_insert_Held k v id (Some e) s1 _ H1 H2). reflexivity.
    + intros id' Hi. sred. apply TIN_put in Hi. destruct Hi as [->|Hi]; [right|left; rewrite Ht in Hi; exact Hi].
      apply (Oldp_same (set_queue s q)); sred; try congruence. eapply popped_Oldp; [exact HL|exact Hq|reflexivity].
  - destruct (alookup k (store (set_queue s q))) as [e|] eqn:El; [|intros _; cbn [fst]; apply (Hsame _ HH0 eq_refl); reflexivity].
    pose proof (store_delete_Held k _ HH0) as HH1.
    pose proof (store_delete_no_id k e _ HH0 El) as Hno.
    pose proof (weights_delete_nohook_Held cfg (e_id e) _ HH1 Hno) as Hwd.
    pose proof (weights_delete_frame cfg (e_id e) false (store_delete k (set_queue s q))) as Hf.
    pose proof (store_delete_frame k (set_queue s q)) as (Gt & _).
    destruct (weights_delete cfg (e_id e) false (store_delete k (set_queue s q))) as [s2|site s2|why]; cbn [fst]; intros Hnd.
    + destruct Hf as (Ft & _). split.
      * destruct (e_exp e); apply (Held_same s2); try reflexivity; exact Hwd.
      * intros id' Hi. left. destruct (e_exp e); sred; [apply TIN_delete in Hi|]; rewrite Ft, Gt in Hi; exact Hi.
    + exfalso; apply Hnd; reflexivity.
    + split; [exact HH0|apply TKO_same; reflexivity].
  - pose proof (weights_update_Held cfg id w (set_queue s q) HH0) as Hwu.
    pose proof (weights_update_frame cfg id w (set_queue s q)) as Hf.
    destruct (weights_update cfg id w (set_queue s q)) as [s1|site s1|why]; cbn [fst]; intros Hnd.
    + destruct Hf as (Ft & _). apply (Hsame s1 Hwu); try reflexivity. exact Ft.
    + exfalso; apply Hnd; reflexivity.
    + split; [exact HH0|apply TKO_same; reflexivity].
  - intros _. cbn [fst]. pose proof (drain_queue_frame q (set_queue s q)) as (F1 & F2 & _ & F4 & _).
    apply (Hsame (drain_queue q (set_queue s q))); try reflexivity; [apply (Held_same _ _ F1 F2 HH0)|exact F4].
Qed.

Lemma resume_EFF : forall cfg tid s, BS s -> shut s = false -> EFF s (fst (resume cfg tid s)).
Proof.
  intros cfg tid s HB Hs. destruct (resume cfg tid s) as [s' ret] eqn:E. cbn [fst].
  apply resume_shape in E as [->|[(c & Hl & ->)|[(Hl & ->)|(Hl & ->)]]].
  - apply EFF_refl.
  - eapply EFF_trans; [|apply do_send_EFF]. apply EFF_same; reflexivity.
  - exfalso. assert (H : shut s = true) by (apply (HB tid KShutdownCmd Hl); intros c; discriminate). congruence.
  - exfalso. assert (H : shut s = true) by (apply (HB tid KShutdownChan Hl); intros c; discriminate). congruence.
Qed.

Lemma weights_delete_idof_shrink : forall cfg id hook s,
  match weights_delete cfg id hook s with
  | Ok s' | Panic _ s' => forall k, idof s' k = None \/ idof s' k = idof s k
  | Inadmissible _ => True
  end.
Proof.
  intros cfg id hook s. unfold weights_delete.
  destruct (alookup id (weights s)) as [wk|]; [|intros k; right; reflexivity]. cbv zeta.
  destruct (add_i64 cfg _ _) as [u|]; [|intros k; right; reflexivity].
  destruct hook; intros k.
  - change (idof (upd_st ?f ?x ?y) k) with (idof y k). rewrite idof_store_delete. destruct (k =? w_key wk); [left; reflexivity|right; reflexivity].
  - right. reflexivity.
Qed.

Lemma sweep_entries_idof_shrink : forall cfg now_ es s,
  match sweep_entries cfg now_ es s with
  | Ok s' | Panic _ s' => forall k, idof s' k = None \/ idof s' k = idof s k
  | Inadmissible _ => True
  end.
Proof.
  intros cfg now_ es. induction es as [|[id ex] t IH]; intros s; cbn [sweep_entries]; [intros k; right; reflexivity|].
  destruct (ex <? now_); [|apply IH].
  pose proof (weights_delete_idof_shrink cfg id true s) as Hw.
  destruct (weights_delete cfg id true s) as [s1|site s1|why]; [|exact Hw|exact I].
  specialize (IH s1). destruct (sweep_entries cfg now_ t s1); try exact I;
    (intros k; destruct (IH k) as [H|H]; [left; exact H|rewrite H; apply Hw]).
Qed.

(** one sweep: every held key stays charged; the index only shrinks; an id it does not list keeps its charge *)
Lemma sweep_base : forall cfg s, c_debug cfg = true -> Led s -> Held s ->
  let s' := fst (sweep cfg s) in
  Held s' /\ (forall id, TIN (ticker s') id -> TIN (ticker s) id) /\
  (forall id0, ~ TIN (ticker s) id0 -> alookup id0 (weights s') = alookup id0 (weights s)) /\
  (forall k, idof s' k = None \/ idof s' k = idof s k).
Proof.
  intros cfg s Hd HL HH. cbv zeta. unfold sweep.
  assert (Hsame : Held s /\ (forall id, TIN (ticker s) id -> TIN (ticker s) id) /\
                  (forall id0, ~ TIN (ticker s) id0 -> alookup id0 (weights s) = alookup id0 (weights s)) /\
                  (forall k, idof s k = None \/ idof s k = idof s k)) by (repeat split; auto).
  destruct (sweeper s); try exact Hsame. cbv zeta.
  set (sh := shard_index cfg (now s)). set (es := shard_entries (ticker s) sh).
  set (s1 := set_ticker s (aset sh (filter (fun p => negb (snd p <? now s)) es) (ticker s))).
  assert (HL1 : Led s1) by (apply (Led_ext s s1 HL); reflexivity).
  assert (HH1 : Held s1) by (apply (Held_same s s1 eq_refl eq_refl HH)).
  pose proof (sweep_entries_Held cfg (now s) es s1 Hd HL1 HH1) as Hsw.
  pose proof (sweep_entries_frame cfg (now s) es s1) as Hf.
  pose proof (sweep_entries_idof_shrink cfg (now s) es s1) as Hi.
  assert (Hoth : forall id0, ~ TIN (ticker s) id0 ->
            match sweep_entries cfg (now s) es s1 with
            | Ok s' | Panic _ s' => alookup id0 (weights s') = alookup id0 (weights s1) | Inadmissible _ => True end).
  { intros id0 Hn. apply sweep_entries_other. intros e Hin. apply Hn. exists sh, e. exact Hin. }
  destruct (sweep_entries cfg (now s) es s1) as [s2|site s2|why]; [|contradiction|exact Hsame]. cbn [fst].
  destruct Hsw as [_ HH2]. destruct Hf as (Ft & _).
  assert (Hfin : forall s3, store s3 = store s2 -> weights s3 = weights s2 -> ticker s3 = ticker s2 ->
            Held s3 /\ (forall id, TIN (ticker s3) id -> TIN (ticker s) id) /\
            (forall id0, ~ TIN (ticker s) id0 -> alookup id0 (weights s3) = alookup id0 (weights s)) /\
            (forall k, idof s3 k = None \/ idof s3 k = idof s k)).
  { intros s3 A B C. split; [apply (Held_same s2 s3 A B HH2)|]. split; [|split].
    - intros id H. rewrite C, Ft in H. subst s1 es. cbn [ticker set_ticker] in H. eapply TIN_filter. exact H.
    - intros id0 Hn. rewrite B. exact (Hoth id0 Hn).
    - intros k. unfold idof at 1 2. rewrite A. exact (Hi k). }
  destruct (sweeper_run s2); apply Hfin; reflexivity.
Qed.

(** ** put_or_update's second half: the expiry index gains at most the id kept from the first half *)
Lemma upsert_half2_eff : forall cfg tid u s,
  kf s (fst (upsert_half2 cfg tid u s)) /\
  forall id, TIN (ticker (fst (upsert_half2 cfg tid u s))) id -> TIN (ticker s) id \/ exists o n, u_resp u = Some (id, o, n).
Proof.
  intros cfg tid u s. split; [apply upsert_half2_kf|]. unfold upsert_half2. cbv zeta.
  destruct (u_resp u) as [[[id0 old] new_exp]|].
  - assert (Hsend : forall c s0, (forall id, TIN (ticker s0) id -> TIN (ticker s) id \/ id = id0) ->
              forall id, TIN (ticker (fst (do_send cfg tid c s0))) id -> TIN (ticker s) id \/ exists o n, Some (id0, old, new_exp) = Some (id, o, n)).
    { intros c s0 H0 id Hi. destruct (do_send cfg tid c s0) as [s' ret] eqn:E. cbn [fst] in Hi.
      apply do_send_spec in E as ((_ & _ & _ & Ht & _) & _). rewrite Ht in Hi.
      destruct (H0 id Hi) as [H|H]; [left; exact H|subst id; right; eexists; eexists; reflexivity]. }
    assert (Hplain : forall s0, (forall id, TIN (ticker s0) id -> TIN (ticker s) id \/ id = id0) ->
              forall id, TIN (ticker s0) id -> TIN (ticker s) id \/ exists o n, Some (id0, old, new_exp) = Some (id, o, n)).
    { intros s0 H0 id Hi. destruct (H0 id Hi) as [H|H]; [left; exact H|subst id; right; eexists; eexists; reflexivity]. }
    assert (T0 : forall id, TIN (ticker s) id -> TIN (ticker s) id \/ id = id0) by (intros; left; assumption).
    assert (T1 : forall n id, TIN (ticker (set_ticker s (ticker_put cfg id0 n (ticker s)))) id -> TIN (ticker s) id \/ id = id0).
    { intros n id Hi. sred. apply TIN_put in Hi. destruct Hi as [Hi|Hi]; [right; exact Hi|left; exact Hi]. }
    assert (T2 : forall o id, TIN (ticker (set_ticker s (ticker_delete cfg id0 o (ticker s)))) id -> TIN (ticker s) id \/ id = id0).
    { intros o id Hi. sred. apply TIN_delete in Hi. left. exact Hi. }
    assert (T3 : forall o n id, TIN (ticker (set_ticker s (ticker_update cfg id0 o n (ticker s)))) id -> TIN (ticker s) id \/ id = id0).
    { intros o n id Hi. sred. apply TIN_update in Hi. destruct Hi as [Hi|Hi]; [right; exact Hi|left; exact Hi]. }
    destruct (type_of_expiry_update old new_exp);
      repeat (match goal with
              | |- forall id, TIN (ticker (fst (match ?x with _ => _ end))) id -> _ => destruct x eqn:?
              | |- forall id, TIN (ticker (fst (if ?b then _ else _))) id -> _ => destruct b eqn:?
              end); cbn [fst];
      first [ apply Hsend; first [exact T0|apply T1|apply T2|apply T3]
            | apply Hplain; first [exact T0|apply T1|apply T2|apply T3] ].
  - intros id Hi. left.
    destruct (u_v u) as [val|]; [|exact Hi].
    destruct (requested_weight cfg (u_k u) (Some val) (u_w u) (u_ttl u)) as [wt|]; [|exact Hi].
    destruct (wt <=? 0); [exact Hi|].
    destruct (u_ttl u);
      match type of Hi with TIN (ticker (fst (do_send ?c ?t ?cm ?s0))) _ =>
        destruct (do_send c t cm s0) as [s' ret] eqn:E; cbn [fst] in Hi;
        apply do_send_spec in E as ((_ & _ & _ & Ht & _) & _); rewrite Ht in Hi; exact Hi end.
Qed.

(** the first half of the worker's put with time-to-live, taken as one step *)
Lemma worker_half1_base : forall cfg orc s, c_debug cfg = true -> Led s -> Held s ->
  match worker_half1 cfg orc s with
  | inl (s', p) => Held s' /\ ticker s' = ticker s /\ Oldp s' (p_id p)
  | inr (s', _) => worker s' <> Dead -> Held s' /\ TKO s s'
  end.
Proof.
  intros cfg orc s Hd HL HH. unfold worker_half1.
  pose proof (worker_step_base cfg orc s Hd HL HH) as Hws.
  destruct (worker_step cfg orc s) as [sw rw] eqn:Ew. cbn [fst] in Hws.
  destruct (worker s) eqn:Hwk; try exact Hws.
  destruct (queue s) as [|[c a] q] eqn:Hq; [exact Hws|].
  destruct c as [k v id h w|k v id h w ttl|k|id w|]; try exact Hws.
  cbv zeta.
  destruct (amem k (store (set_queue s q))); [exact Hws|].
  destruct (pop_led s _ a q HL Hq) as (HL0 & Hwok & Hfr).
  assert (HH0 : Held (set_queue s q)) by (apply (Held_same s _ eq_refl eq_refl HH)).
  pose proof (admission_Held cfg orc k id h w (set_queue s q)) as Hadm.
  destruct (admission cfg orc k id h w (set_queue s q)) as [[r s1] vs] eqn:E.
  specialize (Hadm r s1 vs Hd HL0 HH0 (Hfr id eq_refl) Hwok eq_refl).
  pose proof (admission_ticker _ _ _ _ _ _ _ _ _ _ E) as Ht.
  pose proof (admission_frame _ _ _ _ _ _ _ _ _ _ E) as (_ & Fq & Fb & Fn & _).
  destruct r as [[| |rj|]|site|why]; try exact Hws.
  destruct (calc_expiry (now s1) ttl) as [e|]; [|exact Hws].
  destruct Hadm as [H1 H2]. cbn [p_id]. split; [|split].
  - apply (store_insert_Held k v id (Some e) s1 _ H1 H2). reflexivity.
  - sred. exact Ht.
  - apply (Oldp_same (set_queue s q)); sred; try congruence. eapply popped_Oldp; [exact HL|exact Hq|reflexivity].
Qed.

(** ** every micro step *)
Record PRE (ms : mstate) : Prop := {
  p_led : Led (mbase ms);
  p_si : SI (mbase ms) (fl_of ms);
  p_x : wdel ms = None \/ wpending (win ms) = None;
  p_bs : BS (mbase ms);
  p_ps : pshut_ok ms;
  p_shut : shut (mbase ms) = false
}.

Lemma EFF_HC : forall ms ms', PRE ms -> EFF (mbase ms) (mbase ms') -> FL (mbase ms) (mbase ms') ->
  wdel ms' = wdel ms -> ups (win ms') = ups (win ms) -> wpending (win ms') = wpending (win ms) -> HC ms -> HC ms'.
Proof.
  intros ms ms' HP [Hk Ht] HF Hw Hu Hp HC0.
  apply (HC_frame2 ms ms' Hk HF); try assumption.
  - intros id H. destruct (Ht id H) as [H1|(k & H1)]; [left; exact H1|right].
    exact (stored_id_Used ms k id (p_led ms HP) (p_si ms HP) (h_held ms HC0) H1).
  - intros tid u H. left. rewrite Hu in H. exact H.
Qed.

Lemma wstep_HC : forall cfg ms e, c_debug cfg = true -> PRE ms -> HC ms -> mwin_enabled ms e = true ->
  let ms' := {| win := fst (wstep cfg (win ms) e); cps := cps ms; wdel := wdel ms |} in
  shut (mbase ms') = false -> worker (mbase ms') <> Dead -> HC ms'.
Proof.
  intros cfg ms e Hd HP HC0 Hen ms' Hs' Hnd. subst ms'.
  pose proof (wstep_FL cfg (win ms) e) as HF.
  assert (Hsame : HC {| win := win ms; cps := cps ms; wdel := wdel ms |}) by (destruct ms; exact HC0).
  destruct (wstep cfg (win ms) e) as [w' ret] eqn:Ew. cbn [fst] in *. unfold mbase in Hs', Hnd, HF |- *. cbn [win] in Hs', Hnd, HF |- *.
  destruct e as [e|tid k v w ttl rm|tid|orc|]; cbn [wstep] in Ew.
  - match type of Ew with (if ?b then _ else _) = _ => destruct b eqn:Hen2 end; [|inversion Ew; subst; exact Hsame].
    destruct (step cfg (base (win ms)) e) as [s' ret0] eqn:Es. inversion Ew; subst w' ret. clear Ew. cbn [base with_base] in *.
    destruct e as [tid r idxs|tid|orc| |bl|dt|a]; cbn [step] in Es.
    + destruct (call_EFF cfg tid r idxs (mbase ms)) as [H|H]; unfold mbase in H; rewrite Es in H; cbn [fst] in H; [|congruence].
      apply EFF_HC with (ms := ms); [exact HP|exact H|exact HF|reflexivity|reflexivity|reflexivity|exact HC0].
    + pose proof (resume_EFF cfg tid (mbase ms) (p_bs ms HP) (p_shut ms HP)) as H. unfold mbase in H. rewrite Es in H. cbn [fst] in H.
      apply EFF_HC with (ms := ms); [exact HP|exact H|exact HF|reflexivity|reflexivity|reflexivity|exact HC0].
    + cbn [mwin_enabled] in Hen. destruct (wdel ms) eqn:Hwd; [discriminate|].
      destruct (wpending (win ms)) eqn:Hwp; [discriminate|].
      pose proof (worker_step_base cfg orc (mbase ms) Hd (p_led ms HP) (h_held ms HC0)) as H.
      unfold mbase in H. rewrite Es in H. cbn [fst] in H. destruct (H Hnd) as [HH Ht].
      apply HC_intro_quiet with (ms := ms); [exact Hwd|first [exact Hwd|reflexivity]|reflexivity|exact HF|exact HH|exact Ht| |exact HC0].
      intros p Hp. cbn [win wpending with_base] in Hp. rewrite Hwp in Hp. discriminate.
    + pose proof (sweep_base cfg (mbase ms) Hd (p_led ms HP) (h_held ms HC0)) as H. cbv zeta in H.
      unfold mbase in H. rewrite Es in H. cbn [fst] in H. destruct H as (HH & Ht & Hc & Hi).
      apply HC_intro_same with (ms := ms); [reflexivity|reflexivity|reflexivity|exact HF|exact HH| | |exact Hi|exact HC0].
      * intros id Hin. left. apply Ht. exact Hin.
      * intros id Ha. apply Hc. intros Hin. destruct (h_tick ms HC0 id Hin) as [_ Hn]. exact (Hn Ha).
    + assert (H : EFF (mbase ms) s').
      { pose proof (drain_kf cfg bl (mbase ms)) as Hk. unfold mbase in Hk. rewrite Es in Hk. cbn [fst] in Hk.
        split; [exact Hk|]. intros id Hin. left.
        assert (Ht : ticker s' = ticker (base (win ms))).
        { clear - Es. unfold drain in Es. destruct (consumer _); try (inversion Es; reflexivity).
          destruct (chan _) as [|[hs|] rest]; try (inversion Es; reflexivity).
          destruct (apply_batch _ hs bl) as [[l'| |] [|b t]]; try (inversion Es; reflexivity).
          destruct (consumer_run _); inversion Es; reflexivity. }
        rewrite Ht in Hin. exact Hin. }
      apply EFF_HC with (ms := ms); [exact HP|exact H|exact HF|reflexivity|reflexivity|reflexivity|exact HC0].
    + inversion Es; subst s'. apply EFF_HC with (ms := ms); [exact HP|apply EFF_same; reflexivity|exact HF|reflexivity|reflexivity|reflexivity|exact HC0].
    + inversion Es; subst s'. apply EFF_HC with (ms := ms); [exact HP|apply EFF_refl|exact HF|reflexivity|reflexivity|reflexivity|exact HC0].
  - destruct (_ || _); [inversion Ew; subst; exact Hsame|]. destruct (shut (base (win ms))); [inversion Ew; subst; exact Hsame|].
    pose proof (upsert_half1_kf cfg k v w ttl rm (mbase ms)) as Hk. unfold mbase in Hk.
    assert (Htk : match upsert_half1 cfg k v w ttl rm (base (win ms)) with
                  | inl (s', _) => ticker s' = ticker (base (win ms)) | inr (s', _) => ticker s' = ticker (base (win ms)) end).
    { unfold upsert_half1. destruct (alookup k (store (base (win ms)))); [|reflexivity].
      cbv zeta. destruct rm; [reflexivity|]. destruct ttl as [t|]; [destruct (calc_expiry _ t)|]; reflexivity. }
    destruct (upsert_half1 cfg k v w ttl rm (base (win ms))) as [[s' u]|[s' ret0]] eqn:Eh; inversion Ew; subst w' ret; clear Ew;
      cbn [base with_base] in *.
    + apply HC_frame2 with (ms := ms); [exact Hk|exact HF| |reflexivity| |reflexivity|exact HC0].
      * intros id Hin. left. cbn [mbase win base] in Hin. rewrite Htk in Hin. exact Hin.
      * intros t u0 Hl. cbn [win ups] in Hl. rewrite alookup_aset in Hl. destruct (t =? tid); [|left; exact Hl].
        injection Hl as <-. right. intros id o n Hr.
        unfold upsert_half1 in Eh. destruct (alookup k (store (base (win ms)))) as [e|] eqn:El; [|inversion Eh; subst; discriminate].
        cbv zeta in Eh.
        assert (Hid : id = e_id e).
        { destruct rm; [inversion Eh; subst; cbn in Hr; congruence|].
          destruct ttl as [t0|]; [destruct (calc_expiry _ t0)|]; inversion Eh; subst; cbn in Hr; congruence. }
        subst id. apply (stored_id_Used ms k (e_id e) (p_led ms HP) (p_si ms HP) (h_held ms HC0)).
        unfold idof, mbase. rewrite El. reflexivity.
    + apply EFF_HC with (ms := ms); [exact HP| |exact HF|reflexivity|reflexivity|reflexivity|exact HC0].
      split; [exact Hk|]. intros id Hin. left. cbn [mbase win base with_base] in Hin. rewrite Htk in Hin. exact Hin.
  - destruct (alookup tid (ups (win ms))) as [u|] eqn:Eu; [|inversion Ew; subst; exact Hsame].
    pose proof (upsert_half2_eff cfg tid u (mbase ms)) as [Hk Ht]. unfold mbase in Hk, Ht.
    destruct (upsert_half2 cfg tid u (base (win ms))) as [s' ret0]. inversion Ew; subst w' ret; clear Ew. cbn [fst base] in *.
    apply HC_frame2 with (ms := ms); [exact Hk|exact HF| |reflexivity| |reflexivity|exact HC0].
    + intros id Hin. destruct (Ht id Hin) as [H|(o & n & H)]; [left; exact H|right]. exact (h_ups ms HC0 tid u id o n Eu H).
    + intros t u0 Hl. left. cbn [win ups] in Hl. rewrite alookup_aremove in Hl. destruct (t =? tid); [discriminate|exact Hl].
  - cbn [mwin_enabled] in Hen. destruct (wdel ms) eqn:Hwd; [discriminate|].
    destruct (wpending (win ms)) eqn:Hwp; [inversion Ew; subst; exact Hsame|].
    pose proof (worker_half1_base cfg orc (mbase ms) Hd (p_led ms HP) (h_held ms HC0)) as H. unfold mbase in H.
    destruct (worker_half1 cfg orc (base (win ms))) as [[s' p]|[s' ret0]]; inversion Ew; subst w' ret; clear Ew; cbn [base with_base] in *.
    + destruct H as (HH & Ht & Ho).
      apply HC_intro_quiet with (ms := ms); [exact Hwd|first [exact Hwd|reflexivity]|reflexivity|exact HF|exact HH| | |exact HC0].
      * intros id Hin. left. cbn [mbase win base] in Hin. rewrite Ht in Hin. exact Hin.
      * intros p0 Hp. cbn [win wpending] in Hp. injection Hp as <-. right. exact Ho.
    + destruct (H Hnd) as [HH Ht].
      apply HC_intro_quiet with (ms := ms); [exact Hwd|first [exact Hwd|reflexivity]|reflexivity|exact HF|exact HH|exact Ht| |exact HC0].
      intros p Hp. cbn [win wpending with_base] in Hp. rewrite Hwp in Hp. discriminate.
  - destruct (wpending (win ms)) as [p|] eqn:Hwp; [|inversion Ew; subst; exact Hsame].
    destruct (p_x ms HP) as [Hwd|Hx]; [|congruence].
    unfold worker_half2 in Ew. inversion Ew; subst w' ret; clear Ew. cbn [base] in *.
    apply HC_intro_quiet with (ms := ms); [exact Hwd|first [exact Hwd|reflexivity]|reflexivity|exact HF| | | |exact HC0].
    + apply (Held_same (mbase ms)); try reflexivity. exact (h_held ms HC0).
    + intros id Hin. cbn [mbase win base] in Hin. unfold set_ack in Hin. sred. apply TIN_put in Hin.
      destruct Hin as [->|Hin]; [right|left; exact Hin].
      apply (Oldp_same (mbase ms)); try reflexivity. exact (h_wp ms HC0 p Hwp).
    + intros p0 Hp. discriminate.
Qed.

Lemma menter_HC : forall cfg ms tid r idxs, PRE ms -> HC ms ->
  shut (mbase (fst (menter cfg ms tid r idxs))) = false -> HC (fst (menter cfg ms tid r idxs)).
Proof.
  intros cfg ms tid r idxs HP HC0 Hs'.
  pose proof (micro_ids_flow_all cfg ms (MEnter tid r idxs)) as HF. cbn [mstep] in HF.
  unfold menter in *. destruct (negb (caller_free ms tid)); [exact HC0|]. cbv zeta in *.
  destruct (shut (mbase ms) || negb (micro_request r) || early_panic cfg r).
  - destruct (call_EFF cfg tid r idxs (mbase ms)) as [H|H];
      destruct (call cfg tid r idxs (mbase ms)) as [s' ret]; cbn [fst mbase with_mbase win with_base base] in *; [|congruence].
    apply EFF_HC with (ms := ms); [exact HP|exact H|exact HF|reflexivity|reflexivity|reflexivity|exact HC0].
  - destruct r; cbn [fst] in *;
      first [ exact HC0
            | discriminate Hs'
            | apply EFF_HC with (ms := ms); [exact HP|apply EFF_refl|exact HF|reflexivity|reflexivity|reflexivity|exact HC0] ].
Qed.

Lemma mstepc_HC : forall cfg ms tid idxs, PRE ms -> HC ms -> HC (fst (mstepc cfg ms tid idxs)).
Proof.
  intros cfg ms tid idxs HP HC0.
  pose proof (micro_ids_flow_all cfg ms (MStepC tid idxs)) as HF. cbn [mstep] in HF.
  unfold mstepc in *. cbv zeta in *.
  destruct (alookup tid (cps ms)) as [p|] eqn:Hp; [|exact HC0].
  assert (Hfr : forall ms', EFF (mbase ms) (mbase ms') -> FL (mbase ms) (mbase ms') ->
            wdel ms' = wdel ms -> ups (win ms') = ups (win ms) -> wpending (win ms') = wpending (win ms) -> HC ms').
  { intros ms' H1 H2 H3 H4 H5. apply EFF_HC with (ms := ms); assumption. }
  destruct p as [r|k v w ttl| |h obs|n].
  - destruct r as [k0 v|k0 v w|k0 v ttl|k0 v w ttl|k0 v w ttl rm|k0|k0|k0|k0|k0|ks|ks|ks| | |]; try exact HC0;
      try (unfold put_check in *; cbv zeta in *;
           repeat match goal with |- context [if ?b then _ else _] => destruct b end;
           apply Hfr; first [apply EFF_refl|exact HF|reflexivity]);
      try (unfold read_lookup in *; cbv zeta in *; destruct (lookup_alive _ _);
           apply Hfr; first [apply EFF_same; reflexivity|exact HF|reflexivity]).
    + (* put_or_update: the first half *)
      pose proof (upsert_half1_kf cfg k0 v w ttl rm (mbase ms)) as Hk.
      assert (Htk : match upsert_half1 cfg k0 v w ttl rm (mbase ms) with
                    | inl (s', _) => ticker s' = ticker (mbase ms) | inr (s', _) => ticker s' = ticker (mbase ms) end).
      { unfold upsert_half1. destruct (alookup k0 (store (mbase ms))); [|reflexivity].
        cbv zeta. destruct rm; [reflexivity|]. destruct ttl as [t|]; [destruct (calc_expiry _ t)|]; reflexivity. }
      destruct (upsert_half1 cfg k0 v w ttl rm (mbase ms)) as [[s' u]|[s' ret0]] eqn:Eh; cbn [fst] in *.
      * apply HC_frame2 with (ms := ms); [exact Hk|exact HF| |reflexivity| |reflexivity|exact HC0].
        -- intros id Hin. left. cbn [mbase win base] in Hin. rewrite Htk in Hin. exact Hin.
        -- intros t u0 Hl. cbn [win ups] in Hl. rewrite alookup_aset in Hl. destruct (t =? tid); [|left; exact Hl].
           injection Hl as <-. right. intros id o n Hr.
           unfold upsert_half1 in Eh. destruct (alookup k0 (store (mbase ms))) as [e|] eqn:El; [|inversion Eh; subst; discriminate].
           cbv zeta in Eh.
           assert (Hid : id = e_id e).
           { destruct rm; [inversion Eh; subst; cbn in Hr; congruence|].
             destruct ttl as [t0|]; [destruct (calc_expiry _ t0)|]; inversion Eh; subst; cbn in Hr; congruence. }
           subst id. apply (stored_id_Used ms k0 (e_id e) (p_led ms HP) (p_si ms HP) (h_held ms HC0)).
           unfold idof. rewrite El. reflexivity.
      * apply Hfr; try reflexivity; [|exact HF]. split; [exact Hk|]. intros id Hin. left.
        cbn [mbase end_cp win with_base base] in Hin. rewrite Htk in Hin. exact Hin.
    + (* delete: mark and park *)
      cbn [fst] in *. apply Hfr; try reflexivity; [|exact HF]. unfold park.
      split; [eapply kf_trans; [apply (soft_mark_kf k0 (mbase ms))|apply kf_store; reflexivity]|].
      intros id Hin. left. cbn [mbase set_cp win with_base base] in Hin. sred. unfold soft_mark in Hin.
      destruct (alookup k0 (store (mbase ms))); exact Hin.
    + unfold read_body in *. destruct (read_one cfg k0 idxs (mbase ms)) as [[[v0 s'] [|i l]]|] eqn:Hr; try exact HC0;
        try (apply Hfr; first [apply EFF_refl|exact HF|reflexivity]).
      cbn [fst] in *. apply Hfr; try reflexivity; [|exact HF].
      apply read_one_spec in Hr as ((Hst & Hw & _ & Ht & _) & _). apply EFF_same; assumption.
    + unfold read_body in *. destruct (read_one cfg k0 idxs (mbase ms)) as [[[v0 s'] [|i l]]|] eqn:Hr; try exact HC0;
        try (apply Hfr; first [apply EFF_refl|exact HF|reflexivity]).
      cbn [fst] in *. apply Hfr; try reflexivity; [|exact HF].
      apply read_one_spec in Hr as ((Hst & Hw & _ & Ht & _) & _). apply EFF_same; assumption.
  - cbn [fst] in *. apply Hfr; try reflexivity; [|exact HF]. apply EFF_same; reflexivity.
  - destruct (alookup tid (blocked (mbase ms))) as [[c| |]|] eqn:Hb; try exact HC0.
    pose proof (do_send_EFF cfg tid c (set_blocked (mbase ms) (aremove tid (blocked (mbase ms))))) as H.
    destruct (do_send cfg tid c (set_blocked (mbase ms) (aremove tid (blocked (mbase ms))))) as [s' ret].
    cbn [fst] in *. apply Hfr; try reflexivity; [|exact HF].
    eapply EFF_trans; [|exact H]. apply EFF_same; reflexivity.
  - destruct idxs as [|i [|j l]]; try exact HC0.
    destruct (pool_add cfg i h (mbase ms)) as [s'|] eqn:Hpa; [|exact HC0].
    cbn [fst] in *. apply Hfr; try reflexivity; [|exact HF].
    pose proof (ApiProofs.pool_add_frame cfg i h _ _ Hpa) as (Hst & Hw & _ & Ht & _). apply EFF_same; assumption.
  - exfalso. pose proof (p_ps ms HP tid n Hp) as H. rewrite (p_shut ms HP) in H. discriminate.
Qed.

Lemma Used_weaken : forall s adm id, Used s adm id -> Used s None id.
Proof. intros s adm id [H _]. split; [exact H|discriminate]. Qed.

Lemma mworker1_HC : forall cfg ms orc, c_debug cfg = true -> PRE ms -> HC ms ->
  shut (mbase (fst (mworker1 cfg ms orc))) = false -> worker (mbase (fst (mworker1 cfg ms orc))) <> Dead ->
  HC (fst (mworker1 cfg ms orc)).
Proof.
  intros cfg ms orc Hd HP HC0 Hs' Hnd.
  pose proof (micro_ids_flow_all cfg ms (MWorker1 orc)) as HF. cbn [mstep] in HF.
  unfold mworker1 in *. cbv zeta in *.
  destruct (wdel ms) eqn:Hwd; [exact HC0|].
  destruct (wpending (win ms)) eqn:Hwp; [exact HC0|].
  assert (Ha0 : adm_id ms = None) by (unfold adm_id; rewrite Hwd; reflexivity).
  assert (Hfall : forall (Hs2 : shut (mbase (fst (let '(w', ret) := wstep cfg (win ms) (WPut1 orc) in
                                   ({| win := w'; cps := cps ms; wdel := None |}, ret)))) = false)
                         (Hn2 : worker (mbase (fst (let '(w', ret) := wstep cfg (win ms) (WPut1 orc) in
                                   ({| win := w'; cps := cps ms; wdel := None |}, ret)))) <> Dead),
                  HC (fst (let '(w', ret) := wstep cfg (win ms) (WPut1 orc) in
                           ({| win := w'; cps := cps ms; wdel := None |}, ret)))).
  { intros Hs2 Hn2.
    assert (Hen : mwin_enabled ms (WPut1 orc) = true) by (cbn [mwin_enabled]; rewrite Hwd; reflexivity).
    pose proof (wstep_HC cfg ms (WPut1 orc) Hd HP HC0 Hen) as H. cbv zeta in H. rewrite Hwd in H.
    destruct (wstep cfg (win ms) (WPut1 orc)) as [w' ret]. cbn [fst] in *. apply H; assumption. }
  destruct (worker (mbase ms)) eqn:Hwk; try (apply Hfall; assumption).
  destruct (queue (mbase ms)) as [|[c a] q] eqn:Hq; [apply Hfall; assumption|].
  pose proof (p_led ms HP) as HL. pose proof (h_held ms HC0) as HH.
  destruct (pop_led (mbase ms) c a q HL Hq) as (HL0 & Hwok & Hfr).
  assert (HH0 : Held (set_queue (mbase ms) q)) by (apply (Held_same (mbase ms) _ eq_refl eq_refl HH)).
  assert (Hquiet : forall s1, FL (mbase ms) s1 -> Held s1 -> ticker s1 = ticker (mbase ms) -> HC (with_mbase ms s1)).
  { intros s1 F1 H1 T1. apply HC_intro_quiet with (ms := ms); [exact Hwd|exact Hwd|reflexivity|exact F1|exact H1| | |exact HC0].
    - intros id Hin. left. cbn [mbase with_mbase win with_base base] in Hin. rewrite T1 in Hin. exact Hin.
    - intros p Hp. cbn [with_mbase win wpending with_base] in Hp. rewrite Hwp in Hp. discriminate. }
  assert (Hput : forall k v id h w ttl, cmd_put_id c = Some id -> (cmd_weight_ok c -> 0 < w) ->
            shut (mbase (fst (mput1 cfg ms orc k v id h w ttl a q))) = false ->
            worker (mbase (fst (mput1 cfg ms orc k v id h w ttl a q))) <> Dead ->
            FL (mbase ms) (mbase (fst (mput1 cfg ms orc k v id h w ttl a q))) ->
            HC (fst (mput1 cfg ms orc k v id h w ttl a q))).
  { intros k v id h w ttl Hid Hwc Hs2 Hn2 HF2. unfold mput1 in *. cbv zeta in *.
    destruct (amem k (store (set_queue (mbase ms) q))).
    { cbn [fst] in *. apply Hquiet; [exact HF2|apply (Held_same _ _ eq_refl eq_refl HH0)|reflexivity]. }
    pose proof (admission_Held cfg orc k id h w (set_queue (mbase ms) q)) as Hadm.
    destruct (admission cfg orc k id h w (set_queue (mbase ms) q)) as [[r s1] vs] eqn:E.
    specialize (Hadm r s1 vs Hd HL0 HH0 (Hfr id Hid) (Hwc Hwok) eq_refl).
    pose proof (admission_ticker _ _ _ _ _ _ _ _ _ _ E) as Ht.
    pose proof (admission_frame _ _ _ _ _ _ _ _ _ _ E) as (_ & Fq & Fb & Fn & _).
    destruct r as [[| |rj|]|site|why]; cbn [fst] in *;
      try (apply Hquiet; [exact HF2|apply (Held_same s1 _ eq_refl eq_refl Hadm)|exact Ht]);
      try (exfalso; apply Hn2; reflexivity); try exact HC0.
    cbn [mbase win with_base base] in *.
    (* accepted: the id goes in flight *)
    destruct Hadm as [H1 H2].
    assert (Hold : Oldp s1 id).
    { apply (Oldp_same (set_queue (mbase ms) q)); sred; try congruence. eapply popped_Oldp; [exact HL|exact Hq|exact Hid]. }
    assert (Hin : In id (pids (mbase ms))).
    { unfold pids. apply in_put_ids. exists c. split; [|exact Hid].
      rewrite (pending_of (mbase ms) _ _ Hq eq_refl). left. reflexivity. }
    assert (Hne : forall id', Used (mbase ms) (adm_id ms) id' -> Used s1 (Some id) id').
    { intros id' [Ho _]. split; [eapply FL_oldp; [exact HF2|exact Ho]|]. intros E0. injection E0 as <-. exact (proj2 Ho Hin). }
    constructor; cbn [mbase win with_base base wdel ups wpending adm_id].
    - exact H1.
    - intros a0 k1 v1 id1 ttl1 obs1 E0. injection E0 as <- <- <- <- <- <-. split; [|exact Hold].
      eexists. split; [exact H2|reflexivity].
    - intros a0 id1 exp1 E0. discriminate.
    - intros id' Hi. rewrite Ht in Hi. apply Hne. exact (h_tick ms HC0 id' Hi).
    - intros t u id' o n Hl Hr. apply Hne. exact (h_ups ms HC0 t u id' o n Hl Hr).
    - intros p Hp. rewrite Hwp in Hp. discriminate. }
  destruct c as [k v id h w|k v id h w ttl|k|id w|]; try (apply Hfall; assumption).
  - apply Hput; try assumption; [reflexivity|intros H; exact H].
  - apply Hput; try assumption; [reflexivity|intros H; exact H].
  - destruct (alookup k (store (set_queue (mbase ms) q))) as [e|] eqn:El; cbn [fst] in *;
      [cbn [mbase win with_base base] in *|].
    + assert (Hu : forall id', Used (mbase ms) (adm_id ms) id' -> Used (store_delete k (set_queue (mbase ms) q)) None id').
      { intros id' H. rewrite Ha0 in H. eapply Used_FL; [exact HF|exact H]. }
      constructor; cbn [mbase win with_base base wdel ups wpending adm_id].
      * apply store_delete_Held. exact HH0.
      * intros a0 k1 v1 id1 ttl1 obs1 E0. discriminate.
      * intros a0 id1 exp1 E0. injection E0 as <- <- <-. apply (store_delete_no_id k e _ HH0 El).
      * intros id' Hi. apply Hu. apply (h_tick ms HC0). rewrite (proj1 (store_delete_frame k (set_queue (mbase ms) q))) in Hi. exact Hi.
      * intros t u id' o n Hl Hr. apply Hu. exact (h_ups ms HC0 t u id' o n Hl Hr).
      * intros p Hp. rewrite Hwp in Hp. discriminate.
    + apply Hquiet; [exact HF|apply (Held_same _ _ eq_refl eq_refl HH0)|reflexivity].
Qed.

Lemma mworker2_HC : forall cfg ms, c_debug cfg = true -> PRE ms -> HC ms ->
  shut (mbase (fst (mworker2 cfg ms))) = false -> worker (mbase (fst (mworker2 cfg ms))) <> Dead ->
  HC (fst (mworker2 cfg ms)).
Proof.
  intros cfg ms Hd HP HC0 Hs' Hnd.
  pose proof (micro_ids_flow_all cfg ms MWorker2) as HF. cbn [mstep] in HF.
  unfold mworker2 in *. cbv zeta in *.
  destruct (wdel ms) as [[a id exp|a id exp|a k v id ttl obs]|] eqn:Hwd.
  - (* Delete: the charge is released *)
    assert (Ha0 : adm_id ms = None) by (unfold adm_id; rewrite Hwd; reflexivity).
    pose proof (weights_delete_nohook_Held cfg id (mbase ms) (h_held ms HC0) (h_del ms HC0 a id exp Hwd)) as Hw.
    pose proof (weights_delete_frame cfg id false (mbase ms)) as Hf.
    destruct (weights_delete cfg id false (mbase ms)) as [s2|site s2|why]; cbn [fst mbase win with_base base] in *;
      [|exfalso; apply Hnd; reflexivity|exact HC0].
    destruct Hf as (Ft & _).
    assert (Hu : forall id', Used (mbase ms) (adm_id ms) id' -> Used s2 None id').
    { intros id' H. rewrite Ha0 in H. eapply Used_FL; [exact HF|exact H]. }
    constructor; cbn [mbase win with_base base wdel ups wpending adm_id].
    + exact Hw.
    + intros a0 k1 v1 id1 ttl1 obs1 E0. discriminate.
    + intros a0 id1 exp1 E0. discriminate.
    + intros id' Hi. apply Hu. apply (h_tick ms HC0). rewrite Ft in Hi. exact Hi.
    + intros t u id' o n Hl Hr. apply Hu. exact (h_ups ms HC0 t u id' o n Hl Hr).
    + intros p Hp. eapply FL_oldp; [exact HF|]. exact (h_wp ms HC0 p Hp).
  - (* Delete: index entry and acknowledgement *)
    assert (Ha0 : adm_id ms = None) by (unfold adm_id; rewrite Hwd; reflexivity).
    cbn [fst mbase win with_base base] in *.
    assert (Hu : forall s', FL (mbase ms) s' -> forall id', Used (mbase ms) (adm_id ms) id' -> Used s' None id').
    { intros s' F id' H. rewrite Ha0 in H. eapply Used_FL; [exact F|exact H]. }
    constructor; cbn [mbase win with_base base wdel ups wpending adm_id].
    + destruct exp; apply (Held_same (mbase ms)); try reflexivity; exact (h_held ms HC0).
    + intros a0 k1 v1 id1 ttl1 obs1 E0. discriminate.
    + intros a0 id1 exp1 E0. discriminate.
    + intros id' Hi. apply (Hu _ HF). apply (h_tick ms HC0). destruct exp; unfold set_ack in Hi; sred; [apply TIN_delete in Hi|]; exact Hi.
    + intros t u id' o n Hl Hr. apply (Hu _ HF). exact (h_ups ms HC0 t u id' o n Hl Hr).
    + intros p Hp. eapply FL_oldp; [exact HF|]. exact (h_wp ms HC0 p Hp).
  - (* put: the let in key is inserted *)
    destruct (h_adm ms HC0 a k v id ttl obs Hwd) as [(wk & Hwk & Hkk) Hold].
    destruct (p_x ms HP) as [Hx|Hwp]; [congruence|].
    assert (Ha0 : adm_id ms = Some id) by (unfold adm_id; rewrite Hwd; reflexivity).
    assert (Hu : forall s', FL (mbase ms) s' -> forall id', Used (mbase ms) (adm_id ms) id' -> Used s' None id').
    { intros s' F id' H. apply Used_weaken with (adm := adm_id ms). eapply Used_FL; [exact F|exact H]. }
    destruct ttl as [t|].
    + destruct (calc_expiry (now (mbase ms)) t) as [e|]; cbn [fst mbase win with_base base] in *; [|exfalso; apply Hnd; reflexivity].
      constructor; cbn [mbase win base wdel ups wpending adm_id].
      * apply (store_insert_Held k v id (Some e) (mbase ms) wk (h_held ms HC0) Hwk Hkk).
      * intros a0 k1 v1 id1 ttl1 obs1 E0. discriminate.
      * intros a0 id1 exp1 E0. discriminate.
      * intros id' Hi. apply (Hu _ HF). apply (h_tick ms HC0). exact Hi.
      * intros t0 u id' o n Hl Hr. apply (Hu _ HF). exact (h_ups ms HC0 t0 u id' o n Hl Hr).
      * intros p Hp. injection Hp as <-. cbn [p_id]. eapply FL_oldp; [exact HF|exact Hold].
    + cbn [fst mbase win with_base base] in *.
      constructor; cbn [mbase win with_base base wdel ups wpending adm_id].
      * apply (Held_same (store_insert k v id None (mbase ms))); try reflexivity.
        apply (store_insert_Held k v id None (mbase ms) wk (h_held ms HC0) Hwk Hkk).
      * intros a0 k1 v1 id1 ttl1 obs1 E0. discriminate.
      * intros a0 id1 exp1 E0. discriminate.
      * intros id' Hi. apply (Hu _ HF). apply (h_tick ms HC0). exact Hi.
      * intros t0 u id' o n Hl Hr. apply (Hu _ HF). exact (h_ups ms HC0 t0 u id' o n Hl Hr).
      * intros p Hp. rewrite Hwp in Hp. discriminate.
  - assert (Hen : mwin_enabled ms WPut2 = true) by reflexivity.
    pose proof (wstep_HC cfg ms WPut2 Hd HP HC0 Hen) as H. cbv zeta in H. rewrite Hwd in H.
    destruct (wstep cfg (win ms) WPut2) as [w' ret]. cbn [fst] in *. apply H; assumption.
Qed.

Lemma mstep_HC : forall cfg ms ev, c_debug cfg = true -> PRE ms -> HC ms ->
  shut (mbase (fst (mstep cfg ms ev))) = false -> worker (mbase (fst (mstep cfg ms ev))) <> Dead ->
  HC (fst (mstep cfg ms ev)).
Proof.
  intros cfg ms ev Hd HP HC0 Hs' Hnd. destruct ev as [e|tid r idxs|tid idxs|orc|]; cbn [mstep] in *.
  - destruct (mwin_enabled ms e) eqn:Hen; [|exact HC0].
    pose proof (wstep_HC cfg ms e Hd HP HC0 Hen) as H. cbv zeta in H.
    destruct (wstep cfg (win ms) e) as [w' ret]. cbn [fst] in *. apply H; assumption.
  - apply menter_HC; assumption.
  - apply mstepc_HC; assumption.
  - apply mworker1_HC; assumption.
  - apply mworker2_HC; assumption.
Qed.

(** ** all invariants together along a run *)
Record ALL (ms : mstate) : Prop := {
  all_led : worker (mbase ms) = Dead \/ MLed ms;
  all_msi : MSI ms;
  all_ack : MicroAck.MAInv ms;
  all_bs : BS (mbase ms);
  all_hc : shut (mbase ms) = true \/ worker (mbase ms) = Dead \/ HC ms
}.

Lemma ALL_init : forall cfg, ALL (minit cfg).
Proof.
  intros cfg. constructor.
  - right. apply mled_init.
  - apply MSI_init.
  - apply MicroAck.mainv_init.
  - intros tid k H. discriminate.
  - right; right. constructor; cbn.
    + intros k id H. discriminate.
    + intros a k v id ttl obs H. discriminate.
    + intros a id exp H. discriminate.
    + intros id (sh & e & H). unfold shard_entries in H. cbn in H. contradiction.
    + intros tid u id o n H. discriminate.
    + intros p H. discriminate.
Qed.

Lemma role_dead_dec : forall r : role, {r = Dead} + {r <> Dead}.
Proof. intros r. destruct r; first [left; reflexivity|right; discriminate]. Qed.

Lemma mstep_ALL : forall cfg ms ev, c_debug cfg = true -> ALL ms -> ALL (fst (mstep cfg ms ev)).
Proof.
  intros cfg ms ev Hd [A1 A2 A3 A4 A5].
  assert (Hdead : worker (mbase (fst (mstep cfg ms ev))) <> Dead -> worker (mbase ms) <> Dead).
  { intros Hn Hd0. apply Hn. apply mstep_dead. exact Hd0. }
  assert (Hshut : shut (mbase (fst (mstep cfg ms ev))) = false -> shut (mbase ms) = false).
  { intros Hs. destruct (shut (mbase ms)) eqn:E; [|reflexivity]. rewrite (micro_shut_stable_all cfg ms ev E) in Hs. discriminate. }
  constructor.
  - destruct (role_dead_dec (worker (mbase (fst (mstep cfg ms ev))))) as [E|E]; [left; exact E|right].
    destruct A1 as [A1|A1]; [exfalso; exact (Hdead E A1)|]. apply mstep_led; assumption.
  - apply mstep_MSI. exact A2.
  - apply MicroAck.mstep_mainv. exact A3.
  - eapply BS_BEFF; [apply micro_shut_stable_all|exact A4|apply mstep_BEFF; [exact A4|exact (msi_pshut ms A2)]].
  - destruct (shut (mbase (fst (mstep cfg ms ev)))) eqn:Es; [left; reflexivity|right].
    destruct (role_dead_dec (worker (mbase (fst (mstep cfg ms ev))))) as [E|E]; [left; exact E|right].
    pose proof (Hshut eq_refl) as Hs0. pose proof (Hdead E) as Hd0.
    destruct A5 as [A5|[A5|A5]]; [congruence|contradiction|].
    destruct A1 as [A1|A1]; [contradiction|].
    assert (HP : PRE ms).
    { constructor.
      - exact (ml_led ms A1).
      - destruct (msi_good ms A2) as [H|[H|H]]; [congruence|contradiction|exact H].
      - exact (proj2 A3).
      - exact A4.
      - exact (msi_pshut ms A2).
      - exact Hs0. }
    apply mstep_HC; assumption.
Qed.

Lemma ALL_run : forall cfg evs, c_debug cfg = true -> ALL (mrun cfg evs).
Proof.
  intros cfg evs Hd. unfold mrun, mrun_from.
  assert (H : forall ms, ALL ms -> ALL (fold_left (fun m ev => fst (mstep cfg m ev)) evs ms)).
  { induction evs as [|ev t IH]; intros ms HM; [exact HM|]. cbn [fold_left]. apply IH. apply mstep_ALL; assumption. }
  apply H. apply ALL_init.
Qed.

(* STATEMENT (C05, "no held key is uncharged", at every state of every micro schedule, no condition on the events): before
   shutdown() is called and while the worker has not panicked, every stored entry is charged under its own id for its own
   key - inside the windows of put_or_update, of the worker's put (between admission and store insert), put with
   time-to-live and Delete as well *)
Lemma micro_held_is_charged_all : forall cfg evs k e, c_debug cfg = true ->
  let ms := mrun cfg evs in
  shut (mbase ms) = false -> worker (mbase ms) <> Dead ->
  alookup k (store (mbase ms)) = Some e ->
  exists wk, alookup (e_id e) (weights (mbase ms)) = Some wk /\ w_key wk = k.
Proof.
  intros cfg evs k e Hd ms Hs Hn Hl. destruct (ALL_run cfg evs Hd) as [_ _ _ _ A5]. fold ms in A5.
  destruct A5 as [A5|[A5|A5]]; [congruence|contradiction|].
  apply (h_held ms A5 k (e_id e)). unfold idof. rewrite Hl. reflexivity.
Qed.

(* STATEMENT (C05 at every micro state: keys and charges correspond one to one, up to the one command in flight): under the
   same guard, distinct stored keys carry distinct ids, and the expiry index never lists the id of a put that is still
   pending or let in but not yet stored - so the sweeper can never release the charge of a key that is about to be inserted *)
Lemma micro_store_ids_distinct_all : forall cfg evs k1 k2 e1 e2, c_debug cfg = true ->
  let ms := mrun cfg evs in
  shut (mbase ms) = false -> worker (mbase ms) <> Dead ->
  alookup k1 (store (mbase ms)) = Some e1 -> alookup k2 (store (mbase ms)) = Some e2 -> e_id e1 = e_id e2 -> k1 = k2.
Proof.
  intros cfg evs k1 k2 e1 e2 Hd ms Hs Hn H1 H2 He.
  destruct (micro_held_is_charged_all cfg evs k1 e1 Hd Hs Hn H1) as (wk1 & Hw1 & Hk1).
  destruct (micro_held_is_charged_all cfg evs k2 e2 Hd Hs Hn H2) as (wk2 & Hw2 & Hk2).
  fold ms in Hw1, Hw2. rewrite He in Hw1. congruence.
Qed.

(* STATEMENT (why the insert after admission finds its charge): under the same guard, the expiry index (as the sweeper reads it)
   only lists ids that have been used - below the id counter, not carried by any pending put, and not the id the worker has
   let in but not yet stored - so a sweep can never release the charge of a key that is about to be inserted *)
Lemma micro_index_lists_used_ids_all : forall cfg evs id, c_debug cfg = true ->
  let ms := mrun cfg evs in
  shut (mbase ms) = false -> worker (mbase ms) <> Dead -> TIN (ticker (mbase ms)) id ->
  id < next_id (mbase ms) /\ ~ In id (put_ids (pending_cmds (mbase ms))) /\ adm_id ms <> Some id.
Proof.
  intros cfg evs id Hd ms Hs Hn Hin. destruct (ALL_run cfg evs Hd) as [_ _ _ _ A5]. fold ms in A5.
  destruct A5 as [A5|[A5|A5]]; [congruence|contradiction|].
  destruct (h_tick ms A5 id Hin) as [[H1 H2] H3]. repeat split; assumption.
Qed.

From CacheD.proofs Require MicroProofs.

(** non-vacuity: key 1 stored and charged, key 2 let in and charged but not yet stored *)
Example held_with_put_in_flight_witness :
  let evs := [MEnter 0 (RPutW 1 10 5) []; MStepC 0 []; MStepC 0 []; MStepC 0 []; MWorker1 MicroProofs.orc0; MWorker2;
              MEnter 0 (RPutW 2 20 6) []; MStepC 0 []; MStepC 0 []; MStepC 0 []; MWorker1 MicroProofs.orc0] in
  let ms := mrun MicroProofs.mcfg evs in
  shut (mbase ms) = false /\ worker (mbase ms) = Alive /\ map fst (store (mbase ms)) = [1] /\
  map fst (weights (mbase ms)) = [2; 1] /\ adm_id ms = Some 2.
Proof. vm_compute. repeat split; reflexivity. Qed.
