(** What each API call and each worker command does to one key: C04 (delete), C07 (put), C08 (put_or_update),
    C09 (expiry).  Mostly unfoldings of Model.v, stated so that the properties can be read off. *)
From CacheD.proofs Require Import Defs.
From Coq Require Import ZifyBool.

(** * Helpers: association lists *)

Lemma alookup_aremove_eq : forall (A : Type) k (l : list (Z * A)), alookup k (aremove k l) = None.
Proof.
  intros A k l. induction l as [|[k' v] t IH]; cbn [aremove alookup]; [reflexivity|].
  destruct (k =? k') eqn:E; [exact IH|]. cbn [alookup]. rewrite E. exact IH.
Qed.

Lemma alookup_aremove_neq : forall (A : Type) k k' (l : list (Z * A)), k <> k' -> alookup k (aremove k' l) = alookup k l.
Proof.
  intros A k k' l Hne. induction l as [|[k0 v] t IH]; cbn [aremove alookup]; [reflexivity|].
  destruct (k' =? k0) eqn:E.
  - destruct (k =? k0) eqn:E2; [lia|exact IH].
  - cbn [alookup]. destruct (k =? k0); [reflexivity|exact IH].
Qed.

Lemma alookup_aset_eq : forall (A : Type) k (v : A) l, alookup k (aset k v l) = Some v.
Proof. intros A k v l. unfold aset. cbn [alookup]. rewrite Z.eqb_refl. reflexivity. Qed.

Lemma alookup_aset_neq : forall (A : Type) k k' (v : A) l, k <> k' -> alookup k (aset k' v l) = alookup k l.
Proof.
  intros A k k' v l Hne. unfold aset. cbn [alookup].
  destruct (k =? k') eqn:E; [lia|]. apply alookup_aremove_neq; assumption.
Qed.

Lemma alookup_aremove_shrink : forall (A : Type) k k' (l : list (Z * A)),
  alookup k (aremove k' l) = alookup k l \/ alookup k (aremove k' l) = None.
Proof.
  intros A k k' l. destruct (Z.eq_dec k k') as [->|Hne].
  - right. apply alookup_aremove_eq.
  - left. apply alookup_aremove_neq; assumption.
Qed.

Lemma amem_true_iff : forall (A : Type) k (l : list (Z * A)), amem k l = true <-> alookup k l <> None.
Proof. intros A k l. unfold amem. destruct (alookup k l); split; congruence. Qed.

Lemma amem_false_iff : forall (A : Type) k (l : list (Z * A)), amem k l = false <-> alookup k l = None.
Proof. intros A k l. unfold amem. destruct (alookup k l); split; congruence. Qed.

Lemma shard_entries_aset_eq : forall sh x tk, shard_entries (aset sh x tk) sh = x.
Proof. intros sh x tk. unfold shard_entries. rewrite alookup_aset_eq. reflexivity. Qed.

(** * Helpers: record projections *)

Ltac sred :=
  cbn [store weights used ticker queue acks lfu pool chan st now next_id next_ack shut consumer_run sweeper_run
       worker sweeper consumer blocked
       set_store set_weights set_used set_ticker set_queue set_acks set_lfu set_pool set_chan set_st set_now
       set_next_id set_next_ack set_shut set_consumer_run set_sweeper_run set_worker set_sweeper set_consumer
       set_blocked upd_st set_ack store_insert fst snd] in *.

Lemma weight_calc_pos : forall kind k v ttl, 0 < weight_calc kind k v ttl.
Proof.
  intros kind k v ttl. unfold weight_calc.
  destruct (kind =? 0); [destruct ttl; lia|].
  pose proof (Z.mod_pos_bound v 5 ltac:(lia)) as Hm. destruct ttl; lia.
Qed.

(** the fields the worker's helpers leave alone; the store only shrinks *)
Definition store_shrinks (s s' : state) : Prop :=
  forall k, alookup k (store s') = alookup k (store s) \/ alookup k (store s') = None.

Definition wframe (s s' : state) : Prop :=
  now s' = now s /\ acks s' = acks s /\ queue s' = queue s /\ worker s' = worker s /\ store_shrinks s s'.

Lemma store_shrinks_refl : forall s, store_shrinks s s.
Proof. intros s k. left; reflexivity. Qed.

Lemma store_shrinks_eq : forall s s', store s' = store s -> store_shrinks s s'.
Proof. intros s s' H k. rewrite H. left; reflexivity. Qed.

Lemma store_shrinks_trans : forall s1 s2 s3, store_shrinks s1 s2 -> store_shrinks s2 s3 -> store_shrinks s1 s3.
Proof.
  intros s1 s2 s3 H12 H23 k. destruct (H23 k) as [H|H]; [|right; exact H].
  rewrite H. apply H12.
Qed.

Lemma wframe_refl : forall s, wframe s s.
Proof. intros s. unfold wframe. repeat split. apply store_shrinks_refl. Qed.

Lemma wframe_trans : forall s1 s2 s3, wframe s1 s2 -> wframe s2 s3 -> wframe s1 s3.
Proof.
  intros s1 s2 s3 (A1 & A2 & A3 & A4 & A5) (B1 & B2 & B3 & B4 & B5). unfold wframe.
  repeat split; try congruence. eapply store_shrinks_trans; eassumption.
Qed.

Lemma store_delete_wframe : forall k s, wframe s (store_delete k s).
Proof.
  intros k s. unfold store_delete. destruct (alookup k (store s)) eqn:E; [|apply wframe_refl].
  unfold wframe; sred. repeat split. intros k0. apply alookup_aremove_shrink.
Qed.

Lemma store_delete_fields : forall k s,
  weights (store_delete k s) = weights s /\ used (store_delete k s) = used s /\ ticker (store_delete k s) = ticker s /\
  acks (store_delete k s) = acks s /\ queue (store_delete k s) = queue s /\ now (store_delete k s) = now s /\
  worker (store_delete k s) = worker s.
Proof.
  intros k s. unfold store_delete. destruct (alookup k (store s)); sred; repeat split.
Qed.

Lemma store_delete_lookup_eq : forall k s, alookup k (store (store_delete k s)) = None.
Proof.
  intros k s. unfold store_delete. destruct (alookup k (store s)) eqn:E; [|exact E].
  sred. apply alookup_aremove_eq.
Qed.

Lemma store_delete_lookup_neq : forall k k' s, k' <> k -> alookup k' (store (store_delete k s)) = alookup k' (store s).
Proof.
  intros k k' s Hne. unfold store_delete. destruct (alookup k (store s)) eqn:E; [|reflexivity].
  sred. apply alookup_aremove_neq; assumption.
Qed.

Lemma weights_delete_wframe : forall cfg id hook s,
  match weights_delete cfg id hook s with
  | Ok s' => wframe s s'
  | Panic _ s' => wframe s s'
  | Inadmissible _ => False
  end.
Proof.
  intros cfg id hook s. unfold weights_delete.
  destruct (alookup id (weights s)) as [wk|] eqn:E; [|apply wframe_refl].
  destruct (add_i64 cfg _ _) as [u|] eqn:Ea.
  - destruct hook.
    + set (s2 := set_used (set_weights s (aremove id (weights s))) u).
      apply wframe_trans with (s2 := store_delete (w_key wk) s2).
      * apply wframe_trans with (s2 := s2); [|apply store_delete_wframe].
        unfold wframe, s2; sred. repeat split. apply store_shrinks_eq; reflexivity.
      * unfold wframe; sred. repeat split. apply store_shrinks_eq; reflexivity.
    + unfold wframe; sred. repeat split. apply store_shrinks_eq; reflexivity.
  - unfold wframe; sred. repeat split. apply store_shrinks_eq; reflexivity.
Qed.

Lemma weights_delete_nohook_store : forall cfg id s,
  match weights_delete cfg id false s with
  | Ok s' => store s' = store s
  | Panic _ s' => store s' = store s
  | Inadmissible _ => False
  end.
Proof.
  intros cfg id s. unfold weights_delete.
  destruct (alookup id (weights s)) as [wk|] eqn:E; [|reflexivity].
  destruct (add_i64 cfg _ _) as [u|] eqn:Ea; sred; reflexivity.
Qed.

Lemma weights_add_wframe : forall cfg k id h w s,
  match weights_add cfg k id h w s with
  | Ok s' => wframe s s' /\ store s' = store s
  | Panic _ s' => wframe s s' /\ store s' = store s
  | Inadmissible _ => False
  end.
Proof.
  intros cfg k id h w s. unfold weights_add.
  destruct (add_i64 cfg _ _) as [u|] eqn:Ea; unfold wframe; sred; repeat split; apply store_shrinks_eq; reflexivity.
Qed.

Lemma weights_update_fields : forall cfg id w s,
  match weights_update cfg id w s with
  | Ok s' => store s' = store s /\ acks s' = acks s
  | Panic _ s' => store s' = store s /\ acks s' = acks s
  | Inadmissible _ => False
  end.
Proof.
  intros cfg id w s. unfold weights_update.
  destruct (alookup id (weights s)) as [wk|] eqn:E; [|split; reflexivity].
  destruct (add_i64 cfg _ _) as [u|] eqn:Ea; sred; split; reflexivity.
Qed.

Lemma create_space_loop_wframe : forall fuel cfg est inc_freq w orders pops sm space s victims r s' vs,
  create_space_loop fuel cfg est inc_freq w orders pops sm space s victims = (r, s', vs) -> wframe s s'.
Proof.
  induction fuel as [|fuel IH]; intros cfg est inc_freq w orders pops sm space s victims r s' vs H;
    cbn [create_space_loop] in H.
  - inversion H; subst. apply wframe_refl.
  - destruct (w <=? space) eqn:E1; [inversion H; subst; apply wframe_refl|].
    destruct pops as [|p pops']; [inversion H; subst; apply wframe_refl|].
    destruct (p =? -1) eqn:E2.
    { destruct sm as [|x0 sm0]; [|inversion H; subst; apply wframe_refl].
      destruct (w <=? c_max cfg - used s); inversion H; subst; apply wframe_refl. }
    destruct (sample_find p sm) as [x|] eqn:E3; [|inversion H; subst; apply wframe_refl].
    destruct (negb (is_max x sm)) eqn:E4; [inversion H; subst; apply wframe_refl|].
    destruct (inc_freq <? sk_freq x) eqn:E5; [inversion H; subst; apply wframe_refl|].
    pose proof (weights_delete_wframe cfg p true s) as Hwd.
    destruct (weights_delete cfg p true s) as [s1|site s1|why] eqn:E6.
    + destruct orders as [|order orders']; [inversion H; subst; exact Hwd|].
      destruct (sample_fill est (weights s1) order (sample_remove p sm)) as [sm'|] eqn:E7;
        [|inversion H; subst; exact Hwd].
      eapply wframe_trans; [exact Hwd|]. eapply IH; exact H.
    + inversion H; subst; exact Hwd.
    + inversion H; subst; apply wframe_refl.
Qed.

Definition admission_status_ok (x : status) : Prop :=
  x = Accepted \/ x = Rejected TooHeavy \/ x = Rejected NoSpace.

Lemma admission_wframe : forall cfg orc k id h w s r s' vs,
  admission cfg orc k id h w s = (r, s', vs) ->
  wframe s s' /\ (forall x, r = AdStatus x -> admission_status_ok x).
Proof.
  intros cfg orc k id h w s r s' vs H. unfold admission in H. unfold admission_status_ok.
  destruct (c_max cfg <? w) eqn:E0.
  { inversion H; subst. split; [apply wframe_refl|]. intros x Hx; inversion Hx; subst; auto. }
  destruct (w <=? c_max cfg - used s) eqn:E1.
  { pose proof (weights_add_wframe cfg k id h w s) as Hwa.
    destruct (weights_add cfg k id h w s) as [s1|site s1|why] eqn:E2; inversion H; subst.
    - split; [apply Hwa|]. intros x Hx; inversion Hx; subst; auto.
    - split; [apply Hwa|]. intros x Hx; discriminate.
    - split; [apply wframe_refl|]. intros x Hx; discriminate. }
  destruct (negb (bloom_admissible _ _)) eqn:E2.
  { inversion H; subst. split; [apply wframe_refl|]. intros x Hx; discriminate. }
  destruct (est_panics (lfu s)) eqn:E3.
  { inversion H; subst. split; [apply wframe_refl|]. intros x Hx; discriminate. }
  destruct (o_orders orc) as [|order0 orders] eqn:E4.
  { inversion H; subst. split; [apply wframe_refl|]. intros x Hx; discriminate. }
  destruct (negb (Nat.leb (length order0) sample_size)) eqn:E5.
  { inversion H; subst. split; [apply wframe_refl|]. intros x Hx; discriminate. }
  destruct (sample_fill _ (weights s) order0 []) as [sm0|] eqn:E6.
  2:{ inversion H; subst. split; [apply wframe_refl|]. intros x Hx; discriminate. }
  destruct (create_space_loop _ cfg _ _ w orders (o_pops orc) sm0 _ s []) as [[sr s1] vs1] eqn:E7.
  assert (Hcs : wframe s s1) by (eapply create_space_loop_wframe; exact E7).
  destruct sr as [| |site|why].
  - pose proof (weights_add_wframe cfg k id h w s1) as Hwa.
    destruct (weights_add cfg k id h w s1) as [s2|site s2|why] eqn:E8; inversion H; subst.
    + split; [eapply wframe_trans; [exact Hcs|apply Hwa]|]. intros x Hx; inversion Hx; subst; auto.
    + split; [eapply wframe_trans; [exact Hcs|apply Hwa]|]. intros x Hx; discriminate.
    + split; [exact Hcs|]. intros x Hx; discriminate.
  - inversion H; subst. split; [exact Hcs|]. intros x Hx; inversion Hx; subst; auto.
  - inversion H; subst. split; [exact Hcs|]. intros x Hx; discriminate.
  - inversion H; subst. split; [exact Hcs|]. intros x Hx; discriminate.
Qed.

(** * Reads and expiry (C09, C02) *)

(* STATEMENT: a key is served iff it is stored, not soft-deleted, and the clock is not past its expiry *)
Lemma lookup_alive_spec : forall k s e,
  lookup_alive k s = Some e <->
  alookup k (store s) = Some e /\ e_soft e = false /\ (forall t, e_exp e = Some t -> now s <= t).
Proof.
  intros k s e. unfold lookup_alive, is_alive, has_passed.
  destruct (alookup k (store s)) as [e0|] eqn:Hl.
  - destruct (e_soft e0) eqn:Hs.
    + split; [discriminate|]. intros (H1 & H2 & _). assert (e0 = e) by congruence; subst e0. congruence.
    + destruct (e_exp e0) as [t|] eqn:He.
      * destruct (t <? now s) eqn:Hlt; cbn [negb].
        -- split; [discriminate|]. intros (H1 & H2 & H3). assert (e0 = e) by congruence; subst e0.
           specialize (H3 t He). lia.
        -- split.
           ++ intros H. assert (e0 = e) by congruence; subst e0. split; [reflexivity|]. split; [assumption|].
              intros t0 Ht0. assert (t0 = t) by congruence. subst t0. lia.
           ++ intros (H1 & _). exact H1.
      * split.
        -- intros H. assert (e0 = e) by congruence; subst e0. split; [reflexivity|]. split; [assumption|].
           intros t0 Ht0. congruence.
        -- intros (H1 & _). exact H1.
  - split; [discriminate|]. intros (H1 & _); discriminate.
Qed.

(* STATEMENT: never served after expiry *)
Lemma lookup_alive_expired : forall k s e t,
  alookup k (store s) = Some e -> e_exp e = Some t -> t < now s -> lookup_alive k s = None.
Proof.
  intros k s e t Hl He Hlt. unfold lookup_alive, is_alive, has_passed. rewrite Hl, He.
  destruct (e_soft e); [reflexivity|]. destruct (t <? now s) eqn:E; [reflexivity|lia].
Qed.

(* STATEMENT: keys without a time-to-live never expire *)
Lemma lookup_alive_no_ttl : forall k s e,
  alookup k (store s) = Some e -> e_exp e = None -> e_soft e = false -> lookup_alive k s = Some e.
Proof.
  intros k s e Hl He Hs. unfold lookup_alive, is_alive. rewrite Hl, Hs, He. reflexivity.
Qed.

(** fields a read never touches *)
Definition read_frame (s s' : state) : Prop :=
  store s' = store s /\ weights s' = weights s /\ used s' = used s /\ ticker s' = ticker s /\ queue s' = queue s /\
  acks s' = acks s /\ lfu s' = lfu s /\ now s' = now s /\ next_id s' = next_id s /\ next_ack s' = next_ack s /\
  shut s' = shut s /\ worker s' = worker s /\ sweeper s' = sweeper s /\ consumer s' = consumer s /\ blocked s' = blocked s.

Lemma read_frame_refl : forall s, read_frame s s.
Proof. intros s. unfold read_frame. repeat split. Qed.

Lemma read_frame_trans : forall s1 s2 s3, read_frame s1 s2 -> read_frame s2 s3 -> read_frame s1 s3.
Proof.
  intros s1 s2 s3 H12 H23. unfold read_frame in *.
  repeat match goal with H : _ /\ _ |- _ => destruct H end.
  repeat split; congruence.
Qed.

Lemma accept_batch_frame : forall hs s, read_frame s (accept_batch hs s).
Proof.
  intros hs s. unfold accept_batch.
  destruct (consumer s); [destruct (_ <? chan_capacity)|..]; unfold read_frame; sred; repeat split.
Qed.

Lemma pool_add_frame : forall cfg i h s s', pool_add cfg i h s = Some s' -> read_frame s s'.
Proof.
  intros cfg i h s s' H. unfold pool_add in H.
  destruct ((i <? 0) || (c_pool cfg <=? i)); [discriminate|].
  destruct (nth_error (pool s) (Z.to_nat i)) as [buf|]; [|discriminate].
  destruct (c_buffer cfg <=? Z.of_nat (length buf)); inversion H; subst.
  - apply read_frame_trans with (s2 := accept_batch buf s); [apply accept_batch_frame|].
    unfold read_frame; sred; repeat split.
  - unfold read_frame; sred; repeat split.
Qed.

(* STATEMENT: one lookup: the value of the live entry or absent; exactly one of hit / miss; on a hit exactly one
   access record goes to the pool *)
Lemma read_one_spec : forall cfg k idxs s v s' idxs',
  read_one cfg k idxs s = Some (v, s', idxs') ->
  read_frame s s' /\
  ((lookup_alive k s = None /\ v = -1 /\ s' = upd_st add_misses 1 s /\ idxs' = idxs) \/
   (exists e i, lookup_alive k s = Some e /\ v = e_val e /\ idxs = i :: idxs' /\
                pool_add cfg i (key_hash (c_hash cfg) k) (upd_st add_hits 1 s) = Some s')).
Proof.
  intros cfg k idxs s v s' idxs' H. unfold read_one in H.
  destruct (lookup_alive k s) as [e|] eqn:El.
  - destruct idxs as [|i idxs0]; [discriminate|].
    destruct (pool_add cfg i (key_hash (c_hash cfg) k) (upd_st add_hits 1 s)) as [s1|] eqn:Ep; [|discriminate].
    inversion H; subst. split.
    + apply read_frame_trans with (s2 := upd_st add_hits 1 s).
      * unfold read_frame; sred; repeat split.
      * eapply pool_add_frame; exact Ep.
    + right. exists e, i. split; [reflexivity|]. split; [reflexivity|]. split; [reflexivity|]. exact Ep.
  - inversion H; subst. split; [unfold read_frame; sred; repeat split|].
    left. split; [reflexivity|]. split; [reflexivity|]. split; reflexivity.
Qed.

(** the value a read of [k] yields in state [s] *)
Definition served (k : Z) (s : state) : Z := match lookup_alive k s with Some e => e_val e | None => -1 end.

Lemma served_frame : forall k s s', read_frame s s' -> served k s' = served k s.
Proof.
  intros k s s' (Hst & _ & _ & _ & _ & _ & _ & Hn & _). unfold served, lookup_alive. rewrite Hst, Hn. reflexivity.
Qed.

Lemma read_one_served : forall cfg k idxs s v s' idxs',
  read_one cfg k idxs s = Some (v, s', idxs') -> v = served k s.
Proof.
  intros cfg k idxs s v s' idxs' H. apply read_one_spec in H as (_ & Hv). unfold served.
  destruct Hv as [(Hl & Hv & _)|(e & i & Hl & Hv & _)]; rewrite Hl; exact Hv.
Qed.

(* STATEMENT: multi_get and both iterators are the map of get over one and the same store *)
Lemma read_many_spec : forall cfg ks idxs s vs s' idxs',
  read_many cfg ks idxs s = Some (vs, s', idxs') ->
  read_frame s s' /\ vs = map (fun k => served k s) ks.
Proof.
  intros cfg ks. induction ks as [|k t IH]; intros idxs s vs s' idxs' H; cbn [read_many] in H.
  - inversion H; subst. split; [apply read_frame_refl|reflexivity].
  - destruct (read_one cfg k idxs s) as [[[v s1] idxs1]|] eqn:E1; [|discriminate].
    destruct (read_many cfg t idxs1 s1) as [[[vs2 s2] idxs2]|] eqn:E2; [|discriminate].
    inversion H; subst.
    pose proof (read_one_served _ _ _ _ _ _ _ E1) as Hv.
    apply read_one_spec in E1 as (F1 & _). apply IH in E2 as (F2 & Hvs).
    split; [eapply read_frame_trans; eassumption|]. cbn [map]. f_equal; [exact Hv|].
    rewrite Hvs. apply map_ext. intros k0. apply served_frame; exact F1.
Qed.

(* STATEMENT: all read variants agree: each returns [served k s] (the map variants through the map function),
   and absent / empty once the cache is shutting down *)
Lemma read_variants_agree : forall cfg tid k idxs s,
  amem tid (blocked s) = false ->
  forall s1 r1, call cfg tid (RGet k) idxs s = (s1, r1) -> r1 <> [7] ->
  call cfg tid (RGetRef k) idxs s = (s1, r1) /\
  (shut s = true -> r1 = [5] /\ s1 = s) /\
  (shut s = false -> r1 = (if served k s =? -1 then [5] else [5; served k s]) /\
     call cfg tid (RMapGet k) idxs s = (s1, if served k s =? -1 then [5] else [5; mapped (served k s)]) /\
     call cfg tid (RMapGetRef k) idxs s = (s1, if served k s =? -1 then [5] else [5; mapped (served k s)]) /\
     call cfg tid (RMultiGet [k]) idxs s = (s1, [5; served k s]) /\
     call cfg tid (RMultiIter [k]) idxs s = (s1, [5; served k s]) /\
     call cfg tid (RMultiMapIter [k]) idxs s = (s1, [5; mapped (served k s)])).
Proof.
  intros cfg tid k idxs s Hb s1 r1 H Hne.
  unfold call in H |- *. rewrite Hb in H |- *. cbv beta iota in H |- *.
  destruct (shut s) eqn:Hsh.
  - inversion H; subst. split; [reflexivity|]. split; [intros _; split; reflexivity|discriminate].
  - destruct (read_one cfg k idxs s) as [[[v s2] idxs2]|] eqn:E; [|inversion H; subst; congruence].
    destruct idxs2 as [|i2 idxs2]; [|inversion H; subst; congruence].
    pose proof (read_one_served _ _ _ _ _ _ _ E) as Hv. subst v.
    inversion H; subst s1 r1. split; [reflexivity|]. split; [discriminate|]. intros _.
    cbn [read_many]. rewrite E. cbv beta iota. cbn [map].
    repeat split; reflexivity.
Qed.

(* STATEMENT: reads use "now > expiry", the sweeper removes "expiry < now": a key that is served is not sweepable *)
Lemma boundary_agrees_with_sweeper : forall now_ e t,
  e_exp e = Some t -> e_soft e = false -> is_alive now_ e = negb (t <? now_).
Proof.
  intros now_ e t He Hs. unfold is_alive, has_passed. rewrite Hs, He. reflexivity.
Qed.

(** * put (C07) *)

(** what a send leaves alone *)
Definition send_frame (s s' : state) : Prop :=
  store s' = store s /\ weights s' = weights s /\ used s' = used s /\ ticker s' = ticker s /\ st s' = st s /\
  now s' = now s.

Lemma do_send_spec : forall cfg tid c s s' ret, do_send cfg tid c s = (s', ret) ->
  send_frame s s' /\ (ret = [2] \/ ret = [0; next_ack s] \/ ret = [3; 0]).
Proof.
  intros cfg tid c s s' ret H. unfold do_send in H.
  destruct (worker s); [destruct (_ <? c_queue cfg)|..]; inversion H; subst; unfold send_frame; sred;
    (split; [repeat split|auto]).
Qed.

Lemma do_send_alive : forall cfg tid c s s' ret,
  worker s = Alive -> Z.of_nat (length (queue s)) < c_queue cfg -> do_send cfg tid c s = (s', ret) ->
  ret = [0; next_ack s] /\ queue s' = queue s ++ [(c, next_ack s)].
Proof.
  intros cfg tid c s s' ret Hw Hq H. unfold do_send in H. rewrite Hw in H.
  destruct (Z.of_nat (length (queue s)) <? c_queue cfg) eqn:E; [|lia].
  inversion H; subst; sred. split; reflexivity.
Qed.

Lemma call_put_spec : forall cfg tid k v w ttl s s' ret,
  call_put cfg tid k v w ttl s = (s', ret) ->
  send_frame s s' /\ (alookup k (store s) = None -> ret <> [1; status_code (Rejected KeyAlreadyExists)]).
Proof.
  intros cfg tid k v w ttl s s' ret H. unfold call_put in H.
  destruct (w <=? 0).
  { inversion H; subst. split; [unfold send_frame; repeat split|]. intros _; discriminate. }
  destruct (amem k (store s)) eqn:Em.
  { inversion H; subst. split; [unfold send_frame; repeat split|].
    intros Hn. apply amem_false_iff in Hn. congruence. }
  assert (Hs : send_frame s s' /\ (ret = [2] \/ ret = [0; next_ack s] \/ ret = [3; 0])).
  { destruct ttl as [t|]; apply do_send_spec in H as (F & R); sred; (split; [exact F|exact R]). }
  destruct Hs as (F & R). split; [exact F|]. intros _.
  destruct R as [->|[->| ->]]; discriminate.
Qed.

Definition is_put_request (r : request) (k : Z) : Prop :=
  (exists v, r = RPut k v) \/ (exists v w, r = RPutW k v w) \/ (exists v ttl, r = RPutTTL k v ttl) \/
  (exists v w ttl, r = RPutWTTL k v w ttl).

(* STATEMENT: a put (any variant) of a key that is physically present — in particular of a readable key — is
   answered on the spot with Rejected(KeyAlreadyExists) and changes nothing *)
Lemma put_present_rejected_unchanged : forall cfg tid r k idxs s e,
  wf_config cfg -> is_put_request r k -> valid_request r ->
  alookup k (store s) = Some e -> shut s = false -> amem tid (blocked s) = false ->
  call cfg tid r idxs s = (s, [1; status_code (Rejected KeyAlreadyExists)]).
Proof.
  intros cfg tid r k idxs s e Hwf Hput Hval Hl Hsh Hb.
  assert (Hm : amem k (store s) = true) by (apply amem_true_iff; congruence).
  assert (Hcp : forall v w ttl, 0 < w ->
            call_put cfg tid k v w ttl s = (s, [1; status_code (Rejected KeyAlreadyExists)])).
  { intros v w ttl Hw. unfold call_put. destruct (w <=? 0) eqn:E; [lia|]. rewrite Hm. reflexivity. }
  unfold call. rewrite Hb.
  destruct Hput as [(v & ->)|[(v & w & ->)|[(v & ttl & ->)|(v & w & ttl & ->)]]];
    cbn [valid_request] in Hval; cbv beta iota zeta.
  - pose proof (weight_calc_pos (c_wcalc cfg) k v false) as Hp.
    destruct (weight_calc (c_wcalc cfg) k v false <=? 0) eqn:E; [lia|]. rewrite Hsh. apply Hcp; exact Hp.
  - rewrite Hsh. apply Hcp; exact Hval.
  - rewrite Hsh. apply Hcp. apply weight_calc_pos.
  - rewrite Hsh. apply Hcp. apply Hval.
Qed.

(* STATEMENT: a put of a physically absent key is never answered with KeyAlreadyExists on the spot *)
Lemma put_absent_not_rejected_on_the_spot : forall cfg tid r k idxs s s' ret,
  is_put_request r k -> alookup k (store s) = None ->
  call cfg tid r idxs s = (s', ret) -> ret <> [1; status_code (Rejected KeyAlreadyExists)].
Proof.
  intros cfg tid r k idxs s s' ret Hput Hl H. unfold call in H.
  destruct (amem tid (blocked s)); [inversion H; subst; discriminate|].
  destruct Hput as [(v & ->)|[(v & w & ->)|[(v & ttl & ->)|(v & w & ttl & ->)]]]; cbv beta iota zeta in H.
  - destruct (weight_calc (c_wcalc cfg) k v false <=? 0); [inversion H; subst; discriminate|].
    destruct (shut s); [inversion H; subst; discriminate|]. apply call_put_spec in H as (_ & R). apply R; exact Hl.
  - destruct (shut s); [inversion H; subst; discriminate|]. apply call_put_spec in H as (_ & R). apply R; exact Hl.
  - destruct (shut s); [inversion H; subst; discriminate|]. apply call_put_spec in H as (_ & R). apply R; exact Hl.
  - destruct (shut s); [inversion H; subst; discriminate|]. apply call_put_spec in H as (_ & R). apply R; exact Hl.
Qed.

Definition cmd_put_key (c : cmd) : option Z :=
  match c with CPut k _ _ _ _ => Some k | CPutTTL k _ _ _ _ _ => Some k | _ => None end.

(* STATEMENT: the worker refuses a put for KeyAlreadyExists exactly when the key is physically present at that
   moment (and then changes nothing); for an absent key the answer is never KeyAlreadyExists: admission decides *)
Lemma worker_put_status : forall cfg orc s c k a q,
  worker s = Alive -> queue s = (c, a) :: q -> cmd_put_key c = Some k ->
  alookup a (acks s) = Some Pending ->
  let s' := step_state cfg s (EWorker orc) in
  (alookup k (store s) <> None ->
     alookup a (acks s') = Some (Rejected KeyAlreadyExists) /\ store s' = store s /\ weights s' = weights s /\
     used s' = used s /\ ticker s' = ticker s /\ st s' = st s) /\
  (alookup k (store s) = None -> alookup a (acks s') <> Some (Rejected KeyAlreadyExists)).
Proof.
  intros cfg orc s c k a q Hw Hq Hc Ha s'. subst s'. unfold step_state. cbn [step]. unfold worker_step.
  rewrite Hw, Hq.
  destruct c as [k0 v id h w|k0 v id h w ttl|k0|id w|]; cbn [cmd_put_key] in Hc; try discriminate;
    injection Hc as Hc; subst k0; sred; destruct (amem k (store s)) eqn:Em.
  - split; [intros _|intros Hn; apply amem_false_iff in Hn; congruence].
    cbn [fst]; sred. rewrite alookup_aset_eq. repeat split.
  - split; [intros Hn; apply amem_false_iff in Em; contradiction|intros _].
    destruct (admission cfg orc k id h w (set_queue s q)) as [[r s1] vs] eqn:Ead.
    apply admission_wframe in Ead as ((Hn & Hacks & _) & Hst). sred.
    destruct r as [x|site|why].
    + destruct x as [| |rr|]; cbn [fst]; sred; rewrite alookup_aset_eq; try discriminate.
      intros Heq. injection Heq as Heq. subst rr.
      destruct (Hst _ eq_refl) as [Hx|[Hx|Hx]]; discriminate.
    + cbn [fst]; sred. rewrite Hacks, Ha. discriminate.
    + cbn [fst]. rewrite Ha. discriminate.
  - split; [intros _|intros Hn; apply amem_false_iff in Hn; congruence].
    cbn [fst]; sred. rewrite alookup_aset_eq. repeat split.
  - split; [intros Hn; apply amem_false_iff in Em; contradiction|intros _].
    destruct (admission cfg orc k id h w (set_queue s q)) as [[r s1] vs] eqn:Ead.
    apply admission_wframe in Ead as ((Hn & Hacks & _) & Hst). sred.
    destruct r as [x|site|why].
    + destruct x as [| |rr|].
      * cbn [fst]; sred; rewrite alookup_aset_eq; discriminate.
      * destruct (calc_expiry (now s1) ttl) as [ex|]; cbn [fst]; sred.
        -- rewrite alookup_aset_eq; discriminate.
        -- rewrite Hacks, Ha. discriminate.
      * cbn [fst]; sred; rewrite alookup_aset_eq.
        intros Heq. injection Heq as Heq. subst rr.
        destruct (Hst _ eq_refl) as [Hx|[Hx|Hx]]; discriminate.
      * cbn [fst]; sred; rewrite alookup_aset_eq; discriminate.
    + cbn [fst]; sred. rewrite Hacks, Ha. discriminate.
    + cbn [fst]. rewrite Ha. discriminate.
Qed.

(* STATEMENT: the expiry of a put is the time it is applied plus the time-to-live; a plain put never expires *)
Lemma worker_put_entry : forall cfg orc s c a q,
  worker s = Alive -> queue s = (c, a) :: q ->
  alookup a (acks s) = Some Pending ->
  let s' := step_state cfg s (EWorker orc) in
  alookup a (acks s') = Some Accepted ->
  match c with
  | CPut k v id h w =>
      alookup k (store s') = Some {| e_val := v; e_id := id; e_exp := None; e_soft := false |}
  | CPutTTL k v id h w ttl =>
      alookup k (store s') = Some {| e_val := v; e_id := id; e_exp := Some (now s + ttl); e_soft := false |} /\
      alookup id (shard_entries (ticker s') (shard_index cfg (now s + ttl))) = Some (now s + ttl)
  | _ => True
  end.
Proof.
  intros cfg orc s c a q Hw Hq Ha s'. subst s'. unfold step_state. cbn [step]. unfold worker_step.
  rewrite Hw, Hq.
  destruct c as [k v id h w|k v id h w ttl|k0|id w|]; try (intros _; exact I); sred;
    destruct (amem k (store s)) eqn:Em.
  - cbn [fst]; sred. rewrite alookup_aset_eq. discriminate.
  - destruct (admission cfg orc k id h w (set_queue s q)) as [[r s1] vs] eqn:Ead.
    apply admission_wframe in Ead as ((Hn & Hacks & _) & Hst). sred.
    destruct r as [x|site|why].
    + destruct x as [| |rr|]; cbn [fst]; sred; rewrite alookup_aset_eq; try discriminate.
      intros _. rewrite alookup_aset_eq. reflexivity.
    + cbn [fst]; sred. rewrite Hacks, Ha. discriminate.
    + cbn [fst]. rewrite Ha. discriminate.
  - cbn [fst]; sred. rewrite alookup_aset_eq. discriminate.
  - destruct (admission cfg orc k id h w (set_queue s q)) as [[r s1] vs] eqn:Ead.
    apply admission_wframe in Ead as ((Hn & Hacks & _) & Hst). sred.
    destruct r as [x|site|why].
    + destruct x as [| |rr|].
      * cbn [fst]; sred; rewrite alookup_aset_eq; discriminate.
      * destruct (calc_expiry (now s1) ttl) as [ex|] eqn:Ec; cbn [fst]; sred.
        -- intros _. unfold calc_expiry in Ec. cbv zeta in Ec.
           destruct ((now s1 + ttl) / ns_per_sec <=? i64_max); [|discriminate].
           injection Ec as Ec. rewrite Hn in Ec. subst ex.
           split; [rewrite alookup_aset_eq; reflexivity|].
           unfold ticker_put. cbv zeta. rewrite shard_entries_aset_eq, alookup_aset_eq. reflexivity.
        -- rewrite Hacks, Ha. discriminate.
      * cbn [fst]; sred; rewrite alookup_aset_eq; discriminate.
      * cbn [fst]; sred; rewrite alookup_aset_eq; discriminate.
    + cbn [fst]; sred. rewrite Hacks, Ha. discriminate.
    + cbn [fst]. rewrite Ha. discriminate.
Qed.

(** * put_or_update (C08) *)

Definition upsert_weight (cfg : config) (k : Z) (v w ttl : option Z) : option Z :=
  match w with
  | Some x => Some x
  | None => match v with
            | Some val => Some (weight_calc (c_wcalc cfg) k val (match ttl with Some _ => true | None => false end))
            | None => None
            end
  end.

(** the pieces of [call_upsert] on a present key *)
Definition ups_new_exp_o (rm : bool) (ttl : option Z) (e : entry) (s : state) : option (option Z) :=
  if rm then Some None else
  match ttl with
  | Some t => match calc_expiry (now s) t with Some x => Some (Some x) | None => None end
  | None => Some (e_exp e)
  end.

Definition ups_entry (v : option Z) (e : entry) (new_exp : option Z) : entry :=
  {| e_val := match v with Some val => val | None => e_val e end;
     e_id := e_id e; e_exp := new_exp; e_soft := e_soft e |}.

Definition ups_s2 (cfg : config) (k : Z) (v : option Z) (e : entry) (new_exp : option Z) (s : state) : state :=
  let s1 := set_store s (aset k (ups_entry v e new_exp) (store s)) in
  match type_of_expiry_update (e_exp e) new_exp with
  | XNothing => s1
  | XAdded n => set_ticker s1 (ticker_put cfg (e_id e) n (ticker s1))
  | XDeleted o => set_ticker s1 (ticker_delete cfg (e_id e) o (ticker s1))
  | XUpdated o n => set_ticker s1 (ticker_update cfg (e_id e) o n (ticker s1))
  end.

Definition ups_uw' (cfg : config) (existing : Z) (uw : option Z) (e : entry) (new_exp : option Z)
  : option (option Z) :=
  match type_of_expiry_update (e_exp e) new_exp with
  | XNothing => Some uw
  | XAdded n =>
      match uw with
      | Some x => Some (Some x)
      | None => match add_i64 cfg existing ttl_entry_size with Some x => Some (Some x) | None => None end
      end
  | XDeleted o =>
      match uw with
      | Some x => Some (Some x)
      | None => match add_i64 cfg existing (- ttl_entry_size) with Some x => Some (Some x) | None => None end
      end
  | XUpdated o n => Some uw
  end.

Definition ups_tail (cfg : config) (tid id : Z) (s2 : state) (uw' : option (option Z)) : state * list Z :=
  match uw' with
  | None => (s2, [4; site_i64_overflow])
  | Some None => (s2, [1; status_code Accepted])
  | Some (Some wt) =>
      if wt <=? 0 then (s2, [4; site_upsert_weight])
      else do_send cfg tid (CUpdateWeight id wt) s2
  end.

Lemma call_upsert_present_eq : forall cfg tid k v w ttl rm s e,
  alookup k (store s) = Some e ->
  call_upsert cfg tid k v w ttl rm s =
  match ups_new_exp_o rm ttl e s with
  | None => (s, [4; site_expiry_overflow])
  | Some new_exp =>
      ups_tail cfg tid (e_id e) (ups_s2 cfg k v e new_exp s)
        (ups_uw' cfg (match alookup (e_id e) (weights s) with Some wk => w_weight wk | None => 0 end)
                 (upsert_weight cfg k v w ttl) e new_exp)
  end.
Proof.
  intros cfg tid k v w ttl rm s e Hl.
  unfold call_upsert, ups_new_exp_o, ups_tail, ups_s2, ups_uw', upsert_weight, ups_entry. rewrite Hl. cbv zeta.
  destruct rm; [|destruct ttl as [t|]; [destruct (calc_expiry (now s) t) as [x|]|]]; cbv beta iota;
    repeat match goal with
           | |- context [type_of_expiry_update ?a ?b] => destruct (type_of_expiry_update a b)
           end; reflexivity.
Qed.

Lemma ups_s2_fields : forall cfg k v e new_exp s,
  let s2 := ups_s2 cfg k v e new_exp s in
  store s2 = aset k (ups_entry v e new_exp) (store s) /\ weights s2 = weights s /\ used s2 = used s /\
  queue s2 = queue s /\ worker s2 = worker s /\ next_ack s2 = next_ack s.
Proof.
  intros cfg k v e new_exp s s2. subst s2. unfold ups_s2. cbv zeta.
  destruct (type_of_expiry_update (e_exp e) new_exp); sred; repeat split.
Qed.

Lemma ups_tail_frame : forall cfg tid id s2 uw' s' ret,
  ups_tail cfg tid id s2 uw' = (s', ret) -> send_frame s2 s'.
Proof.
  intros cfg tid id s2 uw' s' ret H. unfold ups_tail in H.
  destruct uw' as [[wt|]|].
  - destruct (wt <=? 0).
    + inversion H; subst. unfold send_frame; repeat split.
    + apply do_send_spec in H as (F & _). exact F.
  - inversion H; subst. unfold send_frame; repeat split.
  - inversion H; subst. unfold send_frame; repeat split.
Qed.

Lemma ups_tail_some : forall cfg tid id s2 x s' ret,
  worker s2 = Alive -> Z.of_nat (length (queue s2)) < c_queue cfg ->
  ups_tail cfg tid id s2 (Some (Some x)) = (s', ret) ->
  (0 < x -> ret = [0; next_ack s2] /\ queue s' = queue s2 ++ [(CUpdateWeight id x, next_ack s2)]) /\
  (x <= 0 -> ret = [4; site_upsert_weight] /\ queue s' = queue s2).
Proof.
  intros cfg tid id s2 x s' ret Hw Hq H. unfold ups_tail in H.
  destruct (x <=? 0) eqn:E.
  - inversion H; subst. split; [intros Hx; lia|]. intros _. split; reflexivity.
  - split; [|intros Hx; lia]. intros _. eapply do_send_alive; eassumption.
Qed.

Lemma ups_new_exp_o_ok : forall rm ttl e s,
  (forall t, ttl = Some t -> rm = false -> calc_expiry (now s) t = Some (now s + t)) ->
  ups_new_exp_o rm ttl e s =
  Some (if rm then None else match ttl with Some t => Some (now s + t) | None => e_exp e end).
Proof.
  intros rm ttl e s Hce. unfold ups_new_exp_o. destruct rm; [reflexivity|].
  destruct ttl as [t|]; [|reflexivity]. rewrite (Hce t eq_refl eq_refl). reflexivity.
Qed.

(* STATEMENT: on a physically present key the entry is changed exactly as requested, immediately, and no other
   key is touched *)
Lemma upsert_present_fields : forall cfg tid k v w ttl rm s e s' ret,
  alookup k (store s) = Some e ->
  (forall t, ttl = Some t -> rm = false -> calc_expiry (now s) t = Some (now s + t)) ->
  call_upsert cfg tid k v w ttl rm s = (s', ret) ->
  (exists e', alookup k (store s') = Some e' /\
     e_val e' = (match v with Some x => x | None => e_val e end) /\
     e_id e' = e_id e /\ e_soft e' = e_soft e /\
     e_exp e' = (if rm then None else match ttl with Some t => Some (now s + t) | None => e_exp e end)) /\
  (forall k', k' <> k -> alookup k' (store s') = alookup k' (store s)) /\
  weights s' = weights s /\ used s' = used s.
Proof.
  intros cfg tid k v w ttl rm s e s' ret Hl Hce H.
  rewrite call_upsert_present_eq with (e := e) in H by exact Hl.
  rewrite (ups_new_exp_o_ok _ _ e _ Hce) in H.
  set (new_exp := if rm then None else match ttl with Some t => Some (now s + t) | None => e_exp e end) in *.
  apply ups_tail_frame in H as (Hst & Hwt & Hu & _).
  pose proof (ups_s2_fields cfg k v e new_exp s) as (Fst & Fw & Fu & _).
  rewrite Fst in Hst. rewrite Fw in Hwt. rewrite Fu in Hu.
  split; [|split; [|split; assumption]].
  - exists (ups_entry v e new_exp). rewrite Hst, alookup_aset_eq. repeat split.
  - intros k' Hne. rewrite Hst. apply alookup_aset_neq; assumption.
Qed.

(* STATEMENT: what the call reports and queues for a present key: the weight to charge is the explicit one, else the
   recomputed one, else the old charge +-24 when a time-to-live is added / removed, else nothing *)
Lemma upsert_present_weight : forall cfg tid k v w ttl rm s e s' ret,
  wf_config cfg -> alookup k (store s) = Some e ->
  (forall t, ttl = Some t -> rm = false -> calc_expiry (now s) t = Some (now s + t)) ->
  worker s = Alive -> Z.of_nat (length (queue s)) < c_queue cfg ->
  call_upsert cfg tid k v w ttl rm s = (s', ret) ->
  let old := match alookup (e_id e) (weights s) with Some wk => w_weight wk | None => 0 end in
  let new_exp := if rm then None else match ttl with Some t => Some (now s + t) | None => e_exp e end in
  let target :=
    match upsert_weight cfg k v w ttl with
    | Some x => Some x
    | None => match type_of_expiry_update (e_exp e) new_exp with
              | XAdded _ => Some (old + ttl_entry_size)
              | XDeleted _ => Some (old - ttl_entry_size)
              | _ => None
              end
    end in
  match target with
  | None => ret = [1; status_code Accepted] /\ queue s' = queue s
  | Some x =>
      (0 < x -> in_i64 x = true -> ret = [0; next_ack s] /\ queue s' = queue s ++ [(CUpdateWeight (e_id e) x, next_ack s)]) /\
      (x <= 0 -> in_i64 x = true -> ret = [4; site_upsert_weight] /\ queue s' = queue s)
  end.
Proof.
  intros cfg tid k v w ttl rm s e s' ret Hwf Hl Hce Hw Hq H old new_exp target.
  rewrite call_upsert_present_eq with (e := e) in H by exact Hl.
  rewrite (ups_new_exp_o_ok _ _ e _ Hce) in H.
  fold new_exp in H. fold old in H.
  pose proof (ups_s2_fields cfg k v e new_exp s) as (_ & _ & _ & Fq & Fw & Fa).
  set (s2 := ups_s2 cfg k v e new_exp s) in *.
  assert (Hw2 : worker s2 = Alive) by congruence.
  assert (Hq2 : Z.of_nat (length (queue s2)) < c_queue cfg) by (rewrite Fq; exact Hq).
  assert (Hsome : forall x, ups_tail cfg tid (e_id e) s2 (Some (Some x)) = (s', ret) ->
            (0 < x -> in_i64 x = true -> ret = [0; next_ack s] /\ queue s' = queue s ++ [(CUpdateWeight (e_id e) x, next_ack s)]) /\
            (x <= 0 -> in_i64 x = true -> ret = [4; site_upsert_weight] /\ queue s' = queue s)).
  { intros x Hx. destruct (ups_tail_some _ _ _ _ _ _ _ Hw2 Hq2 Hx) as (P & N). rewrite Fq, Fa in P. rewrite Fq in N.
    split; [intros Hp _; apply P; exact Hp|intros Hn _; apply N; exact Hn]. }
  assert (Hnone : ups_tail cfg tid (e_id e) s2 (Some None) = (s', ret) ->
            ret = [1; status_code Accepted] /\ queue s' = queue s).
  { intros Hx. unfold ups_tail in Hx. inversion Hx; subst. split; [reflexivity|exact Fq]. }
  assert (Hadd : forall d, ups_tail cfg tid (e_id e) s2
              (match add_i64 cfg old d with Some x => Some (Some x) | None => None end) = (s', ret) ->
            (0 < old + d -> in_i64 (old + d) = true -> ret = [0; next_ack s] /\ queue s' = queue s ++ [(CUpdateWeight (e_id e) (old + d), next_ack s)]) /\
            (old + d <= 0 -> in_i64 (old + d) = true -> ret = [4; site_upsert_weight] /\ queue s' = queue s)).
  { intros d Hx. unfold add_i64 in Hx.
    destruct (in_i64 (old + d)) eqn:Ein.
    - destruct (Hsome _ Hx) as (P & N). split; intros A _; [apply P|apply N]; solve [exact A|reflexivity|assumption].
    - split; intros _ Hf; discriminate. }
  subst target. unfold ups_uw' in H.
  destruct (upsert_weight cfg k v w ttl) as [x|] eqn:Eu.
  - apply Hsome. destruct (type_of_expiry_update (e_exp e) new_exp); exact H.
  - destruct (type_of_expiry_update (e_exp e) new_exp) as [|n|o|o n].
    + apply Hnone; exact H.
    + apply Hadd; exact H.
    + apply (Hadd (- ttl_entry_size)); exact H.
    + apply Hnone; exact H.
Qed.

(* STATEMENT: on a physically absent key put_or_update is exactly the corresponding put *)
Lemma upsert_absent_is_put : forall cfg tid k val w ttl rm s,
  alookup k (store s) = None ->
  call_upsert cfg tid k (Some val) w ttl rm s =
  call_put cfg tid k val (match upsert_weight cfg k (Some val) w ttl with Some x => x | None => 0 end) ttl s.
Proof.
  intros cfg tid k val w ttl rm s Hl.
  unfold call_upsert, call_put, upsert_weight. rewrite Hl.
  rewrite (proj2 (amem_false_iff _ k (store s)) Hl).
  destruct w as [x|]; cbv beta iota zeta.
  - destruct (x <=? 0); [reflexivity|]. destruct ttl; reflexivity.
  - destruct (weight_calc (c_wcalc cfg) k val match ttl with Some _ => true | None => false end <=? 0);
      [reflexivity|]. destruct ttl; reflexivity.
Qed.

(* STATEMENT: once UpdateWeight is executed the charge is the requested weight *)
Lemma update_weight_charged : forall cfg orc s id w a q wk,
  wf_config cfg -> worker s = Alive -> queue s = (CUpdateWeight id w, a) :: q ->
  alookup id (weights s) = Some wk -> in_i64 (used s + (w - w_weight wk)) = true ->
  let s' := step_state cfg s (EWorker orc) in
  alookup id (weights s') = Some (Build_wkey (w_key wk) (w_hash wk) w) /\
  used s' = used s + w - w_weight wk /\ store s' = store s /\
  alookup a (acks s') = Some Accepted.
Proof.
  intros cfg orc s id w a q wk Hwf Hw Hq Hl Hin s'. subst s'. unfold step_state. cbn [step]. unfold worker_step.
  rewrite Hw, Hq. unfold weights_update. sred. rewrite Hl. unfold add_i64. rewrite Hin.
  cbv beta iota zeta. cbn [fst]; sred. rewrite !alookup_aset_eq.
  split; [reflexivity|]. split; [lia|]. split; reflexivity.
Qed.

(** * delete (C04) *)

(* STATEMENT: delete() hides the key before it returns *)
Lemma delete_hides_immediately : forall cfg tid k idxs s s' ret,
  shut s = false -> amem tid (blocked s) = false ->
  call cfg tid (RDelete k) idxs s = (s', ret) ->
  lookup_alive k s' = None /\
  (forall e, alookup k (store s) = Some e -> exists e', alookup k (store s') = Some e' /\ e_soft e' = true /\ e_id e' = e_id e) /\
  (forall k', k' <> k -> alookup k' (store s') = alookup k' (store s)).
Proof.
  intros cfg tid k idxs s s' ret Hsh Hb H. unfold call in H. rewrite Hb in H. cbv beta iota in H.
  rewrite Hsh in H. cbv beta iota zeta in H.
  apply do_send_spec in H as ((Hst & _) & _).
  destruct (alookup k (store s)) as [e|] eqn:El; sred.
  - split; [|split].
    + unfold lookup_alive. rewrite Hst, alookup_aset_eq. unfold is_alive. reflexivity.
    + intros e0 He0. injection He0 as He0; subst e0. eexists. rewrite Hst, alookup_aset_eq.
      split; [reflexivity|]. split; reflexivity.
    + intros k' Hne. rewrite Hst. apply alookup_aset_neq; assumption.
  - split; [|split].
    + unfold lookup_alive. rewrite Hst, El. reflexivity.
    + intros e0 He0; discriminate.
    + intros k' Hne. rewrite Hst. reflexivity.
Qed.

(** [k] is hidden: physically absent, or present and soft-deleted *)
Definition hid (k : Z) (s : state) : Prop :=
  alookup k (store s) = None \/ exists e', alookup k (store s) = Some e' /\ e_soft e' = true.

Lemma hid_eq : forall k s s' e,
  alookup k (store s) = Some e -> e_soft e = true -> store s' = store s -> hid k s'.
Proof. intros k s s' e Hl Hs Heq. right. exists e. rewrite Heq. split; assumption. Qed.

Lemma hid_shrinks : forall k s s' e,
  alookup k (store s) = Some e -> e_soft e = true -> store_shrinks s s' -> hid k s'.
Proof.
  intros k s s' e Hl Hs Hsh. destruct (Hsh k) as [H|H]; [|left; exact H].
  right. exists e. rewrite H. split; assumption.
Qed.

Lemma hid_nil : forall k s', store s' = [] -> hid k s'.
Proof. intros k s' H. left. rewrite H. reflexivity. Qed.

Lemma shutdown_finish_store : forall s, store (shutdown_finish s) = [].
Proof. intros s. reflexivity. Qed.

Lemma shutdown_chan_store : forall tid s s' r,
  shutdown_chan tid s = (s', r) -> store s' = store s \/ store s' = [].
Proof.
  intros tid s s' r H. unfold shutdown_chan in H.
  destruct (consumer s); [destruct (_ <? chan_capacity)|..]; inversion H; subst;
    first [right; apply shutdown_finish_store | left; reflexivity].
Qed.

Lemma shutdown_cmd_store : forall cfg tid s s' r,
  shutdown_cmd cfg tid s = (s', r) -> store s' = store s \/ store s' = [].
Proof.
  intros cfg tid s s' r H. unfold shutdown_cmd in H.
  destruct (worker s); [destruct (_ <? c_queue cfg)|..];
    try (apply shutdown_chan_store in H; sred; exact H).
  inversion H; subst. left; reflexivity.
Qed.

Lemma hid_eq_or_nil : forall k s s' e,
  alookup k (store s) = Some e -> e_soft e = true -> store s' = store s \/ store s' = [] -> hid k s'.
Proof.
  intros k s s' e Hl Hs [H|H]; [eapply hid_eq; eassumption|apply hid_nil; exact H].
Qed.

Lemma call_upsert_hid : forall cfg tid k0 v w ttl rm s s' ret k e,
  alookup k (store s) = Some e -> e_soft e = true ->
  call_upsert cfg tid k0 v w ttl rm s = (s', ret) -> hid k s'.
Proof.
  intros cfg tid k0 v w ttl rm s s' ret k e Hl Hs H.
  destruct (alookup k0 (store s)) as [e0|] eqn:El0.
  - rewrite call_upsert_present_eq with (e := e0) in H by exact El0.
    destruct (ups_new_exp_o rm ttl e0 s) as [new_exp|].
    + apply ups_tail_frame in H as (Hst & _).
      pose proof (ups_s2_fields cfg k0 v e0 new_exp s) as (Fst & _). rewrite Fst in Hst.
      destruct (Z.eq_dec k k0) as [->|Hne].
      * right. exists (ups_entry v e0 new_exp). rewrite Hst, alookup_aset_eq. split; [reflexivity|].
        cbn [ups_entry e_soft]. congruence.
      * right. exists e. rewrite Hst, alookup_aset_neq by assumption. split; assumption.
    + inversion H; subst. eapply hid_eq; eauto.
  - destruct v as [val|].
    + rewrite upsert_absent_is_put in H by exact El0. apply call_put_spec in H as ((Hst & _) & _).
      eapply hid_eq; eassumption.
    + unfold call_upsert in H. rewrite El0 in H. cbv zeta in H.
      destruct w; inversion H; subst; eapply hid_eq; eauto.
Qed.

Lemma call_hid : forall cfg tid r idxs s s' ret k e,
  alookup k (store s) = Some e -> e_soft e = true ->
  call cfg tid r idxs s = (s', ret) -> hid k s'.
Proof.
  intros cfg tid r idxs s s' ret k e Hl Hs H. unfold call in H.
  assert (Hsame : hid k s) by (eapply hid_eq; eauto).
  destruct (amem tid (blocked s)); [inversion H; subst; exact Hsame|].
  destruct r as [k0 v|k0 v w|k0 v ttl|k0 v w ttl|k0 v w ttl rm|k0|k0|k0|k0|k0|ks|ks|ks| | |]; cbv beta iota zeta in H.
  - destruct (_ <=? 0); [inversion H; subst; exact Hsame|].
    destruct (shut s); [inversion H; subst; exact Hsame|].
    apply call_put_spec in H as ((Hst & _) & _). eapply hid_eq; eassumption.
  - destruct (shut s); [inversion H; subst; exact Hsame|].
    apply call_put_spec in H as ((Hst & _) & _). eapply hid_eq; eassumption.
  - destruct (shut s); [inversion H; subst; exact Hsame|].
    apply call_put_spec in H as ((Hst & _) & _). eapply hid_eq; eassumption.
  - destruct (shut s); [inversion H; subst; exact Hsame|].
    apply call_put_spec in H as ((Hst & _) & _). eapply hid_eq; eassumption.
  - destruct (shut s); [inversion H; subst; exact Hsame|].
    eapply call_upsert_hid; eassumption.
  - destruct (shut s); [inversion H; subst; exact Hsame|].
    apply do_send_spec in H as ((Hst & _) & _).
    destruct (alookup k0 (store s)) as [e0|] eqn:El0; sred; [|eapply hid_eq; eassumption].
    destruct (Z.eq_dec k k0) as [->|Hne].
    + right. eexists. rewrite Hst, alookup_aset_eq. split; reflexivity.
    + right. exists e. rewrite Hst, alookup_aset_neq by assumption. split; assumption.
  - destruct (shut s); [inversion H; subst; exact Hsame|].
    destruct (read_one cfg k0 idxs s) as [[[v0 s0] [|i0 idxs0]]|] eqn:E; inversion H; subst; try exact Hsame.
    apply read_one_spec in E as ((Hst & _) & _). eapply hid_eq; eassumption.
  - destruct (shut s); [inversion H; subst; exact Hsame|].
    destruct (read_one cfg k0 idxs s) as [[[v0 s0] [|i0 idxs0]]|] eqn:E; inversion H; subst; try exact Hsame.
    apply read_one_spec in E as ((Hst & _) & _). eapply hid_eq; eassumption.
  - destruct (shut s); [inversion H; subst; exact Hsame|].
    destruct (read_one cfg k0 idxs s) as [[[v0 s0] [|i0 idxs0]]|] eqn:E; inversion H; subst; try exact Hsame.
    apply read_one_spec in E as ((Hst & _) & _). eapply hid_eq; eassumption.
  - destruct (shut s); [inversion H; subst; exact Hsame|].
    destruct (read_one cfg k0 idxs s) as [[[v0 s0] [|i0 idxs0]]|] eqn:E; inversion H; subst; try exact Hsame.
    apply read_one_spec in E as ((Hst & _) & _). eapply hid_eq; eassumption.
  - destruct (shut s); [inversion H; subst; exact Hsame|].
    destruct (read_many cfg ks idxs s) as [[[v0 s0] [|i0 idxs0]]|] eqn:E; inversion H; subst; try exact Hsame.
    apply read_many_spec in E as ((Hst & _) & _). eapply hid_eq; eassumption.
  - destruct (shut s); [inversion H; subst; exact Hsame|].
    destruct (read_many cfg ks idxs s) as [[[v0 s0] [|i0 idxs0]]|] eqn:E; inversion H; subst; try exact Hsame.
    apply read_many_spec in E as ((Hst & _) & _). eapply hid_eq; eassumption.
  - destruct (shut s); [inversion H; subst; exact Hsame|].
    destruct (read_many cfg ks idxs s) as [[[v0 s0] [|i0 idxs0]]|] eqn:E; inversion H; subst; try exact Hsame.
    apply read_many_spec in E as ((Hst & _) & _). eapply hid_eq; eassumption.
  - inversion H; subst; exact Hsame.
  - inversion H; subst; exact Hsame.
  - destruct (shut s); [inversion H; subst; exact Hsame|].
    apply shutdown_cmd_store in H. sred. eapply hid_eq_or_nil; eassumption.
Qed.

Lemma resume_hid : forall cfg tid s s' ret k e,
  alookup k (store s) = Some e -> e_soft e = true ->
  resume cfg tid s = (s', ret) -> hid k s'.
Proof.
  intros cfg tid s s' ret k e Hl Hs H. unfold resume in H.
  assert (Hsame : hid k s) by (eapply hid_eq; eauto).
  destruct (alookup tid (blocked s)) as [c|]; [|inversion H; subst; exact Hsame].
  cbv zeta in H. sred.
  destruct c as [c| |].
  - assert (Hd : forall s1 r1, do_send cfg tid c (set_blocked s (aremove tid (blocked s))) = (s1, r1) -> hid k s1).
    { intros s1 r1 Hd. apply do_send_spec in Hd as ((Hst & _) & _). sred. eapply hid_eq; eassumption. }
    destruct (worker s); [destruct (_ <? c_queue cfg)|..];
      first [eapply Hd; exact H | inversion H; subst; exact Hsame].
  - assert (Hd : forall s1 r1, shutdown_cmd cfg tid (set_blocked s (aremove tid (blocked s))) = (s1, r1) -> hid k s1).
    { intros s1 r1 Hd. apply shutdown_cmd_store in Hd. sred. eapply hid_eq_or_nil; eassumption. }
    destruct (worker s); [destruct (_ <? c_queue cfg)|..];
      first [eapply Hd; exact H | inversion H; subst; exact Hsame].
  - assert (Hd : forall s1 r1, shutdown_chan tid (set_blocked s (aremove tid (blocked s))) = (s1, r1) -> hid k s1).
    { intros s1 r1 Hd. apply shutdown_chan_store in Hd. sred. eapply hid_eq_or_nil; eassumption. }
    destruct (consumer s); [destruct (_ <? chan_capacity)|..];
      first [eapply Hd; exact H | inversion H; subst; exact Hsame].
Qed.

Lemma drain_queue_store : forall q s, store (drain_queue q s) = store s.
Proof.
  induction q as [|[c a] t IH]; intros s; cbn [drain_queue]; [reflexivity|]. rewrite IH. reflexivity.
Qed.

Lemma worker_step_hid : forall cfg orc s s' ret k e,
  alookup k (store s) = Some e -> e_soft e = true ->
  worker_step cfg orc s = (s', ret) -> hid k s'.
Proof.
  intros cfg orc s s' ret k e Hl Hs H. unfold worker_step in H.
  assert (Hsame : hid k s) by (eapply hid_eq; eauto).
  destruct (worker s); try (inversion H; subst; exact Hsame).
  destruct (queue s) as [|[c a] q]; [inversion H; subst; exact Hsame|].
  cbv zeta in H.
  assert (Hput : forall k0 id h w r s1 vs, amem k0 (store s) = false ->
            admission cfg orc k0 id h w (set_queue s q) = (r, s1, vs) ->
            k <> k0 /\ store_shrinks s s1).
  { intros k0 id h w r s1 vs Hm Had. split.
    - intros ->. apply amem_false_iff in Hm. congruence.
    - apply admission_wframe in Had as ((_ & _ & _ & _ & Hsh) & _). intros k1. apply (Hsh k1). }
  destruct c as [k0 v id h w|k0 v id h w ttl|k0|id w|]; sred.
  - destruct (amem k0 (store s)) eqn:Em; [inversion H; subst; sred; exact Hsame|].
    destruct (admission cfg orc k0 id h w (set_queue s q)) as [[r s1] vs] eqn:Ead.
    destruct (Hput _ _ _ _ _ _ _ Em Ead) as (Hne & Hsh).
    pose proof (hid_shrinks _ _ _ _ Hl Hs Hsh) as Hh1.
    destruct r as [x|site|why].
    + destruct x as [| |rr|]; inversion H; subst; sred; try exact Hh1.
      unfold hid; sred. rewrite alookup_aset_neq by assumption. exact Hh1.
    + inversion H; subst; exact Hh1.
    + inversion H; subst; exact Hsame.
  - destruct (amem k0 (store s)) eqn:Em; [inversion H; subst; sred; exact Hsame|].
    destruct (admission cfg orc k0 id h w (set_queue s q)) as [[r s1] vs] eqn:Ead.
    destruct (Hput _ _ _ _ _ _ _ Em Ead) as (Hne & Hsh).
    pose proof (hid_shrinks _ _ _ _ Hl Hs Hsh) as Hh1.
    destruct r as [x|site|why].
    + destruct x as [| |rr|]; [| destruct (calc_expiry (now s1) ttl) | |]; inversion H; subst; sred; try exact Hh1.
      unfold hid; sred. rewrite alookup_aset_neq by assumption. exact Hh1.
    + inversion H; subst; exact Hh1.
    + inversion H; subst; exact Hsame.
  - destruct (alookup k0 (store s)) as [e0|] eqn:El0; [|inversion H; subst; sred; exact Hsame].
    pose proof (weights_delete_nohook_store cfg (e_id e0) (store_delete k0 (set_queue s q))) as Hwd.
    assert (Hsd : store_shrinks s (store_delete k0 (set_queue s q))).
    { destruct (store_delete_wframe k0 (set_queue s q)) as (_ & _ & _ & _ & Hsh). intros k1. apply (Hsh k1). }
    pose proof (hid_shrinks _ _ _ _ Hl Hs Hsd) as Hh1.
    destruct (weights_delete cfg (e_id e0) false (store_delete k0 (set_queue s q))) as [s2|site s2|why];
      [|inversion H; subst; unfold hid; sred; rewrite Hwd; exact Hh1|contradiction].
    destruct (e_exp e0); inversion H; subst; unfold hid; sred; rewrite Hwd; exact Hh1.
  - pose proof (weights_update_fields cfg id w (set_queue s q)) as Hwu.
    destruct (weights_update cfg id w (set_queue s q)) as [s1|site s1|why]; [| |contradiction];
      destruct Hwu as (Hst & _); inversion H; subst; unfold hid; sred; rewrite Hst; exact Hsame.
  - inversion H; subst. unfold hid; sred. rewrite drain_queue_store. exact Hsame.
Qed.

Lemma sweep_entries_shrinks : forall cfg now_ es s,
  match sweep_entries cfg now_ es s with
  | Ok s' => store_shrinks s s'
  | Panic _ s' => store_shrinks s s'
  | Inadmissible _ => True
  end.
Proof.
  intros cfg now_ es. induction es as [|[id ex] t IH]; intros s; cbn [sweep_entries].
  - apply store_shrinks_refl.
  - destruct (ex <? now_); [|apply IH].
    pose proof (weights_delete_wframe cfg id true s) as Hwd.
    destruct (weights_delete cfg id true s) as [s1|site s1|why]; [| |exact I].
    + destruct Hwd as (_ & _ & _ & _ & Hsh). specialize (IH s1).
      destruct (sweep_entries cfg now_ t s1); try exact I; eapply store_shrinks_trans; eassumption.
    + destruct Hwd as (_ & _ & _ & _ & Hsh). exact Hsh.
Qed.

Lemma sweep_hid : forall cfg s s' ret k e,
  alookup k (store s) = Some e -> e_soft e = true ->
  sweep cfg s = (s', ret) -> hid k s'.
Proof.
  intros cfg s s' ret k e Hl Hs H. unfold sweep in H.
  assert (Hsame : hid k s) by (eapply hid_eq; eauto).
  destruct (sweeper s); try (inversion H; subst; exact Hsame).
  cbv zeta in H.
  match type of H with context [sweep_entries ?c ?n ?es ?s1] =>
    pose proof (sweep_entries_shrinks c n es s1) as Hsw; destruct (sweep_entries c n es s1) as [s2|site s2|why] end.
  - assert (Hh : hid k s2) by (eapply hid_shrinks; [exact Hl|exact Hs|]; intros k1; apply (Hsw k1)).
    destruct (sweeper_run s2); inversion H; subst; exact Hh.
  - assert (Hh : hid k s2) by (eapply hid_shrinks; [exact Hl|exact Hs|]; intros k1; apply (Hsw k1)).
    inversion H; subst; exact Hh.
  - inversion H; subst; exact Hsame.
Qed.

Lemma drain_hid : forall cfg bl s s' ret k e,
  alookup k (store s) = Some e -> e_soft e = true ->
  drain cfg bl s = (s', ret) -> hid k s'.
Proof.
  intros cfg bl s s' ret k e Hl Hs H. unfold drain in H.
  assert (Hsame : hid k s) by (eapply hid_eq; eauto).
  destruct (consumer s); try (inversion H; subst; exact Hsame).
  destruct (chan s) as [|[hs|] rest]; [inversion H; subst; exact Hsame| |inversion H; subst; exact Hsame].
  destruct (apply_batch (lfu s) hs bl) as [[l'| |] [|b bl']]; cbv zeta in H; sred;
    try (inversion H; subst; exact Hsame).
  destruct (consumer_run s); inversion H; subst; exact Hsame.
Qed.

(* STATEMENT: a soft-deleted entry stays hidden until it is physically removed: no event re-exposes it *)
Lemma soft_deleted_stays_hidden : forall cfg s ev k e,
  alookup k (store s) = Some e -> e_soft e = true ->
  let s' := step_state cfg s ev in
  alookup k (store s') = None \/ exists e', alookup k (store s') = Some e' /\ e_soft e' = true.
Proof.
  intros cfg s ev k e Hl Hs s'. subst s'. unfold step_state.
  change (hid k (fst (step cfg s ev))).
  destruct (step cfg s ev) as [s1 r1] eqn:E. cbn [fst].
  destruct ev as [tid r idxs|tid|orc| |bl|dt|a]; cbn [step] in E.
  - eapply call_hid; eassumption.
  - eapply resume_hid; eassumption.
  - eapply worker_step_hid; eassumption.
  - eapply sweep_hid; eassumption.
  - eapply drain_hid; eassumption.
  - inversion E; subst. eapply hid_eq; eauto.
  - inversion E; subst. eapply hid_eq; eauto.
Qed.

Definition charge_of_id (s : state) (id : Z) : Z :=
  match alookup id (weights s) with Some wk => w_weight wk | None => 0 end.

Lemma weights_delete_nohook_spec : forall cfg id s,
  c_debug cfg = true ->
  match weights_delete cfg id false s with
  | Ok s2 => store s2 = store s /\ alookup id (weights s2) = None /\ used s2 = used s - charge_of_id s id /\
             ticker s2 = ticker s /\ acks s2 = acks s
  | Panic _ _ => True
  | Inadmissible _ => False
  end.
Proof.
  intros cfg id s Hd. unfold weights_delete, charge_of_id.
  destruct (alookup id (weights s)) as [wk|] eqn:E.
  - unfold add_i64. sred. rewrite Hd.
    destruct (in_i64 (used s + - w_weight wk)); [|exact I].
    sred. rewrite alookup_aremove_eq. repeat split. 
  - rewrite E. repeat split. lia.
Qed.

(* STATEMENT: the Delete command releases the key completely *)
Lemma delete_cmd_releases : forall cfg orc s k a q e,
  wf_config cfg -> Inv cfg s -> worker s = Alive -> queue s = (CDelete k, a) :: q ->
  alookup k (store s) = Some e ->
  let s' := step_state cfg s (EWorker orc) in
  worker s' <> Dead ->
  alookup k (store s') = None /\ alookup (e_id e) (weights s') = None /\
  used s' = used s - charge_of_id s (e_id e) /\
  (forall t, e_exp e = Some t -> alookup (e_id e) (shard_entries (ticker s') (shard_index cfg t)) = None) /\
  alookup a (acks s') = Some Accepted /\
  (forall k', k' <> k -> alookup k' (store s') = alookup k' (store s)).
Proof.
  intros cfg orc s k a q e Hwf Hinv Hw Hq Hl s'. subst s'. unfold step_state. cbn [step]. unfold worker_step.
  rewrite Hw, Hq. cbv zeta. sred. rewrite Hl.
  pose proof (store_delete_fields k (set_queue s q)) as (Fw & Fu & Ft & Fa & _). sred.
  pose proof (weights_delete_nohook_spec cfg (e_id e) (store_delete k (set_queue s q)) (wf_debug _ Hwf)) as Hwd.
  unfold charge_of_id in Hwd. rewrite Fw, Fu in Hwd. fold (charge_of_id s (e_id e)) in Hwd.
  destruct (weights_delete cfg (e_id e) false (store_delete k (set_queue s q))) as [s2|site s2|why];
    [|cbn [fst]; sred; intros Hnd; exfalso; apply Hnd; reflexivity|contradiction].
  destruct Hwd as (Hst & Hwl & Hu & Htk & Hak). intros _.
  assert (Hk : alookup k (store s2) = None) by (rewrite Hst; apply store_delete_lookup_eq).
  assert (Hk' : forall k', k' <> k -> alookup k' (store s2) = alookup k' (store s)).
  { intros k' Hne. rewrite Hst. rewrite store_delete_lookup_neq by assumption. reflexivity. }
  destruct (e_exp e) as [x|] eqn:Ee; cbn [fst]; sred; rewrite alookup_aset_eq.
  - split; [exact Hk|]. split; [exact Hwl|]. split; [exact Hu|]. split; [|split; [reflexivity|exact Hk']].
    intros t Ht. injection Ht as Ht; subst t. unfold ticker_delete. cbv zeta.
    rewrite shard_entries_aset_eq. apply alookup_aremove_eq.
  - split; [exact Hk|]. split; [exact Hwl|]. split; [exact Hu|]. split; [|split; [reflexivity|exact Hk']].
    intros t Ht; discriminate.
Qed.

(* STATEMENT: deleting a key that is not in the cache is rejected and changes nothing but the queue and the ack *)
Lemma delete_cmd_absent : forall cfg orc s k a q,
  worker s = Alive -> queue s = (CDelete k, a) :: q -> alookup k (store s) = None ->
  let s' := step_state cfg s (EWorker orc) in
  alookup a (acks s') = Some (Rejected KeyDoesNotExist) /\
  store s' = store s /\ weights s' = weights s /\ used s' = used s /\ ticker s' = ticker s /\ st s' = st s.
Proof.
  intros cfg orc s k a q Hw Hq Hl s'. subst s'. unfold step_state. cbn [step]. unfold worker_step.
  rewrite Hw, Hq. cbv zeta. sred. rewrite Hl. cbn [fst]; sred. rewrite alookup_aset_eq. repeat split.
Qed.
