(** C07 and C09 / C02 at the micro level, step by step and from ANY state (no invariant needed): what the two presence
    checks of a put answer, and at which instant a split read decides what it returns. *)
From CacheD Require Import Base Sketch Model Window Micro.
From CacheD.proofs Require Import Defs AListLemmas InvOps InvCalls InvWorker InvProofs ApiProofs HistoryProofs.
From Coq Require Import ZifyBool.

(* STATEMENT (C07, caller side, any state): the `put.checked` step of a put (any variant, valid weight) whose key is
   physically present at that moment answers 'key already exists' on the spot, ends the call and changes nothing *)
Lemma micro_put_check_present : forall cfg ms tid r k idxs e,
  is_put_request r k -> valid_request r ->
  alookup tid (cps ms) = Some (PEntered r) -> alookup k (store (mbase ms)) = Some e ->
  snd (mstepc cfg ms tid idxs) = [1; status_code (Rejected KeyAlreadyExists)] /\
  mbase (fst (mstepc cfg ms tid idxs)) = mbase ms /\ alookup tid (cps (fst (mstepc cfg ms tid idxs))) = None.
Proof.
  intros cfg ms tid r k idxs e Hr Hv Hp Hk. unfold mstepc. cbv zeta. rewrite Hp.
  assert (Hm : amem k (store (mbase ms)) = true).
  { destruct (amem k (store (mbase ms))) eqn:E; [reflexivity|]. apply amem_false_iff in E. congruence. }
  assert (Hpc : forall v w ttl, 0 < w ->
            snd (put_check ms tid k v w ttl) = [1; status_code (Rejected KeyAlreadyExists)] /\
            mbase (fst (put_check ms tid k v w ttl)) = mbase ms /\ alookup tid (cps (fst (put_check ms tid k v w ttl))) = None).
  { intros v w ttl Hw. unfold put_check. cbv zeta. destruct (w <=? 0) eqn:E; [lia|]. rewrite Hm. cbn [fst snd].
    split; [reflexivity|]. split; [destruct ms as [[b u p] c d]; reflexivity|]. cbn [end_cp cps]. apply alookup_aremove_eq. }
  destruct Hr as [(v & ->)|[(v & w & ->)|[(v & ttl & ->)|(v & w & ttl & ->)]]]; cbn [valid_request] in Hv.
  - apply Hpc. apply weight_calc_pos.
  - apply Hpc. exact Hv.
  - apply Hpc. apply weight_calc_pos.
  - apply Hpc. tauto.
Qed.

(* STATEMENT (C07, caller side, any state): and when the key is physically absent at that moment the step never answers
   'key already exists' *)
Lemma micro_put_check_absent : forall cfg ms tid r k idxs,
  is_put_request r k -> alookup tid (cps ms) = Some (PEntered r) -> alookup k (store (mbase ms)) = None ->
  snd (mstepc cfg ms tid idxs) <> [1; status_code (Rejected KeyAlreadyExists)].
Proof.
  intros cfg ms tid r k idxs Hr Hp Hk. unfold mstepc. cbv zeta. rewrite Hp.
  assert (Hm : amem k (store (mbase ms)) = false) by (apply amem_false_iff; exact Hk).
  assert (Hpc : forall v w ttl, snd (put_check ms tid k v w ttl) <> [1; status_code (Rejected KeyAlreadyExists)]).
  { intros v w ttl. unfold put_check. cbv zeta. destruct (w <=? 0); [discriminate|]. rewrite Hm. discriminate. }
  destruct Hr as [(v & ->)|[(v & w & ->)|[(v & ttl & ->)|(v & w & ttl & ->)]]]; apply Hpc.
Qed.

(* STATEMENT (C07, worker side, any state): when the worker takes a put whose key is physically present at that moment it
   answers 'key already exists', opens no window and leaves store, ledger, expiry index and statistics untouched; when the
   key is absent the answer - whenever it comes - is never 'key already exists' *)
Lemma micro_worker_put_status : forall cfg ms orc c k a q,
  wdel ms = None -> wpending (win ms) = None ->
  worker (mbase ms) = Alive -> queue (mbase ms) = (c, a) :: q -> cmd_put_key c = Some k ->
  alookup a (acks (mbase ms)) = Some Pending ->
  let ms' := fst (mworker1 cfg ms orc) in
  (alookup k (store (mbase ms)) <> None ->
     alookup a (acks (mbase ms')) = Some (Rejected KeyAlreadyExists) /\ wdel ms' = None /\ wpending (win ms') = None /\
     store (mbase ms') = store (mbase ms) /\ weights (mbase ms') = weights (mbase ms) /\ used (mbase ms') = used (mbase ms) /\
     ticker (mbase ms') = ticker (mbase ms) /\ st (mbase ms') = st (mbase ms)) /\
  (alookup k (store (mbase ms)) = None -> alookup a (acks (mbase ms')) <> Some (Rejected KeyAlreadyExists)).
Proof.
  intros cfg ms orc c k a q Hwd Hwp Hw Hq Hc Hack ms'. subst ms'. unfold mworker1. cbv zeta.
  rewrite Hwd, Hwp, Hw, Hq.
  assert (Hput : forall v id h w ttl,
    let ms' := fst (mput1 cfg ms orc k v id h w ttl a q) in
    (alookup k (store (mbase ms)) <> None ->
       alookup a (acks (mbase ms')) = Some (Rejected KeyAlreadyExists) /\ wdel ms' = None /\ wpending (win ms') = None /\
       store (mbase ms') = store (mbase ms) /\ weights (mbase ms') = weights (mbase ms) /\ used (mbase ms') = used (mbase ms) /\
       ticker (mbase ms') = ticker (mbase ms) /\ st (mbase ms') = st (mbase ms)) /\
    (alookup k (store (mbase ms)) = None -> alookup a (acks (mbase ms')) <> Some (Rejected KeyAlreadyExists))).
  { intros v id h w ttl. cbv zeta. unfold mput1. cbv zeta.
    change (store (set_queue (mbase ms) q)) with (store (mbase ms)).
    destruct (amem k (store (mbase ms))) eqn:Em.
    - split.
      + intros _. cbn [fst mbase with_mbase win with_base base wdel wpending]. unfold set_ack. sred.
        rewrite alookup_aset_eq. repeat split; try reflexivity; assumption.
      + intros Hn. apply amem_false_iff in Hn. congruence.
    - split; [intros Hn; apply amem_false_iff in Em; contradiction|]. intros _.
      destruct (admission cfg orc k id h w (set_queue (mbase ms) q)) as [[r s1] vs] eqn:E.
      pose proof (admission_xframe _ _ _ _ _ _ _ _ _ _ E) as (_ & X2 & _). sred.
      pose proof (admission_wframe _ _ _ _ _ _ _ _ _ _ E) as (_ & Hst).
      destruct r as [x|site|why]; cbn [fst mbase with_mbase win with_base base].
      + assert (Hx : x <> Rejected KeyAlreadyExists).
        { destruct (Hst x eq_refl) as [->|[->| ->]]; discriminate. }
        destruct x as [| |rj|]; cbn [fst mbase with_mbase win with_base base]; unfold set_ack; sred;
          rewrite ?alookup_aset_eq; try (intros H; injection H as H; congruence).
        rewrite X2, Hack. discriminate.
      + sred. rewrite X2, Hack. discriminate.
      + rewrite Hack. discriminate. }
  destruct c as [k0 v id h w|k0 v id h w ttl|k0|id w|]; cbn [cmd_put_key] in Hc; try discriminate;
    injection Hc as ->; apply Hput.
Qed.

(* STATEMENT (C09 / C02, any state): a split read (get) decides at its `Store::get` step, on the state of that instant:
   absent (and the call ends) exactly when the key is not stored, soft-deleted or past its expiry by the clock of that
   instant; otherwise the value of the live entry is fixed there (kept with the stopped caller) *)
Lemma micro_read_decides_at_lookup : forall cfg ms tid k idxs,
  alookup tid (cps ms) = Some (PEntered (RGet k)) ->
  (lookup_alive k (mbase ms) = None ->
     snd (mstepc cfg ms tid idxs) = [5] /\ alookup tid (cps (fst (mstepc cfg ms tid idxs))) = None) /\
  (forall e, lookup_alive k (mbase ms) = Some e ->
     snd (mstepc cfg ms tid idxs) = [9] /\
     alookup tid (cps (fst (mstepc cfg ms tid idxs))) =
       Some (PHit (key_hash (c_hash cfg) k) (if e_val e =? -1 then [5] else [5; e_val e]))).
Proof.
  intros cfg ms tid k idxs Hp. unfold mstepc. cbv zeta. rewrite Hp. unfold read_lookup. cbv zeta.
  destruct (lookup_alive k (mbase ms)) as [e0|] eqn:El.
  - split; [intros H; discriminate|]. intros e He. injection He as ->. cbn [fst snd set_cp cps].
    split; [reflexivity|apply alookup_aset_eq].
  - split; [|intros e H; discriminate]. intros _. cbn [fst snd end_cp cps]. split; [reflexivity|apply alookup_aremove_eq].
Qed.

(* STATEMENT (C09 / C02, any state): ... and the later `Pool::add` step of that caller returns exactly the value fixed at
   the lookup, whatever the state has become in between (an overwrite, a delete, an expiry, a sweep, a shutdown) *)
Lemma micro_hit_returns_lookup_value : forall cfg ms tid h obs i s',
  alookup tid (cps ms) = Some (PHit h obs) -> pool_add cfg i h (mbase ms) = Some s' ->
  snd (mstepc cfg ms tid [i]) = obs /\ alookup tid (cps (fst (mstepc cfg ms tid [i]))) = None.
Proof.
  intros cfg ms tid h obs i s' Hp Hpa. unfold mstepc. cbv zeta. rewrite Hp, Hpa. cbn [fst snd end_cp cps].
  split; [reflexivity|apply alookup_aremove_eq].
Qed.
