(** What the action-level correspondence of the access pool (harness mode `pool`) compares the real Pool with: every state of
    an observation trace of PoolRun.v is a state of a run of PoolProto.v, so the theorems about all interleavings of
    readers apply to each observation the check makes. *)
From CacheD Require Import Base PoolProto PoolRun.
From CacheD.proofs Require Import PoolProofs.
Open Scope Z_scope.

Lemma ptrace_states : forall groups s st, In st (ptrace s groups) -> exists sched, st = fold_left pstep sched s.
Proof.
  induction groups as [|g rest IH]; intros s st Hin; cbn [ptrace] in Hin; [contradiction|].
  destruct Hin as [Heq | Hin].
  - exists g. symmetry. exact Heq.
  - destruct (IH _ _ Hin) as [sched Hs]. exists (g ++ sched). rewrite fold_left_app. exact Hs.
Qed.

(* STATEMENT (C15): at every state the action-level correspondence observes on the model side - after any number of groups
   of reader actions, for every buffer and channel capacity - every counted hit is in flight, buffered, handed over or
   counted as dropped: none is lost, none counted twice *)
Lemma pool_trace_hits_conserved : forall cap cc groups st,
  In st (ptrace (pinit cap cc) groups) -> q_hits st = in_flight st + buffered st + q_added st + q_dropped st.
Proof.
  intros cap cc groups st Hin. destruct (ptrace_states _ _ _ Hin) as [sched Hs]. subst st.
  exact (hits_conserved cap cc sched).
Qed.

(* STATEMENT (C15): and no buffer ever holds more than its capacity *)
Lemma pool_trace_bounded : forall cap cc groups st i, 1 <= cap -> 0 <= cc ->
  In st (ptrace (pinit cap cc) groups) -> Z.of_nat (length (buf st i)) <= cap.
Proof.
  intros cap cc groups st i Hcap Hcc Hin. destruct (ptrace_states _ _ _ Hin) as [sched Hs]. subst st.
  exact (proj1 (pool_bounded cap cc sched i Hcap Hcc)).
Qed.

(** non-vacuity: one buffer of two slots, three readers; the third hands the full buffer over and stops before clearing it,
    the first waits for the lock and pushes after it *)
Example pool_trace_witness :
  pobs 2 100 [[PHit 1 5 0; PLock 1; PDrain 1; PPush 1; PUnlock 1]; [PHit 2 6 0; PLock 2; PDrain 2; PPush 2; PUnlock 2];
              [PHit 3 7 0; PLock 3; PDrain 3]; [PHit 1 8 0]; [PPush 3; PUnlock 3; PLock 1; PDrain 1; PPush 1; PUnlock 1]]
  = [[[1; 0; 0; 0]; [-1]; [-2]; [0; 5]]; [[2; 0; 0; 0]; [-1]; [-2]; [0; 5; 6]]; [[3; 2; 0; 1]; [-1]; [5; 6]; [-2]; [0]];
     [[4; 2; 0; 2]; [-1]; [5; 6]; [-2]; [0]]; [[4; 2; 0; 0]; [-1]; [5; 6]; [-2]; [0; 7; 8]]].
Proof. vm_compute. reflexivity. Qed.
