(** Proofs about the window model (Window.v): a first half directly followed by its second half is the atomic step of
    Model.v; a schedule without overtaking reaches exactly the states of the atomic model (so every theorem about Model.v
    transfers); with overtaking the expiry sweep can remove a key whose time to live has not passed (two witnesses, the
    known findings of C10 / C08). *)
From CacheD Require Import Base Sketch Model Window.
From CacheD.proofs Require Import Closing SweepProofs AListLemmas.

Lemma sweep_spares_closed :
  forall cfg s k e, wf_config cfg -> Inv cfg s -> sweeper s = Alive ->
  alookup k (store s) = Some e ->
  (e_exp e = None \/ (exists t, e_exp e = Some t /\ now s <= t) \/
   (exists t, e_exp e = Some t /\ shard_index cfg t <> shard_index cfg (now s))) ->
  alookup k (store (step_state cfg s ESweep)) = Some e.
Proof. close_with sweep_spares. Qed.

(** ** small facts about association lists *)
Lemma amem_false_alookup : forall (A : Type) tid (l : list (Z * A)), amem tid l = false -> alookup tid l = None.
Proof.
  intros A tid l H. unfold amem in H. destruct (alookup tid l); [discriminate|reflexivity].
Qed.

Lemma aremove_aset_fresh : forall (A : Type) tid (u : A) (l : list (Z * A)),
  amem tid l = false -> aremove tid (aset tid u l) = l.
Proof.
  intros A tid u l H. apply amem_false_alookup in H.
  unfold aset. cbn [aremove]. rewrite Z.eqb_refl.
  rewrite (aremove_notin tid l H). apply aremove_notin. exact H.
Qed.

(** ** the equations of [wstep], one per event *)
Lemma wstep_upsert1_eq : forall cfg ws tid k v w ttl rm,
  wstep cfg ws (WUpsert1 tid k v w ttl rm) =
  if amem tid (ups ws) || amem tid (blocked (base ws)) then (ws, [6]) else
  if shut (base ws) then (ws, [2]) else
  match upsert_half1 cfg k v w ttl rm (base ws) with
  | inl (s', u) => ({| base := s'; ups := aset tid u (ups ws); wpending := wpending ws |}, [9])
  | inr (s', ret) => (with_base ws s', ret)
  end.
Proof. reflexivity. Qed.

Lemma wstep_upsert2_eq : forall cfg ws tid,
  wstep cfg ws (WUpsert2 tid) =
  match alookup tid (ups ws) with
  | None => (ws, [6])
  | Some u =>
      let '(s', ret) := upsert_half2 cfg tid u (base ws) in
      ({| base := s'; ups := aremove tid (ups ws); wpending := wpending ws |}, ret)
  end.
Proof. reflexivity. Qed.

Lemma wstep_put1_eq : forall cfg ws orc,
  wstep cfg ws (WPut1 orc) =
  match wpending ws with
  | Some _ => (ws, [6])
  | None =>
      match worker_half1 cfg orc (base ws) with
      | inl (s', p) => ({| base := s'; ups := ups ws; wpending := Some p |}, [9])
      | inr (s', ret) => (with_base ws s', ret)
      end
  end.
Proof. reflexivity. Qed.

Lemma wstep_put2_eq : forall cfg ws,
  wstep cfg ws WPut2 =
  match wpending ws with
  | None => (ws, [6])
  | Some p =>
      let '(s', ret) := worker_half2 cfg p (base ws) in
      ({| base := s'; ups := ups ws; wpending := None |}, ret)
  end.
Proof. reflexivity. Qed.

Lemma wstep_base_enabled : forall cfg ws e,
  ups ws = [] -> wpending ws = None ->
  wstep cfg ws (WBase e) = (with_base ws (fst (step cfg (base ws) e)), snd (step cfg (base ws) e)).
Proof.
  intros cfg ws e Hu Hp. unfold wstep. rewrite Hu, Hp.
  assert (He : (match e with
                | ECall tid _ _ | ERun tid => negb (amem tid (@nil (Z * upend)))
                | EWorker _ => true
                | _ => true
                end) = true) by (destruct e; reflexivity).
  rewrite He. destruct (step cfg (base ws) e) as [s' ret]. reflexivity.
Qed.

(** ** the halves of put_or_update against [call_upsert] *)
Lemma upsert_halves_call : forall cfg tid k v w ttl rm s,
  match upsert_half1 cfg k v w ttl rm s with
  | inl (s', u) => upsert_half2 cfg tid u s' = call_upsert cfg tid k v w ttl rm s
  | inr r => r = call_upsert cfg tid k v w ttl rm s /\ snd r <> [9]
  end.
Proof.
  intros cfg tid k v w ttl rm s.
  unfold upsert_half1, call_upsert.
  destruct (alookup k (store s)) as [e|] eqn:Hk.
  - destruct rm.
    + unfold upsert_half2, requested_weight. cbn [u_resp u_k u_v u_w u_ttl u_rm]. reflexivity.
    + destruct ttl as [t|].
      * destruct (calc_expiry (now s) t) as [x|] eqn:Hx.
        -- unfold upsert_half2, requested_weight. cbn [u_resp u_k u_v u_w u_ttl u_rm]. reflexivity.
        -- split; [reflexivity|]. cbn [snd]. discriminate.
      * unfold upsert_half2, requested_weight. cbn [u_resp u_k u_v u_w u_ttl u_rm]. reflexivity.
  - unfold upsert_half2, requested_weight. cbn [u_resp u_k u_v u_w u_ttl u_rm]. reflexivity.
Qed.

(* STATEMENT: put_or_update = second half after first half, when nothing overtakes it: same state, same observation *)
Lemma upsert_halves_compose : forall cfg tid k v w ttl rm idxs ws,
  amem tid (ups ws) = false ->
  let r1 := wstep cfg ws (WUpsert1 tid k v w ttl rm) in
  let r2 := wstep cfg (fst r1) (WUpsert2 tid) in
  let atomic := step cfg (base ws) (ECall tid (RUpsert k v w ttl rm) idxs) in
  base (fst r2) = fst atomic /\ ups (fst r2) = ups ws /\ wpending (fst r2) = wpending ws /\
  snd atomic = (if list_eq_dec Z.eq_dec (snd r1) [9] then snd r2 else snd r1).
Proof.
  intros cfg tid k v w ttl rm idxs ws Hups r1 r2 atomic.
  assert (Hl : alookup tid (ups ws) = None) by (apply amem_false_alookup; exact Hups).
  pose proof (upsert_halves_call cfg tid k v w ttl rm (base ws)) as Hh.
  subst r1 r2 atomic. unfold step, call.
  rewrite wstep_upsert1_eq. rewrite Hups. cbn [orb].
  destruct (amem tid (blocked (base ws))) eqn:Hb.
  { rewrite wstep_upsert2_eq. cbn [fst snd]. rewrite Hl. cbn [fst snd].
    split; [reflexivity|]. split; [reflexivity|]. split; [reflexivity|].
    destruct (list_eq_dec Z.eq_dec [6] [9]) as [E|E]; [discriminate E|reflexivity]. }
  destruct (shut (base ws)) eqn:Hs.
  { rewrite wstep_upsert2_eq. cbn [fst snd]. rewrite Hl. cbn [fst snd].
    split; [reflexivity|]. split; [reflexivity|]. split; [reflexivity|].
    destruct (list_eq_dec Z.eq_dec [2] [9]) as [E|E]; [discriminate E|reflexivity]. }
  destruct (upsert_half1 cfg k v w ttl rm (base ws)) as [[s' u]|[s' ret]] eqn:H1.
  - rewrite wstep_upsert2_eq. cbn [fst snd base ups wpending].
    rewrite alookup_aset_eq. rewrite Hh.
    destruct (call_upsert cfg tid k v w ttl rm (base ws)) as [s'' ret''].
    cbn [fst snd base ups wpending].
    split; [reflexivity|]. split; [apply aremove_aset_fresh; exact Hups|]. split; [reflexivity|].
    destruct (list_eq_dec Z.eq_dec [9] [9]) as [E|E]; [reflexivity|exfalso; apply E; reflexivity].
  - destruct Hh as [Hh Hn9]. rewrite <- Hh.
    rewrite wstep_upsert2_eq. cbn [fst snd with_base base ups wpending]. rewrite Hl.
    cbn [fst snd base ups wpending].
    split; [reflexivity|]. split; [reflexivity|]. split; [reflexivity|]. cbn [snd] in Hn9.
    destruct (list_eq_dec Z.eq_dec ret [9]) as [E|E]; [contradiction|reflexivity].
Qed.

(** ** the halves of a worker step against [worker_step] *)
Lemma worker_step_not9 : forall cfg orc s, snd (worker_step cfg orc s) <> [9].
Proof.
  intros cfg orc s. unfold worker_step.
  destruct (worker s); try (cbn [snd]; discriminate).
  destruct (queue s) as [|[c a] q]; try (cbn [snd]; discriminate).
  destruct c as [k v id h w|k v id h w ttl|k|id w|].
  - destruct (amem k (store (set_queue s q))); [cbn [snd]; discriminate|].
    destruct (admission cfg orc k id h w (set_queue s q)) as [[r s1] vs].
    destruct r as [x|site|why]; [destruct x as [| |rr|]|..]; cbn [snd]; discriminate.
  - destruct (amem k (store (set_queue s q))); [cbn [snd]; discriminate|].
    destruct (admission cfg orc k id h w (set_queue s q)) as [[r s1] vs].
    destruct r as [x|site|why]; [destruct x as [| |rr|]|..]; try (cbn [snd]; discriminate).
    destruct (calc_expiry (now s1) ttl); cbn [snd]; discriminate.
  - destruct (alookup k (store (set_queue s q))) as [e|]; [|cbn [snd]; discriminate].
    destruct (weights_delete cfg (e_id e) false (store_delete k (set_queue s q))); cbn [snd]; discriminate.
  - destruct (weights_update cfg id w (set_queue s q)); cbn [snd]; discriminate.
  - cbn [snd]. discriminate.
Qed.

Lemma worker_halves_step : forall cfg orc s,
  match worker_half1 cfg orc s with
  | inl (s', p) => worker_half2 cfg p s' = worker_step cfg orc s
  | inr r => r = worker_step cfg orc s
  end.
Proof.
  intros cfg orc s. unfold worker_half1.
  destruct (worker s) eqn:Hw; try reflexivity.
  destruct (queue s) as [|[c a] q] eqn:Hq; try reflexivity.
  destruct c as [k v id h w|k v id h w ttl|k|id w|]; try reflexivity.
  destruct (amem k (store (set_queue s q))) eqn:Hm; try reflexivity.
  destruct (admission cfg orc k id h w (set_queue s q)) as [[r s1] vs] eqn:Ha.
  destruct r as [x|site|why]; try reflexivity.
  destruct x as [| |rr|]; try reflexivity.
  destruct (calc_expiry (now s1) ttl) as [e|] eqn:He; try reflexivity.
  unfold worker_step. rewrite Hw, Hq, Hm, Ha, He.
  unfold worker_half2. cbn [p_ack p_id p_exp p_obs]. reflexivity.
Qed.

(* STATEMENT: a worker step = second half after first half, when nothing overtakes it *)
Lemma worker_halves_compose : forall cfg orc ws,
  wpending ws = None ->
  let r1 := wstep cfg ws (WPut1 orc) in
  let r2 := wstep cfg (fst r1) WPut2 in
  let atomic := step cfg (base ws) (EWorker orc) in
  base (fst r2) = fst atomic /\ ups (fst r2) = ups ws /\ wpending (fst r2) = None /\
  snd atomic = (if list_eq_dec Z.eq_dec (snd r1) [9] then snd r2 else snd r1).
Proof.
  intros cfg orc ws Hp r1 r2 atomic.
  pose proof (worker_halves_step cfg orc (base ws)) as Hh.
  pose proof (worker_step_not9 cfg orc (base ws)) as Hn9.
  subst r1 r2 atomic. unfold step.
  rewrite wstep_put1_eq. rewrite Hp.
  destruct (worker_half1 cfg orc (base ws)) as [[s' p]|[s' ret]] eqn:H1.
  - rewrite wstep_put2_eq. cbn [fst snd base ups wpending].
    rewrite Hh. destruct (worker_step cfg orc (base ws)) as [s'' ret''].
    cbn [fst snd base ups wpending].
    split; [reflexivity|]. split; [reflexivity|]. split; [reflexivity|].
    destruct (list_eq_dec Z.eq_dec [9] [9]) as [E|E]; [reflexivity|exfalso; apply E; reflexivity].
  - rewrite <- Hh in *. rewrite wstep_put2_eq. cbn [fst snd with_base base ups wpending]. rewrite Hp.
    cbn [fst snd base ups wpending].
    split; [reflexivity|]. split; [reflexivity|]. split; [exact Hp|]. cbn [snd] in Hn9.
    destruct (list_eq_dec Z.eq_dec ret [9]) as [E|E]; [contradiction|reflexivity].
Qed.

(** ** schedules without overtaking, from any state with no open window *)
Lemma atomic_schedule_refines_gen : forall cfg n evs evs' ws,
  (length evs <= n)%nat -> ups ws = [] -> wpending ws = None ->
  collapse evs = Some evs' ->
  base (fold_left (fun ws ev => fst (wstep cfg ws ev)) evs ws) = run_from cfg (base ws) evs' /\
  ups (fold_left (fun ws ev => fst (wstep cfg ws ev)) evs ws) = [] /\
  wpending (fold_left (fun ws ev => fst (wstep cfg ws ev)) evs ws) = None.
Proof.
  intros cfg n. induction n as [|n IH]; intros evs evs' ws Hlen Hu Hp Hc.
  - destruct evs as [|ev t]; [|cbn [length] in Hlen; lia].
    cbn [collapse] in Hc. injection Hc as Hc. subst evs'. cbn [fold_left]. unfold run_from. cbn [fold_left].
    repeat split; assumption.
  - destruct evs as [|ev t].
    { cbn [collapse] in Hc. injection Hc as Hc. subst evs'. cbn [fold_left]. unfold run_from. cbn [fold_left].
      repeat split; assumption. }
    cbn [length] in Hlen.
    destruct ev as [e|tid k v w ttl rm|tid|orc|].
    + (* WBase *)
      cbn [collapse] in Hc. destruct (collapse t) as [t'|] eqn:Ht; [|discriminate Hc].
      cbn [option_map] in Hc. injection Hc as Hc. subst evs'.
      cbn [fold_left]. rewrite (wstep_base_enabled cfg ws e Hu Hp). cbn [fst].
      assert (Hlen' : (length t <= n)%nat) by lia.
      destruct (IH t t' (with_base ws (fst (step cfg (base ws) e))) Hlen' Hu Hp Ht) as (I1 & I2 & I3).
      split; [|split; assumption].
      rewrite I1. reflexivity.
    + (* WUpsert1 *)
      destruct t as [|ev2 t]; [cbn [collapse] in Hc; discriminate Hc|].
      destruct ev2 as [e2|tid2 k2 v2 w2 ttl2 rm2|tid'|orc2|]; cbn [collapse] in Hc; try discriminate Hc.
      destruct (tid =? tid') eqn:Etid; [|discriminate Hc].
      apply Z.eqb_eq in Etid. subst tid'.
      destruct (collapse t) as [t'|] eqn:Ht; [|discriminate Hc].
      cbn [option_map] in Hc. injection Hc as Hc. subst evs'.
      cbn [fold_left].
      assert (Hm : amem tid (ups ws) = false) by (rewrite Hu; reflexivity).
      destruct (upsert_halves_compose cfg tid k v w ttl rm [] ws Hm) as (C1 & C2 & C3 & _).
      cbv zeta in C1, C2, C3.
      cbn [length] in Hlen. assert (Hlen' : (length t <= n)%nat) by lia.
      rewrite Hu in C2. rewrite Hp in C3.
      destruct (IH t t' _ Hlen' C2 C3 Ht) as (I1 & I2 & I3).
      split; [|split; assumption].
      rewrite I1. rewrite C1. reflexivity.
    + cbn [collapse] in Hc. discriminate Hc.
    + (* WPut1 *)
      destruct t as [|ev2 t]; [cbn [collapse] in Hc; discriminate Hc|].
      destruct ev2 as [e2|tid2 k2 v2 w2 ttl2 rm2|tid'|orc2|]; cbn [collapse] in Hc; try discriminate Hc.
      destruct (collapse t) as [t'|] eqn:Ht; [|discriminate Hc].
      cbn [option_map] in Hc. injection Hc as Hc. subst evs'.
      cbn [fold_left].
      destruct (worker_halves_compose cfg orc ws Hp) as (C1 & C2 & C3 & _).
      cbv zeta in C1, C2, C3.
      cbn [length] in Hlen. assert (Hlen' : (length t <= n)%nat) by lia.
      rewrite Hu in C2.
      destruct (IH t t' _ Hlen' C2 C3 Ht) as (I1 & I2 & I3).
      split; [|split; assumption].
      rewrite I1. rewrite C1. reflexivity.
    + cbn [collapse] in Hc. discriminate Hc.
Qed.

(* STATEMENT: without overtaking the window model reaches exactly the states of the atomic model *)
Lemma atomic_schedule_refines : forall cfg evs evs',
  collapse evs = Some evs' ->
  base (wrun cfg evs) = run_from cfg (init cfg) evs' /\ ups (wrun cfg evs) = [] /\ wpending (wrun cfg evs) = None.
Proof.
  intros cfg evs evs' Hc. unfold wrun.
  exact (atomic_schedule_refines_gen cfg (length evs) evs evs' (winit cfg) (le_n _) eq_refl eq_refl Hc).
Qed.

(* STATEMENT: hence, without overtaking, the invariant of the atomic model holds and a sweep spares every key whose time
   to live has not passed *)
Lemma atomic_schedule_sweep_spares : forall cfg evs evs' k e,
  wf_config cfg -> collapse evs = Some evs' -> Forall valid_event evs' ->
  worker (base (wrun cfg evs)) <> Dead -> sweeper (base (wrun cfg evs)) = Alive ->
  alookup k (store (base (wrun cfg evs))) = Some e ->
  (e_exp e = None \/ exists t, e_exp e = Some t /\ now (base (wrun cfg evs)) <= t) ->
  removed_live cfg (wrun cfg evs) (WBase ESweep) k = false.
Proof.
  intros cfg evs evs' k e Hwf Hc Hval Hnd Hsw Hk Hexp.
  destruct (atomic_schedule_refines cfg evs evs' Hc) as (R1 & R2 & R3).
  assert (HI : Inv cfg (base (wrun cfg evs))).
  { rewrite R1. apply inv_run; [exact Hwf|exact Hval|]. rewrite <- R1. exact Hnd. }
  assert (Hkeep : alookup k (store (step_state cfg (base (wrun cfg evs)) ESweep)) = Some e).
  { apply sweep_spares_closed; try assumption.
    destruct Hexp as [Hn|[t [Ht Hle]]]; [left; exact Hn|right; left; exists t; split; assumption]. }
  unfold removed_live. rewrite Hk.
  rewrite (wstep_base_enabled cfg (wrun cfg evs) ESweep R2 R3).
  cbn [fst with_base base].
  change (fst (step cfg (base (wrun cfg evs)) ESweep)) with (step_state cfg (base (wrun cfg evs)) ESweep).
  unfold amem. rewrite Hkeep. reflexivity.
Qed.

(** the two witnesses (both reproduced on the real cache: corpus schedules window_d11 / window_d12) *)
Definition wcfg : config :=
  {| c_max := 100; c_counters := 16; c_shards := 2; c_queue := 8; c_pool := 1; c_buffer := 2; c_hash := 0; c_wcalc := 1;
     c_seeds := [1; 2; 3; 4]; c_t0 := 1000000000000; c_debug := true |}.
Definition no_orc : worker_oracle := {| o_orders := []; o_pops := []; o_bloom := [(1, false)] |}.

(** D11: a sweep between the two halves of a put_or_update that extends the time to live *)
Definition d11 : list wevent :=
  [WBase (ECall 0 (RPutWTTL 1 1001 30 2000000000) []); WBase (EWorker no_orc); WBase (EAdvance 1500000000);
   WUpsert1 1 1 None None (Some 60000000000) false; WBase (EAdvance 2500000000)].
(** D12: a put_or_update between the worker's store insert and its index registration leaves a second index entry *)
Definition d12 : list wevent :=
  [WBase (ECall 0 (RPutWTTL 1 1001 30 2000000000) []); WPut1 no_orc;
   WBase (ECall 1 (RUpsert 1 None None (Some 61000000000) false) []); WPut2; WBase (EAdvance 3000000000); WBase ESweep;
   WBase (EAdvance 1000000000)].

(* STATEMENT: known finding (C10, C08) - with overtaking, a sweep removes a key whose time to live has not passed *)
Lemma sweep_inside_upsert_window_refuted :
  removed_live wcfg (wrun wcfg d11) (WBase ESweep) 1 = true.
Proof. vm_compute. reflexivity. Qed.

(* STATEMENT: known finding (C10) - a stale second index entry makes a later sweep remove the live key *)
Lemma stale_duplicate_index_entry_refuted :
  removed_live wcfg (wrun wcfg d12) (WBase ESweep) 1 = true.
Proof. vm_compute. reflexivity. Qed.

Print Assumptions upsert_halves_compose.
Print Assumptions worker_halves_compose.
Print Assumptions atomic_schedule_refines.
Print Assumptions atomic_schedule_sweep_spares.
