(** Shared definitions for the proofs about Model.v: well-formed configurations, the core invariant, runs from a
    state, valid requests.  Definitions only. *)
From CacheD Require Export Base Sketch Model.
From CacheD.proofs Require Export SketchProofs.

(** what ConfigBuilder accepts (config/mod.rs:117-121,165-205) plus the harness's four seeds *)
Record wf_config (cfg : config) : Prop := {
  wf_max : 0 < c_max cfg <= i64_max;
  wf_counters : 1 <= c_counters cfg <= two63;
  wf_shards : 1 < c_shards cfg;
  wf_queue : 0 < c_queue cfg;
  wf_pool : 0 < c_pool cfg;
  wf_buffer : 0 < c_buffer cfg;
  wf_seeds : length (c_seeds cfg) = 4%nat;
  wf_t0 : 0 <= c_t0 cfg;
  wf_debug : c_debug cfg = true     (* the theorems are about the overflow-checking profile; see DESIGN *)
}.

(** runs *)
Definition step_state (cfg : config) (s : state) (ev : event) : state := fst (step cfg s ev).
Definition run_from (cfg : config) (s : state) (evs : list event) : state := fold_left (step_state cfg) evs s.

(** the states visited by a run from [s], paired with the event about to happen *)
Fixpoint visits (cfg : config) (s : state) (evs : list event) : list (state * event) :=
  match evs with
  | [] => []
  | ev :: t => (s, ev) :: visits cfg (step_state cfg s ev) t
  end.

(** sum of the charged weights *)
Definition weights_sum (ws : list (Z * wkey)) : Z := zsum (map (fun p => w_weight (snd p)) ws).

(** ids carried by commands *)
Definition cmd_put_id (c : cmd) : option Z :=
  match c with CPut _ _ id _ _ => Some id | CPutTTL _ _ id _ _ _ => Some id | _ => None end.
Definition cmd_weight_ok (c : cmd) : Prop :=
  match c with
  | CPut _ _ _ _ w => 0 < w | CPutTTL _ _ _ _ w _ => 0 < w | CUpdateWeight _ w => 0 < w | _ => True
  end.
Definition cont_cmds (k : cont) : list cmd := match k with KSend c => [c] | _ => [] end.
(** every command that is queued or held by a parked caller *)
Definition pending_cmds (s : state) : list cmd :=
  map fst (queue s) ++ flat_map (fun p => cont_cmds (snd p)) (blocked s).
Fixpoint put_ids (cs : list cmd) : list Z :=
  match cs with
  | [] => []
  | c :: t => match cmd_put_id c with Some id => id :: put_ids t | None => put_ids t end
  end.

Definition ticker_ids (s : state) : list Z := flat_map (fun sh => map fst (snd sh)) (ticker s).

(** * The core invariant of reachable states whose worker has not panicked *)
Record Inv (cfg : config) (s : state) : Prop := {
  (* maps are maps *)
  inv_store_nodup : NoDup (map fst (store s));
  inv_weights_nodup : NoDup (map fst (weights s));
  inv_ticker_nodup : NoDup (map fst (ticker s)) /\ forall sh l, In (sh, l) (ticker s) -> NoDup (map fst l);
  (* every stored entry is charged under its own id, for its own key *)
  inv_store_charged : forall k e, alookup k (store s) = Some e ->
      exists wk, alookup (e_id e) (weights s) = Some wk /\ w_key wk = k;
  (* every charged id is the id of the stored entry of its key: no weight stays charged for a key that is gone *)
  inv_charged_stored : forall id wk, alookup id (weights s) = Some wk ->
      exists e, alookup (w_key wk) (store s) = Some e /\ e_id e = id;
  (* the total is the sum of the charges; charges are positive *)
  inv_used_sum : used s = weights_sum (weights s);
  inv_weights_pos : forall id wk, alookup id (weights s) = Some wk -> 0 < w_weight wk;
  (* expiry index, soundness: an entry lives in the shard of its expiry and, if its id is still charged, it is the
     current expiry of that id's stored entry (entries of ids that are no longer charged are stale and inert) *)
  inv_ticker_sound : forall sh id t, alookup id (shard_entries (ticker s) sh) = Some t ->
      sh = shard_index cfg t /\
      (forall wk, alookup id (weights s) = Some wk ->
         exists e, alookup (w_key wk) (store s) = Some e /\ e_id e = id /\ e_exp e = Some t);
  (* expiry index, completeness: every stored entry with an expiry is indexed under it *)
  inv_ticker_complete : forall k e t, alookup k (store s) = Some e -> e_exp e = Some t ->
      alookup (e_id e) (shard_entries (ticker s) (shard_index cfg t)) = Some t;
  (* ids: everything in use is below next_id; ids of pending puts are fresh and pairwise distinct *)
  inv_ids_weights : forall id wk, alookup id (weights s) = Some wk -> id < next_id s;
  inv_ids_ticker : forall id, In id (ticker_ids s) -> id < next_id s;
  inv_ids_pending : NoDup (put_ids (pending_cmds s)) /\
      forall id, In id (put_ids (pending_cmds s)) ->
        id < next_id s /\ alookup id (weights s) = None /\ ~ In id (ticker_ids s);
  inv_pending_weights : forall c, In c (pending_cmds s) -> cmd_weight_ok c;
  (* the sketch stays well-formed, so the consumer and the estimates never index out of bounds *)
  inv_lfu : wf_lfu (lfu s) /\ lfu_reset_at (lfu s) = c_counters cfg;
  (* ADDED (needed for inductiveness): the total stays representable, so that subtracting a charge on the sweeper
     (used - w with 0 < w <= used) can never trip the overflow check; maintained because every increase goes
     through the checked [add_i64] on the worker, whose panic makes the worker [Dead] *)
  inv_used_range : used s <= i64_max
}.

(** requests that satisfy the documented preconditions (positive explicit weights, a well-formed upsert,
    non-negative durations and clock steps) *)
Definition valid_request (r : request) : Prop :=
  match r with
  | RPutW _ _ w => 0 < w
  | RPutTTL _ _ ttl => 0 <= ttl
  | RPutWTTL _ _ w ttl => 0 < w /\ 0 <= ttl
  | RUpsert _ v w ttl rm =>
      (v <> None \/ w <> None \/ ttl <> None \/ rm = true) /\
      ~ (ttl <> None /\ rm = true) /\
      (forall x, w = Some x -> 0 < x) /\ (forall x, ttl = Some x -> 0 <= x)
  | _ => True
  end.
Definition valid_event (ev : event) : Prop :=
  match ev with
  | ECall _ r _ => valid_request r
  | EAdvance dt => 0 <= dt
  | _ => True
  end.
