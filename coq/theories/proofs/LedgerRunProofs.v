(** What the action-level correspondence (harness mode `ledger`) compares the real CacheWeight with: every state of the
    observation traces of LedgerRun.v is a state of a run of Ledger.v / LedgerUpd.v, so the theorems about all
    interleavings apply to each observation the check makes. *)
From CacheD Require Import Base Ledger LedgerUpd LedgerRun.
From CacheD.proofs Require Import LedgerProofs LedgerUpdProofs.
Open Scope Z_scope.

Lemma gtrace_states : forall groups s st, In st (gtrace s groups) -> exists sched, st = fold_left gstep sched s.
Proof.
  induction groups as [|g rest IH]; intros s st Hin; cbn [gtrace] in Hin; [contradiction|].
  destruct Hin as [Heq | Hin].
  - exists g. symmetry. exact Heq.
  - destruct (IH _ _ Hin) as [sched Hs]. exists (g ++ sched). rewrite fold_left_app. exact Hs.
Qed.

(* STATEMENT (C01): every state the action-level correspondence observes on the model side - after any number of groups of
   ledger actions of the worker and the sweeper - has its total between 0 and the cache weight *)
Lemma ledger_trace_bounded : forall max groups st, 0 < max ->
  In st (gtrace (ginit max) groups) -> 0 <= g_used st <= max.
Proof.
  intros max groups st Hmax Hin. destruct (gtrace_states _ _ _ Hin) as [sched Hs]. subst st.
  exact (ledger_bounded max sched Hmax).
Qed.

(* STATEMENT (C05): and whenever neither thread is half-way through an operation, the total it shows is exactly the sum of
   the charges *)
Lemma ledger_trace_exact_when_quiet : forall max groups st, 0 < max ->
  In st (gtrace (ginit max) groups) -> g_wpc st = WIdle -> g_spending st = None -> g_used st = charges_sum (g_charges st).
Proof.
  intros max groups st Hmax Hin Hpc Hsp. destruct (gtrace_states _ _ _ Hin) as [sched Hs]. subst st.
  exact (ledger_exact_when_quiet max sched Hmax Hpc Hsp).
Qed.

Lemma utrace_states : forall groups s st, In st (utrace s groups) -> exists sched, st = urun true s sched.
Proof.
  induction groups as [|g rest IH]; intros s st Hin; cbn [utrace] in Hin; [contradiction|].
  destruct Hin as [Heq | Hin].
  - exists g. symmetry. exact Heq.
  - destruct (IH _ _ Hin) as [sched Hs]. exists (g ++ sched). unfold urun in *. rewrite fold_left_app. exact Hs.
Qed.

Lemma uinit_consistent : forall charges, NoDup (map fst charges) -> uconsistent (uinit charges).
Proof. intros charges Hnd. unfold uconsistent, uquiet, uinit; cbn. repeat split; try reflexivity. exact Hnd. Qed.

(* STATEMENT (C05): the same for the update model - every observed state in which no update or removal is half-way shows
   a total equal to the sum of the charges, whatever was charged at the start *)
Lemma update_trace_exact_when_quiet : forall charges groups st, NoDup (map fst charges) ->
  In st (utrace (uinit charges) groups) -> uquiet st -> u_used st = charges_sum (u_charges st).
Proof.
  intros charges groups st Hnd Hin Hq. destruct (utrace_states _ _ _ Hin) as [sched Hs]. subst st.
  exact (guarded_update_exact _ sched (uinit_consistent _ Hnd) Hq).
Qed.

(** non-vacuity: the schedule of the probe "sweeper between its two halves, worker letting in a put that needs the space":
    the put finds nothing to evict and gives up; total 6 with no charge until the sweeper subtracts *)
Example ledger_trace_witness :
  gobs 10 [[AStart 1 6]; [ACheck]; [AInsert; AAdd]; [AStart 2 6]; [ASweepRemove 1]; [ACheck]; [AGiveUp]; [ASweepSub]]
  = [[0; 0; -1]; [0; 1; -1]; [6; 0; -1; 1; 6]; [6; 0; -1; 1; 6]; [6; 0; 6]; [6; 0; 6]; [6; 0; 6]; [0; 0; -1]].
Proof. vm_compute. reflexivity. Qed.
