(** Preservation of the invariant by the command worker, the sweeper and the access-count consumer. *)
From CacheD.proofs Require Import Defs AListLemmas InvLemmas InvOps InvCalls.
From Coq Require Import ZifyBool Permutation.

(** * Popping the oldest command *)
Lemma pop_inv : forall cfg s c a q, Inv cfg s -> queue s = (c, a) :: q ->
  Inv cfg (set_queue s q) /\ pending_ok s c /\
  (forall id, cmd_put_id c = Some id -> ~ In id (put_ids (pending_cmds (set_queue s q)))).
Proof.
  intros cfg s c a q HI Hq.
  assert (Hp : pending_cmds s = c :: pending_cmds (set_queue s q)).
  { rewrite (pending_of s _ _ Hq eq_refl). reflexivity. }
  split; [|split].
  - apply (Inv_shrink cfg s _ HI); try reflexivity.
    + intros x. rewrite Hp. rewrite (idcount_cons x c). lia.
    + intros c' H. rewrite Hp. right. exact H.
  - apply (Inv_pending_ok cfg s c HI). rewrite Hp. left. reflexivity.
  - intros id Hid. apply notin_put_ids_idcount.
    pose proof (proj1 (nodup_idcount (pending_cmds s)) (proj1 (inv_ids_pending cfg s HI)) id) as Hold.
    rewrite Hp, (idcount_cons id c), (idcount_one_put id c id Hid) in Hold.
    destruct (Z.eq_dec id id) as [_|Hne]; [lia|contradiction].
Qed.

Lemma drain_queue_frame : forall q s, frameR s (drain_queue q s).
Proof.
  intros q. induction q as [|[c a] t IH]; intros s; cbn [drain_queue].
  - apply frameR_refl.
  - eapply frameR_trans; [|apply IH]. unfold set_ack, frameR. repeat split; reflexivity.
Qed.

(** * Put / PutWithTTL after admission *)
Lemma insert_after_add : forall cfg s0 sm s1 s' k v id h w exp,
  c_debug cfg = true -> Inv cfg sm -> mono s0 sm -> frameA s0 sm -> weights_add cfg k id h w sm = Ok s1 ->
  alookup k (store s0) = None -> alookup id (weights s0) = None -> ~ In id (ticker_ids s0) -> id < next_id s0 ->
  ~ In id (put_ids (pending_cmds s0)) -> 0 < w ->
  store s' = aset k {| e_val := v; e_id := id; e_exp := exp; e_soft := false |} (store s1) ->
  weights s' = weights s1 -> used s' = used s1 ->
  ticker s' = match exp with Some e => ticker_put cfg id e (ticker s1) | None => ticker s1 end ->
  queue s' = queue s1 -> blocked s' = blocked s1 -> next_id s' = next_id s1 -> lfu s' = lfu s1 -> Inv cfg s'.
Proof.
  intros cfg s0 sm s1 s' k v id h w exp Hd HIm [Hms Hmw] Hf0 Hadd Hk Hid Hnt Hlt Hnp Hw0 Hst Hw Hu Htk Hq Hb Hn Hl.
  destruct (weights_add_spec cfg k id h w sm s1 Hd Hadd) as (Aw & Au & Ar & As).
  pose proof (weights_add_frame cfg k id h w sm) as Hf1. rewrite Hadd in Hf1. unfold oframe in Hf1.
  destruct Hf0 as (F1 & F2 & F3 & F4 & F5 & _).
  destruct Hf1 as (G1 & G2 & G3 & G4 & G5 & _).
  assert (Hntm : ~ In id (ticker_ids sm)) by (unfold ticker_ids; rewrite F1; exact Hnt).
  assert (Fnc : forall sh t, ~ tent (ticker sm) sh id t).
  { intros sh t H. apply Hntm. apply (Inv_ticker_ids cfg sm id HIm). exists sh, t. exact H. }
  apply (Inv_insert cfg sm s' k id h w {| e_val := v; e_id := id; e_exp := exp; e_soft := false |} HIm).
  - apply Hms. exact Hk.
  - apply Hmw. exact Hid.
  - exact Hntm.
  - rewrite F4. exact Hlt.
  - rewrite (pending_same s0 sm F2 F3). exact Hnp.
  - exact Hw0.
  - exact Ar.
  - reflexivity.
  - rewrite Hst, As. reflexivity.
  - rewrite Hw, Aw. reflexivity.
  - rewrite Hu, Au. reflexivity.
  - rewrite Htk, G1. destruct exp; [apply ticker_put_wf|]; exact (Inv_ticker_wf cfg sm HIm).
  - intros sh id' t. rewrite Htk, G1. cbn [e_exp]. destruct exp as [e|].
    + rewrite tent_ticker_put. split.
      * intros [(H1 & H2 & H3)|(_ & H)]; [|left; exact H]. subst. right. repeat split; reflexivity.
      * intros [H|(H1 & H2 & H3)].
        -- right. split; [|exact H]. intros [_ Hc]. subst id'. exact (Fnc sh t H).
        -- inversion H2; subst. left. repeat split; reflexivity.
    + split; [intros H; left; exact H|]. intros [H|(_ & H & _)]; [exact H|discriminate].
  - rewrite Hq, G2. reflexivity.
  - rewrite Hb, G3. reflexivity.
  - rewrite Hn, G4. reflexivity.
  - rewrite Hl, G5. reflexivity.
Qed.

(** * Delete *)
Lemma weights_delete_nohook_spec : forall cfg id s wk, c_debug cfg = true -> alookup id (weights s) = Some wk ->
  match weights_delete cfg id false s with
  | Ok s' => weights s' = aremove id (weights s) /\ used s' = used s - w_weight wk /\ store s' = store s
  | Panic _ _ => True
  | Inadmissible _ => False
  end.
Proof.
  intros cfg id s wk Hd Hwk. unfold weights_delete. rewrite Hwk. cbv zeta.
  change (used (set_weights s (aremove id (weights s)))) with (used s).
  destruct (add_i64 cfg (used s) (- w_weight wk)) as [u|] eqn:Hu; [|exact I].
  destruct (add_i64_debug cfg _ _ _ Hd Hu) as [Hu1 _]. subst u.
  repeat split; reflexivity.
Qed.

Lemma delete_cmd_inv : forall cfg s0 k e s2, c_debug cfg = true -> Inv cfg s0 -> alookup k (store s0) = Some e ->
  weights_delete cfg (e_id e) false (store_delete k s0) = Ok s2 ->
  Inv cfg (match e_exp e with
           | Some x => set_ticker s2 (ticker_delete cfg (e_id e) x (ticker s2))
           | None => s2
           end).
Proof.
  intros cfg s0 k e s2 Hd HI0 Hke Hdel.
  destruct (inv_store_charged cfg s0 HI0 k e Hke) as (wk & Hwk & Hwkk).
  assert (Hs1 : store (store_delete k s0) = aremove k (store s0) /\ weights (store_delete k s0) = weights s0 /\
                used (store_delete k s0) = used s0).
  { unfold store_delete. rewrite Hke. repeat split; reflexivity. }
  destruct Hs1 as (S1 & S2 & S3).
  pose proof (store_delete_frame k s0) as F0.
  pose proof (weights_delete_frame cfg (e_id e) false (store_delete k s0)) as F1.
  assert (Hwk1 : alookup (e_id e) (weights (store_delete k s0)) = Some wk) by (rewrite S2; exact Hwk).
  pose proof (weights_delete_nohook_spec cfg (e_id e) (store_delete k s0) wk Hd Hwk1) as Hsp.
  rewrite Hdel in F1, Hsp. unfold oframe in F1. destruct Hsp as (A1 & A2 & A3).
  pose proof (frameA_trans _ _ _ F0 F1) as (T1 & T2 & T3 & T4 & T5 & _).
  assert (HI2 : Inv cfg s2).
  { apply (Inv_evict cfg s0 s2 (e_id e) wk HI0 Hwk); try assumption.
    - rewrite A3, S1, Hwkk. reflexivity.
    - rewrite A1, S2. reflexivity.
    - rewrite A2, S3. reflexivity. }
  destruct (e_exp e) as [x|]; [|exact HI2].
  assert (Hgone : alookup (e_id e) (weights s2) = None).
  { rewrite A1, S2. apply alookup_aremove_eq. }
  apply (Inv_prune cfg s2 _ HI2); try reflexivity.
  - apply ticker_delete_wf. exact (Inv_ticker_wf cfg s2 HI2).
  - intros sh id t H. apply tent_ticker_delete in H. apply H.
  - intros sh id t H Hch. apply tent_ticker_delete. split; [|exact H].
    intros [_ Hc]. subst id. apply Hch. exact Hgone.
Qed.

(** * UpdateWeight *)
Lemma update_cmd_inv : forall cfg s0 id w s1, c_debug cfg = true -> Inv cfg s0 -> 0 < w ->
  weights_update cfg id w s0 = Ok s1 -> Inv cfg s1.
Proof.
  intros cfg s0 id w s1 Hd HI0 Hw0 Hup. unfold weights_update in Hup.
  destruct (alookup id (weights s0)) as [wk|] eqn:Hwk.
  - destruct (add_i64 cfg (used s0) (w - w_weight wk)) as [u|] eqn:Hu; [|discriminate].
    destruct (add_i64_debug cfg _ _ _ Hd Hu) as [Hu1 Hu2]. subst u.
    inversion Hup; subst s1.
    apply (Inv_update_weight cfg s0 _ id wk w HI0 Hwk Hw0); try reflexivity. lia.
  - inversion Hup; subst s1. exact HI0.
Qed.

(** * One command *)
Lemma worker_step_inv : forall cfg orc s, wf_config cfg -> Inv cfg s ->
  worker (fst (worker_step cfg orc s)) <> Dead -> Inv cfg (fst (worker_step cfg orc s)).
Proof.
  intros cfg orc s Hcfg HI Hnd. pose proof (wf_debug cfg Hcfg) as Hd.
  unfold worker_step in *.
  destruct (worker s) eqn:Hwk; try exact HI.
  destruct (queue s) as [|[c a] q] eqn:Hq; [exact HI|].
  cbv zeta in *.
  destruct (pop_inv cfg s c a q HI Hq) as (HI0 & [Hwok Hids] & Hnp).
  destruct c as [k v id h w|k v id h w ttl|k|id w|].
  - (* Put *)
    destruct (Hids id eq_refl) as (Hlt & Hunch & Hnt). specialize (Hnp id eq_refl). cbn [cmd_weight_ok] in Hwok.
    destruct (amem k (store (set_queue s q))) eqn:Hmem.
    + cbn [fst]. apply (Inv_ext cfg _ _ HI0); reflexivity.
    + assert (Hk0 : alookup k (store (set_queue s q)) = None).
      { unfold amem in Hmem. destruct (alookup k (store (set_queue s q))); [discriminate|reflexivity]. }
      destruct (admission cfg orc k id h w (set_queue s q)) as [[r s1] vs] eqn:Ha.
      pose proof (admission_inv cfg orc k id h w _ r s1 vs HI0 Ha) as Hadm.
      destruct r as [stt|site|why].
      * destruct stt as [| |rr|]; cbn [fst] in *.
        -- destruct Hadm as [HI1 _]. apply (Inv_ext cfg _ _ HI1); reflexivity.
        -- destruct Hadm as (sm & HIm & Hmm & Hfm & Hadd).
           apply (insert_after_add cfg (set_queue s q) sm s1 _ k v id h w None Hd HIm Hmm Hfm Hadd);
             try assumption; reflexivity.
        -- destruct Hadm as [HI1 _]. apply (Inv_ext cfg _ _ HI1); reflexivity.
        -- destruct Hadm as [HI1 _]. apply (Inv_ext cfg _ _ HI1); reflexivity.
      * cbn [fst] in Hnd. exfalso. apply Hnd. reflexivity.
      * exact HI.
  - (* PutWithTTL *)
    destruct (Hids id eq_refl) as (Hlt & Hunch & Hnt). specialize (Hnp id eq_refl). cbn [cmd_weight_ok] in Hwok.
    destruct (amem k (store (set_queue s q))) eqn:Hmem.
    + cbn [fst]. apply (Inv_ext cfg _ _ HI0); reflexivity.
    + assert (Hk0 : alookup k (store (set_queue s q)) = None).
      { unfold amem in Hmem. destruct (alookup k (store (set_queue s q))); [discriminate|reflexivity]. }
      destruct (admission cfg orc k id h w (set_queue s q)) as [[r s1] vs] eqn:Ha.
      pose proof (admission_inv cfg orc k id h w _ r s1 vs HI0 Ha) as Hadm.
      destruct r as [stt|site|why].
      * destruct stt as [| |rr|]; cbn [fst] in *.
        -- destruct Hadm as [HI1 _]. apply (Inv_ext cfg _ _ HI1); reflexivity.
        -- destruct Hadm as (sm & HIm & Hmm & Hfm & Hadd).
           destruct (calc_expiry (now s1) ttl) as [e|] eqn:Hce; cbn [fst] in *.
           ++ apply (insert_after_add cfg (set_queue s q) sm s1 _ k v id h w (Some e) Hd HIm Hmm Hfm Hadd);
                try assumption; reflexivity.
           ++ exfalso. apply Hnd. reflexivity.
        -- destruct Hadm as [HI1 _]. apply (Inv_ext cfg _ _ HI1); reflexivity.
        -- destruct Hadm as [HI1 _]. apply (Inv_ext cfg _ _ HI1); reflexivity.
      * cbn [fst] in Hnd. exfalso. apply Hnd. reflexivity.
      * exact HI.
  - (* Delete *)
    destruct (alookup k (store (set_queue s q))) as [e|] eqn:Hke.
    + pose proof (delete_cmd_inv cfg (set_queue s q) k e) as Hdc.
      destruct (weights_delete cfg (e_id e) false (store_delete k (set_queue s q))) as [s2|site s2|why] eqn:Hdel;
        cbn [fst] in *.
      * specialize (Hdc s2 Hd HI0 Hke eq_refl).
        destruct (e_exp e) as [x|]; apply (Inv_ext cfg _ _ Hdc); reflexivity.
      * exfalso. apply Hnd. reflexivity.
      * exact HI0.
    + cbn [fst]. apply (Inv_ext cfg _ _ HI0); reflexivity.
  - (* UpdateWeight *)
    cbn [cmd_weight_ok] in Hwok.
    pose proof (update_cmd_inv cfg (set_queue s q) id w) as Hup.
    destruct (weights_update cfg id w (set_queue s q)) as [s1|site s1|why] eqn:Hu; cbn [fst] in *.
    + specialize (Hup s1 Hd HI0 Hwok eq_refl). apply (Inv_ext cfg _ _ Hup); reflexivity.
    + exfalso. apply Hnd. reflexivity.
    + exact HI0.
  - (* Shutdown *)
    cbn [fst].
    set (sf := set_worker (set_queue (drain_queue q (set_queue s q)) []) Draining).
    destruct (drain_queue_frame q (set_queue s q)) as (D1 & D2 & D3 & D4 & D5 & D6 & D7 & D8 & _).
    assert (Hpf : pending_cmds sf = bcmds (blocked (set_queue s q))).
    { rewrite (pending_of sf [] (blocked (set_queue s q)) eq_refl D8). reflexivity. }
    apply (Inv_shrink cfg (set_queue s q) sf HI0 D1 D2 D3 D4 D5 D6).
    + intros x. rewrite Hpf.
      rewrite (pending_of (set_queue s q) _ _ eq_refl eq_refl). rewrite !idcount_app. lia.
    + intros c' H. rewrite Hpf in H.
      rewrite (pending_of (set_queue s q) _ _ eq_refl eq_refl). apply in_or_app. right. exact H.
Qed.

(** the worker never touches the two other roles *)
Lemma worker_step_bg : forall cfg orc s,
  sweeper (fst (worker_step cfg orc s)) = sweeper s /\ consumer (fst (worker_step cfg orc s)) = consumer s.
Proof.
  intros cfg orc s. unfold worker_step.
  destruct (worker s) eqn:Hwk; try (split; reflexivity).
  destruct (queue s) as [|[c a] q] eqn:Hq; [split; reflexivity|].
  cbv zeta.
  destruct c as [k v id h w|k v id h w ttl|k|id w|].
  - destruct (amem k (store (set_queue s q))); [split; reflexivity|].
    destruct (admission cfg orc k id h w (set_queue s q)) as [[r s1] vs] eqn:Ha.
    pose proof (admission_frame _ _ _ _ _ _ _ _ _ _ Ha) as (_ & _ & _ & _ & _ & _ & F7 & F8 & _).
    destruct r as [stt|site|why]; [destruct stt| |]; cbn [fst]; split; try reflexivity; assumption.
  - destruct (amem k (store (set_queue s q))); [split; reflexivity|].
    destruct (admission cfg orc k id h w (set_queue s q)) as [[r s1] vs] eqn:Ha.
    pose proof (admission_frame _ _ _ _ _ _ _ _ _ _ Ha) as (_ & _ & _ & _ & _ & _ & F7 & F8 & _).
    destruct r as [stt|site|why]; [destruct stt; [|destruct (calc_expiry (now s1) ttl)| |]| |];
      cbn [fst]; split; try reflexivity; assumption.
  - destruct (alookup k (store (set_queue s q))) as [e|]; [|split; reflexivity].
    pose proof (store_delete_frame k (set_queue s q)) as F0.
    pose proof (weights_delete_frame cfg (e_id e) false (store_delete k (set_queue s q))) as F1.
    destruct (weights_delete cfg (e_id e) false (store_delete k (set_queue s q))) as [s2|site s2|why];
      unfold oframe in F1; [| |split; reflexivity].
    + pose proof (frameA_trans _ _ _ F0 F1) as (_ & _ & _ & _ & _ & _ & F7 & F8 & _).
      destruct (e_exp e); cbn [fst]; split; assumption.
    + pose proof (frameA_trans _ _ _ F0 F1) as (_ & _ & _ & _ & _ & _ & F7 & F8 & _).
      cbn [fst]. split; assumption.
  - pose proof (weights_update_frame cfg id w (set_queue s q)) as F1.
    destruct (weights_update cfg id w (set_queue s q)) as [s1|site s1|why]; unfold oframe in F1;
      [| |split; reflexivity]; destruct F1 as (_ & _ & _ & _ & _ & _ & F7 & F8 & _); cbn [fst]; split; assumption.
  - cbn [fst]. destruct (drain_queue_frame q (set_queue s q)) as (_ & _ & _ & _ & _ & _ & _ & _ & _ & D10 & D11 & _).
    split; assumption.
Qed.

(** * Sweeper *)
Lemma sweep_entries_inv : forall cfg n es s, Inv cfg s ->
  exists s2, sweep_entries cfg n es s = Ok s2 /\ Inv cfg s2 /\ mono s s2 /\
             (forall id e, In (id, e) es -> e < n -> alookup id (weights s2) = None).
Proof.
  intros cfg n es. induction es as [|[id e] t IH]; intros s HI; cbn [sweep_entries].
  - exists s. split; [reflexivity|]. split; [exact HI|]. split; [apply mono_refl|]. intros id e [].
  - destruct (e <? n) eqn:Hlt.
    + destruct (weights_delete_hook_spec cfg s id HI) as (s1 & Hd & HI1 & Hm1 & Hg1). rewrite Hd.
      destruct (IH s1 HI1) as (s2 & Hs2 & HI2 & Hm2 & Hg2).
      exists s2. split; [exact Hs2|]. split; [exact HI2|]. split; [eapply mono_trans; eassumption|].
      intros id' e' [H|H] He'.
      * inversion H; subst. apply (proj2 Hm2). exact Hg1.
      * exact (Hg2 id' e' H He').
    + destruct (IH s HI) as (s2 & Hs2 & HI2 & Hm2 & Hg2).
      exists s2. split; [exact Hs2|]. split; [exact HI2|]. split; [exact Hm2|].
      intros id' e' [H|H] He'.
      * inversion H; subst. lia.
      * exact (Hg2 id' e' H He').
Qed.

Lemma weights_delete_set_ticker : forall cfg id hook s tk,
  weights_delete cfg id hook (set_ticker s tk) =
  match weights_delete cfg id hook s with
  | Ok s' => Ok (set_ticker s' tk)
  | Panic site s' => Panic site (set_ticker s' tk)
  | Inadmissible why => Inadmissible why
  end.
Proof.
  intros cfg id hook s tk. unfold weights_delete.
  change (weights (set_ticker s tk)) with (weights s).
  destruct (alookup id (weights s)) as [wk|]; [|reflexivity].
  cbv zeta.
  change (used (set_weights (set_ticker s tk) (aremove id (weights s)))) with (used s).
  change (used (set_weights s (aremove id (weights s)))) with (used s).
  destruct (add_i64 cfg (used s) (- w_weight wk)) as [u|]; [|reflexivity].
  destruct hook; [|reflexivity].
  unfold store_delete.
  change (store (set_used (set_weights (set_ticker s tk) (aremove id (weights s))) u)) with (store s).
  change (store (set_used (set_weights s (aremove id (weights s))) u)) with (store s).
  destruct (alookup (w_key wk) (store s)); reflexivity.
Qed.

Lemma sweep_entries_set_ticker : forall cfg n es s tk s2, sweep_entries cfg n es s = Ok s2 ->
  sweep_entries cfg n es (set_ticker s tk) = Ok (set_ticker s2 tk).
Proof.
  intros cfg n es. induction es as [|[id e] t IH]; intros s tk s2 H; cbn [sweep_entries] in *.
  - inversion H; subst. reflexivity.
  - destruct (e <? n); [|apply IH; exact H].
    rewrite weights_delete_set_ticker.
    destruct (weights_delete cfg id true s) as [s1|site s1|why]; [|discriminate|discriminate].
    apply IH. exact H.
Qed.

Lemma sweep_spec : forall cfg s, Inv cfg s -> sweeper s = Alive ->
  Inv cfg (fst (sweep cfg s)) /\ sweeper (fst (sweep cfg s)) <> Dead.
Proof.
  intros cfg s HI Hsw. unfold sweep. rewrite Hsw. cbv zeta.
  set (sh := shard_index cfg (now s)).
  set (es := shard_entries (ticker s) sh).
  set (keep := filter (fun p : Z * Z => negb (snd p <? now s)) es).
  destruct (sweep_entries_inv cfg (now s) es s HI) as (s2 & Hs2 & HI2 & Hm & Hgone).
  rewrite (sweep_entries_set_ticker cfg (now s) es s (aset sh keep (ticker s)) s2 Hs2).
  pose proof (sweep_entries_frame cfg (now s) es s) as Hf. rewrite Hs2 in Hf. unfold oframe in Hf.
  destruct Hf as (F1 & _ & _ & _ & _ & _ & F7 & _).
  pose proof (Inv_ticker_wf cfg s HI) as Hwf.
  pose proof (shard_entries_nodup (ticker s) sh Hwf) as Hnd. fold es in Hnd.
  assert (HIf : Inv cfg (set_ticker s2 (aset sh keep (ticker s)))).
  { apply (Inv_prune cfg s2 _ HI2); try reflexivity.
    - apply ticker_wf_aset; [exact Hwf|]. apply NoDup_filter_keys. exact Hnd.
    - intros sh' id t H. unfold tent in *. rewrite F1.
      change (ticker (set_ticker s2 (aset sh keep (ticker s)))) with (aset sh keep (ticker s)) in H.
      rewrite shard_entries_aset in H.
      destruct (Z.eqb_spec sh' sh) as [He|Hne]; [|exact H].
      subst sh'. apply (alookup_filter _ id t es Hnd) in H. apply H.
    - intros sh' id t H Hch. unfold tent in *. rewrite F1 in H.
      change (ticker (set_ticker s2 (aset sh keep (ticker s)))) with (aset sh keep (ticker s)).
      rewrite shard_entries_aset.
      destruct (Z.eqb_spec sh' sh) as [He|Hne]; [|exact H].
      subst sh'. apply (alookup_filter _ id t es Hnd). split; [exact H|].
      cbn [snd]. destruct (t <? now s) eqn:Hlt; [|reflexivity].
      exfalso. apply Hch. apply (Hgone id t); [apply alookup_In; exact H|lia]. }
  destruct (sweeper_run (set_ticker s2 (aset sh keep (ticker s)))); cbn [fst].
  - split; [exact HIf|]. change (sweeper (set_ticker s2 (aset sh keep (ticker s)))) with (sweeper s2).
    rewrite F7, Hsw. discriminate.
  - split; [apply (Inv_ext cfg _ _ HIf); reflexivity|]. cbn. discriminate.
Qed.

Lemma sweep_bg : forall cfg s, worker (fst (sweep cfg s)) = worker s /\ consumer (fst (sweep cfg s)) = consumer s.
Proof.
  intros cfg s. unfold sweep. destruct (sweeper s); try (split; reflexivity). cbv zeta.
  match goal with |- context [sweep_entries ?a ?b ?c ?d] =>
    pose proof (sweep_entries_frame a b c d) as Hf; destruct (sweep_entries a b c d) as [s2|site s2|why] end;
    unfold oframe in Hf; [| |split; reflexivity]; destruct Hf as (_ & _ & _ & _ & _ & F6 & _ & F8 & _).
  - destruct (sweeper_run s2); cbn [fst]; split; assumption.
  - cbn [fst]. split; assumption.
Qed.

(** * Consumer *)
Lemma apply_batch_spec : forall hs l bl, wf_lfu l ->
  match apply_batch l hs bl with
  | (LOk l', _) => wf_lfu l' /\ lfu_reset_at l' = lfu_reset_at l
  | (LPanic, _) => False
  | (LInadmissible, _) => True
  end.
Proof.
  intros hs. induction hs as [|h t IH]; intros l bl Hwf; cbn [apply_batch].
  - split; [exact Hwf|reflexivity].
  - destruct bl as [|b bl']; [exact I|].
    destruct (door_admissible (lfu_door l) h b) eqn:Hadm.
    + destruct (lfu_access_spec l h b Hwf Hadm) as (l1 & Ha & Hwf1 & Hr1 & _). rewrite Ha.
      specialize (IH l1 bl' Hwf1). destruct (apply_batch l1 t bl') as [[l2| |] bl2]; [|exact IH|exact I].
      destruct IH as [H1 H2]. split; [exact H1|congruence].
    + unfold lfu_access. rewrite Hadm. cbn [negb]. exact I.
Qed.

Lemma drain_spec : forall cfg bl s, Inv cfg s ->
  Inv cfg (fst (drain cfg bl s)) /\ (consumer s <> Dead -> consumer (fst (drain cfg bl s)) <> Dead).
Proof.
  intros cfg bl s HI. unfold drain.
  destruct (consumer s) eqn:Hc; try (split; [exact HI|intros _; cbn [fst]; rewrite Hc; discriminate]).
  - destruct (chan s) as [|[hs|] rest] eqn:Hch.
    + split; [exact HI|]. intros _. cbn [fst]. rewrite Hc. discriminate.
    + pose proof (apply_batch_spec hs (lfu s) bl (proj1 (inv_lfu cfg s HI))) as Hsp.
      destruct (apply_batch (lfu s) hs bl) as [[l'| |] bl'].
      * destruct Hsp as [Hwf Hr]. destruct bl'.
        -- cbv zeta. destruct (consumer_run (set_lfu (set_chan s rest) l')); cbn [fst].
           ++ split; [apply (Inv_set_lfu cfg s _ HI); try reflexivity; assumption|].
              intros _. cbn. rewrite Hc. discriminate.
           ++ split; [apply (Inv_set_lfu cfg s _ HI); try reflexivity; assumption|].
              intros _. cbn. discriminate.
        -- split; [exact HI|]. intros _. cbn [fst]. rewrite Hc. discriminate.
      * contradiction.
      * split; [exact HI|]. intros _. cbn [fst]. rewrite Hc. discriminate.
    + cbn [fst]. split; [apply (Inv_ext cfg s _ HI); reflexivity|]. intros _. cbn. discriminate.
  - split; [exact HI|]. intros H. exfalso. apply H. reflexivity.
Qed.

Lemma drain_bg : forall cfg bl s, worker (fst (drain cfg bl s)) = worker s /\ sweeper (fst (drain cfg bl s)) = sweeper s.
Proof.
  intros cfg bl s. unfold drain.
  destruct (consumer s); try (split; reflexivity).
  destruct (chan s) as [|[hs|] rest]; try (split; reflexivity).
  destruct (apply_batch (lfu s) hs bl) as [[l'| |] bl']; try (split; reflexivity).
  destruct bl'; [|split; reflexivity].
  cbv zeta. destruct (consumer_run (set_lfu (set_chan s rest) l')); split; reflexivity.
Qed.
