(** C03, the hypothesis as the property states it: "the combined weight of all keys never exceeds the cache weight".
    If every key k is only ever asked to weigh at most [demand k] and the demands of all keys together fit the cache,
    then no put ever meets memory pressure, hence (SweepProofs.no_spurious_loss) an accepted key stays readable. *)
From CacheD.proofs Require Import Defs Closing SweepProofs.
From Coq Require Import ZifyBool.

(** the demands: a finite set of keys, a bound per key, the bounds together fit *)
Record demand_ok (cfg : config) (keys : list Z) (demand : Z -> Z) : Prop := {
  dem_nodup : NoDup keys;
  dem_nonneg : forall k, 0 <= demand k;
  dem_fits : zsum (map demand keys) <= c_max cfg
}.

(** a state stays within the demands: every charge and every weight a pending command asks for is within its key's bound,
    and only keys of the set occur *)
Definition cmd_within (keys : list Z) (demand : Z -> Z) (s : state) (c : cmd) : Prop :=
  match c with
  | CPut k _ _ _ w => In k keys /\ w <= demand k
  | CPutTTL k _ _ _ w _ => In k keys /\ w <= demand k
  | CUpdateWeight id w => forall wk, alookup id (weights s) = Some wk -> w <= demand (w_key wk)
  | _ => True
  end.
Record within_demand (keys : list Z) (demand : Z -> Z) (s : state) : Prop := {
  wd_charges : forall id wk, alookup id (weights s) = Some wk -> In (w_key wk) keys /\ w_weight wk <= demand (w_key wk);
  wd_pending : forall c, In c (pending_cmds s) -> cmd_within keys demand s c
}.

(** memory pressure that matters: the put the worker is about to execute is of an absent key (a put of a stored key is
    refused before admission) and does not fit the free space *)
Definition real_pressure (cfg : config) (s : state) (ev : event) : Prop :=
  match ev with
  | EWorker _ =>
      match queue s with
      | (CPut k _ _ _ w, _) :: _ => alookup k (store s) = None /\ c_max cfg - used s < w
      | (CPutTTL k _ _ _ w _, _) :: _ => alookup k (store s) = None /\ c_max cfg - used s < w
      | _ => False
      end
  | _ => False
  end.

(** * Sums over duplicate-free lists *)
Lemma dm_zsum_nonneg : forall (f : Z -> Z) l, (forall x, 0 <= f x) -> 0 <= zsum (map f l).
Proof.
  intros f l Hnn. induction l as [|y t IH]; cbn [map zsum]; [lia|].
  pose proof (Hnn y). lia.
Qed.

Lemma dm_remove_notin : forall x (l : list Z), ~ In x l -> remove Z.eq_dec x l = l.
Proof.
  intros x l. induction l as [|y t IH]; intros Hnotin; cbn [remove]; [reflexivity|].
  destruct (Z.eq_dec x y) as [Heq|Hne].
  - exfalso. apply Hnotin. left. symmetry. assumption.
  - f_equal. apply IH. intro Hin. apply Hnotin. right. assumption.
Qed.

Lemma dm_in_remove : forall x y (l : list Z), In x (remove Z.eq_dec y l) <-> In x l /\ x <> y.
Proof.
  intros x y l. induction l as [|z t IH]; cbn [remove].
  - cbn [In]. tauto.
  - destruct (Z.eq_dec y z) as [Heq|Hne].
    + subst z. rewrite IH. cbn [In]. split.
      * intros [H1 H2]. split; [right; assumption|assumption].
      * intros [[H1|H1] H2]; [congruence|split; assumption].
    + cbn [In]. rewrite IH. split.
      * intros [H|[H1 H2]]; [subst z; split; [left; reflexivity|congruence]|split; [right; assumption|assumption]].
      * intros [[H1|H1] H2]; [left; assumption|right; split; assumption].
Qed.

Lemma dm_remove_nodup : forall x (l : list Z), NoDup l -> NoDup (remove Z.eq_dec x l).
Proof.
  intros x l. induction l as [|y t IH]; intros Hnd; cbn [remove]; [constructor|].
  inversion Hnd as [|y' t' Hnotin Hnd']; subst.
  destruct (Z.eq_dec x y) as [Heq|Hne]; [apply IH; assumption|].
  constructor; [|apply IH; assumption].
  intro Hin. apply dm_in_remove in Hin. apply Hnotin. tauto.
Qed.

Lemma dm_zsum_remove : forall (f : Z -> Z) x l, NoDup l -> In x l ->
  zsum (map f l) = f x + zsum (map f (remove Z.eq_dec x l)).
Proof.
  intros f x l. induction l as [|y t IH]; intros Hnd Hin; [destruct Hin|].
  inversion Hnd as [|y' t' Hnotin Hnd']; subst.
  cbn [remove]. destruct (Z.eq_dec x y) as [Heq|Hne].
  - subst y. rewrite (dm_remove_notin x t Hnotin). cbn [map zsum]. reflexivity.
  - destruct Hin as [Hin|Hin]; [congruence|]. cbn [map zsum]. rewrite (IH Hnd' Hin). lia.
Qed.

(** charges of pairwise different keys of a duplicate-free key set, each within its key's bound, sum to at most the
    sum of the bounds *)
Lemma dm_charges_le_demand : forall (demand : Z -> Z) (ws : list (Z * wkey)) keys,
  (forall k, 0 <= demand k) ->
  NoDup (map fst ws) -> NoDup keys ->
  (forall i w, In (i, w) ws -> In (w_key w) keys /\ w_weight w <= demand (w_key w)) ->
  (forall i1 w1 i2 w2, In (i1, w1) ws -> In (i2, w2) ws -> w_key w1 = w_key w2 -> i1 = i2) ->
  weights_sum ws <= zsum (map demand keys).
Proof.
  intros demand ws. induction ws as [|[i w] t IH]; intros keys Hnn Hnd Hndk Hin Hinj.
  - unfold weights_sum. cbn [map zsum]. apply dm_zsum_nonneg. assumption.
  - rewrite weights_sum_cons. cbn [map fst] in Hnd. inversion Hnd as [|x xs Hnotin Hnd']; subst.
    destruct (Hin i w (or_introl eq_refl)) as [Hk Hw].
    rewrite (dm_zsum_remove demand (w_key w) keys Hndk Hk).
    assert (Ht : weights_sum t <= zsum (map demand (remove Z.eq_dec (w_key w) keys))); [|lia].
    apply IH; try assumption.
    + apply dm_remove_nodup. assumption.
    + intros i' w' Hin'. destruct (Hin i' w' (or_intror Hin')) as [Hk' Hw']. split; [|assumption].
      apply dm_in_remove. split; [assumption|]. intro Heq.
      assert (Hii : i' = i).
      { apply (Hinj i' w' i w); [right; assumption|left; reflexivity|assumption]. }
      subst i'. apply Hnotin. change i with (fst (i, w')). apply in_map. assumption.
    + intros i1 w1 i2 w2 H1 H2. apply Hinj; right; assumption.
Qed.

(** the free space left for an absent key of the set is at least its bound *)
Lemma used_le_demand : forall cfg keys demand s k,
  Inv cfg s -> demand_ok cfg keys demand -> within_demand keys demand s ->
  In k keys -> alookup k (store s) = None -> used s <= c_max cfg - demand k.
Proof.
  intros cfg keys demand s k HI Hd Hwd Hk Hnone.
  rewrite (inv_used_sum cfg s HI). destruct Hd as [Hndk Hnn Hfits].
  rewrite (dm_zsum_remove demand k keys Hndk Hk) in Hfits.
  assert (Hs : weights_sum (weights s) <= zsum (map demand (remove Z.eq_dec k keys))); [|lia].
  pose proof (inv_weights_nodup cfg s HI) as Hndw.
  apply dm_charges_le_demand; try assumption.
  - apply dm_remove_nodup. assumption.
  - intros i w Hin. apply (sw_In_alookup _ _ _ _ Hndw) in Hin.
    destruct (wd_charges _ _ _ Hwd i w Hin) as [Hkin Hw]. split; [|assumption].
    apply dm_in_remove. split; [assumption|]. intro Heq.
    destruct (inv_charged_stored cfg s HI i w Hin) as (e & He & _).
    rewrite Heq, Hnone in He. discriminate.
  - intros i1 w1 i2 w2 H1 H2 Heq.
    apply (sw_In_alookup _ _ _ _ Hndw) in H1. apply (sw_In_alookup _ _ _ _ Hndw) in H2.
    destruct (inv_charged_stored cfg s HI i1 w1 H1) as (e1 & He1 & Hid1).
    destruct (inv_charged_stored cfg s HI i2 w2 H2) as (e2 & He2 & Hid2).
    rewrite Heq, He2 in He1. inversion He1; subst e1. congruence.
Qed.

(* STATEMENT: the total is the sum of the charges of the stored keys, each within its demand, so the incoming key of an
   absent key always fits *)
Lemma fitting_demand_no_pressure : forall cfg keys demand s ev,
  wf_config cfg -> Inv cfg s -> demand_ok cfg keys demand -> within_demand keys demand s ->
  ~ real_pressure cfg s ev.
Proof.
  intros cfg keys demand s ev Hwf HI Hd Hwd Hp.
  destruct ev as [tid r idxs|tid|orc| |bl|dt|a]; cbn [real_pressure] in Hp; try exact Hp.
  destruct (queue s) as [|[c a] q] eqn:Eq; [exact Hp|].
  assert (Hc : cmd_within keys demand s c).
  { apply (wd_pending _ _ _ Hwd). unfold pending_cmds. rewrite Eq. cbn [map fst]. apply in_or_app. left. left. reflexivity. }
  destruct c as [k v id h w|k v id h w ttl|k|id w|]; try exact Hp.
  - destruct Hp as [Hnone Hlt]. cbn [cmd_within] in Hc. destruct Hc as [Hk Hw].
    pose proof (used_le_demand _ _ _ _ _ HI Hd Hwd Hk Hnone). lia.
  - destruct Hp as [Hnone Hlt]. cbn [cmd_within] in Hc. destruct Hc as [Hk Hw].
    pose proof (used_le_demand _ _ _ _ _ HI Hd Hwd Hk Hnone). lia.
Qed.

(** the lemmas of SweepProofs with their section hypotheses discharged *)
Lemma step_preserves_entry_closed : forall cfg s ev k e, wf_config cfg -> Inv cfg s -> valid_event ev ->
  alookup k (store s) = Some e ->
  ~ touches k s ev -> ~ pressure cfg s ev ->
  (ev = ESweep -> expired_here cfg s e = false) ->
  alookup k (store (step_state cfg s ev)) = Some e.
Proof. close_with step_preserves_entry. Qed.

Lemma run_dead_closed : forall cfg evs s, worker s = Dead -> worker (run_from cfg s evs) = Dead.
Proof. close_with run_dead. Qed.

(** a put of a stored key is refused by the worker; the store stays as it is *)
Lemma worker_step_stored_put : forall cfg orc s c a q k',
  queue s = (c, a) :: q ->
  (exists v id h w, c = CPut k' v id h w) \/ (exists v id h w ttl, c = CPutTTL k' v id h w ttl) ->
  alookup k' (store s) <> None ->
  store (fst (worker_step cfg orc s)) = store s.
Proof.
  intros cfg orc s c a q k' Eq Hc Hst. unfold worker_step. rewrite Eq.
  destruct (worker s); try reflexivity. cbv zeta.
  assert (Hm : amem k' (store (set_queue s q)) = true).
  { unfold amem. proj_simpl. destruct (alookup k' (store s)); [reflexivity|congruence]. }
  destruct Hc as [(v & id & h & w & Hc)|(v & id & h & w & ttl & Hc)]; subst c; rewrite Hm; reflexivity.
Qed.

(* STATEMENT: [step_preserves_entry] with the weaker hypothesis (pressure only counts for puts of absent keys) *)
Lemma step_preserves_entry_real : forall cfg s ev k e, wf_config cfg -> Inv cfg s -> valid_event ev ->
  alookup k (store s) = Some e ->
  ~ touches k s ev -> ~ real_pressure cfg s ev ->
  (ev = ESweep -> expired_here cfg s e = false) ->
  alookup k (store (step_state cfg s ev)) = Some e.
Proof.
  intros cfg s ev k e Hwf HI Hv Hk Ht Hrp Hsw.
  destruct ev as [tid r idxs|tid|orc| |bl|dt|a];
    try (apply step_preserves_entry_closed; try assumption; cbn [pressure]; tauto).
  destruct (queue s) as [|[c a] q] eqn:Eq.
  { apply step_preserves_entry_closed; try assumption. cbn [pressure]. rewrite Eq. tauto. }
  cbn [real_pressure] in Hrp. rewrite Eq in Hrp. cbv beta iota in Hrp.
  destruct c as [k' v id h w|k' v id h w ttl|k'|id w|];
    try (apply step_preserves_entry_closed; try assumption; cbn [pressure]; rewrite Eq; tauto).
  - destruct (alookup k' (store s)) as [e'|] eqn:Ek'.
    + unfold step_state, step.
      rewrite (worker_step_stored_put cfg orc s _ a q k' Eq); [exact Hk| |congruence].
      left. exists v, id, h, w. reflexivity.
    + apply step_preserves_entry_closed; try assumption. cbn [pressure]. rewrite Eq.
      intro Hp. apply Hrp. split; [reflexivity|assumption].
  - destruct (alookup k' (store s)) as [e'|] eqn:Ek'.
    + unfold step_state, step.
      rewrite (worker_step_stored_put cfg orc s _ a q k' Eq); [exact Hk| |congruence].
      right. exists v, id, h, w, ttl. reflexivity.
    + apply step_preserves_entry_closed; try assumption. cbn [pressure]. rewrite Eq.
      intro Hp. apply Hrp. split; [reflexivity|assumption].
Qed.

(* STATEMENT: C03 as stated: if the states visited stay within demands that fit the cache, an accepted key stays
   readable with its value until it is touched itself or its time-to-live elapses *)
Lemma no_spurious_loss_fitting_demand : forall evs cfg keys demand s k e,
  wf_config cfg -> Inv cfg s -> worker s <> Dead -> demand_ok cfg keys demand ->
  alookup k (store s) = Some e -> e_soft e = false ->
  Forall valid_event evs ->
  Forall (fun p => within_demand keys demand (fst p) /\ ~ touches k (fst p) (snd p)) (visits cfg s evs) ->
  let s' := run_from cfg s evs in
  worker s' <> Dead ->
  (forall t, e_exp e = Some t -> now s' <= t) ->
  alookup k (store s') = Some e /\ served_value k s' = e_val e.
Proof.
  induction evs as [|ev evs IH]; intros cfg keys demand s k e Hwf HI Hw Hd Hk Hsoft Hval Hvis s' Hw' Hexp; subst s'.
  - unfold run_from in *. cbn [fold_left] in *. split; [assumption|]. apply served_of_entry; assumption.
  - pose proof (run_now_monotone cfg (ev :: evs) s Hval) as Hmono.
    inversion Hval as [|x xs Hv Hvs]; subst.
    cbn [visits] in Hvis. inversion Hvis as [|y ys Hhd Htl]; subst. cbn [fst snd] in Hhd. destruct Hhd as [Hwd Ht].
    change (run_from cfg s (ev :: evs)) with (run_from cfg (step_state cfg s ev) evs) in *.
    set (s1 := step_state cfg s ev) in *.
    assert (Hw1 : worker s1 <> Dead).
    { intro Hdead. apply Hw'. apply run_dead_closed. assumption. }
    assert (HI1 : Inv cfg s1) by (apply inv_step; assumption).
    assert (Hk1 : alookup k (store s1) = Some e).
    { apply step_preserves_entry_real; try assumption.
      - apply (fitting_demand_no_pressure cfg keys demand s ev); assumption.
      - intros _. unfold expired_here. destruct (e_exp e) as [t|] eqn:Ee; [|reflexivity].
        specialize (Hexp t eq_refl). lia. }
    apply (IH cfg keys demand s1 k e); assumption.
Qed.

Print Assumptions fitting_demand_no_pressure.
Print Assumptions step_preserves_entry_real.
Print Assumptions no_spurious_loss_fitting_demand.
