(** The core invariant is inductive: it holds initially and is preserved by every event of the model, as long as
    the command worker has not panicked.  Consumers: C03, C04, C05, C10, C16, C01 (lower bound).
    The work is done in AListLemmas.v, InvLemmas.v, InvOps.v, InvCalls.v and InvWorker.v. *)
From CacheD.proofs Require Import Defs.
From Coq Require Import ZifyBool Permutation.
From CacheD.proofs Require Import AListLemmas InvLemmas InvOps InvCalls InvWorker.

(* STATEMENT *)
Lemma inv_init : forall cfg, wf_config cfg -> Inv cfg (init cfg).
Proof.
  intros cfg Hcfg.
  constructor; unfold ticker_ids, pending_cmds, init;
    cbn [store weights used ticker queue blocked lfu next_id map flat_map app put_ids].
  - constructor.
  - constructor.
  - exact ticker_wf_nil.
  - intros k e H. discriminate.
  - intros id wk H. discriminate.
  - reflexivity.
  - intros id wk H. discriminate.
  - intros sh id t H. discriminate.
  - intros k e t H. discriminate.
  - intros id wk H. discriminate.
  - intros id [].
  - split; [constructor|]. intros id [].
  - intros c [].
  - split; [|reflexivity]. apply lfu_new_wf; [exact (wf_counters cfg Hcfg)|exact (wf_seeds cfg Hcfg)].
  - unfold i64_max. lia.
Qed.

(** a dead worker stays dead *)
(* STATEMENT *)
Lemma dead_absorbing : forall cfg s ev, worker s = Dead -> worker (step_state cfg s ev) = Dead.
Proof.
  intros cfg s ev Hd. unfold step_state, step. destruct ev as [tid r idxs|tid|orc| |bl|dt|a].
  - rewrite (proj1 (call_roles cfg tid r idxs s)). exact Hd.
  - rewrite (proj1 (resume_roles cfg tid s)). exact Hd.
  - unfold worker_step. rewrite Hd. exact Hd.
  - rewrite (proj1 (sweep_bg cfg s)). exact Hd.
  - rewrite (proj1 (drain_bg cfg bl s)). exact Hd.
  - exact Hd.
  - exact Hd.
Qed.

(* STATEMENT *)
Lemma inv_step : forall cfg s ev, wf_config cfg -> Inv cfg s -> valid_event ev ->
  worker (step_state cfg s ev) <> Dead -> Inv cfg (step_state cfg s ev).
Proof.
  intros cfg s ev Hcfg HI _ Hnd. unfold step_state, step in *. destruct ev as [tid r idxs|tid|orc| |bl|dt|a].
  - apply call_inv. exact HI.
  - apply resume_inv. exact HI.
  - apply worker_step_inv; assumption.
  - destruct (sweeper s) eqn:Hsw.
    + apply sweep_spec; assumption.
    + unfold sweep. rewrite Hsw. exact HI.
    + unfold sweep. rewrite Hsw. exact HI.
    + unfold sweep. rewrite Hsw. exact HI.
  - apply drain_spec. exact HI.
  - cbn [fst]. apply (Inv_ext cfg s _ HI); reflexivity.
  - exact HI.
Qed.

Lemma run_dead : forall cfg evs s, worker s = Dead -> worker (run_from cfg s evs) = Dead.
Proof.
  intros cfg evs. induction evs as [|ev t IH]; intros s Hd.
  - exact Hd.
  - unfold run_from. cbn [fold_left]. apply IH. apply dead_absorbing. exact Hd.
Qed.

Lemma inv_run_from : forall cfg evs s, wf_config cfg -> Inv cfg s -> Forall valid_event evs ->
  worker (run_from cfg s evs) <> Dead -> Inv cfg (run_from cfg s evs).
Proof.
  intros cfg evs. induction evs as [|ev t IH]; intros s Hcfg HI Hval Hnd.
  - exact HI.
  - inversion Hval as [|x xs Hev Ht]; subst.
    unfold run_from in *. cbn [fold_left] in *.
    apply IH; try assumption.
    apply inv_step; try assumption.
    intros Hd. apply Hnd. apply (run_dead cfg t). exact Hd.
Qed.

(* STATEMENT: every state reachable by a run of valid events in which the worker did not panic satisfies Inv *)
Lemma inv_run : forall cfg evs, wf_config cfg -> Forall valid_event evs ->
  worker (run_from cfg (init cfg) evs) <> Dead -> Inv cfg (run_from cfg (init cfg) evs).
Proof.
  intros cfg evs Hcfg Hval Hnd. apply inv_run_from; try assumption. apply inv_init. exact Hcfg.
Qed.

(** the sweeper and the consumer never panic from a state satisfying Inv *)
(* STATEMENT *)
Lemma inv_background_alive : forall cfg s ev, wf_config cfg -> Inv cfg s -> valid_event ev ->
  (sweeper s <> Dead -> sweeper (step_state cfg s ev) <> Dead) /\
  (consumer s <> Dead -> consumer (step_state cfg s ev) <> Dead).
Proof.
  intros cfg s ev Hcfg HI _. unfold step_state, step. destruct ev as [tid r idxs|tid|orc| |bl|dt|a].
  - destruct (call_roles cfg tid r idxs s) as (_ & R2 & R3). rewrite R2, R3. split; auto.
  - destruct (resume_roles cfg tid s) as (_ & R2 & R3). rewrite R2, R3. split; auto.
  - destruct (worker_step_bg cfg orc s) as (R2 & R3). rewrite R2, R3. split; auto.
  - destruct (sweep_bg cfg s) as (_ & R3). rewrite R3. split; [|auto].
    intros Hsw. destruct (sweeper s) eqn:E.
    + apply sweep_spec; assumption.
    + unfold sweep. rewrite E. cbn [fst]. rewrite E. discriminate.
    + unfold sweep. rewrite E. cbn [fst]. rewrite E. discriminate.
    + contradiction.
  - destruct (drain_bg cfg bl s) as (_ & R2). rewrite R2. split; [auto|].
    apply drain_spec. exact HI.
  - cbn [fst]. split; auto.
  - cbn [fst]. split; auto.
Qed.

(** C05: the total equals the sum of the charges of exactly the stored keys *)
Definition charge_of (s : state) (e : entry) : Z :=
  match alookup (e_id e) (weights s) with Some wk => w_weight wk | None => 0 end.

Definition charge_in (ws : list (Z * wkey)) (e : entry) : Z :=
  match alookup (e_id e) ws with Some wk => w_weight wk | None => 0 end.

Lemma bijection_sum : forall (st : list (Z * entry)) (ws : list (Z * wkey)),
  NoDup (map fst st) -> NoDup (map fst ws) ->
  (forall k e, alookup k st = Some e -> exists wk, alookup (e_id e) ws = Some wk /\ w_key wk = k) ->
  (forall id wk, alookup id ws = Some wk -> exists e, alookup (w_key wk) st = Some e /\ e_id e = id) ->
  weights_sum ws = zsum (map (fun p => charge_in ws (snd p)) st) /\ length ws = length st.
Proof.
  intros st. induction st as [|[k e] st' IH]; intros ws Hnds Hndw Hsc Hcs.
  - destruct ws as [|[id wk] ws'].
    + split; reflexivity.
    + exfalso. destruct (Hcs id wk) as (e & He & _); [cbn [alookup]; rewrite Z.eqb_refl; reflexivity|].
      discriminate.
  - inversion Hnds as [|x xs Hnot Hnds']; subst.
    assert (Hke : alookup k ((k, e) :: st') = Some e) by (cbn [alookup]; rewrite Z.eqb_refl; reflexivity).
    destruct (Hsc k e Hke) as (wk & Hwk & Hwkk).
    assert (Hst' : forall k' e', alookup k' st' = Some e' -> k' <> k /\ alookup k' ((k, e) :: st') = Some e').
    { intros k' e' H. assert (Hne : k' <> k).
      { intros Heq. subst k'. apply Hnot. eapply alookup_Some_in_keys. exact H. }
      split; [exact Hne|]. cbn [alookup]. destruct (Z.eqb_spec k' k) as [Heq|_]; [contradiction|exact H]. }
    assert (Hid' : forall k' e', alookup k' st' = Some e' -> e_id e' <> e_id e).
    { intros k' e' H Heq. destruct (Hst' k' e' H) as [Hne H0].
      destruct (Hsc k' e' H0) as (wk' & Hwk' & Hk'). rewrite Heq, Hwk in Hwk'. inversion Hwk'; subst wk'.
      congruence. }
    destruct (IH (aremove (e_id e) ws)) as [Hsum Hlen].
    + exact Hnds'.
    + apply NoDup_aremove. exact Hndw.
    + intros k' e' H. destruct (Hst' k' e' H) as [Hne H0].
      destruct (Hsc k' e' H0) as (wk' & Hwk' & Hk'). exists wk'. split; [|exact Hk'].
      rewrite alookup_aremove_neq; [exact Hwk'|]. exact (Hid' k' e' H).
    + intros id' wk' H. rewrite alookup_aremove in H.
      destruct (Z.eqb_spec id' (e_id e)) as [Heq|Hne]; [discriminate|].
      destruct (Hcs id' wk' H) as (e' & He' & Hide'). exists e'. split; [|exact Hide'].
      cbn [alookup] in He'. destruct (Z.eqb_spec (w_key wk') k) as [Heq|_]; [|exact He'].
      inversion He' as [Hee]. rewrite Hee in Hne. exfalso. apply Hne. symmetry. exact Hide'.
    + split.
      * rewrite (weights_sum_aremove (e_id e) wk ws Hndw Hwk). cbn [map zsum snd].
        unfold charge_in at 1. rewrite Hwk. rewrite Hsum. f_equal. f_equal.
        apply map_ext_in. intros [k' e'] Hin. cbn [snd]. unfold charge_in.
        rewrite alookup_aremove_neq; [reflexivity|].
        apply (Hid' k' e'). apply In_alookup; assumption.
      * rewrite (length_aremove (e_id e) wk ws Hndw Hwk). cbn [length]. rewrite Hlen. reflexivity.
Qed.

(* STATEMENT *)
Lemma accounting_exact : forall cfg s, Inv cfg s ->
  used s = zsum (map (fun p => charge_of s (snd p)) (store s)) /\
  length (weights s) = length (store s) /\
  (forall id wk, alookup id (weights s) = Some wk -> exists e, alookup (w_key wk) (store s) = Some e /\ e_id e = id) /\
  (forall k e, alookup k (store s) = Some e -> exists wk, alookup (e_id e) (weights s) = Some wk /\ w_key wk = k).
Proof.
  intros cfg s HI.
  destruct (bijection_sum (store s) (weights s) (inv_store_nodup cfg s HI) (inv_weights_nodup cfg s HI)
              (inv_store_charged cfg s HI) (inv_charged_stored cfg s HI)) as [Hsum Hlen].
  split; [|split; [exact Hlen|split]].
  - rewrite (inv_used_sum cfg s HI). exact Hsum.
  - exact (inv_charged_stored cfg s HI).
  - exact (inv_store_charged cfg s HI).
Qed.

(* STATEMENT *)
Lemma used_nonneg : forall cfg s, Inv cfg s -> 0 <= used s.
Proof.
  intros cfg s HI. rewrite (inv_used_sum cfg s HI).
  apply weights_sum_nonneg; [exact (inv_weights_nodup cfg s HI)|exact (inv_weights_pos cfg s HI)].
Qed.
