(** Admission (C06) and the weight bound (C01) on the phase-contiguous model. *)
From CacheD.proofs Require Import Defs.
From Coq Require Import ZifyBool.

(** * Helper facts that do not depend on the section hypotheses *)

(** ** association lists *)
Lemma alookup_aremove : forall (A : Type) k k' (l : list (Z * A)),
  alookup k (aremove k' l) = if k =? k' then None else alookup k l.
Proof.
  intros A k k' l. induction l as [|[k0 v] t IH]; cbn [alookup aremove].
  - destruct (k =? k'); reflexivity.
  - destruct (k' =? k0) eqn:E1.
    + rewrite IH. destruct (k =? k') eqn:E2; [reflexivity|].
      destruct (k =? k0) eqn:E3; [lia|reflexivity].
    + cbn [alookup]. destruct (k =? k0) eqn:E3.
      * destruct (k =? k') eqn:E2; [lia|reflexivity].
      * exact IH.
Qed.

Lemma alookup_aset : forall (A : Type) k k' (v : A) (l : list (Z * A)),
  alookup k (aset k' v l) = if k =? k' then Some v else alookup k l.
Proof.
  intros A k k' v l. unfold aset. cbn [alookup]. destruct (k =? k') eqn:E; [reflexivity|].
  rewrite alookup_aremove, E. reflexivity.
Qed.

Lemma alookup_In : forall (A : Type) k (v : A) (l : list (Z * A)),
  alookup k l = Some v -> In (k, v) l.
Proof.
  intros A k v l. induction l as [|[k0 v0] t IH]; cbn [alookup]; intros H; [discriminate|].
  destruct (k =? k0) eqn:E.
  - inversion H; subst. assert (k = k0) by lia. subst. left. reflexivity.
  - right. apply IH. exact H.
Qed.

Lemma alookup_In_fst : forall (A : Type) k (v : A) (l : list (Z * A)),
  alookup k l = Some v -> In k (map fst l).
Proof.
  intros A k v l H. apply alookup_In in H. apply (in_map fst) in H. exact H.
Qed.

Lemma In_fst_alookup : forall (A : Type) k (l : list (Z * A)),
  In k (map fst l) -> exists v, alookup k l = Some v.
Proof.
  intros A k l. induction l as [|[k0 v0] t IH]; cbn [map fst In alookup]; intros H; [contradiction|].
  destruct (k =? k0) eqn:E; [eexists; reflexivity|].
  destruct H as [H|H]; [lia|]. apply IH. exact H.
Qed.

Lemma NoDup_In_alookup : forall (A : Type) k (v : A) (l : list (Z * A)),
  NoDup (map fst l) -> In (k, v) l -> alookup k l = Some v.
Proof.
  intros A k v l. induction l as [|[k0 v0] t IH]; cbn [map fst In alookup]; intros Hnd H; [contradiction|].
  inversion Hnd as [|? ? Hnot Hnd']; subst.
  destruct H as [H|H].
  - inversion H; subst. rewrite Z.eqb_refl. reflexivity.
  - destruct (k =? k0) eqn:E.
    + assert (k = k0) by lia. subst. exfalso. apply Hnot. apply (in_map fst) in H. exact H.
    + apply IH; assumption.
Qed.

Lemma length_aremove_le : forall (A : Type) k (l : list (Z * A)), (length (aremove k l) <= length l)%nat.
Proof.
  intros A k l. induction l as [|[k0 v0] t IH]; cbn [aremove length]; [lia|].
  destruct (k =? k0); cbn [length]; lia.
Qed.

Lemma length_aremove_lt : forall (A : Type) k (v : A) (l : list (Z * A)),
  alookup k l = Some v -> (length (aremove k l) < length l)%nat.
Proof.
  intros A k v l. induction l as [|[k0 v0] t IH]; cbn [alookup aremove length]; intros H; [discriminate|].
  destruct (k =? k0) eqn:E.
  - pose proof (length_aremove_le _ k t). lia.
  - cbn [length]. specialize (IH H). lia.
Qed.

Lemma zmem_In : forall x l, zmem x l = true <-> In x l.
Proof.
  intros x l. induction l as [|y t IH]; cbn [zmem In].
  - split; [discriminate|contradiction].
  - destruct (x =? y) eqn:E.
    + split; [intros _; left; lia|reflexivity].
    + rewrite IH. split; [intros H; right; exact H|intros [H|H]; [lia|exact H]].
Qed.

Lemma NoDup_map_filter : forall (A B : Type) (g : A -> B) (f : A -> bool) (l : list A),
  NoDup (map g l) -> NoDup (map g (filter f l)).
Proof.
  intros A B g f l. induction l as [|a t IH]; cbn [map filter]; intros H; [constructor|].
  inversion H as [|? ? Hnot Hnd]; subst.
  destruct (f a); cbn [map]; [|apply IH; exact Hnd].
  constructor; [|apply IH; exact Hnd].
  intros Hin. apply Hnot. apply in_map_iff in Hin. destruct Hin as (x & Hx & Hin).
  apply filter_In in Hin. apply in_map_iff. exists x. split; [exact Hx|apply Hin].
Qed.

(** ** sums of positive charges *)
Definition wpos (ws : list (Z * wkey)) : Prop := forall id wk, alookup id ws = Some wk -> 0 < w_weight wk.

Lemma wpos_aremove : forall ws id, wpos ws -> wpos (aremove id ws).
Proof.
  intros ws id H id' wk Hl. rewrite alookup_aremove in Hl. destruct (id' =? id); [discriminate|].
  apply (H id' wk Hl).
Qed.

Lemma weights_sum_nonneg : forall ws, NoDup (map fst ws) -> wpos ws -> 0 <= weights_sum ws.
Proof.
  intros ws Hnd Hpos.
  assert (Hall : forall p, In p ws -> 0 < w_weight (snd p)).
  { intros [id wk] Hin. cbn [snd]. apply (Hpos id wk). apply NoDup_In_alookup; assumption. }
  clear Hnd Hpos. unfold weights_sum. induction ws as [|p t IH]; cbn [map zsum]; [lia|].
  assert (0 < w_weight (snd p)) by (apply Hall; left; reflexivity).
  assert (0 <= zsum (map (fun p0 : Z * wkey => w_weight (snd p0)) t)) by (apply IH; intros q Hq; apply Hall; right; exact Hq).
  lia.
Qed.

Lemma inv_wpos : forall cfg s, Inv cfg s -> wpos (weights s).
Proof. intros cfg s H. exact (inv_weights_pos _ _ H). Qed.

Lemma inv_used_nonneg : forall cfg s, Inv cfg s -> 0 <= used s.
Proof.
  intros cfg s H. rewrite (inv_used_sum _ _ H). apply weights_sum_nonneg; [exact (inv_weights_nodup _ _ H)|exact (inv_wpos _ _ H)].
Qed.

(** ** i64 addition under the checking profile *)
Lemma add_i64_debug : forall cfg a b u, c_debug cfg = true -> add_i64 cfg a b = Some u -> u = a + b /\ in_i64 (a + b) = true.
Proof.
  intros cfg a b u Hd. unfold add_i64. rewrite Hd. destruct (in_i64 (a + b)) eqn:E; intros H; inversion H. split; reflexivity.
Qed.

Lemma add_i64_in_range : forall cfg a b, i64_min <= a + b <= i64_max -> add_i64 cfg a b = Some (a + b).
Proof.
  intros cfg a b H. unfold add_i64. replace (in_i64 (a + b)) with true; [reflexivity|].
  unfold in_i64. symmetry. apply andb_true_intro. split; lia.
Qed.

(** ** the ledger primitives: which fields change *)

(** fields that admission never touches *)
Definition same_outside_ledger (s s' : state) : Prop :=
  ticker s' = ticker s /\ queue s' = queue s /\ acks s' = acks s /\ lfu s' = lfu s /\ pool s' = pool s /\
  chan s' = chan s /\ now s' = now s /\ next_id s' = next_id s /\ next_ack s' = next_ack s /\ shut s' = shut s /\
  consumer_run s' = consumer_run s /\ sweeper_run s' = sweeper_run s /\ worker s' = worker s /\
  sweeper s' = sweeper s /\ consumer s' = consumer s /\ blocked s' = blocked s.

Lemma sol_refl : forall s, same_outside_ledger s s.
Proof. intros s. unfold same_outside_ledger. repeat split. Qed.

Lemma sol_trans : forall s1 s2 s3, same_outside_ledger s1 s2 -> same_outside_ledger s2 s3 -> same_outside_ledger s1 s3.
Proof.
  unfold same_outside_ledger. intros s1 s2 s3 H1 H2.
  destruct H1 as (A1 & A2 & A3 & A4 & A5 & A6 & A7 & A8 & A9 & A10 & A11 & A12 & A13 & A14 & A15 & A16).
  destruct H2 as (B1 & B2 & B3 & B4 & B5 & B6 & B7 & B8 & B9 & B10 & B11 & B12 & B13 & B14 & B15 & B16).
  repeat split; congruence.
Qed.

Lemma store_delete_sol : forall k s, same_outside_ledger s (store_delete k s) /\ used (store_delete k s) = used s /\
  weights (store_delete k s) = weights s /\
  (forall k', alookup k' (store (store_delete k s)) = if k =? k' then None else alookup k' (store s)).
Proof.
  intros k s. unfold store_delete. destruct (alookup k (store s)) eqn:E.
  - cbn. split; [unfold same_outside_ledger; cbn; repeat split|]. split; [reflexivity|]. split; [reflexivity|].
    intros k'. rewrite alookup_aremove. rewrite (Z.eqb_sym k' k). reflexivity.
  - split; [apply sol_refl|]. split; [reflexivity|]. split; [reflexivity|].
    intros k'. destruct (k =? k') eqn:E'; [|reflexivity]. assert (k = k') by lia. subst. exact E.
Qed.

(** every outcome of [weights_delete]: the resulting (or partial) state differs only in store / ledger / statistics *)
Lemma weights_delete_sol : forall cfg id hook s s',
  (weights_delete cfg id hook s = Ok s' \/ exists site, weights_delete cfg id hook s = Panic site s') ->
  same_outside_ledger s s'.
Proof.
  intros cfg id hook s s'. unfold weights_delete.
  destruct (alookup id (weights s)) as [wk|] eqn:E.
  - destruct (add_i64 cfg (used (set_weights s (aremove id (weights s)))) (- w_weight wk)) as [u|] eqn:Ea.
    + intros [H|[site H]]; [|discriminate]. inversion H; subst. clear H.
      destruct hook.
      * eapply sol_trans; [|unfold same_outside_ledger; cbn; repeat split].
        eapply sol_trans; [|apply store_delete_sol]. unfold same_outside_ledger; cbn; repeat split.
      * unfold same_outside_ledger; cbn; repeat split.
    + intros [H|[site H]]; [discriminate|]. inversion H; subst. unfold same_outside_ledger; cbn; repeat split.
  - intros [H|[site H]]; [|discriminate]. inversion H; subst. apply sol_refl.
Qed.

Lemma weights_delete_not_inadmissible : forall cfg id hook s why, weights_delete cfg id hook s <> Inadmissible why.
Proof.
  intros cfg id hook s why. unfold weights_delete.
  destruct (alookup id (weights s)); [|discriminate].
  destruct (add_i64 cfg _ _); discriminate.
Qed.

(** a successful eviction under the checking profile *)
Lemma weights_delete_hook_ok : forall cfg id s s' wk, c_debug cfg = true ->
  alookup id (weights s) = Some wk -> weights_delete cfg id true s = Ok s' ->
  weights s' = aremove id (weights s) /\ used s' = used s - w_weight wk /\
  (forall k, alookup k (store s') = if w_key wk =? k then None else alookup k (store s)).
Proof.
  intros cfg id s s' wk Hd Hl. unfold weights_delete. rewrite Hl.
  destruct (add_i64 cfg (used (set_weights s (aremove id (weights s)))) (- w_weight wk)) as [u|] eqn:Ea; [|discriminate].
  apply add_i64_debug in Ea; [|exact Hd]. destruct Ea as [Hu _]. cbn [used set_weights] in Hu.
  intros H. inversion H; subst s'. clear H.
  pose proof (store_delete_sol (w_key wk) (set_used (set_weights s (aremove id (weights s))) u)) as (_ & Hus & Hws & Hst).
  unfold upd_st. cbn [weights used store set_st].
  rewrite Hws, Hus. cbn [weights used set_used set_weights]. split; [reflexivity|]. split; [lia|].
  intros k. rewrite Hst. reflexivity.
Qed.

(** any outcome of a ledger deletion never increases the total (positive charges, checking profile) *)
Lemma weights_delete_le : forall cfg id hook s s', c_debug cfg = true -> wpos (weights s) ->
  (weights_delete cfg id hook s = Ok s' \/ exists site, weights_delete cfg id hook s = Panic site s') ->
  used s' <= used s /\ wpos (weights s').
Proof.
  intros cfg id hook s s' Hd Hpos. unfold weights_delete.
  destruct (alookup id (weights s)) as [wk|] eqn:E.
  - pose proof (Hpos id wk E) as Hw.
    destruct (add_i64 cfg (used (set_weights s (aremove id (weights s)))) (- w_weight wk)) as [u|] eqn:Ea.
    + apply add_i64_debug in Ea; [|exact Hd]. destruct Ea as [Hu _]. cbn [used set_weights] in Hu.
      intros [H|[site H]]; [|discriminate]. inversion H; subst s'. clear H.
      pose proof (store_delete_sol (w_key wk) (set_used (set_weights s (aremove id (weights s))) u)) as (_ & Hus & Hws & _).
      destruct hook; unfold upd_st; cbn [weights used set_st].
      * rewrite Hus, Hws. cbn [weights used set_used set_weights]. split; [lia|apply wpos_aremove; exact Hpos].
      * cbn [weights used set_used set_weights]. split; [lia|apply wpos_aremove; exact Hpos].
    + intros [H|[site H]]; [discriminate|]. inversion H; subst s'. cbn [weights used set_weights].
      split; [lia|apply wpos_aremove; exact Hpos].
  - intros [H|[site H]]; [|discriminate]. inversion H; subst s'. split; [lia|exact Hpos].
Qed.

(** the state after charging an incoming key *)
Definition charged (k id h w : Z) (s : state) : state :=
  upd_st add_weight_added (i64_as_u64 w)
    (set_used (set_weights s (aset id (Build_wkey k h w) (weights s))) (used s + w)).

Lemma charged_sol : forall k id h w s, same_outside_ledger s (charged k id h w s).
Proof. intros. unfold same_outside_ledger, charged. cbn. repeat split. Qed.

Lemma weights_add_in_range : forall cfg k id h w s, i64_min <= used s + w <= i64_max ->
  weights_add cfg k id h w s = Ok (charged k id h w s).
Proof.
  intros cfg k id h w s H. unfold weights_add. cbn [used set_weights].
  rewrite add_i64_in_range; [reflexivity|exact H].
Qed.

Lemma weights_add_sol : forall cfg k id h w s s',
  (weights_add cfg k id h w s = Ok s' \/ exists site, weights_add cfg k id h w s = Panic site s') ->
  same_outside_ledger s s'.
Proof.
  intros cfg k id h w s s'. unfold weights_add.
  destruct (add_i64 cfg _ w) as [u|].
  - intros [H|[site H]]; [|discriminate]. inversion H; subst. unfold same_outside_ledger; cbn; repeat split.
  - intros [H|[site H]]; [discriminate|]. inversion H; subst. unfold same_outside_ledger; cbn; repeat split.
Qed.

Lemma weights_add_not_inadmissible : forall cfg k id h w s why, weights_add cfg k id h w s <> Inadmissible why.
Proof. intros. unfold weights_add. destruct (add_i64 _ _ _); discriminate. Qed.

(** ** the sampler *)
Lemma sample_find_some : forall p sm x, sample_find p sm = Some x -> In x sm /\ sk_id x = p.
Proof.
  intros p sm x. induction sm as [|y t IH]; cbn [sample_find]; intros H; [discriminate|].
  destruct (sk_id y =? p) eqn:E.
  - inversion H; subst. split; [left; reflexivity|lia].
  - destruct (IH H) as [H1 H2]. split; [right; exact H1|exact H2].
Qed.

(** The two facts about a single eviction that the loop needs are proved in InvProofs.v
    ([weights_delete_hook_inv], [weights_delete_hook_no_panic]); here they are section hypotheses, discharged in
    proofs/Closing.v, so that this file does not depend on InvProofs.v. *)
Section Admission.
Hypothesis evict_inv : forall cfg s id s', wf_config cfg -> Inv cfg s -> weights_delete cfg id true s = Ok s' -> Inv cfg s'.
Hypothesis evict_no_panic : forall cfg s id, wf_config cfg -> Inv cfg s -> exists s', weights_delete cfg id true s = Ok s'.
(** and one step preserves the invariant ([inv_step]) *)
Hypothesis step_inv : forall cfg s ev, wf_config cfg -> Inv cfg s -> valid_event ev ->
  worker (step_state cfg s ev) <> Dead -> Inv cfg (step_state cfg s ev).
Hypothesis init_inv : forall cfg, wf_config cfg -> Inv cfg (init cfg).
Hypothesis dead_stays : forall cfg s ev, worker s = Dead -> worker (step_state cfg s ev) = Dead.

(** * C06 *)

(* STATEMENT: a put heavier than the whole cache is rejected for that reason and changes nothing *)
Lemma admission_too_heavy : forall cfg orc k id h w s,
  c_max cfg < w -> admission cfg orc k id h w s = (AdStatus (Rejected TooHeavy), s, []).
Proof.
  intros cfg orc k id h w s H. unfold admission.
  destruct (c_max cfg <? w) eqn:E; [reflexivity|lia].
Qed.

(* STATEMENT: a put that fits in the free space is accepted, evicts nothing, and only charges the incoming id *)
Lemma admission_fits : forall cfg orc k id h w s,
  wf_config cfg -> 0 <= used s -> 0 < w -> w <= c_max cfg - used s ->
  admission cfg orc k id h w s = (AdStatus Accepted, charged k id h w s, []).
Proof.
  intros cfg orc k id h w s Hwf Hu Hw Hfit. pose proof (wf_max _ Hwf) as Hmax.
  unfold admission.
  destruct (c_max cfg <? w) eqn:E1; [lia|].
  destruct (w <=? c_max cfg - used s) eqn:E2; [|lia].
  rewrite weights_add_in_range; [reflexivity|]. unfold i64_min. lia.
Qed.

(** [x] is what the sampler must pop from [sm]: lowest estimated frequency, the heavier one on ties *)
Definition victim_ok (sm : list sampled) (x : sampled) : Prop :=
  In x sm /\ forall y, In y sm -> sk_freq x <= sk_freq y /\ (sk_freq x = sk_freq y -> sk_weight y <= sk_weight x).

(* STATEMENT: what an admissible pop is *)
Lemma is_max_spec : forall x sm, In x sm -> (is_max x sm = true <-> victim_ok sm x).
Proof.
  intros x sm Hin. unfold is_max, victim_ok. rewrite forallb_forall. split.
  - intros H. split; [exact Hin|]. intros y Hy. specialize (H y Hy). unfold sk_cmp in H.
    destruct (Z.compare_spec (sk_freq x) (sk_freq y)) as [C1|C1|C1];
      destruct (Z.compare_spec (sk_weight y) (sk_weight x)) as [C2|C2|C2]; try discriminate H; lia.
  - intros [_ H] y Hy. destruct (H y Hy) as [H1 H2]. unfold sk_cmp.
    destruct (Z.compare_spec (sk_freq x) (sk_freq y)) as [C1|C1|C1];
      destruct (Z.compare_spec (sk_weight y) (sk_weight x)) as [C2|C2|C2]; try reflexivity; lia.
Qed.

(** the sample is consistent with the ledger: distinct ids, each charged with the recorded weight *)
Definition sample_ok (s : state) (sm : list sampled) : Prop :=
  NoDup (map sk_id sm) /\
  forall x, In x sm -> exists wk, alookup (sk_id x) (weights s) = Some wk /\ w_weight wk = sk_weight x.

(** everything [fill_from] guarantees about its result, by induction over the iteration order *)
Lemma fill_from_spec : forall est ws order sm sm',
  fill_from est ws order sm = Some sm' ->
  exists added, sm' = sm ++ added /\
    (forall x, In x added -> In (sk_id x) order /\
       exists wk, alookup (sk_id x) ws = Some wk /\ sk_weight x = w_weight wk /\ sk_freq x = est (w_hash wk)) /\
    (NoDup (map sk_id sm) -> NoDup (map sk_id sm')) /\
    (forall id, In id order -> In id (map sk_id sm')) /\
    ((length sm <= sample_size)%nat -> (length sm' <= sample_size)%nat).
Proof.
  intros est ws order. induction order as [|id t IH]; intros sm sm'; cbn [fill_from]; intros H.
  - inversion H; subst. exists []. split; [rewrite app_nil_r; reflexivity|]. split; [intros x []|].
    split; [intros Hn; exact Hn|]. split; [intros id []|intros Hl; exact Hl].
  - destruct (Nat.leb sample_size (length sm)) eqn:Elen; [discriminate|].
    apply Nat.leb_gt in Elen.
    destruct (alookup id ws) as [wk|] eqn:El; [|discriminate].
    destruct (sample_mem id sm) eqn:Em.
    + destruct (IH _ _ H) as (added & Heq & Hadd & Hnd & Hord & Hlen).
      exists added. split; [exact Heq|]. split.
      { intros x Hx. destruct (Hadd x Hx) as [H1 H2]. split; [right; exact H1|exact H2]. }
      split; [exact Hnd|]. split; [|exact Hlen].
      intros id' [Hid|Hid]; [|apply Hord; exact Hid]. subst id'.
      unfold sample_mem, sample_ids in Em. apply zmem_In in Em. subst sm'. rewrite map_app. apply in_or_app. left. exact Em.
    + destruct (IH _ _ H) as (added & Heq & Hadd & Hnd & Hord & Hlen).
      exists (mk_sampled est id wk :: added). split; [rewrite Heq, <- app_assoc; reflexivity|]. split.
      { intros x [Hx|Hx].
        - subst x. cbn [mk_sampled sk_id sk_weight sk_freq]. split; [left; reflexivity|].
          exists wk. repeat split; assumption.
        - destruct (Hadd x Hx) as [H1 H2]. split; [right; exact H1|exact H2]. }
      split.
      { intros Hnd0. apply Hnd. rewrite map_app. cbn [map mk_sampled sk_id].
        assert (Hnot : ~ In id (map sk_id sm)).
        { intros Hin. apply zmem_In in Hin. unfold sample_mem, sample_ids in Em. congruence. }
        clear - Hnd0 Hnot. induction sm as [|y u IHu]; cbn [map app].
        - constructor; [intros []|constructor].
        - inversion Hnd0 as [|? ? Hy Hu]; subst. constructor.
          + intros Hin. apply in_app_or in Hin. destruct Hin as [Hin|[Hin|[]]]; [apply Hy; exact Hin|].
            apply Hnot. left. symmetry. exact Hin.
          + apply IHu; [exact Hu|]. intros Hin. apply Hnot. right. exact Hin. }
      split.
      { intros id' [Hid|Hid]; [|apply Hord; exact Hid]. subst id' sm'.
        rewrite !map_app. apply in_or_app. left. apply in_or_app. right. left. reflexivity. }
      intros _. apply Hlen. rewrite app_length. cbn [length]. unfold sample_size in *. lia.
Qed.

Lemma zsubset_In : forall a b x, zsubset a b = true -> In x a -> In x b.
Proof.
  intros a b x H Hx. unfold zsubset in H. rewrite forallb_forall in H. apply zmem_In. apply H. exact Hx.
Qed.

(** consistency is kept whatever the size of the sample *)
Lemma sample_fill_ok : forall est s order sm sm',
  sample_ok s sm -> sample_fill est (weights s) order sm = Some sm' -> sample_ok s sm'.
Proof.
  intros est s order sm sm' [Hnd Hch]. unfold sample_fill.
  destruct (fill_from est (weights s) order sm) as [sm1|] eqn:Ef; [|discriminate].
  destruct (order_admissible (weights s) order sm1); [|discriminate].
  intros H. inversion H; subst sm1. clear H.
  destruct (fill_from_spec _ _ _ _ _ Ef) as (added & Heq & Hadd & Hnd' & _ & _).
  split; [apply Hnd'; exact Hnd|].
  intros x Hx. subst sm'. apply in_app_or in Hx. destruct Hx as [Hx|Hx]; [apply Hch; exact Hx|].
  destruct (Hadd x Hx) as (_ & wk & Hl & Hw & _). exists wk. split; [exact Hl|symmetry; exact Hw].
Qed.

(* STATEMENT: filling the sample keeps it consistent, without duplicates, never beyond five elements *)
Lemma sample_fill_spec : forall est s order sm sm',
  sample_ok s sm -> (length sm <= sample_size)%nat ->
  sample_fill est (weights s) order sm = Some sm' ->
  sample_ok s sm' /\ (length sm' <= sample_size)%nat /\
  (exists added, sm' = sm ++ added /\ forall x, In x added -> In (sk_id x) order /\ sk_freq x = est (match alookup (sk_id x) (weights s) with Some wk => w_hash wk | None => 0 end)) /\
  ((length sm' < sample_size)%nat -> forall id, In id (akeys (weights s)) -> In id (map sk_id sm')).
Proof.
  intros est s order sm sm' Hok Hlen Hfill.
  split; [eapply sample_fill_ok; eassumption|].
  unfold sample_fill in Hfill.
  destruct (fill_from est (weights s) order sm) as [sm1|] eqn:Ef; [|discriminate].
  destruct (order_admissible (weights s) order sm1) eqn:Eo; [|discriminate].
  inversion Hfill; subst sm1. clear Hfill.
  destruct (fill_from_spec _ _ _ _ _ Ef) as (added & Heq & Hadd & _ & Hord & Hlen').
  split; [apply Hlen'; exact Hlen|]. split.
  - exists added. split; [exact Heq|]. intros x Hx.
    destruct (Hadd x Hx) as (H1 & wk & Hl & _ & Hf). split; [exact H1|]. rewrite Hl. exact Hf.
  - intros Hlt id Hid. apply Hord.
    unfold order_admissible in Eo. apply andb_prop in Eo. destruct Eo as [_ Eo].
    apply orb_prop in Eo. destruct Eo as [Eo|Eo].
    + apply Nat.leb_le in Eo. lia.
    + eapply zsubset_In; eassumption.
Qed.

(** the sample without the evicted id is consistent with the ledger without it *)
Lemma sample_ok_remove : forall s s' p sm,
  sample_ok s sm -> weights s' = aremove p (weights s) -> sample_ok s' (sample_remove p sm).
Proof.
  intros s s' p sm [Hnd Hch] Hw. unfold sample_remove. split.
  - apply NoDup_map_filter. exact Hnd.
  - intros x Hx. apply filter_In in Hx. destruct Hx as [Hx Hne].
    destruct (Hch x Hx) as (wk & Hl & Hwk). exists wk. split; [|exact Hwk].
    rewrite Hw, alookup_aremove. destruct (sk_id x =? p) eqn:E; [discriminate|exact Hl].
Qed.

(** a victim is charged in [s] under the weight the sample recorded *)
Definition charged_in (s : state) (v : sampled) : Prop :=
  exists wk, alookup (sk_id v) (weights s) = Some wk /\ w_weight wk = sk_weight v.

Definition evicts_key (s : state) (k : Z) (v : sampled) : bool :=
  match alookup (sk_id v) (weights s) with Some wk => w_key wk =? k | None => false end.

(** the conclusion of [create_space_spec], plus: every victim was charged in the start state *)
Definition create_space_post (cfg : config) (inc w : Z) (sm : list sampled) (s : state) (vs : list sampled)
           (res : space_result) (s' : state) (vs' : list sampled) : Prop :=
  exists new sms,
    vs' = vs ++ new /\
    Forall2 victim_ok sms new /\
    (forall sm0 rest, sms = sm0 :: rest -> sm0 = sm) /\
    Forall (fun v => sk_freq v <= inc) new /\
    (res = SpAccepted -> w <= c_max cfg - used s') /\
    (res = SpRejected -> c_max cfg - used s' < w) /\
    used s' = used s - zsum (map sk_weight new) /\
    weights s' = fold_left (fun ws v => aremove (sk_id v) ws) new (weights s) /\
    (forall k, alookup k (store s') = if existsb (evicts_key s k) new then None else alookup k (store s)) /\
    same_outside_ledger s s' /\ Inv cfg s' /\ Forall (charged_in s) new.

Lemma create_space_post_base : forall cfg inc w sm s vs res,
  Inv cfg s -> (res = SpAccepted -> w <= c_max cfg - used s) -> (res = SpRejected -> c_max cfg - used s < w) ->
  create_space_post cfg inc w sm s vs res s vs.
Proof.
  intros cfg inc w sm s vs res HI Ha Hr. exists [], [].
  split; [rewrite app_nil_r; reflexivity|]. split; [constructor|]. split; [intros sm0 rest H; discriminate|].
  split; [constructor|]. split; [exact Ha|]. split; [exact Hr|]. split; [cbn [map zsum]; lia|].
  split; [reflexivity|]. split; [intros k; reflexivity|]. split; [apply sol_refl|]. split; [exact HI|constructor].
Qed.

Lemma create_space_strong : forall fuel cfg est inc w orders pops sm s vs res s' vs',
  wf_config cfg -> Inv cfg s -> sample_ok s sm ->
  create_space_loop fuel cfg est inc w orders pops sm (c_max cfg - used s) s vs = (res, s', vs') ->
  (forall why, res <> SpInadmissible why) -> (forall site, res <> SpPanic site) ->
  create_space_post cfg inc w sm s vs res s' vs'.
Proof.
  induction fuel as [|fuel IH]; intros cfg est inc w orders pops sm s vs res s' vs' Hwf HI Hok H Hni Hnp;
    cbn [create_space_loop] in H.
  - inversion H; subst. exfalso. eapply Hni. reflexivity.
  - destruct (w <=? c_max cfg - used s) eqn:E1.
    { inversion H; subst. apply create_space_post_base; [exact HI|intros _; lia|discriminate]. }
    destruct pops as [|p pops'].
    { inversion H; subst. exfalso. eapply Hni. reflexivity. }
    destruct (p =? -1) eqn:Ep.
    { destruct sm as [|y sm1].
      - inversion H; subst. apply create_space_post_base; [exact HI|discriminate|intros _; lia].
      - inversion H; subst. exfalso. eapply Hni. reflexivity. }
    destruct (sample_find p sm) as [x|] eqn:Ef.
    2:{ inversion H; subst. exfalso. eapply Hni. reflexivity. }
    destruct (negb (is_max x sm)) eqn:Em.
    { inversion H; subst. exfalso. eapply Hni. reflexivity. }
    destruct (inc <? sk_freq x) eqn:Ei.
    { inversion H; subst. apply create_space_post_base; [exact HI|discriminate|intros _; lia]. }
    destruct (weights_delete cfg p true s) as [s1|site s1|why] eqn:Ed.
    2:{ inversion H; subst. exfalso. eapply Hnp. reflexivity. }
    2:{ inversion H; subst. exfalso. eapply Hni. reflexivity. }
    destruct orders as [|order orders'].
    { inversion H; subst. exfalso. eapply Hni. reflexivity. }
    destruct (sample_fill est (weights s1) order (sample_remove p sm)) as [sm'|] eqn:Es.
    2:{ inversion H; subst. exfalso. eapply Hni. reflexivity. }
    (* one eviction, then the rest of the loop *)
    destruct (sample_find_some _ _ _ Ef) as [Hxin Hxid].
    destruct Hok as [Hnd Hch]. destruct (Hch x Hxin) as (wk & Hlk & Hwk). rewrite Hxid in Hlk.
    destruct (weights_delete_hook_ok _ _ _ _ _ (wf_debug _ Hwf) Hlk Ed) as (Hw1 & Hu1 & Hst1).
    assert (Hsol1 : same_outside_ledger s s1) by (eapply weights_delete_sol; left; exact Ed).
    assert (HI1 : Inv cfg s1) by (eapply evict_inv; eassumption).
    assert (Hok1 : sample_ok s1 sm').
    { eapply sample_fill_ok; [|exact Es]. apply (sample_ok_remove s); [split; assumption|exact Hw1]. }
    assert (Hvic : victim_ok sm x).
    { apply is_max_spec; [exact Hxin|]. destruct (is_max x sm); [reflexivity|discriminate]. }
    specialize (IH _ _ _ _ _ _ _ _ _ _ _ _ Hwf HI1 Hok1 H Hni Hnp).
    destruct IH as (new & sms & Hvs & Hf2 & Hfirst & Hfreq & Hacc & Hrej & Hused & Hws & Hst & Hsol & HI' & Hchg).
    (* later victims are charged in [s1], hence different from [p] and charged in [s] *)
    assert (Hlater : forall v, In v new -> sk_id v <> p /\ alookup (sk_id v) (weights s1) = alookup (sk_id v) (weights s)).
    { intros v Hv. rewrite Forall_forall in Hchg. destruct (Hchg v Hv) as (wk' & Hl' & _).
      rewrite Hw1, alookup_aremove in Hl'. rewrite Hw1, alookup_aremove.
      destruct (sk_id v =? p) eqn:E; [discriminate|]. split; [lia|reflexivity]. }
    exists (x :: new), (sm :: sms).
    split; [rewrite Hvs, <- app_assoc; reflexivity|].
    split; [constructor; assumption|].
    split; [intros sm0 rest Heq; inversion Heq; reflexivity|].
    split; [constructor; [lia|exact Hfreq]|].
    split; [exact Hacc|]. split; [exact Hrej|].
    split; [cbn [map zsum]; lia|].
    split; [cbn [fold_left]; rewrite Hxid, <- Hw1; exact Hws|].
    split.
    { intros k. rewrite Hst. cbn [existsb].
      assert (Hex : existsb (evicts_key s1 k) new = existsb (evicts_key s k) new).
      { clear - Hlater. induction new as [|v t IHt]; cbn [existsb]; [reflexivity|].
        rewrite IHt; [|intros v' Hv'; apply Hlater; right; exact Hv'].
        unfold evicts_key. destruct (Hlater v (or_introl eq_refl)) as [_ Heq]. rewrite Heq. reflexivity. }
      rewrite Hex. unfold evicts_key at 2. rewrite Hxid, Hlk.
      rewrite Hst1. destruct (w_key wk =? k); cbn [orb]; [|reflexivity].
      destruct (existsb (evicts_key s k) new); reflexivity. }
    split; [eapply sol_trans; eassumption|]. split; [exact HI'|].
    constructor.
    + exists wk. rewrite Hxid. split; assumption.
    + rewrite Forall_forall in *. intros v Hv. destruct (Hchg v Hv) as (wk' & Hl' & Hw').
      exists wk'. destruct (Hlater v Hv) as [_ Heq]. rewrite <- Heq. split; assumption.
Qed.

(* STATEMENT: the eviction loop.  Victims are taken one at a time, each the lowest-frequency element of the sample at
   its turn, only while the victim's estimate does not exceed the incoming key's; the loop accepts exactly when enough
   space results; everything outside store / ledger / statistics is untouched. *)
Lemma create_space_spec : forall fuel cfg est inc w orders pops sm s vs res s' vs',
  wf_config cfg -> Inv cfg s -> sample_ok s sm ->
  create_space_loop fuel cfg est inc w orders pops sm (c_max cfg - used s) s vs = (res, s', vs') ->
  (forall why, res <> SpInadmissible why) -> (forall site, res <> SpPanic site) ->
  exists new sms,
    vs' = vs ++ new /\
    Forall2 victim_ok sms new /\
    (forall sm0 rest, sms = sm0 :: rest -> sm0 = sm) /\
    Forall (fun v => sk_freq v <= inc) new /\
    (res = SpAccepted -> w <= c_max cfg - used s') /\
    (res = SpRejected -> c_max cfg - used s' < w) /\
    used s' = used s - zsum (map sk_weight new) /\
    weights s' = fold_left (fun ws v => aremove (sk_id v) ws) new (weights s) /\
    (forall k, alookup k (store s') = if existsb (fun v => match alookup (sk_id v) (weights s) with Some wk => w_key wk =? k | None => false end) new
                                      then None else alookup k (store s)) /\
    same_outside_ledger s s' /\ Inv cfg s'.
Proof.
  intros fuel cfg est inc w orders pops sm s vs res s' vs' Hwf HI Hok H Hni Hnp.
  destruct (create_space_strong _ _ _ _ _ _ _ _ _ _ _ _ _ Hwf HI Hok H Hni Hnp)
    as (new & sms & H1 & H2 & H3 & H4 & H5 & H6 & H7 & H8 & H9 & H10 & H11 & _).
  exists new, sms. do 8 (split; [assumption|]). split; [exact H9|]. split; assumption.
Qed.

(** the loop never reports anything else than its four outcomes with the codes 1-6 and 9; with enough fuel, not 9 *)
Lemma create_space_fuel_gen : forall fuel cfg est inc w orders pops sm s vs res s' vs',
  wf_config cfg -> Inv cfg s -> sample_ok s sm -> (length (weights s) < fuel)%nat ->
  create_space_loop fuel cfg est inc w orders pops sm (c_max cfg - used s) s vs = (res, s', vs') ->
  res <> SpInadmissible 9.
Proof.
  induction fuel as [|fuel IH]; intros cfg est inc w orders pops sm s vs res s' vs' Hwf HI Hok Hlen H;
    cbn [create_space_loop] in H; [lia|].
  destruct (w <=? c_max cfg - used s) eqn:E1; [inversion H; discriminate|].
  destruct pops as [|p pops']; [inversion H; discriminate|].
  destruct (p =? -1) eqn:Ep.
  { destruct sm as [|y sm1]; inversion H; discriminate. }
  destruct (sample_find p sm) as [x|] eqn:Ef; [|inversion H; discriminate].
  destruct (negb (is_max x sm)) eqn:Em; [inversion H; discriminate|].
  destruct (inc <? sk_freq x) eqn:Ei; [inversion H; discriminate|].
  destruct (weights_delete cfg p true s) as [s1|site s1|why] eqn:Ed.
  2:{ inversion H; discriminate. }
  2:{ exfalso. eapply weights_delete_not_inadmissible. exact Ed. }
  destruct orders as [|order orders']; [inversion H; discriminate|].
  destruct (sample_fill est (weights s1) order (sample_remove p sm)) as [sm'|] eqn:Es; [|inversion H; discriminate].
  destruct (sample_find_some _ _ _ Ef) as [Hxin Hxid].
  destruct Hok as [Hnd Hch]. destruct (Hch x Hxin) as (wk & Hlk & Hwk). rewrite Hxid in Hlk.
  destruct (weights_delete_hook_ok _ _ _ _ _ (wf_debug _ Hwf) Hlk Ed) as (Hw1 & Hu1 & Hst1).
  assert (HI1 : Inv cfg s1) by (eapply evict_inv; eassumption).
  assert (Hok1 : sample_ok s1 sm').
  { eapply sample_fill_ok; [|exact Es]. apply (sample_ok_remove s); [split; assumption|exact Hw1]. }
  eapply (IH _ _ _ _ _ _ _ _ _ _ _ _ Hwf HI1 Hok1); [|exact H].
  rewrite Hw1. pose proof (length_aremove_lt _ _ _ _ Hlk). lia.
Qed.

(* STATEMENT: the fuel given by [admission] is never exhausted *)
Lemma create_space_fuel_sufficient : forall cfg est inc w orders pops sm s vs,
  wf_config cfg -> Inv cfg s -> sample_ok s sm ->
  forall res s' vs', create_space_loop (length (weights s) + 7) cfg est inc w orders pops sm (c_max cfg - used s) s vs = (res, s', vs') ->
  res <> SpInadmissible 9.
Proof.
  intros cfg est inc w orders pops sm s vs Hwf HI Hok res s' vs' H.
  eapply create_space_fuel_gen; [exact Hwf|exact HI|exact Hok| |exact H]. lia.
Qed.

(** whatever the loop returns, only store / ledger / statistics differ (no invariant needed) *)
Lemma create_space_sol : forall fuel cfg est inc w orders pops sm space s vs res s' vs',
  create_space_loop fuel cfg est inc w orders pops sm space s vs = (res, s', vs') -> same_outside_ledger s s'.
Proof.
  induction fuel as [|fuel IH]; intros cfg est inc w orders pops sm space s vs res s' vs' H;
    cbn [create_space_loop] in H.
  - inversion H; subst. apply sol_refl.
  - destruct (w <=? space); [inversion H; subst; apply sol_refl|].
    destruct pops as [|p pops']; [inversion H; subst; apply sol_refl|].
    destruct (p =? -1).
    { destruct sm as [|y sm1]; [destruct (w <=? c_max cfg - used s)|]; inversion H; subst; apply sol_refl. }
    destruct (sample_find p sm) as [x|]; [|inversion H; subst; apply sol_refl].
    destruct (negb (is_max x sm)); [inversion H; subst; apply sol_refl|].
    destruct (inc <? sk_freq x); [inversion H; subst; apply sol_refl|].
    destruct (weights_delete cfg p true s) as [s1|site s1|why] eqn:Ed.
    + assert (Hsol1 : same_outside_ledger s s1) by (eapply weights_delete_sol; left; exact Ed).
      destruct orders as [|order orders']; [inversion H; subst; exact Hsol1|].
      destruct (sample_fill est (weights s1) order (sample_remove p sm)) as [sm'|]; [|inversion H; subst; exact Hsol1].
      eapply sol_trans; [exact Hsol1|]. eapply IH. exact H.
    + inversion H; subst. eapply weights_delete_sol. right. exists site. exact Ed.
    + inversion H; subst. apply sol_refl.
Qed.

(** whatever [admission] returns, only store / ledger / statistics differ *)
Lemma admission_sol : forall cfg orc k id h w s res s' vs,
  admission cfg orc k id h w s = (res, s', vs) -> same_outside_ledger s s'.
Proof.
  intros cfg orc k id h w s res s' vs H. unfold admission in H. cbv zeta in H.
  destruct (c_max cfg <? w); [inversion H; subst; apply sol_refl|].
  destruct (w <=? c_max cfg - used s).
  { destruct (weights_add cfg k id h w s) as [s1|site s1|why] eqn:Ea; inversion H; subst.
    - eapply weights_add_sol. left. exact Ea.
    - eapply weights_add_sol. right. exists site. exact Ea.
    - apply sol_refl. }
  destruct (negb (bloom_admissible (lfu_door (lfu s)) (o_bloom orc))); [inversion H; subst; apply sol_refl|].
  destruct (est_panics (lfu s)); [inversion H; subst; apply sol_refl|].
  destruct (o_orders orc) as [|order0 orders]; [inversion H; subst; apply sol_refl|].
  destruct (negb (Nat.leb (length order0) sample_size)); [inversion H; subst; apply sol_refl|].
  destruct (sample_fill (estimate_with (lfu s) (o_bloom orc)) (weights s) order0 []) as [sm0|]; [|inversion H; subst; apply sol_refl].
  destruct (create_space_loop (length (weights s) + 7) cfg (estimate_with (lfu s) (o_bloom orc))
              (estimate_with (lfu s) (o_bloom orc) h) w orders (o_pops orc) sm0 (c_max cfg - used s) s [])
    as [[r s1] vs1] eqn:Ec.
  apply create_space_sol in Ec.
  destruct r.
  - destruct (weights_add cfg k id h w s1) as [s2|site s2|why] eqn:Ea; inversion H; subst.
    + eapply sol_trans; [exact Ec|]. eapply weights_add_sol. left. exact Ea.
    + eapply sol_trans; [exact Ec|]. eapply weights_add_sol. right. exists site. exact Ea.
    + exact Ec.
  - inversion H; subst. exact Ec.
  - inversion H; subst. exact Ec.
  - inversion H; subst. exact Ec.
Qed.

Lemma alookup_fold_aremove_none : forall (new : list sampled) id (ws : list (Z * wkey)),
  alookup id ws = None -> alookup id (fold_left (fun ws v => aremove (sk_id v) ws) new ws) = None.
Proof.
  induction new as [|v t IH]; intros id ws H; cbn [fold_left]; [exact H|].
  apply IH. rewrite alookup_aremove. destruct (id =? sk_id v); [reflexivity|exact H].
Qed.

Lemma sample_ok_nil : forall s, sample_ok s [].
Proof. intros s. split; [constructor|intros x []]. Qed.

(** [admission_spec] plus: the victims' recorded weights are positive (so a rejected put never raises the total) *)
Lemma admission_strong : forall cfg orc k id h w s res s' vs,
  wf_config cfg -> Inv cfg s -> 0 < w -> alookup id (weights s) = None ->
  admission cfg orc k id h w s = (AdStatus res, s', vs) ->
  ((res = Accepted \/ res = Rejected NoSpace \/ res = Rejected TooHeavy) /\
  (res = Rejected TooHeavy <-> c_max cfg < w) /\
  (w <= c_max cfg - used s -> res = Accepted /\ vs = []) /\
  Forall (fun v => sk_freq v <= estimate_with (lfu s) (o_bloom orc) h) vs /\
  (res = Accepted -> used s' <= c_max cfg /\ alookup id (weights s') = Some (Build_wkey k h w) /\
                     used s' = used s - zsum (map sk_weight vs) + w) /\
  (res = Rejected NoSpace -> c_max cfg - used s' < w /\ used s' = used s - zsum (map sk_weight vs) /\ alookup id (weights s') = None) /\
  same_outside_ledger s s') /\
  Forall (fun v => 0 < sk_weight v) vs.
Proof.
  intros cfg orc k id h w s res s' vs Hwf HI Hw Hfresh H.
  pose proof (wf_max _ Hwf) as Hmax. pose proof (inv_used_nonneg _ _ HI) as Hu.
  pose proof (admission_sol _ _ _ _ _ _ _ _ _ _ H) as Hsol.
  unfold admission in H. cbv zeta in H.
  destruct (c_max cfg <? w) eqn:E0.
  { inversion H; subst. split; [|constructor].
    split; [right; right; reflexivity|]. split; [split; [intros _; lia|reflexivity]|].
    split; [intros Hfit; lia|]. split; [constructor|]. split; [discriminate|]. split; [discriminate|exact Hsol]. }
  destruct (w <=? c_max cfg - used s) eqn:E1.
  { rewrite weights_add_in_range in H; [|unfold i64_min; lia]. inversion H; subst. split; [|constructor].
    split; [left; reflexivity|]. split; [split; [discriminate|lia]|].
    split; [intros _; split; reflexivity|]. split; [constructor|].
    split; [|split; [discriminate|exact Hsol]].
    intros _. unfold charged, upd_st. cbn [used weights set_st set_used set_weights].
    split; [lia|]. split; [rewrite alookup_aset, Z.eqb_refl; reflexivity|]. cbn [map zsum]. lia. }
  destruct (negb (bloom_admissible (lfu_door (lfu s)) (o_bloom orc))); [discriminate H|].
  destruct (est_panics (lfu s)); [discriminate H|].
  destruct (o_orders orc) as [|order0 orders]; [discriminate H|].
  destruct (negb (Nat.leb (length order0) sample_size)); [discriminate H|].
  destruct (sample_fill (estimate_with (lfu s) (o_bloom orc)) (weights s) order0 []) as [sm0|] eqn:Es0; [|discriminate H].
  destruct (create_space_loop (length (weights s) + 7) cfg (estimate_with (lfu s) (o_bloom orc))
              (estimate_with (lfu s) (o_bloom orc) h) w orders (o_pops orc) sm0 (c_max cfg - used s) s [])
    as [[r s1] vs1] eqn:Ec.
  assert (Hok0 : sample_ok s sm0) by (eapply sample_fill_ok; [apply sample_ok_nil|exact Es0]).
  assert (Hpost : (forall why, r <> SpInadmissible why) -> (forall site, r <> SpPanic site) ->
                  create_space_post cfg (estimate_with (lfu s) (o_bloom orc) h) w sm0 s [] r s1 vs1).
  { intros Hni Hnp. eapply create_space_strong; eassumption. }
  assert (Hpos : forall new, Forall (charged_in s) new -> Forall (fun v => 0 < sk_weight v) new).
  { intros new Hc. rewrite Forall_forall in *. intros v Hv. destruct (Hc v Hv) as (wk & Hl & Hwk).
    rewrite <- Hwk. eapply inv_weights_pos; eassumption. }
  destruct r.
  - destruct Hpost as (new & sms & Hvs & _ & _ & Hfreq & Hacc & _ & Hused & _ & _ & _ & HI1 & Hchg); [discriminate|discriminate|].
    cbn [app] in Hvs. subst vs1. specialize (Hacc eq_refl). pose proof (inv_used_nonneg _ _ HI1) as Hu1.
    rewrite weights_add_in_range in H; [|unfold i64_min; lia]. inversion H; subst. split; [|apply Hpos; exact Hchg].
    split; [left; reflexivity|]. split; [split; [discriminate|lia]|].
    split; [intros Hfit; lia|]. split; [exact Hfreq|].
    split; [|split; [discriminate|exact Hsol]].
    intros _. unfold charged, upd_st. cbn [used weights set_st set_used set_weights].
    split; [lia|]. split; [rewrite alookup_aset, Z.eqb_refl; reflexivity|]. lia.
  - destruct Hpost as (new & sms & Hvs & _ & _ & Hfreq & _ & Hrej & Hused & Hws & _ & _ & HI1 & Hchg); [discriminate|discriminate|].
    cbn [app] in Hvs. subst vs1. specialize (Hrej eq_refl).
    inversion H; subst. split; [|apply Hpos; exact Hchg].
    split; [right; left; reflexivity|]. split; [split; [discriminate|lia]|].
    split; [intros Hfit; lia|]. split; [exact Hfreq|].
    split; [discriminate|]. split; [|exact Hsol].
    intros _. split; [exact Hrej|]. split; [exact Hused|].
    rewrite Hws. apply alookup_fold_aremove_none. exact Hfresh.
  - discriminate H.
  - discriminate H.
Qed.

(* STATEMENT: the whole admission decision.  Accepted exactly when the space after the evictions suffices;
   victims never hotter than the incoming key; partial evictions of a rejected put stay evicted. *)
Lemma admission_spec : forall cfg orc k id h w s res s' vs,
  wf_config cfg -> Inv cfg s -> 0 < w -> alookup id (weights s) = None ->
  admission cfg orc k id h w s = (AdStatus res, s', vs) ->
  (res = Accepted \/ res = Rejected NoSpace \/ res = Rejected TooHeavy) /\
  (res = Rejected TooHeavy <-> c_max cfg < w) /\
  (w <= c_max cfg - used s -> res = Accepted /\ vs = []) /\
  Forall (fun v => sk_freq v <= estimate_with (lfu s) (o_bloom orc) h) vs /\
  (res = Accepted -> used s' <= c_max cfg /\ alookup id (weights s') = Some (Build_wkey k h w) /\
                     used s' = used s - zsum (map sk_weight vs) + w) /\
  (res = Rejected NoSpace -> c_max cfg - used s' < w /\ used s' = used s - zsum (map sk_weight vs) /\ alookup id (weights s') = None) /\
  same_outside_ledger s s'.
Proof.
  intros cfg orc k id h w s res s' vs Hwf HI Hw Hfresh H.
  exact (proj1 (admission_strong _ _ _ _ _ _ _ _ _ _ Hwf HI Hw Hfresh H)).
Qed.

(** * C01 *)

(** ** which primitives leave the total alone *)

(** destruct the scrutinee of some [match]/[if] of the goal that contains no other [match] *)
Ltac dmatch :=
  match goal with
  | |- context [match ?x with _ => _ end] =>
      lazymatch x with
      | context [match _ with _ => _ end] => fail
      | _ => destruct x eqn:?
      end
  end.

(** the total is unchanged, or reset by a completed shutdown *)
Definition used_kept (s s' : state) : Prop := used s' = used s \/ used s' = 0.

Lemma accept_batch_used : forall hs s, used (accept_batch hs s) = used s.
Proof.
  intros hs s. unfold accept_batch. destruct (consumer s); try reflexivity.
  destruct (Z.of_nat (length (chan s)) <? chan_capacity); reflexivity.
Qed.

Lemma pool_add_used : forall cfg idx h s s', pool_add cfg idx h s = Some s' -> used s' = used s.
Proof.
  intros cfg idx h s s'. unfold pool_add.
  destruct ((idx <? 0) || (c_pool cfg <=? idx)); [discriminate|].
  destruct (nth_error (pool s) (Z.to_nat idx)) as [buf|]; [|discriminate].
  destruct (c_buffer cfg <=? Z.of_nat (length buf)); intros H; inversion H; subst.
  - cbn [used set_pool]. apply accept_batch_used.
  - reflexivity.
Qed.

Lemma read_one_used : forall cfg k idxs s v s' idxs', read_one cfg k idxs s = Some (v, s', idxs') -> used s' = used s.
Proof.
  intros cfg k idxs s v s' idxs'. unfold read_one.
  destruct (lookup_alive k s) as [e|].
  - destruct idxs as [|i idxs0]; [discriminate|].
    destruct (pool_add cfg i (key_hash (c_hash cfg) k) (upd_st add_hits 1 s)) as [s1|] eqn:Ep; [|discriminate].
    intros H. inversion H; subst. apply pool_add_used in Ep. exact Ep.
  - intros H. inversion H; subst. reflexivity.
Qed.

Lemma read_many_used : forall cfg ks idxs s vs s' idxs', read_many cfg ks idxs s = Some (vs, s', idxs') -> used s' = used s.
Proof.
  intros cfg ks. induction ks as [|k t IH]; intros idxs s vs s' idxs'; cbn [read_many].
  - intros H. inversion H; subst. reflexivity.
  - destruct (read_one cfg k idxs s) as [[[v s1] idxs1]|] eqn:E1; [|discriminate].
    destruct (read_many cfg t idxs1 s1) as [[[vs2 s2] idxs2]|] eqn:E2; [|discriminate].
    intros H. inversion H; subst. apply read_one_used in E1. apply IH in E2. congruence.
Qed.

Lemma do_send_used : forall cfg tid c s, used (fst (do_send cfg tid c s)) = used s.
Proof.
  intros cfg tid c s. unfold do_send. destruct (worker s); try reflexivity.
  destruct (Z.of_nat (length (queue s)) <? c_queue cfg); reflexivity.
Qed.

Lemma shutdown_chan_used : forall tid s, used_kept s (fst (shutdown_chan tid s)).
Proof.
  intros tid s. unfold shutdown_chan, used_kept. destruct (consumer s); try (right; reflexivity).
  destruct (Z.of_nat (length (chan s)) <? chan_capacity); [right|left]; reflexivity.
Qed.

Lemma shutdown_cmd_used : forall cfg tid s, used_kept s (fst (shutdown_cmd cfg tid s)).
Proof.
  intros cfg tid s. unfold shutdown_cmd. destruct (worker s); try apply shutdown_chan_used.
  destruct (Z.of_nat (length (queue s)) <? c_queue cfg); [|left; reflexivity].
  exact (shutdown_chan_used tid (set_queue s (queue s ++ [(CShutdown, -1)]))).
Qed.

Lemma call_put_used : forall cfg tid k v w ttl s, used (fst (call_put cfg tid k v w ttl s)) = used s.
Proof.
  intros cfg tid k v w ttl s. unfold call_put.
  destruct (w <=? 0); [reflexivity|]. destruct (amem k (store s)); [reflexivity|].
  destruct ttl; rewrite do_send_used; reflexivity.
Qed.

Lemma call_upsert_used : forall cfg tid k v w ttl rm s, used (fst (call_upsert cfg tid k v w ttl rm s)) = used s.
Proof.
  intros cfg tid k v w ttl rm s. unfold call_upsert.
  repeat (cbv beta iota zeta; dmatch); cbv beta iota zeta; try rewrite do_send_used; reflexivity.
Qed.

Lemma call_used : forall cfg tid r idxs s, used_kept s (fst (call cfg tid r idxs s)).
Proof.
  intros cfg tid r idxs s. unfold call, used_kept.
  destruct (amem tid (blocked s)); [left; reflexivity|].
  destruct r.
  - destruct (weight_calc (c_wcalc cfg) k v false <=? 0); [left; reflexivity|].
    destruct (shut s); [left; reflexivity|]. left. apply call_put_used.
  - destruct (shut s); [left; reflexivity|]. left. apply call_put_used.
  - destruct (shut s); [left; reflexivity|]. left. apply call_put_used.
  - destruct (shut s); [left; reflexivity|]. left. apply call_put_used.
  - destruct (shut s); [left; reflexivity|]. left. apply call_upsert_used.
  - destruct (shut s); [left; reflexivity|]. left. rewrite do_send_used.
    destruct (alookup k (store s)); reflexivity.
  - destruct (shut s); [left; reflexivity|]. left.
    destruct (read_one cfg k idxs s) as [[[v s1] [|i rest]]|] eqn:E; try reflexivity.
    apply read_one_used in E. exact E.
  - destruct (shut s); [left; reflexivity|]. left.
    destruct (read_one cfg k idxs s) as [[[v s1] [|i rest]]|] eqn:E; try reflexivity.
    apply read_one_used in E. exact E.
  - destruct (shut s); [left; reflexivity|]. left.
    destruct (read_one cfg k idxs s) as [[[v s1] [|i rest]]|] eqn:E; try reflexivity.
    apply read_one_used in E. exact E.
  - destruct (shut s); [left; reflexivity|]. left.
    destruct (read_one cfg k idxs s) as [[[v s1] [|i rest]]|] eqn:E; try reflexivity.
    apply read_one_used in E. exact E.
  - destruct (shut s); [left; reflexivity|]. left.
    destruct (read_many cfg ks idxs s) as [[[vs s1] [|i rest]]|] eqn:E; try reflexivity.
    apply read_many_used in E. exact E.
  - destruct (shut s); [left; reflexivity|]. left.
    destruct (read_many cfg ks idxs s) as [[[vs s1] [|i rest]]|] eqn:E; try reflexivity.
    apply read_many_used in E. exact E.
  - destruct (shut s); [left; reflexivity|]. left.
    destruct (read_many cfg ks idxs s) as [[[vs s1] [|i rest]]|] eqn:E; try reflexivity.
    apply read_many_used in E. exact E.
  - left; reflexivity.
  - left; reflexivity.
  - destruct (shut s); [left; reflexivity|].
    exact (shutdown_cmd_used cfg tid (set_shut s true)).
Qed.

Lemma resume_used : forall cfg tid s, used_kept s (fst (resume cfg tid s)).
Proof.
  intros cfg tid s. unfold resume.
  destruct (alookup tid (blocked s)) as [k|]; [|left; reflexivity].
  cbv zeta. set (s0 := set_blocked s (aremove tid (blocked s))).
  assert (H0 : used s0 = used s) by reflexivity.
  assert (Hk : forall x, used_kept s0 x -> used_kept s x).
  { intros x Hx. unfold used_kept in *. rewrite H0 in Hx. exact Hx. }
  destruct k.
  - destruct (worker s0); try (left; rewrite do_send_used; exact H0).
    destruct (Z.of_nat (length (queue s0)) <? c_queue cfg); [|left; reflexivity].
    left; rewrite do_send_used; exact H0.
  - destruct (worker s0); try (apply Hk; apply shutdown_cmd_used).
    destruct (Z.of_nat (length (queue s0)) <? c_queue cfg); [|left; reflexivity].
    apply Hk; apply shutdown_cmd_used.
  - destruct (consumer s0); try (apply Hk; apply shutdown_chan_used).
    destruct (Z.of_nat (length (chan s0)) <? chan_capacity); [|left; reflexivity].
    apply Hk; apply shutdown_chan_used.
Qed.

Lemma drain_used : forall cfg bl s, used (fst (drain cfg bl s)) = used s.
Proof.
  intros cfg bl s. unfold drain.
  destruct (consumer s); try reflexivity.
  destruct (chan s) as [|[hs|] rest]; try reflexivity.
  destruct (apply_batch (lfu s) hs bl) as [[l'| |] [|b bl']]; try reflexivity.
  cbv zeta. destruct (consumer_run (set_lfu (set_chan s rest) l')); reflexivity.
Qed.

Lemma drain_queue_used : forall q s, used (drain_queue q s) = used s.
Proof.
  induction q as [|[c a] t IH]; intros s; cbn [drain_queue]; [reflexivity|]. rewrite IH. reflexivity.
Qed.

(** ** the sweeper only subtracts *)
Lemma sweep_entries_le : forall cfg now_ es s r, c_debug cfg = true -> wpos (weights s) ->
  (sweep_entries cfg now_ es s = Ok r \/ exists site, sweep_entries cfg now_ es s = Panic site r) ->
  used r <= used s.
Proof.
  intros cfg now_ es. induction es as [|[id e] t IH]; intros s r Hd Hpos; cbn [sweep_entries].
  - intros [H|[site H]]; [|discriminate]. inversion H; subst. lia.
  - destruct (e <? now_); [|apply IH; assumption].
    destruct (weights_delete cfg id true s) as [s1|site1 s1|why] eqn:Ed.
    + destruct (weights_delete_le cfg id true s s1 Hd Hpos (or_introl Ed)) as [Hle Hpos1].
      intros H. specialize (IH s1 r Hd Hpos1 H). lia.
    + destruct (weights_delete_le cfg id true s s1 Hd Hpos (or_intror (ex_intro _ site1 Ed))) as [Hle _].
      intros [H|[site H]]; [discriminate|]. inversion H; subst. exact Hle.
    + intros [H|[site H]]; discriminate.
Qed.

Lemma sweep_used : forall cfg s, c_debug cfg = true -> wpos (weights s) -> used (fst (sweep cfg s)) <= used s.
Proof.
  intros cfg s Hd Hpos. unfold sweep. destruct (sweeper s); try (cbn [fst]; lia).
  cbv zeta.
  set (s1 := set_ticker s (aset (shard_index cfg (now s))
                (filter (fun p => negb (snd p <? now s)) (shard_entries (ticker s) (shard_index cfg (now s)))) (ticker s))).
  assert (Hpos1 : wpos (weights s1)) by exact Hpos.
  assert (Hu1 : used s1 = used s) by reflexivity.
  destruct (sweep_entries cfg (now s) (shard_entries (ticker s) (shard_index cfg (now s))) s1)
    as [s2|site s2|why] eqn:E.
  - pose proof (sweep_entries_le cfg _ _ s1 s2 Hd Hpos1 (or_introl E)) as H.
    cbn [fst]. destruct (sweeper_run s2); cbn [used set_sweeper]; lia.
  - pose proof (sweep_entries_le cfg _ _ s1 s2 Hd Hpos1 (or_intror (ex_intro _ site E))) as H.
    cbn [fst used set_sweeper]. lia.
  - cbn [fst]. lia.
Qed.

(** ** the worker *)

(** popping the head of the queue keeps the invariant; the popped command has a positive weight and, for a put,
    an id that is not charged yet *)
Lemma inv_pop_queue : forall cfg s c a q, Inv cfg s -> queue s = (c, a) :: q ->
  Inv cfg (set_queue s q) /\ cmd_weight_ok c /\ (forall id, cmd_put_id c = Some id -> alookup id (weights s) = None).
Proof.
  intros cfg s c a q HI Hq.
  assert (Hp : pending_cmds s = c :: pending_cmds (set_queue s q)).
  { unfold pending_cmds. cbn [queue blocked set_queue]. rewrite Hq. reflexivity. }
  destruct HI as [I1 I2 I3 I4 I5 I6 I7 I8 I9 I10 I11 I12 I13 I14].
  rewrite Hp in I12, I13. cbn [put_ids] in I12. destruct I12 as [I12a I12b].
  split; [|split].
  - constructor; try assumption.
    + destruct (cmd_put_id c) as [id|].
      * inversion I12a; subst. split; [assumption|]. intros id' Hid'. apply (I12b id'). right. exact Hid'.
      * split; [exact I12a|]. intros id' Hid'. apply (I12b id'). exact Hid'.
    + intros c' Hc'. apply I13. right. exact Hc'.
  - apply I13. left. reflexivity.
  - intros id Hid. rewrite Hid in I12b. apply (I12b id). left. reflexivity.
Qed.

Lemma zsum_weights_nonneg : forall vs, Forall (fun v => 0 < sk_weight v) vs -> 0 <= zsum (map sk_weight vs).
Proof.
  induction vs as [|v t IH]; intros H; cbn [map zsum]; [lia|].
  inversion H; subst. specialize (IH H3). lia.
Qed.

(** an answered put leaves the total within the limit if it was within the limit before *)
Lemma admission_used_bound : forall cfg orc k id h w s x s1 vs,
  wf_config cfg -> Inv cfg s -> 0 < w -> alookup id (weights s) = None -> used s <= c_max cfg ->
  admission cfg orc k id h w s = (AdStatus x, s1, vs) -> used s1 <= c_max cfg.
Proof.
  intros cfg orc k id h w s x s1 vs Hwf HI Hw Hfresh Hu Ha.
  destruct (admission_strong _ _ _ _ _ _ _ _ _ _ Hwf HI Hw Hfresh Ha) as ((H1 & H2 & _ & _ & H5 & H6 & _) & Hpos).
  apply zsum_weights_nonneg in Hpos.
  destruct H1 as [H1|[H1|H1]].
  - destruct (H5 H1) as [H _]. exact H.
  - destruct (H6 H1) as (_ & H & _). lia.
  - apply H2 in H1. rewrite (admission_too_heavy cfg orc k id h w s H1) in Ha. inversion Ha; subst. exact Hu.
Qed.

Lemma weights_update_used : forall cfg id w s s', c_debug cfg = true -> weights_update cfg id w s = Ok s' ->
  match alookup id (weights s) with
  | None => used s' = used s
  | Some wk => used s' = used s + (w - w_weight wk)
  end.
Proof.
  intros cfg id w s s' Hd. unfold weights_update.
  destruct (alookup id (weights s)) as [wk|].
  - destruct (add_i64 cfg (used s) (w - w_weight wk)) as [u|] eqn:Ea; [|discriminate].
    apply add_i64_debug in Ea; [|exact Hd]. destruct Ea as [Hu _].
    intros H. inversion H; subst. reflexivity.
  - intros H. inversion H; subst. reflexivity.
Qed.

(** the one known way over the limit: an UpdateWeight whose increase exceeds the free space (no bound check) *)
Definition over_limit_update (cfg : config) (s : state) (ev : event) : Prop :=
  match ev with
  | EWorker _ =>
      match worker s, queue s with
      | Alive, (CUpdateWeight id w, _) :: _ =>
          match alookup id (weights s) with
          | Some wk => c_max cfg - used s < w - w_weight wk
          | None => False
          end
      | _, _ => False
      end
  | _ => False
  end.

Lemma worker_step_used : forall cfg orc s, wf_config cfg -> Inv cfg s -> used s <= c_max cfg ->
  ~ over_limit_update cfg s (EWorker orc) ->
  worker (fst (worker_step cfg orc s)) <> Dead ->
  used (fst (worker_step cfg orc s)) <= c_max cfg.
Proof.
  intros cfg orc s Hwf HI Hu Hno Halive. pose proof (wf_debug _ Hwf) as Hd.
  unfold over_limit_update in Hno. unfold worker_step in *.
  destruct (worker s) eqn:Ew; try exact Hu.
  destruct (queue s) as [|[c a] q] eqn:Eq; [exact Hu|].
  destruct (inv_pop_queue _ _ _ _ _ HI Eq) as (HI0 & Hcw & Hfresh).
  cbv zeta in *. set (s0 := set_queue s q) in *.
  assert (Hu0 : used s0 = used s) by reflexivity.
  assert (Hw0 : weights s0 = weights s) by reflexivity.
  destruct c as [k v id h w|k v id h w ttl|k|id w|].
  - cbn [cmd_weight_ok] in Hcw. specialize (Hfresh id eq_refl).
    destruct (amem k (store s0)); [exact Hu|].
    destruct (admission cfg orc k id h w s0) as [[r s1] vs] eqn:Ea.
    destruct r as [x|site|why].
    + assert (H1 : used s1 <= c_max cfg).
      { eapply admission_used_bound; [exact Hwf|exact HI0|exact Hcw| |rewrite Hu0; exact Hu|exact Ea]. rewrite Hw0. exact Hfresh. }
      destruct x; exact H1.
    + exfalso. apply Halive. reflexivity.
    + exact Hu.
  - cbn [cmd_weight_ok] in Hcw. specialize (Hfresh id eq_refl).
    destruct (amem k (store s0)); [exact Hu|].
    destruct (admission cfg orc k id h w s0) as [[r s1] vs] eqn:Ea.
    destruct r as [x|site|why].
    + assert (H1 : used s1 <= c_max cfg).
      { eapply admission_used_bound; [exact Hwf|exact HI0|exact Hcw| |rewrite Hu0; exact Hu|exact Ea]. rewrite Hw0. exact Hfresh. }
      destruct x; try exact H1.
      destruct (calc_expiry (now s1) ttl); [exact H1|]. exfalso. apply Halive. reflexivity.
    + exfalso. apply Halive. reflexivity.
    + exact Hu.
  - destruct (alookup k (store s0)) as [e|]; [|exact Hu].
    destruct (weights_delete cfg (e_id e) false (store_delete k s0)) as [s2|site s2|why] eqn:Edel.
    + destruct (store_delete_sol k s0) as (_ & Hus & Hws & _).
      assert (Hpos : wpos (weights (store_delete k s0))).
      { rewrite Hws, Hw0. eapply inv_wpos. exact HI. }
      destruct (weights_delete_le cfg (e_id e) false _ s2 Hd Hpos (or_introl Edel)) as [Hle _].
      rewrite Hus, Hu0 in Hle.
      assert (H2 : used s2 <= c_max cfg) by lia.
      destruct (e_exp e); exact H2.
    + exfalso. apply Halive. reflexivity.
    + exact Hu.
  - destruct (weights_update cfg id w s0) as [s1|site s1|why] eqn:Eup.
    + apply weights_update_used in Eup; [|exact Hd]. rewrite Hw0, Hu0 in Eup.
      cbn [fst used set_ack set_acks].
      destruct (alookup id (weights s)) as [wk|]; lia.
    + exfalso. apply Halive. reflexivity.
    + exact Hu.
  - cbn [fst used set_worker set_queue]. rewrite drain_queue_used. exact Hu.
Qed.

(* STATEMENT: one step keeps the total within [0, max] unless it is an over-limit UpdateWeight *)
Lemma used_bounded_step : forall cfg s ev, wf_config cfg -> Inv cfg s -> valid_event ev ->
  0 <= used s <= c_max cfg -> ~ over_limit_update cfg s ev ->
  worker (step_state cfg s ev) <> Dead ->
  0 <= used (step_state cfg s ev) <= c_max cfg.
Proof.
  intros cfg s ev Hwf HI Hv Hu Hno Halive.
  pose proof (wf_max _ Hwf) as Hmax.
  split.
  - apply (inv_used_nonneg cfg). apply step_inv; assumption.
  - unfold step_state, step in *. destruct ev as [tid r idxs|tid|orc| |bl|dt|a].
    + destruct (call_used cfg tid r idxs s) as [H|H]; lia.
    + destruct (resume_used cfg tid s) as [H|H]; lia.
    + apply worker_step_used; [exact Hwf|exact HI|lia|exact Hno|exact Halive].
    + pose proof (sweep_used cfg s (wf_debug _ Hwf) (inv_wpos _ _ HI)). lia.
    + rewrite drain_used. lia.
    + cbn [fst used set_now]. lia.
    + cbn [fst]. lia.
Qed.

(** ** admission never panics from a state satisfying the invariant (checking profile) *)
Lemma create_space_no_panic : forall fuel cfg est inc w orders pops sm s vs res s' vs',
  wf_config cfg -> Inv cfg s -> sample_ok s sm ->
  create_space_loop fuel cfg est inc w orders pops sm (c_max cfg - used s) s vs = (res, s', vs') ->
  forall site, res <> SpPanic site.
Proof.
  induction fuel as [|fuel IH]; intros cfg est inc w orders pops sm s vs res s' vs' Hwf HI Hok H;
    cbn [create_space_loop] in H; [inversion H; discriminate|].
  destruct (w <=? c_max cfg - used s) eqn:E1; [inversion H; discriminate|].
  destruct pops as [|p pops']; [inversion H; discriminate|].
  destruct (p =? -1) eqn:Ep.
  { destruct sm as [|y sm1]; inversion H; discriminate. }
  destruct (sample_find p sm) as [x|] eqn:Ef; [|inversion H; discriminate].
  destruct (negb (is_max x sm)) eqn:Em; [inversion H; discriminate|].
  destruct (inc <? sk_freq x) eqn:Ei; [inversion H; discriminate|].
  destruct (weights_delete cfg p true s) as [s1|site1 s1|why] eqn:Ed.
  2:{ destruct (evict_no_panic cfg s p Hwf HI) as (s2 & Hs2). congruence. }
  2:{ inversion H; discriminate. }
  destruct orders as [|order orders']; [inversion H; discriminate|].
  destruct (sample_fill est (weights s1) order (sample_remove p sm)) as [sm'|] eqn:Es; [|inversion H; discriminate].
  destruct (sample_find_some _ _ _ Ef) as [Hxin Hxid].
  destruct Hok as [Hnd Hch]. destruct (Hch x Hxin) as (wk & Hlk & Hwk). rewrite Hxid in Hlk.
  destruct (weights_delete_hook_ok _ _ _ _ _ (wf_debug _ Hwf) Hlk Ed) as (Hw1 & Hu1 & Hst1).
  assert (HI1 : Inv cfg s1) by (eapply evict_inv; eassumption).
  assert (Hok1 : sample_ok s1 sm').
  { eapply sample_fill_ok; [|exact Es]. apply (sample_ok_remove s); [split; assumption|exact Hw1]. }
  exact (IH _ _ _ _ _ _ _ _ _ _ _ _ Hwf HI1 Hok1 H).
Qed.

Lemma admission_no_panic : forall cfg orc k id h w s site s' vs,
  wf_config cfg -> Inv cfg s -> 0 < w -> admission cfg orc k id h w s <> (AdPanic site, s', vs).
Proof.
  intros cfg orc k id h w s site s' vs Hwf HI Hw H.
  pose proof (wf_max _ Hwf) as Hmax. pose proof (inv_used_nonneg _ _ HI) as Hu.
  unfold admission in H. cbv zeta in H.
  destruct (c_max cfg <? w) eqn:E0; [discriminate H|].
  destruct (w <=? c_max cfg - used s) eqn:E1.
  { rewrite weights_add_in_range in H; [discriminate H|unfold i64_min; lia]. }
  destruct (negb (bloom_admissible (lfu_door (lfu s)) (o_bloom orc))); [discriminate H|].
  destruct (est_panics (lfu s)) eqn:Ep.
  { unfold est_panics in Ep. destruct (inv_lfu _ _ HI) as [[Hfc _] _].
    destruct (fc_estimate_defined (lfu_fc (lfu s)) 0 Hfc) as (e & He & _). rewrite He in Ep. discriminate Ep. }
  destruct (o_orders orc) as [|order0 orders]; [discriminate H|].
  destruct (negb (Nat.leb (length order0) sample_size)); [discriminate H|].
  destruct (sample_fill (estimate_with (lfu s) (o_bloom orc)) (weights s) order0 []) as [sm0|] eqn:Es0; [|discriminate H].
  destruct (create_space_loop (length (weights s) + 7) cfg (estimate_with (lfu s) (o_bloom orc))
              (estimate_with (lfu s) (o_bloom orc) h) w orders (o_pops orc) sm0 (c_max cfg - used s) s [])
    as [[r s1] vs1] eqn:Ec.
  assert (Hok0 : sample_ok s sm0) by (eapply sample_fill_ok; [apply sample_ok_nil|exact Es0]).
  pose proof (create_space_no_panic _ _ _ _ _ _ _ _ _ _ _ _ _ Hwf HI Hok0 Ec) as Hnp.
  destruct r.
  - assert (Hpost : create_space_post cfg (estimate_with (lfu s) (o_bloom orc) h) w sm0 s [] SpAccepted s1 vs1).
    { eapply create_space_strong; try eassumption. discriminate. }
    destruct Hpost as (new & sms & _ & _ & _ & _ & Hacc & _ & _ & _ & _ & _ & HI1 & _).
    specialize (Hacc eq_refl). pose proof (inv_used_nonneg _ _ HI1) as Hu1.
    rewrite weights_add_in_range in H; [discriminate H|unfold i64_min; lia].
  - discriminate H.
  - eapply Hnp. reflexivity.
  - discriminate H.
Qed.

Lemma set_ack_lookup : forall a x s, alookup a (acks (set_ack a x s)) = Some x.
Proof. intros a x s. unfold set_ack. cbn [acks set_acks]. rewrite alookup_aset, Z.eqb_refl. reflexivity. Qed.

(** [accepted_put_within_limit] as stated is FALSE: [Inv] says nothing about the acknowledgements, so a state may
    already hold a (stale) [Accepted] under the ack id of the queued put; with an oracle that is not admissible
    (here: no iteration order at all) the step changes nothing, the stale [Accepted] is still there, and the total
    may be anything.  Concretely: *)
Definition cx_cfg : config :=
  {| c_max := 100; c_counters := 16; c_shards := 2; c_queue := 8; c_pool := 1; c_buffer := 2; c_hash := 0; c_wcalc := 1;
     c_seeds := [1; 2; 3; 4]; c_t0 := 1000000000000; c_debug := true |}.
Definition cx_state : state := {|
  store := [(1, {| e_val := 5; e_id := 1; e_exp := None; e_soft := false |})];
  weights := [(1, {| w_key := 1; w_hash := 1; w_weight := 200 |})];
  used := 200; ticker := []; queue := [(CPut 2 7 2 2 10, 0)]; acks := [(0, Accepted)];
  lfu := lfu_new 16 [1; 2; 3; 4]; pool := [[]]; chan := []; st := stats_zero;
  now := 1000000000000; next_id := 3; next_ack := 1; shut := false; consumer_run := true; sweeper_run := true;
  worker := Alive; sweeper := Alive; consumer := Alive; blocked := [] |}.
Definition cx_orc : worker_oracle := {| o_orders := []; o_pops := []; o_bloom := [] |}.

Lemma cx_wf : wf_config cx_cfg.
Proof.
  constructor; unfold cx_cfg; cbn [c_max c_counters c_shards c_queue c_pool c_buffer c_seeds c_t0 c_debug];
    try (unfold i64_max, two63; lia); reflexivity.
Qed.

Lemma cx_inv : Inv cx_cfg cx_state.
Proof.
  constructor; unfold cx_state;
    cbn [store weights used ticker queue acks lfu pool chan st now next_id next_ack shut worker blocked].
  - cbn [map fst]. constructor; [intros []|constructor].
  - cbn [map fst]. constructor; [intros []|constructor].
  - split; [constructor|intros sh l []].
  - intros k e. cbn [alookup]. destruct (k =? 1) eqn:E; [|discriminate]. intros H; inversion H; subst.
    cbn [e_id alookup]. rewrite Z.eqb_refl. eexists. split; [reflexivity|]. cbn [w_key]. lia.
  - intros id wk. cbn [alookup]. destruct (id =? 1) eqn:E; [|discriminate]. intros H; inversion H; subst.
    cbn [w_key alookup]. rewrite Z.eqb_refl. eexists. split; [reflexivity|]. cbn [e_id]. lia.
  - reflexivity.
  - intros id wk. cbn [alookup]. destruct (id =? 1) eqn:E; [|discriminate]. intros H; inversion H; subst.
    cbn [w_weight]. lia.
  - intros sh id t. unfold shard_entries. cbn [alookup]. discriminate.
  - intros k e t. cbn [alookup]. destruct (k =? 1) eqn:E; [|discriminate]. intros H; inversion H; subst.
    cbn [e_exp]. discriminate.
  - intros id wk. cbn [alookup]. destruct (id =? 1) eqn:E; [|discriminate]. intros _. lia.
  - intros id []. 
  - unfold pending_cmds. cbn [queue blocked map fst flat_map app put_ids cmd_put_id ticker_ids ticker weights next_id].
    split; [constructor; [intros []|constructor]|].
    intros id [H|[]]. subst id. split; [lia|]. split; [reflexivity|intros []].
  - unfold pending_cmds. cbn [queue blocked map fst flat_map app].
    intros c [H|[]]. subst c. cbn [cmd_weight_ok]. lia.
  - split; [apply lfu_new_wf; [unfold two63; lia|reflexivity]|reflexivity].
  - unfold i64_max. lia.
Qed.

Lemma accepted_put_within_limit_counterexample :
  wf_config cx_cfg /\ Inv cx_cfg cx_state /\ worker cx_state = Alive /\
  queue cx_state = (CPut 2 7 2 2 10, 0) :: [] /\
  alookup 0 (acks (step_state cx_cfg cx_state (EWorker cx_orc))) = Some Accepted /\
  ~ In 0 (map snd (@nil (cmd * Z))) /\
  snd (step cx_cfg cx_state (EWorker cx_orc)) = [7; 8] /\
  used (step_state cx_cfg cx_state (EWorker cx_orc)) = 200 /\ c_max cx_cfg = 100.
Proof.
  split; [exact cx_wf|]. split; [exact cx_inv|]. split; [reflexivity|]. split; [reflexivity|].
  split; [vm_compute; reflexivity|]. split; [intros []|]. split; [vm_compute; reflexivity|].
  split; [vm_compute; reflexivity|reflexivity].
Qed.

(* STATEMENT (original, refuted by [accepted_put_within_limit_counterexample]):
Lemma accepted_put_within_limit : forall cfg s orc c a q,
  wf_config cfg -> Inv cfg s -> worker s = Alive -> queue s = (c, a) :: q ->
  (exists k v id h w, c = CPut k v id h w) \/ (exists k v id h w ttl, c = CPutTTL k v id h w ttl) ->
  alookup a (acks (step_state cfg s (EWorker orc))) = Some Accepted ->
  ~ In a (map snd q) ->
  used (step_state cfg s (EWorker orc)) <= c_max cfg.
*)

(** the true variant: the same statement with the one premise [Inv] does not give, namely that the put had not been
    answered [Accepted] already (in reachable states its acknowledgement is [Pending]).  The premise
    [~ In a (map snd q)] of the original is kept although it is not needed. *)
(* STATEMENT *)
Lemma accepted_put_within_limit_partial : forall cfg s orc c a q,
  wf_config cfg -> Inv cfg s -> worker s = Alive -> queue s = (c, a) :: q ->
  (exists k v id h w, c = CPut k v id h w) \/ (exists k v id h w ttl, c = CPutTTL k v id h w ttl) ->
  alookup a (acks s) <> Some Accepted ->
  alookup a (acks (step_state cfg s (EWorker orc))) = Some Accepted ->
  ~ In a (map snd q) ->
  used (step_state cfg s (EWorker orc)) <= c_max cfg.
Proof.
  intros cfg s orc c a q Hwf HI Hw Hq Hc Hstale Hacc _.
  revert Hacc. unfold step_state, step, worker_step. rewrite Hw, Hq. cbv zeta.
  destruct (inv_pop_queue _ _ _ _ _ HI Hq) as (HI0 & Hcw & Hfresh).
  set (s0 := set_queue s q) in *.
  assert (Ha0 : acks s0 = acks s) by reflexivity.
  assert (Hw0 : weights s0 = weights s) by reflexivity.
  destruct Hc as [(k & v & id & h & w & Hc)|(k & v & id & h & w & ttl & Hc)]; subst c.
  - cbn [cmd_weight_ok] in Hcw. specialize (Hfresh id eq_refl). rewrite <- Hw0 in Hfresh.
    destruct (amem k (store s0)).
    { cbn [fst]. rewrite set_ack_lookup. discriminate. }
    destruct (admission cfg orc k id h w s0) as [[r s1] vs] eqn:Ea.
    pose proof (admission_sol _ _ _ _ _ _ _ _ _ _ Ea) as (_ & _ & Hacks & _).
    destruct r as [x|site|why].
    + destruct (admission_strong _ _ _ _ _ _ _ _ _ _ Hwf HI0 Hcw Hfresh Ea) as ((_ & _ & _ & _ & H5 & _) & _).
      destruct x; cbn [fst]; try (rewrite set_ack_lookup; discriminate).
      intros _. destruct (H5 eq_refl) as [H _]. exact H.
    + cbn [fst acks set_worker]. rewrite Hacks, Ha0. intros H. contradiction.
    + cbn [fst]. intros H. contradiction.
  - cbn [cmd_weight_ok] in Hcw. specialize (Hfresh id eq_refl). rewrite <- Hw0 in Hfresh.
    destruct (amem k (store s0)).
    { cbn [fst]. rewrite set_ack_lookup. discriminate. }
    destruct (admission cfg orc k id h w s0) as [[r s1] vs] eqn:Ea.
    pose proof (admission_sol _ _ _ _ _ _ _ _ _ _ Ea) as (_ & _ & Hacks & _).
    destruct r as [x|site|why].
    + destruct (admission_strong _ _ _ _ _ _ _ _ _ _ Hwf HI0 Hcw Hfresh Ea) as ((_ & _ & _ & _ & H5 & _) & _).
      destruct x; cbn [fst]; try (rewrite set_ack_lookup; discriminate).
      destruct (calc_expiry (now s1) ttl).
      * intros _. destruct (H5 eq_refl) as [H _]. exact H.
      * cbn [fst acks set_worker]. rewrite Hacks, Ha0. intros H. contradiction.
    + cbn [fst acks set_worker]. rewrite Hacks, Ha0. intros H. contradiction.
    + cbn [fst]. intros H. contradiction.
Qed.

(** a second true variant: no premise on the acknowledgements, but the oracle of the step is admissible (the step
    does not answer [7; _]).  Uses that admission cannot panic. *)
(* STATEMENT *)
Lemma accepted_put_within_limit_admissible : forall cfg s orc c a q,
  wf_config cfg -> Inv cfg s -> worker s = Alive -> queue s = (c, a) :: q ->
  (exists k v id h w, c = CPut k v id h w) \/ (exists k v id h w ttl, c = CPutTTL k v id h w ttl) ->
  (forall why, snd (step cfg s (EWorker orc)) <> [7; why]) ->
  alookup a (acks (step_state cfg s (EWorker orc))) = Some Accepted ->
  used (step_state cfg s (EWorker orc)) <= c_max cfg.
Proof.
  intros cfg s orc c a q Hwf HI Hw Hq Hc Hadm Hacc.
  revert Hadm Hacc. unfold step_state, step, worker_step. rewrite Hw, Hq. cbv zeta.
  destruct (inv_pop_queue _ _ _ _ _ HI Hq) as (HI0 & Hcw & Hfresh).
  set (s0 := set_queue s q) in *.
  assert (Hw0 : weights s0 = weights s) by reflexivity.
  destruct Hc as [(k & v & id & h & w & Hc)|(k & v & id & h & w & ttl & Hc)]; subst c.
  - cbn [cmd_weight_ok] in Hcw. specialize (Hfresh id eq_refl). rewrite <- Hw0 in Hfresh.
    destruct (amem k (store s0)).
    { cbn [fst]. rewrite set_ack_lookup. discriminate. }
    destruct (admission cfg orc k id h w s0) as [[r s1] vs] eqn:Ea.
    destruct r as [x|site|why].
    + destruct (admission_strong _ _ _ _ _ _ _ _ _ _ Hwf HI0 Hcw Hfresh Ea) as ((_ & _ & _ & _ & H5 & _) & _).
      destruct x; cbn [fst]; try (rewrite set_ack_lookup; discriminate).
      intros _ _. destruct (H5 eq_refl) as [H _]. exact H.
    + exfalso. eapply admission_no_panic; [exact Hwf|exact HI0|exact Hcw|exact Ea].
    + cbn [snd]. intros H. exfalso. eapply H. reflexivity.
  - cbn [cmd_weight_ok] in Hcw. specialize (Hfresh id eq_refl). rewrite <- Hw0 in Hfresh.
    destruct (amem k (store s0)).
    { cbn [fst]. rewrite set_ack_lookup. discriminate. }
    destruct (admission cfg orc k id h w s0) as [[r s1] vs] eqn:Ea.
    destruct r as [x|site|why].
    + destruct (admission_strong _ _ _ _ _ _ _ _ _ _ Hwf HI0 Hcw Hfresh Ea) as ((_ & _ & _ & _ & H5 & _) & _).
      destruct x; cbn [fst]; try (rewrite set_ack_lookup; discriminate).
      destruct (H5 eq_refl) as [H _].
      destruct (calc_expiry (now s1) ttl); intros _ _; exact H.
    + exfalso. eapply admission_no_panic; [exact Hwf|exact HI0|exact Hcw|exact Ea].
    + cbn [snd]. intros H. exfalso. eapply H. reflexivity.
Qed.

(** ** runs *)
Lemma dead_run : forall cfg evs s, worker s = Dead -> worker (run_from cfg s evs) = Dead.
Proof.
  intros cfg evs. unfold run_from. induction evs as [|ev t IH]; intros s H; cbn [fold_left]; [exact H|].
  apply IH. apply dead_stays. exact H.
Qed.

Lemma used_bounded_run_from : forall cfg evs s, wf_config cfg -> Inv cfg s -> 0 <= used s <= c_max cfg ->
  Forall valid_event evs ->
  Forall (fun p => ~ over_limit_update cfg (fst p) (snd p)) (visits cfg s evs) ->
  worker (run_from cfg s evs) <> Dead ->
  0 <= used (run_from cfg s evs) <= c_max cfg.
Proof.
  intros cfg evs. induction evs as [|ev t IH]; intros s Hwf HI Hu Hv Hno Halive.
  - exact Hu.
  - cbn [visits] in Hno. inversion Hv as [|? ? Hv1 Hv2]; subst. inversion Hno as [|? ? Hno1 Hno2]; subst.
    cbn [fst snd] in Hno1.
    change (run_from cfg s (ev :: t)) with (run_from cfg (step_state cfg s ev) t) in *.
    assert (Hal1 : worker (step_state cfg s ev) <> Dead).
    { intros Hd. apply Halive. apply dead_run. exact Hd. }
    apply IH; [exact Hwf| | |exact Hv2|exact Hno2|exact Halive].
    + apply step_inv; assumption.
    + apply used_bounded_step; assumption.
Qed.

(* STATEMENT: at every instant of every run without an over-limit UpdateWeight *)
Lemma used_bounded_run : forall cfg evs, wf_config cfg -> Forall valid_event evs ->
  Forall (fun p => ~ over_limit_update cfg (fst p) (snd p)) (visits cfg (init cfg) evs) ->
  worker (run_from cfg (init cfg) evs) <> Dead ->
  0 <= used (run_from cfg (init cfg) evs) <= c_max cfg.
Proof.
  intros cfg evs Hwf Hv Hno Halive.
  apply used_bounded_run_from; [exact Hwf|apply init_inv; exact Hwf| |exact Hv|exact Hno|exact Halive].
  pose proof (wf_max _ Hwf). cbn [used init]. lia.
Qed.

(** the known finding (D2): put a w=60, put b w=40, put_or_update a weight=100 in a cache of 100 gives 140 *)
Definition d2_cfg : config :=
  {| c_max := 100; c_counters := 16; c_shards := 2; c_queue := 8; c_pool := 1; c_buffer := 2; c_hash := 0; c_wcalc := 1;
     c_seeds := [1; 2; 3; 4]; c_t0 := 1000000000000; c_debug := true |}.
Definition d2_orc : worker_oracle := {| o_orders := []; o_pops := []; o_bloom := [] |}.
Definition d2_events : list event :=
  [ECall 0 (RPutW 1 1001 60) []; ECall 0 (RPutW 2 1002 40) []; EWorker d2_orc; EWorker d2_orc;
   ECall 0 (RUpsert 1 None (Some 100) None false) []; EWorker d2_orc].

(* STATEMENT *)
Lemma C01_refuted_by_update :
  wf_config d2_cfg /\ Forall valid_event d2_events /\
  used (run_from d2_cfg (init d2_cfg) d2_events) = 140 /\ c_max d2_cfg = 100 /\
  worker (run_from d2_cfg (init d2_cfg) d2_events) = Alive.
Proof.
  split.
  { constructor; unfold d2_cfg; cbn [c_max c_counters c_shards c_queue c_pool c_buffer c_seeds c_t0 c_debug];
      try (unfold i64_max, two63; lia); reflexivity. }
  split.
  { unfold d2_events. repeat apply Forall_cons; try apply Forall_nil; cbn [valid_event valid_request]; try lia; try exact I.
    split; [right; left; discriminate|]. split; [intros [_ H]; discriminate|].
    split; [intros x H; inversion H; lia|intros x H; discriminate]. }
  split; [vm_compute; reflexivity|]. split; [reflexivity|vm_compute; reflexivity].
Qed.

End Admission.

Print Assumptions create_space_spec.
Print Assumptions admission_spec.
Print Assumptions used_bounded_run.
