(** C02, provenance, for every event of the micro model: every stored value - and every value a caller or the worker is
    carrying through one of its windows - was written for its key by some call that has begun.  Reads return stored
    values, so nothing is ever served that nobody wrote for that key. *)
From CacheD Require Import Base Sketch Model Window Micro.
From CacheD.proofs Require Import Defs AListLemmas InvLemmas InvOps InvCalls InvProofs ApiProofs HistoryProofs StatsProofs
                                  WindowProofs MicroProofs MicroBal MicroAll.
From Coq Require Import ZifyBool.

Section Prov.
Variable W : Z -> Z -> Prop.

Definition cp_w (p : cpend) : Prop :=
  match p with
  | PEntered r => forall k v, wreq k v r -> W k v
  | PPutChecked k v _ _ => W k v
  | _ => True
  end.
Definition up_w (u : upend) : Prop := forall v, u_v u = Some v -> W (u_k u) v.
Definition wd_w (d : option wdpend) : Prop := match d with Some (WPCharged _ k v _ _ _) => W k v | _ => True end.

Record MPInv (ms : mstate) : Prop := {
  mp_base : PInv W (mbase ms);
  mp_cps : forall tid p, alookup tid (cps ms) = Some p -> cp_w p;
  mp_ups : forall tid u, alookup tid (ups (win ms)) = Some u -> up_w u;
  mp_wd : wd_w (wdel ms)
}.

(** values an event writes *)
Definition mwrites (k v : Z) (ev : mevent) : Prop :=
  match ev with
  | MWin (WBase e) => writes_value k v e
  | MWin (WUpsert1 _ k' (Some v') _ _ _) => k' = k /\ v' = v
  | MEnter _ r _ => wreq k v r
  | _ => False
  end.

Lemma pinv_frame : forall s s', PInv W s -> store s' = store s -> queue s' = queue s -> blocked s' = blocked s -> PInv W s'.
Proof. intros s s' HP Hs Hq Hb. eapply pinv_vstep; [exact HP|apply vstep_same; exact Hs|exact Hq|exact Hb]. Qed.

Lemma pinv_shrinks : forall s s', PInv W s -> store_shrinks s s' -> queue s' = queue s -> blocked s' = blocked s -> PInv W s'.
Proof. intros s s' HP Hs Hq Hb. eapply pinv_vstep; [exact HP|apply vstep_shrinks; exact Hs|exact Hq|exact Hb]. Qed.

Lemma pinv_park : forall tid c s, PInv W s -> cmd_ok W c -> PInv W (park tid c s).
Proof.
  intros tid c s (P1 & P2 & P3) Hc. unfold park. split; [|split]; cbn [store queue blocked set_blocked]; [exact P1|exact P2|].
  intros tid0 c0 Hin. apply In_aset in Hin as [Hin|Hin]; [|eapply P3; exact Hin]. injection Hin as _ ->. exact Hc.
Qed.

Lemma pinv_soft_mark : forall k s, PInv W s -> PInv W (soft_mark k s).
Proof.
  intros k s HP. unfold soft_mark. destruct (alookup k (store s)) as [e0|] eqn:E0; [|exact HP].
  eapply pinv_vstep; [exact HP| |reflexivity|reflexivity].
  intros k1 e1 Hl. cbn [store set_store] in Hl. left. destruct (Z.eq_dec k1 k) as [->|Hne].
  - rewrite alookup_aset_eq in Hl. inversion Hl; subst. exists e0. split; [exact E0|reflexivity].
  - rewrite alookup_aset_neq in Hl by exact Hne. exists e1. split; [exact Hl|reflexivity].
Qed.

Lemma pinv_half1 : forall cfg k v w ttl rm s, PInv W s -> (forall x, v = Some x -> W k x) ->
  match upsert_half1 cfg k v w ttl rm s with inl (s', u) => PInv W s' /\ up_w u | inr (s', _) => PInv W s' end.
Proof.
  intros cfg k v w ttl rm s HP Hv. unfold upsert_half1.
  destruct (alookup k (store s)) as [e0|] eqn:E0.
  - assert (Hupd : forall x, PInv W (set_store s (aset k {| e_val := match v with Some val => val | None => e_val e0 end;
                                                            e_id := e_id e0; e_exp := x; e_soft := e_soft e0 |} (store s)))).
    { intros x. eapply pinv_vstep; [exact HP| |reflexivity|reflexivity].
      intros k1 e1 Hl. cbn [store set_store] in Hl. destruct (Z.eq_dec k1 k) as [->|Hne].
      - rewrite alookup_aset_eq in Hl. inversion Hl; subst. cbn [e_val]. destruct v as [val|].
        + right. apply Hv. reflexivity.
        + left. exists e0. split; [exact E0|reflexivity].
      - rewrite alookup_aset_neq in Hl by exact Hne. left. exists e1. split; [exact Hl|reflexivity]. }
    assert (Hu : forall r0, up_w {| u_k := k; u_v := v; u_w := w; u_ttl := ttl; u_rm := rm; u_resp := r0 |}).
    { intros r0 x Hx. cbn [u_v u_k] in *. apply Hv. exact Hx. }
    destruct rm; [split; [apply Hupd|apply Hu]|]. destruct ttl as [t|]; [|split; [apply Hupd|apply Hu]].
    destruct (calc_expiry (now s) t); [split; [apply Hupd|apply Hu]|exact HP].
  - split; [exact HP|]. intros x Hx. cbn [u_v u_k] in *. apply Hv. exact Hx.
Qed.

Lemma pinv_ticker : forall s tk, PInv W s -> PInv W (set_ticker s tk).
Proof. intros s tk HP. eapply pinv_frame; [exact HP|reflexivity|reflexivity|reflexivity]. Qed.
Lemma pinv_next_id : forall s x, PInv W s -> PInv W (set_next_id s x).
Proof. intros s x HP. eapply pinv_frame; [exact HP|reflexivity|reflexivity|reflexivity]. Qed.

Lemma cmd_ok_nokv : forall c, cmd_kv c = None -> cmd_ok W c.
Proof. intros c H k v Hkv. rewrite H in Hkv. discriminate. Qed.

Lemma pinv_half2 : forall cfg tid u s, PInv W s -> up_w u -> PInv W (fst (upsert_half2 cfg tid u s)).
Proof.
  intros cfg tid u s HP Hu. unfold upsert_half2.
  destruct (u_resp u) as [[[id old] new_exp]|].
  - destruct (type_of_expiry_update old new_exp); cbv beta iota zeta;
      repeat match goal with
             | |- context [match ?x with Some _ => _ | None => _ end] => destruct x
             | |- context [if ?b then _ else _] => destruct b
             end; cbn [fst];
      try exact HP; try (apply pinv_ticker; exact HP);
      try (apply pinv_do_send; [first [exact HP|apply pinv_ticker; exact HP]|apply cmd_ok_nokv; reflexivity]).
  - destruct (u_v u) as [val|] eqn:Ev; [|exact HP].
    destruct (requested_weight cfg (u_k u) (Some val) (u_w u) (u_ttl u)) as [wt|]; [|exact HP].
    destruct (wt <=? 0); [exact HP|].
    assert (Hc : forall c, cmd_kv c = Some (u_k u, val) -> cmd_ok W c).
    { intros c Hc k v Hkv. rewrite Hc in Hkv. inversion Hkv; subst. apply Hu. exact Ev. }
    destruct (u_ttl u); (apply pinv_do_send; [apply pinv_next_id; exact HP|apply Hc; reflexivity]).
Qed.

Lemma pinv_set_queue_tail : forall s c a q, PInv W s -> queue s = (c, a) :: q -> PInv W (set_queue s q) /\ cmd_ok W c.
Proof.
  intros s c a q (P1 & P2 & P3) Hq. split; [split; [|split]|]; cbn [store queue blocked set_queue].
  - exact P1.
  - intros c0 a0 Hin. eapply P2. rewrite Hq. right. exact Hin.
  - exact P3.
  - eapply (P2 c a). rewrite Hq. left. reflexivity.
Qed.

Definition qbR (s s' : state) : Prop := queue s' = queue s /\ blocked s' = blocked s.
Lemma qbR_refl : forall s, qbR s s. Proof. split; reflexivity. Qed.
Lemma qbR_trans : forall a b c, qbR a b -> qbR b c -> qbR a c. Proof. unfold qbR. intros a b c (A1 & A2) (B1 & B2). split; congruence. Qed.
Lemma weights_delete_qb : forall cfg id hook s,
  match weights_delete cfg id hook s with Ok s' | Panic _ s' => qbR s s' | Inadmissible _ => True end.
Proof.
  intros cfg id hook s. unfold weights_delete. destruct (alookup id (weights s)) as [wk|]; [|apply qbR_refl].
  destruct (add_i64 cfg _ _); [|split; reflexivity]. destruct hook; [|split; reflexivity].
  unfold qbR, store_delete. cbn [queue blocked upd_st set_st]. destruct (alookup _ _); split; reflexivity.
Qed.
Lemma weights_add_qb : forall cfg k id h w s,
  match weights_add cfg k id h w s with Ok s' | Panic _ s' => qbR s s' | Inadmissible _ => True end.
Proof. intros cfg k id h w s. unfold weights_add. destruct (add_i64 cfg _ _); split; reflexivity. Qed.
Lemma admission_qb : forall cfg orc k id h w s r s' vs, admission cfg orc k id h w s = (r, s', vs) -> qbR s s'.
Proof. exact (admission_lift qbR qbR_refl qbR_trans weights_delete_qb weights_add_qb). Qed.

Lemma pinv_admission : forall cfg orc k id h w s r s' vs, PInv W s -> admission cfg orc k id h w s = (r, s', vs) -> PInv W s'.
Proof.
  intros cfg orc k id h w s r s' vs HP Had.
  destruct (admission_qb _ _ _ _ _ _ _ _ _ _ Had) as (Hq & Hb).
  eapply pinv_shrinks; [exact HP|eapply admission_shr; exact Had|exact Hq|exact Hb].
Qed.

Lemma pinv_insert : forall k v id exp s, PInv W s -> W k v -> PInv W (store_insert k v id exp s).
Proof.
  intros k v id exp s HP Hw. eapply pinv_vstep; [exact HP| |reflexivity|reflexivity].
  intros k1 e1 Hl. cbn [store store_insert upd_st set_st set_store] in Hl. destruct (Z.eq_dec k1 k) as [->|Hne].
  - rewrite alookup_aset_eq in Hl. inversion Hl; subst. right. exact Hw.
  - rewrite alookup_aset_neq in Hl by exact Hne. left. exists e1. split; [exact Hl|reflexivity].
Qed.

Lemma pinv_worker_half1 : forall cfg orc s, PInv W s ->
  match worker_half1 cfg orc s with inl (s', _) => PInv W s' | inr (s', _) => PInv W s' end.
Proof.
  intros cfg orc s HP. unfold worker_half1.
  assert (Hws : PInv W (fst (worker_step cfg orc s))).
  { destruct (worker_step cfg orc s) as [s' ret] eqn:E. cbn [fst]. eapply pinv_worker; eassumption. }
  destruct (worker s); try (destruct (worker_step cfg orc s); exact Hws).
  destruct (queue s) as [|[c a] q] eqn:Hq; [destruct (worker_step cfg orc s); exact Hws|].
  destruct c as [k v id h w|k v id h w ttl|k|id w|]; try (destruct (worker_step cfg orc s); exact Hws).
  destruct (amem k (store (set_queue s q))); [destruct (worker_step cfg orc s); exact Hws|].
  destruct (admission cfg orc k id h w (set_queue s q)) as [[r s1] vs] eqn:Had.
  destruct r as [x| |]; try (destruct (worker_step cfg orc s); exact Hws).
  destruct x; try (destruct (worker_step cfg orc s); exact Hws).
  destruct (calc_expiry (now s1) ttl); [|destruct (worker_step cfg orc s); exact Hws].
  destruct (pinv_set_queue_tail s _ a q HP Hq) as (HP0 & Hc).
  apply pinv_insert; [eapply pinv_admission; eassumption|]. apply Hc. reflexivity.
Qed.

Lemma pinv_wstep : forall cfg ws e,
  PInv W (base ws) -> (forall tid u, alookup tid (ups ws) = Some u -> up_w u) ->
  (forall k v, mwrites k v (MWin e) -> W k v) ->
  PInv W (base (fst (wstep cfg ws e))) /\ (forall tid u, alookup tid (ups (fst (wstep cfg ws e))) = Some u -> up_w u).
Proof.
  intros cfg ws e HP Hu Hw. destruct e as [b|tid k v w ttl rm|tid|orc|].
  - rewrite wstep_base_eq.
    destruct (match b with
              | ECall tid _ _ | ERun tid => negb (amem tid (ups ws))
              | EWorker _ => match wpending ws with Some _ => false | None => true end
              | _ => true end); [|split; assumption].
    pose proof (pinv_step W cfg (base ws) b HP Hw) as H. unfold step_state in H.
    destruct (step cfg (base ws) b) as [s' ret]. cbn [fst base ups with_base] in *. split; assumption.
  - rewrite wstep_upsert1_eq.
    destruct (amem tid (ups ws) || amem tid (blocked (base ws))); [split; assumption|].
    destruct (shut (base ws)); [split; assumption|].
    assert (Hv : forall x, v = Some x -> W k x) by (intros x ->; apply Hw; cbn; auto).
    pose proof (pinv_half1 cfg k v w ttl rm (base ws) HP Hv) as H.
    destruct (upsert_half1 cfg k v w ttl rm (base ws)) as [[s' u]|[s' ret]]; cbn [fst base ups with_base].
    + destruct H as (H1 & H2). split; [exact H1|]. intros t u0 Hl. rewrite alookup_aset in Hl.
      destruct (t =? tid); [inversion Hl; subst; exact H2|eapply Hu; exact Hl].
    + split; assumption.
  - rewrite wstep_upsert2_eq. destruct (alookup tid (ups ws)) as [u|] eqn:El; [|split; assumption].
    pose proof (pinv_half2 cfg tid u (base ws) HP (Hu tid u El)) as H.
    destruct (upsert_half2 cfg tid u (base ws)) as [s' ret]. cbn [fst base ups] in *. split; [exact H|].
    intros t u0 Hl. rewrite alookup_aremove in Hl. destruct (t =? tid); [discriminate|eapply Hu; exact Hl].
  - rewrite wstep_put1_eq. destruct (wpending ws); [split; assumption|].
    pose proof (pinv_worker_half1 cfg orc (base ws) HP) as H.
    destruct (worker_half1 cfg orc (base ws)) as [[s' p]|[s' ret]]; cbn [fst base ups with_base]; split; assumption.
  - rewrite wstep_put2_eq. destruct (wpending ws) as [p|]; [|split; assumption].
    cbn [fst base ups]. split; [|exact Hu]. unfold worker_half2. cbn [fst].
    eapply pinv_frame; [exact HP|reflexivity|reflexivity|reflexivity].
Qed.

Lemma pinv_ctl : forall s s', PInv W s -> (store s' = store s \/ store s' = []) ->
  (forall c a, In (c, a) (queue s') -> In (c, a) (queue s) \/ c = CShutdown) ->
  (forall t c, In (t, KSend c) (blocked s') -> In (t, KSend c) (blocked s)) -> PInv W s'.
Proof.
  intros s s' (P1 & P2 & P3) Hst Hq Hb. split; [|split].
  - eapply pinv_store_or_nil; eassumption.
  - intros c a Hin. destruct (Hq c a Hin) as [H|Hcs]; [eapply P2; exact H|subst c; apply cmd_ok_nokv; reflexivity].
  - intros t c Hin. eapply P3. apply Hb. exact Hin.
Qed.

Lemma cps_w_aset : forall (l : list (Z * cpend)) tid p,
  (forall t q, alookup t l = Some q -> cp_w q) -> cp_w p -> forall t q, alookup t (aset tid p l) = Some q -> cp_w q.
Proof.
  intros l tid p Hl Hp t q H. rewrite alookup_aset in H. destruct (t =? tid); [inversion H; subst; exact Hp|eapply Hl; exact H].
Qed.
Lemma cps_w_aremove : forall (l : list (Z * cpend)) tid,
  (forall t q, alookup t l = Some q -> cp_w q) -> forall t q, alookup t (aremove tid l) = Some q -> cp_w q.
Proof. intros l tid Hl t q H. rewrite alookup_aremove in H. destruct (t =? tid); [discriminate|eapply Hl; exact H]. Qed.

Lemma mstepc_mpinv : forall cfg ms tid idxs, MPInv ms -> MPInv (fst (mstepc cfg ms tid idxs)).
Proof.
  intros cfg ms tid idxs HM. pose proof HM as [HP Hc Hu Hd].
  unfold mstepc. destruct (alookup tid (cps ms)) as [p|] eqn:Hp; [|exact HM].
  pose proof (Hc tid p Hp) as Hpw.
  assert (Hset : forall s' q, PInv W s' -> cp_w q -> MPInv (set_cp ms s' tid q)).
  { intros s' q HP' Hq. constructor; cbn [mbase set_cp win with_base base cps ups wdel]; [exact HP'| |exact Hu|exact Hd].
    apply cps_w_aset; assumption. }
  assert (Hend : forall s', PInv W s' -> MPInv (end_cp ms s' tid)).
  { intros s' HP'. constructor; cbn [mbase end_cp win with_base base cps ups wdel]; [exact HP'| |exact Hu|exact Hd].
    apply cps_w_aremove; assumption. }
  destruct p as [r|k v w ttl| |h obs|n].
  - destruct r; try exact HM;
      try (unfold put_check; repeat match goal with |- context [if ?b then _ else _] => destruct b end;
           first [apply Hend; exact HP | apply Hset; [exact HP|cbn [cp_w]; apply Hpw; cbn; auto]]).
    + assert (Hv : forall x, v = Some x -> W k x) by (intros x ->; apply Hpw; cbn; auto).
      pose proof (pinv_half1 cfg k v w ttl rm (mbase ms) HP Hv) as H.
      destruct (upsert_half1 cfg k v w ttl rm (mbase ms)) as [[s' u]|[s' ret]]; cbn [fst].
      * destruct H as (H1 & H2). constructor; cbn [mbase win base cps ups wdel]; [exact H1| | |exact Hd].
        -- apply cps_w_aremove; assumption.
        -- intros t u0 Hl. rewrite alookup_aset in Hl. destruct (t =? tid); [inversion Hl; subst; exact H2|eapply Hu; exact Hl].
      * apply Hend. exact H.
    + cbn [fst]. apply Hset; [|exact I]. apply pinv_park; [apply pinv_soft_mark; exact HP|apply cmd_ok_nokv; reflexivity].
    + unfold read_lookup. destruct (lookup_alive k (mbase ms)); cbn [fst].
      * apply Hset; [|exact I]. eapply pinv_frame; [exact HP|reflexivity|reflexivity|reflexivity].
      * apply Hend. eapply pinv_frame; [exact HP|reflexivity|reflexivity|reflexivity].
    + unfold read_body. destruct (read_one cfg k idxs (mbase ms)) as [[[v s'] [|i l]]|] eqn:Hr; cbn [fst];
        try (apply Hend; exact HP).
      apply Hend. apply read_one_spec in Hr as (F & _). destruct F as (F1 & _ & _ & _ & F5 & _ & _ & _ & _ & _ & _ & _ & _ & _ & F15).
      eapply pinv_frame; [exact HP|exact F1|exact F5|exact F15].
    + unfold read_lookup. destruct (lookup_alive k (mbase ms)); cbn [fst].
      * apply Hset; [|exact I]. eapply pinv_frame; [exact HP|reflexivity|reflexivity|reflexivity].
      * apply Hend. eapply pinv_frame; [exact HP|reflexivity|reflexivity|reflexivity].
    + unfold read_body. destruct (read_one cfg k idxs (mbase ms)) as [[[v s'] [|i l]]|] eqn:Hr; cbn [fst];
        try (apply Hend; exact HP).
      apply Hend. apply read_one_spec in Hr as (F & _). destruct F as (F1 & _ & _ & _ & F5 & _ & _ & _ & _ & _ & _ & _ & _ & _ & F15).
      eapply pinv_frame; [exact HP|exact F1|exact F5|exact F15].
  - cbv zeta. cbn [fst]. apply Hset; [|exact I]. cbn [cp_w] in Hpw.
    apply pinv_park; [apply pinv_next_id; exact HP|].
    intros k0 v0 Hkv. destruct ttl; cbn [cmd_kv] in Hkv; inversion Hkv; subst; exact Hpw.
  - destruct (alookup tid (blocked (mbase ms))) as [[c| |]|] eqn:Hlk; try exact HM.
    assert (Hcok : cmd_ok W c).
    { destruct HP as (_ & _ & P3). eapply P3. apply alookup_In. exact Hlk. }
    pose proof (pinv_do_send W cfg tid c _ (pinv_unpark W tid (mbase ms) HP) Hcok) as H. unfold unpark in H.
    destruct (do_send cfg tid c (set_blocked (mbase ms) (aremove tid (blocked (mbase ms))))) as [s' ret]. cbn [fst] in *.
    apply Hend. exact H.
  - destruct idxs as [|i [|j l]]; try exact HM.
    destruct (pool_add cfg i h (mbase ms)) as [s'|] eqn:Hpa; [|exact HM]. cbn [fst].
    apply Hend. destruct (InvCalls.pool_add_frame cfg i h _ _ Hpa) as (F1 & _ & _ & _ & _ & _ & F7 & F8 & _).
    eapply pinv_frame; [exact HP|exact F1|exact F7|exact F8].
  - (* the stages of shutdown: they carry no values *)
    assert (Hsame : forall s', store s' = store (mbase ms) \/ store s' = [] -> queue s' = queue (mbase ms) ->
                      blocked s' = blocked (mbase ms) -> PInv W s').
    { intros s' Hst Hq Hb. eapply (pinv_ctl (mbase ms)); [exact HP|exact Hst| |].
      - intros c a Hin. left. rewrite <- Hq. exact Hin.
      - intros t c Hin. rewrite <- Hb. exact Hin. }
    assert (Hblk : forall k0, (forall c, k0 <> KSend c) -> PInv W (set_blocked (mbase ms) (aset tid k0 (blocked (mbase ms))))).
    { intros k0 Hk0. eapply (pinv_ctl (mbase ms)); [exact HP|left; reflexivity| |].
      - intros c a Hin. left. exact Hin.
      - intros t c Hin. cbn [blocked set_blocked] in Hin. apply In_aset in Hin as [Hin|Hin]; [|exact Hin].
        exfalso. inversion Hin as [[Ht Hk]]. apply (Hk0 c). symmetry. exact Hk. }
    unfold shutdown_stage.
    destruct (n =? 0).
    { destruct (worker (mbase ms)); [destruct (Z.of_nat (length (queue (mbase ms))) <? c_queue cfg)| | |]; cbn [fst];
        try (apply Hset; [exact HP|exact I]).
      - apply Hset; [|exact I]. eapply (pinv_ctl (mbase ms)); [exact HP|left; reflexivity| |].
        + intros c a Hin. cbn [queue set_queue] in Hin. apply in_app_or in Hin as [Hin|[Hin|[]]]; [left; exact Hin|right; inversion Hin; reflexivity].
        + intros t c Hin. exact Hin.
      - apply Hend. apply Hblk. intros c. discriminate. }
    destruct (n =? 1).
    { destruct (consumer (mbase ms)); [destruct (Z.of_nat (length (chan (mbase ms))) <? chan_capacity)| | |]; cbn [fst];
        try (apply Hset; [apply Hsame; [left; reflexivity|reflexivity|reflexivity]|exact I]).
      apply Hend. apply Hblk. intros c. discriminate. }
    destruct (n =? 2); [cbn [fst]; apply Hset; [apply Hsame; [left; reflexivity|reflexivity|reflexivity]|exact I]|].
    destruct (n =? 3); [cbn [fst]; apply Hset; [apply Hsame; [right; reflexivity|reflexivity|reflexivity]|exact I]|].
    destruct (n =? 4); [cbn [fst]; apply Hset; [apply Hsame; [left; reflexivity|reflexivity|reflexivity]|exact I]|].
    cbn [fst]. apply Hend. apply Hsame; [left; reflexivity|reflexivity|reflexivity].
Qed.

Lemma menter_mpinv : forall cfg ms tid r idxs, MPInv ms -> (forall k v, wreq k v r -> W k v) -> MPInv (fst (menter cfg ms tid r idxs)).
Proof.
  intros cfg ms tid r idxs HM Hw. pose proof HM as [HP Hc Hu Hd].
  unfold menter. destruct (negb (caller_free ms tid)); [exact HM|].
  destruct (shut (mbase ms) || negb (micro_request r) || early_panic cfg r).
  - pose proof (pinv_step W cfg (mbase ms) (ECall tid r idxs) HP Hw) as H. unfold step_state in H. cbn [step] in H.
    destruct (call cfg tid r idxs (mbase ms)) as [s' ret]. cbn [fst] in *.
    constructor; cbn [mbase with_mbase win with_base base cps ups wdel]; assumption.
  - destruct r; cbn [fst];
      (constructor; cbn [mbase set_cp win with_base base cps ups wdel];
       [first [exact HP|eapply pinv_frame; [exact HP|reflexivity|reflexivity|reflexivity]]| |exact Hu|exact Hd];
       apply cps_w_aset; [exact Hc|first [exact Hw|exact I]]).
Qed.

Lemma mput1_mpinv : forall cfg ms orc k v id h w ttl a q, MPInv ms -> wdel ms = None ->
  queue (mbase ms) = (match ttl with None => CPut k v id h w | Some t => CPutTTL k v id h w t end, a) :: q ->
  MPInv (fst (mput1 cfg ms orc k v id h w ttl a q)).
Proof.
  intros cfg ms orc k v id h w ttl a q HM Hwd Hq. pose proof HM as [HP Hc Hu Hd].
  destruct (pinv_set_queue_tail (mbase ms) _ a q HP Hq) as (HP0 & Hcok).
  assert (Hkv : W k v) by (apply Hcok; destruct ttl; reflexivity).
  unfold mput1.
  assert (Hack : forall s' x, PInv W s' -> PInv W (set_ack a x s')).
  { intros s' x H. eapply pinv_frame; [exact H|reflexivity|reflexivity|reflexivity]. }
  destruct (amem k (store (set_queue (mbase ms) q))).
  { cbn [fst]. constructor; cbn [mbase with_mbase win with_base base cps ups wdel]; [apply Hack; exact HP0|exact Hc|exact Hu|exact Hd]. }
  destruct (admission cfg orc k id h w (set_queue (mbase ms) q)) as [[r s1] vs] eqn:Had.
  pose proof (pinv_admission _ _ _ _ _ _ _ _ _ _ HP0 Had) as HP1.
  destruct r as [x|site|why].
  - destruct x; cbn [fst]; constructor; cbn [mbase with_mbase win with_base base cps ups wdel wd_w];
      try exact Hc; try exact Hu; try exact Hd; try exact Hkv; try exact HP1;
      (apply Hack; eapply pinv_frame; [exact HP1|reflexivity|reflexivity|reflexivity]).
  - cbn [fst]. constructor; cbn [mbase with_mbase win with_base base cps ups wdel]; [|exact Hc|exact Hu|exact Hd].
    eapply pinv_frame; [exact HP1|reflexivity|reflexivity|reflexivity].
  - exact HM.
Qed.

Lemma mworker1_mpinv : forall cfg ms orc, MPInv ms -> MPInv (fst (mworker1 cfg ms orc)).
Proof.
  intros cfg ms orc HM. pose proof HM as [HP Hc Hu Hd]. unfold mworker1.
  destruct (wdel ms) eqn:Hwd; [exact HM|]. destruct (wpending (win ms)); [exact HM|].
  assert (Hwin : MPInv (fst (let '(w', ret) := wstep cfg (win ms) (WPut1 orc) in ({| win := w'; cps := cps ms; wdel := None |}, ret)))).
  { destruct (pinv_wstep cfg (win ms) (WPut1 orc) HP Hu (fun k v (H : False) => match H with end)) as (H1 & H2).
    destruct (wstep cfg (win ms) (WPut1 orc)) as [w' ret]. cbn [fst] in *.
    constructor; cbn [mbase win cps wdel wd_w]; [exact H1|exact Hc|exact H2|exact I]. }
  destruct (worker (mbase ms)); try exact Hwin.
  destruct (queue (mbase ms)) as [|[c a] q] eqn:Hq; [exact Hwin|].
  destruct c as [k v id h w|k v id h w ttl|k|id w|]; try exact Hwin.
  - pose proof (mput1_mpinv cfg ms orc k v id h w None a q HM Hwd Hq) as H. exact H.
  - pose proof (mput1_mpinv cfg ms orc k v id h w (Some ttl) a q HM Hwd Hq) as H. exact H.
  - destruct (pinv_set_queue_tail (mbase ms) _ a q HP Hq) as (HP0 & _).
    destruct (alookup k (store (set_queue (mbase ms) q))); cbn [fst];
      constructor; cbn [mbase with_mbase win with_base base cps ups wdel wd_w]; try exact Hc; try exact Hu; try exact I.
    + eapply pinv_shrinks; [exact HP0|apply store_delete_shr| |]; unfold store_delete;
        destruct (alookup k (store (set_queue (mbase ms) q))); reflexivity.
    + eapply pinv_frame; [exact HP0|reflexivity|reflexivity|reflexivity].
    + rewrite Hwd. exact I.
Qed.

Lemma weights_delete_nohook_frame : forall cfg id s,
  match weights_delete cfg id false s with
  | Ok s' | Panic _ s' => store s' = store s /\ queue s' = queue s /\ blocked s' = blocked s
  | Inadmissible _ => True
  end.
Proof.
  intros cfg id s. unfold weights_delete. destruct (alookup id (weights s)); [|repeat split].
  destruct (add_i64 cfg _ _); repeat split.
Qed.

Lemma mworker2_mpinv : forall cfg ms, MPInv ms -> MPInv (fst (mworker2 cfg ms)).
Proof.
  intros cfg ms HM. pose proof HM as [HP Hc Hu Hd]. unfold mworker2.
  destruct (wdel ms) as [[a id exp|a id exp|a k v id ttl obs]|] eqn:Hwd.
  - pose proof (weights_delete_nohook_frame cfg id (mbase ms)) as H.
    destruct (weights_delete cfg id false (mbase ms)) as [s2|site s2|why]; cbn [fst].
    + destruct H as (F1 & F2 & F3). constructor; cbn [mbase win with_base base cps ups wdel wd_w]; [|exact Hc|exact Hu|exact I].
      eapply pinv_frame; [exact HP|exact F1|exact F2|exact F3].
    + destruct H as (F1 & F2 & F3). constructor; cbn [mbase win with_base base cps ups wdel wd_w]; [|exact Hc|exact Hu|exact I].
      eapply pinv_frame; [exact HP|exact F1|exact F2|exact F3].
    + exact HM.
  - cbn [fst]. constructor; cbn [mbase win with_base base cps ups wdel wd_w]; [|exact Hc|exact Hu|exact I].
    destruct exp; (eapply pinv_frame; [exact HP|reflexivity|reflexivity|reflexivity]).
  - cbn [wd_w] in Hd. destruct ttl as [t|]; [destruct (calc_expiry (now (mbase ms)) t)|]; cbn [fst];
      constructor; cbn [mbase win with_base base cps ups wdel wd_w]; try exact Hc; try exact Hu; try exact I.
    + apply pinv_insert; assumption.
    + eapply pinv_frame; [exact HP|reflexivity|reflexivity|reflexivity].
    + eapply pinv_frame; [apply pinv_insert; [exact HP|exact Hd]|reflexivity|reflexivity|reflexivity].
  - destruct (pinv_wstep cfg (win ms) WPut2 HP Hu (fun k v (H : False) => match H with end)) as (H1 & H2).
    destruct (wstep cfg (win ms) WPut2) as [w' ret]. cbn [fst] in *.
    constructor; cbn [mbase win cps wdel wd_w]; [exact H1|exact Hc|exact H2|exact I].
Qed.

Lemma mpinv_step : forall cfg ms ev, MPInv ms -> (forall k v, mwrites k v ev -> W k v) -> MPInv (fst (mstep cfg ms ev)).
Proof.
  intros cfg ms ev HM Hw. destruct ev as [e|tid r idxs|tid idxs|orc|].
  - cbn [mstep]. destruct (mwin_enabled ms e); [|exact HM]. pose proof HM as [HP Hc Hu Hd].
    destruct (pinv_wstep cfg (win ms) e HP Hu Hw) as (H1 & H2).
    destruct (wstep cfg (win ms) e) as [w' ret]. cbn [fst] in *.
    constructor; cbn [mbase win cps wdel]; assumption.
  - cbn [mstep]. apply menter_mpinv; assumption.
  - cbn [mstep]. apply mstepc_mpinv. exact HM.
  - cbn [mstep]. apply mworker1_mpinv. exact HM.
  - cbn [mstep]. apply mworker2_mpinv. exact HM.
Qed.
End Prov.

Lemma mpinv_mono : forall (W W' : Z -> Z -> Prop) ms, (forall k v, W k v -> W' k v) -> MPInv W ms -> MPInv W' ms.
Proof.
  intros W W' ms Hm [HP Hc Hu Hd]. constructor.
  - eapply pinv_mono; eassumption.
  - intros tid p Hl. specialize (Hc tid p Hl). destruct p as [r|k v w ttl| | |]; cbn [cp_w] in *; auto.
  - intros tid u Hl v Hv. apply Hm. eapply Hu; eassumption.
  - destruct (wdel ms) as [[| |]|]; cbn [wd_w] in *; auto.
Qed.

Lemma mrun_snoc_p : forall cfg ms evs ev, mrun_from cfg ms (evs ++ [ev]) = fst (mstep cfg (mrun_from cfg ms evs) ev).
Proof. intros. unfold mrun_from. rewrite fold_left_app. reflexivity. Qed.

Lemma mpinv_run : forall cfg evs, MPInv (fun k v => Exists (mwrites k v) evs) (mrun cfg evs).
Proof.
  intros cfg evs. induction evs as [|ev evs IH] using rev_ind.
  - constructor; cbn; try (intros; discriminate); try exact I.
    split; [|split]; cbn; intros; try discriminate; contradiction.
  - unfold mrun in *. rewrite mrun_snoc_p. apply mpinv_step.
    + eapply mpinv_mono; [|exact IH]. intros k v H. apply Exists_app. left. exact H.
    + intros k v H. apply Exists_app. right. constructor. exact H.
Qed.

(* STATEMENT (C02, provenance, for every micro schedule - no restriction on what overtakes what): whatever is stored under
   a key at any state was written for that key by a put or a put_or_update that had begun by then; reads return stored
   values, so no read ever returns a value nobody wrote for that key, or another key's value *)
Lemma micro_store_value_provenance : forall cfg evs k e,
  alookup k (store (mbase (mrun cfg evs))) = Some e -> Exists (mwrites k (e_val e)) evs.
Proof.
  intros cfg evs k e Hl. destruct (mp_base _ _ (mpinv_run cfg evs)) as (P1 & _). eapply P1. exact Hl.
Qed.
