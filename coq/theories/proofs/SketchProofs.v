(** Proofs about the sketch model (C14).  Statements marked (* STATEMENT *) are consumed by Props/C14.v. *)
From CacheD Require Import Base Sketch.
From Coq Require Import ZifyBool.

(** ** Byte level: finite sweep over all 256 bytes and both nibble positions, lifted with forallb_forall *)
Definition all_bytes : list Z := map Z.of_nat (seq 0 256).

Definition nibble_check (b : Z) : bool :=
  forallb (fun p =>
    (nib_get (nib_inc b p) p =? Z.min 15 (nib_get b p + 1)) &&
    (nib_get (nib_inc b p) (1 - p) =? nib_get b (1 - p)) &&
    (0 <=? nib_inc b p) && (nib_inc b p <? 256) &&
    (nib_get (byte_half b) p =? nib_get b p / 2) &&
    (0 <=? byte_half b) && (byte_half b <? 256) &&
    (0 <=? nib_get b p) && (nib_get b p <=? 15)) [0; 1].

Lemma nibble_check_all : forallb nibble_check all_bytes = true.
Proof. vm_compute. reflexivity. Qed.

Lemma in_all_bytes : forall b, 0 <= b < 256 -> In b all_bytes.
Proof.
  intros b Hb. unfold all_bytes. apply in_map_iff. exists (Z.to_nat b). split.
  - apply Z2Nat.id. lia.
  - apply in_seq. lia.
Qed.

Lemma land1_mod : forall pos, Z.land pos 1 = pos mod 2.
Proof. intros pos. exact (Z.land_ones pos 1 ltac:(lia)). Qed.

Lemma land1_cases : forall pos, Z.land pos 1 = 0 \/ Z.land pos 1 = 1.
Proof. intros pos. rewrite land1_mod. pose proof (Z.mod_pos_bound pos 2 ltac:(lia)) as Hm. lia. Qed.

Lemma land1_succ : forall pos, Z.land (pos + 1) 1 = 1 - Z.land pos 1.
Proof. intros pos. rewrite !land1_mod. Z.div_mod_to_equations. lia. Qed.

Lemma nib_get_par : forall b pos q, Z.land pos 1 = Z.land q 1 -> nib_get b pos = nib_get b q.
Proof. intros b pos q Hpq. unfold nib_get, nib_shift. rewrite Hpq. reflexivity. Qed.

Lemma nib_inc_par : forall b pos q, Z.land pos 1 = Z.land q 1 -> nib_inc b pos = nib_inc b q.
Proof. intros b pos q Hpq. unfold nib_inc. rewrite (nib_get_par b pos q Hpq). unfold nib_shift. rewrite Hpq. reflexivity. Qed.

Lemma nibble_at : forall b p, 0 <= b < 256 -> p = 0 \/ p = 1 ->
  nib_get (nib_inc b p) p = Z.min 15 (nib_get b p + 1) /\
  nib_get (nib_inc b p) (1 - p) = nib_get b (1 - p) /\
  0 <= nib_inc b p < 256 /\
  nib_get (byte_half b) p = nib_get b p / 2 /\
  0 <= byte_half b < 256 /\
  0 <= nib_get b p <= 15.
Proof.
  intros b p Hb Hp.
  pose proof nibble_check_all as Hall. rewrite forallb_forall in Hall.
  specialize (Hall b (in_all_bytes b Hb)). unfold nibble_check in Hall. rewrite forallb_forall in Hall.
  assert (Hin : In p [0; 1]) by (cbn [In]; lia).
  specialize (Hall p Hin). cbv beta in Hall.
  rewrite !andb_true_iff in Hall.
  destruct Hall as [[[[[[[[H1 H2] H3] H4] H5] H6] H7] H8] H9].
  repeat split; lia.
Qed.

(* STATEMENT *)
Lemma nibble_ops_correct : forall b pos, 0 <= b < 256 ->
  nib_get (nib_inc b pos) pos = Z.min 15 (nib_get b pos + 1) /\
  nib_get (nib_inc b pos) (pos + 1) = nib_get b (pos + 1) /\
  0 <= nib_inc b pos < 256 /\
  nib_get (byte_half b) pos = nib_get b pos / 2 /\
  0 <= byte_half b < 256 /\
  0 <= nib_get b pos <= 15.
Proof.
  intros b pos Hb.
  pose proof (land1_cases pos) as Hp.
  pose proof (land1_succ pos) as Hs.
  set (p := Z.land pos 1) in *.
  pose proof (nibble_at b p Hb Hp) as Hat.
  assert (Hpp : Z.land pos 1 = Z.land p 1) by (fold p; destruct Hp as [Hp|Hp]; rewrite Hp; reflexivity).
  assert (Hqq : Z.land (pos + 1) 1 = Z.land (1 - p) 1) by (rewrite Hs; destruct Hp as [Hp|Hp]; rewrite Hp; reflexivity).
  rewrite (nib_inc_par b pos p Hpp).
  rewrite (nib_get_par (nib_inc b p) pos p Hpp).
  rewrite (nib_get_par b pos p Hpp).
  rewrite (nib_get_par (byte_half b) pos p Hpp).
  rewrite (nib_get_par (nib_inc b p) (pos + 1) (1 - p) Hqq).
  rewrite (nib_get_par b (pos + 1) (1 - p) Hqq).
  exact Hat.
Qed.

(** ** List helpers for [set_nth] *)
Lemma set_nth_length : forall (A : Type) (l : list A) n x, length (set_nth n x l) = length l.
Proof.
  intros A l. induction l as [|a t IH]; intros n x.
  - destruct n; reflexivity.
  - destruct n as [|n']; cbn [set_nth length].
    + reflexivity.
    + rewrite IH. reflexivity.
Qed.

Lemma nth_error_set_nth_same : forall (A : Type) (l : list A) n x,
  (n < length l)%nat -> nth_error (set_nth n x l) n = Some x.
Proof.
  intros A l. induction l as [|a t IH]; intros n x Hn.
  - cbn [length] in Hn. lia.
  - destruct n as [|n']; cbn [set_nth nth_error].
    + reflexivity.
    + apply IH. cbn [length] in Hn. lia.
Qed.

Lemma nth_error_set_nth_other : forall (A : Type) (l : list A) n m x,
  n <> m -> nth_error (set_nth n x l) m = nth_error l m.
Proof.
  intros A l. induction l as [|a t IH]; intros n m x Hnm.
  - destruct n; reflexivity.
  - destruct n as [|n']; destruct m as [|m']; cbn [set_nth nth_error].
    + congruence.
    + reflexivity.
    + reflexivity.
    + apply IH. congruence.
Qed.

Lemma set_nth_same : forall (A : Type) (l : list A) n x, nth_error l n = Some x -> set_nth n x l = l.
Proof.
  intros A l. induction l as [|a t IH]; intros n x Hn.
  - destruct n; reflexivity.
  - destruct n as [|n']; cbn [set_nth nth_error] in *.
    + congruence.
    + rewrite (IH n' x Hn). reflexivity.
Qed.

Lemma set_nth_Forall : forall (A : Type) (P : A -> Prop) (l : list A) n x,
  Forall P l -> P x -> Forall P (set_nth n x l).
Proof.
  intros A P l. induction l as [|a t IH]; intros n x Hl Hx.
  - destruct n; constructor.
  - inversion Hl as [|a' t' Ha Ht]; subst.
    destruct n as [|n']; cbn [set_nth].
    + constructor; assumption.
    + constructor; [assumption|]. apply IH; assumption.
Qed.

(** ** Row level *)
Definition wf_row (row : list Z) : Prop := Forall (fun b => 0 <= b < 256) row.

Lemma wf_row_nth : forall row n b, wf_row row -> nth_error row n = Some b -> 0 <= b < 256.
Proof.
  intros row n b Hwf Hn. unfold wf_row in Hwf. rewrite Forall_forall in Hwf.
  apply Hwf. eapply nth_error_In. exact Hn.
Qed.

Lemma row_get_bound : forall row pos v, wf_row row -> row_get row pos = Some v -> 0 <= v <= 15.
Proof.
  intros row pos v Hwf Hg. unfold row_get in Hg.
  destruct (nth_error row (Z.to_nat (pos / 2))) as [b|] eqn:Hn; [|discriminate].
  inversion Hg; subst v.
  pose proof (nibble_ops_correct b pos (wf_row_nth row _ b Hwf Hn)) as Hc. tauto.
Qed.

(* STATEMENT *)
Lemma row_inc_get_same : forall row pos row', wf_row row -> 0 <= pos ->
  row_inc row pos = Some row' ->
  exists v, row_get row pos = Some v /\ row_get row' pos = Some (Z.min 15 (v + 1)) /\ 0 <= v <= 15.
Proof.
  intros row pos row' Hwf Hpos Hinc. unfold row_inc in Hinc. unfold row_get.
  destruct (nth_error row (Z.to_nat (pos / 2))) as [b|] eqn:Hn; [|discriminate].
  inversion Hinc; subst row'. clear Hinc.
  pose proof (nibble_ops_correct b pos (wf_row_nth row _ b Hwf Hn)) as (H1 & _ & _ & _ & _ & H6).
  exists (nib_get b pos). split; [reflexivity|]. split; [|exact H6].
  rewrite nth_error_set_nth_same.
  - rewrite H1. reflexivity.
  - apply nth_error_Some. congruence.
Qed.

Lemma same_byte_other_parity : forall pos q, 0 <= pos -> 0 <= q -> q <> pos ->
  Z.to_nat (q / 2) = Z.to_nat (pos / 2) -> Z.land q 1 = Z.land (pos + 1) 1.
Proof.
  intros pos q Hpos Hq Hne Heq.
  assert (Hd : q / 2 = pos / 2).
  { apply Z2Nat.inj; [apply Z.div_pos; lia | apply Z.div_pos; lia | exact Heq]. }
  rewrite !land1_mod. clear Heq. Z.div_mod_to_equations. lia.
Qed.

(* STATEMENT: incrementing one counter never disturbs another *)
Lemma row_inc_local : forall row pos q row', wf_row row -> 0 <= pos -> 0 <= q -> q <> pos ->
  row_inc row pos = Some row' -> row_get row' q = row_get row q.
Proof.
  intros row pos q row' Hwf Hpos Hq Hne Hinc. unfold row_inc in Hinc. unfold row_get.
  destruct (nth_error row (Z.to_nat (pos / 2))) as [b|] eqn:Hn; [|discriminate].
  inversion Hinc; subst row'. clear Hinc.
  destruct (Nat.eq_dec (Z.to_nat (q / 2)) (Z.to_nat (pos / 2))) as [Heq|Hneq].
  - rewrite Heq. rewrite Hn.
    rewrite nth_error_set_nth_same by (apply nth_error_Some; congruence).
    pose proof (same_byte_other_parity pos q Hpos Hq Hne Heq) as Hpar.
    pose proof (nibble_ops_correct b pos (wf_row_nth row _ b Hwf Hn)) as (_ & H2 & _).
    rewrite (nib_get_par (nib_inc b pos) q (pos + 1) Hpar).
    rewrite (nib_get_par b q (pos + 1) Hpar).
    rewrite H2. reflexivity.
  - rewrite nth_error_set_nth_other by congruence. reflexivity.
Qed.

(* STATEMENT: a saturated counter stays saturated and the row is unchanged *)
Lemma row_inc_saturated : forall row pos, wf_row row -> 0 <= pos ->
  row_get row pos = Some 15 -> row_inc row pos = Some row.
Proof.
  intros row pos Hwf Hpos Hg. unfold row_get in Hg. unfold row_inc.
  destruct (nth_error row (Z.to_nat (pos / 2))) as [b|] eqn:Hn; [|discriminate].
  inversion Hg as [Hv]. clear Hg.
  assert (Hb : nib_inc b pos = b).
  { unfold nib_inc. rewrite Hv. reflexivity. }
  rewrite Hb. rewrite (set_nth_same _ row _ b Hn). reflexivity.
Qed.

Lemma row_inc_wf : forall row pos row', wf_row row -> row_inc row pos = Some row' ->
  wf_row row' /\ length row' = length row.
Proof.
  intros row pos row' Hwf Hinc. unfold row_inc in Hinc.
  destruct (nth_error row (Z.to_nat (pos / 2))) as [b|] eqn:Hn; [|discriminate].
  inversion Hinc; subst row'. clear Hinc. split.
  - apply set_nth_Forall; [exact Hwf|].
    pose proof (nibble_ops_correct b pos (wf_row_nth row _ b Hwf Hn)) as (_ & _ & H3 & _). exact H3.
  - apply set_nth_length.
Qed.

Lemma row_half_wf : forall row, wf_row row -> wf_row (row_half row) /\ length (row_half row) = length row.
Proof.
  intros row Hwf. split.
  - unfold wf_row, row_half in *. rewrite Forall_forall in *. intros x Hx.
    apply in_map_iff in Hx. destruct Hx as (b & Hb & Hin). subst x.
    pose proof (nibble_ops_correct b 0 (Hwf b Hin)) as (_ & _ & _ & _ & H5 & _). exact H5.
  - unfold row_half. apply map_length.
Qed.

(* STATEMENT *)
Lemma row_half_get : forall row pos v, wf_row row -> 0 <= pos ->
  row_get row pos = Some v -> row_get (row_half row) pos = Some (v / 2).
Proof.
  intros row pos v Hwf Hpos Hg. unfold row_get in *. unfold row_half.
  rewrite nth_error_map.
  destruct (nth_error row (Z.to_nat (pos / 2))) as [b|] eqn:Hn; [|discriminate].
  inversion Hg; subst v. cbn [option_map].
  pose proof (nibble_ops_correct b pos (wf_row_nth row _ b Hwf Hn)) as (_ & _ & _ & H4 & _).
  rewrite H4. reflexivity.
Qed.

(** ** Sketch level *)
Record wf_fc (fc : fcounter) : Prop := {
  wf_total : 1 <= fc_total fc;
  wf_shape : fc_total fc = 1 \/ (fc_total fc) mod 2 = 0;
  wf_nrows : length (fc_rows fc) = 4%nat;
  wf_nseeds : length (fc_seeds fc) = 4%nat;
  wf_rows : Forall (fun r => wf_row r /\ Z.of_nat (length r) = Z.max 1 (fc_total fc / 2)) (fc_rows fc)
}.

Definition wf_rows_of (total : Z) (rows : list (list Z)) : Prop :=
  Forall (fun r => wf_row r /\ Z.of_nat (length r) = Z.max 1 (total / 2)) rows.

Lemma pos_in_row : forall total (r : list Z) pos, 1 <= total -> (total = 1 \/ total mod 2 = 0) ->
  Z.of_nat (length r) = Z.max 1 (total / 2) -> 0 <= pos < total ->
  (Z.to_nat (pos / 2) < length r)%nat.
Proof.
  intros total r pos Ht He Hl Hp.
  assert (Hd : 0 <= pos / 2 < Z.max 1 (total / 2)) by (destruct He as [He|He]; Z.div_mod_to_equations; lia).
  lia.
Qed.

Lemma row_get_defined : forall total r pos, 1 <= total -> (total = 1 \/ total mod 2 = 0) ->
  wf_row r -> Z.of_nat (length r) = Z.max 1 (total / 2) -> 0 <= pos < total ->
  exists v, row_get r pos = Some v /\ 0 <= v <= 15.
Proof.
  intros total r pos Ht He Hwf Hl Hp.
  pose proof (pos_in_row total r pos Ht He Hl Hp) as Hlt.
  destruct (row_get r pos) as [v|] eqn:Hg.
  - exists v. split; [reflexivity|]. exact (row_get_bound r pos v Hwf Hg).
  - exfalso. unfold row_get in Hg.
    destruct (nth_error r (Z.to_nat (pos / 2))) as [b|] eqn:Hn; [discriminate|].
    apply nth_error_None in Hn. lia.
Qed.

Lemma row_inc_defined : forall total (r : list Z) pos, 1 <= total -> (total = 1 \/ total mod 2 = 0) ->
  Z.of_nat (length r) = Z.max 1 (total / 2) -> 0 <= pos < total ->
  exists r', row_inc r pos = Some r'.
Proof.
  intros total r pos Ht He Hl Hp.
  pose proof (pos_in_row total r pos Ht He Hl Hp) as Hlt.
  unfold row_inc.
  destruct (nth_error r (Z.to_nat (pos / 2))) as [b|] eqn:Hn.
  - eexists. reflexivity.
  - apply nth_error_None in Hn. lia.
Qed.

Lemma fc_pos_range : forall total x, 1 <= total -> 0 <= x mod total < total.
Proof. intros total x Ht. apply Z.mod_pos_bound. lia. Qed.

Lemma rows_min_defined : forall total h, 1 <= total -> (total = 1 \/ total mod 2 = 0) ->
  forall rows seeds acc, wf_rows_of total rows ->
  exists e, rows_min total h rows seeds acc = Some e /\ e <= acc /\ (0 <= acc -> 0 <= e).
Proof.
  intros total h Ht He rows.
  induction rows as [|r rt IH]; intros seeds acc Hwf.
  - exists acc. cbn [rows_min]. split; [reflexivity|]. lia.
  - destruct seeds as [|s st].
    + exists acc. cbn [rows_min]. split; [reflexivity|]. lia.
    + inversion Hwf as [|r0 rt0 [Hr Hl] Hrt]; subst.
      cbn [rows_min].
      destruct (row_get_defined total r (Z.lxor h s mod total) Ht He Hr Hl (fc_pos_range total _ Ht))
        as (v & Hg & Hv).
      rewrite Hg.
      destruct (IH st (Z.min acc v) Hrt) as (e & Hm & Hle & Hge).
      exists e. split; [exact Hm|]. lia.
Qed.

Lemma rows_min_first_bound : forall total h r rt s st acc e, wf_row r ->
  rows_min total h (r :: rt) (s :: st) acc = Some e ->
  exists v, row_get r (Z.lxor h s mod total) = Some v /\ 0 <= v <= 15 /\
            rows_min total h rt st (Z.min acc v) = Some e.
Proof.
  intros total h r rt s st acc e Hr Hm. cbn [rows_min] in Hm.
  destruct (row_get r (Z.lxor h s mod total)) as [v|] eqn:Hg; [|discriminate].
  exists v. split; [reflexivity|]. split; [|exact Hm]. exact (row_get_bound r _ v Hr Hg).
Qed.

(** with at least one row, any accumulator >= 15 gives the same minimum *)
Lemma rows_min_acc15 : forall total h r rt s st acc, wf_row r -> 15 <= acc ->
  rows_min total h (r :: rt) (s :: st) acc = rows_min total h (r :: rt) (s :: st) 15.
Proof.
  intros total h r rt s st acc Hr Hacc. cbn [rows_min].
  destruct (row_get r (Z.lxor h s mod total)) as [v|] eqn:Hg; [|reflexivity].
  pose proof (row_get_bound r _ v Hr Hg) as Hv.
  replace (Z.min acc v) with (Z.min 15 v) by lia. reflexivity.
Qed.

(** the estimate of a well-formed sketch is defined (no index is out of bounds) *)
(* STATEMENT *)
Lemma fc_estimate_defined : forall fc h, wf_fc fc -> exists e, fc_estimate fc h = Some e /\ 0 <= e <= 15.
Proof.
  intros fc h Hwf. destruct Hwf as [Ht He Hnr Hns Hrows]. unfold fc_estimate.
  destruct (rows_min_defined (fc_total fc) h Ht He (fc_rows fc) (fc_seeds fc) 255 Hrows) as (e & Hm & Hle & Hge).
  exists e. split; [exact Hm|].
  destruct (fc_rows fc) as [|r rt]; [cbn [length] in Hnr; lia|].
  destruct (fc_seeds fc) as [|s st]; [cbn [length] in Hns; lia|].
  inversion Hrows as [|r0 rt0 [Hr Hl] Hrt]; subst.
  destruct (rows_min_first_bound _ _ _ _ _ _ _ _ Hr Hm) as (v & Hg & Hv & Hm').
  destruct (rows_min_defined (fc_total fc) h Ht He rt st (Z.min 255 v) Hrt) as (e' & Hm2 & Hle2 & Hge2).
  rewrite Hm' in Hm2. inversion Hm2; subst e'. lia.
Qed.

Lemma rows_inc_spec : forall total h, 1 <= total -> (total = 1 \/ total mod 2 = 0) ->
  forall rows seeds, wf_rows_of total rows ->
  exists rows', rows_inc total h rows seeds = Some rows' /\ wf_rows_of total rows' /\
    length rows' = length rows /\
    (forall acc e, rows_min total h rows seeds acc = Some e ->
       rows_min total h rows' seeds (Z.min 15 (acc + 1)) = Some (Z.min 15 (e + 1))) /\
    (forall h' acc acc' e e', acc <= acc' ->
       rows_min total h' rows seeds acc = Some e ->
       rows_min total h' rows' seeds acc' = Some e' -> e <= e').
Proof.
  intros total h Ht He rows.
  induction rows as [|r rt IH]; intros seeds Hwf.
  - exists []. cbn [rows_inc rows_min]. split; [reflexivity|]. split; [constructor|]. split; [reflexivity|].
    split.
    + intros acc e Hm. inversion Hm; subst. reflexivity.
    + intros h' acc acc' e e' Hle Hm Hm'. inversion Hm; inversion Hm'; subst. exact Hle.
  - destruct seeds as [|s st].
    + exists (r :: rt). cbn [rows_inc rows_min]. split; [reflexivity|]. split; [exact Hwf|]. split; [reflexivity|].
      split.
      * intros acc e Hm. inversion Hm; subst. reflexivity.
      * intros h' acc acc' e e' Hle Hm Hm'. inversion Hm; inversion Hm'; subst. exact Hle.
    + inversion Hwf as [|r0 rt0 [Hr Hl] Hrt]; subst.
      pose proof (fc_pos_range total (Z.lxor h s) Ht) as Hp.
      destruct (row_inc_defined total r _ Ht He Hl Hp) as (r' & Hinc).
      destruct (IH st Hrt) as (rt' & Hincs & Hwf' & Hlen' & Hsame & Hmono).
      destruct (row_inc_wf r _ r' Hr Hinc) as (Hr' & Hl').
      exists (r' :: rt'). cbn [rows_inc]. rewrite Hinc, Hincs.
      split; [reflexivity|]. split.
      { constructor; [|exact Hwf']. split; [exact Hr'|]. rewrite Hl'. exact Hl. }
      split; [cbn [length]; rewrite Hlen'; reflexivity|].
      split.
      * intros acc e Hm. cbn [rows_min] in *.
        destruct (row_inc_get_same r _ r' Hr (proj1 Hp) Hinc) as (v & Hg & Hg' & Hv).
        rewrite Hg in Hm. rewrite Hg'.
        replace (Z.min (Z.min 15 (acc + 1)) (Z.min 15 (v + 1))) with (Z.min 15 (Z.min acc v + 1)) by lia.
        apply Hsame. exact Hm.
      * intros h' acc acc' e e' Hle Hm Hm'. cbn [rows_min] in *.
        pose proof (fc_pos_range total (Z.lxor h' s) Ht) as Hq.
        destruct (row_get r (Z.lxor h' s mod total)) as [v|] eqn:Hg; [|discriminate].
        destruct (row_get r' (Z.lxor h' s mod total)) as [v'|] eqn:Hg'; [|discriminate].
        assert (Hvv : v <= v').
        { destruct (Z.eq_dec (Z.lxor h' s mod total) (Z.lxor h s mod total)) as [Heq|Hneq].
          - rewrite Heq in Hg, Hg'.
            destruct (row_inc_get_same r _ r' Hr (proj1 Hp) Hinc) as (v0 & Hg0 & Hg0' & Hv0).
            rewrite Hg in Hg0. rewrite Hg' in Hg0'. inversion Hg0; inversion Hg0'; subst. lia.
          - pose proof (row_inc_local r _ _ r' Hr (proj1 Hp) (proj1 Hq) Hneq Hinc) as Hloc.
            rewrite Hloc in Hg'. rewrite Hg in Hg'. inversion Hg'; subst. lia. }
        apply (Hmono h' (Z.min acc v) (Z.min acc' v') e e'); [lia|exact Hm|exact Hm'].
Qed.

(* STATEMENT *)
Lemma fc_increment_spec : forall fc h, wf_fc fc ->
  exists fc', fc_increment fc h = Some fc' /\ wf_fc fc' /\ fc_total fc' = fc_total fc /\ fc_seeds fc' = fc_seeds fc /\
    (forall e, fc_estimate fc h = Some e -> fc_estimate fc' h = Some (Z.min 15 (e + 1))) /\
    (forall h' e e', fc_estimate fc h' = Some e -> fc_estimate fc' h' = Some e' -> e <= e').
Proof.
  intros fc h Hwf. destruct Hwf as [Ht He Hnr Hns Hrows].
  destruct (rows_inc_spec (fc_total fc) h Ht He (fc_rows fc) (fc_seeds fc) Hrows)
    as (rows' & Hinc & Hwf' & Hlen' & Hsame & Hmono).
  unfold fc_increment. rewrite Hinc.
  eexists. split; [reflexivity|].
  unfold fc_estimate. cbn [fc_rows fc_seeds fc_total].
  split.
  { constructor; cbn [fc_rows fc_seeds fc_total].
    - exact Ht.
    - exact He.
    - rewrite Hlen'. exact Hnr.
    - exact Hns.
    - exact Hwf'. }
  split; [reflexivity|]. split; [reflexivity|]. split.
  - intros e Hm.
    destruct rows' as [|r' rt']; [cbn [length] in Hlen'; lia|].
    destruct (fc_seeds fc) as [|s st]; [cbn [length] in Hns; lia|].
    inversion Hwf' as [|r0 rt0 [Hr' Hl'] Hrt']; subst.
    rewrite (rows_min_acc15 (fc_total fc) h r' rt' s st 255 Hr' ltac:(lia)).
    apply (Hsame 255 e) in Hm. exact Hm.
  - intros h' e e' Hm Hm'. apply (Hmono h' 255 255 e e'); [lia|exact Hm|exact Hm'].
Qed.

Lemma rows_min_half : forall total h rows seeds acc e, wf_rows_of total rows -> 1 <= total ->
  rows_min total h rows seeds acc = Some e ->
  rows_min total h (map row_half rows) seeds (acc / 2) = Some (e / 2).
Proof.
  intros total h rows.
  induction rows as [|r rt IH]; intros seeds acc e Hwf Ht Hm.
  - cbn [map rows_min] in *. inversion Hm; subst. reflexivity.
  - destruct seeds as [|s st].
    + cbn [map rows_min] in *. inversion Hm; subst. reflexivity.
    + inversion Hwf as [|r0 rt0 [Hr Hl] Hrt]; subst.
      cbn [map rows_min] in *.
      pose proof (fc_pos_range total (Z.lxor h s) Ht) as Hp.
      destruct (row_get r (Z.lxor h s mod total)) as [v|] eqn:Hg; [|discriminate].
      rewrite (row_half_get r _ v Hr (proj1 Hp) Hg).
      replace (Z.min (acc / 2) (v / 2)) with (Z.min acc v / 2) by (Z.div_mod_to_equations; lia).
      apply IH; assumption.
Qed.

(* STATEMENT: halving *)
Lemma fc_reset_spec : forall fc, wf_fc fc -> wf_fc (fc_reset fc) /\
  forall h e, fc_estimate fc h = Some e -> fc_estimate (fc_reset fc) h = Some (e / 2).
Proof.
  intros fc Hwf. destruct Hwf as [Ht He Hnr Hns Hrows]. split.
  - constructor; unfold fc_reset; cbn [fc_rows fc_seeds fc_total].
    + exact Ht.
    + exact He.
    + rewrite map_length. exact Hnr.
    + exact Hns.
    + rewrite Forall_forall in *. intros x Hx. apply in_map_iff in Hx.
      destruct Hx as (r & Hrx & Hin). subst x.
      destruct (Hrows r Hin) as [Hr Hl]. destruct (row_half_wf r Hr) as [Hr' Hl'].
      split; [exact Hr'|]. rewrite Hl'. exact Hl.
  - intros h e Hm. unfold fc_estimate, fc_reset in *. cbn [fc_rows fc_seeds fc_total].
    destruct (fc_rows fc) as [|r rt]; [cbn [length] in Hnr; lia|].
    destruct (fc_seeds fc) as [|s st]; [cbn [length] in Hns; lia|].
    inversion Hrows as [|r0 rt0 [Hr Hl] Hrt]; subst.
    cbn [map rows_min] in *.
    pose proof (fc_pos_range (fc_total fc) (Z.lxor h s) Ht) as Hp.
    destruct (row_get r (Z.lxor h s mod fc_total fc)) as [v|] eqn:Hg; [|discriminate].
    pose proof (row_get_bound r _ v Hr Hg) as Hv.
    rewrite (row_half_get r _ v Hr (proj1 Hp) Hg).
    replace (Z.min 255 (v / 2)) with (Z.min 255 v / 2) by (Z.div_mod_to_equations; lia).
    apply rows_min_half; assumption.
Qed.

(** ** Sizing *)
Definition is_pow2 (n : Z) : Prop := exists k, 0 <= k /\ n = 2 ^ k.

(** [y] has bit [i] set iff [x] has some bit set in the window [i, i+m) *)
Definition smeared (m y x : Z) : Prop :=
  forall i, 0 <= i -> (Z.testbit y i = true <-> exists j, i <= j < i + m /\ Z.testbit x j = true).

Lemma smeared_1 : forall x, smeared 1 x x.
Proof.
  intros x i Hi. split.
  - intros Hb. exists i. split; [lia|exact Hb].
  - intros (j & Hj & Hb). replace i with j by lia. exact Hb.
Qed.

Lemma smeared_step : forall m y x, 0 < m -> smeared m y x -> smeared (2 * m) (smear y m) x.
Proof.
  intros m y x Hm Hs i Hi. unfold smear.
  rewrite Z.lor_spec, (Z.shiftr_spec y m i Hi), orb_true_iff.
  rewrite (Hs i Hi), (Hs (i + m) ltac:(lia)).
  split.
  - intros [(j & Hj & Hb)|(j & Hj & Hb)]; exists j; (split; [lia|exact Hb]).
  - intros (j & Hj & Hb). destruct (Z_lt_le_dec j (i + m)) as [Hlt|Hge].
    + left. exists j. split; [lia|exact Hb].
    + right. exists j. split; [lia|exact Hb].
Qed.

Lemma smeared_64_ones : forall y x, 0 < x < 2 ^ 64 -> smeared 64 y x -> 0 <= y ->
  y = Z.ones (Z.log2 x + 1).
Proof.
  intros y x Hx Hs Hy.
  assert (Hlog : 0 <= Z.log2 x < 64).
  { split; [apply Z.log2_nonneg|]. apply Z.log2_lt_pow2; lia. }
  apply Z.bits_inj'. intros i Hi.
  rewrite Z.testbit_ones by lia.
  destruct (Z.testbit y i) eqn:Hb.
  - apply (Hs i Hi) in Hb. destruct Hb as (j & Hj & Hbj).
    destruct (Z_lt_le_dec (Z.log2 x) j) as [Hlt|Hge].
    + rewrite (Z.bits_above_log2 x j) in Hbj by lia. discriminate.
    + symmetry. lia.
  - destruct (Z_lt_le_dec (Z.log2 x) i) as [Hlt|Hge].
    + symmetry. lia.
    + exfalso. assert (Ht : Z.testbit y i = true).
      { apply (Hs i Hi). exists (Z.log2 x). split; [lia|]. apply Z.bit_log2. lia. }
      congruence.
Qed.

Lemma smear_nonneg : forall x k, 0 <= x -> 0 <= smear x k.
Proof.
  intros x k Hx. unfold smear. apply Z.lor_nonneg. split; [exact Hx|].
  apply Z.shiftr_nonneg. exact Hx.
Qed.

Lemma two64_pow : two64 = 2 ^ 64.
Proof. reflexivity. Qed.

Lemma two63_pow : two63 = 2 ^ 63.
Proof. reflexivity. Qed.

Lemma next_power_2_eq : forall c, 2 <= c <= two63 -> next_power_2 c = 2 ^ (Z.log2 (c - 1) + 1).
Proof.
  intros c Hc. rewrite two63_pow in Hc.
  assert (H6364 : 2 ^ 63 < 2 ^ 64) by (apply Z.pow_lt_mono_r; lia).
  unfold next_power_2.
  assert (Hw : wrap_u64 (c - 1) = c - 1).
  { unfold wrap_u64. rewrite two64_pow. apply Z.mod_small. lia. }
  rewrite Hw.
  set (x := c - 1) in *.
  assert (Hx : 0 < x < 2 ^ 64) by lia.
  assert (Hx63 : x < 2 ^ 63) by lia.
  pose proof (smeared_1 x) as S0.
  pose proof (smeared_step 1 _ x ltac:(lia) S0) as S1. change (2 * 1) with 2 in S1.
  pose proof (smeared_step 2 _ x ltac:(lia) S1) as S2. change (2 * 2) with 4 in S2.
  pose proof (smeared_step 4 _ x ltac:(lia) S2) as S3. change (2 * 4) with 8 in S3.
  pose proof (smeared_step 8 _ x ltac:(lia) S3) as S4. change (2 * 8) with 16 in S4.
  pose proof (smeared_step 16 _ x ltac:(lia) S4) as S5. change (2 * 16) with 32 in S5.
  pose proof (smeared_step 32 _ x ltac:(lia) S5) as S6. change (2 * 32) with 64 in S6.
  cbv zeta.
  set (y := smear (smear (smear (smear (smear (smear x 1) 2) 4) 8) 16) 32) in *.
  assert (Hy : 0 <= y).
  { unfold y. repeat apply smear_nonneg. lia. }
  rewrite (smeared_64_ones y x Hx S6 Hy).
  assert (Hlog : 0 <= Z.log2 x < 63).
  { split; [apply Z.log2_nonneg|]. apply Z.log2_lt_pow2; lia. }
  rewrite Z.ones_equiv.
  replace (Z.pred (2 ^ (Z.log2 x + 1)) + 1) with (2 ^ (Z.log2 x + 1)) by lia.
  unfold wrap_u64. rewrite two64_pow. apply Z.mod_small.
  split.
  - apply Z.pow_nonneg. lia.
  - apply Z.pow_lt_mono_r; lia.
Qed.

(* STATEMENT: for 1 <= c <= 2^63 the result is the least power of two >= c *)
Lemma next_power_2_spec : forall c, 1 <= c <= two63 ->
  is_pow2 (next_power_2 c) /\ c <= next_power_2 c /\
  (forall m, is_pow2 m -> c <= m -> next_power_2 c <= m).
Proof.
  intros c Hc.
  destruct (Z.eq_dec c 1) as [H1|H1].
  - subst c. assert (Hn : next_power_2 1 = 1) by (vm_compute; reflexivity). rewrite Hn.
    split; [exists 0; split; [lia|reflexivity]|]. split; [lia|].
    intros m Hm Hle. exact Hle.
  - assert (Hc2 : 2 <= c <= two63) by lia.
    rewrite (next_power_2_eq c Hc2).
    assert (Hx : 0 < c - 1) by lia.
    pose proof (Z.log2_spec (c - 1) Hx) as Hspec.
    pose proof (Z.log2_nonneg (c - 1)) as Hlog.
    replace (Z.succ (Z.log2 (c - 1))) with (Z.log2 (c - 1) + 1) in Hspec by lia.
    split; [exists (Z.log2 (c - 1) + 1); split; [lia|reflexivity]|].
    split; [lia|].
    intros m (j & Hj & Hm) Hle. subst m.
    assert (Hlt : 2 ^ Z.log2 (c - 1) < 2 ^ j) by lia.
    apply Z.pow_lt_mono_r_iff in Hlt; [|lia|lia].
    apply Z.pow_le_mono_r; lia.
Qed.

Lemma pow2_even : forall n, is_pow2 n -> 2 <= n -> n mod 2 = 0.
Proof.
  intros n (k & Hk & Hn) H2. subst n.
  destruct (Z.eq_dec k 0) as [H0|H0].
  - subst k. change (2 ^ 0) with 1 in H2. lia.
  - replace k with (Z.succ (k - 1)) by lia. rewrite Z.pow_succ_r by lia.
    rewrite Z.mul_comm. apply Z_mod_mult.
Qed.

(* STATEMENT *)
Lemma fc_new_wf : forall c seeds, 1 <= c <= two63 -> length seeds = 4%nat -> wf_fc (fc_new c seeds).
Proof.
  intros c seeds Hc Hs.
  destruct (next_power_2_spec c ltac:(lia)) as (Hp & Hle & _).
  unfold fc_new. cbv zeta.
  set (total := next_power_2 c) in *.
  constructor; cbn [fc_rows fc_seeds fc_total].
  - lia.
  - destruct (Z.eq_dec total 1) as [H1|H1]; [left; exact H1|right].
    apply pow2_even; [exact Hp|lia].
  - apply repeat_length.
  - exact Hs.
  - apply Forall_forall. intros r Hr. apply repeat_spec in Hr. subst r. split.
    + unfold wf_row. apply Forall_forall. intros b Hb. apply repeat_spec in Hb. subst b. lia.
    + rewrite repeat_length. apply Z2Nat.id. lia.
Qed.

(** ** TinyLFU level *)
Definition wf_lfu (l : tinylfu) : Prop := wf_fc (lfu_fc l) /\ 0 <= lfu_incs l < lfu_reset_at l.

Definition est (l : tinylfu) (h : Z) : Z := match fc_estimate (lfu_fc l) h with Some e => e | None => 0 end.

(* STATEMENT *)
Lemma lfu_new_wf : forall c seeds, 1 <= c <= two63 -> length seeds = 4%nat -> wf_lfu (lfu_new c seeds).
Proof.
  intros c seeds Hc Hs. unfold wf_lfu, lfu_new. cbn [lfu_fc lfu_incs lfu_reset_at].
  split; [apply fc_new_wf; assumption|lia].
Qed.

Lemma est_bound : forall l h, wf_lfu l -> 0 <= est l h <= 15.
Proof.
  intros l h [Hfc _]. unfold est.
  destruct (fc_estimate_defined (lfu_fc l) h Hfc) as (e & He & Hb). rewrite He. exact Hb.
Qed.

(** One access: never panics on a well-formed sketch, ages exactly when the counter of recorded accesses reaches
    the threshold and not before. *)
(* STATEMENT *)
Lemma lfu_access_spec : forall l h had, wf_lfu l -> door_admissible (lfu_door l) h had = true ->
  exists l', lfu_access l h had = LOk l' /\ wf_lfu l' /\ lfu_reset_at l' = lfu_reset_at l /\
   (lfu_incs l + 1 < lfu_reset_at l ->
      lfu_incs l' = lfu_incs l + 1 /\
      lfu_door l' = (if had then lfu_door l else h :: lfu_door l) /\
      est l' h = (if had then Z.min 15 (est l h + 1) else est l h) /\
      (forall h', est l h' <= est l' h')) /\
   (lfu_incs l + 1 >= lfu_reset_at l ->
      lfu_incs l' = 0 /\ lfu_door l' = [] /\
      exists fc1, (if had then fc_increment (lfu_fc l) h else Some (lfu_fc l)) = Some fc1 /\
                  lfu_fc l' = fc_reset fc1 /\
                  (forall h' e, fc_estimate fc1 h' = Some e -> est l' h' = e / 2)).
Proof.
  intros l h had [Hfc Hincs] Hadm.
  unfold lfu_access. rewrite Hadm. cbn [negb].
  (* the sketch after the (optional) increment *)
  assert (Hfc1 : exists fc1, (if had then fc_increment (lfu_fc l) h else Some (lfu_fc l)) = Some fc1 /\
            wf_fc fc1 /\
            (forall e, fc_estimate (lfu_fc l) h = Some e ->
                       fc_estimate fc1 h = Some (if had then Z.min 15 (e + 1) else e)) /\
            (forall h' e e', fc_estimate (lfu_fc l) h' = Some e -> fc_estimate fc1 h' = Some e' -> e <= e')).
  { destruct had.
    - destruct (fc_increment_spec (lfu_fc l) h Hfc) as (fc' & Hi & Hwf' & _ & _ & Hsame & Hmono).
      exists fc'. split; [exact Hi|]. split; [exact Hwf'|]. split; [exact Hsame|exact Hmono].
    - exists (lfu_fc l). split; [reflexivity|]. split; [exact Hfc|]. split.
      + intros e He. exact He.
      + intros h' e e' He He'. rewrite He in He'. inversion He'; subst. lia. }
  destruct Hfc1 as (fc1 & Hstep & Hwf1 & Hsame & Hmono).
  rewrite Hstep.
  destruct (lfu_reset_at l <=? lfu_incs l + 1) eqn:Hcmp.
  - (* ageing *)
    destruct (fc_reset_spec fc1 Hwf1) as (Hwfr & Hhalf).
    eexists. split; [reflexivity|].
    unfold wf_lfu, est. cbn [lfu_fc lfu_door lfu_incs lfu_reset_at].
    split; [split; [exact Hwfr|lia]|].
    split; [reflexivity|].
    split; [intros Hlt; lia|].
    intros _. split; [reflexivity|]. split; [reflexivity|].
    exists fc1. split; [reflexivity|]. split; [reflexivity|].
    intros h' e He. rewrite (Hhalf h' e He). reflexivity.
  - (* no ageing *)
    eexists. split; [reflexivity|].
    unfold wf_lfu, est. cbn [lfu_fc lfu_door lfu_incs lfu_reset_at].
    split; [split; [exact Hwf1|lia]|].
    split; [reflexivity|].
    split; [|intros Hge; lia].
    intros _. split; [reflexivity|]. split; [destruct had; reflexivity|].
    split.
    + destruct (fc_estimate_defined (lfu_fc l) h Hfc) as (e & He & Hb).
      rewrite He. rewrite (Hsame e He). reflexivity.
    + intros h'.
      destruct (fc_estimate_defined (lfu_fc l) h' Hfc) as (e & He & Hb).
      destruct (fc_estimate_defined fc1 h' Hwf1) as (e' & He' & Hb').
      rewrite He, He'. exact (Hmono h' e e' He He').
Qed.

(** number of accesses of [h] in a stream *)
Fixpoint accesses (h : Z) (hs : list (Z * bool)) : Z :=
  match hs with [] => 0 | (x, _) :: t => (if Z.eqb x h then 1 else 0) + accesses h t end.

Lemma accesses_nonneg : forall h hs, 0 <= accesses h hs.
Proof.
  intros h hs. induction hs as [|[x b] t IH]; cbn [accesses]; [lia|].
  destruct (x =? h); lia.
Qed.

(** 1 when [h] is known to the doorkeeper, else 0 *)
Definition bonus (l : tinylfu) (h : Z) : Z := if zmem h (lfu_door l) then 1 else 0.

Lemma lfu_access_admissible : forall l h had l', lfu_access l h had = LOk l' ->
  door_admissible (lfu_door l) h had = true.
Proof.
  intros l h had l' Ha. unfold lfu_access in Ha.
  destruct (door_admissible (lfu_door l) h had); [reflexivity|]. cbn [negb] in Ha. discriminate.
Qed.

Lemma run_invariant : forall h hs l l', wf_lfu l ->
  lfu_incs l + Z.of_nat (length hs) < lfu_reset_at l ->
  lfu_run l hs = LOk l' ->
  wf_lfu l' /\ Z.min 15 (est l h + accesses h hs) + bonus l h <= est l' h + bonus l' h.
Proof.
  intros h hs. induction hs as [|[x had] t IH]; intros l l' Hwf Hlen Hrun.
  - cbn [lfu_run accesses] in *. inversion Hrun; subst l'. split; [exact Hwf|].
    pose proof (est_bound l h Hwf) as Hb. lia.
  - cbn [lfu_run accesses length] in *.
    destruct (lfu_access l x had) as [l1| |] eqn:Ha; [|discriminate|discriminate].
    pose proof (lfu_access_admissible l x had l1 Ha) as Hadm.
    destruct (lfu_access_spec l x had Hwf Hadm) as (l1' & Ha' & Hwf1 & Hra & Hno & _).
    rewrite Ha in Ha'. inversion Ha'; subst l1'. clear Ha'.
    destruct (Hno ltac:(lia)) as (Hincs1 & Hdoor1 & Hest1 & Hmono1).
    destruct (IH l1 l' Hwf1 ltac:(lia) Hrun) as (Hwf' & Hinv).
    split; [exact Hwf'|].
    pose proof (accesses_nonneg h t) as Hacc.
    pose proof (est_bound l h Hwf) as Hb.
    pose proof (est_bound l1 h Hwf1) as Hb1.
    pose proof (Hmono1 h) as Hm.
    unfold bonus in *. rewrite Hdoor1 in Hinv.
    unfold door_admissible in Hadm.
    destruct (Z.eqb_spec x h) as [Hxh|Hxh].
    + subst x. destruct had.
      * lia.
      * cbn [zmem] in Hinv. rewrite Z.eqb_refl in Hinv.
        destruct (zmem h (lfu_door l)); [discriminate|]. lia.
    + destruct had.
      * lia.
      * cbn [zmem] in Hinv.
        destruct (Z.eqb_spec h x) as [Hhx|Hhx]; [congruence|]. lia.
Qed.

(* STATEMENT: within one ageing window the estimate never under-counts, for every admissible bloom oracle *)
Lemma never_undercounts : forall hs l l' h ans e,
  wf_lfu l ->
  lfu_incs l + Z.of_nat (length hs) < lfu_reset_at l ->      (* no ageing inside the stream *)
  lfu_run l hs = LOk l' ->
  lfu_estimate l' h ans = LOk e ->
  Z.min 15 (accesses h hs) <= e /\ e <= 16.
Proof.
  intros hs l l' h ans e Hwf Hlen Hrun Hest.
  destruct (run_invariant h hs l l' Hwf Hlen Hrun) as (Hwf' & Hinv).
  pose proof (est_bound l h Hwf) as Hb.
  pose proof (est_bound l' h Hwf') as Hb'.
  pose proof (accesses_nonneg h hs) as Hacc.
  set (el := est l h) in *. clearbody el.
  unfold lfu_estimate in Hest. unfold est in Hb', Hinv. unfold bonus in Hinv.
  unfold door_admissible in Hest.
  destruct (fc_estimate (lfu_fc l') h) as [e0|] eqn:He0.
  - destruct (zmem h (lfu_door l')) eqn:Hmem; destruct (zmem h (lfu_door l)) eqn:Hmem0; destruct ans;
      cbn [negb] in Hest; try discriminate; inversion Hest; subst e; lia.
  - destruct (if zmem h (lfu_door l') then ans else true); cbn [negb] in Hest; discriminate.
Qed.

(** the run of a stream on a well-formed TinyLFU with admissible answers never panics *)
(* STATEMENT *)
Lemma lfu_run_no_panic : forall hs l, wf_lfu l -> lfu_run l hs <> LPanic.
Proof.
  intros hs. induction hs as [|[x had] t IH]; intros l Hwf.
  - cbn [lfu_run]. discriminate.
  - cbn [lfu_run].
    destruct (door_admissible (lfu_door l) x had) eqn:Hadm.
    + destruct (lfu_access_spec l x had Hwf Hadm) as (l1 & Ha & Hwf1 & _).
      rewrite Ha. apply IH. exact Hwf1.
    + unfold lfu_access. rewrite Hadm. cbn [negb]. discriminate.
Qed.

(** with the row length of at least one byte, a sketch for one counter is well formed: no index is out of bounds *)
(* STATEMENT *)
Lemma counters_1_no_panic : forall hs, lfu_run (lfu_new 1 [1;2;3;4]) hs <> LPanic.
Proof.
  intros hs. apply lfu_run_no_panic. apply lfu_new_wf; [unfold two63; lia|reflexivity].
Qed.

(* STATEMENT *)
Lemma counters_1_estimate_defined : forall h, exists e, fc_estimate (lfu_fc (lfu_new 1 [1;2;3;4])) h = Some e.
Proof.
  intros h.
  assert (Hwf : wf_lfu (lfu_new 1 [1;2;3;4])) by (apply lfu_new_wf; [unfold two63; lia|reflexivity]).
  destruct Hwf as [Hfc _].
  destruct (fc_estimate_defined _ h Hfc) as (e & He & _). exists e. exact He.
Qed.
