(** Proofs about the sketch model (C14).  Statements marked (* STATEMENT *) are consumed by Props/C14.v. *)
From CacheD Require Import Base Sketch.
From Coq Require Import ZifyBool.

(** ** Byte level: finite sweep over all 256 bytes and both nibble positions, lifted with forallb_forall *)
Definition all_bytes : list Z := map Z.of_nat (seq 0 256).

Definition nibble_check (b : Z) : bool :=
  forallb (fun p =>
    (nib_get (nib_inc b p) p =? Z.min 15 (nib_get b p + 1)) &&
    (nib_get (nib_inc b p) (1 - p) =? nib_get b (1 - p)) &&
    (0 <=? nib_inc b p) && (nib_inc b p <? 256) &&
    (nib_get (byte_half b) p =? nib_get b p / 2) &&
    (0 <=? byte_half b) && (byte_half b <? 256) &&
    (0 <=? nib_get b p) && (nib_get b p <=? 15)) [0; 1].

(* STATEMENT *)
Lemma nibble_ops_correct : forall b pos, 0 <= b < 256 ->
  nib_get (nib_inc b pos) pos = Z.min 15 (nib_get b pos + 1) /\
  nib_get (nib_inc b pos) (pos + 1) = nib_get b (pos + 1) /\
  0 <= nib_inc b pos < 256 /\
  nib_get (byte_half b) pos = nib_get b pos / 2 /\
  0 <= byte_half b < 256 /\
  0 <= nib_get b pos <= 15.
Proof.
Admitted.

(** ** Row level *)
Definition wf_row (row : list Z) : Prop := Forall (fun b => 0 <= b < 256) row.

(* STATEMENT *)
Lemma row_inc_get_same : forall row pos row', wf_row row -> 0 <= pos ->
  row_inc row pos = Some row' ->
  exists v, row_get row pos = Some v /\ row_get row' pos = Some (Z.min 15 (v + 1)) /\ 0 <= v <= 15.
Proof.
Admitted.

(* STATEMENT: incrementing one counter never disturbs another *)
Lemma row_inc_local : forall row pos q row', wf_row row -> 0 <= pos -> 0 <= q -> q <> pos ->
  row_inc row pos = Some row' -> row_get row' q = row_get row q.
Proof.
Admitted.

(* STATEMENT: a saturated counter stays saturated and the row is unchanged *)
Lemma row_inc_saturated : forall row pos, wf_row row -> 0 <= pos ->
  row_get row pos = Some 15 -> row_inc row pos = Some row.
Proof.
Admitted.

Lemma row_inc_wf : forall row pos row', wf_row row -> row_inc row pos = Some row' ->
  wf_row row' /\ length row' = length row.
Proof.
Admitted.

(* STATEMENT *)
Lemma row_half_get : forall row pos v, wf_row row -> 0 <= pos ->
  row_get row pos = Some v -> row_get (row_half row) pos = Some (v / 2).
Proof.
Admitted.

(** ** Sketch level *)
Record wf_fc (fc : fcounter) : Prop := {
  wf_total : 2 <= fc_total fc;
  wf_even : (fc_total fc) mod 2 = 0;
  wf_nrows : length (fc_rows fc) = 4%nat;
  wf_nseeds : length (fc_seeds fc) = 4%nat;
  wf_rows : Forall (fun r => wf_row r /\ Z.of_nat (length r) = fc_total fc / 2) (fc_rows fc)
}.

(** the estimate of a well-formed sketch is defined (no index is out of bounds) *)
(* STATEMENT *)
Lemma fc_estimate_defined : forall fc h, wf_fc fc -> exists e, fc_estimate fc h = Some e /\ 0 <= e <= 15.
Proof.
Admitted.

(* STATEMENT *)
Lemma fc_increment_spec : forall fc h, wf_fc fc ->
  exists fc', fc_increment fc h = Some fc' /\ wf_fc fc' /\ fc_total fc' = fc_total fc /\ fc_seeds fc' = fc_seeds fc /\
    (forall e, fc_estimate fc h = Some e -> fc_estimate fc' h = Some (Z.min 15 (e + 1))) /\
    (forall h' e e', fc_estimate fc h' = Some e -> fc_estimate fc' h' = Some e' -> e <= e').
Proof.
Admitted.

(* STATEMENT: halving *)
Lemma fc_reset_spec : forall fc, wf_fc fc -> wf_fc (fc_reset fc) /\
  forall h e, fc_estimate fc h = Some e -> fc_estimate (fc_reset fc) h = Some (e / 2).
Proof.
Admitted.

(** ** Sizing *)
Definition is_pow2 (n : Z) : Prop := exists k, 0 <= k /\ n = 2 ^ k.

(* STATEMENT: for 1 <= c <= 2^63 the result is the least power of two >= c *)
Lemma next_power_2_spec : forall c, 1 <= c <= two63 ->
  is_pow2 (next_power_2 c) /\ c <= next_power_2 c /\
  (forall m, is_pow2 m -> c <= m -> next_power_2 c <= m).
Proof.
Admitted.

(* STATEMENT *)
Lemma fc_new_wf : forall c seeds, 2 <= c <= two63 -> length seeds = 4%nat -> wf_fc (fc_new c seeds).
Proof.
Admitted.

(** ** TinyLFU level *)
Definition wf_lfu (l : tinylfu) : Prop := wf_fc (lfu_fc l) /\ 0 <= lfu_incs l < lfu_reset_at l.

Definition est (l : tinylfu) (h : Z) : Z := match fc_estimate (lfu_fc l) h with Some e => e | None => 0 end.

(* STATEMENT *)
Lemma lfu_new_wf : forall c seeds, 2 <= c <= two63 -> length seeds = 4%nat -> wf_lfu (lfu_new c seeds).
Proof.
Admitted.

(** One access: never panics on a well-formed sketch, ages exactly when the counter of recorded accesses reaches
    the threshold and not before. *)
(* STATEMENT *)
Lemma lfu_access_spec : forall l h had, wf_lfu l -> door_admissible (lfu_door l) h had = true ->
  exists l', lfu_access l h had = LOk l' /\ wf_lfu l' /\ lfu_reset_at l' = lfu_reset_at l /\
   (lfu_incs l + 1 < lfu_reset_at l ->
      lfu_incs l' = lfu_incs l + 1 /\
      lfu_door l' = (if had then lfu_door l else h :: lfu_door l) /\
      est l' h = (if had then Z.min 15 (est l h + 1) else est l h) /\
      (forall h', est l h' <= est l' h')) /\
   (lfu_incs l + 1 >= lfu_reset_at l ->
      lfu_incs l' = 0 /\ lfu_door l' = [] /\
      exists fc1, (if had then fc_increment (lfu_fc l) h else Some (lfu_fc l)) = Some fc1 /\
                  lfu_fc l' = fc_reset fc1 /\
                  (forall h' e, fc_estimate fc1 h' = Some e -> est l' h' = e / 2)).
Proof.
Admitted.

(** number of accesses of [h] in a stream *)
Fixpoint accesses (h : Z) (hs : list (Z * bool)) : Z :=
  match hs with [] => 0 | (x, _) :: t => (if Z.eqb x h then 1 else 0) + accesses h t end.

(* STATEMENT: within one ageing window the estimate never under-counts, for every admissible bloom oracle *)
Lemma never_undercounts : forall hs l l' h ans e,
  wf_lfu l ->
  lfu_incs l + Z.of_nat (length hs) < lfu_reset_at l ->      (* no ageing inside the stream *)
  lfu_run l hs = LOk l' ->
  lfu_estimate l' h ans = LOk e ->
  Z.min 15 (accesses h hs) <= e /\ e <= 16.
Proof.
Admitted.

(** the run of a stream on a well-formed TinyLFU with admissible answers never panics *)
(* STATEMENT *)
Lemma lfu_run_no_panic : forall hs l, wf_lfu l -> lfu_run l hs <> LPanic.
Proof.
Admitted.

(* STATEMENT: D8 — one counter is accepted by the builder but the rows are empty: the first real increment is out of bounds *)
Lemma counters_1_panics : lfu_run (lfu_new 1 [1;2;3;4]) [(5, false); (5, true)] = LPanic.
Proof. vm_compute. reflexivity. Qed.
