(** C01 at every state of every micro schedule, no restriction on the events: the total stays within [0, cache weight] -
    inside every window of put_or_update, of the worker and of shutdown() - unless the worker executes an UpdateWeight
    that asks for more than the free space (known finding D2), which is the only step that is not guarded by a space check. *)
From CacheD Require Import Base Sketch Model Window Micro.
From CacheD.proofs Require Import Defs AListLemmas InvLemmas InvOps InvCalls InvWorker InvProofs ApiProofs AdmissionProofs
                                  MicroLedger.
From Coq Require Import ZifyBool.

Lemma led_wpos : forall s, Led s -> wpos (weights s).
Proof. intros s HL. exact (led_pos s HL). Qed.

(** the eviction loop re-reads the free space from the state in every round: it only lowers the total, and it reports
    'accepted' only when the incoming weight fits *)
Lemma create_space_loop_bound : forall fuel cfg est inc w orders pops sm s vs res s' vs',
  c_debug cfg = true -> wpos (weights s) ->
  create_space_loop fuel cfg est inc w orders pops sm (c_max cfg - used s) s vs = (res, s', vs') ->
  used s' <= used s /\ wpos (weights s') /\ (res = SpAccepted -> w <= c_max cfg - used s').
Proof.
  induction fuel as [|fuel IH]; intros cfg est inc w orders pops sm s vs res s' vs' Hd Hpos H; cbn [create_space_loop] in H.
  - inversion H; subst. repeat split; try lia; try assumption. intros E; discriminate E.
  - destruct (w <=? c_max cfg - used s) eqn:E1.
    { inversion H; subst. repeat split; try lia; assumption. }
    assert (Hsame : forall r, r <> SpAccepted -> (r, s, vs) = (res, s', vs') ->
              used s' <= used s /\ wpos (weights s') /\ (res = SpAccepted -> w <= c_max cfg - used s')).
    { intros r Hr E. inversion E; subst. repeat split; try lia; try assumption. intros E2; contradiction. }
    destruct pops as [|p pops']; [(eapply Hsame; [|exact H]; discriminate)|].
    destruct (p =? -1).
    { destruct sm as [|y sm1]; [|(eapply Hsame; [|exact H]; discriminate)].
      destruct (w <=? c_max cfg - used s) eqn:E2; [discriminate|]. (eapply Hsame; [|exact H]; discriminate). }
    destruct (sample_find p sm) as [x|]; [|(eapply Hsame; [|exact H]; discriminate)].
    destruct (negb (is_max x sm)); [(eapply Hsame; [|exact H]; discriminate)|].
    destruct (inc <? sk_freq x); [(eapply Hsame; [|exact H]; discriminate)|].
    destruct (weights_delete cfg p true s) as [s1|site s1|why] eqn:Ed.
    + destruct (weights_delete_le cfg p true s s1 Hd Hpos (or_introl Ed)) as [Hle Hpos1].
      assert (Hsame1 : forall r vs1, r <> SpAccepted -> (r, s1, vs1) = (res, s', vs') ->
                used s' <= used s /\ wpos (weights s') /\ (res = SpAccepted -> w <= c_max cfg - used s')).
      { intros r vs1 Hr E. inversion E; subst. repeat split; try lia; try assumption. intros E2; contradiction. }
      destruct orders as [|order orders']; [(eapply Hsame1; [|exact H]; discriminate)|].
      destruct (sample_fill est (weights s1) order (sample_remove p sm)) as [sm'|]; [|(eapply Hsame1; [|exact H]; discriminate)].
      destruct (IH _ _ _ _ _ _ _ _ _ _ _ _ Hd Hpos1 H) as (A & B & C). repeat split; try lia; assumption.
    + destruct (weights_delete_le cfg p true s s1 Hd Hpos (or_intror (ex_intro _ site Ed))) as [Hle Hpos1].
      inversion H; subst. repeat split; try lia; try assumption. intros E; discriminate E.
    + (eapply Hsame; [|exact H]; discriminate).
Qed.

Lemma weights_add_used : forall cfg k id h w s s', c_debug cfg = true -> weights_add cfg k id h w s = Ok s' -> used s' = used s + w.
Proof.
  intros cfg k id h w s s' Hd H. unfold weights_add in H. cbv zeta in H.
  destruct (add_i64 cfg _ w) as [u|] eqn:E; [|discriminate]. apply add_i64_debug in E; [|exact Hd]. destruct E as [-> _].
  inversion H; subst. reflexivity.
Qed.

(** an answered put leaves the total within the limit if it was within the limit before *)
Lemma admission_bound : forall cfg orc k id h w s x s1 vs, c_debug cfg = true -> wpos (weights s) -> used s <= c_max cfg ->
  admission cfg orc k id h w s = (AdStatus x, s1, vs) -> used s1 <= c_max cfg.
Proof.
  intros cfg orc k id h w s x s1 vs Hd Hpos Hu H. unfold admission in H.
  destruct (c_max cfg <? w) eqn:E0; [inversion H; subst; exact Hu|].
  destruct (w <=? c_max cfg - used s) eqn:E1.
  { destruct (weights_add cfg k id h w s) as [s2|site s2|why] eqn:E2; inversion H; subst.
    rewrite (weights_add_used _ _ _ _ _ _ _ Hd E2). lia. }
  destruct (negb (bloom_admissible _ _)); [discriminate|].
  destruct (est_panics (lfu s)); [discriminate|].
  destruct (o_orders orc) as [|order0 orders]; [discriminate|].
  destruct (negb (Nat.leb (length order0) sample_size)); [discriminate|].
  destruct (sample_fill _ (weights s) order0 []) as [sm0|]; [|discriminate].
  destruct (create_space_loop _ cfg _ _ w orders (o_pops orc) sm0 _ s []) as [[sr s2] vs2] eqn:E7.
  destruct (create_space_loop_bound _ _ _ _ _ _ _ _ _ _ _ _ _ Hd Hpos E7) as (A & B & C).
  destruct sr as [| |site|why]; try discriminate.
  - destruct (weights_add cfg k id h w s2) as [s3|site s3|why] eqn:E8; inversion H; subst.
    rewrite (weights_add_used _ _ _ _ _ _ _ Hd E8). specialize (C eq_refl). lia.
  - inversion H; subst. lia.
Qed.

(** the head of the queue is an UpdateWeight that asks for more than the free space *)
Definition over_now (cfg : config) (s : state) : Prop :=
  match worker s, queue s with
  | Alive, (CUpdateWeight id w, _) :: _ =>
      match alookup id (weights s) with
      | Some wk => c_max cfg - used s < w - w_weight wk
      | None => False
      end
  | _, _ => False
  end.

Lemma worker_step_bound : forall cfg orc s, c_debug cfg = true -> Led s -> used s <= c_max cfg -> ~ over_now cfg s ->
  worker (fst (worker_step cfg orc s)) <> Dead -> used (fst (worker_step cfg orc s)) <= c_max cfg.
Proof.
  intros cfg orc s Hd HL Hu Hno. pose proof (led_wpos s HL) as Hpos. unfold over_now in Hno. unfold worker_step.
  destruct (worker s) eqn:Ew; try (intros _; exact Hu).
  destruct (queue s) as [|[c a] q] eqn:Eq; [intros _; exact Hu|]. cbv zeta.
  destruct c as [k v id h w|k v id h w ttl|k|id w|].
  - destruct (amem k _); [intros _; exact Hu|].
    destruct (admission cfg orc k id h w (set_queue s q)) as [[r s1] vs] eqn:Ea.
    destruct r as [x|site|why]; cbn [fst]; intros Hn.
    + pose proof (admission_bound cfg orc k id h w (set_queue s q) _ _ _ Hd Hpos Hu Ea) as H1. destruct x; exact H1.
    + exfalso. apply Hn. reflexivity.
    + exact Hu.
  - destruct (amem k _); [intros _; exact Hu|].
    destruct (admission cfg orc k id h w (set_queue s q)) as [[r s1] vs] eqn:Ea.
    destruct r as [x|site|why]; cbn [fst]; try (intros Hn; first [exfalso; apply Hn; reflexivity|exact Hu]).
    pose proof (admission_bound cfg orc k id h w (set_queue s q) _ _ _ Hd Hpos Hu Ea) as H1.
    destruct x; try (intros _; exact H1).
    destruct (calc_expiry (now s1) ttl); cbn [fst]; intros Hn; [exact H1|exfalso; apply Hn; reflexivity].
  - destruct (alookup k (store (set_queue s q))) as [e|]; [|intros _; exact Hu].
    destruct (weights_delete cfg (e_id e) false (store_delete k (set_queue s q))) as [s2|site s2|why] eqn:Edel; cbn [fst]; intros Hn.
    + destruct (store_delete_sol k (set_queue s q)) as (_ & Hus & Hws & _).
      assert (Hpos1 : wpos (weights (store_delete k (set_queue s q)))) by (rewrite Hws; exact Hpos).
      destruct (weights_delete_le cfg (e_id e) false _ s2 Hd Hpos1 (or_introl Edel)) as [Hle _].
      rewrite Hus in Hle. cbn [used set_queue] in Hle.
      destruct (e_exp e); unfold set_ack; sred; lia.
    + exfalso. apply Hn. reflexivity.
    + exact Hu.
  - destruct (weights_update cfg id w (set_queue s q)) as [s1|site s1|why] eqn:Eup; cbn [fst]; intros Hn.
    + apply weights_update_used in Eup; [|exact Hd]. cbn [weights used set_queue] in Eup.
      unfold set_ack; sred. destruct (alookup id (weights s)) as [wk|]; lia.
    + exfalso. apply Hn. reflexivity.
    + exact Hu.
  - intros _. cbn [fst used set_worker set_queue]. rewrite drain_queue_used. exact Hu.
Qed.

Lemma step_bound : forall cfg s ev, c_debug cfg = true -> Led s -> 0 <= c_max cfg -> used s <= c_max cfg ->
  ((exists orc, ev = EWorker orc) -> ~ over_now cfg s) ->
  worker (fst (step cfg s ev)) <> Dead -> used (fst (step cfg s ev)) <= c_max cfg.
Proof.
  intros cfg s ev Hd HL Hm Hu Hno Hn. destruct ev as [tid r idxs|tid|orc| |bl|dt|a]; cbn [step] in *.
  - destruct (call_used cfg tid r idxs s) as [H|H]; lia.
  - destruct (resume_used cfg tid s) as [H|H]; lia.
  - apply worker_step_bound; try assumption. apply Hno. eexists; reflexivity.
  - pose proof (sweep_used cfg s Hd (led_wpos s HL)). lia.
  - rewrite drain_used. lia.
  - cbn [fst used set_now]. lia.
  - cbn [fst]. lia.
Qed.

Lemma upsert_half1_used : forall cfg k v w ttl rm s,
  match upsert_half1 cfg k v w ttl rm s with inl (s', _) => used s' = used s | inr (s', _) => used s' = used s end.
Proof.
  intros cfg k v w ttl rm s. unfold upsert_half1. destruct (alookup k (store s)); [|reflexivity]. cbv zeta.
  destruct rm; [reflexivity|]. destruct ttl as [t|]; [destruct (calc_expiry (now s) t)|]; reflexivity.
Qed.

Lemma upsert_half2_used : forall cfg tid u s, used (fst (upsert_half2 cfg tid u s)) = used s.
Proof.
  intros cfg tid u s. unfold upsert_half2. cbv zeta.
  destruct (u_resp u) as [[[id old] new_exp]|].
  - destruct (type_of_expiry_update old new_exp);
      repeat (match goal with
              | |- used (fst (match ?x with _ => _ end)) = _ => destruct x eqn:?
              | |- used (fst (if ?b then _ else _)) = _ => destruct b eqn:?
              end); cbn [fst]; try reflexivity; rewrite do_send_used; reflexivity.
  - destruct (u_v u) as [val|]; [|reflexivity].
    destruct (requested_weight cfg (u_k u) (Some val) (u_w u) (u_ttl u)) as [wt|]; [|reflexivity].
    destruct (wt <=? 0); [reflexivity|]. destruct (u_ttl u); rewrite do_send_used; reflexivity.
Qed.

Lemma worker_half1_bound : forall cfg orc s, c_debug cfg = true -> Led s -> used s <= c_max cfg -> ~ over_now cfg s ->
  match worker_half1 cfg orc s with
  | inl (s', _) => used s' <= c_max cfg
  | inr (s', _) => worker s' <> Dead -> used s' <= c_max cfg
  end.
Proof.
  intros cfg orc s Hd HL Hu Hno. unfold worker_half1.
  pose proof (worker_step_bound cfg orc s Hd HL Hu Hno) as Hws.
  destruct (worker_step cfg orc s) as [sw rw] eqn:Ew. cbn [fst] in Hws.
  destruct (worker s) eqn:Hwk; try exact Hws.
  destruct (queue s) as [|[c a] q] eqn:Hq; [exact Hws|].
  destruct c as [k v id h w|k v id h w ttl|k|id w|]; try exact Hws. cbv zeta.
  destruct (amem k (store (set_queue s q))); [exact Hws|].
  destruct (admission cfg orc k id h w (set_queue s q)) as [[r s1] vs] eqn:E.
  destruct r as [[| |rj|]|site|why]; try exact Hws.
  destruct (calc_expiry (now s1) ttl); [|exact Hws].
  exact (admission_bound cfg orc k id h w (set_queue s q) _ _ _ Hd (led_wpos s HL) Hu E).
Qed.

Lemma wstep_bound : forall cfg ws ev, c_debug cfg = true -> Led (base ws) -> 0 <= c_max cfg -> used (base ws) <= c_max cfg ->
  ((exists orc, ev = WBase (EWorker orc)) \/ (exists orc, ev = WPut1 orc) -> ~ over_now cfg (base ws)) ->
  worker (base (fst (wstep cfg ws ev))) <> Dead -> used (base (fst (wstep cfg ws ev))) <= c_max cfg.
Proof.
  intros cfg ws ev Hd HL Hm Hu Hno. destruct ev as [e|tid k v w ttl rm|tid|orc|]; cbn [wstep].
  - match goal with |- context [if ?b then _ else _] => destruct b end; [|intros _; exact Hu].
    pose proof (step_bound cfg (base ws) e Hd HL Hm Hu) as H.
    destruct (step cfg (base ws) e) as [s' ret]. cbn [fst base with_base] in *. apply H.
    intros (orc & ->). apply Hno. left. eexists; reflexivity.
  - intros _. destruct (_ || _); [exact Hu|]. destruct (shut (base ws)); [exact Hu|].
    pose proof (upsert_half1_used cfg k v w ttl rm (base ws)) as H.
    destruct (upsert_half1 cfg k v w ttl rm (base ws)) as [[s' u]|[s' ret]]; cbn [fst base with_base]; lia.
  - intros _. destruct (alookup tid (ups ws)) as [u|]; [|exact Hu].
    pose proof (upsert_half2_used cfg tid u (base ws)) as H.
    destruct (upsert_half2 cfg tid u (base ws)) as [s' ret]. cbn [fst base] in *. lia.
  - destruct (wpending ws); [intros _; exact Hu|].
    pose proof (worker_half1_bound cfg orc (base ws) Hd HL Hu (Hno (or_intror (ex_intro _ orc eq_refl)))) as H.
    destruct (worker_half1 cfg orc (base ws)) as [[s' p]|[s' ret]]; cbn [fst base with_base]; [intros _; exact H|exact H].
  - intros _. destruct (wpending ws) as [p|]; [|exact Hu]. unfold worker_half2. cbn [fst base]. exact Hu.
Qed.

Lemma shutdown_stage_used : forall cfg ms tid n,
  used (mbase (fst (shutdown_stage cfg ms tid n))) = used (mbase ms) \/ used (mbase (fst (shutdown_stage cfg ms tid n))) = 0.
Proof.
  intros cfg ms tid n. unfold shutdown_stage. cbv zeta.
  repeat match goal with
         | |- context [if ?b then _ else _] => destruct b
         | |- context [match worker ?x with _ => _ end] => destruct (worker x)
         | |- context [match consumer ?x with _ => _ end] => destruct (consumer x)
         end; cbn; first [left; reflexivity|right; reflexivity].
Qed.

(** a micro event that makes the worker take the command at the head of the queue while that command is an over-limit
    UpdateWeight *)
Definition mover_all (cfg : config) (ms : mstate) (ev : mevent) : Prop :=
  match ev with
  | MWin (WBase (EWorker _)) | MWin (WPut1 _) | MWorker1 _ => over_now cfg (mbase ms)
  | _ => False
  end.

Lemma mstep_bound : forall cfg ms ev, c_debug cfg = true -> Led (mbase ms) -> 0 <= c_max cfg ->
  used (mbase ms) <= c_max cfg -> ~ mover_all cfg ms ev ->
  worker (mbase (fst (mstep cfg ms ev))) <> Dead -> used (mbase (fst (mstep cfg ms ev))) <= c_max cfg.
Proof.
  intros cfg ms ev Hd HL Hm Hu Hno. pose proof (led_wpos _ HL) as Hpos.
  destruct ev as [e|tid r idxs|tid idxs|orc|]; cbn [mstep].
  - destruct (mwin_enabled ms e); [|intros _; exact Hu].
    pose proof (wstep_bound cfg (win ms) e Hd HL Hm Hu) as H.
    destruct (wstep cfg (win ms) e) as [w' ret]. cbn [fst] in *. apply H.
    intros [(orc & ->)|(orc & ->)]; exact Hno.
  - intros _. unfold menter. destruct (negb (caller_free ms tid)); [exact Hu|]. cbv zeta.
    destruct (shut (mbase ms) || negb (micro_request r) || early_panic cfg r).
    + destruct (call_used cfg tid r idxs (mbase ms)) as [H|H]; destruct (call cfg tid r idxs (mbase ms)) as [s' ret];
        cbn [fst mbase with_mbase win with_base base] in *; lia.
    + destruct r; exact Hu.
  - intros _. unfold mstepc. cbv zeta. destruct (alookup tid (cps ms)) as [p|] eqn:Hp; [|exact Hu].
    destruct p as [r|k v w ttl| |h obs|n].
    + destruct r; try exact Hu;
        try (unfold put_check; cbv zeta; repeat match goal with |- context [if ?b then _ else _] => destruct b end; exact Hu);
        try (unfold read_lookup; cbv zeta; destruct (lookup_alive _ _); exact Hu).
      * pose proof (upsert_half1_used cfg k v w ttl rm (mbase ms)) as H.
        destruct (upsert_half1 cfg k v w ttl rm (mbase ms)) as [[s' u]|[s' ret]]; cbn; cbn in H; lia.
      * cbn. unfold soft_mark. destruct (alookup k (store (mbase ms))); exact Hu.
      * unfold read_body. destruct (read_one cfg k idxs (mbase ms)) as [[[v0 s'] [|i l]]|] eqn:Hr; try exact Hu.
        cbn. rewrite (read_one_used _ _ _ _ _ _ _ Hr). exact Hu.
      * unfold read_body. destruct (read_one cfg k idxs (mbase ms)) as [[[v0 s'] [|i l]]|] eqn:Hr; try exact Hu.
        cbn. rewrite (read_one_used _ _ _ _ _ _ _ Hr). exact Hu.
    + exact Hu.
    + destruct (alookup tid (blocked (mbase ms))) as [[c| |]|]; try exact Hu.
      pose proof (do_send_used cfg tid c (set_blocked (mbase ms) (aremove tid (blocked (mbase ms))))) as R.
      destruct (do_send cfg tid c (set_blocked (mbase ms) (aremove tid (blocked (mbase ms))))) as [s' ret].
      cbn [fst] in *. cbn. rewrite R. exact Hu.
    + destruct idxs as [|i [|j l]]; try exact Hu.
      destruct (pool_add cfg i h (mbase ms)) as [s'|] eqn:Hpa; [|exact Hu].
      cbn. rewrite (pool_add_used _ _ _ _ _ Hpa). exact Hu.
    + destruct (shutdown_stage_used cfg ms tid n) as [H|H]; lia.
  - unfold mworker1. cbv zeta. destruct (wdel ms); [intros _; exact Hu|]. destruct (wpending (win ms)); [intros _; exact Hu|].
    assert (Hfall : worker (mbase (fst (let '(w', ret) := wstep cfg (win ms) (WPut1 orc) in
                                        ({| win := w'; cps := cps ms; wdel := None |}, ret)))) <> Dead ->
                    used (mbase (fst (let '(w', ret) := wstep cfg (win ms) (WPut1 orc) in
                                      ({| win := w'; cps := cps ms; wdel := None |}, ret)))) <= c_max cfg).
    { pose proof (wstep_bound cfg (win ms) (WPut1 orc) Hd HL Hm Hu (fun _ => Hno)) as H.
      destruct (wstep cfg (win ms) (WPut1 orc)) as [w' ret]. exact H. }
    destruct (worker (mbase ms)) eqn:Hwk; try exact Hfall.
    destruct (queue (mbase ms)) as [|[c a] q] eqn:Hq; [exact Hfall|].
    assert (Hput : forall k v id h w ttl, worker (mbase (fst (mput1 cfg ms orc k v id h w ttl a q))) <> Dead ->
              used (mbase (fst (mput1 cfg ms orc k v id h w ttl a q))) <= c_max cfg).
    { intros k v id h w ttl. unfold mput1. cbv zeta. destruct (amem k _); [intros _; exact Hu|].
      destruct (admission cfg orc k id h w (set_queue (mbase ms) q)) as [[r s1] vs] eqn:E.
      destruct r as [x|site|why]; cbn [fst].
      - pose proof (admission_bound cfg orc k id h w (set_queue (mbase ms) q) _ _ _ Hd Hpos Hu E) as H1.
        destruct x; intros _; exact H1.
      - intros Hn. exfalso. apply Hn. reflexivity.
      - intros _. exact Hu. }
    destruct c as [k v id h w|k v id h w ttl|k|id w|]; try exact Hfall; try apply Hput.
    intros _. destruct (alookup k (store (set_queue (mbase ms) q))); cbn [fst mbase with_mbase win with_base base]; [|exact Hu].
    destruct (store_delete_sol k (set_queue (mbase ms) q)) as (_ & Hus & _). rewrite Hus. exact Hu.
  - unfold mworker2. cbv zeta. destruct (wdel ms) as [[a id exp|a id exp|a k v id ttl obs]|].
    + destruct (weights_delete cfg id false (mbase ms)) as [s2|site s2|why] eqn:Ed; cbn [fst mbase win with_base base]; intros Hn.
      * destruct (weights_delete_le cfg id false _ s2 Hd Hpos (or_introl Ed)) as [Hle _]. lia.
      * exfalso. apply Hn. reflexivity.
      * exact Hu.
    + intros _. cbn [fst mbase win with_base base]. destruct exp; exact Hu.
    + destruct ttl as [t|]; [destruct (calc_expiry (now (mbase ms)) t)|]; intros _; exact Hu.
    + pose proof (wstep_bound cfg (win ms) WPut2 Hd HL Hm Hu) as H.
      destruct (wstep cfg (win ms) WPut2) as [w' ret]. cbn [fst] in *. apply H.
      intros [(orc & E)|(orc & E)]; discriminate.
Qed.

Fixpoint mvisits_all (cfg : config) (ms : mstate) (evs : list mevent) : list (mstate * mevent) :=
  match evs with
  | [] => []
  | ev :: t => (ms, ev) :: mvisits_all cfg (fst (mstep cfg ms ev)) t
  end.

Lemma mbound_run_from : forall cfg evs ms, c_debug cfg = true -> 0 <= c_max cfg -> MLed ms -> used (mbase ms) <= c_max cfg ->
  Forall (fun p => ~ mover_all cfg (fst p) (snd p)) (mvisits_all cfg ms evs) ->
  worker (mbase (mrun_from cfg ms evs)) <> Dead -> used (mbase (mrun_from cfg ms evs)) <= c_max cfg.
Proof.
  intros cfg evs. induction evs as [|ev t IH]; intros ms Hd Hm HM Hu Hno Hnd; [exact Hu|].
  cbn [mvisits_all] in Hno. inversion Hno as [|y ys Hno1 Hno2]; subst. cbn [fst snd] in Hno1.
  unfold mrun_from in *. cbn [fold_left] in *.
  assert (Hnd1 : worker (mbase (fst (mstep cfg ms ev))) <> Dead).
  { intros Hdd. apply Hnd. apply (mrun_from_dead cfg t). exact Hdd. }
  apply IH; try assumption.
  - apply mstep_led; assumption.
  - apply mstep_bound; try assumption. exact (ml_led ms HM).
Qed.

(* STATEMENT (C01 at every state of every micro schedule, no restriction on the events): while the worker has not panicked
   and has never taken an UpdateWeight that asks for more than the free space (known finding D2), the total weight lies
   between 0 and the cache weight - inside every window of put_or_update, of the worker's put, put with time-to-live and
   Delete, and of shutdown() *)
Lemma micro_used_bounded_all : forall cfg evs, c_debug cfg = true -> 0 <= c_max cfg ->
  Forall (fun p => ~ mover_all cfg (fst p) (snd p)) (mvisits_all cfg (minit cfg) evs) ->
  worker (mbase (mrun cfg evs)) <> Dead -> 0 <= used (mbase (mrun cfg evs)) <= c_max cfg.
Proof.
  intros cfg evs Hd Hm Hno Hnd. split.
  - apply Led_used_nonneg. exact (ml_led _ (mled_run_from cfg evs (minit cfg) Hd (mled_init cfg) Hnd)).
  - apply mbound_run_from; try assumption; first [apply mled_init|cbn; exact Hm].
Qed.
