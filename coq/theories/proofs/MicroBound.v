(** C01 for every interleaving of the micro steps of puts, deletes and reads with whole events of the atomic model: the
    micro steps of callers never touch the total, so the bound of the atomic model carries over. *)
From CacheD Require Import Base Sketch Model Window Micro.
From CacheD.proofs Require Import Closing AListLemmas InvLemmas InvCalls AdmissionProofs WindowProofs MicroProofs.
From Coq Require Import ZifyBool.

Lemma used_bounded_step_closed : forall cfg s ev, wf_config cfg -> Inv cfg s -> valid_event ev ->
  0 <= used s <= c_max cfg -> ~ over_limit_update cfg s ev ->
  worker (step_state cfg s ev) <> Dead ->
  0 <= used (step_state cfg s ev) <= c_max cfg.
Proof. close_with used_bounded_step. Qed.

Lemma frameR_used : forall s s', frameR s s' -> used s' = used s.
Proof. intros s s' F. unfold frameR in F. intuition. Qed.

Lemma do_send_used : forall cfg tid c s, used (fst (do_send cfg tid c s)) = used s.
Proof.
  intros cfg tid c s. unfold do_send.
  destruct (worker s); [destruct (Z.of_nat (length (queue s)) <? c_queue cfg)| | |]; reflexivity.
Qed.

Lemma mstepc_used : forall cfg ms tid idxs, (forall t p, alookup t (cps ms) = Some p -> cp_plain p) ->
  used (mbase (fst (mstepc cfg ms tid idxs))) = used (mbase ms).
Proof.
  intros cfg ms tid idxs HM.
  unfold mstepc. destruct (alookup tid (cps ms)) as [p|] eqn:Hp; [|reflexivity].
  pose proof (HM tid p Hp) as Hpl.
  destruct p as [r|k v w ttl| |h obs|n].
  - destruct r; try reflexivity; try contradiction;
      try (unfold put_check; repeat match goal with |- context [if ?b then _ else _] => destruct b end; reflexivity).
    + unfold soft_mark. destruct (alookup k (store (mbase ms))); reflexivity.
    + unfold read_lookup. destruct (lookup_alive k (mbase ms)); reflexivity.
    + unfold read_body. destruct (read_one cfg k idxs (mbase ms)) as [[[v s'] [|i l]]|] eqn:Hr; try reflexivity.
      cbn [fst mbase end_cp win with_base base]. apply (frameR_used _ _ (InvCalls.read_one_frame cfg k idxs _ _ _ _ Hr)).
    + unfold read_lookup. destruct (lookup_alive k (mbase ms)); reflexivity.
    + unfold read_body. destruct (read_one cfg k idxs (mbase ms)) as [[[v s'] [|i l]]|] eqn:Hr; try reflexivity.
      cbn [fst mbase end_cp win with_base base]. apply (frameR_used _ _ (InvCalls.read_one_frame cfg k idxs _ _ _ _ Hr)).
  - reflexivity.
  - destruct (alookup tid (blocked (mbase ms))) as [[c| |]|]; try reflexivity.
    pose proof (do_send_used cfg tid c (set_blocked (mbase ms) (aremove tid (blocked (mbase ms))))) as R.
    destruct (do_send cfg tid c (set_blocked (mbase ms) (aremove tid (blocked (mbase ms))))) as [s' ret].
    cbn [fst] in *. exact R.
  - destruct idxs as [|i [|j l]]; try reflexivity.
    destruct (pool_add cfg i h (mbase ms)) as [s'|] eqn:Hpa; [|reflexivity].
    cbn [fst mbase end_cp win with_base base]. apply (frameR_used _ _ (InvCalls.pool_add_frame cfg i h _ _ Hpa)).
  - contradiction.
Qed.

(** an UpdateWeight that asks for more than the free space (known finding D2) about to be executed *)
Definition mover_limit (cfg : config) (ms : mstate) (ev : mevent) : Prop :=
  match ev with
  | MWin (WBase e) => over_limit_update cfg (mbase ms) e
  | MEnter tid r idxs => over_limit_update cfg (mbase ms) (ECall tid r idxs)
  | _ => False
  end.

Lemma mused_bounded_step : forall cfg ms ev, wf_config cfg -> MInv cfg ms -> plain_micro ev ->
  0 <= used (mbase ms) <= c_max cfg -> ~ mover_limit cfg ms ev ->
  worker (mbase (fst (mstep cfg ms ev))) <> Dead ->
  0 <= used (mbase (fst (mstep cfg ms ev))) <= c_max cfg.
Proof.
  intros cfg ms ev Hcfg HM Hev Hu Hno Hnd. destruct ev as [e|tid r idxs|tid idxs|orc|]; try contradiction.
  - destruct e as [b| | | |]; try contradiction.
    rewrite (mwin_base_eq cfg ms b (mi_ups cfg ms HM) (mi_wp cfg ms HM)) in *.
    destruct (mwin_enabled ms (WBase b)); [|exact Hu]. cbn [fst mbase with_mbase win with_base base] in *.
    apply (used_bounded_step_closed cfg (mbase ms) b Hcfg (mi_inv cfg ms HM) Hev Hu Hno Hnd).
  - destruct Hev as (Hv & Hnu & Hns). cbn [mstep] in *. revert Hnd. unfold menter.
    destruct (negb (caller_free ms tid)); [intros; exact Hu|].
    destruct (shut (mbase ms) || negb (micro_request r) || early_panic cfg r).
    + intros Hnd.
      pose proof (used_bounded_step_closed cfg (mbase ms) (ECall tid r idxs) Hcfg (mi_inv cfg ms HM) Hv Hu Hno) as H.
      unfold step_state in H. cbn [step] in H.
      destruct (call cfg tid r idxs (mbase ms)) as [s' ret]. cbn [fst mbase with_mbase win with_base base] in *.
      apply H. exact Hnd.
    + intros _. destruct r; exact Hu.
  - cbn [mstep]. rewrite mstepc_used by exact (mi_cps cfg ms HM). exact Hu.
Qed.

(** the events of a micro run, each with the state it starts from *)
Fixpoint mvisits (cfg : config) (ms : mstate) (evs : list mevent) : list (mstate * mevent) :=
  match evs with
  | [] => []
  | ev :: t => (ms, ev) :: mvisits cfg (fst (mstep cfg ms ev)) t
  end.

Lemma mused_bounded_run_from : forall cfg evs ms, wf_config cfg -> MInv cfg ms -> 0 <= used (mbase ms) <= c_max cfg ->
  Forall plain_micro evs -> Forall (fun p => ~ mover_limit cfg (fst p) (snd p)) (mvisits cfg ms evs) ->
  worker (mbase (mrun_from cfg ms evs)) <> Dead -> 0 <= used (mbase (mrun_from cfg ms evs)) <= c_max cfg.
Proof.
  intros cfg evs. induction evs as [|ev t IH]; intros ms Hcfg HM Hu Hall Hno Hnd; [exact Hu|].
  inversion Hall as [|x xs Hev Ht]; subst. cbn [mvisits] in Hno. inversion Hno as [|y ys Hno1 Hno2]; subst.
  cbn [fst snd] in Hno1. unfold mrun_from in *. cbn [fold_left] in *.
  assert (Hnd1 : worker (mbase (fst (mstep cfg ms ev))) <> Dead).
  { intros Hd. apply Hnd. apply (mrun_dead cfg t); [|exact Ht|exact Hd].
    apply mshape_step; [apply (MInv_shape cfg); exact HM|exact Hev]. }
  apply IH; try assumption.
  - apply minv_step; assumption.
  - apply mused_bounded_step; assumption.
Qed.

(* STATEMENT (C01 for every interleaving of the micro steps of puts, deletes and reads with each other and with whole
   worker commands, sweeps and batches): the total stays within [0, max] at every state, unless an UpdateWeight that
   asks for more than the free space is executed (known finding D2) *)
Lemma micro_used_bounded_run : forall cfg evs, wf_config cfg -> Forall plain_micro evs ->
  Forall (fun p => ~ mover_limit cfg (fst p) (snd p)) (mvisits cfg (minit cfg) evs) ->
  worker (mbase (mrun cfg evs)) <> Dead -> 0 <= used (mbase (mrun cfg evs)) <= c_max cfg.
Proof.
  intros cfg evs Hcfg Hall Hno Hnd. apply mused_bounded_run_from; try assumption.
  - apply minv_init. exact Hcfg.
  - pose proof (wf_max _ Hcfg). cbn. lia.
Qed.

(* STATEMENT (C10 / C03 at every state of every interleaving of the micro steps of puts, deletes and reads): a sweep spares
   every key that has no time-to-live, whose expiry has not passed, or whose expiry belongs to another shard *)
Lemma micro_sweep_spares : forall cfg evs k e, wf_config cfg -> Forall plain_micro evs ->
  let ms := mrun cfg evs in
  worker (mbase ms) <> Dead -> sweeper (mbase ms) = Alive ->
  alookup k (store (mbase ms)) = Some e ->
  (e_exp e = None \/ (exists t, e_exp e = Some t /\ now (mbase ms) <= t) \/
   (exists t, e_exp e = Some t /\ shard_index cfg t <> shard_index cfg (now (mbase ms)))) ->
  alookup k (store (mbase (fst (mstep cfg ms (MWin (WBase ESweep)))))) = Some e.
Proof.
  intros cfg evs k e Hcfg Hall ms Hnd Hsw Hl Hexp. subst ms.
  pose proof (minv_run cfg evs Hcfg Hall Hnd) as HM.
  rewrite (mwin_base_eq cfg _ ESweep (mi_ups cfg _ HM) (mi_wp cfg _ HM)).
  cbn [mwin_enabled fst mbase with_mbase win with_base base].
  exact (sweep_spares_closed cfg _ k e Hcfg (mi_inv cfg _ HM) Hsw Hl Hexp).
Qed.
