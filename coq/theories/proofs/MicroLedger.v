(** The ledger part of the core invariant at EVERY state of EVERY micro schedule.

    [Inv] (Defs.v) ties the ledger to the store and to the expiry index, and those ties are broken transiently inside the
    windows of the worker (a key let in and charged but not yet inserted; a key removed but still charged), of
    put_or_update and of shutdown().  The part of [Inv] that talks about the ledger alone,

        the charged ids are pairwise distinct, the total is the sum of the charges, every charge is positive, the total
        is representable, every charged id and every id carried by a pending put is below [next_id], the ids of the
        pending puts are pairwise distinct and not charged, every pending command carries a positive weight,

    is closed under every micro step on its own - whatever is overtaken by whatever, with no condition on the events
    (no validity, no restriction to a class of schedules) - as long as the worker has not panicked.  This is C05's
    "total = sum of the charges" and C01's "0 <= total" for the whole micro model. *)
From CacheD Require Import Base Sketch Model Window Micro.
From CacheD.proofs Require Import Defs AListLemmas InvLemmas InvOps InvCalls InvWorker InvProofs ApiProofs StatsProofs.
From Coq Require Import ZifyBool.

Record Led (s : state) : Prop := {
  led_nodup : NoDup (map fst (weights s));
  led_sum : used s = weights_sum (weights s);
  led_pos : forall id wk, alookup id (weights s) = Some wk -> 0 < w_weight wk;
  led_range : used s <= i64_max;
  led_ids : forall id wk, alookup id (weights s) = Some wk -> id < next_id s;
  led_pending : NoDup (put_ids (pending_cmds s)) /\
      forall id, In id (put_ids (pending_cmds s)) -> id < next_id s /\ alookup id (weights s) = None;
  led_pending_weights : forall c, In c (pending_cmds s) -> cmd_weight_ok c
}.

Definition lpending_ok (s : state) (c : cmd) : Prop :=
  cmd_weight_ok c /\ forall id, cmd_put_id c = Some id -> id < next_id s /\ alookup id (weights s) = None.

Lemma Led_pending_ok : forall s c, Led s -> In c (pending_cmds s) -> lpending_ok s c.
Proof.
  intros s c HL Hin. split.
  - exact (led_pending_weights s HL c Hin).
  - intros id Hid. apply (proj2 (led_pending s HL)). apply in_put_ids. exists c. split; assumption.
Qed.

(** ** changes of the pending commands and of [next_id] only *)
Lemma Led_transfer : forall s s', Led s ->
  weights s' = weights s -> used s' = used s -> next_id s <= next_id s' ->
  (forall x, (idcount x (pending_cmds s') <= 1)%nat) ->
  (forall c, In c (pending_cmds s') -> cmd_weight_ok c /\
     forall id, cmd_put_id c = Some id -> id < next_id s' /\ alookup id (weights s) = None) ->
  Led s'.
Proof.
  intros s s' HL Hw Hu Hn Hcnt Hpend.
  constructor; rewrite ?Hw, ?Hu.
  - exact (led_nodup s HL).
  - exact (led_sum s HL).
  - exact (led_pos s HL).
  - exact (led_range s HL).
  - intros id wk H. pose proof (led_ids s HL id wk H). lia.
  - split.
    + apply nodup_idcount. exact Hcnt.
    + intros id Hin. apply in_put_ids in Hin. destruct Hin as (c & Hc & Hid).
      destruct (Hpend c Hc) as [_ H]. exact (H id Hid).
  - intros c Hc. apply Hpend. exact Hc.
Qed.

Lemma Led_shrink : forall s s', Led s ->
  weights s' = weights s -> used s' = used s -> next_id s' = next_id s ->
  (forall x, (idcount x (pending_cmds s') <= idcount x (pending_cmds s))%nat) ->
  (forall c, In c (pending_cmds s') -> In c (pending_cmds s)) ->
  Led s'.
Proof.
  intros s s' HL Hw Hu Hn Hcnt Hin.
  apply (Led_transfer s s' HL Hw Hu); [lia| |].
  - intros x. specialize (Hcnt x).
    pose proof (proj1 (nodup_idcount (pending_cmds s)) (proj1 (led_pending s HL)) x). lia.
  - intros c Hc. rewrite Hn. apply (Led_pending_ok s c HL). apply Hin. exact Hc.
Qed.

Lemma Led_ext : forall s s', Led s ->
  weights s' = weights s -> used s' = used s -> next_id s' = next_id s -> queue s' = queue s -> blocked s' = blocked s ->
  Led s'.
Proof.
  intros s s' HL Hw Hu Hn Hq Hb.
  apply (Led_shrink s s' HL Hw Hu Hn); rewrite (pending_same s s' Hq Hb); auto.
Qed.

Lemma frameR_led : forall s s', frameR s s' -> Led s -> Led s'.
Proof.
  intros s s' (_ & H2 & H3 & _ & _ & H6 & H7 & H8 & _) HL. apply (Led_ext s s' HL); assumption.
Qed.

(** ** one more pending command *)
Definition lcmd_fresh (s : state) (c : cmd) : Prop :=
  forall id, cmd_put_id c = Some id ->
    id < next_id s /\ alookup id (weights s) = None /\ ~ In id (put_ids (pending_cmds s)).

Lemma lcmd_fresh_noput : forall s c, cmd_put_id c = None -> lcmd_fresh s c.
Proof. intros s c H id Hid. rewrite H in Hid. discriminate. Qed.

Lemma Led_add_cmd : forall s s' c, Led s ->
  weights s' = weights s -> used s' = used s -> next_id s' = next_id s ->
  cmd_weight_ok c -> lcmd_fresh s c ->
  (forall x, (idcount x (pending_cmds s') <= idcount x [c] + idcount x (pending_cmds s))%nat) ->
  (forall c', In c' (pending_cmds s') -> c' = c \/ In c' (pending_cmds s)) -> Led s'.
Proof.
  intros s s' c HL Hw Hu Hn Hwok Hfr Hcnt Hin.
  apply (Led_transfer s s' HL Hw Hu); [lia| |].
  - intros x. specialize (Hcnt x).
    pose proof (proj1 (nodup_idcount (pending_cmds s)) (proj1 (led_pending s HL)) x) as Hold.
    destruct (cmd_put_id c) as [id|] eqn:E.
    + rewrite (idcount_one_put x c id E) in Hcnt. destruct (Z.eq_dec id x) as [He|Hne]; [|lia].
      subst id. destruct (Hfr x E) as (_ & _ & Hnot). apply notin_put_ids_idcount in Hnot. lia.
    + rewrite (idcount_one_noput x c E) in Hcnt. lia.
  - intros c' Hc'. rewrite Hn. destruct (Hin c' Hc') as [He|Hold].
    + subst c'. split; [exact Hwok|]. intros id Hid. destruct (Hfr id Hid) as (A & B & _). auto.
    + exact (Led_pending_ok s c' HL Hold).
Qed.

Lemma Led_enqueue : forall s s' c a, Led s ->
  weights s' = weights s -> used s' = used s -> next_id s' = next_id s ->
  queue s' = queue s ++ [(c, a)] -> blocked s' = blocked s ->
  cmd_weight_ok c -> lcmd_fresh s c -> Led s'.
Proof.
  intros s s' c a HL Hw Hu Hn Hq Hb Hwok Hfr.
  apply (Led_add_cmd s s' c HL Hw Hu Hn Hwok Hfr).
  - intros x. rewrite (pending_of s' _ _ Hq Hb), (pending_of s _ _ eq_refl eq_refl).
    rewrite map_fst_app_one, !idcount_app. lia.
  - intros c' H. rewrite (pending_of s' _ _ Hq Hb) in H. rewrite (pending_of s _ _ eq_refl eq_refl).
    rewrite map_fst_app_one in H. apply in_app_or in H. destruct H as [H|H].
    + apply in_app_or in H. destruct H as [H|H].
      * right. apply in_or_app. left. exact H.
      * left. destruct H as [H|[]]. symmetry. exact H.
    + right. apply in_or_app. right. exact H.
Qed.

Lemma Led_park : forall s s' tid k, Led s ->
  weights s' = weights s -> used s' = used s -> next_id s' = next_id s ->
  queue s' = queue s -> blocked s' = aset tid k (blocked s) ->
  (forall c, k = KSend c -> cmd_weight_ok c /\ lcmd_fresh s c) -> Led s'.
Proof.
  intros s s' tid k HL Hw Hu Hn Hq Hb Hk.
  assert (Hp' : pending_cmds s' = map fst (queue s) ++ cont_cmds k ++ bcmds (aremove tid (blocked s))).
  { rewrite (pending_of s' _ _ Hq Hb). unfold aset. rewrite bcmds_cons. reflexivity. }
  assert (Hp : pending_cmds s = map fst (queue s) ++ bcmds (blocked s)) by reflexivity.
  assert (Hsh : forall k0, cont_cmds k0 = [] -> blocked s' = aset tid k0 (blocked s) -> Led s').
  { intros k0 Hk0 Hb0.
    assert (Hp0 : pending_cmds s' = map fst (queue s) ++ bcmds (aremove tid (blocked s))).
    { rewrite (pending_of s' _ _ Hq Hb0). unfold aset. rewrite bcmds_cons, Hk0. reflexivity. }
    apply (Led_shrink s s' HL Hw Hu Hn).
    + intros x. rewrite Hp0, Hp. rewrite !idcount_app.
      pose proof (bcmds_aremove_count x tid (blocked s)). lia.
    + intros c' H. rewrite Hp0 in H. rewrite Hp.
      apply in_app_or in H. apply in_or_app. destruct H as [H|H]; [left; exact H|right].
      eapply bcmds_aremove_in. exact H. }
  destruct k as [c| |]; [|apply (Hsh KShutdownCmd eq_refl Hb)|apply (Hsh KShutdownChan eq_refl Hb)].
  destruct (Hk c eq_refl) as [Hwok Hfr].
  apply (Led_add_cmd s s' c HL Hw Hu Hn Hwok Hfr).
  + intros x. rewrite Hp', Hp. cbn [cont_cmds]. rewrite !idcount_app.
    pose proof (bcmds_aremove_count x tid (blocked s)). lia.
  + intros c' H. rewrite Hp' in H. rewrite Hp. cbn [cont_cmds] in H.
    apply in_app_or in H. destruct H as [H|H].
    * right. apply in_or_app. left. exact H.
    * apply in_app_or in H. destruct H as [H|H].
      -- left. destruct H as [H|[]]. symmetry. exact H.
      -- right. apply in_or_app. right. eapply bcmds_aremove_in. exact H.
Qed.

Lemma Led_unpark : forall s s' tid, Led s ->
  weights s' = weights s -> used s' = used s -> next_id s' = next_id s ->
  queue s' = queue s -> blocked s' = aremove tid (blocked s) -> Led s'.
Proof.
  intros s s' tid HL Hw Hu Hn Hq Hb.
  apply (Led_shrink s s' HL Hw Hu Hn).
  - intros x. rewrite (pending_of s' _ _ Hq Hb), (pending_of s _ _ eq_refl eq_refl). rewrite !idcount_app.
    pose proof (bcmds_aremove_count x tid (blocked s)). lia.
  - intros c' H. rewrite (pending_of s' _ _ Hq Hb) in H. rewrite (pending_of s _ _ eq_refl eq_refl).
    apply in_app_or in H. apply in_or_app. destruct H as [H|H]; [left; exact H|right].
    eapply bcmds_aremove_in. exact H.
Qed.

Lemma lunparked_cmd_fresh : forall s s' tid c, Led s ->
  weights s' = weights s -> next_id s' = next_id s ->
  queue s' = queue s -> blocked s' = aremove tid (blocked s) ->
  alookup tid (blocked s) = Some (KSend c) -> cmd_weight_ok c /\ lcmd_fresh s' c.
Proof.
  intros s s' tid c HL Hw Hn Hq Hb Hlk.
  assert (Hin : In c (pending_cmds s)).
  { rewrite (pending_of s _ _ eq_refl eq_refl). apply in_or_app. right.
    apply (bcmds_found_in tid (KSend c) (blocked s) c Hlk). left. reflexivity. }
  destruct (Led_pending_ok s c HL Hin) as [Hwok Hids]. split; [exact Hwok|].
  intros id Hid. destruct (Hids id Hid) as (A & B).
  split; [rewrite Hn; exact A|]. split; [rewrite Hw; exact B|].
  apply notin_put_ids_idcount.
  pose proof (proj1 (nodup_idcount (pending_cmds s)) (proj1 (led_pending s HL)) id) as Hold.
  rewrite (pending_of s _ _ eq_refl eq_refl), idcount_app in Hold.
  rewrite (pending_of s' _ _ Hq Hb), idcount_app.
  pose proof (bcmds_aremove_count_found id tid (KSend c) (blocked s) Hlk) as Hf.
  cbn [cont_cmds] in Hf. rewrite (idcount_one_put id c id Hid) in Hf.
  destruct (Z.eq_dec id id) as [_|Hne]; [lia|contradiction].
Qed.

(** ** do_send, a new id *)
Lemma do_send_led : forall cfg tid c s, Led s -> cmd_weight_ok c -> lcmd_fresh s c ->
  Led (fst (do_send cfg tid c s)).
Proof.
  intros cfg tid c s HL Hwok Hfr. unfold do_send.
  destruct (worker s) eqn:Hwk.
  - destruct (Z.of_nat (length (queue s)) <? c_queue cfg); cbn [fst].
    + apply (Led_enqueue s _ c (next_ack s) HL); try reflexivity; assumption.
    + apply (Led_park s _ tid (KSend c) HL); try reflexivity.
      intros c' Hc'. inversion Hc'; subst c'. split; assumption.
  - cbn [fst]. apply (Led_ext s _ HL); reflexivity.
  - exact HL.
  - exact HL.
Qed.

Lemma Led_bump : forall s, Led s -> Led (set_next_id s (next_id s + 1)).
Proof.
  intros s HL.
  apply (Led_transfer s _ HL); try reflexivity.
  - cbn. lia.
  - intros x. exact (proj1 (nodup_idcount (pending_cmds s)) (proj1 (led_pending s HL)) x).
  - intros c Hc. change (pending_cmds (set_next_id s (next_id s + 1))) with (pending_cmds s) in Hc.
    destruct (Led_pending_ok s c HL Hc) as [Hwok Hids]. split; [exact Hwok|].
    intros id Hid. destruct (Hids id Hid) as (A & B). cbn. split; [lia|exact B].
Qed.

Lemma lnext_id_fresh : forall s c, Led s -> cmd_put_id c = Some (next_id s) ->
  lcmd_fresh (set_next_id s (next_id s + 1)) c.
Proof.
  intros s c HL Hc id Hid. rewrite Hc in Hid. inversion Hid; subst id. clear Hid.
  split; [cbn; lia|]. split.
  - change (weights (set_next_id s (next_id s + 1))) with (weights s).
    destruct (alookup (next_id s) (weights s)) as [wk|] eqn:E; [|reflexivity].
    pose proof (led_ids s HL _ _ E). lia.
  - change (pending_cmds (set_next_id s (next_id s + 1))) with (pending_cmds s).
    intros H. pose proof (proj2 (led_pending s HL) _ H) as (A & _). lia.
Qed.

Lemma send_new_put_led : forall cfg tid s c, Led s -> cmd_put_id c = Some (next_id s) -> cmd_weight_ok c ->
  Led (fst (do_send cfg tid c (set_next_id s (next_id s + 1)))).
Proof.
  intros cfg tid s c HL Hc Hwok. apply do_send_led.
  - apply Led_bump. exact HL.
  - exact Hwok.
  - apply (lnext_id_fresh s c HL Hc).
Qed.

Lemma call_put_led : forall cfg tid k v w ttl s, Led s -> Led (fst (call_put cfg tid k v w ttl s)).
Proof.
  intros cfg tid k v w ttl s HL. unfold call_put.
  destruct (w <=? 0) eqn:Hw; [exact HL|].
  destruct (amem k (store s)); [exact HL|].
  destruct ttl as [t|]; apply send_new_put_led; try exact HL; try reflexivity; cbn [cmd_weight_ok]; lia.
Qed.

(** ** the ledger primitives *)
Lemma Led_evict : forall s s' id wk, Led s -> alookup id (weights s) = Some wk ->
  weights s' = aremove id (weights s) -> used s' = used s - w_weight wk ->
  queue s' = queue s -> blocked s' = blocked s -> next_id s' = next_id s -> Led s'.
Proof.
  intros s s' id wk HL Hwk Hw Hu Hq Hb Hn.
  pose proof (pending_same s s' Hq Hb) as Hpc.
  assert (Fw : forall id' wk', alookup id' (weights s') = Some wk' -> id' <> id /\ alookup id' (weights s) = Some wk').
  { intros id' wk' H. rewrite Hw, alookup_aremove in H.
    destruct (Z.eqb_spec id' id) as [He|Hne]; [discriminate|]. split; assumption. }
  constructor.
  - rewrite Hw. apply NoDup_aremove. exact (led_nodup s HL).
  - rewrite Hu, Hw, (led_sum s HL).
    rewrite (weights_sum_aremove id wk (weights s) (led_nodup s HL) Hwk). lia.
  - intros id' wk' H. destruct (Fw id' wk' H) as [_ H0]. exact (led_pos s HL id' wk' H0).
  - rewrite Hu. pose proof (led_range s HL). pose proof (led_pos s HL id wk Hwk). lia.
  - intros id' wk' H. destruct (Fw id' wk' H) as [_ H0]. rewrite Hn. exact (led_ids s HL id' wk' H0).
  - rewrite Hpc. destruct (led_pending s HL) as [Hnd Hall]. split; [exact Hnd|].
    intros x Hx. destruct (Hall x Hx) as (H1 & H2).
    split; [rewrite Hn; exact H1|].
    rewrite Hw, alookup_aremove. destruct (x =? id); [reflexivity|exact H2].
  - rewrite Hpc. exact (led_pending_weights s HL).
Qed.

Lemma Led_charge_le_used : forall s id wk, Led s -> alookup id (weights s) = Some wk -> 0 < w_weight wk <= used s.
Proof.
  intros s id wk HL Hwk.
  pose proof (led_pos s HL id wk Hwk) as Hpos.
  rewrite (led_sum s HL).
  rewrite (weights_sum_aremove id wk (weights s) (led_nodup s HL) Hwk).
  assert (H0 : 0 <= weights_sum (aremove id (weights s))).
  { apply weights_sum_nonneg.
    - apply NoDup_aremove. exact (led_nodup s HL).
    - intros id' wk' H. rewrite alookup_aremove in H. destruct (id' =? id); [discriminate|].
      exact (led_pos s HL id' wk' H). }
  lia.
Qed.

Lemma Led_used_nonneg : forall s, Led s -> 0 <= used s.
Proof.
  intros s HL. rewrite (led_sum s HL). apply weights_sum_nonneg; [exact (led_nodup s HL)|exact (led_pos s HL)].
Qed.

Lemma Led_insert : forall s s' k id h w, Led s ->
  alookup id (weights s) = None -> id < next_id s -> ~ In id (put_ids (pending_cmds s)) -> 0 < w ->
  used s + w <= i64_max ->
  weights s' = aset id (Build_wkey k h w) (weights s) -> used s' = used s + w ->
  queue s' = queue s -> blocked s' = blocked s -> next_id s' = next_id s -> Led s'.
Proof.
  intros s s' k id h w HL Hid Hlt Hnp Hw0 Hrange Hw Hu Hq Hb Hn.
  pose proof (pending_same s s' Hq Hb) as Hpc.
  constructor.
  - rewrite Hw. apply NoDup_aset. exact (led_nodup s HL).
  - rewrite Hu, Hw, weights_sum_aset. cbn [w_weight]. rewrite (aremove_notin _ _ Hid). rewrite (led_sum s HL). lia.
  - intros id' wk' H. rewrite Hw, alookup_aset in H. destruct (Z.eqb_spec id' id) as [He|Hne].
    + inversion H; subst wk'. cbn [w_weight]. exact Hw0.
    + exact (led_pos s HL id' wk' H).
  - rewrite Hu. exact Hrange.
  - intros id' wk' H. rewrite Hn. rewrite Hw, alookup_aset in H. destruct (Z.eqb_spec id' id) as [He|Hne].
    + subst id'. exact Hlt.
    + exact (led_ids s HL id' wk' H).
  - rewrite Hpc. destruct (led_pending s HL) as [Hnd Hall]. split; [exact Hnd|].
    intros x Hx. destruct (Hall x Hx) as (H1 & H2). split; [rewrite Hn; exact H1|].
    rewrite Hw, alookup_aset. destruct (Z.eqb_spec x id) as [He|Hne]; [|exact H2].
    subst x. contradiction.
  - rewrite Hpc. exact (led_pending_weights s HL).
Qed.

Lemma Led_update_weight : forall s s' id wk w, Led s -> alookup id (weights s) = Some wk -> 0 < w ->
  used s + (w - w_weight wk) <= i64_max ->
  weights s' = aset id (Build_wkey (w_key wk) (w_hash wk) w) (weights s) ->
  used s' = used s + (w - w_weight wk) ->
  queue s' = queue s -> blocked s' = blocked s -> next_id s' = next_id s -> Led s'.
Proof.
  intros s s' id wk w HL Hwk Hw0 Hrange Hw Hu Hq Hb Hn.
  pose proof (pending_same s s' Hq Hb) as Hpc.
  constructor; rewrite ?Hpc, ?Hn.
  - rewrite Hw. apply NoDup_aset. exact (led_nodup s HL).
  - rewrite Hu, Hw, weights_sum_aset. cbn [w_weight]. rewrite (led_sum s HL).
    rewrite (weights_sum_aremove id wk (weights s) (led_nodup s HL) Hwk). lia.
  - intros id' wk' H. rewrite Hw, alookup_aset in H. destruct (Z.eqb_spec id' id) as [He|Hne].
    + inversion H; subst wk'. cbn [w_weight]. exact Hw0.
    + exact (led_pos s HL id' wk' H).
  - rewrite Hu. exact Hrange.
  - intros id' wk' H. rewrite Hw, alookup_aset in H. destruct (Z.eqb_spec id' id) as [He|Hne].
    + subst id'. exact (led_ids s HL id wk Hwk).
    + exact (led_ids s HL id' wk' H).
  - destruct (led_pending s HL) as [Hnd Hall]. split; [exact Hnd|].
    intros x Hx. destruct (Hall x Hx) as (H1 & H2). split; [exact H1|].
    rewrite Hw, alookup_aset. destruct (Z.eqb_spec x id) as [He|Hne]; [|exact H2].
    subst x. rewrite Hwk in H2. discriminate.
  - exact (led_pending_weights s HL).
Qed.

Lemma Led_cleared : forall s s', Led s -> weights s' = [] -> used s' = 0 ->
  queue s' = queue s -> blocked s' = blocked s -> next_id s' = next_id s -> Led s'.
Proof.
  intros s s' HL Hw Hu Hq Hb Hn.
  pose proof (pending_same s s' Hq Hb) as Hpc.
  constructor; rewrite ?Hpc, ?Hn, ?Hw, ?Hu.
  - constructor.
  - reflexivity.
  - intros id wk H. discriminate.
  - unfold i64_max. lia.
  - intros id wk H. discriminate.
  - destruct (led_pending s HL) as [Hnd Hall]. split; [exact Hnd|].
    intros x Hx. destruct (Hall x Hx) as (H1 & _). split; [exact H1|reflexivity].
  - exact (led_pending_weights s HL).
Qed.

(** the operational forms *)
Lemma store_delete_lfields : forall k s,
  weights (store_delete k s) = weights s /\ used (store_delete k s) = used s /\ queue (store_delete k s) = queue s /\
  blocked (store_delete k s) = blocked s /\ next_id (store_delete k s) = next_id s.
Proof. intros k s. unfold store_delete. destruct (alookup k (store s)); repeat split; reflexivity. Qed.

Lemma weights_delete_led : forall cfg id hook s, c_debug cfg = true -> Led s ->
  match weights_delete cfg id hook s with
  | Ok s' => Led s' /\ (forall x, alookup x (weights s) = None -> alookup x (weights s') = None)
  | Panic _ _ => False
  | Inadmissible _ => True
  end.
Proof.
  intros cfg id hook s Hd HL. unfold weights_delete.
  destruct (alookup id (weights s)) as [wk|] eqn:Hwk; [|split; [exact HL|auto]].
  cbv zeta.
  destruct (Led_charge_le_used s id wk HL Hwk) as [Hp Hle]. pose proof (led_range s HL) as Hr.
  change (used (set_weights s (aremove id (weights s)))) with (used s).
  rewrite add_i64_in_range by (unfold i64_min, i64_max in *; lia).
  assert (Hmono : forall s1, weights s1 = aremove id (weights s) ->
            forall x, alookup x (weights s) = None -> alookup x (weights s1) = None).
  { intros s1 E x Hx. rewrite E, alookup_aremove. destruct (x =? id); [reflexivity|exact Hx]. }
  set (s2 := set_used (set_weights s (aremove id (weights s))) (used s + - w_weight wk)).
  assert (F2 : weights s2 = aremove id (weights s) /\ used s2 = used s - w_weight wk /\ queue s2 = queue s /\
               blocked s2 = blocked s /\ next_id s2 = next_id s).
  { subst s2. cbn. repeat split; try reflexivity; try lia. }
  destruct F2 as (G1 & G2 & G3 & G4 & G5).
  destruct hook.
  - destruct (store_delete_lfields (w_key wk) s2) as (D1 & D2 & D3 & D4 & D5).
    assert (E1 : weights (upd_st add_weight_removed (i64_as_u64 (w_weight wk)) (store_delete (w_key wk) s2)) = aremove id (weights s))
      by (change (weights (upd_st ?f ?x ?y)) with (weights y); congruence).
    split; [|apply Hmono; exact E1].
    apply (Led_evict s _ id wk HL Hwk); [exact E1|..];
      match goal with |- ?f (upd_st _ _ ?y) = _ => change (f (upd_st add_weight_removed (i64_as_u64 (w_weight wk)) y)) with (f y) end;
      congruence.
  - assert (E1 : weights (upd_st add_weight_removed (i64_as_u64 (w_weight wk)) s2) = aremove id (weights s)) by exact G1.
    split; [|apply Hmono; exact E1].
    apply (Led_evict s _ id wk HL Hwk); [exact E1|..];
      match goal with |- ?f (upd_st _ _ ?y) = _ => change (f (upd_st add_weight_removed (i64_as_u64 (w_weight wk)) y)) with (f y) end;
      congruence.
Qed.

(** an id that is neither charged nor carried by a pending put *)
Definition lfresh (id : Z) (s : state) : Prop :=
  alookup id (weights s) = None /\ id < next_id s /\ ~ In id (put_ids (pending_cmds s)).

Lemma lfresh_frameA : forall id s s', frameA s s' ->
  (forall x, alookup x (weights s) = None -> alookup x (weights s') = None) -> lfresh id s -> lfresh id s'.
Proof.
  intros id s s' (_ & Fq & Fb & Fn & _) Hm (A & B & C). split; [apply Hm; exact A|].
  rewrite Fn, (pending_same s s' Fq Fb). split; assumption.
Qed.

Lemma weights_add_led : forall cfg k id h w s, c_debug cfg = true -> Led s -> lfresh id s -> 0 < w ->
  match weights_add cfg k id h w s with Ok s' => Led s' | _ => True end.
Proof.
  intros cfg k id h w s Hd HL (A & B & C) Hw. unfold weights_add. cbv zeta.
  change (used (set_weights s (aset id (Build_wkey k h w) (weights s)))) with (used s).
  destruct (add_i64 cfg (used s) w) as [u|] eqn:E; [|exact I].
  destruct (add_i64_debug cfg _ _ _ Hd E) as [-> Hr].
  apply (Led_insert s _ k id h w HL A B C Hw); try reflexivity. lia.
Qed.

Lemma weights_update_led : forall cfg id w s, c_debug cfg = true -> Led s -> 0 < w ->
  match weights_update cfg id w s with Ok s' | Panic _ s' => Led s' | Inadmissible _ => True end.
Proof.
  intros cfg id w s Hd HL Hw. unfold weights_update.
  destruct (alookup id (weights s)) as [wk|] eqn:Hwk; [|exact HL].
  destruct (add_i64 cfg (used s) (w - w_weight wk)) as [u|] eqn:E; [|exact HL].
  destruct (add_i64_debug cfg _ _ _ Hd E) as [-> Hr].
  apply (Led_update_weight s _ id wk w HL Hwk Hw); try reflexivity. lia.
Qed.

(** eviction loop, admission, sweep: the relation "Led and freshness of a given id are kept" *)
Definition LR (cfg : config) (id : Z) (s s' : state) : Prop :=
  c_debug cfg = true -> Led s -> Led s' /\ (lfresh id s -> lfresh id s').

Lemma LR_refl : forall cfg id s, LR cfg id s s.
Proof. intros cfg id s _ HL. split; auto. Qed.
Lemma LR_trans : forall cfg id s1 s2 s3, LR cfg id s1 s2 -> LR cfg id s2 s3 -> LR cfg id s1 s3.
Proof. intros cfg id s1 s2 s3 H1 H2 Hd HL. destruct (H1 Hd HL) as [L2 F2]. destruct (H2 Hd L2) as [L3 F3]. split; auto. Qed.

Lemma LR_wdel : forall cfg0 id0 cfg id hook s, cfg = cfg0 ->
  match weights_delete cfg id hook s with Ok s' | Panic _ s' => LR cfg0 id0 s s' | Inadmissible _ => True end.
Proof.
  intros cfg0 id0 cfg id hook s ->.
  pose proof (weights_delete_frame cfg0 id hook s) as Hf.
  destruct (weights_delete cfg0 id hook s) as [s'|site s'|why] eqn:E; [| |exact I]; intros Hd HL;
    pose proof (weights_delete_led cfg0 id hook s Hd HL) as H; rewrite E in H; [|contradiction].
  destruct H as [HL' Hm]. split; [exact HL'|]. apply lfresh_frameA; assumption.
Qed.

Lemma create_space_loop_led : forall fuel cfg id est inc_freq w orders pops sm space s victims r s' vs,
  create_space_loop fuel cfg est inc_freq w orders pops sm space s victims = (r, s', vs) -> LR cfg id s s'.
Proof.
  induction fuel as [|fuel IH]; intros cfg id est inc_freq w orders pops sm space s victims r s' vs H;
    cbn [create_space_loop] in H.
  - inversion H; subst. apply LR_refl.
  - destruct (w <=? space) eqn:E1; [inversion H; subst; apply LR_refl|].
    destruct pops as [|p pops']; [inversion H; subst; apply LR_refl|].
    destruct (p =? -1) eqn:E2.
    { destruct sm as [|x0 sm0]; [|inversion H; subst; apply LR_refl].
      destruct (w <=? c_max cfg - used s); inversion H; subst; apply LR_refl. }
    destruct (sample_find p sm) as [x|] eqn:E3; [|inversion H; subst; apply LR_refl].
    destruct (negb (is_max x sm)) eqn:E4; [inversion H; subst; apply LR_refl|].
    destruct (inc_freq <? sk_freq x) eqn:E5; [inversion H; subst; apply LR_refl|].
    pose proof (LR_wdel cfg id cfg p true s eq_refl) as Hwd.
    destruct (weights_delete cfg p true s) as [s1|site s1|why] eqn:E6.
    + destruct orders as [|order orders']; [inversion H; subst; exact Hwd|].
      destruct (sample_fill est (weights s1) order (sample_remove p sm)) as [sm'|] eqn:E7;
        [|inversion H; subst; exact Hwd].
      eapply LR_trans; [exact Hwd|]. eapply IH; exact H.
    + inversion H; subst; exact Hwd.
    + inversion H; subst; apply LR_refl.
Qed.

(** admission of a fresh id with a positive weight: unless it panics (the worker dies), the ledger stays exact *)
Lemma admission_led : forall cfg orc k id h w s r s' vs, c_debug cfg = true -> Led s -> lfresh id s -> 0 < w ->
  admission cfg orc k id h w s = (r, s', vs) -> (forall site, r <> AdPanic site) -> Led s'.
Proof.
  intros cfg orc k id h w s r s' vs Hd HL Hfr Hw H Hnp. unfold admission in H.
  destruct (c_max cfg <? w) eqn:E0; [inversion H; subst; exact HL|].
  destruct (w <=? c_max cfg - used s) eqn:E1.
  { pose proof (weights_add_led cfg k id h w s Hd HL Hfr Hw) as Hwa.
    destruct (weights_add cfg k id h w s) as [s1|site s1|why] eqn:E2; inversion H; subst;
      first [exact Hwa|exact HL|exfalso; eapply Hnp; reflexivity]. }
  destruct (negb (bloom_admissible _ _)) eqn:E2; [inversion H; subst; exact HL|].
  destruct (est_panics (lfu s)) eqn:E3; [inversion H; subst; exact HL|].
  destruct (o_orders orc) as [|order0 orders] eqn:E4; [inversion H; subst; exact HL|].
  destruct (negb (Nat.leb (length order0) sample_size)) eqn:E5; [inversion H; subst; exact HL|].
  destruct (sample_fill _ (weights s) order0 []) as [sm0|] eqn:E6; [|inversion H; subst; exact HL].
  destruct (create_space_loop _ cfg _ _ w orders (o_pops orc) sm0 _ s []) as [[sr s1] vs1] eqn:E7.
  destruct (create_space_loop_led _ cfg id _ _ _ _ _ _ _ _ _ _ _ _ E7 Hd HL) as [HL1 Hfr1].
  destruct sr as [| |site|why]; try (inversion H; subst; exact HL1).
  pose proof (weights_add_led cfg k id h w s1 Hd HL1 (Hfr1 Hfr) Hw) as Hwa.
  destruct (weights_add cfg k id h w s1) as [s2|site s2|why] eqn:E8; inversion H; subst;
    first [exact Hwa|exact HL1|exfalso; eapply Hnp; reflexivity].
Qed.

Lemma sweep_entries_led : forall cfg now_ es s, c_debug cfg = true -> Led s ->
  match sweep_entries cfg now_ es s with Ok s' => Led s' | Panic _ _ => False | Inadmissible _ => True end.
Proof.
  intros cfg now_ es. induction es as [|[id ex] t IH]; intros s Hd HL; cbn [sweep_entries].
  - exact HL.
  - destruct (ex <? now_); [|apply IH; assumption].
    pose proof (weights_delete_led cfg id true s Hd HL) as Hwd.
    destruct (weights_delete cfg id true s) as [s1|site s1|why]; [|contradiction|exact I].
    destruct Hwd as [HL1 _]. apply IH; assumption.
Qed.

(** ** the API calls *)
Ltac led_same HL := apply (Led_ext _ _ HL); reflexivity.

Lemma ups_s2_lfields : forall cfg k v e new_exp s,
  let s2 := ups_s2 cfg k v e new_exp s in
  weights s2 = weights s /\ used s2 = used s /\ next_id s2 = next_id s /\ queue s2 = queue s /\ blocked s2 = blocked s.
Proof.
  intros cfg k v e new_exp s s2. subst s2. unfold ups_s2. cbv zeta.
  destruct (type_of_expiry_update (e_exp e) new_exp); sred; repeat split.
Qed.

Lemma ups_tail_led : forall cfg tid id s2 uw', Led s2 -> Led (fst (ups_tail cfg tid id s2 uw')).
Proof.
  intros cfg tid id s2 uw' HL. unfold ups_tail.
  destruct uw' as [[wt|]|]; try exact HL.
  destruct (wt <=? 0) eqn:E; [exact HL|].
  apply do_send_led; [exact HL|cbn [cmd_weight_ok]; lia|apply lcmd_fresh_noput; reflexivity].
Qed.

Lemma call_upsert_led : forall cfg tid k v w ttl rm s, Led s -> Led (fst (call_upsert cfg tid k v w ttl rm s)).
Proof.
  intros cfg tid k v w ttl rm s HL.
  destruct (alookup k (store s)) as [e0|] eqn:El0.
  - rewrite call_upsert_present_eq with (e := e0) by exact El0.
    destruct (ups_new_exp_o rm ttl e0 s) as [new_exp|]; [|exact HL].
    apply ups_tail_led.
    destruct (ups_s2_lfields cfg k v e0 new_exp s) as (A & B & C & D & E).
    apply (Led_ext s _ HL); assumption.
  - destruct v as [val|].
    + rewrite upsert_absent_is_put by exact El0. apply call_put_led. exact HL.
    + unfold call_upsert. rewrite El0. cbv zeta. destruct w; exact HL.
Qed.

Lemma shutdown_finish_led : forall s, Led s -> Led (shutdown_finish s).
Proof. intros s HL. apply (Led_cleared s _ HL); reflexivity. Qed.

Lemma shutdown_chan_led : forall tid s, Led s -> Led (fst (shutdown_chan tid s)).
Proof.
  intros tid s HL. unfold shutdown_chan.
  destruct (consumer s); try (apply shutdown_finish_led; exact HL).
  destruct (Z.of_nat (length (chan s)) <? chan_capacity); cbn [fst].
  - apply shutdown_finish_led. led_same HL.
  - apply (Led_park s _ tid KShutdownChan HL); try reflexivity. intros c Hc. discriminate.
Qed.

Lemma shutdown_cmd_led : forall cfg tid s, Led s -> Led (fst (shutdown_cmd cfg tid s)).
Proof.
  intros cfg tid s HL. unfold shutdown_cmd.
  destruct (worker s); try (apply shutdown_chan_led; exact HL).
  destruct (Z.of_nat (length (queue s)) <? c_queue cfg); cbn [fst].
  - apply shutdown_chan_led.
    apply (Led_enqueue s _ CShutdown (-1) HL); first [reflexivity|exact I|apply lcmd_fresh_noput; reflexivity].
  - apply (Led_park s _ tid KShutdownCmd HL); try reflexivity. intros c Hc. discriminate.
Qed.

Lemma call_led : forall cfg tid r idxs s, Led s -> Led (fst (call cfg tid r idxs s)).
Proof.
  intros cfg tid r idxs s HL. unfold call.
  destruct (amem tid (blocked s)); [exact HL|].
  destruct r as [k0 v|k0 v w|k0 v ttl|k0 v w ttl|k0 v w ttl rm|k0|k0|k0|k0|k0|ks|ks|ks| | |]; cbv beta iota zeta.
  - destruct (_ <=? 0); [exact HL|]. destruct (shut s); [exact HL|]. apply call_put_led; exact HL.
  - destruct (shut s); [exact HL|]. apply call_put_led; exact HL.
  - destruct (shut s); [exact HL|]. apply call_put_led; exact HL.
  - destruct (shut s); [exact HL|]. apply call_put_led; exact HL.
  - destruct (shut s); [exact HL|]. apply call_upsert_led; exact HL.
  - destruct (shut s); [exact HL|].
    apply do_send_led; [|exact I|apply lcmd_fresh_noput; reflexivity].
    destruct (alookup k0 (store s)); [led_same HL|exact HL].
  - destruct (shut s); [exact HL|].
    destruct (read_one cfg k0 idxs s) as [[[v0 s0] [|i0 idxs0]]|] eqn:E; cbn [fst]; try exact HL.
    eapply frameR_led; [eapply InvCalls.read_one_frame; exact E|exact HL].
  - destruct (shut s); [exact HL|].
    destruct (read_one cfg k0 idxs s) as [[[v0 s0] [|i0 idxs0]]|] eqn:E; cbn [fst]; try exact HL.
    eapply frameR_led; [eapply InvCalls.read_one_frame; exact E|exact HL].
  - destruct (shut s); [exact HL|].
    destruct (read_one cfg k0 idxs s) as [[[v0 s0] [|i0 idxs0]]|] eqn:E; cbn [fst]; try exact HL.
    eapply frameR_led; [eapply InvCalls.read_one_frame; exact E|exact HL].
  - destruct (shut s); [exact HL|].
    destruct (read_one cfg k0 idxs s) as [[[v0 s0] [|i0 idxs0]]|] eqn:E; cbn [fst]; try exact HL.
    eapply frameR_led; [eapply InvCalls.read_one_frame; exact E|exact HL].
  - destruct (shut s); [exact HL|].
    destruct (read_many cfg ks idxs s) as [[[v0 s0] [|i0 idxs0]]|] eqn:E; cbn [fst]; try exact HL.
    eapply frameR_led; [eapply InvCalls.read_many_frame; exact E|exact HL].
  - destruct (shut s); [exact HL|].
    destruct (read_many cfg ks idxs s) as [[[v0 s0] [|i0 idxs0]]|] eqn:E; cbn [fst]; try exact HL.
    eapply frameR_led; [eapply InvCalls.read_many_frame; exact E|exact HL].
  - destruct (shut s); [exact HL|].
    destruct (read_many cfg ks idxs s) as [[[v0 s0] [|i0 idxs0]]|] eqn:E; cbn [fst]; try exact HL.
    eapply frameR_led; [eapply InvCalls.read_many_frame; exact E|exact HL].
  - exact HL.
  - exact HL.
  - destruct (shut s); [exact HL|]. apply shutdown_cmd_led. led_same HL.
Qed.

Lemma resume_led : forall cfg tid s, Led s -> Led (fst (resume cfg tid s)).
Proof.
  intros cfg tid s HL. unfold resume.
  destruct (alookup tid (blocked s)) as [k|] eqn:Hlk; [|exact HL].
  cbv zeta.
  assert (HL0 : Led (set_blocked s (aremove tid (blocked s)))).
  { apply (Led_unpark s _ tid HL); reflexivity. }
  destruct k as [c| |].
  - destruct (lunparked_cmd_fresh s (set_blocked s (aremove tid (blocked s))) tid c HL
                eq_refl eq_refl eq_refl eq_refl Hlk) as [Hwok Hfr].
    destruct (worker (set_blocked s (aremove tid (blocked s))));
      [destruct (_ <? c_queue cfg); [|exact HL]|..]; apply do_send_led; assumption.
  - destruct (worker (set_blocked s (aremove tid (blocked s))));
      [destruct (_ <? c_queue cfg); [|exact HL]|..]; apply shutdown_cmd_led; exact HL0.
  - destruct (consumer (set_blocked s (aremove tid (blocked s))));
      [destruct (_ <? chan_capacity); [|exact HL]|..]; apply shutdown_chan_led; exact HL0.
Qed.

(** ** the worker, the sweeper, the consumer *)
Lemma pop_led : forall s c a q, Led s -> queue s = (c, a) :: q ->
  Led (set_queue s q) /\ cmd_weight_ok c /\ (forall id, cmd_put_id c = Some id -> lfresh id (set_queue s q)).
Proof.
  intros s c a q HL Hq.
  assert (Hp : pending_cmds s = c :: pending_cmds (set_queue s q)).
  { rewrite (pending_of s _ _ Hq eq_refl). reflexivity. }
  assert (Hok : lpending_ok s c). { apply (Led_pending_ok s c HL). rewrite Hp. left. reflexivity. }
  split; [|split].
  - apply (Led_shrink s _ HL); try reflexivity.
    + intros x. rewrite Hp. rewrite (idcount_cons x c). lia.
    + intros c' H. rewrite Hp. right. exact H.
  - exact (proj1 Hok).
  - intros id Hid. destruct (proj2 Hok id Hid) as [A B]. split; [exact B|]. split; [exact A|].
    apply notin_put_ids_idcount.
    pose proof (proj1 (nodup_idcount (pending_cmds s)) (proj1 (led_pending s HL)) id) as Hold.
    rewrite Hp, (idcount_cons id c), (idcount_one_put id c id Hid) in Hold.
    destruct (Z.eq_dec id id) as [_|Hne]; [lia|contradiction].
Qed.

(** the first part of the worker's put: presence re-check and admission (shared by Model.worker_step,
    Window.worker_half1 and Micro.mput1) *)
Lemma put_admission_led : forall cfg orc k id h w s0 r s1 vs, c_debug cfg = true -> Led s0 -> lfresh id s0 -> 0 < w ->
  admission cfg orc k id h w s0 = (r, s1, vs) ->
  match r with AdPanic _ => True | _ => Led s1 end.
Proof.
  intros cfg orc k id h w s0 r s1 vs Hd HL Hfr Hw H.
  destruct r as [x|site|why]; try exact I;
    (eapply admission_led; [exact Hd|exact HL|exact Hfr|exact Hw|exact H|intros site'; discriminate]).
Qed.

Lemma worker_step_led : forall cfg orc s, c_debug cfg = true -> Led s ->
  worker (fst (worker_step cfg orc s)) <> Dead -> Led (fst (worker_step cfg orc s)).
Proof.
  intros cfg orc s Hd HL. unfold worker_step.
  destruct (worker s) eqn:Hwk; try (intros _; exact HL).
  destruct (queue s) as [|[c a] q] eqn:Hq; [intros _; exact HL|].
  destruct (pop_led s c a q HL Hq) as (HL0 & Hwok & Hfr).
  cbv zeta.
  destruct c as [k v id h w|k v id h w ttl|k|id w|].
  - destruct (amem k (store (set_queue s q))); [intros _; cbn [fst]; led_same HL0|].
    pose proof (put_admission_led cfg orc k id h w (set_queue s q)) as Hadm.
    destruct (admission cfg orc k id h w (set_queue s q)) as [[r s1] vs] eqn:E.
    specialize (Hadm r s1 vs Hd HL0 (Hfr id eq_refl) Hwok eq_refl).
    destruct r as [[| |rj|]|site|why]; cbn [fst]; intros Hnd;
      first [exact HL | led_same Hadm | exfalso; apply Hnd; reflexivity].
  - destruct (amem k (store (set_queue s q))); [intros _; cbn [fst]; led_same HL0|].
    pose proof (put_admission_led cfg orc k id h w (set_queue s q)) as Hadm.
    destruct (admission cfg orc k id h w (set_queue s q)) as [[r s1] vs] eqn:E.
    specialize (Hadm r s1 vs Hd HL0 (Hfr id eq_refl) Hwok eq_refl).
    destruct r as [[| |rj|]|site|why]; cbn [fst];
      try (intros Hnd; first [exact HL | led_same Hadm | exfalso; apply Hnd; reflexivity]).
    destruct (calc_expiry (now s1) ttl); cbn [fst]; intros Hnd;
      first [led_same Hadm | exfalso; apply Hnd; reflexivity].
  - destruct (alookup k (store (set_queue s q))) as [e|]; [|intros _; cbn [fst]; led_same HL0].
    assert (HL1 : Led (store_delete k (set_queue s q))).
    { destruct (store_delete_lfields k (set_queue s q)) as (D1 & D2 & D3 & D4 & D5).
      apply (Led_ext _ _ HL0); assumption. }
    pose proof (weights_delete_led cfg (e_id e) false _ Hd HL1) as Hwd.
    destruct (weights_delete cfg (e_id e) false (store_delete k (set_queue s q))) as [s2|site s2|why];
      [|contradiction|intros _; exact HL0].
    destruct Hwd as [HL2 _]. intros _. cbn [fst]. destruct (e_exp e); led_same HL2.
  - pose proof (weights_update_led cfg id w (set_queue s q) Hd HL0 Hwok) as Hwu.
    destruct (weights_update cfg id w (set_queue s q)) as [s1|site s1|why]; cbn [fst]; intros Hnd.
    + led_same Hwu.
    + exfalso; apply Hnd; reflexivity.
    + exact HL0.
  - intros _. cbn [fst].
    assert (HLd : Led (drain_queue q (set_queue s q))) by (eapply frameR_led; [apply drain_queue_frame|exact HL0]).
    set (d := drain_queue q (set_queue s q)) in *.
    assert (Hp' : pending_cmds (set_worker (set_queue d []) Draining) = bcmds (blocked d)) by reflexivity.
    assert (Hp : pending_cmds d = map fst (queue d) ++ bcmds (blocked d)) by reflexivity.
    apply (Led_shrink _ _ HLd); try reflexivity.
    + intros x. rewrite Hp', Hp, idcount_app. lia.
    + intros c' H. rewrite Hp' in H. rewrite Hp. apply in_or_app. right. exact H.
Qed.

Lemma sweep_led : forall cfg s, c_debug cfg = true -> Led s -> Led (fst (sweep cfg s)).
Proof.
  intros cfg s Hd HL. unfold sweep.
  destruct (sweeper s); try exact HL. cbv zeta.
  match goal with |- context [sweep_entries ?c ?n ?es ?s1] =>
    assert (HL1 : Led s1) by (led_same HL);
    pose proof (sweep_entries_led c n es s1 Hd HL1) as Hsw;
    destruct (sweep_entries c n es s1) as [s2|site s2|why] end; [|contradiction|exact HL].
  cbn [fst]. destruct (sweeper_run s2); [exact Hsw|led_same Hsw].
Qed.

Lemma drain_led : forall cfg bl s, Led s -> Led (fst (drain cfg bl s)).
Proof.
  intros cfg bl s HL. unfold drain.
  destruct (consumer s); try exact HL.
  destruct (chan s) as [|[hs|] rest]; try exact HL; [|cbn [fst]; led_same HL].
  destruct (apply_batch (lfu s) hs bl) as [[l'| |] [|b t]]; cbn [fst]; try exact HL; try (led_same HL).
  destruct (consumer_run _); led_same HL.
Qed.

(** every event of the atomic model *)
Lemma step_led : forall cfg s ev, c_debug cfg = true -> Led s ->
  worker (fst (step cfg s ev)) <> Dead -> Led (fst (step cfg s ev)).
Proof.
  intros cfg s ev Hd HL.
  destruct ev as [tid r idxs|tid|orc| |bl|dt|a]; cbn [step].
  - intros _. apply call_led; exact HL.
  - intros _. apply resume_led; exact HL.
  - apply worker_step_led; assumption.
  - intros _. apply sweep_led; assumption.
  - intros _. apply drain_led; exact HL.
  - intros _. cbn [fst]. led_same HL.
  - intros _. exact HL.
Qed.

(** ** the window model: the halves of put_or_update and of the worker's put with time-to-live *)
Lemma upsert_half1_led : forall cfg k v w ttl rm s, Led s ->
  match upsert_half1 cfg k v w ttl rm s with inl (s', _) => Led s' | inr (s', _) => Led s' end.
Proof.
  intros cfg k v w ttl rm s HL. unfold upsert_half1.
  destruct (alookup k (store s)) as [e|]; [|exact HL].
  cbv zeta.
  destruct rm; [led_same HL|].
  destruct ttl as [t|]; [destruct (calc_expiry (now s) t)|]; first [led_same HL|exact HL].
Qed.

Lemma upsert_half2_led : forall cfg tid u s, Led s -> Led (fst (upsert_half2 cfg tid u s)).
Proof.
  intros cfg tid u s HL. unfold upsert_half2. cbv zeta.
  destruct (u_resp u) as [[[id old] new_exp]|].
  - destruct (type_of_expiry_update old new_exp);
      repeat (match goal with
              | |- Led (fst (match ?x with _ => _ end)) => destruct x eqn:?
              | |- Led (fst (if ?b then _ else _)) => destruct b eqn:?
              end); cbn [fst];
      first [exact HL | led_same HL
            | apply do_send_led; [first [exact HL | led_same HL] | cbn [cmd_weight_ok]; lia | apply lcmd_fresh_noput; reflexivity]].
  - destruct (u_v u) as [val|]; [|exact HL].
    destruct (requested_weight cfg (u_k u) (Some val) (u_w u) (u_ttl u)) as [wt|]; [|exact HL].
    destruct (wt <=? 0) eqn:E; [exact HL|].
    destruct (u_ttl u); apply send_new_put_led; try exact HL; try reflexivity; cbn [cmd_weight_ok]; lia.
Qed.

Lemma worker_half1_led : forall cfg orc s, c_debug cfg = true -> Led s ->
  match worker_half1 cfg orc s with
  | inl (s', _) => Led s'
  | inr (s', _) => worker s' <> Dead -> Led s'
  end.
Proof.
  intros cfg orc s Hd HL. unfold worker_half1.
  pose proof (worker_step_led cfg orc s Hd HL) as Hws.
  destruct (worker_step cfg orc s) as [sw rw] eqn:Ew. cbn [fst] in Hws.
  destruct (worker s) eqn:Hwk; try exact Hws.
  destruct (queue s) as [|[c a] q] eqn:Hq; [exact Hws|].
  destruct c as [k v id h w|k v id h w ttl|k|id w|]; try exact Hws.
  cbv zeta.
  destruct (amem k (store (set_queue s q))); [exact Hws|].
  destruct (pop_led s _ a q HL Hq) as (HL0 & Hwok & Hfr).
  pose proof (put_admission_led cfg orc k id h w (set_queue s q)) as Hadm.
  destruct (admission cfg orc k id h w (set_queue s q)) as [[r s1] vs] eqn:E.
  specialize (Hadm r s1 vs Hd HL0 (Hfr id eq_refl) Hwok eq_refl).
  destruct r as [[| |rj|]|site|why]; try exact Hws.
  destruct (calc_expiry (now s1) ttl); [|exact Hws].
  led_same Hadm.
Qed.

Lemma wstep_led : forall cfg ws ev, c_debug cfg = true -> Led (base ws) ->
  worker (base (fst (wstep cfg ws ev))) <> Dead -> Led (base (fst (wstep cfg ws ev))).
Proof.
  intros cfg ws ev Hd HL.
  destruct ev as [e|tid k v w ttl rm|tid|orc|]; cbn [wstep].
  - match goal with |- context [if ?b then _ else _] => destruct b end; [|intros _; exact HL].
    pose proof (step_led cfg (base ws) e Hd HL) as Hs.
    destruct (step cfg (base ws) e) as [s' ret]. exact Hs.
  - intros _. destruct (_ || _); [exact HL|]. destruct (shut (base ws)); [exact HL|].
    pose proof (upsert_half1_led cfg k v w ttl rm (base ws) HL) as Hh.
    destruct (upsert_half1 cfg k v w ttl rm (base ws)) as [[s' u]|[s' ret]]; exact Hh.
  - intros _. destruct (alookup tid (ups ws)) as [u|]; [|exact HL].
    pose proof (upsert_half2_led cfg tid u (base ws) HL) as Hh.
    destruct (upsert_half2 cfg tid u (base ws)) as [s' ret]. exact Hh.
  - destruct (wpending ws); [intros _; exact HL|].
    pose proof (worker_half1_led cfg orc (base ws) Hd HL) as Hh.
    destruct (worker_half1 cfg orc (base ws)) as [[s' p]|[s' ret]]; cbn [fst base with_base]; [intros _|]; exact Hh.
  - intros _. destruct (wpending ws) as [p|]; [|exact HL].
    unfold worker_half2. cbn [fst base]. led_same HL.
Qed.

(** ** the micro model *)
Record MLed (ms : mstate) : Prop := {
  ml_led : Led (mbase ms);
  ml_checked : forall tid k v w ttl, alookup tid (cps ms) = Some (PPutChecked k v w ttl) -> 0 < w
}.

Lemma cps_aset_checked : forall (l : list (Z * cpend)) tid p,
  (forall t k v w ttl, alookup t l = Some (PPutChecked k v w ttl) -> 0 < w) ->
  (forall k v w ttl, p = PPutChecked k v w ttl -> 0 < w) ->
  forall t k v w ttl, alookup t (aset tid p l) = Some (PPutChecked k v w ttl) -> 0 < w.
Proof.
  intros l tid p Hl Hp t k v w ttl H. rewrite alookup_aset in H. destruct (t =? tid).
  - inversion H; subst. eapply Hp; reflexivity.
  - eapply Hl; exact H.
Qed.

Lemma cps_aremove_checked : forall (l : list (Z * cpend)) tid,
  (forall t k v w ttl, alookup t l = Some (PPutChecked k v w ttl) -> 0 < w) ->
  forall t k v w ttl, alookup t (aremove tid l) = Some (PPutChecked k v w ttl) -> 0 < w.
Proof.
  intros l tid Hl t k v w ttl H. rewrite alookup_aremove in H. destruct (t =? tid); [discriminate|].
  eapply Hl; exact H.
Qed.

Lemma mled_set_cp : forall ms s tid p, MLed ms -> Led s -> (forall k v w ttl, p = PPutChecked k v w ttl -> 0 < w) ->
  MLed (set_cp ms s tid p).
Proof.
  intros ms s tid p HM HL Hp. constructor; [exact HL|].
  cbn [set_cp cps]. apply cps_aset_checked; [exact (ml_checked ms HM)|exact Hp].
Qed.

Lemma mled_end_cp : forall ms s tid, MLed ms -> Led s -> MLed (end_cp ms s tid).
Proof.
  intros ms s tid HM HL. constructor; [exact HL|].
  cbn [end_cp cps]. apply cps_aremove_checked. exact (ml_checked ms HM).
Qed.

Lemma mled_with_mbase : forall ms s, MLed ms -> Led s -> MLed (with_mbase ms s).
Proof. intros ms s HM HL. constructor; [exact HL|exact (ml_checked ms HM)]. Qed.

Lemma mled_win : forall ms w', MLed ms -> Led (base w') -> MLed {| win := w'; cps := cps ms; wdel := wdel ms |}.
Proof. intros ms w' HM HL. constructor; [exact HL|exact (ml_checked ms HM)]. Qed.

Ltac not_checked := intros ? ? ? ? Hpc; discriminate Hpc.

Lemma shutdown_stage_led : forall cfg ms tid n, MLed ms -> MLed (fst (shutdown_stage cfg ms tid n)).
Proof.
  intros cfg ms tid n HM. pose proof (ml_led ms HM) as HL. unfold shutdown_stage. cbv zeta.
  destruct (n =? 0).
  { destruct (worker (mbase ms)); try (cbn [fst]; apply mled_set_cp; [exact HM|exact HL|not_checked]).
    destruct (_ <? c_queue cfg); cbn [fst].
    - apply mled_set_cp; [exact HM| |not_checked].
      apply (Led_enqueue (mbase ms) _ CShutdown (-1) HL); first [reflexivity|exact I|apply lcmd_fresh_noput; reflexivity].
    - apply mled_end_cp; [exact HM|].
      apply (Led_park (mbase ms) _ tid KShutdownCmd HL); try reflexivity. intros c Hc; discriminate. }
  destruct (n =? 1).
  { destruct (consumer (mbase ms)); try (cbn [fst]; apply mled_set_cp; [exact HM|led_same HL|not_checked]).
    destruct (_ <? chan_capacity); cbn [fst].
    - apply mled_set_cp; [exact HM|led_same HL|not_checked].
    - apply mled_end_cp; [exact HM|].
      apply (Led_park (mbase ms) _ tid KShutdownChan HL); try reflexivity. intros c Hc; discriminate. }
  destruct (n =? 2); [cbn [fst]; apply mled_set_cp; [exact HM|led_same HL|not_checked]|].
  destruct (n =? 3); [cbn [fst]; apply mled_set_cp; [exact HM|led_same HL|not_checked]|].
  destruct (n =? 4).
  { cbn [fst]. apply mled_set_cp; [exact HM| |not_checked]. apply (Led_cleared (mbase ms) _ HL); reflexivity. }
  cbn [fst]. apply mled_end_cp; [exact HM|led_same HL].
Qed.

Lemma menter_led : forall cfg ms tid r idxs, MLed ms -> MLed (fst (menter cfg ms tid r idxs)).
Proof.
  intros cfg ms tid r idxs HM. pose proof (ml_led ms HM) as HL. unfold menter.
  destruct (negb (caller_free ms tid)); [exact HM|]. cbv zeta.
  destruct (shut (mbase ms) || negb (micro_request r) || early_panic cfg r).
  - pose proof (call_led cfg tid r idxs (mbase ms) HL) as Hc.
    destruct (call cfg tid r idxs (mbase ms)) as [s' ret]. cbn [fst] in *. apply mled_with_mbase; assumption.
  - destruct r; cbn [fst]; apply mled_set_cp; first [exact HM|exact HL|led_same HL|not_checked].
Qed.

Lemma put_check_led : forall ms tid k v w ttl, MLed ms -> MLed (fst (put_check ms tid k v w ttl)).
Proof.
  intros ms tid k v w ttl HM. pose proof (ml_led ms HM) as HL. unfold put_check. cbv zeta.
  destruct (w <=? 0) eqn:E; [cbn [fst]; apply mled_end_cp; assumption|].
  destruct (amem k (store (mbase ms))); cbn [fst]; [apply mled_end_cp; assumption|].
  apply mled_set_cp; [exact HM|exact HL|]. intros k0 v0 w0 ttl0 Hp. inversion Hp; subst. lia.
Qed.

Lemma read_lookup_led : forall cfg ms tid k f, MLed ms -> MLed (fst (read_lookup cfg ms tid k f)).
Proof.
  intros cfg ms tid k f HM. pose proof (ml_led ms HM) as HL. unfold read_lookup. cbv zeta.
  destruct (lookup_alive k (mbase ms)); cbn [fst].
  - apply mled_set_cp; [exact HM|led_same HL|not_checked].
  - apply mled_end_cp; [exact HM|led_same HL].
Qed.

Lemma read_body_led : forall cfg k f idxs s, Led s -> Led (fst (read_body cfg k f idxs s)).
Proof.
  intros cfg k f idxs s HL. unfold read_body.
  destruct (read_one cfg k idxs s) as [[[v0 s0] [|i0 idxs0]]|] eqn:E; cbn [fst]; try exact HL.
  eapply frameR_led; [eapply InvCalls.read_one_frame; exact E|exact HL].
Qed.

Lemma soft_mark_led : forall k s, Led s -> Led (soft_mark k s).
Proof. intros k s HL. unfold soft_mark. destruct (alookup k (store s)); [led_same HL|exact HL]. Qed.

Lemma mstepc_led : forall cfg ms tid idxs, MLed ms -> MLed (fst (mstepc cfg ms tid idxs)).
Proof.
  intros cfg ms tid idxs HM. pose proof (ml_led ms HM) as HL. unfold mstepc. cbv zeta.
  destruct (alookup tid (cps ms)) as [p|] eqn:Hp; [|exact HM].
  destruct p as [r|k v w ttl| |h obs|n].
  - destruct r as [k0 v|k0 v w|k0 v ttl|k0 v w ttl|k0 v w ttl rm|k0|k0|k0|k0|k0|ks|ks|ks| | |]; try exact HM;
      try (apply put_check_led; exact HM); try (apply read_lookup_led; exact HM).
    + pose proof (upsert_half1_led cfg k0 v w ttl rm (mbase ms) HL) as Hh.
      destruct (upsert_half1 cfg k0 v w ttl rm (mbase ms)) as [[s' u]|[s' ret]]; cbn [fst].
      * constructor; [exact Hh|]. cbn [cps]. apply cps_aremove_checked. exact (ml_checked ms HM).
      * apply mled_end_cp; assumption.
    + cbn [fst]. apply mled_set_cp; [exact HM| |not_checked]. unfold park.
      apply (Led_park (soft_mark k0 (mbase ms)) _ tid (KSend (CDelete k0)) (soft_mark_led k0 _ HL)); try reflexivity.
      intros c Hc. inversion Hc; subst. split; [exact I|apply lcmd_fresh_noput; reflexivity].
    + pose proof (read_body_led cfg k0 (fun v => v) idxs (mbase ms) HL) as Hb.
      destruct (read_body cfg k0 (fun v => v) idxs (mbase ms)) as [s' ret]. cbn [fst] in *. apply mled_end_cp; assumption.
    + pose proof (read_body_led cfg k0 mapped idxs (mbase ms) HL) as Hb.
      destruct (read_body cfg k0 mapped idxs (mbase ms)) as [s' ret]. cbn [fst] in *. apply mled_end_cp; assumption.
  - pose proof (ml_checked ms HM tid k v w ttl Hp) as Hw.
    cbn [fst]. apply mled_set_cp; [exact HM| |not_checked]. unfold park.
    set (c := match ttl with None => CPut k v (next_id (mbase ms)) (key_hash (c_hash cfg) k) w
                           | Some t => CPutTTL k v (next_id (mbase ms)) (key_hash (c_hash cfg) k) w t end).
    assert (Hc : cmd_put_id c = Some (next_id (mbase ms)) /\ cmd_weight_ok c).
    { subst c. destruct ttl; split; try reflexivity; cbn [cmd_weight_ok]; exact Hw. }
    apply (Led_park (set_next_id (mbase ms) (next_id (mbase ms) + 1)) _ tid (KSend c) (Led_bump _ HL)); try reflexivity.
    intros c' Hc'. inversion Hc'; subst c'. split; [exact (proj2 Hc)|]. apply lnext_id_fresh; [exact HL|exact (proj1 Hc)].
  - destruct (alookup tid (blocked (mbase ms))) as [[c| |]|] eqn:Hb; try exact HM.
    destruct (lunparked_cmd_fresh (mbase ms) (set_blocked (mbase ms) (aremove tid (blocked (mbase ms)))) tid c HL
                eq_refl eq_refl eq_refl eq_refl Hb) as [Hwok Hfr].
    assert (HL0 : Led (set_blocked (mbase ms) (aremove tid (blocked (mbase ms)))))
      by (apply (Led_unpark (mbase ms) _ tid HL); reflexivity).
    pose proof (do_send_led cfg tid c _ HL0 Hwok Hfr) as Hs.
    destruct (do_send cfg tid c (set_blocked (mbase ms) (aremove tid (blocked (mbase ms))))) as [s' ret].
    cbn [fst] in *. apply mled_end_cp; assumption.
  - destruct idxs as [|i [|i2 t]]; try exact HM.
    destruct (pool_add cfg i h (mbase ms)) as [s'|] eqn:E; [|exact HM].
    cbn [fst]. apply mled_end_cp; [exact HM|]. eapply frameR_led; [eapply InvCalls.pool_add_frame; exact E|exact HL].
  - apply shutdown_stage_led; exact HM.
Qed.

(** the worker's micro steps *)
Lemma mput1_led : forall cfg ms orc k v id h w ttl a q c, c_debug cfg = true -> MLed ms ->
  queue (mbase ms) = (c, a) :: q -> cmd_put_id c = Some id -> (cmd_weight_ok c -> 0 < w) ->
  worker (mbase (fst (mput1 cfg ms orc k v id h w ttl a q))) <> Dead ->
  MLed (fst (mput1 cfg ms orc k v id h w ttl a q)).
Proof.
  intros cfg ms orc k v id h w ttl a q c Hd HM Hq Hid Hwc. pose proof (ml_led ms HM) as HL.
  destruct (pop_led (mbase ms) c a q HL Hq) as (HL0 & Hwok & Hfr).
  unfold mput1. cbv zeta.
  destruct (amem k (store (set_queue (mbase ms) q))); [intros _; cbn [fst]; apply mled_with_mbase; [exact HM|led_same HL0]|].
  pose proof (put_admission_led cfg orc k id h w (set_queue (mbase ms) q)) as Hadm.
  destruct (admission cfg orc k id h w (set_queue (mbase ms) q)) as [[r s1] vs] eqn:E.
  specialize (Hadm r s1 vs Hd HL0 (Hfr id Hid) (Hwc Hwok) eq_refl).
  destruct r as [[| |rj|]|site|why]; cbn [fst]; intros Hnd;
    first [ exact HM
          | apply mled_with_mbase; [exact HM|led_same Hadm]
          | constructor; [exact Hadm|exact (ml_checked ms HM)]
          | exfalso; apply Hnd; reflexivity ].
Qed.

Lemma mworker1_led : forall cfg ms orc, c_debug cfg = true -> MLed ms ->
  worker (mbase (fst (mworker1 cfg ms orc))) <> Dead -> MLed (fst (mworker1 cfg ms orc)).
Proof.
  intros cfg ms orc Hd HM. pose proof (ml_led ms HM) as HL. unfold mworker1. cbv zeta.
  destruct (wdel ms); [intros _; exact HM|].
  destruct (wpending (win ms)) eqn:Hwp; [intros _; exact HM|].
  assert (Hfall : worker (mbase (fst (let '(w', ret) := wstep cfg (win ms) (WPut1 orc) in
                                      ({| win := w'; cps := cps ms; wdel := None |}, ret)))) <> Dead ->
                  MLed (fst (let '(w', ret) := wstep cfg (win ms) (WPut1 orc) in
                             ({| win := w'; cps := cps ms; wdel := None |}, ret)))).
  { pose proof (wstep_led cfg (win ms) (WPut1 orc) Hd HL) as Hw.
    destruct (wstep cfg (win ms) (WPut1 orc)) as [w' ret]. cbn [fst] in *. intros Hnd.
    constructor; [exact (Hw Hnd)|exact (ml_checked ms HM)]. }
  destruct (worker (mbase ms)) eqn:Hwk; try exact Hfall.
  destruct (queue (mbase ms)) as [|[c a] q] eqn:Hq; [exact Hfall|].
  destruct c as [k v id h w|k v id h w ttl|k|id w|]; try exact Hfall.
  - eapply mput1_led; [exact Hd|exact HM|exact Hq|reflexivity|intros H; exact H].
  - eapply mput1_led; [exact Hd|exact HM|exact Hq|reflexivity|intros H; exact H].
  - destruct (pop_led (mbase ms) _ a q HL Hq) as (HL0 & _ & _).
    destruct (alookup k (store (set_queue (mbase ms) q))) as [e|]; cbn [fst]; intros _.
    + constructor; [|exact (ml_checked ms HM)]. cbn [mbase win with_base base].
      destruct (store_delete_lfields k (set_queue (mbase ms) q)) as (D1 & D2 & D3 & D4 & D5).
      apply (Led_ext _ _ HL0); assumption.
    + apply mled_with_mbase; [exact HM|led_same HL0].
Qed.

Lemma mworker2_led : forall cfg ms, c_debug cfg = true -> MLed ms ->
  worker (mbase (fst (mworker2 cfg ms))) <> Dead -> MLed (fst (mworker2 cfg ms)).
Proof.
  intros cfg ms Hd HM. pose proof (ml_led ms HM) as HL. unfold mworker2. cbv zeta.
  destruct (wdel ms) as [[a id exp|a id exp|a k v id ttl obs]|].
  - pose proof (weights_delete_led cfg id false (mbase ms) Hd HL) as Hwd.
    destruct (weights_delete cfg id false (mbase ms)) as [s2|site s2|why]; [|contradiction|intros _; exact HM].
    intros _. cbn [fst]. constructor; [exact (proj1 Hwd)|exact (ml_checked ms HM)].
  - intros _. cbn [fst]. constructor; [|exact (ml_checked ms HM)]. cbn [mbase win with_base base].
    destruct exp; led_same HL.
  - destruct ttl as [t|].
    + destruct (calc_expiry (now (mbase ms)) t); cbn [fst]; intros Hnd.
      * constructor; [|exact (ml_checked ms HM)]. cbn [mbase win base]. led_same HL.
      * exfalso; apply Hnd; reflexivity.
    + intros _. cbn [fst]. constructor; [|exact (ml_checked ms HM)]. cbn [mbase win with_base base]. led_same HL.
  - pose proof (wstep_led cfg (win ms) WPut2 Hd HL) as Hw.
    destruct (wstep cfg (win ms) WPut2) as [w' ret]. cbn [fst] in *. intros Hnd.
    constructor; [exact (Hw Hnd)|exact (ml_checked ms HM)].
Qed.

Lemma mstep_led : forall cfg ms ev, c_debug cfg = true -> MLed ms ->
  worker (mbase (fst (mstep cfg ms ev))) <> Dead -> MLed (fst (mstep cfg ms ev)).
Proof.
  intros cfg ms ev Hd HM. destruct ev as [e|tid r idxs|tid idxs|orc|]; cbn [mstep].
  - destruct (mwin_enabled ms e); [|intros _; exact HM].
    pose proof (wstep_led cfg (win ms) e Hd (ml_led ms HM)) as Hw.
    destruct (wstep cfg (win ms) e) as [w' ret]. cbn [fst] in *. intros Hnd.
    apply mled_win; [exact HM|exact (Hw Hnd)].
  - intros _. apply menter_led; exact HM.
  - intros _. apply mstepc_led; exact HM.
  - apply mworker1_led; assumption.
  - apply mworker2_led; assumption.
Qed.

Lemma mled_init : forall cfg, MLed (minit cfg).
Proof.
  intros cfg. constructor; [|intros tid k v w ttl H; discriminate].
  cbn. constructor; cbn.
  - constructor.
  - reflexivity.
  - intros id wk H; discriminate.
  - unfold i64_max. lia.
  - intros id wk H; discriminate.
  - split; [constructor|intros id []].
  - intros c [].
Qed.

(** ** a dead worker stays dead, whatever the micro step *)
Lemma upsert_half1_worker : forall cfg k v w ttl rm s,
  match upsert_half1 cfg k v w ttl rm s with inl (s', _) => worker s' = worker s | inr (s', _) => worker s' = worker s end.
Proof.
  intros cfg k v w ttl rm s. unfold upsert_half1.
  destruct (alookup k (store s)); [|reflexivity]. cbv zeta.
  destruct rm; [reflexivity|]. destruct ttl as [t|]; [destruct (calc_expiry (now s) t)|]; reflexivity.
Qed.

Lemma upsert_half2_worker : forall cfg tid u s, worker (fst (upsert_half2 cfg tid u s)) = worker s.
Proof.
  intros cfg tid u s. unfold upsert_half2. cbv zeta.
  destruct (u_resp u) as [[[id old] new_exp]|].
  - destruct (type_of_expiry_update old new_exp);
      repeat (match goal with
              | |- worker (fst (match ?x with _ => _ end)) = _ => destruct x eqn:?
              | |- worker (fst (if ?b then _ else _)) = _ => destruct b eqn:?
              end); cbn [fst]; try reflexivity;
      match goal with |- worker (fst (do_send ?c ?t ?cm ?s0)) = _ => exact (proj1 (do_send_roles c t cm s0)) end.
  - destruct (u_v u) as [val|]; [|reflexivity].
    destruct (requested_weight cfg (u_k u) (Some val) (u_w u) (u_ttl u)) as [wt|]; [|reflexivity].
    destruct (wt <=? 0); [reflexivity|].
    destruct (u_ttl u);
      match goal with |- worker (fst (do_send ?c ?t ?cm ?s0)) = _ => exact (proj1 (do_send_roles c t cm s0)) end.
Qed.

Lemma wstep_dead : forall cfg ws ev, worker (base ws) = Dead -> worker (base (fst (wstep cfg ws ev))) = Dead.
Proof.
  intros cfg ws ev Hdd. destruct ev as [e|tid k v w ttl rm|tid|orc|]; cbn [wstep].
  - match goal with |- context [if ?b then _ else _] => destruct b end; [|exact Hdd].
    pose proof (dead_absorbing cfg (base ws) e Hdd) as H. unfold step_state in H.
    destruct (step cfg (base ws) e) as [s' ret]. exact H.
  - destruct (_ || _); [exact Hdd|]. destruct (shut (base ws)); [exact Hdd|].
    pose proof (upsert_half1_worker cfg k v w ttl rm (base ws)) as H.
    destruct (upsert_half1 cfg k v w ttl rm (base ws)) as [[s' u]|[s' ret]]; cbn [fst base with_base]; congruence.
  - destruct (alookup tid (ups ws)) as [u|]; [|exact Hdd].
    pose proof (upsert_half2_worker cfg tid u (base ws)) as H.
    destruct (upsert_half2 cfg tid u (base ws)) as [s' ret]. cbn [fst base] in *. congruence.
  - destruct (wpending ws); [exact Hdd|].
    unfold worker_half1, worker_step. rewrite Hdd. exact Hdd.
  - destruct (wpending ws) as [p|]; [|exact Hdd]. exact Hdd.
Qed.

Lemma shutdown_stage_worker : forall cfg ms tid n, worker (mbase (fst (shutdown_stage cfg ms tid n))) = worker (mbase ms).
Proof.
  intros cfg ms tid n. unfold shutdown_stage. cbv zeta.
  repeat match goal with
         | |- context [if ?b then _ else _] => destruct b
         | |- context [match worker ?x with _ => _ end] => destruct (worker x) eqn:?
         | |- context [match consumer ?x with _ => _ end] => destruct (consumer x) eqn:?
         end; cbn; congruence.
Qed.

Lemma mstep_dead : forall cfg ms ev, worker (mbase ms) = Dead -> worker (mbase (fst (mstep cfg ms ev))) = Dead.
Proof.
  intros cfg ms ev Hdd. destruct ev as [e|tid r idxs|tid idxs|orc|]; cbn [mstep].
  - destruct (mwin_enabled ms e); [|exact Hdd].
    pose proof (wstep_dead cfg (win ms) e Hdd) as H.
    destruct (wstep cfg (win ms) e) as [w' ret]. exact H.
  - unfold menter. destruct (negb (caller_free ms tid)); [exact Hdd|]. cbv zeta.
    destruct (shut (mbase ms) || negb (micro_request r) || early_panic cfg r).
    + pose proof (call_roles cfg tid r idxs (mbase ms)) as (R & _).
      destruct (call cfg tid r idxs (mbase ms)) as [s' ret]. cbn [fst] in *. cbn. congruence.
    + destruct r; exact Hdd.
  - unfold mstepc. cbv zeta. destruct (alookup tid (cps ms)) as [p|] eqn:Hp; [|exact Hdd].
    destruct p as [r|k v w ttl| |h obs|n].
    + destruct r; try exact Hdd;
        try (unfold put_check; cbv zeta; repeat match goal with |- context [if ?b then _ else _] => destruct b end; exact Hdd);
        try (unfold read_lookup; cbv zeta; destruct (lookup_alive _ _); exact Hdd).
      * pose proof (upsert_half1_worker cfg k v w ttl rm (mbase ms)) as H.
        destruct (upsert_half1 cfg k v w ttl rm (mbase ms)) as [[s' u]|[s' ret]]; cbn; cbn in H; congruence.
      * cbn. unfold soft_mark. destruct (alookup k (store (mbase ms))); exact Hdd.
      * unfold read_body. destruct (read_one cfg k idxs (mbase ms)) as [[[v0 s'] [|i l]]|] eqn:Hr; try exact Hdd.
        cbn. rewrite (proj1 (frameR_roles _ _ (InvCalls.read_one_frame cfg k idxs _ _ _ _ Hr))). exact Hdd.
      * unfold read_body. destruct (read_one cfg k idxs (mbase ms)) as [[[v0 s'] [|i l]]|] eqn:Hr; try exact Hdd.
        cbn. rewrite (proj1 (frameR_roles _ _ (InvCalls.read_one_frame cfg k idxs _ _ _ _ Hr))). exact Hdd.
    + exact Hdd.
    + destruct (alookup tid (blocked (mbase ms))) as [[c| |]|]; try exact Hdd.
      pose proof (do_send_roles cfg tid c (set_blocked (mbase ms) (aremove tid (blocked (mbase ms))))) as (R & _).
      destruct (do_send cfg tid c (set_blocked (mbase ms) (aremove tid (blocked (mbase ms))))) as [s' ret].
      cbn [fst] in *. cbn. rewrite R. exact Hdd.
    + destruct idxs as [|i [|j l]]; try exact Hdd.
      destruct (pool_add cfg i h (mbase ms)) as [s'|] eqn:Hpa; [|exact Hdd].
      cbn. rewrite (proj1 (frameR_roles _ _ (InvCalls.pool_add_frame cfg i h _ _ Hpa))). exact Hdd.
    + rewrite shutdown_stage_worker. exact Hdd.
  - unfold mworker1. cbv zeta. destruct (wdel ms); [exact Hdd|]. destruct (wpending (win ms)); [exact Hdd|].
    rewrite Hdd.
    pose proof (wstep_dead cfg (win ms) (WPut1 orc) Hdd) as H.
    destruct (wstep cfg (win ms) (WPut1 orc)) as [w' ret]. exact H.
  - unfold mworker2. cbv zeta. destruct (wdel ms) as [[a id exp|a id exp|a k v id ttl obs]|].
    + pose proof (weights_delete_frame cfg id false (mbase ms)) as Hf.
      destruct (weights_delete cfg id false (mbase ms)) as [s2|site s2|why]; cbn; try reflexivity; try exact Hdd.
      destruct Hf as (_ & _ & _ & _ & _ & Fw & _). congruence.
    + destruct exp; exact Hdd.
    + destruct ttl as [t|]; [destruct (calc_expiry (now (mbase ms)) t)|]; cbn; first [exact Hdd|reflexivity].
    + pose proof (wstep_dead cfg (win ms) WPut2 Hdd) as H.
      destruct (wstep cfg (win ms) WPut2) as [w' ret]. exact H.
Qed.

Lemma mrun_from_dead : forall cfg evs ms, worker (mbase ms) = Dead -> worker (mbase (mrun_from cfg ms evs)) = Dead.
Proof.
  intros cfg evs. induction evs as [|ev t IH]; intros ms Hdd; [exact Hdd|].
  unfold mrun_from in *. cbn [fold_left]. apply IH. apply mstep_dead. exact Hdd.
Qed.

Lemma mled_run_from : forall cfg evs ms, c_debug cfg = true -> MLed ms ->
  worker (mbase (mrun_from cfg ms evs)) <> Dead -> MLed (mrun_from cfg ms evs).
Proof.
  intros cfg evs. induction evs as [|ev t IH]; intros ms Hd HM Hnd; [exact HM|].
  unfold mrun_from in *. cbn [fold_left] in *.
  apply IH; try assumption.
  apply mstep_led; try assumption.
  intros Hdd. apply Hnd. apply (mrun_from_dead cfg t). exact Hdd.
Qed.

(* STATEMENT (C05, C01 at every micro state of every micro schedule, no condition on the events): as long as the worker has
   not panicked, the total weight is exactly the sum of the charges, the charged ids are pairwise distinct, every charge
   is positive and the total lies between 0 and i64::MAX - inside the windows of put_or_update, of the worker's put and
   Delete and of shutdown() as well *)
Lemma micro_ledger_exact_all : forall cfg evs, c_debug cfg = true ->
  let s := mbase (mrun cfg evs) in
  worker s <> Dead ->
  used s = weights_sum (weights s) /\ NoDup (map fst (weights s)) /\
  (forall id wk, alookup id (weights s) = Some wk -> 0 < w_weight wk) /\ 0 <= used s <= i64_max.
Proof.
  intros cfg evs Hd s Hnd.
  pose proof (ml_led _ (mled_run_from cfg evs (minit cfg) Hd (mled_init cfg) Hnd)) as HL. fold s in HL.
  split; [exact (led_sum s HL)|]. split; [exact (led_nodup s HL)|]. split; [exact (led_pos s HL)|].
  split; [exact (Led_used_nonneg s HL)|exact (led_range s HL)].
Qed.

(* STATEMENT (ids): at every micro state the ids of the puts that are queued or held by a parked or stopped caller are
   pairwise distinct, not yet charged and below the id counter, and so is every charged id: no two keys can ever share a
   charge *)
Lemma micro_ids_fresh_all : forall cfg evs, c_debug cfg = true ->
  let s := mbase (mrun cfg evs) in
  worker s <> Dead ->
  NoDup (put_ids (pending_cmds s)) /\
  (forall id, In id (put_ids (pending_cmds s)) -> id < next_id s /\ alookup id (weights s) = None) /\
  (forall id wk, alookup id (weights s) = Some wk -> id < next_id s).
Proof.
  intros cfg evs Hd s Hnd.
  pose proof (ml_led _ (mled_run_from cfg evs (minit cfg) Hd (mled_init cfg) Hnd)) as HL. fold s in HL.
  split; [exact (proj1 (led_pending s HL))|]. split; [exact (proj2 (led_pending s HL))|exact (led_ids s HL)].
Qed.

From CacheD.proofs Require MicroProofs.

(** non-vacuity: a schedule in which the worker's put is overtaken by a whole shutdown() between its admission and its
    store insert (the state then holds a stored key without a charge: [Inv] is false there, the ledger part is not) *)
Example ledger_all_witness :
  let cfg := MicroProofs.mcfg in
  let evs := [MEnter 0 (RPutW 1 10 5) []; MStepC 0 []; MStepC 0 []; MStepC 0 [];
              MWorker1 MicroProofs.orc0;
              MEnter 1 RShutdown []; MStepC 1 []; MStepC 1 []; MStepC 1 []; MStepC 1 []; MStepC 1 []; MStepC 1 [];
              MWorker2] in
  let s := mbase (mrun cfg evs) in
  worker s <> Dead /\ map fst (store s) = [1] /\ weights s = [] /\ used s = 0.
Proof. vm_compute. repeat split; try reflexivity. discriminate. Qed.
