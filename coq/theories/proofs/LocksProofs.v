(** C18: ordered locking plus dedicated queue consumers give progress: no cycle of lock or queue waits. *)
From CacheD Require Import Base Locks.
From Coq Require Import Lia Sorted.
Local Open Scope nat_scope.

Definition is_blocking_comm (a : lact) : bool := match a with LSend _ | LRecv _ => true | _ => false end.

(** well-formed system states *)
Record lwf (rank : nat -> nat) (s : lsys) : Prop := {
  (* a lock is held by at most one thread, at most once *)
  lwf_disjoint : forall i j ti tj l, i <> j -> nth_error (l_threads s) i = Some ti -> nth_error (l_threads s) j = Some tj ->
      holds ti l = true -> holds tj l = false;
  (* the rest of each thread's current program is disciplined from its held set and ends with nothing held *)
  lwf_prog : forall i t, nth_error (l_threads s) i = Some t -> prog_ok rank (t_held t) (t_prog t) = Some [];
  (* a background loop: all its bodies start by receiving from one and the same queue and are disciplined; in the middle
     of an iteration it neither sends (blocking) nor receives *)
  lwf_loops : forall i t, nth_error (l_threads s) i = Some t -> t_loop t <> [] ->
      (exists q, Forall (fun b => loop_ok rank q b = true) (t_loop t)) /\
      forallb (fun a => negb (is_blocking_comm a)) (t_prog t) = true;
  (* every queue a thread may block on has a consumer loop *)
  lwf_consumers : forall i t q, nth_error (l_threads s) i = Some t -> In (LSend q) (t_prog t) ->
      exists j tj, nth_error (l_threads s) j = Some tj /\ t_loop tj <> [] /\ Forall (fun b => loop_ok rank q b = true) (t_loop tj);
  lwf_caps : forall q, 1 <= qcap s q
}.

(** * Helper lemmas *)

Lemma forallb_ext_local : forall (A : Type) (f g : A -> bool) (l : list A),
  (forall x, f x = g x) -> forallb f l = forallb g l.
Proof.
  intros A f g l Hfg. induction l as [|x l IH]; simpl.
  - reflexivity.
  - rewrite Hfg, IH. reflexivity.
Qed.

Lemma lock_eqb_eq : forall a b, lock_eqb a b = true <-> a = b.
Proof.
  intros [a1 a2] [b1 b2]. unfold lock_eqb. simpl. rewrite andb_true_iff, !Nat.eqb_eq. split.
  - intros [H1 H2]. subst. reflexivity.
  - intros H. inversion H. split; reflexivity.
Qed.

Lemma existsb_lock_In : forall l h, existsb (lock_eqb l) h = true <-> In l h.
Proof.
  intros l h. rewrite existsb_exists. split.
  - intros [x [Hin Heq]]. apply lock_eqb_eq in Heq. subst. exact Hin.
  - intros Hin. exists l. split; [exact Hin|]. apply lock_eqb_eq. reflexivity.
Qed.

Lemma holds_In : forall t l, holds t l = true <-> In l (t_held t).
Proof. intros t l. unfold holds. apply existsb_lock_In. Qed.

Lemma remove_lock_In : forall l h x, In x (remove_lock l h) -> In x h.
Proof.
  intros l h. induction h as [|y h IH]; intros x Hin; simpl in *.
  - exact Hin.
  - destruct (lock_eqb l y) eqn:E.
    + right. exact Hin.
    + destruct Hin as [Hin|Hin]; [left; exact Hin | right; apply IH; exact Hin].
Qed.

Lemma held_by_any_false : forall ts l t, held_by_any ts l = false -> In t ts -> holds t l = false.
Proof.
  intros ts l t H Hin. destruct (holds t l) eqn:E; [|reflexivity].
  assert (Ht : held_by_any ts l = true).
  { unfold held_by_any. apply existsb_exists. exists t. split; assumption. }
  congruence.
Qed.

Lemma nth_error_set_nth_eq : forall (A : Type) (l : list A) i x y,
  nth_error l i = Some y -> nth_error (set_nth i x l) i = Some x.
Proof.
  intros A l. induction l as [|h l IH]; intros i x y H; destruct i as [|i]; simpl in *; try discriminate.
  - reflexivity.
  - eapply IH. exact H.
Qed.

Lemma nth_error_set_nth_neq : forall (A : Type) (l : list A) i j x,
  i <> j -> nth_error (set_nth i x l) j = nth_error l j.
Proof.
  intros A l. induction l as [|h l IH]; intros i j x Hne; destruct i as [|i]; destruct j as [|j]; simpl; try reflexivity.
  - exfalso. apply Hne. reflexivity.
  - apply IH. intros E. apply Hne. subst. reflexivity.
Qed.

Lemma set_nth_cases : forall (A : Type) (l : list A) i x z j y,
  nth_error l i = Some z -> nth_error (set_nth i x l) j = Some y ->
  (j = i /\ y = x) \/ (j <> i /\ nth_error l j = Some y).
Proof.
  intros A l i x z j y Hi Hj. destruct (Nat.eq_dec j i) as [E|E].
  - left. subst j. rewrite (nth_error_set_nth_eq _ l i x _ Hi) in Hj. inversion Hj. split; reflexivity.
  - right. split; [exact E|]. rewrite nth_error_set_nth_neq in Hj; [exact Hj|]. intros E'. apply E. symmetry. exact E'.
Qed.

Arguments set_nth_cases {A l i x z j y}.

Lemma set_nth_preserve : forall (l : list lthread) i t t' j tj,
  nth_error l i = Some t -> t_loop t' = t_loop t -> nth_error l j = Some tj ->
  exists tj', nth_error (set_nth i t' l) j = Some tj' /\ t_loop tj' = t_loop tj.
Proof.
  intros l i t t' j tj Hi Hl Hj. destruct (Nat.eq_dec i j) as [E|E].
  - subst j. exists t'. split; [eapply nth_error_set_nth_eq; exact Hi|].
    rewrite Hi in Hj. inversion Hj. subst. exact Hl.
  - exists tj. split; [|reflexivity]. rewrite nth_error_set_nth_neq; assumption.
Qed.

Definition new_held (a : lact) (h : list (nat * nat)) : list (nat * nat) :=
  match a with
  | LAcq c n => (c, n) :: h
  | LRel c n => remove_lock (c, n) h
  | _ => h
  end.

Lemma new_held_In : forall a h l, In l (new_held a h) -> In l h \/ (exists c n, a = LAcq c n /\ l = (c, n)).
Proof.
  intros a h l Hin. destruct a as [c n|c n|q|q|q]; simpl in Hin; try (left; exact Hin).
  - destruct Hin as [Hin|Hin]; [right; exists c, n; split; [reflexivity|symmetry; exact Hin] | left; exact Hin].
  - left. eapply remove_lock_In. exact Hin.
Qed.

Definition act_enabled (s : lsys) (a : lact) : bool :=
  match a with
  | LAcq c n => negb (held_by_any (l_threads s) (c, n))
  | LRel _ _ => true
  | LSend q => Nat.ltb (qlen s q) (qcap s q)
  | LTrySend _ => true
  | LRecv q => Nat.ltb 0 (qlen s q)
  end.

Lemma lenabled_cur : forall s i ch t a rest,
  nth_error (l_threads s) i = Some t -> cur_prog t ch = a :: rest -> lenabled s i ch = act_enabled s a.
Proof.
  intros s i ch t a rest Ht Hc. unfold lenabled. rewrite Ht, Hc. destruct a; reflexivity.
Qed.

Arguments lenabled_cur s i ch {t a rest}.

Lemma cur_prog_nonempty : forall t ch a rest, t_prog t = a :: rest -> cur_prog t ch = a :: rest.
Proof. intros t ch a rest Hp. unfold cur_prog. rewrite Hp. reflexivity. Qed.

Arguments cur_prog_nonempty t ch {a rest}.

Lemma lstep_disabled_noop_aux : forall s i ch, lenabled s i ch = false -> lstep s (i, ch) = s.
Proof. intros s i ch H. unfold lstep. rewrite H. reflexivity. Qed.

Lemma lstep_enabled : forall s i ch, lenabled s i ch = true ->
  exists t a rest, nth_error (l_threads s) i = Some t /\ cur_prog t ch = a :: rest /\
    l_threads (lstep s (i, ch)) =
      set_nth i {| t_prog := rest; t_loop := t_loop t; t_held := new_held a (t_held t) |} (l_threads s) /\
    l_caps (lstep s (i, ch)) = l_caps s.
Proof.
  intros s i ch Hen. unfold lstep. rewrite Hen. simpl negb. cbv iota.
  unfold lenabled in Hen.
  destruct (nth_error (l_threads s) i) as [t|] eqn:Ht; [|discriminate].
  destruct (cur_prog t ch) as [|a rest] eqn:Hc; [discriminate|].
  exists t, a, rest. split; [reflexivity|]. split; [exact Hc|]. split; reflexivity.
Qed.

Lemma prog_ok_cons : forall rank held a rest r, prog_ok rank held (a :: rest) = Some r ->
  prog_ok rank (new_held a held) rest = Some r /\
  match a with
  | LAcq c n => forall h, In h held -> rank (fst h) < rank c
  | LRel c n => In (c, n) held
  | LSend _ | LRecv _ => held = []
  | LTrySend _ => True
  end.
Proof.
  intros rank held a rest r H. destruct a as [c n|c n|q|q|q]; simpl in H.
  - destruct (forallb (fun h => Nat.ltb (rank (fst h)) (rank c)) held) eqn:E; [|discriminate].
    split; [exact H|]. intros h Hin. rewrite forallb_forall in E. apply E in Hin. apply Nat.ltb_lt in Hin. exact Hin.
  - destruct (existsb (lock_eqb (c, n)) held) eqn:E; [|discriminate].
    split; [exact H|]. apply existsb_lock_In. exact E.
  - destruct held as [|x held]; [|discriminate]. split; [exact H|reflexivity].
  - split; [exact H|exact I].
  - destruct held as [|x held]; [|discriminate]. split; [exact H|reflexivity].
Qed.

Lemma prog_balanced_ok : forall rank p, prog_balanced rank p = true -> prog_ok rank [] p = Some [].
Proof.
  intros rank p H. unfold prog_balanced in H. destruct (prog_ok rank [] p) as [[|x l]|]; try discriminate. reflexivity.
Qed.

Lemma loop_ok_inv : forall rank q b, loop_ok rank q b = true ->
  exists body, b = LRecv q :: body /\ prog_ok rank [] body = Some [] /\
               forallb (fun a => negb (is_blocking_comm a)) body = true.
Proof.
  intros rank q b H. unfold loop_ok in H. destruct b as [|a body]; [discriminate|].
  destruct a as [c n|c n|q'|q'|q']; try discriminate.
  apply andb_true_iff in H. destruct H as [H Hnb]. apply andb_true_iff in H. destruct H as [Hq Hbal].
  apply Nat.eqb_eq in Hq. subst q'. exists body. split; [reflexivity|]. split; [apply prog_balanced_ok; exact Hbal|].
  rewrite <- Hnb. apply forallb_ext_local. intros x. destruct x; reflexivity.
Qed.

Lemma cur_prog_cases : forall rank s i t ch a rest,
  lwf rank s -> nth_error (l_threads s) i = Some t -> cur_prog t ch = a :: rest ->
  t_prog t = a :: rest \/
  (t_prog t = [] /\ t_held t = [] /\ t_loop t <> [] /\
   exists q, a = LRecv q /\ prog_ok rank [] rest = Some [] /\
             forallb (fun a => negb (is_blocking_comm a)) rest = true).
Proof.
  intros rank s i t ch a rest Hwf Ht Hc. unfold cur_prog in Hc.
  destruct (t_prog t) as [|a0 p0] eqn:Hp.
  - right.
    assert (Hl : t_loop t <> []).
    { intros E. rewrite E in Hc. destruct ch; simpl in Hc; discriminate. }
    pose proof (lwf_prog _ _ Hwf i t Ht) as Hpr. rewrite Hp in Hpr. simpl in Hpr.
    assert (Hheld : t_held t = []) by (inversion Hpr; reflexivity).
    destruct (lwf_loops _ _ Hwf i t Ht Hl) as [[q Hall] _].
    assert (Hin : In (a :: rest) (t_loop t)).
    { rewrite <- Hc. apply nth_In.
      destruct (Nat.lt_ge_cases ch (length (t_loop t))) as [Hlt|Hge]; [exact Hlt|].
      rewrite nth_overflow in Hc by exact Hge. discriminate. }
    rewrite Forall_forall in Hall. apply Hall in Hin. apply loop_ok_inv in Hin.
    destruct Hin as (body & Heq & Hbal & Hnb). inversion Heq. subst.
    split; [reflexivity|]. split; [exact Hheld|]. split; [exact Hl|].
    exists q. split; [reflexivity|]. split; assumption.
  - left. exact Hc.
Qed.

Arguments cur_prog_cases {rank s i t ch a rest}.

Lemma step_thread_facts : forall rank s i ch t a rest,
  lwf rank s -> nth_error (l_threads s) i = Some t -> cur_prog t ch = a :: rest ->
  prog_ok rank (new_held a (t_held t)) rest = Some [] /\
  (t_loop t <> [] -> forallb (fun a => negb (is_blocking_comm a)) rest = true) /\
  (forall q, In (LSend q) rest -> In (LSend q) (t_prog t)).
Proof.
  intros rank s i ch t a rest Hwf Ht Hc.
  destruct (cur_prog_cases Hwf Ht Hc) as [Hp | (Hp & Hheld & Hl & q0 & Ha & Hbal & Hnb)].
  - pose proof (lwf_prog _ _ Hwf i t Ht) as Hpr. rewrite Hp in Hpr.
    apply prog_ok_cons in Hpr. destruct Hpr as [Hpr _].
    split; [exact Hpr|]. split.
    + intros Hl. destruct (lwf_loops _ _ Hwf i t Ht Hl) as [_ Hnb]. rewrite Hp in Hnb. simpl in Hnb.
      apply andb_true_iff in Hnb. destruct Hnb as [_ Hnb]. exact Hnb.
    + intros q Hin. rewrite Hp. right. exact Hin.
  - subst a. rewrite Hheld. simpl. split; [exact Hbal|]. split; [intros _; exact Hnb|].
    intros q Hin. exfalso. rewrite forallb_forall in Hnb. apply Hnb in Hin. simpl in Hin. discriminate.
Qed.

Arguments step_thread_facts {rank s i ch t a rest}.

(* STATEMENT: an enabled step changes the state (so "enabled" really is progress) and a disabled one does not *)
Lemma lstep_disabled_noop : forall s i ch, lenabled s i ch = false -> lstep s (i, ch) = s.
Proof. exact lstep_disabled_noop_aux. Qed.

(* STATEMENT: well-formedness is preserved by every step of every thread *)
Lemma lwf_step : forall rank s ic, lwf rank s -> lwf rank (lstep s ic).
Proof.
  intros rank s [i ch] Hwf.
  destruct (lenabled s i ch) eqn:Hen; [| rewrite lstep_disabled_noop; assumption].
  destruct (lstep_enabled s i ch Hen) as (t & a & rest & Ht & Hc & Hth & Hcaps).
  destruct (step_thread_facts Hwf Ht Hc) as (Hprog' & Hnb' & Hsend').
  pose proof (lenabled_cur s i ch Ht Hc) as Hact. rewrite Hen in Hact. symmetry in Hact.
  set (t' := {| t_prog := rest; t_loop := t_loop t; t_held := new_held a (t_held t) |}) in *.
  assert (Hnew : forall l, holds t' l = true ->
                   holds t l = true \/ forall tj, In tj (l_threads s) -> holds tj l = false).
  { intros l Hh. apply holds_In in Hh. simpl in Hh. apply new_held_In in Hh.
    destruct Hh as [Hh | (c & n & Ha & Hl)].
    - left. apply holds_In. exact Hh.
    - right. subst a l. simpl in Hact. apply negb_true_iff in Hact.
      intros tj Hin. eapply held_by_any_false; eassumption. }
  constructor.
  - (* disjoint *)
    intros i1 j1 t1 t2 l Hne H1 H2 Hh. rewrite Hth in H1, H2.
    destruct (set_nth_cases Ht H1) as [[E1 E1'] | [Hn1 H1']];
    destruct (set_nth_cases Ht H2) as [[E2 E2'] | [Hn2 H2']].
    + exfalso. apply Hne. congruence.
    + subst i1 t1. destruct (Hnew l Hh) as [Hold | Hnone].
      * exact (lwf_disjoint _ _ Hwf i j1 t t2 l Hne Ht H2' Hold).
      * apply Hnone. eapply nth_error_In. exact H2'.
    + subst j1 t2. destruct (holds t' l) eqn:E; [|reflexivity]. exfalso.
      destruct (Hnew l E) as [Hold | Hnone].
      * pose proof (lwf_disjoint _ _ Hwf i1 i t1 t l Hn1 H1' Ht Hh) as Hf. congruence.
      * assert (Hf : holds t1 l = false) by (apply Hnone; eapply nth_error_In; exact H1'). congruence.
    + exact (lwf_disjoint _ _ Hwf i1 j1 t1 t2 l Hne H1' H2' Hh).
  - (* prog *)
    intros i1 t1 H1. rewrite Hth in H1.
    destruct (set_nth_cases Ht H1) as [[E1 E1'] | [Hn1 H1']].
    + subst t1. exact Hprog'.
    + exact (lwf_prog _ _ Hwf i1 t1 H1').
  - (* loops *)
    intros i1 t1 H1 Hl. rewrite Hth in H1.
    destruct (set_nth_cases Ht H1) as [[E1 E1'] | [Hn1 H1']].
    + subst t1. simpl in Hl. simpl. split.
      * exact (proj1 (lwf_loops _ _ Hwf i t Ht Hl)).
      * apply Hnb'. exact Hl.
    + exact (lwf_loops _ _ Hwf i1 t1 H1' Hl).
  - (* consumers *)
    intros i1 t1 q H1 Hin. rewrite Hth in H1. rewrite Hth.
    assert (Hold : exists i0 t0, nth_error (l_threads s) i0 = Some t0 /\ In (LSend q) (t_prog t0)).
    { destruct (set_nth_cases Ht H1) as [[E1 E1'] | [Hn1 H1']].
      - subst t1. simpl in Hin. exists i, t. split; [exact Ht|]. apply Hsend'. exact Hin.
      - exists i1, t1. split; assumption. }
    destruct Hold as (i0 & t0 & H0 & Hin0).
    destruct (lwf_consumers _ _ Hwf i0 t0 q H0 Hin0) as (j & tj & Hj & Hlj & Hallj).
    destruct (@set_nth_preserve (l_threads s) i t t' j tj Ht eq_refl Hj) as (tj' & Hj' & Hlj').
    exists j, tj'. split; [exact Hj'|]. rewrite Hlj'. split; assumption.
  - (* caps *)
    intros q. unfold qcap. rewrite Hcaps. exact (lwf_caps _ _ Hwf q).
Qed.

(* STATEMENT *)
Lemma lwf_run : forall rank s sched, lwf rank s -> lwf rank (lrun s sched).
Proof.
  intros rank s sched. revert s. unfold lrun. induction sched as [|ic sched IH]; intros s Hwf; simpl.
  - exact Hwf.
  - apply IH. apply lwf_step. exact Hwf.
Qed.

(** * Progress *)

Definition acq_rank (rank : nat -> nat) (t : lthread) : nat :=
  match t_prog t with LAcq c _ :: _ => rank c | _ => 0 end.

Lemma list_max_ge : forall l x, In x l -> x <= list_max l.
Proof.
  intros l. induction l as [|y l IH]; intros x Hin; simpl in *.
  - contradiction.
  - destruct Hin as [Hin|Hin].
    + subst. apply Nat.le_max_l.
    + apply IH in Hin. etransitivity; [exact Hin|]. apply Nat.le_max_r.
Qed.

(** a thread blocked on an acquisition: either some thread is enabled, or the holder is itself about to acquire a lock
    of strictly higher rank *)
Lemma acq_blocked_step : forall rank s i t c k rest,
  lwf rank s -> nth_error (l_threads s) i = Some t -> t_prog t = LAcq c k :: rest ->
  (exists i ch, lenabled s i ch = true) \/
  (exists j tj c' k' rest', nth_error (l_threads s) j = Some tj /\ t_prog tj = LAcq c' k' :: rest' /\ rank c < rank c').
Proof.
  intros rank s i t c k rest Hwf Ht Hp.
  destruct (lenabled s i 0) eqn:Hen; [left; exists i, 0; exact Hen|].
  rewrite (lenabled_cur s i 0 Ht (cur_prog_nonempty t 0 Hp)) in Hen. simpl in Hen.
  apply negb_false_iff in Hen. unfold held_by_any in Hen. apply existsb_exists in Hen.
  destruct Hen as (tj & Hin & Hh). apply In_nth_error in Hin. destruct Hin as [j Hj].
  apply holds_In in Hh.
  pose proof (lwf_prog _ _ Hwf j tj Hj) as Hpr.
  destruct (t_prog tj) as [|a' rest'] eqn:Hpj.
  - simpl in Hpr. inversion Hpr as [Hheld]. rewrite Hheld in Hh. contradiction.
  - apply prog_ok_cons in Hpr. destruct Hpr as [_ Hside].
    destruct a' as [c' k'|c' k'|q|q|q].
    + right. exists j, tj, c', k', rest'. split; [exact Hj|]. split; [exact Hpj|].
      apply Hside in Hh. simpl in Hh. exact Hh.
    + left. exists j, 0. rewrite (lenabled_cur s j 0 Hj (cur_prog_nonempty tj 0 Hpj)). reflexivity.
    + rewrite Hside in Hh. contradiction.
    + left. exists j, 0. rewrite (lenabled_cur s j 0 Hj (cur_prog_nonempty tj 0 Hpj)). reflexivity.
    + rewrite Hside in Hh. contradiction.
Qed.

Arguments acq_blocked_step {rank s i t c k rest}.

Lemma acq_progress : forall rank s, lwf rank s -> forall n i t c k rest,
  nth_error (l_threads s) i = Some t -> t_prog t = LAcq c k :: rest ->
  list_max (map (acq_rank rank) (l_threads s)) - rank c <= n ->
  exists i ch, lenabled s i ch = true.
Proof.
  intros rank s Hwf n. induction n as [|n IH]; intros i t c k rest Ht Hp Hn;
    (destruct (acq_blocked_step Hwf Ht Hp) as [Hdone | (j & tj & c' & k' & rest' & Hj & Hpj & Hlt)]; [exact Hdone|]);
    assert (Hle : rank c' <= list_max (map (acq_rank rank) (l_threads s)))
      by (apply list_max_ge; apply in_map_iff; exists tj; split;
          [unfold acq_rank; rewrite Hpj; reflexivity | eapply nth_error_In; exact Hj]).
  - exfalso. lia.
  - apply (IH j tj c' k' rest' Hj Hpj). lia.
Qed.

(* STATEMENT: ordered locking + queue consumers => no deadlock.  In a well-formed state, if any thread is in the middle of
   something (has a next action other than waiting for work), then some thread can take a step. *)
Lemma ordered_locking_progress : forall rank s, lwf rank s ->
  (exists i t, nth_error (l_threads s) i = Some t /\ lpending t = true) ->
  exists i ch, lenabled s i ch = true.
Proof.
  intros rank s Hwf (i & t & Ht & Hpend).
  unfold lpending in Hpend. destruct (t_prog t) as [|a rest] eqn:Hp; [discriminate|].
  destruct a as [c k|c k|q|q|q].
  - eapply (acq_progress _ _ Hwf). exact Ht. exact Hp. apply le_n.
  - exists i, 0. rewrite (lenabled_cur s i 0 Ht (cur_prog_nonempty t 0 Hp)). reflexivity.
  - destruct (Nat.ltb (qlen s q) (qcap s q)) eqn:Hfull.
    + exists i, 0. rewrite (lenabled_cur s i 0 Ht (cur_prog_nonempty t 0 Hp)). exact Hfull.
    + apply Nat.ltb_ge in Hfull. pose proof (lwf_caps _ _ Hwf q) as Hcap.
      assert (Hin : In (LSend q) (t_prog t)) by (rewrite Hp; left; reflexivity).
      destruct (lwf_consumers _ _ Hwf i t q Ht Hin) as (j & tj & Hj & Hloop & Hall).
      destruct (t_prog tj) as [|a' rest'] eqn:Hpj.
      * destruct (t_loop tj) as [|b bs] eqn:Hl; [exfalso; apply Hloop; reflexivity|].
        inversion Hall as [|b0 bs0 Hb Hbs]. subst b0 bs0.
        apply loop_ok_inv in Hb. destruct Hb as (body & Hbeq & _ & _).
        exists j, 0.
        assert (Hcur : cur_prog tj 0 = LRecv q :: body).
        { unfold cur_prog. rewrite Hpj, Hl. simpl. exact Hbeq. }
        rewrite (lenabled_cur s j 0 Hj Hcur). simpl. apply Nat.ltb_lt. lia.
      * destruct (lwf_loops _ _ Hwf j tj Hj Hloop) as [_ Hnb]. rewrite Hpj in Hnb. simpl in Hnb.
        apply andb_true_iff in Hnb. destruct Hnb as [Ha' _].
        destruct a' as [c' k'|c' k'|q'|q'|q']; try discriminate.
        -- eapply (acq_progress _ _ Hwf). exact Hj. exact Hpj. apply le_n.
        -- exists j, 0. rewrite (lenabled_cur s j 0 Hj (cur_prog_nonempty tj 0 Hpj)). reflexivity.
        -- exists j, 0. rewrite (lenabled_cur s j 0 Hj (cur_prog_nonempty tj 0 Hpj)). reflexivity.
  - exists i, 0. rewrite (lenabled_cur s i 0 Ht (cur_prog_nonempty t 0 Hp)). reflexivity.
  - discriminate.
Qed.

(** the lock programs of CacheD satisfy the discipline (decided by computation over the finite table) *)
(* STATEMENT *)
Lemma cached_lock_programs_ordered :
  forallb (prog_balanced cached_rank) caller_programs = true /\
  forallb (loop_ok cached_rank CmdQueue) worker_loops = true /\
  prog_balanced cached_rank s_sweep = true /\
  loop_ok cached_rank BufQueue c_batch = true /\
  forallb (fun e => Nat.ltb (cached_rank (fst e)) (cached_rank (snd e))) cached_edges = true.
Proof. vm_compute. repeat split. Qed.

(** * The initial system of CacheD *)

Definition th_worker : lthread := {| t_prog := []; t_loop := worker_loops; t_held := [] |}.
Definition th_sweeper : lthread := {| t_prog := []; t_loop := [ [LRecv 2] ++ s_sweep ]; t_held := [] |}.
Definition th_consumer : lthread := {| t_prog := []; t_loop := [c_batch]; t_held := [] |}.

Lemma cached_threads_eq : forall callers cap,
  l_threads (cached_sys callers cap) = map mk_thread callers ++ [th_worker; th_sweeper; th_consumer].
Proof. reflexivity. Qed.

Lemma cached_threads_cases : forall callers cap i t,
  nth_error (l_threads (cached_sys callers cap)) i = Some t ->
  (exists p, In p callers /\ t = mk_thread p) \/ t = th_worker \/ t = th_sweeper \/ t = th_consumer.
Proof.
  intros callers cap i t H. rewrite cached_threads_eq in H. apply nth_error_In in H.
  apply in_app_or in H. destruct H as [H|H].
  - apply in_map_iff in H. destruct H as (p & Hp & Hin). left. exists p. split; [exact Hin|symmetry; exact Hp].
  - right. simpl in H. destruct H as [H|[H|[H|[]]]]; subst; auto.
Qed.

Lemma cached_held_nil : forall callers cap i t,
  nth_error (l_threads (cached_sys callers cap)) i = Some t -> t_held t = [].
Proof.
  intros callers cap i t H. apply cached_threads_cases in H.
  destruct H as [(p & _ & Hp)|[Hp|[Hp|Hp]]]; subst; reflexivity.
Qed.

Definition send_queue_known (a : lact) : bool :=
  match a with LSend q => Nat.eqb q CmdQueue || Nat.eqb q BufQueue | _ => true end.

Lemma caller_sends : forallb (forallb send_queue_known) caller_programs = true.
Proof. vm_compute. reflexivity. Qed.

Lemma nth_error_cached_loop : forall callers cap k t,
  nth_error [th_worker; th_sweeper; th_consumer] k = Some t ->
  nth_error (l_threads (cached_sys callers cap)) (length callers + k) = Some t.
Proof.
  intros callers cap k t H. rewrite cached_threads_eq. rewrite nth_error_app2; rewrite map_length; [|lia].
  replace (length callers + k - length callers) with k by lia. exact H.
Qed.

(* STATEMENT: the initial system of CacheD is well-formed for any number of callers running any of the caller programs
   and any command-queue capacity >= 1 *)
Lemma cached_sys_wf : forall callers cap, 1 <= cap ->
  Forall (fun p => In p caller_programs) callers -> lwf cached_rank (cached_sys callers cap).
Proof.
  intros callers cap Hcap Hcallers. rewrite Forall_forall in Hcallers.
  destruct cached_lock_programs_ordered as (Hbal & Hworker & Hsweep & Hbatch & _).
  constructor.
  - intros i j ti tj l _ _ Hj _. apply cached_held_nil in Hj. unfold holds. rewrite Hj. reflexivity.
  - intros i t Ht. apply cached_threads_cases in Ht. destruct Ht as [(p & Hin & Hp)|[Hp|[Hp|Hp]]]; subst t; try reflexivity.
    simpl. apply prog_balanced_ok. rewrite forallb_forall in Hbal. apply Hbal. apply Hcallers. exact Hin.
  - intros i t Ht Hl. apply cached_threads_cases in Ht. destruct Ht as [(p & Hin & Hp)|[Hp|[Hp|Hp]]]; subst t.
    + exfalso. apply Hl. reflexivity.
    + split; [|reflexivity]. exists CmdQueue. apply Forall_forall. rewrite forallb_forall in Hworker. exact Hworker.
    + split; [|reflexivity]. exists 2. constructor; [vm_compute; reflexivity | constructor].
    + split; [|reflexivity]. exists BufQueue. constructor; [exact Hbatch | constructor].
  - intros i t q Ht Hsend. apply cached_threads_cases in Ht.
    destruct Ht as [(p & Hin & Hp)|[Hp|[Hp|Hp]]]; subst t; simpl in Hsend; try contradiction.
    pose proof caller_sends as Hs. rewrite forallb_forall in Hs. specialize (Hs p (Hcallers p Hin)).
    rewrite forallb_forall in Hs. specialize (Hs _ Hsend). simpl in Hs.
    apply orb_true_iff in Hs. destruct Hs as [Hq|Hq]; apply Nat.eqb_eq in Hq; subst q.
    + exists (length callers + 0), th_worker. split; [apply nth_error_cached_loop; reflexivity|].
      split; [discriminate|]. apply Forall_forall. rewrite forallb_forall in Hworker. exact Hworker.
    + exists (length callers + 2), th_consumer. split; [apply nth_error_cached_loop; reflexivity|].
      split; [discriminate|]. constructor; [exact Hbatch | constructor].
  - intros q. unfold qcap. simpl. destruct q as [|[|[|[|q]]]]; simpl; lia.
Qed.

(* STATEMENT: hence under every interleaving of any number of callers with the worker, the sweeper and the consumer,
   whenever some thread is in the middle of a call or an iteration, some thread can step *)
Lemma cached_no_deadlock : forall callers cap sched, 1 <= cap ->
  Forall (fun p => In p caller_programs) callers ->
  let s := lrun (cached_sys callers cap) sched in
  (exists i t, nth_error (l_threads s) i = Some t /\ lpending t = true) ->
  exists i ch, lenabled s i ch = true.
Proof.
  intros callers cap sched Hcap Hcallers s Hpend.
  apply (@ordered_locking_progress cached_rank s); [|exact Hpend].
  apply lwf_run. apply cached_sys_wf; assumption.
Qed.

(* STATEMENT: the excluded program - a caller that keeps a get_ref guard alive while calling back into the cache - does
   not satisfy the discipline, and it can deadlock even alone: after taking the store shard lock it waits for it for ever *)
Lemma reentrant_get_ref_excluded :
  prog_balanced cached_rank a_get_ref_reentrant = false /\
  let s := lrun (cached_sys [a_get_ref_reentrant] 1) [(0, 0)] in
  (exists t, nth_error (l_threads s) 0 = Some t /\ lpending t = true) /\
  forall ch, lenabled s 0 ch = false.
Proof.
  split; [vm_compute; reflexivity|].
  split.
  - eexists. split; [vm_compute; reflexivity|]. vm_compute. reflexivity.
  - intros ch. vm_compute. reflexivity.
Qed.

Print Assumptions cached_no_deadlock.
Print Assumptions reentrant_get_ref_excluded.
