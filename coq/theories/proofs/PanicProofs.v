(** C17: valid calls never panic or kill a background thread, outside the identified (known) classes. *)
From CacheD.proofs Require Import Defs.
From Coq Require Import ZifyBool.
From CacheD.proofs Require Import AListLemmas InvOps InvCalls InvWorker InvProofs AdmissionProofs ApiProofs Closing.

(** * Helpers that do not mention the definitions of the section *)

(** admission never panics (AdmissionProofs.v, with its section hypotheses discharged) *)
Lemma adm_no_panic : forall cfg orc k id h w s site s' vs,
  wf_config cfg -> Inv cfg s -> 0 < w -> admission cfg orc k id h w s <> (AdPanic site, s', vs).
Proof. close_with admission_no_panic. Qed.

(** observations whose head is not 4 are not panics; every non-panicking return of the model has such a head *)
Lemma do_send_hd : forall cfg tid c s, hd 0 (snd (do_send cfg tid c s)) <> 4.
Proof.
  intros cfg tid c s. destruct (do_send cfg tid c s) as [s' ret] eqn:E.
  apply do_send_spec in E as (_ & [->|[->| ->]]); cbn [snd hd]; lia.
Qed.

Lemma shutdown_chan_hd : forall tid s, hd 0 (snd (shutdown_chan tid s)) <> 4.
Proof.
  intros tid s. unfold shutdown_chan.
  destruct (consumer s); [destruct (Z.of_nat (length (chan s)) <? chan_capacity)|..]; cbn [snd hd]; lia.
Qed.

Lemma shutdown_cmd_hd : forall cfg tid s, hd 0 (snd (shutdown_cmd cfg tid s)) <> 4.
Proof.
  intros cfg tid s. unfold shutdown_cmd.
  destruct (worker s); [destruct (Z.of_nat (length (queue s)) <? c_queue cfg)|..]; try apply shutdown_chan_hd.
  cbn [snd hd]; lia.
Qed.

Lemma call_put_hd : forall cfg tid k v w ttl s, 0 < w -> hd 0 (snd (call_put cfg tid k v w ttl s)) <> 4.
Proof.
  intros cfg tid k v w ttl s Hw. unfold call_put.
  destruct (w <=? 0) eqn:E; [lia|].
  destruct (amem k (store s)); [cbn [snd hd]; lia|].
  cbv zeta. destruct ttl as [t|]; apply do_send_hd.
Qed.

Lemma resume_hd : forall cfg tid s, hd 0 (snd (resume cfg tid s)) <> 4.
Proof.
  intros cfg tid s. unfold resume.
  destruct (alookup tid (blocked s)) as [k|]; [|cbn [snd hd]; lia]. cbv zeta.
  set (s0 := set_blocked s (aremove tid (blocked s))).
  destruct k as [c| |].
  - destruct (worker s0); [destruct (Z.of_nat (length (queue s0)) <? c_queue cfg)|..]; try apply do_send_hd.
    cbn [snd hd]; lia.
  - destruct (worker s0); [destruct (Z.of_nat (length (queue s0)) <? c_queue cfg)|..]; try apply shutdown_cmd_hd.
    cbn [snd hd]; lia.
  - destruct (consumer s0); [destruct (Z.of_nat (length (chan s0)) <? chan_capacity)|..]; try apply shutdown_chan_hd.
    cbn [snd hd]; lia.
Qed.

(** a panic observed on the sweeper / the consumer coincides with that thread becoming Dead *)
Lemma sweep_panic_dead : forall cfg s, hd 0 (snd (sweep cfg s)) = 4 ->
  sweeper s = Alive /\ sweeper (fst (sweep cfg s)) = Dead.
Proof.
  intros cfg s. unfold sweep.
  destruct (sweeper s) eqn:E; try (cbn [snd hd]; intros H; discriminate H).
  cbv zeta.
  match goal with |- context [sweep_entries ?a ?b ?c ?d] => destruct (sweep_entries a b c d) as [s2|site s2|why] end;
    cbn [snd hd fst]; intros H; try discriminate H.
  split; reflexivity.
Qed.

Lemma drain_panic_dead : forall cfg bl s, hd 0 (snd (drain cfg bl s)) = 4 ->
  consumer s = Alive /\ consumer (fst (drain cfg bl s)) = Dead.
Proof.
  intros cfg bl s. unfold drain.
  destruct (consumer s) eqn:E; try (cbn [snd hd]; intros H; discriminate H).
  destruct (chan s) as [|[hs|] rest]; try (cbn [snd hd]; intros H; discriminate H).
  destruct (apply_batch (lfu s) hs bl) as [[l'| |] bl']; [destruct bl'| |];
    cbn [snd hd fst]; intros H; try discriminate H.
  split; reflexivity.
Qed.

(** the worker's ledger deletion (no-op hook) cannot overflow under the invariant *)
Lemma delete_in_range : forall cfg s id wk, Inv cfg s -> alookup id (weights s) = Some wk ->
  i64_min <= used s + - w_weight wk <= i64_max.
Proof.
  intros cfg s id wk HI Hwk.
  pose proof (inv_used_sum _ _ HI) as Hsum. pose proof (inv_used_range _ _ HI) as Hr.
  pose proof (inv_weights_pos _ _ HI id wk Hwk) as Hp.
  rewrite (AListLemmas.weights_sum_aremove id wk (weights s) (inv_weights_nodup _ _ HI) Hwk) in Hsum.
  assert (H0 : 0 <= weights_sum (aremove id (weights s))).
  { apply AdmissionProofs.weights_sum_nonneg.
    - apply NoDup_aremove. exact (inv_weights_nodup _ _ HI).
    - apply wpos_aremove. exact (inv_weights_pos _ _ HI). }
  unfold i64_min. lia.
Qed.

Section Panic.
(** proved in InvProofs.v; discharged by [close_with] *)
Hypothesis evict_inv : forall cfg s id s', wf_config cfg -> Inv cfg s -> weights_delete cfg id true s = Ok s' -> Inv cfg s'.
Hypothesis evict_no_panic : forall cfg s id, wf_config cfg -> Inv cfg s -> exists s', weights_delete cfg id true s = Ok s'.
Hypothesis step_inv : forall cfg s ev, wf_config cfg -> Inv cfg s -> valid_event ev ->
  worker (step_state cfg s ev) <> Dead -> Inv cfg (step_state cfg s ev).
Hypothesis init_inv : forall cfg, wf_config cfg -> Inv cfg (init cfg).
Hypothesis dead_stays : forall cfg s ev, worker s = Dead -> worker (step_state cfg s ev) = Dead.

(** the weight put_or_update would queue for a present key when none is given or recomputed *)
Definition adjusted_weight (cfg : config) (s : state) (e : entry) (ttl : option Z) (rm : bool) : option Z :=
  let old := match alookup (e_id e) (weights s) with Some wk => w_weight wk | None => 0 end in
  let new_exp := if rm then None else match ttl with Some t => Some (now s + t) | None => e_exp e end in
  match type_of_expiry_update (e_exp e) new_exp with
  | XAdded _ => Some (old + ttl_entry_size)
  | XDeleted _ => Some (old - ttl_entry_size)
  | _ => None
  end.

(** The identified classes of events that can panic although their arguments are valid (each is a known finding or a
    documented precondition):
    - an upsert without value on a physically absent key (documented: it turns into a put and must carry a value);
    - a time-to-live so large that now + ttl leaves SystemTime (caller for upserts, worker for puts);
    - an upsert that adds / removes a time-to-live without giving a weight or value, when the adjusted charge
      (old +- 24) is not positive or leaves i64;
    - an UpdateWeight whose new total leaves i64 (same root as the missing bound check of C01). *)
Definition risky (cfg : config) (s : state) (ev : event) : Prop :=
  match ev with
  | ECall _ (RUpsert k v w ttl rm) _ =>
      match alookup k (store s) with
      | None => v = None
      | Some e =>
          (exists t, ttl = Some t /\ rm = false /\ calc_expiry (now s) t = None) \/
          (v = None /\ w = None /\
             exists x, adjusted_weight cfg s e ttl rm = Some x /\ (x <= 0 \/ in_i64 x = false))
      end
  | EWorker _ =>
      match worker s, queue s with
      | Alive, (CPutTTL _ _ _ _ _ ttl, _) :: _ => calc_expiry (now s) ttl = None
      | Alive, (CUpdateWeight id w, _) :: _ =>
          match alookup id (weights s) with
          | Some wk => in_i64 (used s + (w - w_weight wk)) = false
          | None => False
          end
      | _, _ => False
      end
  | _ => False
  end.

Definition served_val (k : Z) (s : state) : Z := match lookup_alive k s with Some e => e_val e | None => -1 end.

Definition is_panic (ret : list Z) : Prop := exists site, ret = [4; site].

Lemma hd_not_panic : forall ret, hd 0 ret <> 4 -> ~ is_panic ret.
Proof. intros ret H [site E]. subst ret. apply H. reflexivity. Qed.

Lemma panic_hd : forall ret, is_panic ret -> hd 0 ret = 4.
Proof. intros ret [site E]. subst ret. reflexivity. Qed.

Lemma ups_tail_pos_hd : forall cfg tid id s2 x, 0 < x -> hd 0 (snd (ups_tail cfg tid id s2 (Some (Some x)))) <> 4.
Proof.
  intros cfg tid id s2 x Hx. unfold ups_tail. destruct (x <=? 0) eqn:E; [lia|]. apply do_send_hd.
Qed.

Lemma call_upsert_hd : forall cfg tid k v w ttl rm idxs s,
  valid_request (RUpsert k v w ttl rm) -> ~ risky cfg s (ECall tid (RUpsert k v w ttl rm) idxs) ->
  hd 0 (snd (call_upsert cfg tid k v w ttl rm s)) <> 4.
Proof.
  intros cfg tid k v w ttl rm idxs s Hval Hnr. cbn [risky] in Hnr. cbn [valid_request] in Hval.
  destruct Hval as (_ & _ & Hwpos & _).
  destruct (alookup k (store s)) as [e|] eqn:El.
  - rewrite (call_upsert_present_eq cfg tid k v w ttl rm s e El).
    assert (Huw : forall x, upsert_weight cfg k v w ttl = Some x -> 0 < x).
    { intros x. unfold upsert_weight. destruct w as [y|].
      - intros H. inversion H; subst. apply Hwpos. reflexivity.
      - destruct v as [val|]; [|discriminate]. intros H. inversion H; subst. apply weight_calc_pos. }
    assert (Hce : forall t, ttl = Some t -> rm = false -> calc_expiry (now s) t = Some (now s + t)).
    { intros t Ht Hrm. unfold calc_expiry. cbv zeta.
      destruct ((now s + t) / ns_per_sec <=? i64_max) eqn:E; [reflexivity|].
      exfalso. apply Hnr. left. exists t. split; [exact Ht|]. split; [exact Hrm|].
      unfold calc_expiry. cbv zeta. rewrite E. reflexivity. }
    assert (Hadj : v = None -> w = None -> forall x, adjusted_weight cfg s e ttl rm = Some x -> 0 < x /\ in_i64 x = true).
    { intros Hv Hw0 x Hx.
      assert (Hn : ~ (x <= 0 \/ in_i64 x = false)).
      { intros Hbad. apply Hnr. right. split; [exact Hv|]. split; [exact Hw0|]. exists x. split; assumption. }
      split.
      - destruct (Z.ltb_spec 0 x) as [Hlt|Hge]; [exact Hlt|]. exfalso. apply Hn. left. exact Hge.
      - destruct (in_i64 x) eqn:Ei; [reflexivity|]. exfalso. apply Hn. right. reflexivity. }
    rewrite (ups_new_exp_o_ok rm ttl e s Hce).
    unfold adjusted_weight in Hadj. cbv zeta in Hadj. unfold ups_uw'.
    set (new_exp := if rm then None else match ttl with Some t => Some (now s + t) | None => e_exp e end) in *.
    set (old := match alookup (e_id e) (weights s) with Some wk => w_weight wk | None => 0 end) in *.
    set (s2 := ups_s2 cfg k v e new_exp s).
    destruct (upsert_weight cfg k v w ttl) as [x|] eqn:Eu.
    + assert (Hx : 0 < x) by (apply Huw; reflexivity).
      destruct (type_of_expiry_update (e_exp e) new_exp); apply ups_tail_pos_hd; exact Hx.
    + assert (Hv : v = None /\ w = None).
      { unfold upsert_weight in Eu. destruct w as [y|]; [discriminate Eu|]. destruct v as [val|]; [discriminate Eu|].
        split; reflexivity. }
      destruct Hv as [Hv Hw0]. specialize (Hadj Hv Hw0).
      destruct (type_of_expiry_update (e_exp e) new_exp) as [|n|o|o n].
      * cbn [ups_tail snd hd]. lia.
      * destruct (Hadj _ eq_refl) as [Hp Hi]. unfold add_i64. rewrite Hi. apply ups_tail_pos_hd. exact Hp.
      * destruct (Hadj _ eq_refl) as [Hp Hi]. unfold add_i64.
        replace (old + - ttl_entry_size) with (old - ttl_entry_size) by lia.
        rewrite Hi. apply ups_tail_pos_hd. exact Hp.
      * cbn [ups_tail snd hd]. lia.
  - unfold call_upsert. rewrite El. cbv zeta.
    destruct v as [val|]; [|exfalso; apply Hnr; reflexivity].
    destruct w as [x|]; cbv beta iota.
    + pose proof (Hwpos x eq_refl) as Hx. destruct (x <=? 0) eqn:E; [lia|].
      destruct ttl as [t|]; apply do_send_hd.
    + pose proof (weight_calc_pos (c_wcalc cfg) k val (match ttl with Some _ => true | None => false end)) as Hx.
      destruct (weight_calc (c_wcalc cfg) k val (match ttl with Some _ => true | None => false end) <=? 0) eqn:E; [lia|].
      destruct ttl as [t|]; apply do_send_hd.
Qed.

Lemma call_hd : forall cfg tid r idxs s, valid_request r -> ~ risky cfg s (ECall tid r idxs) ->
  hd 0 (snd (call cfg tid r idxs s)) <> 4.
Proof.
  intros cfg tid r idxs s Hval Hnr. unfold call.
  destruct (amem tid (blocked s)); [cbn [snd hd]; lia|].
  destruct r as [k v|k v w|k v ttl|k v w ttl|k v w ttl rm|k|k|k|k|k|ks|ks|ks| | |].
  - cbv zeta. pose proof (weight_calc_pos (c_wcalc cfg) k v false) as Hp.
    destruct (weight_calc (c_wcalc cfg) k v false <=? 0) eqn:E; [lia|].
    destruct (shut s); [cbn [snd hd]; lia|]. apply call_put_hd. exact Hp.
  - cbn [valid_request] in Hval. destruct (shut s); [cbn [snd hd]; lia|]. apply call_put_hd. exact Hval.
  - destruct (shut s); [cbn [snd hd]; lia|]. apply call_put_hd. apply weight_calc_pos.
  - cbn [valid_request] in Hval. destruct (shut s); [cbn [snd hd]; lia|]. apply call_put_hd. apply Hval.
  - destruct (shut s); [cbn [snd hd]; lia|]. apply (call_upsert_hd cfg tid k v w ttl rm idxs s Hval Hnr).
  - destruct (shut s); [cbn [snd hd]; lia|]. cbv zeta. apply do_send_hd.
  - destruct (shut s); [cbn [snd hd]; lia|].
    destruct (read_one cfg k idxs s) as [[[v s'] [|i l]]|]; try (cbn [snd hd]; lia).
    destruct (v =? -1); cbn [snd hd]; lia.
  - destruct (shut s); [cbn [snd hd]; lia|].
    destruct (read_one cfg k idxs s) as [[[v s'] [|i l]]|]; try (cbn [snd hd]; lia).
    destruct (v =? -1); cbn [snd hd]; lia.
  - destruct (shut s); [cbn [snd hd]; lia|].
    destruct (read_one cfg k idxs s) as [[[v s'] [|i l]]|]; try (cbn [snd hd]; lia).
    destruct (v =? -1); cbn [snd hd]; lia.
  - destruct (shut s); [cbn [snd hd]; lia|].
    destruct (read_one cfg k idxs s) as [[[v s'] [|i l]]|]; try (cbn [snd hd]; lia).
    destruct (v =? -1); cbn [snd hd]; lia.
  - destruct (shut s); [cbn [snd hd]; lia|].
    destruct (read_many cfg ks idxs s) as [[[vs s'] [|i l]]|]; cbn [snd hd]; lia.
  - destruct (shut s); [cbn [snd hd]; lia|].
    destruct (read_many cfg ks idxs s) as [[[vs s'] [|i l]]|]; cbn [snd hd]; lia.
  - destruct (shut s); [cbn [snd hd]; lia|].
    destruct (read_many cfg ks idxs s) as [[[vs s'] [|i l]]|]; cbn [snd hd]; lia.
  - cbn [snd hd]; lia.
  - cbv zeta. cbn [snd hd]; lia.
  - destruct (shut s); [cbn [snd hd]; lia|]. apply shutdown_cmd_hd.
Qed.

Ltac wk_alive H := intros _; cbn [fst]; sred; rewrite H; discriminate.

Lemma worker_step_safe : forall cfg orc s, wf_config cfg -> Inv cfg s -> ~ risky cfg s (EWorker orc) ->
  hd 0 (snd (worker_step cfg orc s)) <> 4 /\ (worker s <> Dead -> worker (fst (worker_step cfg orc s)) <> Dead).
Proof.
  intros cfg orc s Hwf HI Hnr. pose proof (wf_debug _ Hwf) as Hd.
  cbn [risky] in Hnr. unfold worker_step.
  destruct (worker s) eqn:Ew;
    try (split; [cbn [snd hd]; lia|intros H; cbn [fst]; rewrite Ew; exact H]).
  destruct (queue s) as [|[c a] q] eqn:Eq;
    [split; [cbn [snd hd]; lia|intros H; cbn [fst]; rewrite Ew; exact H]|].
  destruct (inv_pop_queue _ _ _ _ _ HI Eq) as (HI0 & Hcw & _).
  assert (Hw0 : worker (set_queue s q) = Alive) by exact Ew.
  cbv zeta.
  destruct c as [k v id h w|k v id h w ttl|k|id w|]; cbv beta iota in Hnr.
  - (* Put *)
    cbn [cmd_weight_ok] in Hcw.
    destruct (amem k (store (set_queue s q))); [split; [cbn [snd hd]; lia|wk_alive Ew]|].
    destruct (admission cfg orc k id h w (set_queue s q)) as [[r s1] vs] eqn:Ea.
    destruct (admission_frame _ _ _ _ _ _ _ _ _ _ Ea) as (_ & _ & _ & _ & _ & Fw & _ & _ & Fn & _).
    assert (Hw1 : worker s1 = Alive) by (rewrite Fw; exact Hw0).
    destruct r as [x|site|why].
    + destruct x as [| |rr|]; (split; [cbn [snd hd]; lia|wk_alive Hw1]).
    + exfalso. exact (adm_no_panic _ _ _ _ _ _ _ _ _ _ Hwf HI0 Hcw Ea).
    + split; [cbn [snd hd]; lia|intros _; cbn [fst]; rewrite Ew; discriminate].
  - (* PutWithTTL *)
    cbn [cmd_weight_ok] in Hcw.
    destruct (amem k (store (set_queue s q))); [split; [cbn [snd hd]; lia|wk_alive Ew]|].
    destruct (admission cfg orc k id h w (set_queue s q)) as [[r s1] vs] eqn:Ea.
    destruct (admission_frame _ _ _ _ _ _ _ _ _ _ Ea) as (_ & _ & _ & _ & _ & Fw & _ & _ & Fn & _).
    assert (Hw1 : worker s1 = Alive) by (rewrite Fw; exact Hw0).
    destruct r as [x|site|why].
    + destruct x as [| |rr|]; try (split; [cbn [snd hd]; lia|wk_alive Hw1]).
      destruct (calc_expiry (now s1) ttl) as [ex|] eqn:Ece.
      * split; [cbn [snd hd]; lia|wk_alive Hw1].
      * exfalso. apply Hnr. rewrite Fn in Ece. exact Ece.
    + exfalso. exact (adm_no_panic _ _ _ _ _ _ _ _ _ _ Hwf HI0 Hcw Ea).
    + split; [cbn [snd hd]; lia|intros _; cbn [fst]; rewrite Ew; discriminate].
  - (* Delete *)
    destruct (alookup k (store (set_queue s q))) as [e|] eqn:Ee; [|split; [cbn [snd hd]; lia|wk_alive Ew]].
    destruct (store_delete_fields k (set_queue s q)) as (Sw & Su & _ & _ & _ & _ & Swk).
    unfold weights_delete. rewrite Sw.
    destruct (alookup (e_id e) (weights (set_queue s q))) as [wk|] eqn:Ewk.
    + cbv zeta. cbn [used set_weights]. rewrite Su.
      rewrite add_i64_in_range by (exact (delete_in_range cfg (set_queue s q) (e_id e) wk HI0 Ewk)).
      destruct (e_exp e) as [x|]; (split; [cbn [snd hd]; lia|intros _; cbn [fst]; sred; rewrite Swk; rewrite Hw0; discriminate]).
    + destruct (e_exp e) as [x|]; (split; [cbn [snd hd]; lia|intros _; cbn [fst]; sred; rewrite Swk; rewrite Hw0; discriminate]).
  - (* UpdateWeight *)
    unfold weights_update.
    change (weights (set_queue s q)) with (weights s). change (used (set_queue s q)) with (used s).
    destruct (alookup id (weights s)) as [wk|] eqn:Ewk.
    + destruct (in_i64 (used s + (w - w_weight wk))) eqn:Ei; [|exfalso; apply Hnr; reflexivity].
      unfold add_i64. rewrite Ei. split; [cbn [snd hd]; lia|wk_alive Ew].
    + split; [cbn [snd hd]; lia|wk_alive Ew].
  - (* Shutdown *)
    split; [cbn [snd hd]; lia|intros _; cbn [fst]; sred; discriminate].
Qed.

(* STATEMENT: from a state satisfying the invariant, a valid event outside the identified classes does not panic in the
   caller and kills neither the worker, nor the sweeper, nor the consumer; and the invariant carries on *)
Lemma valid_calls_never_panic : forall cfg s ev, wf_config cfg -> Inv cfg s -> valid_event ev ->
  ~ risky cfg s ev ->
  ~ is_panic (snd (step cfg s ev)) /\
  (worker s <> Dead -> worker (step_state cfg s ev) <> Dead) /\
  (sweeper s <> Dead -> sweeper (step_state cfg s ev) <> Dead) /\
  (consumer s <> Dead -> consumer (step_state cfg s ev) <> Dead).
Proof.
  intros cfg s ev Hwf HI Hval Hnr.
  destruct (inv_background_alive cfg s ev Hwf HI Hval) as [Hsw Hco].
  destruct ev as [tid r idxs|tid|orc| |bl|dt|a].
  - (* API call *)
    destruct (call_roles cfg tid r idxs s) as (R1 & _ & _).
    split; [apply hd_not_panic; cbn [step]; apply call_hd; assumption|].
    split; [|split; assumption].
    unfold step_state. cbn [step]. rewrite R1. auto.
  - (* resumption of a parked caller *)
    destruct (resume_roles cfg tid s) as (R1 & _ & _).
    split; [apply hd_not_panic; cbn [step]; apply resume_hd|].
    split; [|split; assumption].
    unfold step_state. cbn [step]. rewrite R1. auto.
  - (* worker *)
    destruct (worker_step_safe cfg orc s Hwf HI Hnr) as [Hh Hw].
    split; [apply hd_not_panic; cbn [step]; exact Hh|].
    split; [|split; assumption].
    unfold step_state. cbn [step]. exact Hw.
  - (* sweeper *)
    destruct (sweep_bg cfg s) as (R1 & _).
    split; [|split; [|split; assumption]].
    + intros Hp. apply panic_hd in Hp. cbn [step] in Hp.
      destruct (sweep_panic_dead cfg s Hp) as [Ha Hdd].
      apply Hsw; [rewrite Ha; discriminate|exact Hdd].
    + unfold step_state. cbn [step]. rewrite R1. auto.
  - (* consumer *)
    destruct (drain_bg cfg bl s) as (R1 & _).
    split; [|split; [|split; assumption]].
    + intros Hp. apply panic_hd in Hp. cbn [step] in Hp.
      destruct (drain_panic_dead cfg bl s Hp) as [Ha Hdd].
      apply Hco; [rewrite Ha; discriminate|exact Hdd].
    + unfold step_state. cbn [step]. rewrite R1. auto.
  - (* clock *)
    split; [apply hd_not_panic; cbn [step snd hd]; lia|].
    split; [|split; assumption]. unfold step_state. cbn [step fst]. auto.
  - (* poll *)
    split; [apply hd_not_panic; cbn [step snd]; destruct (alookup a (acks s)); cbn [hd]; lia|].
    split; [|split; assumption]. unfold step_state. cbn [step fst]. auto.
Qed.

Lemma valid_runs_from : forall evs cfg s, wf_config cfg -> Inv cfg s ->
  worker s <> Dead -> sweeper s <> Dead -> consumer s <> Dead ->
  Forall valid_event evs ->
  Forall (fun p => ~ risky cfg (fst p) (snd p)) (visits cfg s evs) ->
  Forall (fun p => ~ is_panic (snd (step cfg (fst p) (snd p)))) (visits cfg s evs) /\
  worker (run_from cfg s evs) <> Dead /\
  sweeper (run_from cfg s evs) <> Dead /\
  consumer (run_from cfg s evs) <> Dead.
Proof.
  induction evs as [|ev t IH]; intros cfg s Hwf HI Hw Hs Hc Hval Hnr.
  - cbn [visits]. split; [constructor|]. unfold run_from. cbn [fold_left]. repeat split; assumption.
  - inversion Hval as [|x xs Hev Ht]; subst. cbn [visits] in Hnr |- *.
    inversion Hnr as [|y ys Hr Hrt]; subst. cbn [fst snd] in Hr.
    destruct (valid_calls_never_panic cfg s ev Hwf HI Hev Hr) as (Hp & Hw' & Hs' & Hc').
    assert (HI' : Inv cfg (step_state cfg s ev)) by (apply inv_step; auto).
    destruct (IH cfg (step_state cfg s ev) Hwf HI' (Hw' Hw) (Hs' Hs) (Hc' Hc) Ht Hrt) as (G1 & G2 & G3 & G4).
    split; [constructor; [cbn [fst snd]; exact Hp|exact G1]|].
    unfold run_from in *. cbn [fold_left]. repeat split; assumption.
Qed.


(* STATEMENT: along every run of valid events that never meets a risky event, nothing ever panics and all three
   background threads stay alive (not Dead) *)
Lemma valid_runs_never_panic : forall evs cfg, wf_config cfg -> Forall valid_event evs ->
  Forall (fun p => ~ risky cfg (fst p) (snd p)) (visits cfg (init cfg) evs) ->
  Forall (fun p => ~ is_panic (snd (step cfg (fst p) (snd p)))) (visits cfg (init cfg) evs) /\
  worker (run_from cfg (init cfg) evs) <> Dead /\
  sweeper (run_from cfg (init cfg) evs) <> Dead /\
  consumer (run_from cfg (init cfg) evs) <> Dead.
Proof.
  intros evs cfg Hwf Hval Hnr.
  apply valid_runs_from; try assumption.
  - apply inv_init. exact Hwf.
  - cbn [init worker]. discriminate.
  - cbn [init sweeper]. discriminate.
  - cbn [init consumer]. discriminate.
Qed.

(* STATEMENT: the cache keeps serving afterwards: with a live worker, a non-full queue and no shutdown, a valid put of
   an absent key is queued, and a worker step on a fitting put answers it Accepted *)
Lemma still_serves : forall cfg s tid k v w orc,
  wf_config cfg -> Inv cfg s -> worker s = Alive -> shut s = false -> amem tid (blocked s) = false ->
  queue s = [] -> alookup k (store s) = None -> 0 < w -> w <= c_max cfg - used s ->
  let s1 := step_state cfg s (ECall tid (RPutW k v w) []) in
  snd (step cfg s (ECall tid (RPutW k v w) [])) = [0; next_ack s] /\
  let s2 := step_state cfg s1 (EWorker orc) in
  alookup (next_ack s) (acks s2) = Some Accepted /\ served_val k s2 = v /\ worker s2 = Alive.
Proof.
  intros cfg s tid k v w orc Hwf HI Hw Hsh Hb Hq Hk Hwp Hfit. cbv zeta.
  pose proof (inv_used_nonneg _ _ HI) as Hu. pose proof (wf_queue _ Hwf) as Hcq.
  assert (Hm : amem k (store s) = false) by (apply amem_false_iff; exact Hk).
  set (c := CPut k v (next_id s) (key_hash (c_hash cfg) k) w).
  set (s1 := set_next_ack (set_acks (set_queue (set_next_id s (next_id s + 1)) [(c, next_ack s)])
                                    (aset (next_ack s) Pending (acks s))) (next_ack s + 1)).
  assert (E1 : step cfg s (ECall tid (RPutW k v w) []) = (s1, [0; next_ack s])).
  { cbn [step]. unfold call. rewrite Hb, Hsh. unfold call_put. destruct (w <=? 0) eqn:E; [lia|]. rewrite Hm.
    cbv zeta. unfold do_send. sred. rewrite Hw, Hq. cbn [length app].
    destruct (Z.of_nat 0 <? c_queue cfg) eqn:E2; [reflexivity|lia]. }
  unfold step_state. rewrite E1. cbn [fst snd]. split; [reflexivity|].
  assert (Hw1 : worker s1 = Alive) by exact Hw.
  assert (Hq1 : queue s1 = [(c, next_ack s)]) by reflexivity.
  assert (Hm1 : amem k (store (set_queue s1 [])) = false) by exact Hm.
  assert (Hu1 : 0 <= used (set_queue s1 [])) by exact Hu.
  assert (Hfit1 : w <= c_max cfg - used (set_queue s1 [])) by exact Hfit.
  assert (E2 : fst (step cfg s1 (EWorker orc)) =
               set_ack (next_ack s) Accepted
                 (store_insert k v (next_id s) None
                    (charged k (next_id s) (key_hash (c_hash cfg) k) w (set_queue s1 [])))).
  { cbn [step]. unfold worker_step. rewrite Hw1, Hq1. cbv zeta. unfold c. cbv beta iota. rewrite Hm1.
    rewrite (admission_fits cfg orc k (next_id s) (key_hash (c_hash cfg) k) w (set_queue s1 []) Hwf Hu1 Hwp Hfit1).
    reflexivity. }
  rewrite E2. split; [|split].
  - apply set_ack_lookup.
  - unfold served_val, lookup_alive, charged. sred. rewrite alookup_aset_eq. unfold is_alive. cbn [e_soft e_exp e_val].
    reflexivity.
  - unfold charged. sred. exact Hw.
Qed.

(** the known findings as witnesses *)
Definition p_cfg : config :=
  {| c_max := 100; c_counters := 16; c_shards := 2; c_queue := 8; c_pool := 1; c_buffer := 2; c_hash := 0; c_wcalc := 1;
     c_seeds := [1; 2; 3; 4]; c_t0 := 1000000000000; c_debug := true |}.
Definition p_orc : worker_oracle := {| o_orders := []; o_pops := []; o_bloom := [] |}.

(* STATEMENT: D7 — remove_time_to_live on a key charged 10: the caller panics after store and index were changed *)
Lemma C17_refuted_remove_ttl_small_weight :
  let evs := [ECall 0 (RPutWTTL 1 1001 10 5000000000) []; EWorker p_orc] in
  let s := run_from p_cfg (init p_cfg) evs in
  Forall valid_event (evs ++ [ECall 0 (RUpsert 1 None None None true) []]) /\
  snd (step p_cfg s (ECall 0 (RUpsert 1 None None None true) [])) = [4; site_upsert_weight].
Proof.
  intros evs s. split.
  - subst evs. cbn [app]. repeat apply Forall_cons; try apply Forall_nil; cbn [valid_event valid_request].
    + lia.
    + exact I.
    + split; [right; right; right; reflexivity|].
      split; [intros [H _]; apply H; reflexivity|].
      split; intros x H; discriminate H.
  - subst s evs. vm_compute. reflexivity.
Qed.

(* STATEMENT: D9 — a put whose time-to-live overflows SystemTime kills the worker *)
Lemma C17_refuted_ttl_overflow :
  let evs := [ECall 0 (RPutWTTL 1 1001 5 18446744073709551615999999999) []; EWorker p_orc] in
  Forall valid_event evs /\ worker (run_from p_cfg (init p_cfg) evs) = Dead.
Proof.
  intros evs. split.
  - subst evs. repeat apply Forall_cons; try apply Forall_nil; cbn [valid_event valid_request].
    + lia.
    + exact I.
  - subst evs. vm_compute. reflexivity.
Qed.

End Panic.

Print Assumptions valid_calls_never_panic.
Print Assumptions valid_runs_never_panic.
Print Assumptions still_serves.
