(** C05, first half, at every state of every micro schedule before shutdown(): no weight stays charged for a key that is
    gone.  Every charged id is the id of the stored entry of its key - except the one id the worker has in flight
    (let in and charged but not yet inserted; removed from the store but not yet released), whose key is then not
    occupied by anybody else.  [Inv] states this without the exception and is false inside those windows. *)
From CacheD Require Import Base Sketch Model Window Micro.
From CacheD.proofs Require Import Defs AListLemmas InvLemmas InvOps InvCalls InvWorker InvProofs ApiProofs HistoryProofs
                                  StatsProofs MicroLedger MicroAll.
From Coq Require Import ZifyBool.

Definition idof (s : state) (k : Z) : option Z := option_map e_id (alookup k (store s)).

(** what the worker has in flight: the id, and for a put the key it is about to insert *)
Record fl := { f_id : option Z; f_key : option Z }.
Definition fnone : fl := {| f_id := None; f_key := None |}.
Definition fl_of (ms : mstate) : fl :=
  match wdel ms with
  | Some (WDStore _ id _) => {| f_id := Some id; f_key := None |}
  | Some (WPCharged _ k _ id _ _) => {| f_id := Some id; f_key := Some k |}
  | _ => fnone
  end.

Record SI (s : state) (f : fl) : Prop := {
  si_charged : forall id wk, alookup id (weights s) = Some wk ->
      idof s (w_key wk) = Some id \/ (f_id f = Some id /\ idof s (w_key wk) = None);
  si_key : forall k, f_key f = Some k -> idof s k = None;
  si_flight_key : forall k id wk, f_key f = Some k -> f_id f = Some id -> alookup id (weights s) = Some wk -> w_key wk = k
}.

(** ** frames *)
Definition kf (s s' : state) : Prop := weights s' = weights s /\ forall k, idof s' k = idof s k.

Lemma kf_refl : forall s, kf s s.
Proof. intros s. split; reflexivity. Qed.
Lemma kf_trans : forall a b c, kf a b -> kf b c -> kf a c.
Proof. intros a b c [W1 I1] [W2 I2]. split; [congruence|]. intros k. rewrite I2. apply I1. Qed.
Lemma kf_store : forall s s', store s' = store s -> weights s' = weights s -> kf s s'.
Proof. intros s s' Hs Hw. split; [exact Hw|]. intros k. unfold idof. rewrite Hs. reflexivity. Qed.

Lemma SI_kf : forall s s' f, kf s s' -> SI s f -> SI s' f.
Proof.
  intros s s' f [Hw Hi] [C1 C2 C4]. constructor.
  - intros id wk H. rewrite Hw in H. rewrite !Hi. exact (C1 id wk H).
  - intros k H. rewrite Hi. exact (C2 k H).
  - intros k id wk H1 H2 H. rewrite Hw in H. exact (C4 k id wk H1 H2 H).
Qed.

Lemma idof_aset_same_id : forall s k e e', alookup k (store s) = Some e -> e_id e' = e_id e ->
  forall k0, option_map e_id (alookup k0 (aset k e' (store s))) = idof s k0.
Proof.
  intros s k e e' Hl He k0. unfold idof. rewrite alookup_aset. destruct (Z.eqb_spec k0 k) as [->|Hne]; [|reflexivity].
  rewrite Hl. cbn. congruence.
Qed.

(** ** the primitives *)
Lemma idof_store_delete : forall k s k0, idof (store_delete k s) k0 = if k0 =? k then None else idof s k0.
Proof.
  intros k s k0. unfold store_delete, idof.
  destruct (alookup k (store s)) as [e|] eqn:E.
  - cbn [store set_store upd_st set_st]. rewrite alookup_aremove. destruct (k0 =? k); reflexivity.
  - destruct (Z.eqb_spec k0 k) as [->|Hne]; [rewrite E; reflexivity|reflexivity].
Qed.

Lemma weights_store_delete : forall k s, weights (store_delete k s) = weights s.
Proof. intros k s. unfold store_delete. destruct (alookup k (store s)); reflexivity. Qed.

(** releasing a charge (with or without the store hook) keeps the invariant, whatever is in flight *)
Lemma weights_delete_SI : forall cfg id hook s f, SI s f ->
  match weights_delete cfg id hook s with Ok s' | Panic _ s' => SI s' f | Inadmissible _ => True end.
Proof.
  intros cfg id hook s f [C1 C2 C4]. unfold weights_delete.
  destruct (alookup id (weights s)) as [wk|] eqn:Hwk; [|constructor; assumption].
  cbv zeta.
  assert (Hrm : forall s1, weights s1 = aremove id (weights s) -> (forall k, idof s1 k = idof s k) -> SI s1 f).
  { intros s1 Hw Hi. constructor.
    - intros id' wk' H. rewrite Hw, alookup_aremove in H. destruct (id' =? id); [discriminate|]. rewrite !Hi. exact (C1 _ _ H).
    - intros k H. rewrite Hi. exact (C2 k H).
    - intros k id' wk' H1 H2 H. rewrite Hw, alookup_aremove in H. destruct (id' =? id); [discriminate|]. exact (C4 _ _ _ H1 H2 H). }
  assert (Hrmh : forall s1, weights s1 = aremove id (weights s) ->
                 (forall k, idof s1 k = if k =? w_key wk then None else idof s k) -> SI s1 f).
  { intros s1 Hw Hi. constructor.
    - intros id' wk' H. rewrite Hw, alookup_aremove in H. destruct (Z.eqb_spec id' id) as [|Hne]; [discriminate|].
      rewrite !Hi. destruct (Z.eqb_spec (w_key wk') (w_key wk)) as [Hk|Hk].
      + exfalso. destruct (C1 _ _ H) as [H1|[H1 H2]]; destruct (C1 _ _ Hwk) as [G1|[G1 G2]]; rewrite Hk in *; congruence.
      + exact (C1 _ _ H).
    - intros k H. rewrite Hi. destruct (k =? w_key wk); [reflexivity|exact (C2 k H)].
    - intros k id' wk' H1 H2 H. rewrite Hw, alookup_aremove in H. destruct (id' =? id); [discriminate|]. exact (C4 _ _ _ H1 H2 H). }
  destruct (add_i64 cfg _ _) as [u|].
  - destruct hook.
    + apply Hrmh.
      * change (weights (upd_st ?f ?x ?y)) with (weights y). rewrite weights_store_delete. reflexivity.
      * intros k. change (idof (upd_st ?f ?x ?y) k) with (idof y k). rewrite idof_store_delete. reflexivity.
    + apply Hrm; [reflexivity|intros k; reflexivity].
  - apply Hrm; [reflexivity|intros k; reflexivity].
Qed.

Lemma weights_update_SI : forall cfg id w s f, SI s f ->
  match weights_update cfg id w s with Ok s' | Panic _ s' => SI s' f | Inadmissible _ => True end.
Proof.
  intros cfg id w s f [C1 C2 C4]. unfold weights_update.
  destruct (alookup id (weights s)) as [wk|] eqn:Hwk; [|constructor; assumption].
  destruct (add_i64 cfg (used s) (w - w_weight wk)) as [u|]; [|constructor; assumption].
  constructor; sred.
  - intros id' wk' H. rewrite alookup_aset in H. destruct (Z.eqb_spec id' id) as [->|Hne].
    + inversion H; subst wk'. cbn [w_key]. exact (C1 _ _ Hwk).
    + exact (C1 _ _ H).
  - exact C2.
  - intros k id' wk' H1 H2 H. rewrite alookup_aset in H. destruct (Z.eqb_spec id' id) as [->|Hne].
    + inversion H; subst wk'. cbn [w_key]. exact (C4 _ _ _ H1 H2 Hwk).
    + exact (C4 _ _ _ H1 H2 H).
Qed.

(** the worker's Delete removes the stored entry: its id goes in flight *)
Lemma store_delete_SI : forall k e s, SI s fnone -> alookup k (store s) = Some e ->
  SI (store_delete k s) {| f_id := Some (e_id e); f_key := None |}.
Proof.
  intros k e s [C1 C2 C4] Hl. constructor; cbn [f_id f_key].
  - intros id wk H. rewrite weights_store_delete in H. rewrite idof_store_delete.
    destruct (C1 _ _ H) as [H1|[H1 _]]; [|discriminate].
    destruct (Z.eqb_spec (w_key wk) k) as [Hk|Hk]; [|left; exact H1].
    right. split; [|reflexivity]. unfold idof in H1. rewrite Hk, Hl in H1. cbn in H1. congruence.
  - intros k0 H; discriminate.
  - intros k0 id wk H; discriminate.
Qed.

(** nothing is in flight any more once its charge is gone *)
Lemma SI_release : forall s id, SI s {| f_id := Some id; f_key := None |} -> alookup id (weights s) = None -> SI s fnone.
Proof.
  intros s id [C1 C2 C4] Hn. constructor; cbn [f_id f_key] in *.
  - intros id' wk H. destruct (C1 _ _ H) as [H1|[H1 _]]; [left; exact H1|]. injection H1 as ->. congruence.
  - intros k H; discriminate.
  - intros k id' wk H; discriminate.
Qed.

(** admission's final step: the new id is charged for a key that is not stored: it goes in flight *)
Lemma weights_add_SI : forall cfg k id h w s, SI s fnone -> idof s k = None ->
  match weights_add cfg k id h w s with
  | Ok s' | Panic _ s' => SI s' {| f_id := Some id; f_key := Some k |}
  | Inadmissible _ => True
  end.
Proof.
  intros cfg k id h w s [C1 C2 C4] Hk. unfold weights_add. cbv zeta.
  assert (H : forall s1, weights s1 = aset id (Build_wkey k h w) (weights s) -> (forall k0, idof s1 k0 = idof s k0) ->
              SI s1 {| f_id := Some id; f_key := Some k |}).
  { intros s1 Hw Hi. constructor; cbn [f_id f_key].
    - intros id' wk' Hl. rewrite Hw, alookup_aset in Hl. rewrite Hi. destruct (Z.eqb_spec id' id) as [->|Hne].
      + inversion Hl; subst wk'. cbn [w_key]. right. split; [reflexivity|exact Hk].
      + destruct (C1 _ _ Hl) as [H1|[H1 _]]; [left; exact H1|discriminate].
    - intros k0 H0. injection H0 as <-. rewrite Hi. exact Hk.
    - intros k0 id' wk' H1 H2 Hl. injection H1 as <-. injection H2 as <-.
      rewrite Hw, alookup_aset_eq in Hl. inversion Hl; subst wk'. reflexivity. }
  destruct (add_i64 cfg _ w) as [u|]; apply H; try reflexivity; intros k0; reflexivity.
Qed.

(** the let in key is inserted: nothing is in flight any more *)
Lemma store_insert_SI : forall k v id exp s, SI s {| f_id := Some id; f_key := Some k |} -> SI (store_insert k v id exp s) fnone.
Proof.
  intros k v id exp s [C1 C2 C4]. cbn [f_id f_key] in *.
  assert (Hk : idof s k = None) by (apply C2; reflexivity).
  assert (Hi : forall k0, idof (store_insert k v id exp s) k0 = if k0 =? k then Some id else idof s k0).
  { intros k0. unfold store_insert, idof. sred. rewrite alookup_aset. destruct (k0 =? k); reflexivity. }
  constructor; cbn [f_id f_key fnone].
  - intros id' wk' H. change (weights (store_insert k v id exp s)) with (weights s) in H. rewrite Hi. left.
    destruct (C1 _ _ H) as [H1|[H1 H2]].
    + destruct (Z.eqb_spec (w_key wk') k) as [E|_]; [rewrite E, Hk in H1; discriminate|exact H1].
    + injection H1 as <-. rewrite (C4 k id wk' eq_refl eq_refl H), Z.eqb_refl. reflexivity.
  - intros k0 H; discriminate.
  - intros k0 id' wk H; discriminate.
Qed.

(** ** eviction loop, admission, sweep *)
Definition RS (f : fl) (s s' : state) : Prop :=
  (SI s f -> SI s' f) /\ (forall k, idof s k = None -> idof s' k = None).

Lemma RS_refl : forall f s, RS f s s.
Proof. intros f s. split; auto. Qed.
Lemma RS_trans : forall f s1 s2 s3, RS f s1 s2 -> RS f s2 s3 -> RS f s1 s3.
Proof. intros f s1 s2 s3 [A1 B1] [A2 B2]. split; auto. Qed.

Lemma weights_delete_idof_none : forall cfg id hook s,
  match weights_delete cfg id hook s with
  | Ok s' | Panic _ s' => forall k, idof s k = None -> idof s' k = None
  | Inadmissible _ => True
  end.
Proof.
  intros cfg id hook s. unfold weights_delete.
  destruct (alookup id (weights s)) as [wk|]; [|auto]. cbv zeta.
  destruct (add_i64 cfg _ _) as [u|]; [|intros k H; exact H].
  destruct hook; intros k H.
  - change (idof (upd_st ?f ?x ?y) k) with (idof y k). rewrite idof_store_delete. destruct (k =? w_key wk); [reflexivity|exact H].
  - exact H.
Qed.

Lemma RS_wdel : forall f cfg id hook s,
  match weights_delete cfg id hook s with Ok s' | Panic _ s' => RS f s s' | Inadmissible _ => True end.
Proof.
  intros f cfg id hook s.
  pose proof (weights_delete_SI cfg id hook s f) as H1. pose proof (weights_delete_idof_none cfg id hook s) as H2.
  destruct (weights_delete cfg id hook s); try exact I; (split; [exact H1|exact H2]).
Qed.

(** admission of a key that is not stored: accepted = the id goes in flight; refused = nothing is in flight *)
Lemma admission_SI : forall cfg orc k id h w s r s' vs, SI s fnone -> idof s k = None ->
  admission cfg orc k id h w s = (r, s', vs) ->
  match r with
  | AdStatus Accepted => SI s' {| f_id := Some id; f_key := Some k |}
  | AdStatus _ => SI s' fnone
  | AdPanic _ => True
  | AdInadmissible _ => SI s' fnone
  end.
Proof.
  intros cfg orc k id h w s r s' vs HS Hk H. unfold admission in H.
  destruct (c_max cfg <? w) eqn:E0; [inversion H; subst; exact HS|].
  destruct (w <=? c_max cfg - used s) eqn:E1.
  { pose proof (weights_add_SI cfg k id h w s HS Hk) as Hwa.
    destruct (weights_add cfg k id h w s) as [s1|site s1|why] eqn:E2; inversion H; subst; first [exact Hwa|exact I|exact HS]. }
  destruct (negb (bloom_admissible _ _)) eqn:E2; [inversion H; subst; exact HS|].
  destruct (est_panics (lfu s)) eqn:E3; [inversion H; subst; exact I|].
  destruct (o_orders orc) as [|order0 orders] eqn:E4; [inversion H; subst; exact HS|].
  destruct (negb (Nat.leb (length order0) sample_size)) eqn:E5; [inversion H; subst; exact HS|].
  destruct (sample_fill _ (weights s) order0 []) as [sm0|] eqn:E6; [|inversion H; subst; exact HS].
  destruct (create_space_loop _ cfg _ _ w orders (o_pops orc) sm0 _ s []) as [[sr s1] vs1] eqn:E7.
  destruct (create_space_loop_lift (RS fnone) (RS_refl fnone) (RS_trans fnone) (RS_wdel fnone)
              _ _ _ _ _ _ _ _ _ _ _ _ _ _ E7) as [HS1 Hk1].
  destruct sr as [| |site|why]; try (inversion H; subst; first [exact (HS1 HS)|exact I]).
  pose proof (weights_add_SI cfg k id h w s1 (HS1 HS) (Hk1 k Hk)) as Hwa.
  destruct (weights_add cfg k id h w s1) as [s2|site s2|why] eqn:E8; inversion H; subst; first [exact Hwa|exact I|exact (HS1 HS)].
Qed.

Lemma SI_same : forall s s' f, store s' = store s -> weights s' = weights s -> SI s f -> SI s' f.
Proof. intros s s' f H1 H2 HS. exact (SI_kf s s' f (kf_store s s' H1 H2) HS). Qed.
Ltac si_same H := (eapply SI_same; [| |exact H]; reflexivity).

Lemma sweep_SI : forall cfg s f, SI s f -> SI (fst (sweep cfg s)) f.
Proof.
  intros cfg s f HS. unfold sweep.
  destruct (sweeper s); try exact HS. cbv zeta.
  match goal with |- context [sweep_entries ?c ?n ?es ?s1] =>
    assert (HS1 : SI s1 f) by (apply (SI_same s s1 f eq_refl eq_refl HS));
    pose proof (sweep_entries_lift (RS f) (RS_refl f) (RS_trans f) (RS_wdel f) c n es s1) as Hsw;
    destruct (sweep_entries c n es s1) as [s2|site s2|why] end; cbn [fst]; [| |exact HS].
  - destruct Hsw as [Hsw _]. destruct (sweeper_run s2); [exact (Hsw HS1)|].
    apply (SI_same s2 (set_sweeper s2 Exited) f eq_refl eq_refl (Hsw HS1)).
  - destruct Hsw as [Hsw _]. apply (SI_same s2 (set_sweeper s2 Dead) f eq_refl eq_refl (Hsw HS1)).
Qed.

(** ** callers: keys and ids of the store and the ledger are untouched, or the flag has just been raised *)
Lemma do_send_kf : forall cfg tid c s, kf s (fst (do_send cfg tid c s)).
Proof.
  intros cfg tid c s. destruct (do_send cfg tid c s) as [s' ret] eqn:E. cbn [fst].
  apply do_send_spec in E as ((Hst & Hw & _) & _). apply kf_store; assumption.
Qed.

Lemma call_upsert_kf : forall cfg tid k v w ttl rm s, kf s (fst (call_upsert cfg tid k v w ttl rm s)).
Proof.
  intros cfg tid k v w ttl rm s.
  destruct (alookup k (store s)) as [e0|] eqn:El0.
  - rewrite call_upsert_present_eq with (e := e0) by exact El0.
    destruct (ups_new_exp_o rm ttl e0 s) as [new_exp|]; [|apply kf_refl].
    destruct (ups_tail cfg tid (e_id e0) (ups_s2 cfg k v e0 new_exp s) _) as [s' ret] eqn:E. cbn [fst].
    apply ups_tail_frame in E as (Hst & Hw & _).
    pose proof (ups_s2_fields cfg k v e0 new_exp s) as (Fst & Fw & _).
    split; [congruence|]. intros k0. unfold idof at 1. rewrite Hst, Fst.
    apply (idof_aset_same_id s k e0 _ El0). reflexivity.
  - destruct v as [val|].
    + rewrite upsert_absent_is_put by exact El0.
      destruct (call_put cfg tid k val _ ttl s) as [s' ret] eqn:E. cbn [fst].
      apply call_put_spec in E as ((Hst & Hw & _) & _). apply kf_store; assumption.
    + unfold call_upsert. rewrite El0. cbv zeta. destruct w; apply kf_refl.
Qed.

Lemma soft_mark_kf : forall k s, kf s (soft_mark k s).
Proof.
  intros k s. unfold soft_mark. destruct (alookup k (store s)) as [e|] eqn:E; [|apply kf_refl].
  split; [reflexivity|]. intros k0. unfold idof at 1. sred. apply (idof_aset_same_id s k e _ E). reflexivity.
Qed.

Lemma call_kf : forall cfg tid r idxs s, kf s (fst (call cfg tid r idxs s)) \/ shut (fst (call cfg tid r idxs s)) = true.
Proof.
  intros cfg tid r idxs s. unfold call.
  destruct (amem tid (blocked s)); [left; apply kf_refl|].
  assert (Hput : forall k v w ttl, kf s (fst (call_put cfg tid k v w ttl s))).
  { intros k v w ttl. destruct (call_put cfg tid k v w ttl s) as [s' ret] eqn:E. cbn [fst].
    apply call_put_spec in E as ((Hst & Hw & _) & _). apply kf_store; assumption. }
  assert (Hr1 : forall k (g : Z -> list Z), kf s (fst (match read_one cfg k idxs s with
                                         | Some (v, s', []) => (s', g v) | _ => (s, [7]) end))).
  { intros k g. destruct (read_one cfg k idxs s) as [[[v0 s0] [|i0 idxs0]]|] eqn:E; cbn [fst]; try apply kf_refl.
    apply read_one_spec in E as ((Hst & Hw & _) & _). apply kf_store; assumption. }
  assert (Hrm : forall ks (g : list Z -> list Z), kf s (fst (match read_many cfg ks idxs s with
                                         | Some (vs, s', []) => (s', g vs) | _ => (s, [7]) end))).
  { intros ks g. destruct (read_many cfg ks idxs s) as [[[v0 s0] [|i0 idxs0]]|] eqn:E; cbn [fst]; try apply kf_refl.
    apply read_many_spec in E as ((Hst & Hw & _) & _). apply kf_store; assumption. }
  destruct r as [k0 v|k0 v w|k0 v ttl|k0 v w ttl|k0 v w ttl rm|k0|k0|k0|k0|k0|ks|ks|ks| | |]; cbv beta iota zeta.
  - left. destruct (_ <=? 0); [apply kf_refl|]. destruct (shut s); [apply kf_refl|apply Hput].
  - left. destruct (shut s); [apply kf_refl|apply Hput].
  - left. destruct (shut s); [apply kf_refl|apply Hput].
  - left. destruct (shut s); [apply kf_refl|apply Hput].
  - left. destruct (shut s); [apply kf_refl|apply call_upsert_kf].
  - left. destruct (shut s); [apply kf_refl|].
    eapply kf_trans; [apply (soft_mark_kf k0 s)|]. apply (do_send_kf cfg tid (CDelete k0) (soft_mark k0 s)).
  - left. destruct (shut s); [apply kf_refl|]. apply (Hr1 k0 (fun v => if v =? -1 then [5] else [5; v])).
  - left. destruct (shut s); [apply kf_refl|]. apply (Hr1 k0 (fun v => if v =? -1 then [5] else [5; v])).
  - left. destruct (shut s); [apply kf_refl|]. apply (Hr1 k0 (fun v => if v =? -1 then [5] else [5; mapped v])).
  - left. destruct (shut s); [apply kf_refl|]. apply (Hr1 k0 (fun v => if v =? -1 then [5] else [5; mapped v])).
  - left. destruct (shut s); [apply kf_refl|]. apply (Hrm ks (fun vs => 5 :: vs)).
  - left. destruct (shut s); [apply kf_refl|]. apply (Hrm ks (fun vs => 5 :: vs)).
  - left. destruct (shut s); [apply kf_refl|]. apply (Hrm ks (fun vs => 5 :: map mapped vs)).
  - left. apply kf_refl.
  - left. apply kf_refl.
  - destruct (shut s) eqn:Hs; [left; apply kf_refl|]. right.
    pose proof (shutdown_cmd_fields cfg tid (set_shut s true)) as (_ & _ & _ & Hsh & _). cbv zeta in Hsh. exact Hsh.
Qed.

(** shutdown()'s sends and clears: either the keys and ids are untouched, or store and ledger have just been cleared *)
Definition cleared (s : state) : Prop := store s = [] /\ weights s = [].

Lemma SI_cleared : forall s f, cleared s -> SI s f.
Proof.
  intros s f [Hs Hw]. constructor.
  - intros id wk H. rewrite Hw in H. discriminate.
  - intros k _. unfold idof. rewrite Hs. reflexivity.
  - intros k id wk _ _ H. rewrite Hw in H. discriminate.
Qed.

Lemma shutdown_chan_kc : forall tid s, kf s (fst (shutdown_chan tid s)) \/ cleared (fst (shutdown_chan tid s)).
Proof.
  intros tid s. unfold shutdown_chan.
  destruct (consumer s); try (right; split; reflexivity).
  destruct (_ <? chan_capacity); cbn [fst]; [right; split; reflexivity|left; apply kf_store; reflexivity].
Qed.

Lemma shutdown_cmd_kc : forall cfg tid s, kf s (fst (shutdown_cmd cfg tid s)) \/ cleared (fst (shutdown_cmd cfg tid s)).
Proof.
  intros cfg tid s. unfold shutdown_cmd.
  destruct (worker s); try apply shutdown_chan_kc.
  destruct (_ <? c_queue cfg); cbn [fst]; [|left; apply kf_store; reflexivity].
  destruct (shutdown_chan_kc tid (set_queue s (queue s ++ [(CShutdown, -1)]))) as [H|H]; [left|right; exact H].
  eapply kf_trans; [|exact H]. apply kf_store; reflexivity.
Qed.

Lemma SI_kc : forall s s' f, kf s s' \/ cleared s' -> SI s f -> SI s' f.
Proof. intros s s' f [H|H] HS; [eapply SI_kf; eassumption|apply SI_cleared; exact H]. Qed.

Lemma resume_kc : forall cfg tid s, kf s (fst (resume cfg tid s)) \/ cleared (fst (resume cfg tid s)).
Proof.
  intros cfg tid s. unfold resume.
  destruct (alookup tid (blocked s)) as [k|]; [|left; apply kf_refl]. cbv zeta.
  set (s0 := set_blocked s (aremove tid (blocked s))).
  assert (H0 : kf s s0) by (apply kf_store; reflexivity).
  assert (Hl : forall s1, kf s0 s1 \/ cleared s1 -> kf s s1 \/ cleared s1).
  { intros s1 [H|H]; [left; exact (kf_trans s s0 s1 H0 H)|right; exact H]. }
  destruct k as [c| |].
  - destruct (worker s0); [destruct (_ <? c_queue cfg); [|left; apply kf_refl]|..]; apply Hl; left; apply do_send_kf.
  - destruct (worker s0); [destruct (_ <? c_queue cfg); [|left; apply kf_refl]|..]; apply Hl; apply shutdown_cmd_kc.
  - destruct (consumer s0); [destruct (_ <? chan_capacity); [|left; apply kf_refl]|..]; apply Hl; apply shutdown_chan_kc.
Qed.

Lemma drain_kf : forall cfg bl s, kf s (fst (drain cfg bl s)).
Proof.
  intros cfg bl s. unfold drain. destruct (consumer s); try apply kf_refl.
  destruct (chan s) as [|[hs|] rest]; try apply kf_refl; [|apply kf_store; reflexivity].
  destruct (apply_batch (lfu s) hs bl) as [[l'| |] [|b t]]; cbn [fst]; try apply kf_refl; try (apply kf_store; reflexivity).
  destruct (consumer_run _); apply kf_store; reflexivity.
Qed.

Lemma weights_delete_gone : forall cfg id hook s s', weights_delete cfg id hook s = Ok s' -> alookup id (weights s') = None.
Proof.
  intros cfg id hook s s' H. unfold weights_delete in H.
  destruct (alookup id (weights s)) as [wk|] eqn:Hwk; [|inversion H; subst; exact Hwk]. cbv zeta in H.
  destruct (add_i64 cfg _ _) as [u|]; [|discriminate]. inversion H; subst s'.
  change (weights (upd_st ?f ?x ?y)) with (weights y).
  destruct hook; rewrite ?weights_store_delete; sred; apply alookup_aremove_eq.
Qed.

(** the worker's whole step, nothing in flight before or after *)
Lemma worker_step_SI : forall cfg orc s, SI s fnone ->
  worker (fst (worker_step cfg orc s)) = Dead \/ SI (fst (worker_step cfg orc s)) fnone.
Proof.
  intros cfg orc s HS. unfold worker_step.
  destruct (worker s) eqn:Hwk; try (right; exact HS).
  destruct (queue s) as [|[c a] q] eqn:Hq; [right; exact HS|]. cbv zeta.
  assert (HS0 : SI (set_queue s q) fnone) by (si_same HS).
  destruct c as [k v id h w|k v id h w ttl|k|id w|].
  - destruct (amem k (store (set_queue s q))) eqn:Em; [right; cbn [fst]; si_same HS0|].
    assert (Hk : idof (set_queue s q) k = None).
    { apply amem_false_iff in Em. unfold idof. rewrite Em. reflexivity. }
    pose proof (admission_SI cfg orc k id h w (set_queue s q)) as Hadm.
    destruct (admission cfg orc k id h w (set_queue s q)) as [[r s1] vs] eqn:E.
    specialize (Hadm r s1 vs HS0 Hk eq_refl).
    destruct r as [[| |rj|]|site|why]; cbn [fst].
    + right. si_same Hadm.
    + right. pose proof (store_insert_SI k v id None s1 Hadm) as Hin. si_same Hin.
    + right. si_same Hadm.
    + right. si_same Hadm.
    + left. reflexivity.
    + right. exact HS.
  - destruct (amem k (store (set_queue s q))) eqn:Em; [right; cbn [fst]; si_same HS0|].
    assert (Hk : idof (set_queue s q) k = None).
    { apply amem_false_iff in Em. unfold idof. rewrite Em. reflexivity. }
    pose proof (admission_SI cfg orc k id h w (set_queue s q)) as Hadm.
    destruct (admission cfg orc k id h w (set_queue s q)) as [[r s1] vs] eqn:E.
    specialize (Hadm r s1 vs HS0 Hk eq_refl).
    destruct r as [[| |rj|]|site|why]; cbn [fst].
    + right. si_same Hadm.
    + destruct (calc_expiry (now s1) ttl) as [e|]; cbn [fst]; [right|left; reflexivity].
      pose proof (store_insert_SI k v id (Some e) s1 Hadm) as Hin. si_same Hin.
    + right. si_same Hadm.
    + right. si_same Hadm.
    + left. reflexivity.
    + right. exact HS.
  - destruct (alookup k (store (set_queue s q))) as [e|] eqn:El; [|right; cbn [fst]; si_same HS0].
    pose proof (store_delete_SI k e (set_queue s q) HS0 El) as HS1.
    pose proof (weights_delete_SI cfg (e_id e) false _ _ HS1) as Hwd.
    destruct (weights_delete cfg (e_id e) false (store_delete k (set_queue s q))) as [s2|site s2|why] eqn:Ewd; cbn [fst].
    + right. pose proof (SI_release s2 (e_id e) Hwd (weights_delete_gone _ _ _ _ _ Ewd)) as HS2.
      destruct (e_exp e); si_same HS2.
    + left. reflexivity.
    + right. exact HS0.
  - pose proof (weights_update_SI cfg id w (set_queue s q) fnone HS0) as Hwu.
    destruct (weights_update cfg id w (set_queue s q)) as [s1|site s1|why]; cbn [fst].
    + right. si_same Hwu.
    + left. reflexivity.
    + right. exact HS0.
  - right. cbn [fst].
    pose proof (drain_queue_frame q (set_queue s q)) as (F1 & F2 & _).
    pose proof (SI_same (set_queue s q) (drain_queue q (set_queue s q)) fnone F1 F2 HS0) as Hd. si_same Hd.
Qed.

(** every event of the atomic model; [f] is what the worker has in flight (nothing, when the event is a worker step) *)
Lemma step_SI : forall cfg s ev f, SI s f -> (forall orc, ev = EWorker orc -> f = fnone) ->
  shut (fst (step cfg s ev)) = true \/ worker (fst (step cfg s ev)) = Dead \/ SI (fst (step cfg s ev)) f.
Proof.
  intros cfg s ev f HS Hf. destruct ev as [tid r idxs|tid|orc| |bl|dt|a]; cbn [step].
  - destruct (call_kf cfg tid r idxs s) as [H|H]; [right; right; eapply SI_kf; eassumption|left; exact H].
  - right; right. eapply SI_kc; [apply resume_kc|exact HS].
  - rewrite (Hf orc eq_refl) in *. right. apply worker_step_SI. exact HS.
  - right; right. apply sweep_SI. exact HS.
  - right; right. eapply SI_kf; [apply drain_kf|exact HS].
  - right; right. cbn [fst]. si_same HS.
  - right; right. exact HS.
Qed.

(** ** window and micro steps *)
Definition GOOD (s : state) (f : fl) : Prop := shut s = true \/ worker s = Dead \/ SI s f.

Lemma upsert_half1_kf : forall cfg k v w ttl rm s,
  match upsert_half1 cfg k v w ttl rm s with inl (s', _) => kf s s' | inr (s', _) => kf s s' end.
Proof.
  intros cfg k v w ttl rm s. unfold upsert_half1.
  destruct (alookup k (store s)) as [e|] eqn:E; [|apply kf_refl]. cbv zeta.
  assert (H : forall e', e_id e' = e_id e -> kf s (set_store s (aset k e' (store s)))).
  { intros e' He. split; [reflexivity|]. intros k0. unfold idof at 1. sred. apply (idof_aset_same_id s k e e' E He). }
  destruct rm; [apply H; reflexivity|].
  destruct ttl as [t|]; [destruct (calc_expiry (now s) t)|]; first [apply H; reflexivity|apply kf_refl].
Qed.

Lemma upsert_half2_kf : forall cfg tid u s, kf s (fst (upsert_half2 cfg tid u s)).
Proof.
  intros cfg tid u s. unfold upsert_half2. cbv zeta.
  destruct (u_resp u) as [[[id old] new_exp]|].
  - destruct (type_of_expiry_update old new_exp);
      repeat (match goal with
              | |- kf _ (fst (match ?x with _ => _ end)) => destruct x eqn:?
              | |- kf _ (fst (if ?b then _ else _)) => destruct b eqn:?
              end); cbn [fst];
      first [ apply kf_refl
            | solve [apply kf_store; reflexivity]
            | match goal with |- kf ?s (fst (do_send ?c ?t ?cm ?s0)) =>
                apply (kf_trans s s0); [apply kf_store; reflexivity|apply do_send_kf] end ].
  - destruct (u_v u) as [val|]; [|apply kf_refl].
    destruct (requested_weight cfg (u_k u) (Some val) (u_w u) (u_ttl u)) as [wt|]; [|apply kf_refl].
    destruct (wt <=? 0); [apply kf_refl|].
    destruct (u_ttl u);
      match goal with |- kf ?s (fst (do_send ?c ?t ?cm ?s0)) =>
        apply (kf_trans s s0); [apply kf_store; reflexivity|apply do_send_kf] end.
Qed.

Lemma worker_half1_SI : forall cfg orc s, SI s fnone ->
  match worker_half1 cfg orc s with
  | inl (s', _) => SI s' fnone
  | inr (s', _) => worker s' = Dead \/ SI s' fnone
  end.
Proof.
  intros cfg orc s HS. unfold worker_half1.
  pose proof (worker_step_SI cfg orc s HS) as Hws.
  destruct (worker_step cfg orc s) as [sw rw] eqn:Ew. cbn [fst] in Hws.
  destruct (worker s) eqn:Hwk; try exact Hws.
  destruct (queue s) as [|[c a] q] eqn:Hq; [exact Hws|].
  destruct c as [k v id h w|k v id h w ttl|k|id w|]; try exact Hws.
  cbv zeta.
  destruct (amem k (store (set_queue s q))) eqn:Em; [exact Hws|].
  assert (HS0 : SI (set_queue s q) fnone) by (si_same HS).
  assert (Hk : idof (set_queue s q) k = None).
  { apply amem_false_iff in Em. unfold idof. rewrite Em. reflexivity. }
  pose proof (admission_SI cfg orc k id h w (set_queue s q)) as Hadm.
  destruct (admission cfg orc k id h w (set_queue s q)) as [[r s1] vs] eqn:E.
  specialize (Hadm r s1 vs HS0 Hk eq_refl).
  destruct r as [[| |rj|]|site|why]; try exact Hws.
  destruct (calc_expiry (now s1) ttl); [|exact Hws].
  apply store_insert_SI. exact Hadm.
Qed.

Lemma GOOD_shut : forall s f, shut s = true -> GOOD s f.
Proof. intros; left; assumption. Qed.

Lemma wstep_GOOD : forall cfg ws ev f, SI (base ws) f ->
  ((exists orc, ev = WBase (EWorker orc)) \/ (exists orc, ev = WPut1 orc) -> f = fnone) ->
  GOOD (base (fst (wstep cfg ws ev))) f.
Proof.
  intros cfg ws ev f HS Hf. destruct ev as [e|tid k v w ttl rm|tid|orc|]; cbn [wstep].
  - match goal with |- context [if ?b then _ else _] => destruct b end; [|right; right; exact HS].
    pose proof (step_SI cfg (base ws) e f HS) as H.
    destruct (step cfg (base ws) e) as [s' ret]. cbn [fst base with_base] in *. apply H.
    intros orc ->. apply Hf. left. eexists; reflexivity.
  - right; right. destruct (_ || _); [exact HS|]. destruct (shut (base ws)); [exact HS|].
    pose proof (upsert_half1_kf cfg k v w ttl rm (base ws)) as H.
    destruct (upsert_half1 cfg k v w ttl rm (base ws)) as [[s' u]|[s' ret]]; cbn [fst base with_base];
      (eapply SI_kf; [exact H|exact HS]).
  - right; right. destruct (alookup tid (ups ws)) as [u|]; [|exact HS].
    pose proof (upsert_half2_kf cfg tid u (base ws)) as H.
    destruct (upsert_half2 cfg tid u (base ws)) as [s' ret]. cbn [fst base] in *. eapply SI_kf; eassumption.
  - destruct (wpending ws); [right; right; exact HS|].
    rewrite (Hf (or_intror (ex_intro _ orc eq_refl))) in *.
    pose proof (worker_half1_SI cfg orc (base ws) HS) as H.
    destruct (worker_half1 cfg orc (base ws)) as [[s' p]|[s' ret]]; cbn [fst base with_base];
      [right; right; exact H|right; exact H].
  - right; right. destruct (wpending ws) as [p|]; [|exact HS].
    unfold worker_half2. cbn [fst base]. si_same HS.
Qed.

(** callers inside shutdown() have raised the flag *)
Definition pshut_ok (ms : mstate) : Prop := forall tid n, alookup tid (cps ms) = Some (PShut n) -> shut (mbase ms) = true.

Record MSI (ms : mstate) : Prop := { msi_pshut : pshut_ok ms; msi_good : GOOD (mbase ms) (fl_of ms) }.

Lemma shutdown_stage_shut : forall cfg ms tid n, shut (mbase ms) = true -> shut (mbase (fst (shutdown_stage cfg ms tid n))) = true.
Proof.
  intros cfg ms tid n Hs. unfold shutdown_stage. cbv zeta.
  repeat match goal with
         | |- context [if ?b then _ else _] => destruct b
         | |- context [match worker ?x with _ => _ end] => destruct (worker x)
         | |- context [match consumer ?x with _ => _ end] => destruct (consumer x)
         end; cbn; exact Hs.
Qed.

Lemma menter_base : forall cfg ms tid r idxs,
  kf (mbase ms) (mbase (fst (menter cfg ms tid r idxs))) \/ shut (mbase (fst (menter cfg ms tid r idxs))) = true.
Proof.
  intros cfg ms tid r idxs. unfold menter. destruct (negb (caller_free ms tid)); [left; apply kf_refl|]. cbv zeta.
  destruct (shut (mbase ms) || negb (micro_request r) || early_panic cfg r).
  - pose proof (call_kf cfg tid r idxs (mbase ms)) as H.
    destruct (call cfg tid r idxs (mbase ms)) as [s' ret]. exact H.
  - destruct r; cbn [fst]; first [left; apply kf_refl|right; reflexivity].
Qed.

Lemma mstepc_base : forall cfg ms tid idxs, pshut_ok ms ->
  kf (mbase ms) (mbase (fst (mstepc cfg ms tid idxs))) \/ shut (mbase (fst (mstepc cfg ms tid idxs))) = true.
Proof.
  intros cfg ms tid idxs HP. unfold mstepc. cbv zeta.
  destruct (alookup tid (cps ms)) as [p|] eqn:Hp; [|left; apply kf_refl].
  destruct p as [r|k v w ttl| |h obs|n].
  - left. destruct r; try apply kf_refl;
      try (unfold put_check; cbv zeta; repeat match goal with |- context [if ?b then _ else _] => destruct b end; apply kf_refl);
      try (unfold read_lookup; cbv zeta; destruct (lookup_alive _ _); cbn [fst]; apply kf_store; reflexivity).
    + pose proof (upsert_half1_kf cfg k v w ttl rm (mbase ms)) as H.
      destruct (upsert_half1 cfg k v w ttl rm (mbase ms)) as [[s' u]|[s' ret]]; exact H.
    + cbn [fst]. unfold park. eapply kf_trans; [apply (soft_mark_kf k (mbase ms))|]. apply kf_store; reflexivity.
    + unfold read_body. destruct (read_one cfg k idxs (mbase ms)) as [[[v0 s'] [|i l]]|] eqn:Hr; try apply kf_refl.
      cbn [fst]. apply read_one_spec in Hr as ((Hst & Hw & _) & _). apply kf_store; assumption.
    + unfold read_body. destruct (read_one cfg k idxs (mbase ms)) as [[[v0 s'] [|i l]]|] eqn:Hr; try apply kf_refl.
      cbn [fst]. apply read_one_spec in Hr as ((Hst & Hw & _) & _). apply kf_store; assumption.
  - left. cbn [fst]. apply kf_store; reflexivity.
  - left. destruct (alookup tid (blocked (mbase ms))) as [[c| |]|]; try apply kf_refl.
    pose proof (do_send_kf cfg tid c (set_blocked (mbase ms) (aremove tid (blocked (mbase ms))))) as H.
    destruct (do_send cfg tid c (set_blocked (mbase ms) (aremove tid (blocked (mbase ms))))) as [s' ret].
    cbn [fst] in *. eapply kf_trans; [|exact H]. apply kf_store; reflexivity.
  - left. destruct idxs as [|i [|j l]]; try apply kf_refl.
    destruct (pool_add cfg i h (mbase ms)) as [s'|] eqn:Hpa; [|apply kf_refl].
    cbn [fst]. pose proof (ApiProofs.pool_add_frame cfg i h _ _ Hpa) as (Hst & Hw & _). apply kf_store; assumption.
  - right. apply shutdown_stage_shut. exact (HP tid n Hp).
Qed.

Lemma cps_pshut_menter : forall cfg ms tid r idxs t n,
  alookup t (cps (fst (menter cfg ms tid r idxs))) = Some (PShut n) ->
  alookup t (cps ms) = Some (PShut n) \/ shut (mbase (fst (menter cfg ms tid r idxs))) = true.
Proof.
  intros cfg ms tid r idxs t n. unfold menter. destruct (negb (caller_free ms tid)); [left; assumption|]. cbv zeta.
  destruct (shut (mbase ms) || negb (micro_request r) || early_panic cfg r).
  - destruct (call cfg tid r idxs (mbase ms)) as [s' ret]. left; assumption.
  - destruct r; cbn [fst set_cp cps]; intros H; rewrite alookup_aset in H; destruct (t =? tid);
      first [left; exact H|discriminate|right; reflexivity].
Qed.

Lemma cps_pshut_mstepc : forall cfg ms tid idxs t n,
  alookup t (cps (fst (mstepc cfg ms tid idxs))) = Some (PShut n) ->
  exists m, alookup t (cps ms) = Some (PShut m) \/ alookup tid (cps ms) = Some (PShut m).
Proof.
  intros cfg ms tid idxs t n. unfold mstepc. cbv zeta.
  destruct (alookup tid (cps ms)) as [p|] eqn:Hp; [|intros H; exists n; left; exact H].
  assert (Hset : forall s q, (forall m, q <> PShut m) -> alookup t (cps (set_cp ms s tid q)) = Some (PShut n) ->
                 exists m, alookup t (cps ms) = Some (PShut m) \/ Some p = Some (PShut m)).
  { intros s q Hq H. cbn [set_cp cps] in H. rewrite alookup_aset in H. destruct (t =? tid).
    - inversion H. exfalso. eapply Hq. eassumption.
    - exists n. left. exact H. }
  assert (Hend : forall s, alookup t (cps (end_cp ms s tid)) = Some (PShut n) ->
                 exists m, alookup t (cps ms) = Some (PShut m) \/ Some p = Some (PShut m)).
  { intros s H. cbn [end_cp cps] in H. rewrite alookup_aremove in H. destruct (t =? tid); [discriminate|].
    exists n. left. exact H. }
  assert (Hid : alookup t (cps ms) = Some (PShut n) -> exists m, alookup t (cps ms) = Some (PShut m) \/ Some p = Some (PShut m))
    by (intros H; exists n; left; exact H).
  destruct p as [r|k v w ttl| |h obs|m0].
  - destruct r; try exact Hid;
      try (unfold put_check; cbv zeta; repeat match goal with |- context [if ?b then _ else _] => destruct b end;
           first [apply Hend|apply Hset; intros m; discriminate]);
      try (unfold read_lookup; cbv zeta; destruct (lookup_alive _ _); first [apply Hend|apply Hset; intros m; discriminate]).
    + destruct (upsert_half1 cfg k v w ttl rm (mbase ms)) as [[s' u]|[s' ret]]; [|apply Hend].
      cbn [fst cps]. intros H. rewrite alookup_aremove in H. destruct (t =? tid); [discriminate|]. exists n. left. exact H.
    + destruct (read_body cfg k (fun v => v) idxs (mbase ms)) as [s' ret]. apply Hend.
    + destruct (read_body cfg k mapped idxs (mbase ms)) as [s' ret]. apply Hend.
  - apply Hset. intros m; discriminate.
  - destruct (alookup tid (blocked (mbase ms))) as [[c| |]|]; try exact Hid.
    destruct (do_send cfg tid c (set_blocked (mbase ms) (aremove tid (blocked (mbase ms))))) as [s' ret]. apply Hend.
  - destruct idxs as [|i [|j l]]; try exact Hid.
    destruct (pool_add cfg i h (mbase ms)) as [s'|]; [apply Hend|exact Hid].
  - intros _. exists m0. right. reflexivity.
Qed.

From CacheD.proofs Require MicroAck.

Lemma fl_of_wdel : forall ms ms', wdel ms' = wdel ms -> fl_of ms' = fl_of ms.
Proof. intros ms ms' H. unfold fl_of. rewrite H. reflexivity. Qed.

Lemma mworker1_GOOD : forall cfg ms orc, SI (mbase ms) (fl_of ms) ->
  GOOD (mbase (fst (mworker1 cfg ms orc))) (fl_of (fst (mworker1 cfg ms orc))).
Proof.
  intros cfg ms orc HS. unfold mworker1. cbv zeta.
  destruct (wdel ms) eqn:Hwd; [right; right; exact HS|].
  destruct (wpending (win ms)) eqn:Hwp; [right; right; exact HS|].
  assert (Hf0 : fl_of ms = fnone) by (unfold fl_of; rewrite Hwd; reflexivity). rewrite Hf0 in HS.
  assert (Hfall : let ms' := fst (let '(w', ret) := wstep cfg (win ms) (WPut1 orc) in
                                  ({| win := w'; cps := cps ms; wdel := None |}, ret)) in
                  GOOD (mbase ms') (fl_of ms')).
  { pose proof (wstep_GOOD cfg (win ms) (WPut1 orc) fnone HS ltac:(intros _; reflexivity)) as H.
    destruct (wstep cfg (win ms) (WPut1 orc)) as [w' ret]. exact H. }
  cbv zeta in Hfall.
  destruct (worker (mbase ms)) eqn:Hwk; try exact Hfall.
  destruct (queue (mbase ms)) as [|[c a] q] eqn:Hq; [exact Hfall|].
  assert (HS0 : SI (set_queue (mbase ms) q) fnone) by (si_same HS).
  assert (Hput : forall k v id h w ttl, let ms' := fst (mput1 cfg ms orc k v id h w ttl a q) in GOOD (mbase ms') (fl_of ms')).
  { intros k v id h w ttl. cbv zeta. unfold mput1. cbv zeta.
    destruct (amem k (store (set_queue (mbase ms) q))) eqn:Em.
    { right; right. cbn [fst mbase with_mbase win with_base base]. unfold fl_of. cbn [wdel with_mbase]. rewrite Hwd. si_same HS0. }
    assert (Hk : idof (set_queue (mbase ms) q) k = None).
    { apply amem_false_iff in Em. unfold idof. rewrite Em. reflexivity. }
    pose proof (admission_SI cfg orc k id h w (set_queue (mbase ms) q)) as Hadm.
    destruct (admission cfg orc k id h w (set_queue (mbase ms) q)) as [[r s1] vs] eqn:E.
    specialize (Hadm r s1 vs HS0 Hk eq_refl).
    destruct r as [[| |rj|]|site|why]; cbn [fst mbase with_mbase win with_base base]; unfold fl_of; cbn [wdel with_mbase];
      rewrite ?Hwd;
      first [ right; right; si_same Hadm
            | right; right; exact Hadm
            | right; left; reflexivity
            | right; right; exact HS ]. }
  destruct c as [k v id h w|k v id h w ttl|k|id w|]; try exact Hfall; try apply Hput.
  destruct (alookup k (store (set_queue (mbase ms) q))) as [e|] eqn:El; cbn [fst].
  - right; right. unfold fl_of. cbn [wdel mbase win with_base base]. apply store_delete_SI; assumption.
  - right; right. unfold fl_of. cbn [wdel with_mbase mbase win with_base base]. rewrite Hwd. si_same HS0.
Qed.

Lemma mworker2_GOOD : forall cfg ms, SI (mbase ms) (fl_of ms) ->
  GOOD (mbase (fst (mworker2 cfg ms))) (fl_of (fst (mworker2 cfg ms))).
Proof.
  intros cfg ms HS. unfold mworker2. cbv zeta.
  destruct (wdel ms) as [[a id exp|a id exp|a k v id ttl obs]|] eqn:Hwd.
  - assert (Hf : fl_of ms = {| f_id := Some id; f_key := None |}) by (unfold fl_of; rewrite Hwd; reflexivity). rewrite Hf in HS.
    pose proof (weights_delete_SI cfg id false (mbase ms) _ HS) as Hwdl.
    destruct (weights_delete cfg id false (mbase ms)) as [s2|site s2|why] eqn:E; cbn [fst].
    + right; right. unfold fl_of. cbn [wdel mbase win with_base base].
      exact (SI_release s2 id Hwdl (weights_delete_gone _ _ _ _ _ E)).
    + right; left. reflexivity.
    + right; right. unfold fl_of. rewrite Hwd. exact HS.
  - assert (Hf : fl_of ms = fnone) by (unfold fl_of; rewrite Hwd; reflexivity). rewrite Hf in HS.
    right; right. cbn [fst]. unfold fl_of. cbn [wdel mbase win with_base base]. destruct exp; si_same HS.
  - assert (Hf : fl_of ms = {| f_id := Some id; f_key := Some k |}) by (unfold fl_of; rewrite Hwd; reflexivity). rewrite Hf in HS.
    destruct ttl as [t|].
    + destruct (calc_expiry (now (mbase ms)) t) as [e|]; cbn [fst].
      * right; right. unfold fl_of. cbn [wdel mbase win base]. apply store_insert_SI. exact HS.
      * right; left. reflexivity.
    + right; right. cbn [fst]. unfold fl_of. cbn [wdel mbase win with_base base].
      pose proof (store_insert_SI k v id None (mbase ms) HS) as Hin. si_same Hin.
  - assert (Hf : fl_of ms = fnone) by (unfold fl_of; rewrite Hwd; reflexivity). rewrite Hf in HS.
    pose proof (wstep_GOOD cfg (win ms) WPut2 fnone HS ltac:(intros _; reflexivity)) as H.
    destruct (wstep cfg (win ms) WPut2) as [w' ret]. cbn [fst] in *. unfold fl_of. cbn [wdel]. rewrite ?Hwd. exact H.
Qed.

Lemma mstep_MSI : forall cfg ms ev, MSI ms -> MSI (fst (mstep cfg ms ev)).
Proof.
  intros cfg ms ev [HP HG].
  assert (Hstable : shut (mbase ms) = true -> shut (mbase (fst (mstep cfg ms ev))) = true) by (apply micro_shut_stable_all).
  constructor.
  - (* callers inside shutdown() *)
    intros t n Hl. destruct ev as [e|tid r idxs|tid idxs|orc|]; cbn [mstep] in Hl.
    + apply Hstable. apply (HP t n). destruct (mwin_enabled ms e); [|exact Hl].
      destruct (wstep cfg (win ms) e) as [w' ret]. exact Hl.
    + destruct (cps_pshut_menter cfg ms tid r idxs t n Hl) as [H|H]; [apply Hstable; exact (HP t n H)|exact H].
    + destruct (cps_pshut_mstepc cfg ms tid idxs t n Hl) as (m & [H|H]); apply Hstable; eapply HP; exact H.
    + apply Hstable. apply (HP t n).
      assert (Hc : cps (fst (mworker1 cfg ms orc)) = cps ms).
      { unfold mworker1. cbv zeta. destruct (wdel ms); [reflexivity|]. destruct (wpending (win ms)); [reflexivity|].
        assert (Hf : cps (fst (let '(w', ret) := wstep cfg (win ms) (WPut1 orc) in
                                ({| win := w'; cps := cps ms; wdel := None |}, ret))) = cps ms)
          by (destruct (wstep cfg (win ms) (WPut1 orc)); reflexivity).
        destruct (worker (mbase ms)); try exact Hf. destruct (queue (mbase ms)) as [|[c a] q]; [exact Hf|].
        assert (Hput : forall k v id h w ttl, cps (fst (mput1 cfg ms orc k v id h w ttl a q)) = cps ms).
        { intros. unfold mput1. cbv zeta. destruct (amem _ _); [reflexivity|].
          destruct (admission _ _ _ _ _ _ _) as [[[[| |rj|]|site|why] s1] vs]; reflexivity. }
        destruct c as [k0 v0 id0 h0 w0|k0 v0 id0 h0 w0 ttl0|k0|id0 w0|]; try exact Hf; try apply Hput.
        destruct (alookup k0 (store (set_queue (mbase ms) q))); reflexivity. }
      rewrite <- Hc. exact Hl.
    + apply Hstable. apply (HP t n).
      assert (Hc : cps (fst (mworker2 cfg ms)) = cps ms).
      { unfold mworker2. cbv zeta. destruct (wdel ms) as [[a id exp|a id exp|a k v id ttl obs]|].
        - destruct (weights_delete cfg id false (mbase ms)); reflexivity.
        - reflexivity.
        - destruct ttl as [t0|]; [destruct (calc_expiry _ t0)|]; reflexivity.
        - destruct (wstep cfg (win ms) WPut2); reflexivity. }
      rewrite <- Hc. exact Hl.
  - destruct HG as [Hs|[Hd|HS]].
    + left. apply Hstable. exact Hs.
    + right; left. apply mstep_dead. exact Hd.
    + destruct ev as [e|tid r idxs|tid idxs|orc|]; cbn [mstep].
      * destruct (mwin_enabled ms e) eqn:Hen; [|right; right; exact HS].
        assert (Hf : (exists orc, e = WBase (EWorker orc)) \/ (exists orc, e = WPut1 orc) -> fl_of ms = fnone).
        { intros [(orc & ->)|(orc & ->)]; cbn [mwin_enabled] in Hen; unfold fl_of; destruct (wdel ms); try discriminate; reflexivity. }
        pose proof (wstep_GOOD cfg (win ms) e (fl_of ms) HS Hf) as H.
        destruct (wstep cfg (win ms) e) as [w' ret]. cbn [fst] in *. exact H.
      * destruct (MicroAck.menter_windows cfg ms tid r idxs) as [W1 _]. rewrite (fl_of_wdel _ _ W1).
        destruct (menter_base cfg ms tid r idxs) as [H|H]; [right; right; eapply SI_kf; eassumption|left; exact H].
      * destruct (MicroAck.mstepc_windows cfg ms tid idxs) as [W1 _]. rewrite (fl_of_wdel _ _ W1).
        destruct (mstepc_base cfg ms tid idxs HP) as [H|H]; [right; right; eapply SI_kf; eassumption|left; exact H].
      * apply mworker1_GOOD. exact HS.
      * apply mworker2_GOOD. exact HS.
Qed.

Lemma MSI_init : forall cfg, MSI (minit cfg).
Proof.
  intros cfg. constructor.
  - intros t n H. discriminate.
  - right; right. constructor; cbn.
    + intros id wk H; discriminate.
    + intros k H; discriminate.
    + intros k id wk H; discriminate.
Qed.

Lemma MSI_run : forall cfg evs, MSI (mrun cfg evs).
Proof.
  intros cfg evs. unfold mrun, mrun_from.
  assert (H : forall ms, MSI ms -> MSI (fold_left (fun m ev => fst (mstep cfg m ev)) evs ms)).
  { induction evs as [|ev t IH]; intros ms HM; [exact HM|]. cbn [fold_left]. apply IH. apply mstep_MSI. exact HM. }
  apply H. apply MSI_init.
Qed.

(* STATEMENT (C05, "no weight stays charged for a key that is gone", at every state of every micro schedule, no condition
   on the events): before shutdown() is called and while the worker has not panicked, every charged id is the id of the
   stored entry of its own key - except the single id the worker has in flight at that instant (a put let in and
   charged but not yet inserted, a Delete whose entry is removed but whose charge is not yet released), and then nobody
   else occupies that key *)
Lemma micro_charged_is_stored_all : forall cfg evs id wk,
  let ms := mrun cfg evs in
  shut (mbase ms) = false -> worker (mbase ms) <> Dead ->
  alookup id (weights (mbase ms)) = Some wk ->
  (exists e, alookup (w_key wk) (store (mbase ms)) = Some e /\ e_id e = id) \/
  (f_id (fl_of ms) = Some id /\ alookup (w_key wk) (store (mbase ms)) = None).
Proof.
  intros cfg evs id wk ms Hs Hd Hl. destruct (MSI_run cfg evs) as [_ HG]. fold ms in HG.
  destruct HG as [H|[H|HS]]; [congruence|contradiction|].
  destruct (si_charged _ _ HS id wk Hl) as [H|[H1 H2]].
  - left. unfold idof in H. destruct (alookup (w_key wk) (store (mbase ms))) as [e|]; [|discriminate].
    exists e. split; [reflexivity|]. cbn in H. congruence.
  - right. split; [exact H1|]. unfold idof in H2. destruct (alookup (w_key wk) (store (mbase ms))); [discriminate|reflexivity].
Qed.

(* STATEMENT (corollary, between commands): whenever the worker has nothing in flight, every charged id is the id of the
   stored entry of its key *)
Lemma micro_charged_is_stored_quiet : forall cfg evs id wk,
  let ms := mrun cfg evs in
  shut (mbase ms) = false -> worker (mbase ms) <> Dead -> wdel ms = None ->
  alookup id (weights (mbase ms)) = Some wk ->
  exists e, alookup (w_key wk) (store (mbase ms)) = Some e /\ e_id e = id.
Proof.
  intros cfg evs id wk ms Hs Hd Hw Hl.
  destruct (micro_charged_is_stored_all cfg evs id wk Hs Hd Hl) as [H|[H _]]; [exact H|].
  fold ms in H. unfold fl_of in H. rewrite Hw in H. discriminate.
Qed.

From CacheD.proofs Require MicroProofs.

(** non-vacuity: the worker inside a Delete (entry removed, charge still there): [Inv] is false, the exception applies *)
Example charged_in_flight_witness :
  let evs := [MEnter 0 (RPutW 1 10 5) []; MStepC 0 []; MStepC 0 []; MStepC 0 []; MWorker1 MicroProofs.orc0; MWorker2;
              MEnter 0 (RDelete 1) []; MStepC 0 []; MStepC 0 []; MWorker1 MicroProofs.orc0] in
  let ms := mrun MicroProofs.mcfg evs in
  shut (mbase ms) = false /\ worker (mbase ms) = Alive /\ store (mbase ms) = [] /\
  map fst (weights (mbase ms)) = [1] /\ f_id (fl_of ms) = Some 1.
Proof. vm_compute. repeat split; reflexivity. Qed.
