(** The sweeper (C10) and retention without memory pressure (C03). *)
From CacheD.proofs Require Import Defs.
From Coq Require Import ZifyBool.

(** * Association-list facts *)
Section SwAList.
  Variable A : Type.
  Implicit Types l : list (Z * A).

  Lemma sw_alookup_aremove : forall k k' l, alookup k (aremove k' l) = if k =? k' then None else alookup k l.
  Proof.
    intros k k' l. induction l as [|[k0 v0] t IH]; cbn [alookup aremove].
    - destruct (k =? k'); reflexivity.
    - destruct (k' =? k0) eqn:E1.
      + rewrite IH. destruct (k =? k') eqn:E2; [reflexivity|].
        destruct (k =? k0) eqn:E3; [lia|reflexivity].
      + cbn [alookup]. rewrite IH. destruct (k =? k0) eqn:E3.
        * destruct (k =? k') eqn:E2; [lia|reflexivity].
        * reflexivity.
  Qed.

  Lemma sw_alookup_aset : forall k k' (v : A) l, alookup k (aset k' v l) = if k =? k' then Some v else alookup k l.
  Proof.
    intros k k' v l. unfold aset. cbn [alookup]. destruct (k =? k') eqn:E; [reflexivity|].
    rewrite sw_alookup_aremove, E. reflexivity.
  Qed.

  Lemma sw_alookup_In : forall k (v : A) l, alookup k l = Some v -> In (k, v) l.
  Proof.
    intros k v l. induction l as [|[k0 v0] t IH]; cbn [alookup]; intros H; [discriminate|].
    destruct (k =? k0) eqn:E.
    - left. inversion H. f_equal. lia.
    - right. auto.
  Qed.

  Lemma sw_alookup_None_notin : forall k l, alookup k l = None -> ~ In k (map fst l).
  Proof.
    intros k l. induction l as [|[k0 v0] t IH]; cbn [alookup map fst]; intros H Hin; [destruct Hin|].
    destruct (k =? k0) eqn:E; [discriminate|].
    destruct Hin as [Hin|Hin]; [lia|]. apply IH; assumption.
  Qed.

  Lemma sw_In_alookup : forall k (v : A) l, NoDup (map fst l) -> In (k, v) l -> alookup k l = Some v.
  Proof.
    intros k v l. induction l as [|[k0 v0] t IH]; cbn [alookup map fst]; intros Hnd Hin; [destruct Hin|].
    inversion Hnd as [|x xs Hnotin Hnd']; subst.
    destruct Hin as [Heq|Hin].
    - inversion Heq; subst. rewrite Z.eqb_refl. reflexivity.
    - destruct (k =? k0) eqn:E.
      + exfalso. apply Hnotin. assert (k = k0) by lia. subst.
        change k0 with (fst (k0, v)). apply in_map. assumption.
      + auto.
  Qed.

  Lemma sw_filter_keys_incl : forall (f : Z * A -> bool) l x, In x (map fst (filter f l)) -> In x (map fst l).
  Proof.
    intros f l x Hin. apply in_map_iff in Hin. destruct Hin as [p [Hp Hin]].
    apply filter_In in Hin. destruct Hin as [Hin _]. subst. apply in_map. assumption.
  Qed.

  Lemma sw_filter_nodup : forall (f : Z * A -> bool) l, NoDup (map fst l) -> NoDup (map fst (filter f l)).
  Proof.
    intros f l. induction l as [|[k0 v0] t IH]; cbn [filter map fst]; intros Hnd; [constructor|].
    inversion Hnd as [|x xs Hnotin Hnd']; subst.
    destruct (f (k0, v0)); cbn [map fst]; [constructor|]; auto.
    intro Hin. apply Hnotin. eapply sw_filter_keys_incl; eassumption.
  Qed.

  Lemma sw_alookup_filter : forall (f : Z * A -> bool) k (v : A) l, NoDup (map fst l) ->
    (alookup k (filter f l) = Some v <-> alookup k l = Some v /\ f (k, v) = true).
  Proof.
    intros f k v l Hnd. split.
    - intros H. apply sw_alookup_In in H. apply filter_In in H. destruct H as [Hin Hf].
      split; [apply sw_In_alookup; assumption|assumption].
    - intros [H Hf]. apply sw_In_alookup; [apply sw_filter_nodup; assumption|].
      apply filter_In. split; [apply sw_alookup_In; assumption|assumption].
  Qed.

  Lemma sw_aremove_In : forall k l p, In p (aremove k l) -> In p l.
  Proof.
    intros k l p. induction l as [|[k0 v0] t IH]; cbn [aremove]; intros H; [destruct H|].
    destruct (k =? k0); [right; auto|].
    destruct H as [H|H]; [left; assumption|right; auto].
  Qed.

  Lemma sw_aremove_keys_incl : forall k l x, In x (map fst (aremove k l)) -> In x (map fst l) /\ x <> k.
  Proof.
    intros k l x. induction l as [|[k0 v0] t IH]; cbn [aremove map fst]; intros H; [destruct H|].
    destruct (k =? k0) eqn:E.
    - destruct (IH H) as [H1 H2]. split; [right; assumption|assumption].
    - cbn [map fst] in H. destruct H as [H|H].
      + subst. split; [left; reflexivity|lia].
      + destruct (IH H) as [H1 H2]. split; [right; assumption|assumption].
  Qed.

  Lemma sw_aremove_nodup : forall k l, NoDup (map fst l) -> NoDup (map fst (aremove k l)).
  Proof.
    intros k l. induction l as [|[k0 v0] t IH]; cbn [aremove map fst]; intros Hnd; [constructor|].
    inversion Hnd as [|x xs Hnotin Hnd']; subst.
    destruct (k =? k0); [auto|]. cbn [map fst]. constructor; [|auto].
    intro Hin. apply Hnotin. apply sw_aremove_keys_incl in Hin. tauto.
  Qed.

  Lemma sw_aset_nodup : forall k (v : A) l, NoDup (map fst l) -> NoDup (map fst (aset k v l)).
  Proof.
    intros k v l Hnd. unfold aset. cbn [map fst]. constructor.
    - intro Hin. apply sw_aremove_keys_incl in Hin. tauto.
    - apply sw_aremove_nodup. assumption.
  Qed.
End SwAList.

(** * Frame facts: what the primitives of the model leave alone *)
Ltac proj_simpl :=
  cbn [store weights used ticker queue acks lfu pool chan st now next_id next_ack shut consumer_run sweeper_run
       worker sweeper consumer blocked
       set_store set_weights set_used set_ticker set_queue set_acks set_lfu set_pool set_chan set_st set_now
       set_next_id set_next_ack set_shut set_consumer_run set_sweeper_run set_worker set_sweeper set_consumer
       set_blocked upd_st set_ack fst snd] in *.

(** destruct an innermost scrutinee of the goal *)
Ltac dinner :=
  match goal with
  | |- context [match ?x with _ => _ end] =>
      lazymatch x with
      | context [match _ with _ => _ end] => fail
      | _ => destruct x eqn:?
      end
  end.

(** store and clock untouched *)
Definition same_sn (s s' : state) : Prop := store s' = store s /\ now s' = now s.

Lemma same_sn_refl : forall s, same_sn s s.
Proof. intros s; split; reflexivity. Qed.

Lemma same_sn_trans : forall s1 s2 s3, same_sn s1 s2 -> same_sn s2 s3 -> same_sn s1 s3.
Proof. intros s1 s2 s3 [H1 H2] [H3 H4]. split; congruence. Qed.

Lemma sn_accept_batch : forall hs s, same_sn s (accept_batch hs s).
Proof.
  intros hs s. unfold accept_batch. repeat dinner; split; reflexivity.
Qed.

Lemma sn_pool_add : forall cfg i h s s', pool_add cfg i h s = Some s' -> same_sn s s'.
Proof.
  intros cfg i h s s' H. unfold pool_add in H.
  destruct ((i <? 0) || (c_pool cfg <=? i)); [discriminate|].
  destruct (nth_error (pool s) (Z.to_nat i)) as [buf|]; [|discriminate].
  destruct (c_buffer cfg <=? Z.of_nat (length buf)); inversion H; subst; clear H.
  - destruct (sn_accept_batch buf s) as [H1 H2]. split; proj_simpl; assumption.
  - split; reflexivity.
Qed.

Lemma sn_read_one : forall cfg k idxs s v s' r, read_one cfg k idxs s = Some (v, s', r) -> same_sn s s'.
Proof.
  intros cfg k idxs s v s' r H. unfold read_one in H.
  destruct (lookup_alive k s) as [e|].
  - destruct idxs as [|i idxs']; [discriminate|].
    destruct (pool_add cfg i (key_hash (c_hash cfg) k) (upd_st add_hits 1 s)) as [s1|] eqn:E; [|discriminate].
    inversion H; subst; clear H. apply sn_pool_add in E. destruct E as [H1 H2]. split; proj_simpl; assumption.
  - inversion H; subst; clear H. split; reflexivity.
Qed.

Lemma sn_read_many : forall cfg ks idxs s vs s' r, read_many cfg ks idxs s = Some (vs, s', r) -> same_sn s s'.
Proof.
  intros cfg ks. induction ks as [|k t IH]; intros idxs s vs s' r H; cbn [read_many] in H.
  - inversion H; subst. apply same_sn_refl.
  - destruct (read_one cfg k idxs s) as [[[v s1] i1]|] eqn:E1; [|discriminate].
    destruct (read_many cfg t i1 s1) as [[[vs2 s2] i2]|] eqn:E2; [|discriminate].
    inversion H; subst; clear H.
    eapply same_sn_trans; [eapply sn_read_one; eassumption|eapply IH; eassumption].
Qed.

Lemma sn_do_send : forall cfg tid c s, same_sn s (fst (do_send cfg tid c s)).
Proof.
  intros cfg tid c s. unfold do_send. repeat dinner; split; reflexivity.
Qed.

Lemma now_do_send : forall cfg tid c s, now (fst (do_send cfg tid c s)) = now s.
Proof. intros. apply sn_do_send. Qed.

Lemma store_do_send : forall cfg tid c s, store (fst (do_send cfg tid c s)) = store s.
Proof. intros. apply sn_do_send. Qed.

Lemma now_shutdown_chan : forall tid s, now (fst (shutdown_chan tid s)) = now s.
Proof.
  intros tid s. unfold shutdown_chan, shutdown_finish. repeat dinner; reflexivity.
Qed.

Lemma now_shutdown_cmd : forall cfg tid s, now (fst (shutdown_cmd cfg tid s)) = now s.
Proof.
  intros cfg tid s. unfold shutdown_cmd. repeat dinner; rewrite ?now_shutdown_chan; reflexivity.
Qed.

Lemma sn_call_put : forall cfg tid k v w ttl s, same_sn s (fst (call_put cfg tid k v w ttl s)).
Proof.
  intros cfg tid k v w ttl s. unfold call_put.
  repeat dinner; try apply same_sn_refl;
    (eapply same_sn_trans; [|apply sn_do_send]); split; reflexivity.
Qed.

Lemma call_upsert_frame : forall cfg tid k v w ttl rm s,
  now (fst (call_upsert cfg tid k v w ttl rm s)) = now s /\
  forall k0, k0 <> k -> alookup k0 (store (fst (call_upsert cfg tid k v w ttl rm s))) = alookup k0 (store s).
Proof.
  intros cfg tid k v w ttl rm s. unfold call_upsert.
  repeat dinner;
    repeat match goal with H : (_, _) = (_, _) |- _ => inversion H; subst; clear H end;
    (split; [|intros k0 Hk0]);
    repeat match goal with
    | |- context [fst (do_send ?c ?t ?x ?y)] =>
        let H1 := fresh in let H2 := fresh in
        destruct (sn_do_send c t x y) as [H1 H2]; rewrite ?H1, ?H2; clear H1 H2
    end; proj_simpl; try reflexivity;
    rewrite sw_alookup_aset; destruct (k0 =? k) eqn:?; try lia; reflexivity.
Qed.

Lemma now_call : forall cfg tid r idxs s, now (fst (call cfg tid r idxs s)) = now s.
Proof.
  intros cfg tid r idxs s. unfold call.
  destruct (amem tid (blocked s)); [reflexivity|].
  destruct r;
    repeat match goal with
    | |- context [if ?b then _ else _] =>
        lazymatch b with context [match _ with _ => _ end] => fail | _ => destruct b eqn:? end
    end; try reflexivity;
    try (apply (sn_call_put)).
  - apply (call_upsert_frame).
  - destruct (alookup k (store s)); rewrite now_do_send; reflexivity.
  - destruct (read_one cfg k idxs s) as [[[v s1] [|]]|] eqn:E; try reflexivity. apply sn_read_one in E. apply E.
  - destruct (read_one cfg k idxs s) as [[[v s1] [|]]|] eqn:E; try reflexivity. apply sn_read_one in E. apply E.
  - destruct (read_one cfg k idxs s) as [[[v s1] [|]]|] eqn:E; try reflexivity. apply sn_read_one in E. apply E.
  - destruct (read_one cfg k idxs s) as [[[v s1] [|]]|] eqn:E; try reflexivity. apply sn_read_one in E. apply E.
  - destruct (read_many cfg ks idxs s) as [[[v s1] [|]]|] eqn:E; try reflexivity. apply sn_read_many in E. apply E.
  - destruct (read_many cfg ks idxs s) as [[[v s1] [|]]|] eqn:E; try reflexivity. apply sn_read_many in E. apply E.
  - destruct (read_many cfg ks idxs s) as [[[v s1] [|]]|] eqn:E; try reflexivity. apply sn_read_many in E. apply E.
  - rewrite now_shutdown_cmd. reflexivity.
Qed.

Lemma now_resume : forall cfg tid s, now (fst (resume cfg tid s)) = now s.
Proof.
  intros cfg tid s. unfold resume. cbv zeta.
  repeat dinner; rewrite ?now_do_send, ?now_shutdown_cmd, ?now_shutdown_chan; reflexivity.
Qed.

Definition out_prop (P : state -> Prop) (o : outcome state) : Prop :=
  match o with Ok s' => P s' | Panic _ s' => P s' | Inadmissible _ => True end.

Lemma sn_store_delete_now : forall k s, now (store_delete k s) = now s.
Proof. intros k s. unfold store_delete. destruct (alookup k (store s)); reflexivity. Qed.

Lemma frame_weights_delete : forall cfg id hook s,
  out_prop (fun s' => now s' = now s /\ (hook = false -> store s' = store s)) (weights_delete cfg id hook s).
Proof.
  intros cfg id hook s. unfold weights_delete.
  destruct (alookup id (weights s)) as [wk|]; [|split; reflexivity].
  cbv zeta. destruct (add_i64 cfg (used (set_weights s (aremove id (weights s)))) (- w_weight wk)) as [u|];
    cbn [out_prop]; [|split; reflexivity].
  destruct hook; proj_simpl.
  - split; [rewrite sn_store_delete_now; reflexivity|discriminate].
  - split; reflexivity.
Qed.

Lemma sn_weights_add : forall cfg k id h w s, out_prop (same_sn s) (weights_add cfg k id h w s).
Proof.
  intros cfg k id h w s. unfold weights_add. cbv zeta.
  destruct (add_i64 cfg (used (set_weights s (aset id {| w_key := k; w_hash := h; w_weight := w |} (weights s)))) w);
    cbn [out_prop]; split; reflexivity.
Qed.

Lemma sn_weights_update : forall cfg id w s, out_prop (same_sn s) (weights_update cfg id w s).
Proof.
  intros cfg id w s. unfold weights_update.
  destruct (alookup id (weights s)) as [wk|]; [|apply same_sn_refl].
  destruct (add_i64 cfg (used s) (w - w_weight wk)); cbn [out_prop]; split; reflexivity.
Qed.

Lemma now_create_space_loop : forall fuel cfg est inc w orders pops sm space s vs,
  now (snd (fst (create_space_loop fuel cfg est inc w orders pops sm space s vs))) = now s.
Proof.
  intros fuel cfg est inc w. induction fuel as [|fuel IH]; intros orders pops sm space s vs;
    cbn [create_space_loop]; [reflexivity|].
  repeat dinner; try reflexivity;
    match goal with H : weights_delete cfg ?p true s = _ |- _ =>
      let Hf := fresh "Hf" in
      pose proof (frame_weights_delete cfg p true s) as Hf; rewrite H in Hf; cbn [out_prop] in Hf;
      destruct Hf as [Hf _]
    end; rewrite ?IH; cbn [fst snd]; assumption.
Qed.

Lemma admission_frame : forall cfg orc k id h w s r s1 vs, admission cfg orc k id h w s = (r, s1, vs) ->
  now s1 = now s /\ (w <= c_max cfg - used s -> store s1 = store s).
Proof.
  intros cfg orc k id h w s r s1 vs H. unfold admission in H. cbv zeta in H.
  destruct (c_max cfg <? w) eqn:E1; [inversion H; subst; split; reflexivity|].
  pose proof (sn_weights_add cfg k id h w s) as Hadd.
  destruct (w <=? c_max cfg - used s) eqn:E2.
  - destruct (weights_add cfg k id h w s) as [sa|site sa|why]; cbn [out_prop] in Hadd; inversion H; subst; clear H.
    + destruct Hadd as [H1 H2]. split; [assumption|intros _; assumption].
    + destruct Hadd as [H1 H2]. split; [assumption|intros _; assumption].
    + split; reflexivity.
  - assert (Hn : now s1 = now s); [|split; [assumption|intros; lia]].
    clear Hadd.
    destruct (negb (bloom_admissible (lfu_door (lfu s)) (o_bloom orc))); [inversion H; subst; reflexivity|].
    destruct (est_panics (lfu s)); [inversion H; subst; reflexivity|].
    destruct (o_orders orc) as [|order0 orders]; [inversion H; subst; reflexivity|].
    destruct (negb (Nat.leb (length order0) sample_size)); [inversion H; subst; reflexivity|].
    destruct (sample_fill (estimate_with (lfu s) (o_bloom orc)) (weights s) order0 []) as [sm0|];
      [|inversion H; subst; reflexivity].
    match type of H with context [create_space_loop ?a ?b ?c ?d ?e ?f ?g ?h0 ?i ?j ?k0] =>
      pose proof (now_create_space_loop a b c d e f g h0 i j k0) as Hl;
      destruct (create_space_loop a b c d e f g h0 i j k0) as [[r2 s2] vs2]
    end.
    cbn [fst snd] in Hl.
    destruct r2.
    + pose proof (sn_weights_add cfg k id h w s2) as Hadd.
      destruct (weights_add cfg k id h w s2) as [sa|site sa|why]; cbn [out_prop] in Hadd; inversion H; subst; clear H.
      * destruct Hadd as [_ H2]. congruence.
      * destruct Hadd as [_ H2]. congruence.
      * assumption.
    + inversion H; subst. assumption.
    + inversion H; subst. assumption.
    + inversion H; subst. assumption.
Qed.

Lemma sn_drain_queue : forall q s, same_sn s (drain_queue q s).
Proof.
  intros q. induction q as [|[c a] t IH]; intros s; cbn [drain_queue]; [apply same_sn_refl|].
  eapply same_sn_trans; [|apply IH]. split; reflexivity.
Qed.

Lemma now_worker_step : forall cfg orc s, now (fst (worker_step cfg orc s)) = now s.
Proof.
  intros cfg orc s. unfold worker_step.
  destruct (worker s); try reflexivity.
  destruct (queue s) as [|[c a] q]; [reflexivity|]. cbv zeta.
  destruct c as [k v id h w|k v id h w ttl|k|id w|].
  - destruct (amem k (store (set_queue s q))); [reflexivity|].
    destruct (admission cfg orc k id h w (set_queue s q)) as [[r s1] vs] eqn:E.
    apply admission_frame in E. destruct E as [E _]. proj_simpl.
    destruct r as [x| |]; [destruct x| |]; proj_simpl; try assumption; reflexivity.
  - destruct (amem k (store (set_queue s q))); [reflexivity|].
    destruct (admission cfg orc k id h w (set_queue s q)) as [[r s1] vs] eqn:E.
    apply admission_frame in E. destruct E as [E _]. proj_simpl.
    destruct r as [x| |]; [destruct x| |]; proj_simpl; try assumption; try reflexivity.
    destruct (calc_expiry (now s1) ttl); proj_simpl; assumption.
  - destruct (alookup k (store (set_queue s q))) as [e|]; [|reflexivity].
    pose proof (frame_weights_delete cfg (e_id e) false (store_delete k (set_queue s q))) as Hf.
    destruct (weights_delete cfg (e_id e) false (store_delete k (set_queue s q))); cbn [out_prop] in Hf;
      try reflexivity; destruct Hf as [Hf _]; rewrite sn_store_delete_now in Hf; proj_simpl.
    + destruct (e_exp e); proj_simpl; assumption.
    + assumption.
  - pose proof (sn_weights_update cfg id w (set_queue s q)) as Hf.
    destruct (weights_update cfg id w (set_queue s q)); cbn [out_prop] in Hf; try reflexivity;
      destruct Hf as [_ Hf]; proj_simpl; assumption.
  - proj_simpl. apply (sn_drain_queue q (set_queue s q)).
Qed.

Lemma now_sweep_entries : forall cfg n es s, out_prop (fun s' => now s' = now s) (sweep_entries cfg n es s).
Proof.
  intros cfg n es. induction es as [|[id e] t IH]; intros s; cbn [sweep_entries]; [reflexivity|].
  destruct (e <? n); [|apply IH].
  pose proof (frame_weights_delete cfg id true s) as Hf.
  destruct (weights_delete cfg id true s) as [s1|site s1|why]; cbn [out_prop] in *.
  - destruct Hf as [Hf _]. specialize (IH s1). destruct (sweep_entries cfg n t s1); cbn [out_prop] in *; congruence.
  - apply Hf.
  - exact I.
Qed.

Lemma now_sweep : forall cfg s, now (fst (sweep cfg s)) = now s.
Proof.
  intros cfg s. unfold sweep. destruct (sweeper s); try reflexivity. cbv zeta.
  match goal with |- context [sweep_entries ?a ?b ?c ?d] =>
    pose proof (now_sweep_entries a b c d) as Hf; destruct (sweep_entries a b c d) end;
    cbn [out_prop] in Hf; proj_simpl; try assumption; try reflexivity.
  destruct (sweeper_run a); proj_simpl; assumption.
Qed.

Lemma sn_drain : forall cfg bl s, same_sn s (fst (drain cfg bl s)).
Proof.
  intros cfg bl s. unfold drain. cbv zeta. repeat dinner; split; reflexivity.
Qed.

Lemma now_step : forall cfg s ev,
  now (step_state cfg s ev) = match ev with EAdvance dt => now s + dt | _ => now s end.
Proof.
  intros cfg s ev. unfold step_state, step. destruct ev.
  - apply now_call.
  - apply now_resume.
  - apply now_worker_step.
  - apply now_sweep.
  - apply sn_drain.
  - reflexivity.
  - reflexivity.
Qed.

(** * Sums of charges *)
Lemma sw_aremove_notin : forall (A : Type) k (l : list (Z * A)), ~ In k (map fst l) -> aremove k l = l.
Proof.
  intros A k l. induction l as [|[k0 v0] t IH]; cbn [aremove map fst]; intros H; [reflexivity|].
  destruct (k =? k0) eqn:E.
  - exfalso. apply H. left. lia.
  - f_equal. apply IH. intro Hin. apply H. right. assumption.
Qed.

Lemma weights_sum_cons : forall i w t, weights_sum ((i, w) :: t) = w_weight w + weights_sum t.
Proof. reflexivity. Qed.

Lemma weights_sum_aremove : forall id wk ws, NoDup (map fst ws) -> alookup id ws = Some wk ->
  weights_sum ws = w_weight wk + weights_sum (aremove id ws).
Proof.
  intros id wk ws. induction ws as [|[i w] t IH]; cbn [alookup aremove map fst]; intros Hnd H; [discriminate|].
  inversion Hnd as [|x xs Hnotin Hnd']; subst.
  destruct (id =? i) eqn:E.
  - inversion H; subst w. assert (id = i) by lia. subst i. rewrite (sw_aremove_notin _ _ _ Hnotin).
    apply weights_sum_cons.
  - rewrite !weights_sum_cons, (IH Hnd' H). lia.
Qed.

Lemma weights_sum_nonneg : forall ws, (forall i w, In (i, w) ws -> 0 < w_weight w) -> 0 <= weights_sum ws.
Proof.
  induction ws as [|[i w] t IH]; intros H; [unfold weights_sum; cbn; lia|].
  rewrite weights_sum_cons. pose proof (H i w (or_introl eq_refl)).
  assert (0 <= weights_sum t) by (apply IH; intros i' w' Hin; apply (H i' w'); right; assumption). lia.
Qed.

Lemma submap_sum : forall ws' ws id0 wk0, NoDup (map fst ws') -> NoDup (map fst ws) ->
  (forall i w, In (i, w) ws -> 0 < w_weight w) ->
  (forall i w, alookup i ws' = Some w -> alookup i ws = Some w) ->
  alookup id0 ws = Some wk0 -> alookup id0 ws' = None ->
  weights_sum ws' + w_weight wk0 <= weights_sum ws.
Proof.
  induction ws' as [|[i w] tl IH]; intros ws id0 wk0 Hnd' Hnd Hpos Hsub H0 H0'.
  - rewrite (weights_sum_aremove _ _ _ Hnd H0).
    assert (0 <= weights_sum (aremove id0 ws)).
    { apply weights_sum_nonneg. intros i w Hin. apply (Hpos i w). eapply sw_aremove_In; eassumption. }
    unfold weights_sum at 1. cbn [map zsum]. lia.
  - cbn [map fst] in Hnd'. inversion Hnd' as [|x xs Hnotin Hnd'']; subst.
    cbn [alookup] in H0'. destruct (id0 =? i) eqn:E0; [discriminate|].
    assert (Hi : alookup i ws = Some w).
    { apply Hsub. cbn [alookup]. rewrite Z.eqb_refl. reflexivity. }
    rewrite weights_sum_cons, (weights_sum_aremove _ _ _ Hnd Hi).
    assert (weights_sum tl + w_weight wk0 <= weights_sum (aremove i ws)); [|lia].
    apply (IH (aremove i ws) id0 wk0).
    + assumption.
    + apply sw_aremove_nodup. assumption.
    + intros i' w' Hin. apply (Hpos i' w'). eapply sw_aremove_In; eassumption.
    + intros j x Hj. assert (Hji : j <> i).
      { intro Heq. subst j. apply Hnotin. apply sw_alookup_In in Hj.
        change i with (fst (i, x)). apply in_map. assumption. }
      rewrite sw_alookup_aremove. destruct (j =? i) eqn:Eji; [lia|].
      apply Hsub. cbn [alookup]. rewrite Eji. assumption.
    + rewrite sw_alookup_aremove, E0. assumption.
    + assumption.
Qed.

Section Sweep.
(** proved in InvProofs.v; discharged in proofs/Closing.v *)
Hypothesis evict_inv : forall cfg s id s', wf_config cfg -> Inv cfg s -> weights_delete cfg id true s = Ok s' -> Inv cfg s'.
Hypothesis evict_no_panic : forall cfg s id, wf_config cfg -> Inv cfg s -> exists s', weights_delete cfg id true s = Ok s'.
Hypothesis step_inv : forall cfg s ev, wf_config cfg -> Inv cfg s -> valid_event ev ->
  worker (step_state cfg s ev) <> Dead -> Inv cfg (step_state cfg s ev).
Hypothesis dead_stays : forall cfg s ev, worker s = Dead -> worker (step_state cfg s ev) = Dead.


(** the entry is due in the shard the sweeper visits at the current instant *)
Definition expired_here (cfg : config) (s : state) (e : entry) : bool :=
  match e_exp e with
  | Some t => (t <? now s) && (shard_index cfg t =? shard_index cfg (now s))
  | None => false
  end.

(** fields a sweep never touches *)
Definition sweep_frame (s s' : state) : Prop :=
  queue s' = queue s /\ acks s' = acks s /\ lfu s' = lfu s /\ pool s' = pool s /\ chan s' = chan s /\ now s' = now s /\
  next_id s' = next_id s /\ next_ack s' = next_ack s /\ shut s' = shut s /\ worker s' = worker s /\ consumer s' = consumer s /\
  blocked s' = blocked s.

(** ** One eviction, described in terms of the state before *)
Definition evict_frame (s s' : state) : Prop :=
  ticker s' = ticker s /\ sweeper s' = sweeper s /\ sweeper_run s' = sweeper_run s /\ sweep_frame s s'.

Lemma evict_frame_refl : forall s, evict_frame s s.
Proof. intros s. unfold evict_frame, sweep_frame. repeat split. Qed.

Lemma evict_frame_trans : forall s1 s2 s3, evict_frame s1 s2 -> evict_frame s2 s3 -> evict_frame s1 s3.
Proof. unfold evict_frame, sweep_frame. intros s1 s2 s3 H1 H2. intuition congruence. Qed.

Lemma evict_spec : forall cfg s id, wf_config cfg -> Inv cfg s ->
  exists s', weights_delete cfg id true s = Ok s' /\ Inv cfg s' /\
    (forall i, alookup i (weights s') = if i =? id then None else alookup i (weights s)) /\
    (forall k, alookup k (store s') = match alookup k (store s) with
                                      | Some e => if e_id e =? id then None else Some e
                                      | None => None
                                      end) /\
    evict_frame s s'.
Proof.
  intros cfg s id Hwf HI.
  destruct (evict_no_panic cfg s id Hwf HI) as [s' Hs']. exists s'.
  split; [assumption|]. split; [eapply evict_inv; eassumption|].
  unfold weights_delete in Hs'. destruct (alookup id (weights s)) as [wk|] eqn:Ew.
  - cbv zeta in Hs'.
    destruct (add_i64 cfg (used (set_weights s (aremove id (weights s)))) (- w_weight wk)) as [u|]; [|discriminate].
    inversion Hs'; subst s'; clear Hs'.
    destruct (inv_charged_stored _ _ HI _ _ Ew) as [e0 [He0 Hid0]].
    unfold store_delete. proj_simpl. rewrite He0. proj_simpl.
    split; [|split].
    + intros i. apply sw_alookup_aremove.
    + intros k. rewrite sw_alookup_aremove. destruct (k =? w_key wk) eqn:Ek.
      * assert (k = w_key wk) by lia. subst k. rewrite He0.
        destruct (e_id e0 =? id) eqn:E; [reflexivity|lia].
      * destruct (alookup k (store s)) as [e|] eqn:Es; [|reflexivity].
        destruct (e_id e =? id) eqn:E; [|reflexivity]. exfalso.
        destruct (inv_store_charged _ _ HI _ _ Es) as [wk' [Hwk' Hk']].
        assert (e_id e = id) by lia. rewrite H in Hwk'. rewrite Ew in Hwk'. inversion Hwk'; subst wk'. lia.
    + unfold evict_frame, sweep_frame. repeat split.
  - inversion Hs'; subst s'; clear Hs'. split; [|split].
    + intros i. destruct (i =? id) eqn:E; [|reflexivity]. assert (i = id) by lia. subst i. assumption.
    + intros k. destruct (alookup k (store s)) as [e|] eqn:Es; [|reflexivity].
      destruct (e_id e =? id) eqn:E; [|reflexivity]. exfalso.
      destruct (inv_store_charged _ _ HI _ _ Es) as [wk' [Hwk' Hk']].
      assert (e_id e = id) by lia. congruence.
    + apply evict_frame_refl.
Qed.

(** [id] is listed as due before [n] *)
Fixpoint due (n : Z) (es : list (Z * Z)) (id : Z) : bool :=
  match es with
  | [] => false
  | (i, t) :: tl => ((i =? id) && (t <? n)) || due n tl id
  end.

Lemma due_true_iff : forall n es id, due n es id = true <-> exists t, In (id, t) es /\ t < n.
Proof.
  intros n es id. induction es as [|[i t] tl IH]; cbn [due In].
  - split; [discriminate|]. intros [t [[] _]].
  - rewrite orb_true_iff, IH. split.
    + intros [H|[t' [H1 H2]]].
      * exists t. split; [left; f_equal; lia|lia].
      * exists t'. split; [right; assumption|assumption].
    + intros [t' [[H|H] H2]].
      * inversion H; subst. left. lia.
      * right. exists t'. split; assumption.
Qed.

Lemma sweep_entries_spec : forall cfg n es s, wf_config cfg -> Inv cfg s ->
  exists s', sweep_entries cfg n es s = Ok s' /\ Inv cfg s' /\
    (forall i, alookup i (weights s') = if due n es i then None else alookup i (weights s)) /\
    (forall k, alookup k (store s') = match alookup k (store s) with
                                      | Some e => if due n es (e_id e) then None else Some e
                                      | None => None
                                      end) /\
    evict_frame s s'.
Proof.
  intros cfg n es. induction es as [|[id t] tl IH]; intros s Hwf HI.
  - exists s. cbn [sweep_entries due]. split; [reflexivity|]. split; [assumption|]. split; [reflexivity|].
    split; [|apply evict_frame_refl]. intros k. destruct (alookup k (store s)); reflexivity.
  - cbn [sweep_entries due]. destruct (t <? n) eqn:Et.
    + destruct (evict_spec cfg s id Hwf HI) as [s1 [H1 [HI1 [Hw1 [Hs1 Hf1]]]]]. rewrite H1.
      destruct (IH s1 Hwf HI1) as [s' [H2 [HI2 [Hw2 [Hs2 Hf2]]]]]. exists s'.
      split; [assumption|]. split; [assumption|]. split; [|split].
      * intros i. rewrite Hw2, Hw1. rewrite andb_true_r, (Z.eqb_sym id i).
        destruct (due n tl i); [rewrite orb_true_r; reflexivity|]. rewrite orb_false_r. reflexivity.
      * intros k. rewrite Hs2, Hs1. destruct (alookup k (store s)) as [e|]; [|reflexivity].
        rewrite andb_true_r, (Z.eqb_sym id (e_id e)).
        destruct (e_id e =? id); [reflexivity|]. rewrite orb_false_l. reflexivity.
      * eapply evict_frame_trans; eassumption.
    + destruct (IH s Hwf HI) as [s' [H2 [HI2 [Hw2 [Hs2 Hf2]]]]]. exists s'.
      split; [assumption|]. split; [assumption|]. split; [|split].
      * intros i. rewrite Hw2, andb_false_r, orb_false_l. reflexivity.
      * intros k. rewrite Hs2. destruct (alookup k (store s)) as [e|]; [|reflexivity].
        rewrite andb_false_r, orb_false_l. reflexivity.
      * assumption.
Qed.

(** the evictions never look at the index, so the replacement of the visited shard commutes with them *)
Lemma weights_delete_set_ticker : forall cfg id s s' tk, weights_delete cfg id true s = Ok s' ->
  weights_delete cfg id true (set_ticker s tk) = Ok (set_ticker s' tk).
Proof.
  intros cfg id s s' tk H. unfold weights_delete in *. proj_simpl.
  destruct (alookup id (weights s)) as [wk|]; [|inversion H; subst; reflexivity].
  destruct (add_i64 cfg (used s) (- w_weight wk)) as [u|]; [|discriminate].
  inversion H; subst s'; clear H. f_equal. unfold store_delete. proj_simpl.
  destruct (alookup (w_key wk) (store s)); reflexivity.
Qed.

Lemma sweep_entries_set_ticker : forall cfg n tk es s s', sweep_entries cfg n es s = Ok s' ->
  sweep_entries cfg n es (set_ticker s tk) = Ok (set_ticker s' tk).
Proof.
  intros cfg n tk es. induction es as [|[id t] tl IH]; intros s s' H; cbn [sweep_entries] in *.
  - inversion H; subst. reflexivity.
  - destruct (t <? n); [|apply IH; assumption].
    destruct (weights_delete cfg id true s) as [s1|site s1|why] eqn:E; try discriminate.
    rewrite (weights_delete_set_ticker cfg id s s1 tk E). apply IH. assumption.
Qed.

Lemma shard_entries_aset : forall sh l tk sh',
  shard_entries (aset sh l tk) sh' = if sh' =? sh then l else shard_entries tk sh'.
Proof.
  intros sh l tk sh'. unfold shard_entries. rewrite sw_alookup_aset. destruct (sh' =? sh); reflexivity.
Qed.

Lemma shard_nodup : forall cfg s sh, Inv cfg s -> NoDup (map fst (shard_entries (ticker s) sh)).
Proof.
  intros cfg s sh HI. unfold shard_entries. destruct (alookup sh (ticker s)) as [l|] eqn:E; [|constructor].
  apply sw_alookup_In in E. destruct (inv_ticker_nodup _ _ HI) as [_ H]. eapply H. eassumption.
Qed.

(** for a stored entry, being listed as due in the visited shard is being expired there *)
Lemma due_expired : forall cfg s k e, Inv cfg s -> alookup k (store s) = Some e ->
  due (now s) (shard_entries (ticker s) (shard_index cfg (now s))) (e_id e) = expired_here cfg s e.
Proof.
  intros cfg s k e HI Hk.
  destruct (expired_here cfg s e) eqn:Ex.
  - apply due_true_iff. unfold expired_here in Ex. destruct (e_exp e) as [t|] eqn:Et; [|discriminate].
    exists t. split; [|lia]. apply sw_alookup_In.
    assert (Hsh : shard_index cfg (now s) = shard_index cfg t) by lia. rewrite Hsh.
    eapply inv_ticker_complete; eassumption.
  - destruct (due (now s) (shard_entries (ticker s) (shard_index cfg (now s))) (e_id e)) eqn:Ed; [|reflexivity].
    exfalso. apply due_true_iff in Ed. destruct Ed as [t [Hin Ht]].
    apply sw_In_alookup in Hin; [|eapply shard_nodup; eassumption].
    destruct (inv_ticker_sound _ _ HI _ _ _ Hin) as [Hsh Hs].
    destruct (inv_store_charged _ _ HI _ _ Hk) as [wk [Hwk Hkk]].
    destruct (Hs _ Hwk) as [e' [He' [_ Hexp]]]. rewrite Hkk, Hk in He'. inversion He'; subst e'.
    unfold expired_here in Ex. rewrite Hexp in Ex. lia.
Qed.

(** ** The sweep as a whole *)
Lemma sweep_core : forall cfg s, wf_config cfg -> Inv cfg s -> sweeper s = Alive ->
  exists s2,
    Inv cfg s2 /\
    (forall i, alookup i (weights s2) =
       if due (now s) (shard_entries (ticker s) (shard_index cfg (now s))) i then None else alookup i (weights s)) /\
    (forall k, alookup k (store s2) =
       match alookup k (store s) with
       | Some e => if expired_here cfg s e then None else Some e
       | None => None
       end) /\
    evict_frame s s2 /\
    step_state cfg s ESweep =
      (let s3 := set_ticker s2 (aset (shard_index cfg (now s))
                   (filter (fun p => negb (snd p <? now s)) (shard_entries (ticker s) (shard_index cfg (now s))))
                   (ticker s)) in
       if sweeper_run s3 then s3 else set_sweeper s3 Exited).
Proof.
  intros cfg s Hwf HI Hal.
  destruct (sweep_entries_spec cfg (now s) (shard_entries (ticker s) (shard_index cfg (now s))) s Hwf HI)
    as [s2 [H2 [HI2 [Hw2 [Hs2 Hf2]]]]].
  exists s2. split; [assumption|]. split; [assumption|]. split; [|split; [assumption|]].
  - intros k. rewrite Hs2. destruct (alookup k (store s)) as [e|] eqn:Ek; [|reflexivity].
    rewrite (due_expired cfg s k e HI Ek). reflexivity.
  - unfold step_state, step, sweep. rewrite Hal. cbv zeta.
    rewrite (sweep_entries_set_ticker cfg _ _ _ _ _ H2). reflexivity.
Qed.

(** ** The invariant after a sweep, by direct construction.
    NOTE: these two lemmas build [Inv] field by field (everything else in this file only uses [Inv] as a hypothesis).
    Clauses of [Inv] that do not mention the ticker are discharged generically; a new clause about the ticker
    needs a new bullet in [Inv_filter_shard]. *)
Lemma Inv_set_sweeper : forall cfg s r, Inv cfg s -> Inv cfg (set_sweeper s r).
Proof. intros cfg s r HI. destruct HI. constructor; assumption. Qed.

Lemma ticker_ids_filter_incl : forall (tk : list (Z * list (Z * Z))) sh f id,
  In id (flat_map (fun shl : Z * list (Z * Z) => map fst (snd shl)) (aset sh (filter f (shard_entries tk sh)) tk)) ->
  In id (flat_map (fun shl : Z * list (Z * Z) => map fst (snd shl)) tk).
Proof.
  intros tk sh f id H. apply in_flat_map in H. destruct H as [[sh' l] [Hin Hid]]. cbn [snd] in Hid.
  apply in_flat_map. unfold aset in Hin. destruct Hin as [Heq|Hin].
  - inversion Heq; subst. apply sw_filter_keys_incl in Hid. unfold shard_entries in Hid.
    destruct (alookup sh' tk) as [l0|] eqn:E; [|destruct Hid].
    exists (sh', l0). split; [apply sw_alookup_In; assumption|assumption].
  - exists (sh', l). split; [eapply sw_aremove_In; eassumption|assumption].
Qed.

Lemma Inv_filter_shard : forall cfg s sh f, Inv cfg s ->
  (forall k e t, alookup k (store s) = Some e -> e_exp e = Some t -> shard_index cfg t = sh -> f (e_id e, t) = true) ->
  Inv cfg (set_ticker s (aset sh (filter f (shard_entries (ticker s) sh)) (ticker s))).
Proof.
  intros cfg s sh f HI Hf.
  constructor; try (destruct HI; assumption).
  - (* inv_ticker_nodup *)
    proj_simpl. split; [apply sw_aset_nodup; apply (inv_ticker_nodup _ _ HI)|].
    intros sh' l Hin. destruct Hin as [Heq|Hin].
    + inversion Heq; subst. apply sw_filter_nodup. eapply shard_nodup; eassumption.
    + apply sw_aremove_In in Hin. destruct (inv_ticker_nodup _ _ HI) as [_ H]. eapply H; eassumption.
  - (* inv_ticker_sound *)
    intros sh' id t H. proj_simpl. rewrite shard_entries_aset in H. destruct (sh' =? sh) eqn:E.
    + assert (sh' = sh) by lia; subst sh'.
      apply sw_alookup_filter in H; [|eapply shard_nodup; eassumption]. destruct H as [H _].
      exact (inv_ticker_sound _ _ HI _ _ _ H).
    + exact (inv_ticker_sound _ _ HI _ _ _ H).
  - (* inv_ticker_complete *)
    intros k e t Hk He. proj_simpl. rewrite shard_entries_aset. destruct (shard_index cfg t =? sh) eqn:E.
    + apply sw_alookup_filter; [eapply shard_nodup; eassumption|]. split.
      * assert (Hsh : sh = shard_index cfg t) by lia. rewrite Hsh. eapply inv_ticker_complete; eassumption.
      * eapply Hf; try eassumption. lia.
    + eapply inv_ticker_complete; eassumption.
  - (* inv_ids_ticker *)
    intros id Hin. unfold ticker_ids in Hin. proj_simpl. apply ticker_ids_filter_incl in Hin.
    exact (inv_ids_ticker _ _ HI id Hin).
  - (* inv_ids_pending *)
    destruct (inv_ids_pending _ _ HI) as [H1 H2]. split; [exact H1|].
    intros id Hin. destruct (H2 id Hin) as [Ha [Hb Hc]]. split; [exact Ha|]. split; [exact Hb|].
    intro Hin'. apply Hc. unfold ticker_ids in *. proj_simpl. eapply ticker_ids_filter_incl; eassumption.
Qed.

(** everything [sweep_exact] says except [Inv] of the result, plus two facts about the ledger of the result *)
Lemma sweep_exact_noinv : forall cfg s, wf_config cfg -> Inv cfg s -> sweeper s = Alive ->
  let s' := step_state cfg s ESweep in
  (forall k, alookup k (store s') =
     match alookup k (store s) with
     | Some e => if expired_here cfg s e then None else Some e
     | None => None
     end) /\
  (forall id, alookup id (weights s') =
     match alookup id (weights s) with
     | Some wk => match alookup (w_key wk) (store s) with
                  | Some e => if expired_here cfg s e then None else Some wk
                  | None => Some wk
                  end
     | None => None
     end) /\
  (forall sh, sh <> shard_index cfg (now s) -> shard_entries (ticker s') sh = shard_entries (ticker s) sh) /\
  (forall id t, alookup id (shard_entries (ticker s') (shard_index cfg (now s))) = Some t <->
                alookup id (shard_entries (ticker s) (shard_index cfg (now s))) = Some t /\ now s <= t) /\
  sweep_frame s s' /\ sweeper s' <> Dead /\
  used s' = weights_sum (weights s') /\ NoDup (map fst (weights s')).
Proof.
  intros cfg s Hwf HI Hal s'.
  destruct (sweep_core cfg s Hwf HI Hal) as [s2 [HI2 [Hw2 [Hs2 [Hf2 Hstep]]]]].
  subst s'. rewrite Hstep. clear Hstep. cbv zeta.
  destruct Hf2 as [Ht [Hsw [Hrun Hfr]]].
  assert (Hnd : NoDup (map fst (shard_entries (ticker s) (shard_index cfg (now s)))))
    by (eapply shard_nodup; eassumption).
  match goal with |- context [if ?b then _ else _] => destruct b end; proj_simpl.
  all: (split; [exact Hs2|]).
  all: (split; [intros id; rewrite Hw2; destruct (alookup id (weights s)) as [wk|] eqn:E;
                 [destruct (inv_charged_stored _ _ HI _ _ E) as [e [He Hid]]; rewrite He, <- Hid;
                  rewrite (due_expired cfg s _ e HI He); reflexivity
                 |match goal with |- context [if ?b then _ else _] => destruct b end; reflexivity]|]).
  all: (split; [intros sh Hsh; rewrite shard_entries_aset; destruct (sh =? shard_index cfg (now s)) eqn:E;
                 [lia|reflexivity]|]).
  all: (split; [intros id t; rewrite shard_entries_aset, Z.eqb_refl; rewrite (sw_alookup_filter _ _ _ _ _ Hnd);
                 cbn [snd]; split; intros [H1 H2]; (split; [exact H1|lia])|]).
  all: (split; [exact Hfr|]).
  all: (split; [congruence|]).
  all: (split; [exact (inv_used_sum _ _ HI2)|exact (inv_weights_nodup _ _ HI2)]).
Qed.

Lemma sweep_inv_direct : forall cfg s, wf_config cfg -> Inv cfg s -> sweeper s = Alive ->
  Inv cfg (step_state cfg s ESweep).
Proof.
  intros cfg s Hwf HI Hal.
  destruct (sweep_core cfg s Hwf HI Hal) as [s2 [HI2 [Hw2 [Hs2 [Hf2 Hstep]]]]].
  rewrite Hstep. clear Hstep. cbv zeta.
  destruct Hf2 as [Ht [Hsw [Hrun Hfr]]]. rewrite <- Ht.
  assert (HI3 : Inv cfg (set_ticker s2 (aset (shard_index cfg (now s))
                   (filter (fun p => negb (snd p <? now s)) (shard_entries (ticker s2) (shard_index cfg (now s))))
                   (ticker s2)))).
  { apply Inv_filter_shard; [assumption|].
    intros k e t Hk He Hsh. cbn [snd]. specialize (Hs2 k). rewrite Hk in Hs2.
    destruct (alookup k (store s)) as [e0|]; [|discriminate].
    destruct (expired_here cfg s e0) eqn:Ex; [discriminate|]. inversion Hs2; subst e0.
    unfold expired_here in Ex. rewrite He in Ex. lia. }
  match goal with |- context [if ?b then _ else _] => destruct b end;
    [assumption|apply Inv_set_sweeper; assumption].
Qed.

(* STATEMENT: one sweep removes exactly the stored keys that are due in the visited shard, releases exactly their
   charges, keeps exactly the not-yet-due index entries of that shard, and touches nothing else *)
Lemma sweep_exact : forall cfg s, wf_config cfg -> Inv cfg s -> sweeper s = Alive ->
  let s' := step_state cfg s ESweep in
  (forall k, alookup k (store s') =
     match alookup k (store s) with
     | Some e => if expired_here cfg s e then None else Some e
     | None => None
     end) /\
  (forall id, alookup id (weights s') =
     match alookup id (weights s) with
     | Some wk => match alookup (w_key wk) (store s) with
                  | Some e => if expired_here cfg s e then None else Some wk
                  | None => Some wk
                  end
     | None => None
     end) /\
  (forall sh, sh <> shard_index cfg (now s) -> shard_entries (ticker s') sh = shard_entries (ticker s) sh) /\
  (forall id t, alookup id (shard_entries (ticker s') (shard_index cfg (now s))) = Some t <->
                alookup id (shard_entries (ticker s) (shard_index cfg (now s))) = Some t /\ now s <= t) /\
  sweep_frame s s' /\ Inv cfg s' /\ sweeper s' <> Dead.
Proof.
  intros cfg s Hwf HI Hal s'. subst s'.
  destruct (sweep_exact_noinv cfg s Hwf HI Hal) as [H1 [H2 [H3 [H4 [H5 [H6 _]]]]]].
  split; [exact H1|]. split; [exact H2|]. split; [exact H3|]. split; [exact H4|]. split; [exact H5|].
  split; [apply sweep_inv_direct; assumption|exact H6].
Qed.

(** the same facts with [Inv] of the result obtained from [step_inv] instead of [sweep_inv_direct]; this variant
    does not depend on the shape of [Inv] but needs a worker that has not panicked *)
Lemma sweep_exact_live_worker : forall cfg s, wf_config cfg -> Inv cfg s -> sweeper s = Alive -> worker s <> Dead ->
  let s' := step_state cfg s ESweep in
  (forall k, alookup k (store s') =
     match alookup k (store s) with
     | Some e => if expired_here cfg s e then None else Some e
     | None => None
     end) /\
  (forall id, alookup id (weights s') =
     match alookup id (weights s) with
     | Some wk => match alookup (w_key wk) (store s) with
                  | Some e => if expired_here cfg s e then None else Some wk
                  | None => Some wk
                  end
     | None => None
     end) /\
  (forall sh, sh <> shard_index cfg (now s) -> shard_entries (ticker s') sh = shard_entries (ticker s) sh) /\
  (forall id t, alookup id (shard_entries (ticker s') (shard_index cfg (now s))) = Some t <->
                alookup id (shard_entries (ticker s) (shard_index cfg (now s))) = Some t /\ now s <= t) /\
  sweep_frame s s' /\ Inv cfg s' /\ sweeper s' <> Dead.
Proof.
  intros cfg s Hwf HI Hal Hw s'. subst s'.
  destruct (sweep_exact_noinv cfg s Hwf HI Hal) as [H1 [H2 [H3 [H4 [H5 [H6 _]]]]]].
  split; [exact H1|]. split; [exact H2|]. split; [exact H3|]. split; [exact H4|]. split; [exact H5|].
  split; [|exact H6].
  apply step_inv; [assumption|assumption|exact I|].
  unfold sweep_frame in H5. destruct H5 as [_ [_ [_ [_ [_ [_ [_ [_ [_ [H5 _]]]]]]]]]]. rewrite H5. assumption.
Qed.

(* STATEMENT: a sweep never removes a key without time-to-live, a key whose expiry lies in the future, or a key that
   is due in another shard; the entry survives unchanged *)
Lemma sweep_spares : forall cfg s k e, wf_config cfg -> Inv cfg s -> sweeper s = Alive ->
  alookup k (store s) = Some e ->
  (e_exp e = None \/ (exists t, e_exp e = Some t /\ now s <= t) \/
   (exists t, e_exp e = Some t /\ shard_index cfg t <> shard_index cfg (now s))) ->
  alookup k (store (step_state cfg s ESweep)) = Some e.
Proof.
  intros cfg s k e Hwf HI Hal Hk Hc.
  destruct (sweep_exact_noinv cfg s Hwf HI Hal) as [H1 _]. rewrite H1, Hk.
  assert (Hx : expired_here cfg s e = false); [|rewrite Hx; reflexivity].
  unfold expired_here. destruct Hc as [Hc|[[t [Hc Ht]]|[t [Hc Ht]]]]; rewrite Hc; [reflexivity|lia|lia].
Qed.

(* STATEMENT: a sweep at an instant past the expiry that visits the expiry's shard removes the key and its charge *)
Lemma sweep_removes_due : forall cfg s k e t wk, wf_config cfg -> Inv cfg s -> sweeper s = Alive ->
  alookup k (store s) = Some e -> e_exp e = Some t -> t < now s ->
  shard_index cfg t = shard_index cfg (now s) ->
  alookup (e_id e) (weights s) = Some wk ->
  let s' := step_state cfg s ESweep in
  alookup k (store s') = None /\ alookup (e_id e) (weights s') = None /\ used s' <= used s - w_weight wk.
Proof.
  intros cfg s k e t wk Hwf HI Hal Hk He Ht Hsh Hwk s'. subst s'.
  destruct (sweep_exact_noinv cfg s Hwf HI Hal) as [H1 [H2 [_ [_ [_ [_ [Hu Hnd]]]]]]].
  assert (Hx : expired_here cfg s e = true).
  { unfold expired_here. rewrite He. lia. }
  assert (Hkk : w_key wk = k).
  { destruct (inv_store_charged _ _ HI _ _ Hk) as [wk' [Hwk' Hk']]. congruence. }
  assert (Hnone : alookup (e_id e) (weights (step_state cfg s ESweep)) = None).
  { rewrite H2, Hwk, Hkk, Hk, Hx. reflexivity. }
  split; [rewrite H1, Hk, Hx; reflexivity|]. split; [exact Hnone|].
  rewrite Hu, (inv_used_sum _ _ HI).
  assert (weights_sum (weights (step_state cfg s ESweep)) + w_weight wk <= weights_sum (weights s)); [|lia].
  apply (submap_sum (weights (step_state cfg s ESweep)) (weights s) (e_id e) wk).
  - exact Hnd.
  - exact (inv_weights_nodup _ _ HI).
  - intros i w Hin. apply (inv_weights_pos _ _ HI i w). apply sw_In_alookup; [exact (inv_weights_nodup _ _ HI)|assumption].
  - intros i w Hi. rewrite H2 in Hi. destruct (alookup i (weights s)) as [wk1|]; [|discriminate].
    destruct (alookup (w_key wk1) (store s)) as [e1|]; [|assumption].
    destruct (expired_here cfg s e1); [discriminate|assumption].
  - exact Hwk.
  - exact Hnone.
Qed.

(* STATEMENT: an index entry whose id is no longer charged (the key was deleted or evicted earlier, possibly put
   again under a new id) is inert *)
Lemma stale_entry_inert : forall cfg s id, alookup id (weights s) = None -> weights_delete cfg id true s = Ok s.
Proof.
  intros cfg s id H. unfold weights_delete. rewrite H. reflexivity.
Qed.

(** D10: if the clock only ever advances by whole multiples of [shards] seconds between sweeps, the sweeper visits
    one shard for ever; a key that is due in another shard is never removed, however many sweeps occur *)
Fixpoint starving_rounds (cfg : config) (n : nat) : list event :=
  match n with
  | O => []
  | S n' => EAdvance (c_shards cfg * ns_per_sec) :: ESweep :: starving_rounds cfg n'
  end.

Lemma shard_index_period : forall cfg t, wf_config cfg ->
  shard_index cfg (t + c_shards cfg * ns_per_sec) = shard_index cfg t.
Proof.
  intros cfg t Hwf. pose proof (wf_shards _ Hwf) as Hs. unfold shard_index.
  rewrite Z.div_add by (unfold ns_per_sec; lia).
  replace (t / ns_per_sec + c_shards cfg) with (t / ns_per_sec + 1 * c_shards cfg) by lia.
  apply Z_mod_plus_full.
Qed.

(** a sweep (whatever the sweeper's role) keeps the worker's role and the clock *)
Lemma sweep_worker_now : forall cfg s, wf_config cfg -> Inv cfg s ->
  worker (step_state cfg s ESweep) = worker s /\ now (step_state cfg s ESweep) = now s.
Proof.
  intros cfg s Hwf HI. destruct (sweeper s) eqn:Esw.
  - destruct (sweep_exact_noinv cfg s Hwf HI Esw) as [_ [_ [_ [_ [Hfr _]]]]]. unfold sweep_frame in Hfr. tauto.
  - unfold step_state, step, sweep. rewrite Esw. split; reflexivity.
  - unfold step_state, step, sweep. rewrite Esw. split; reflexivity.
  - unfold step_state, step, sweep. rewrite Esw. split; reflexivity.
Qed.

(* STATEMENT *)
Lemma C10_starved_shard : forall n cfg s k e t, wf_config cfg -> Inv cfg s -> worker s <> Dead ->
  alookup k (store s) = Some e -> e_exp e = Some t ->
  shard_index cfg t <> shard_index cfg (now s) ->
  alookup k (store (run_from cfg s (starving_rounds cfg n))) = Some e.
Proof.
  unfold run_from.
  induction n as [|n IH]; intros cfg s k e t Hwf HI Hw Hk He Hsh; cbn [starving_rounds fold_left]; [assumption|].
  pose proof (wf_shards _ Hwf) as Hs.
  set (s1 := step_state cfg s (EAdvance (c_shards cfg * ns_per_sec))).
  assert (Hw1 : worker s1 = worker s) by reflexivity.
  assert (Hst1 : store s1 = store s) by reflexivity.
  assert (Hn1 : now s1 = now s + c_shards cfg * ns_per_sec) by reflexivity.
  assert (HI1 : Inv cfg s1).
  { apply step_inv; [assumption|assumption| |change (worker s1 <> Dead); rewrite Hw1; assumption].
    cbn [valid_event]. unfold ns_per_sec. lia. }
  destruct (sweep_worker_now cfg s1 Hwf HI1) as [Hw2 Hn2].
  set (s2 := step_state cfg s1 ESweep) in *.
  assert (HI2 : Inv cfg s2).
  { apply step_inv; [assumption|assumption|exact I|]. change (worker s2 <> Dead). rewrite Hw2, Hw1. assumption. }
  assert (Hsh1 : shard_index cfg t <> shard_index cfg (now s1)).
  { rewrite Hn1, shard_index_period by assumption. assumption. }
  assert (Hk2 : alookup k (store s2) = Some e).
  { destruct (sweeper s1) eqn:Esw.
    - apply (sweep_spares cfg s1 k e Hwf HI1 Esw Hk).
      right. right. exists t. split; assumption.
    - unfold s2, step_state, step, sweep. rewrite Esw. exact Hk.
    - unfold s2, step_state, step, sweep. rewrite Esw. exact Hk.
    - unfold s2, step_state, step, sweep. rewrite Esw. exact Hk. }
  apply (IH cfg s2 k e t); try assumption.
  - rewrite Hw2, Hw1. assumption.
  - rewrite Hn2. assumption.
Qed.

(** * C03 *)

Definition served_value (k : Z) (s : state) : Z := match lookup_alive k s with Some e => e_val e | None => -1 end.

(** events that are about [k] itself, or about everything (shutdown) *)
Definition touches (k : Z) (s : state) (ev : event) : Prop :=
  match ev with
  | ECall _ (RUpsert k' _ _ _ _) _ => k' = k
  | ECall _ (RDelete k') _ => k' = k
  | ECall _ RShutdown _ => True
  | ERun tid => match alookup tid (blocked s) with
                | Some KShutdownCmd => True | Some KShutdownChan => True | _ => False end
  | EWorker _ => match queue s with (CDelete k', _) :: _ => k' = k | _ => False end
  | _ => False
  end.

(** memory pressure: the put the worker is about to execute does not fit in the free space *)
Definition pressure (cfg : config) (s : state) (ev : event) : Prop :=
  match ev with
  | EWorker _ =>
      match queue s with
      | (CPut _ _ _ _ w, _) :: _ => c_max cfg - used s < w
      | (CPutTTL _ _ _ _ w _, _) :: _ => c_max cfg - used s < w
      | _ => False
      end
  | _ => False
  end.

(** ** What one event does to the entry of a key it is not about *)
Lemma store_call : forall cfg tid r idxs s k, ~ touches k s (ECall tid r idxs) ->
  alookup k (store (fst (call cfg tid r idxs s))) = alookup k (store s).
Proof.
  intros cfg tid r idxs s k Ht. unfold call.
  destruct (amem tid (blocked s)); [reflexivity|].
  destruct r; cbn [touches] in Ht;
    repeat match goal with
    | |- context [if ?b then _ else _] =>
        lazymatch b with context [match _ with _ => _ end] => fail | _ => destruct b eqn:? end
    end; try reflexivity;
    try (match goal with |- context [call_put ?a ?b ?c ?d ?e ?f ?g] =>
           let H := fresh in destruct (sn_call_put a b c d e f g) as [H _]; rewrite H; reflexivity end).
  - apply call_upsert_frame. intro Heq. apply Ht. symmetry. assumption.
  - rewrite store_do_send. destruct (alookup k0 (store s)); [|reflexivity]. proj_simpl.
    rewrite sw_alookup_aset. destruct (k =? k0) eqn:E; [|reflexivity]. exfalso. apply Ht. lia.
  - destruct (read_one cfg k0 idxs s) as [[[v s1] [|]]|] eqn:E; try reflexivity. apply sn_read_one in E.
    destruct E as [E _]. cbn [fst]. rewrite E. reflexivity.
  - destruct (read_one cfg k0 idxs s) as [[[v s1] [|]]|] eqn:E; try reflexivity. apply sn_read_one in E.
    destruct E as [E _]. cbn [fst]. rewrite E. reflexivity.
  - destruct (read_one cfg k0 idxs s) as [[[v s1] [|]]|] eqn:E; try reflexivity. apply sn_read_one in E.
    destruct E as [E _]. cbn [fst]. rewrite E. reflexivity.
  - destruct (read_one cfg k0 idxs s) as [[[v s1] [|]]|] eqn:E; try reflexivity. apply sn_read_one in E.
    destruct E as [E _]. cbn [fst]. rewrite E. reflexivity.
  - destruct (read_many cfg ks idxs s) as [[[v s1] [|]]|] eqn:E; try reflexivity. apply sn_read_many in E.
    destruct E as [E _]. cbn [fst]. rewrite E. reflexivity.
  - destruct (read_many cfg ks idxs s) as [[[v s1] [|]]|] eqn:E; try reflexivity. apply sn_read_many in E.
    destruct E as [E _]. cbn [fst]. rewrite E. reflexivity.
  - destruct (read_many cfg ks idxs s) as [[[v s1] [|]]|] eqn:E; try reflexivity. apply sn_read_many in E.
    destruct E as [E _]. cbn [fst]. rewrite E. reflexivity.
  - exfalso. apply Ht. exact I.
Qed.

Lemma store_resume : forall cfg tid s k, ~ touches k s (ERun tid) -> store (fst (resume cfg tid s)) = store s.
Proof.
  intros cfg tid s k Ht. unfold resume. cbn [touches] in Ht.
  destruct (alookup tid (blocked s)) as [c|]; [|reflexivity].
  destruct c; [|exfalso; apply Ht; exact I|exfalso; apply Ht; exact I].
  cbv zeta. repeat dinner; rewrite ?store_do_send; reflexivity.
Qed.

Lemma amem_false_neq : forall (A : Type) k k' (l : list (Z * A)) v, alookup k l = Some v -> amem k' l = false -> (k =? k') = false.
Proof.
  intros A k k' l v Hk Hm. destruct (k =? k') eqn:E; [|reflexivity]. assert (k = k') by lia. subst k'.
  unfold amem in Hm. rewrite Hk in Hm. discriminate.
Qed.

Lemma store_worker_step : forall cfg orc s k e, alookup k (store s) = Some e ->
  ~ touches k s (EWorker orc) -> ~ pressure cfg s (EWorker orc) ->
  alookup k (store (fst (worker_step cfg orc s))) = Some e.
Proof.
  intros cfg orc s k e Hk Ht Hp. unfold worker_step. cbn [touches pressure] in Ht, Hp.
  destruct (worker s); try exact Hk.
  destruct (queue s) as [|[c a] q]; [exact Hk|]. cbv zeta.
  destruct c as [k' v id h w|k' v id h w ttl|k'|id w|].
  - destruct (amem k' (store (set_queue s q))) eqn:Em; [exact Hk|].
    destruct (admission cfg orc k' id h w (set_queue s q)) as [[r s1] vs] eqn:E.
    apply admission_frame in E. destruct E as [_ E]. proj_simpl. specialize (E ltac:(lia)).
    pose proof (amem_false_neq _ _ _ _ _ Hk Em) as Hne.
    destruct r as [x| |]; [destruct x| |]; unfold store_insert; proj_simpl; rewrite ?sw_alookup_aset, ?Hne, ?E;
      exact Hk.
  - destruct (amem k' (store (set_queue s q))) eqn:Em; [exact Hk|].
    destruct (admission cfg orc k' id h w (set_queue s q)) as [[r s1] vs] eqn:E.
    apply admission_frame in E. destruct E as [_ E]. proj_simpl. specialize (E ltac:(lia)).
    pose proof (amem_false_neq _ _ _ _ _ Hk Em) as Hne.
    destruct r as [x| |]; [destruct x| |]; try destruct (calc_expiry (now s1) ttl);
      unfold store_insert; proj_simpl; rewrite ?sw_alookup_aset, ?Hne, ?E; exact Hk.
  - proj_simpl. destruct (alookup k' (store s)) as [e'|] eqn:Ek'; [|exact Hk].
    assert (Hne : (k =? k') = false).
    { destruct (k =? k') eqn:E; [|reflexivity]. exfalso. apply Ht. lia. }
    assert (Hsd : alookup k (store (store_delete k' (set_queue s q))) = Some e).
    { unfold store_delete. proj_simpl. rewrite Ek'. proj_simpl. rewrite sw_alookup_aremove, Hne. exact Hk. }
    pose proof (frame_weights_delete cfg (e_id e') false (store_delete k' (set_queue s q))) as Hf.
    destruct (weights_delete cfg (e_id e') false (store_delete k' (set_queue s q))); cbn [out_prop] in Hf.
    + destruct Hf as [_ Hf]. specialize (Hf eq_refl). destruct (e_exp e'); proj_simpl; rewrite Hf; exact Hsd.
    + destruct Hf as [_ Hf]. specialize (Hf eq_refl). proj_simpl. rewrite Hf. exact Hsd.
    + exact Hk.
  - pose proof (sn_weights_update cfg id w (set_queue s q)) as Hf.
    destruct (weights_update cfg id w (set_queue s q)); cbn [out_prop] in Hf; try exact Hk;
      destruct Hf as [Hf _]; proj_simpl; rewrite Hf; exact Hk.
  - proj_simpl. destruct (sn_drain_queue q (set_queue s q)) as [Hf _]. rewrite Hf. exact Hk.
Qed.

(* STATEMENT: one event that is not about k, under no memory pressure, leaves k's entry exactly as it was, unless it is
   a sweep at which the entry is due *)
Lemma step_preserves_entry : forall cfg s ev k e, wf_config cfg -> Inv cfg s -> valid_event ev ->
  alookup k (store s) = Some e ->
  ~ touches k s ev -> ~ pressure cfg s ev ->
  (ev = ESweep -> expired_here cfg s e = false) ->
  alookup k (store (step_state cfg s ev)) = Some e.
Proof.
  intros cfg s ev k e Hwf HI Hv Hk Ht Hp Hsw. unfold step_state, step. destruct ev.
  - rewrite store_call; assumption.
  - rewrite (store_resume cfg tid s k Ht). assumption.
  - apply store_worker_step; assumption.
  - destruct (sweeper s) eqn:Esw; try (unfold sweep; rewrite Esw; exact Hk).
    destruct (sweep_exact_noinv cfg s Hwf HI Esw) as [H1 _]. unfold step_state, step in H1.
    rewrite H1, Hk, (Hsw eq_refl). reflexivity.
  - destruct (sn_drain cfg bloom s) as [Hf _]. rewrite Hf. assumption.
  - exact Hk.
  - exact Hk.
Qed.

(* STATEMENT: the clock never runs backwards under valid events *)
Lemma now_monotone : forall cfg s ev, valid_event ev -> now s <= now (step_state cfg s ev).
Proof.
  intros cfg s ev Hv. rewrite now_step. destruct ev; cbn [valid_event] in Hv; lia.
Qed.

Lemma run_dead : forall cfg evs s, worker s = Dead -> worker (run_from cfg s evs) = Dead.
Proof.
  intros cfg evs. unfold run_from. induction evs as [|ev evs IH]; intros s H; cbn [fold_left]; [assumption|].
  apply IH. apply dead_stays. assumption.
Qed.

Lemma run_now_monotone : forall cfg evs s, Forall valid_event evs -> now s <= now (run_from cfg s evs).
Proof.
  intros cfg evs. unfold run_from. induction evs as [|ev evs IH]; intros s H; cbn [fold_left]; [lia|].
  inversion H as [|x xs Hv Hvs]; subst.
  pose proof (now_monotone cfg s ev Hv). pose proof (IH (step_state cfg s ev) Hvs). lia.
Qed.

Lemma served_of_entry : forall k s e, alookup k (store s) = Some e -> e_soft e = false ->
  (forall t, e_exp e = Some t -> now s <= t) -> served_value k s = e_val e.
Proof.
  intros k s e Hk Hsoft Hexp. unfold served_value, lookup_alive. rewrite Hk.
  assert (Ha : is_alive (now s) e = true); [|rewrite Ha; reflexivity].
  unfold is_alive, has_passed. rewrite Hsoft. destruct (e_exp e) as [t|]; [|reflexivity].
  specialize (Hexp t eq_refl). lia.
Qed.

(* STATEMENT: without memory pressure an accepted key stays readable with its value, whatever else happens, until
   it is touched itself or its time-to-live elapses *)
Lemma no_spurious_loss : forall evs cfg s k e, wf_config cfg -> Inv cfg s -> worker s <> Dead ->
  alookup k (store s) = Some e -> e_soft e = false ->
  Forall valid_event evs ->
  Forall (fun p => ~ touches k (fst p) (snd p) /\ ~ pressure cfg (fst p) (snd p)) (visits cfg s evs) ->
  let s' := run_from cfg s evs in
  worker s' <> Dead ->
  (forall t, e_exp e = Some t -> now s' <= t) ->
  alookup k (store s') = Some e /\ served_value k s' = e_val e.
Proof.
  induction evs as [|ev evs IH]; intros cfg s k e Hwf HI Hw Hk Hsoft Hval Hvis s' Hw' Hexp; subst s'.
  - cbn in *. split; [assumption|]. apply served_of_entry; assumption.
  - pose proof (run_now_monotone cfg (ev :: evs) s Hval) as Hmono.
    inversion Hval as [|x xs Hv Hvs]; subst.
    cbn [visits] in Hvis. inversion Hvis as [|y ys Hhd Htl]; subst. cbn [fst snd] in Hhd. destruct Hhd as [Ht Hp].
    change (run_from cfg s (ev :: evs)) with (run_from cfg (step_state cfg s ev) evs) in *.
    set (s1 := step_state cfg s ev) in *.
    assert (Hw1 : worker s1 <> Dead).
    { intro Hd. apply Hw'. apply run_dead. assumption. }
    assert (HI1 : Inv cfg s1) by (apply step_inv; assumption).
    assert (Hk1 : alookup k (store s1) = Some e).
    { apply step_preserves_entry; try assumption.
      intros _. unfold expired_here. destruct (e_exp e) as [t|] eqn:Ee; [|reflexivity].
      specialize (Hexp t eq_refl). lia. }
    apply (IH cfg s1 k e); assumption.
Qed.

End Sweep.

Print Assumptions sweep_exact.
Print Assumptions no_spurious_loss.
