(** C15 for any number of reading threads, one step at a time: every hit is in flight, buffered, delivered to the
    consumer's queue or counted as dropped - never lost, never counted twice; reads never wait for the consumer. *)
From CacheD Require Import Base PoolProto.
From Coq Require Import ZifyBool.

(** * Association-list facts *)
Section AL.
  Variable A : Type.
  Implicit Types l : list (Z * A).

  Lemma alookup_aremove k k' l : alookup k (aremove k' l) = if k =? k' then None else alookup k l.
  Proof.
    induction l as [|[k0 v] t IH]; cbn [aremove alookup].
    - destruct (k =? k'); reflexivity.
    - destruct (k' =? k0) eqn:E1.
      + rewrite IH. destruct (k =? k') eqn:E2; [reflexivity|].
        destruct (k =? k0) eqn:E3; [lia|reflexivity].
      + cbn [alookup]. rewrite IH.
        destruct (k =? k0) eqn:E3; destruct (k =? k') eqn:E2; try reflexivity; lia.
  Qed.

  Lemma alookup_aset k k' v l : alookup k (aset k' v l) = if k =? k' then Some v else alookup k l.
  Proof. unfold aset. cbn [alookup]. rewrite alookup_aremove. destruct (k =? k'); reflexivity. Qed.

  Lemma in_aremove k x l : In x (map fst (aremove k l)) -> In x (map fst l) /\ x <> k.
  Proof.
    induction l as [|[k0 v] t IH]; cbn [aremove map In fst].
    - tauto.
    - destruct (k =? k0) eqn:E.
      + intros H. apply IH in H. tauto.
      + cbn [map In fst]. intros [H|H].
        * split; [left; exact H | lia].
        * apply IH in H. tauto.
  Qed.

  Lemma nodup_aremove k l : NoDup (map fst l) -> NoDup (map fst (aremove k l)).
  Proof.
    induction l as [|[k0 v] t IH]; cbn [aremove map fst]; intros H.
    - constructor.
    - inversion H as [|? ? Hn Hd]; subst.
      destruct (k =? k0) eqn:E.
      + apply IH; exact Hd.
      + cbn [map fst]. constructor.
        * intros Hin. apply in_aremove in Hin. tauto.
        * apply IH; exact Hd.
  Qed.

  Lemma nodup_aset k v l : NoDup (map fst l) -> NoDup (map fst (aset k v l)).
  Proof.
    intros H. unfold aset. cbn [map fst]. constructor.
    - intros Hin. apply in_aremove in Hin. tauto.
    - apply nodup_aremove; exact H.
  Qed.

  Lemma alookup_notin k l : ~ In k (map fst l) -> alookup k l = None.
  Proof.
    induction l as [|[k0 v] t IH]; cbn [alookup map In fst]; intros H.
    - reflexivity.
    - destruct (k =? k0) eqn:E.
      + exfalso. apply H. left. lia.
      + apply IH. tauto.
  Qed.

  Variable f : Z * A -> Z.

  Lemma zsum_aremove k l : NoDup (map fst l) ->
    zsum (map f (aremove k l)) = zsum (map f l) - match alookup k l with Some v => f (k, v) | None => 0 end.
  Proof.
    induction l as [|[k0 v] t IH]; intros H.
    - cbn [aremove alookup map zsum]. lia.
    - cbn [map fst] in H. inversion H as [|? ? Hn Hd]; subst.
      cbn [aremove alookup map zsum].
      destruct (k =? k0) eqn:E.
      + assert (k = k0) by lia. subst k0.
        rewrite (IH Hd). rewrite (alookup_notin _ _ Hn). lia.
      + cbn [map zsum]. rewrite (IH Hd). lia.
  Qed.

  Lemma zsum_aset k v l : NoDup (map fst l) ->
    zsum (map f (aset k v l)) = zsum (map f l) - match alookup k l with Some v => f (k, v) | None => 0 end + f (k, v).
  Proof. intros H. unfold aset. cbn [map zsum]. rewrite (zsum_aremove k _ H). lia. Qed.
End AL.

(** * State-level bookkeeping *)
Definition w (p : rpc) : Z := match p with RHit _ _ | RLocked _ _ | RDrained _ _ => 1 | _ => 0 end.
Definition len (b : list Z) : Z := Z.of_nat (length b).

Lemma in_flight_set s s' r p : NoDup (map fst (q_readers s)) -> q_readers s' = aset r p (q_readers s) ->
  in_flight s' = in_flight s - w (rpc_of s r) + w p.
Proof.
  intros Hn E. unfold in_flight. rewrite E. rewrite zsum_aset by exact Hn.
  unfold rpc_of. destruct (alookup r (q_readers s)) as [p0|]; cbn [snd w]; unfold w; lia.
Qed.

Lemma in_flight_same s s' : q_readers s' = q_readers s -> in_flight s' = in_flight s.
Proof. intros E. unfold in_flight. rewrite E. reflexivity. Qed.

Lemma buffered_set s s' i b : NoDup (map fst (q_bufs s)) -> q_bufs s' = aset i b (q_bufs s) ->
  buffered s' = buffered s - len (buf s i) + len b.
Proof.
  intros Hn E. unfold buffered. rewrite E. rewrite zsum_aset by exact Hn.
  unfold buf, len. destruct (alookup i (q_bufs s)) as [b0|]; cbn [snd length Z.of_nat]; lia.
Qed.

Lemma buffered_same s s' : q_bufs s' = q_bufs s -> buffered s' = buffered s.
Proof. intros E. unfold buffered. rewrite E. reflexivity. Qed.

Lemma zsum_app a b : zsum (a ++ b) = zsum a + zsum b.
Proof. induction a as [|x a IH]; cbn [app zsum]; lia. Qed.

Lemma in_chan_snoc s s' b : q_chan s' = q_chan s ++ [b] -> in_chan s' = in_chan s + len b.
Proof. intros E. unfold in_chan. rewrite E. rewrite map_app, zsum_app. cbn [map zsum]. unfold len. lia. Qed.

Lemma in_chan_cons s s' b : q_chan s = b :: q_chan s' -> in_chan s = len b + in_chan s'.
Proof. intros E. unfold in_chan. rewrite E. cbn [map zsum]. unfold len. lia. Qed.

Lemma in_chan_same s s' : q_chan s' = q_chan s -> in_chan s' = in_chan s.
Proof. intros E. unfold in_chan. rewrite E. reflexivity. Qed.

Lemma rpc_of_set s s' r p r' : q_readers s' = aset r p (q_readers s) ->
  rpc_of s' r' = if r' =? r then p else rpc_of s r'.
Proof. intros E. unfold rpc_of. rewrite E, alookup_aset. destruct (r' =? r); reflexivity. Qed.

Lemma rpc_of_same s s' r' : q_readers s' = q_readers s -> rpc_of s' r' = rpc_of s r'.
Proof. intros E. unfold rpc_of. rewrite E. reflexivity. Qed.

Lemma buf_set s s' i b j : q_bufs s' = aset i b (q_bufs s) -> buf s' j = if j =? i then b else buf s j.
Proof. intros E. unfold buf. rewrite E, alookup_aset. destruct (j =? i); reflexivity. Qed.

Lemma buf_same s s' j : q_bufs s' = q_bufs s -> buf s' j = buf s j.
Proof. intros E. unfold buf. rewrite E. reflexivity. Qed.

Ltac proj := cbn [upd set_rpc q_cap q_chan_cap q_hits q_bufs q_locks q_chan q_added q_dropped q_delivered q_consumer q_readers].

(** * Invariant 1: conservation *)
Record inv1 (s : pstate) : Prop := {
  i1_nb : NoDup (map fst (q_bufs s));
  i1_nr : NoDup (map fst (q_readers s));
  i1_h : q_hits s = in_flight s + buffered s + q_added s + q_dropped s;
  i1_a : q_consumer s = true -> q_added s = in_chan s + q_delivered s }.

Lemma inv1_init cap cc : inv1 (pinit cap cc).
Proof. split; cbn; try constructor; intros; reflexivity. Qed.

Ltac name_next := match goal with |- _ ?s' => set (s1 := s') end.

Ltac fin1 s1 F B C :=
  unfold len in *;
  split; [ | | rewrite F, B | rewrite C ]; subst s1; proj;
  [ try assumption; apply nodup_aset; assumption
  | try assumption; apply nodup_aset; assumption
  | lia
  | intros; lia ].

Lemma inv1_step s a : inv1 s -> inv1 (pstep s a).
Proof.
  intros H. pose proof H as [Hnb Hnr Hh Ha].
  destruct a as [r h i|r|r|r|r| |]; cbn [pstep].
  - destruct (rpc_of s r) eqn:Hr; try exact H.
    name_next.
    pose proof (in_flight_set s s1 r (RHit h i) Hnr eq_refl) as F.
    pose proof (buffered_same s s1 eq_refl) as B.
    pose proof (in_chan_same s s1 eq_refl) as C.
    rewrite Hr in F. unfold w in F.
    fin1 s1 F B C.
  - destruct (rpc_of s r) as [|h i|h i|h i|i] eqn:Hr; try exact H.
    destruct (alookup i (q_locks s)) eqn:Hl; try exact H.
    name_next.
    pose proof (in_flight_set s s1 r (RLocked h i) Hnr eq_refl) as F.
    pose proof (buffered_same s s1 eq_refl) as B.
    pose proof (in_chan_same s s1 eq_refl) as C.
    rewrite Hr in F. unfold w in F.
    fin1 s1 F B C.
  - destruct (rpc_of s r) as [|h i|h i|h i|i] eqn:Hr; try exact H.
    destruct (q_cap s <=? Z.of_nat (length (buf s i))) eqn:Hfull;
      [destruct (q_consumer s && (Z.of_nat (length (q_chan s)) <? q_chan_cap s)) eqn:Hroom|].
    + name_next.
      pose proof (in_flight_set s s1 r (RDrained h i) Hnr eq_refl) as F.
      pose proof (buffered_set s s1 i [] Hnb eq_refl) as B.
      pose proof (in_chan_snoc s s1 (buf s i) eq_refl) as C.
      rewrite Hr in F. unfold w in F. unfold len at 2 in B. cbn [length Z.of_nat] in B.
      fin1 s1 F B C.
    + name_next.
      pose proof (in_flight_set s s1 r (RDrained h i) Hnr eq_refl) as F.
      pose proof (buffered_set s s1 i [] Hnb eq_refl) as B.
      pose proof (in_chan_same s s1 eq_refl) as C.
      rewrite Hr in F. unfold w in F. unfold len at 2 in B. cbn [length Z.of_nat] in B.
      fin1 s1 F B C.
    + name_next.
      pose proof (in_flight_set s s1 r (RDrained h i) Hnr eq_refl) as F.
      pose proof (buffered_same s s1 eq_refl) as B.
      pose proof (in_chan_same s s1 eq_refl) as C.
      rewrite Hr in F. unfold w in F.
      fin1 s1 F B C.
  - destruct (rpc_of s r) as [|h i|h i|h i|i] eqn:Hr; try exact H.
    name_next.
    pose proof (in_flight_set s s1 r (RPushed i) Hnr eq_refl) as F.
    pose proof (buffered_set s s1 i (buf s i ++ [h]) Hnb eq_refl) as B.
    pose proof (in_chan_same s s1 eq_refl) as C.
    rewrite Hr in F. unfold w in F. unfold len at 2 in B. rewrite app_length in B. cbn [length] in B.
    fin1 s1 F B C.
  - destruct (rpc_of s r) as [|h i|h i|h i|i] eqn:Hr; try exact H.
    name_next.
    pose proof (in_flight_set s s1 r RIdle Hnr eq_refl) as F.
    pose proof (buffered_same s s1 eq_refl) as B.
    pose proof (in_chan_same s s1 eq_refl) as C.
    rewrite Hr in F. unfold w in F.
    fin1 s1 F B C.
  - destruct (q_consumer s) eqn:Hc; try exact H.
    destruct (q_chan s) as [|b rest] eqn:Hch; try exact H.
    name_next.
    pose proof (in_flight_same s s1 eq_refl) as F.
    pose proof (buffered_same s s1 eq_refl) as B.
    pose proof (in_chan_cons s s1 b Hch) as C.
    specialize (Ha eq_refl).
    unfold len in *.
    split; [ | | rewrite F, B | ]; subst s1; proj; try assumption; try lia.
  - name_next.
    pose proof (in_flight_same s s1 eq_refl) as F.
    pose proof (buffered_same s s1 eq_refl) as B.
    split; [ | | rewrite F, B | ]; subst s1; proj; try assumption; try lia.
Qed.

(** * Invariant 2: lock consistency *)
Definition holds (p : rpc) (i : Z) : Prop :=
  match p with RLocked _ j | RDrained _ j | RPushed j => j = i | _ => False end.

Definition inv2 (s : pstate) : Prop :=
  (forall i r, alookup i (q_locks s) = Some r -> holds (rpc_of s r) i) /\
  (forall r i, holds (rpc_of s r) i -> alookup i (q_locks s) = Some r).

Ltac eqd x y := destruct (x =? y) eqn:?; [assert (x = y) by lia; subst x | assert (x <> y) by lia].

Lemma inv2_init cap cc : inv2 (pinit cap cc).
Proof.
  split.
  - intros i r H. cbn in H. discriminate H.
  - intros r i H. cbn in H. destruct H.
Qed.

Lemma inv2_retag s s1 r p p' : inv2 s -> rpc_of s r = p -> (forall i, holds p i <-> holds p' i) ->
  q_locks s1 = q_locks s -> q_readers s1 = aset r p' (q_readers s) -> inv2 s1.
Proof.
  intros [L1 L2] Hr Hiff El Er. split.
  - intros i r0. rewrite El, (rpc_of_set s s1 r p' r0 Er). intros Hl0. apply L1 in Hl0.
    eqd r0 r.
    + rewrite Hr in Hl0. apply Hiff; exact Hl0.
    + exact Hl0.
  - intros r0 i. rewrite El, (rpc_of_set s s1 r p' r0 Er).
    eqd r0 r; intros Hh; apply L2.
    + rewrite Hr. apply Hiff; exact Hh.
    + exact Hh.
Qed.

Lemma inv2_same s s1 : inv2 s -> q_locks s1 = q_locks s -> q_readers s1 = q_readers s -> inv2 s1.
Proof.
  intros [L1 L2] El Er. split.
  - intros i r0. rewrite El, (rpc_of_same s s1 r0 Er). apply L1.
  - intros r0 i. rewrite El, (rpc_of_same s s1 r0 Er). apply L2.
Qed.

Lemma inv2_step s a : inv2 s -> inv2 (pstep s a).
Proof.
  intros H. pose proof H as [L1 L2].
  destruct a as [r h i|r|r|r|r| |]; cbn [pstep].
  - destruct (rpc_of s r) eqn:Hr; try exact H.
    eapply (inv2_retag s _ r _ (RHit h i) H Hr); [|reflexivity|reflexivity].
    intros j; cbn [holds]; tauto.
  - destruct (rpc_of s r) as [|h i|h i|h i|i] eqn:Hr; try exact H.
    destruct (alookup i (q_locks s)) eqn:Hl; try exact H.
    name_next.
    pose proof (fun r' => rpc_of_set s s1 r (RLocked h i) r' eq_refl) as R.
    split.
    + intros i0 r0. rewrite R. subst s1; proj. rewrite alookup_aset.
      eqd i0 i.
      * intros E. injection E as <-. rewrite Z.eqb_refl. reflexivity.
      * intros Hl0. apply L1 in Hl0. eqd r0 r; [rewrite Hr in Hl0; destruct Hl0 | exact Hl0].
    + intros r0 i0. rewrite R. subst s1; proj. rewrite alookup_aset.
      eqd r0 r.
      * cbn [holds]. intros <-. rewrite Z.eqb_refl. reflexivity.
      * intros Hh. pose proof (L2 _ _ Hh) as Hl0.
        eqd i0 i; [rewrite Hl in Hl0; discriminate Hl0 | exact Hl0].
  - destruct (rpc_of s r) as [|h i|h i|h i|i] eqn:Hr; try exact H.
    assert (Hiff : forall j, holds (RLocked h i) j <-> holds (RDrained h i) j) by (intros j; cbn [holds]; tauto).
    destruct (q_cap s <=? Z.of_nat (length (buf s i))) eqn:Hfull;
      [destruct (q_consumer s && (Z.of_nat (length (q_chan s)) <? q_chan_cap s)) eqn:Hroom|];
      apply (inv2_retag s _ r _ (RDrained h i) H Hr Hiff); reflexivity.
  - destruct (rpc_of s r) as [|h i|h i|h i|i] eqn:Hr; try exact H.
    assert (Hiff : forall j, holds (RDrained h i) j <-> holds (RPushed i) j) by (intros j; cbn [holds]; tauto).
    apply (inv2_retag s _ r _ (RPushed i) H Hr Hiff); reflexivity.
  - destruct (rpc_of s r) as [|h i|h i|h i|i] eqn:Hr; try exact H.
    name_next.
    pose proof (fun r' => rpc_of_set s s1 r RIdle r' eq_refl) as R.
    assert (Hli : alookup i (q_locks s) = Some r) by (apply L2; rewrite Hr; reflexivity).
    split.
    + intros i0 r0. rewrite R. subst s1; proj. rewrite alookup_aremove.
      eqd i0 i.
      * intros E; discriminate E.
      * intros Hl0. apply L1 in Hl0.
        eqd r0 r; [rewrite Hr in Hl0; cbn [holds] in Hl0; congruence | exact Hl0].
    + intros r0 i0. rewrite R. subst s1; proj. rewrite alookup_aremove.
      eqd r0 r.
      * cbn [holds]. intros [].
      * intros Hh. pose proof (L2 _ _ Hh) as Hl0.
        eqd i0 i; [congruence | exact Hl0].
  - destruct (q_consumer s) eqn:Hc; try exact H.
    destruct (q_chan s) as [|b rest] eqn:Hch; try exact H.
  - apply (inv2_same s _ H); reflexivity.
Qed.

(** * Invariant 3: bounds *)
Definition len_chan (s : pstate) : Z := Z.of_nat (length (q_chan s)).
Record inv3 (cap cc : Z) (s : pstate) : Prop := {
  i3_cap : q_cap s = cap;
  i3_cc : q_chan_cap s = cc;
  i3_pos : 1 <= cap;
  i3_b : forall i, len (buf s i) <= cap;
  i3_d : forall r h i, rpc_of s r = RDrained h i -> len (buf s i) <= cap - 1;
  i3_c : len_chan s <= cc }.

Lemma inv3_init cap cc : 1 <= cap -> 0 <= cc -> inv3 cap cc (pinit cap cc).
Proof.
  intros H1 H2. split; [reflexivity | reflexivity | assumption | | | ].
  - intros i. cbn. lia.
  - intros r h i E. cbn in E. discriminate E.
  - cbn. lia.
Qed.

(** a step that changes only one reader's program counter (and possibly locks) *)
Lemma inv3_retag cap cc s s1 r p : inv3 cap cc s ->
  q_cap s1 = q_cap s -> q_chan_cap s1 = q_chan_cap s -> q_bufs s1 = q_bufs s -> q_chan s1 = q_chan s ->
  q_readers s1 = aset r p (q_readers s) ->
  (forall h i, p = RDrained h i -> len (buf s i) <= cap - 1) ->
  inv3 cap cc s1.
Proof.
  intros [Hcap Hcc Hpos Hb Hd Hc] E1 E2 E3 E4 E5 Hp. split.
  - congruence.
  - congruence.
  - exact Hpos.
  - intros i. rewrite (buf_same s s1 i E3). apply Hb.
  - intros r0 h i. rewrite (rpc_of_set s s1 r p r0 E5), (buf_same s s1 i E3).
    eqd r0 r.
    + apply Hp.
    + apply Hd.
  - unfold len_chan in *. rewrite E4. exact Hc.
Qed.

Lemma inv3_step cap cc s a : inv2 s -> inv3 cap cc s -> inv3 cap cc (pstep s a).
Proof.
  intros [L1 L2] H. pose proof H as [Hcap Hcc Hpos Hb Hd Hc].
  destruct a as [r h i|r|r|r|r| |]; cbn [pstep].
  - destruct (rpc_of s r) eqn:Hr; try exact H.
    apply (inv3_retag cap cc s _ r (RHit h i) H); try reflexivity.
    intros h0 i0 E; discriminate E.
  - destruct (rpc_of s r) as [|h i|h i|h i|i] eqn:Hr; try exact H.
    destruct (alookup i (q_locks s)) eqn:Hl; try exact H.
    apply (inv3_retag cap cc s _ r (RLocked h i) H); try reflexivity.
    intros h0 i0 E; discriminate E.
  - destruct (rpc_of s r) as [|h i|h i|h i|i] eqn:Hr; try exact H.
    destruct (q_cap s <=? Z.of_nat (length (buf s i))) eqn:Hfull;
      [destruct (q_consumer s && (Z.of_nat (length (q_chan s)) <? q_chan_cap s)) eqn:Hroom|].
    + name_next.
      pose proof (fun r' => rpc_of_set s s1 r (RDrained h i) r' eq_refl) as R.
      pose proof (fun j => buf_set s s1 i [] j eq_refl) as B.
      split; try assumption.
      * intros j. rewrite B. eqd j i; [unfold len; cbn [length Z.of_nat]; lia | apply Hb].
      * intros r0 h0 i0. rewrite R, B.
        eqd r0 r.
        -- intros E. injection E as _ <-. rewrite Z.eqb_refl. unfold len; cbn [length Z.of_nat]; lia.
        -- intros E. eqd i0 i; [unfold len; cbn [length Z.of_nat]; lia | exact (Hd _ _ _ E)].
      * unfold len_chan in *. subst s1; proj. rewrite app_length. cbn [length]. lia.
    + name_next.
      pose proof (fun r' => rpc_of_set s s1 r (RDrained h i) r' eq_refl) as R.
      pose proof (fun j => buf_set s s1 i [] j eq_refl) as B.
      split; try assumption.
      * intros j. rewrite B. eqd j i; [unfold len; cbn [length Z.of_nat]; lia | apply Hb].
      * intros r0 h0 i0. rewrite R, B.
        eqd r0 r.
        -- intros E. injection E as _ <-. rewrite Z.eqb_refl. unfold len; cbn [length Z.of_nat]; lia.
        -- intros E. eqd i0 i; [unfold len; cbn [length Z.of_nat]; lia | exact (Hd _ _ _ E)].
    + apply (inv3_retag cap cc s _ r (RDrained h i) H); try reflexivity.
      intros h0 i0 E. injection E as _ <-. unfold len. lia.
  - destruct (rpc_of s r) as [|h i|h i|h i|i] eqn:Hr; try exact H.
    name_next.
    pose proof (fun r' => rpc_of_set s s1 r (RPushed i) r' eq_refl) as R.
    pose proof (fun j => buf_set s s1 i (buf s i ++ [h]) j eq_refl) as B.
    pose proof (Hd _ _ _ Hr) as Hroom.
    split; try assumption.
    + intros j. rewrite B.
      eqd j i; [unfold len in *; rewrite app_length; cbn [length]; lia | apply Hb].
    + intros r0 h0 i0. rewrite R, B.
      eqd r0 r; intros E; [discriminate E|].
      eqd i0 i; [|exact (Hd _ _ _ E)].
      exfalso.
      assert (A1 : alookup i (q_locks s) = Some r) by (apply L2; rewrite Hr; reflexivity).
      assert (A2 : alookup i (q_locks s) = Some r0) by (apply L2; rewrite E; reflexivity).
      congruence.
  - destruct (rpc_of s r) as [|h i|h i|h i|i] eqn:Hr; try exact H.
    apply (inv3_retag cap cc s _ r RIdle H); try reflexivity.
    intros h0 i0 E; discriminate E.
  - destruct (q_consumer s) eqn:Hc'; try exact H.
    destruct (q_chan s) as [|b rest] eqn:Hch; try exact H.
    split; try assumption.
    unfold len_chan in *. proj. rewrite Hch in Hc. cbn [length] in Hc. lia.
  - split; assumption.
Qed.

(** * Reachable states *)
Lemma run_inv12 sched : forall s, inv1 s -> inv2 s ->
  inv1 (fold_left pstep sched s) /\ inv2 (fold_left pstep sched s).
Proof.
  induction sched as [|a sched IH]; intros s H1 H2; cbn [fold_left].
  - split; assumption.
  - apply IH; [apply inv1_step | apply inv2_step]; assumption.
Qed.

Lemma run_inv3 cap cc sched : forall s, inv2 s -> inv3 cap cc s -> inv3 cap cc (fold_left pstep sched s).
Proof.
  induction sched as [|a sched IH]; intros s H2 H3; cbn [fold_left].
  - assumption.
  - apply IH; [apply inv2_step | apply inv3_step]; assumption.
Qed.

Lemma prun_inv12 cap cc sched : inv1 (prun cap cc sched) /\ inv2 (prun cap cc sched).
Proof. unfold prun. apply run_inv12; [apply inv1_init | apply inv2_init]. Qed.

Lemma prun_inv3 cap cc sched : 1 <= cap -> 0 <= cc -> inv3 cap cc (prun cap cc sched).
Proof. intros H1 H2. unfold prun. apply run_inv3; [apply inv2_init | apply inv3_init; assumption]. Qed.

(* STATEMENT: conservation at every instant of every interleaving, for every buffer capacity, channel capacity, number of
   readers and choice of buffers *)
Lemma hits_conserved : forall cap cc sched,
  let s := prun cap cc sched in
  q_hits s = in_flight s + buffered s + q_added s + q_dropped s.
Proof.
  intros cap cc sched s. destruct (prun_inv12 cap cc sched) as [H1 _]. exact (i1_h _ H1).
Qed.

(* STATEMENT: what was counted as added is queued for the consumer or already applied by it (while it is alive) *)
Lemma added_conserved : forall cap cc sched,
  let s := prun cap cc sched in
  q_consumer s = true -> q_added s = in_chan s + q_delivered s.
Proof.
  intros cap cc sched s. destruct (prun_inv12 cap cc sched) as [H1 _]. exact (i1_a _ H1).
Qed.

(* STATEMENT: a buffer never holds more than its capacity, the channel never more than its capacity *)
Lemma pool_bounded : forall cap cc sched i, 1 <= cap -> 0 <= cc ->
  let s := prun cap cc sched in
  Z.of_nat (length (buf s i)) <= cap /\ Z.of_nat (length (q_chan s)) <= cc.
Proof.
  intros cap cc sched i Hcap Hcc s.
  pose proof (prun_inv3 cap cc sched Hcap Hcc) as H3.
  split.
  - exact (i3_b _ _ _ H3 i).
  - exact (i3_c _ _ _ H3).
Qed.

(* STATEMENT: a read never waits for the sketch or its consumer: the only step that can be disabled is taking the buffer
   lock, and then the lock is held by another reader whose own next step is enabled whatever the state of the channel
   and of the consumer *)
Lemma reader_never_waits_for_consumer : forall cap cc sched r,
  let s := prun cap cc sched in
  penabled s r = false ->
  exists h i r', rpc_of s r = RHit h i /\ alookup i (q_locks s) = Some r' /\ r' <> r /\ penabled s r' = true /\
                 (exists h', rpc_of s r' = RLocked h' i \/ rpc_of s r' = RDrained h' i \/ rpc_of s r' = RPushed i).
Proof.
  intros cap cc sched r s. destruct (prun_inv12 cap cc sched) as [_ [L1 _]]. fold s in L1.
  unfold penabled at 1.
  destruct (rpc_of s r) as [|h i|h i|h i|i] eqn:Hr; try (intros E; discriminate E).
  destruct (alookup i (q_locks s)) as [r'|] eqn:Hl; try (intros E; discriminate E).
  intros _. exists h, i, r'.
  pose proof (L1 _ _ Hl) as Hh.
  assert (Hne : r' <> r).
  { intros ->. rewrite Hr in Hh. destruct Hh. }
  assert (Hen : penabled s r' = true).
  { unfold penabled. destruct (rpc_of s r'); try reflexivity. destruct Hh. }
  repeat split; try assumption.
  destruct (rpc_of s r') as [|h' i'|h' i'|h' i'|i'] eqn:Hr'; cbn [holds] in Hh; try (destruct Hh; fail); subst i'.
  - exists h'. left. reflexivity.
  - exists h'. right. left. reflexivity.
  - exists 0. right. right. reflexivity.
Qed.

(* non-vacuity: two readers on one buffer of capacity 1, a channel of capacity 1, the consumer stalled: the second
   hand-over is dropped whole and counted *)
Example pool_example :
  let s := prun 1 1 [PHit 1 7 0; PHit 2 8 0; PLock 1; PLock 2; PDrain 1; PPush 1; PUnlock 1; PLock 2; PDrain 2; PPush 2; PUnlock 2;
                     PHit 1 9 0; PLock 1; PDrain 1; PPush 1; PUnlock 1] in
  q_hits s = 3 /\ buffered s = 1 /\ q_added s = 1 /\ q_dropped s = 1 /\ in_flight s = 0.
Proof. vm_compute. repeat split. Qed.

Print Assumptions hits_conserved.
Print Assumptions added_conserved.
Print Assumptions pool_bounded.
Print Assumptions reader_never_waits_for_consumer.
