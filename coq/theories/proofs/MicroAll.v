(** Facts about single micro steps that hold for EVERY event of the micro model (all windows, every stage of shutdown):
    the shutdown flag never goes down again (C13); a soft-deleted entry is never re-exposed (C04 / C02). *)
From CacheD Require Import Base Sketch Model Window Micro.
From CacheD.proofs Require Import Defs AListLemmas InvLemmas InvOps InvCalls InvProofs ApiProofs HistoryProofs StatsProofs
                                  WindowProofs MicroProofs MicroBal.
From Coq Require Import ZifyBool.

(** * the flag *)
Definition shR (s s' : state) : Prop := shut s' = shut s.
Lemma shR_refl : forall s, shR s s. Proof. reflexivity. Qed.
Lemma shR_trans : forall a b c, shR a b -> shR b c -> shR a c. Proof. unfold shR. intros. congruence. Qed.
Lemma weights_delete_sh : forall cfg id hook s,
  match weights_delete cfg id hook s with Ok s' | Panic _ s' => shR s s' | Inadmissible _ => True end.
Proof.
  intros cfg id hook s. unfold weights_delete. destruct (alookup id (weights s)) as [wk|]; [|reflexivity].
  destruct (add_i64 cfg _ _); [|reflexivity]. destruct hook; [|reflexivity].
  unfold shR, store_delete. cbn [shut upd_st set_st]. destruct (alookup _ _); reflexivity.
Qed.
Lemma weights_add_sh : forall cfg k id h w s,
  match weights_add cfg k id h w s with Ok s' | Panic _ s' => shR s s' | Inadmissible _ => True end.
Proof. intros cfg k id h w s. unfold weights_add. destruct (add_i64 cfg _ _); reflexivity. Qed.
Lemma admission_sh : forall cfg orc k id h w s r s' vs, admission cfg orc k id h w s = (r, s', vs) -> shut s' = shut s.
Proof. exact (admission_lift shR shR_refl shR_trans weights_delete_sh weights_add_sh). Qed.

Lemma half1_sh : forall cfg k v w ttl rm s,
  match upsert_half1 cfg k v w ttl rm s with inl (s', _) => shut s' = shut s | inr (s', _) => shut s' = shut s end.
Proof.
  intros cfg k v w ttl rm s. unfold upsert_half1. destruct (alookup k (store s)); [|reflexivity].
  destruct rm; [reflexivity|]. destruct ttl as [t|]; [|reflexivity]. destruct (calc_expiry (now s) t); reflexivity.
Qed.

Lemma half2_sh : forall cfg tid u s, shut (fst (upsert_half2 cfg tid u s)) = shut s.
Proof.
  intros cfg tid u s. unfold upsert_half2.
  destruct (u_resp u) as [[[id old] new_exp]|].
  - destruct (type_of_expiry_update old new_exp); cbv beta iota zeta;
      repeat match goal with
             | |- context [match ?x with Some _ => _ | None => _ end] => destruct x
             | |- context [if ?b then _ else _] => destruct b
             end; try reflexivity; rewrite do_send_shut; reflexivity.
  - destruct (u_v u); [|reflexivity].
    destruct (requested_weight cfg (u_k u) (Some z) (u_w u) (u_ttl u)); [|reflexivity].
    destruct (z0 <=? 0); [reflexivity|]. destruct (u_ttl u); rewrite do_send_shut; reflexivity.
Qed.

Lemma worker_half1_sh : forall cfg orc s, shut s = true ->
  match worker_half1 cfg orc s with inl (s', _) => shut s' = true | inr (s', _) => shut s' = true end.
Proof.
  intros cfg orc s Hs. unfold worker_half1.
  assert (Hws : shut (fst (worker_step cfg orc s)) = true) by (exact (shut_stable cfg s (EWorker orc) Hs)).
  destruct (worker s); try (destruct (worker_step cfg orc s); exact Hws).
  destruct (queue s) as [|[c a] q]; [destruct (worker_step cfg orc s); exact Hws|].
  destruct c as [k v id h w|k v id h w ttl|k|id w|]; try (destruct (worker_step cfg orc s); exact Hws).
  destruct (amem k (store (set_queue s q))); [destruct (worker_step cfg orc s); exact Hws|].
  destruct (admission cfg orc k id h w (set_queue s q)) as [[r s1] vs] eqn:Had.
  destruct r as [x| |]; try (destruct (worker_step cfg orc s); exact Hws).
  destruct x; try (destruct (worker_step cfg orc s); exact Hws).
  destruct (calc_expiry (now s1) ttl); [|destruct (worker_step cfg orc s); exact Hws].
  cbn [shut store_insert upd_st set_st set_store]. rewrite (admission_sh _ _ _ _ _ _ _ _ _ _ Had). exact Hs.
Qed.

Lemma wstep_sh : forall cfg ws e, shut (base ws) = true -> shut (base (fst (wstep cfg ws e))) = true.
Proof.
  intros cfg ws e Hs. destruct e as [b|tid k v w ttl rm|tid|orc|].
  - rewrite wstep_base_eq.
    destruct (match b with
              | ECall tid _ _ | ERun tid => negb (amem tid (ups ws))
              | EWorker _ => match wpending ws with Some _ => false | None => true end
              | _ => true end); [|exact Hs].
    pose proof (shut_stable cfg (base ws) b Hs) as H. unfold step_state in H.
    destruct (step cfg (base ws) b) as [s' ret]. exact H.
  - rewrite wstep_upsert1_eq.
    destruct (amem tid (ups ws) || amem tid (blocked (base ws))); [exact Hs|]. rewrite Hs. exact Hs.
  - rewrite wstep_upsert2_eq. destruct (alookup tid (ups ws)) as [u|]; [|exact Hs].
    pose proof (half2_sh cfg tid u (base ws)) as H.
    destruct (upsert_half2 cfg tid u (base ws)) as [s' ret]. cbn [fst base] in *. rewrite H. exact Hs.
  - rewrite wstep_put1_eq. destruct (wpending ws); [exact Hs|].
    pose proof (worker_half1_sh cfg orc (base ws) Hs) as H.
    destruct (worker_half1 cfg orc (base ws)) as [[s' p]|[s' ret]]; exact H.
  - rewrite wstep_put2_eq. destruct (wpending ws) as [p|]; [|exact Hs]. exact Hs.
Qed.

(* STATEMENT (C13, every event of the micro model - every window of every call and of every worker command, every stage of
   shutdown): once the flag is up it stays up *)
Lemma micro_shut_stable_all : forall cfg ms ev,
  shut (mbase ms) = true -> shut (mbase (fst (mstep cfg ms ev))) = true.
Proof.
  intros cfg ms ev Hs. destruct ev as [e|tid r idxs|tid idxs|orc|].
  - cbn [mstep]. destruct (mwin_enabled ms e); [|exact Hs].
    pose proof (wstep_sh cfg (win ms) e Hs) as H. destruct (wstep cfg (win ms) e) as [w' ret]. exact H.
  - apply (micro_shut_stable cfg ms (MEnter tid r idxs)); try exact Hs; try discriminate; intros e0 H; discriminate.
  - apply (micro_shut_stable cfg ms (MStepC tid idxs)); try exact Hs; try discriminate; intros e0 H; discriminate.
  - cbn [mstep]. unfold mworker1. destruct (wdel ms); [exact Hs|]. destruct (wpending (win ms)) eqn:Hwp; [exact Hs|].
    assert (Hwin : shut (mbase (fst (let '(w', ret) := wstep cfg (win ms) (WPut1 orc) in ({| win := w'; cps := cps ms; wdel := None |}, ret)))) = true).
    { pose proof (wstep_sh cfg (win ms) (WPut1 orc) Hs) as H. destruct (wstep cfg (win ms) (WPut1 orc)) as [w' ret]. exact H. }
    assert (Hput : forall k v id h w ttl a q, shut (mbase (fst (mput1 cfg ms orc k v id h w ttl a q))) = true).
    { intros k v id h w ttl a q. unfold mput1.
      destruct (amem k (store (set_queue (mbase ms) q))); [exact Hs|].
      destruct (admission cfg orc k id h w (set_queue (mbase ms) q)) as [[r s1] vs] eqn:Had.
      pose proof (admission_sh _ _ _ _ _ _ _ _ _ _ Had) as H1. cbn [shut set_queue] in H1.
      destruct r as [x|site|why]; [destruct x| |]; cbn [fst mbase with_mbase win with_base base shut set_ack set_acks upd_st set_st set_worker];
        try (rewrite H1; exact Hs); exact Hs. }
    destruct (worker (mbase ms)); try exact Hwin.
    destruct (queue (mbase ms)) as [|[c a] q]; [exact Hwin|].
    destruct c as [k v id h w|k v id h w ttl|k|id w|]; try exact Hwin; try apply Hput.
    destruct (alookup k (store (set_queue (mbase ms) q))); cbn [fst mbase with_mbase win with_base base]; [|exact Hs].
    unfold store_delete. cbn [store set_queue]. destruct (alookup k (store (mbase ms))); exact Hs.
  - cbn [mstep]. unfold mworker2. destruct (wdel ms) as [[a id exp|a id exp|a k v id ttl obs]|].
    + pose proof (weights_delete_sh cfg id false (mbase ms)) as H.
      destruct (weights_delete cfg id false (mbase ms)) as [s2|site s2|why]; cbn [fst mbase win with_base base shut set_worker];
        try (unfold shR in H; rewrite H); exact Hs.
    + cbn [fst mbase win with_base base]. destruct exp; exact Hs.
    + destruct ttl as [t|]; [destruct (calc_expiry (now (mbase ms)) t)|]; exact Hs.
    + pose proof (wstep_sh cfg (win ms) WPut2 Hs) as H. destruct (wstep cfg (win ms) WPut2) as [w' ret]. exact H.
Qed.

(** * soft-deleted entries, every event *)
Definition WAbs (ms : mstate) : Prop := forall k0, wkey ms = Some k0 -> ab k0 (mbase ms).

Lemma half2_store : forall cfg tid u s, store (fst (upsert_half2 cfg tid u s)) = store s.
Proof.
  intros cfg tid u s. unfold upsert_half2.
  destruct (u_resp u) as [[[id old] new_exp]|].
  - destruct (type_of_expiry_update old new_exp); cbv beta iota zeta;
      repeat match goal with
             | |- context [match ?x with Some _ => _ | None => _ end] => destruct x
             | |- context [if ?b then _ else _] => destruct b
             end; try reflexivity; rewrite do_send_store; reflexivity.
  - destruct (u_v u); [|reflexivity].
    destruct (requested_weight cfg (u_k u) (Some z) (u_w u) (u_ttl u)); [|reflexivity].
    destruct (z0 <=? 0); [reflexivity|]. destruct (u_ttl u); rewrite do_send_store; reflexivity.
Qed.

Definition shrR (s s' : state) : Prop := store_shrinks s s'.
Lemma store_delete_shr : forall k0 s, store_shrinks s (store_delete k0 s).
Proof.
  intros k0 s k. unfold store_delete. destruct (alookup k0 (store s)); [|left; reflexivity].
  cbn [store upd_st set_st set_store]. rewrite alookup_aremove. destruct (k =? k0); [right; reflexivity|left; reflexivity].
Qed.
Lemma weights_delete_shr : forall cfg id hook s,
  match weights_delete cfg id hook s with Ok s' | Panic _ s' => shrR s s' | Inadmissible _ => True end.
Proof.
  intros cfg id hook s. unfold weights_delete. destruct (alookup id (weights s)) as [wk|]; [|apply store_shrinks_refl].
  destruct (add_i64 cfg _ _) as [u|]; [|apply store_shrinks_eq; reflexivity]. destruct hook; [|apply store_shrinks_eq; reflexivity].
  intros k. pose proof (store_delete_shr (w_key wk) (set_used (set_weights s (aremove id (weights s))) u) k) as H.
  cbn [store upd_st set_st set_used set_weights] in *. exact H.
Qed.
Lemma weights_add_shr : forall cfg k id h w s,
  match weights_add cfg k id h w s with Ok s' | Panic _ s' => shrR s s' | Inadmissible _ => True end.
Proof. intros cfg k id h w s. unfold weights_add. destruct (add_i64 cfg _ _); apply store_shrinks_eq; reflexivity. Qed.
Lemma admission_shr : forall cfg orc k id h w s r s' vs, admission cfg orc k id h w s = (r, s', vs) -> store_shrinks s s'.
Proof. exact (admission_lift shrR store_shrinks_refl store_shrinks_trans weights_delete_shr weights_add_shr). Qed.

Lemma hid_of_shrinks : forall k s s' e, alookup k (store s) = Some e -> e_soft e = true -> store_shrinks s s' -> hid k s'.
Proof.
  intros k s s' e Hl Hs Hsh. destruct (Hsh k) as [E|E]; [right; exists e; rewrite E; auto|left; exact E].
Qed.

Lemma hid_insert_other : forall k k0 v id exp s, k <> k0 -> hid k s -> hid k (store_insert k0 v id exp s).
Proof.
  intros k k0 v id exp s Hne Hh. unfold hid in *. cbn [store store_insert upd_st set_st set_store].
  rewrite alookup_aset_neq by exact Hne. exact Hh.
Qed.

Lemma worker_half1_hid : forall cfg orc s k e, alookup k (store s) = Some e -> e_soft e = true ->
  match worker_half1 cfg orc s with inl (s', _) => hid k s' | inr (s', _) => hid k s' end.
Proof.
  intros cfg orc s k e Hl Hs. unfold worker_half1.
  assert (Hws : hid k (fst (worker_step cfg orc s))).
  { destruct (worker_step cfg orc s) as [s' ret] eqn:E. cbn [fst]. eapply worker_step_hid; eassumption. }
  destruct (worker s); try (destruct (worker_step cfg orc s); exact Hws).
  destruct (queue s) as [|[c a] q]; [destruct (worker_step cfg orc s); exact Hws|].
  destruct c as [k0 v id h w|k0 v id h w ttl|k0|id w|]; try (destruct (worker_step cfg orc s); exact Hws).
  destruct (amem k0 (store (set_queue s q))) eqn:Hk0; [destruct (worker_step cfg orc s); exact Hws|].
  destruct (admission cfg orc k0 id h w (set_queue s q)) as [[r s1] vs] eqn:Had.
  destruct r as [x| |]; try (destruct (worker_step cfg orc s); exact Hws).
  destruct x; try (destruct (worker_step cfg orc s); exact Hws).
  destruct (calc_expiry (now s1) ttl); [|destruct (worker_step cfg orc s); exact Hws].
  assert (Hne : k <> k0).
  { intros ->. unfold amem in Hk0. cbn [store set_queue] in Hk0. rewrite Hl in Hk0. discriminate. }
  apply hid_insert_other; [exact Hne|].
  eapply (hid_of_shrinks k (set_queue s q)); [exact Hl|exact Hs|]. eapply admission_shr. exact Had.
Qed.

Lemma wstep_hid : forall cfg ws e k en, alookup k (store (base ws)) = Some en -> e_soft en = true ->
  hid k (base (fst (wstep cfg ws e))).
Proof.
  intros cfg ws e k en Hl Hs.
  assert (Hsame : hid k (base ws)) by (right; exists en; split; assumption).
  destruct e as [b|tid k0 v w ttl rm|tid|orc|].
  - rewrite wstep_base_eq.
    destruct (match b with
              | ECall tid _ _ | ERun tid => negb (amem tid (ups ws))
              | EWorker _ => match wpending ws with Some _ => false | None => true end
              | _ => true end); [|exact Hsame].
    pose proof (soft_deleted_stays_hidden cfg (base ws) b k en Hl Hs) as H. cbv zeta in H. unfold step_state in H.
    destruct (step cfg (base ws) b) as [s' ret]. exact H.
  - rewrite wstep_upsert1_eq.
    destruct (amem tid (ups ws) || amem tid (blocked (base ws))); [exact Hsame|].
    destruct (shut (base ws)); [exact Hsame|].
    pose proof (upsert_half1_hid cfg k0 v w ttl rm (base ws) k en Hl Hs) as H.
    destruct (upsert_half1 cfg k0 v w ttl rm (base ws)) as [[s' u]|[s' ret]]; exact H.
  - rewrite wstep_upsert2_eq. destruct (alookup tid (ups ws)) as [u|]; [|exact Hsame].
    pose proof (half2_store cfg tid u (base ws)) as H.
    destruct (upsert_half2 cfg tid u (base ws)) as [s' ret]. cbn [fst base] in *.
    unfold hid. rewrite H. exact Hsame.
  - rewrite wstep_put1_eq. destruct (wpending ws); [exact Hsame|].
    pose proof (worker_half1_hid cfg orc (base ws) k en Hl Hs) as H.
    destruct (worker_half1 cfg orc (base ws)) as [[s' p]|[s' ret]]; exact H.
  - rewrite wstep_put2_eq. destruct (wpending ws) as [p|]; [|exact Hsame]. exact Hsame.
Qed.

(* STATEMENT (C04 / C02, every event of the micro model - every window of every call and of every worker command, every
   stage of shutdown): a soft-deleted entry is never made readable again; [WAbs] (the key the worker is about to insert is
   absent) holds at every state of every micro schedule, see [wabs_run] *)
Lemma micro_hidden_all : forall cfg ms ev k e, WAbs ms ->
  alookup k (store (mbase ms)) = Some e -> e_soft e = true ->
  hid k (mbase (fst (mstep cfg ms ev))).
Proof.
  intros cfg ms ev k e HW Hl Hs.
  assert (Hsame : hid k (mbase ms)) by (right; exists e; split; assumption).
  destruct ev as [e0|tid r idxs|tid idxs|orc|].
  - cbn [mstep]. destruct (mwin_enabled ms e0); [|exact Hsame].
    pose proof (wstep_hid cfg (win ms) e0 k e Hl Hs) as H. destruct (wstep cfg (win ms) e0) as [w' ret]. exact H.
  - apply (micro_soft_deleted_stays_hidden cfg ms (MEnter tid r idxs) k e); try assumption; try discriminate; intros e0 H; discriminate.
  - apply (micro_soft_deleted_stays_hidden cfg ms (MStepC tid idxs) k e); try assumption; try discriminate; intros e0 H; discriminate.
  - cbn [mstep]. unfold mworker1. destruct (wdel ms); [exact Hsame|]. destruct (wpending (win ms)); [exact Hsame|].
    assert (Hwin : hid k (mbase (fst (let '(w', ret) := wstep cfg (win ms) (WPut1 orc) in ({| win := w'; cps := cps ms; wdel := None |}, ret))))).
    { pose proof (wstep_hid cfg (win ms) (WPut1 orc) k e Hl Hs) as H. destruct (wstep cfg (win ms) (WPut1 orc)) as [w' ret]. exact H. }
    assert (Hput : forall k0 v id h w ttl a q, hid k (mbase (fst (mput1 cfg ms orc k0 v id h w ttl a q)))).
    { intros k0 v id h w ttl a q. unfold mput1.
      destruct (amem k0 (store (set_queue (mbase ms) q))); [exact Hsame|].
      destruct (admission cfg orc k0 id h w (set_queue (mbase ms) q)) as [[r s1] vs] eqn:Had.
      assert (H1 : hid k s1).
      { eapply (hid_of_shrinks k (set_queue (mbase ms) q)); [exact Hl|exact Hs|]. eapply admission_shr. exact Had. }
      destruct r as [x|site|why]; [destruct x| |]; cbn [fst mbase with_mbase win with_base base]; try exact H1; exact Hsame. }
    destruct (worker (mbase ms)); try exact Hwin.
    destruct (queue (mbase ms)) as [|[c a] q]; [exact Hwin|].
    destruct c as [k0 v id h w|k0 v id h w ttl|k0|id w|]; try exact Hwin; try apply Hput.
    destruct (alookup k0 (store (set_queue (mbase ms) q))); cbn [fst mbase with_mbase win with_base base]; [|exact Hsame].
    eapply (hid_of_shrinks k (set_queue (mbase ms) q)); [exact Hl|exact Hs|apply store_delete_shr].
  - cbn [mstep]. unfold mworker2. destruct (wdel ms) as [[a id exp|a id exp|a k0 v id ttl obs]|] eqn:Hwd.
    + pose proof (weights_delete_shr cfg id false (mbase ms)) as H.
      destruct (weights_delete cfg id false (mbase ms)) as [s2|site s2|why]; cbn [fst mbase win with_base base];
        try (eapply hid_of_shrinks; [exact Hl|exact Hs|exact H]); exact Hsame.
    + cbn [fst mbase win with_base base]. destruct exp; exact Hsame.
    + assert (Hne : k <> k0).
      { intros ->. pose proof (HW k0) as Hab. unfold wkey in Hab. rewrite Hwd in Hab. specialize (Hab eq_refl).
        unfold ab in Hab. congruence. }
      destruct ttl as [t|]; [destruct (calc_expiry (now (mbase ms)) t)|]; cbn [fst mbase win with_base base];
        try exact Hsame; apply hid_insert_other; assumption.
    + pose proof (wstep_hid cfg (win ms) WPut2 k e Hl Hs) as H. destruct (wstep cfg (win ms) WPut2) as [w' ret]. exact H.
Qed.

(** ** [WAbs] holds along every micro schedule *)
Lemma cframe_abR : forall s s', cframe s s' -> abR s s'.
Proof. intros s s' (Hst & _) k. apply ab_eq. exact Hst. Qed.

Lemma mstepc_abR : forall cfg ms tid idxs, abR (mbase ms) (mbase (fst (mstepc cfg ms tid idxs))).
Proof.
  intros cfg ms tid idxs. unfold mstepc. destruct (alookup tid (cps ms)) as [p|]; [|apply abR_refl].
  destruct p as [r|k v w ttl| |h obs|n].
  - destruct r; try apply abR_refl;
      try (unfold put_check; repeat match goal with |- context [if ?b then _ else _] => destruct b end; apply abR_refl).
    + pose proof (T_half1 cfg k v w ttl rm (mbase ms)) as HT.
      destruct (upsert_half1 cfg k v w ttl rm (mbase ms)) as [[s' u]|[s' ret]]; exact (proj2 HT).
    + cbn [fst mbase set_cp win with_base base]. unfold park.
      eapply abR_trans; [exact (proj2 (T_soft_mark k (mbase ms)))|]. apply cframe_abR. unfold cframe. repeat split.
    + unfold read_lookup. destruct (lookup_alive k (mbase ms)); apply cframe_abR; unfold cframe; repeat split.
    + unfold read_body. destruct (read_one cfg k idxs (mbase ms)) as [[[v s'] [|i l]]|] eqn:Hr; try apply abR_refl.
      cbn [fst mbase end_cp win with_base base]. apply cframe_abR. eapply read_one_cframe. exact Hr.
    + unfold read_lookup. destruct (lookup_alive k (mbase ms)); apply cframe_abR; unfold cframe; repeat split.
    + unfold read_body. destruct (read_one cfg k idxs (mbase ms)) as [[[v s'] [|i l]]|] eqn:Hr; try apply abR_refl.
      cbn [fst mbase end_cp win with_base base]. apply cframe_abR. eapply read_one_cframe. exact Hr.
  - cbv zeta. cbn [fst mbase set_cp win with_base base]. unfold park. apply cframe_abR. unfold cframe. destruct ttl; repeat split.
  - destruct (alookup tid (blocked (mbase ms))) as [[c| |]|]; try apply abR_refl.
    pose proof (T_send cfg tid c (set_blocked (mbase ms) (aremove tid (blocked (mbase ms))))) as HT.
    destruct (do_send cfg tid c (set_blocked (mbase ms) (aremove tid (blocked (mbase ms))))) as [s' ret]. cbn [fst] in *.
    cbn [mbase end_cp win with_base base]. eapply abR_trans; [|exact (proj2 HT)]. apply cframe_abR. unfold cframe. repeat split.
  - destruct idxs as [|i [|j l]]; try apply abR_refl.
    destruct (pool_add cfg i h (mbase ms)) as [s'|] eqn:Hpa; [|apply abR_refl].
    cbn [fst mbase end_cp win with_base base]. apply cframe_abR. eapply pool_add_cframe. exact Hpa.
  - unfold shutdown_stage.
    repeat match goal with |- context [if ?b then _ else _] => destruct b end;
      try apply abR_refl;
      try (destruct (worker (mbase ms)); repeat match goal with |- context [if ?b then _ else _] => destruct b end; intros k0 Hk; exact Hk);
      try (destruct (consumer (mbase ms)); repeat match goal with |- context [if ?b then _ else _] => destruct b end; intros k0 Hk; exact Hk);
      try (intros k0 Hk; exact Hk).
    intros k0 Hk. reflexivity.
Qed.

Lemma mstepc_wdel : forall cfg ms tid idxs, wdel (fst (mstepc cfg ms tid idxs)) = wdel ms.
Proof.
  intros cfg ms tid idxs. unfold mstepc. destruct (alookup tid (cps ms)) as [p|]; [|reflexivity].
  destruct p as [r|k v w ttl| |h obs|n].
  - destruct r; try reflexivity;
      try (unfold put_check; repeat match goal with |- context [if ?b then _ else _] => destruct b end; reflexivity).
    + destruct (upsert_half1 cfg k v w ttl rm (mbase ms)) as [[s' u]|[s' ret]]; reflexivity.
    + unfold read_lookup. destruct (lookup_alive k (mbase ms)); reflexivity.
    + destruct (read_body cfg k (fun v => v) idxs (mbase ms)). reflexivity.
    + unfold read_lookup. destruct (lookup_alive k (mbase ms)); reflexivity.
    + destruct (read_body cfg k mapped idxs (mbase ms)). reflexivity.
  - reflexivity.
  - destruct (alookup tid (blocked (mbase ms))) as [[c| |]|]; try reflexivity.
    destruct (do_send cfg tid c (set_blocked (mbase ms) (aremove tid (blocked (mbase ms))))). reflexivity.
  - destruct idxs as [|i [|j l]]; try reflexivity. destruct (pool_add cfg i h (mbase ms)); reflexivity.
  - unfold shutdown_stage.
    repeat match goal with |- context [if ?b then _ else _] => destruct b end; try reflexivity;
      try (destruct (worker (mbase ms)); repeat match goal with |- context [if ?b then _ else _] => destruct b end; reflexivity);
      try (destruct (consumer (mbase ms)); repeat match goal with |- context [if ?b then _ else _] => destruct b end; reflexivity).
Qed.

Lemma wabs_step : forall cfg ms ev, WAbs ms -> WAbs (fst (mstep cfg ms ev)).
Proof.
  intros cfg ms ev HW. destruct ev as [e|tid r idxs|tid idxs|orc|].
  - cbn [mstep]. destruct (mwin_enabled ms e) eqn:He; [|exact HW].
    destruct (wstep cfg (win ms) e) as [w' ret] eqn:E. cbn [fst]. intros k0 Hk. unfold wkey in Hk. cbn [wdel] in Hk.
    (* a worker window is open, so e is no worker event *)
    assert (Hnw : match e with WBase (EWorker _) | WPut1 _ => False | _ => True end).
    { unfold mwin_enabled in He. destruct (wdel ms) eqn:Hwd; [|discriminate Hk]. destruct e as [[]| | | |]; try exact I; discriminate. }
    pose proof (proj2 (wstep_T cfg (win ms) e Hnw) k0) as H. rewrite E in H. cbn [fst] in H.
    cbn [mbase win]. apply H. apply HW. unfold wkey. exact Hk.
  - cbn [mstep]. unfold menter. destruct (negb (caller_free ms tid)); [exact HW|].
    destruct (shut (mbase ms) || negb (micro_request r) || early_panic cfg r).
    + pose proof (proj2 (T_step cfg (mbase ms) (ECall tid r idxs) (fun orc H => ltac:(discriminate H)))) as H. cbn [step] in H.
      destruct (call cfg tid r idxs (mbase ms)) as [s' ret]. cbn [fst] in *.
      intros k0 Hk. cbn [mbase with_mbase win with_base base]. apply H. apply HW. exact Hk.
    + destruct r; exact HW.
  - cbn [mstep]. intros k0 Hk. unfold wkey in Hk. rewrite mstepc_wdel in Hk.
    apply (mstepc_abR cfg ms tid idxs k0). apply HW. exact Hk.
  - cbn [mstep]. unfold mworker1. destruct (wdel ms) eqn:Hwd; [exact HW|]. destruct (wpending (win ms)); [exact HW|].
    assert (Hwin : WAbs (fst (let '(w', ret) := wstep cfg (win ms) (WPut1 orc) in ({| win := w'; cps := cps ms; wdel := None |}, ret)))).
    { destruct (wstep cfg (win ms) (WPut1 orc)) as [w' ret]. intros k0 Hk. discriminate Hk. }
    assert (Hput : forall k v id h w ttl a q, WAbs (fst (mput1 cfg ms orc k v id h w ttl a q))).
    { intros k v id h w ttl a q. unfold mput1.
      destruct (amem k (store (set_queue (mbase ms) q))) eqn:Hk; [intros k0 Hk0; unfold wkey in Hk0; cbn [fst wdel with_mbase] in Hk0; rewrite Hwd in Hk0; discriminate|].
      destruct (admission cfg orc k id h w (set_queue (mbase ms) q)) as [[r s1] vs] eqn:Had.
      destruct r as [x|site|why]; [destruct x| |];
        try (intros k0 Hk0; unfold wkey in Hk0; cbn [fst wdel with_mbase] in Hk0; rewrite ?Hwd in Hk0; discriminate).
      intros k0 Hk0. unfold wkey in Hk0. cbn [fst wdel] in Hk0. inversion Hk0; subst k0.
      cbn [fst mbase win with_base base]. apply (admission_ab _ _ _ _ _ _ _ _ _ _ Had k). unfold ab.
      unfold amem in Hk. destruct (alookup k (store (set_queue (mbase ms) q))); [discriminate|reflexivity]. }
    destruct (worker (mbase ms)); try exact Hwin.
    destruct (queue (mbase ms)) as [|[c a] q]; [exact Hwin|].
    destruct c as [k v id h w|k v id h w ttl|k|id w|]; try exact Hwin; try apply Hput.
    destruct (alookup k (store (set_queue (mbase ms) q))); intros k0 Hk0; unfold wkey in Hk0; cbn [fst wdel with_mbase] in Hk0; rewrite ?Hwd in Hk0; discriminate.
  - cbn [mstep]. unfold mworker2. destruct (wdel ms) as [[a id exp|a id exp|a k v id ttl obs]|] eqn:Hwd.
    + destruct (weights_delete cfg id false (mbase ms)); intros k0 Hk0; unfold wkey in Hk0; cbn [fst wdel] in Hk0; rewrite ?Hwd in Hk0; discriminate.
    + intros k0 Hk0. discriminate Hk0.
    + destruct ttl as [t|]; [destruct (calc_expiry (now (mbase ms)) t)|]; intros k0 Hk0; discriminate Hk0.
    + destruct (wstep cfg (win ms) WPut2) as [w' ret]. intros k0 Hk0. unfold wkey in Hk0. cbn [fst wdel] in Hk0. discriminate.
Qed.

Lemma wabs_run : forall cfg evs, WAbs (mrun cfg evs).
Proof.
  intros cfg evs. unfold mrun. assert (H0 : WAbs (minit cfg)) by (intros k0 Hk; discriminate Hk).
  generalize (minit cfg) H0. induction evs as [|ev t IH]; intros ms HW; [exact HW|].
  unfold mrun_from in *. cbn [fold_left]. apply IH. apply wabs_step. exact HW.
Qed.

(* STATEMENT (C04 / C02 along whole micro schedules, no restriction on the events): at every state of every micro
   schedule, the next step - whichever thread takes it, wherever it stands - does not re-expose a soft-deleted entry *)
Lemma micro_hidden_run : forall cfg evs ev k e,
  alookup k (store (mbase (mrun cfg evs))) = Some e -> e_soft e = true ->
  hid k (mbase (fst (mstep cfg (mrun cfg evs) ev))).
Proof. intros cfg evs ev k e. apply micro_hidden_all. apply wabs_run. Qed.
