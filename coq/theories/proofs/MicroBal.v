(** C16 at every state of every micro schedule: KeysAdded - KeysDeleted = keys held and WeightAdded - WeightRemoved = total
    (modulo 2^64) are preserved by EVERY micro step - the windows of put_or_update, of the worker's put, put with
    time-to-live and Delete included - except inside the stages of shutdown(), where the store is cleared before the
    statistics are. *)
From CacheD Require Import Base Sketch Model Window Micro.
From CacheD.proofs Require Import Defs AListLemmas InvLemmas InvOps InvCalls InvProofs ApiProofs HistoryProofs StatsProofs
                                  WindowProofs MicroProofs.
From Coq Require Import ZifyBool.

(** ** a key that is absent stays absent unless the worker inserts it *)
Definition ab (k : Z) (s : state) : Prop := alookup k (store s) = None.

Lemma ab_eq : forall k s s', store s' = store s -> ab k s -> ab k s'.
Proof. unfold ab. intros k s s' H Ha. rewrite H. exact Ha. Qed.
Lemma ab_eq_or_nil : forall k s s', store s' = store s \/ store s' = [] -> ab k s -> ab k s'.
Proof. unfold ab. intros k s s' [H|H] Ha; rewrite H; [exact Ha|reflexivity]. Qed.
Lemma ab_aset_present : forall k k0 (e0 e' : entry) (l : list (Z * entry)),
  alookup k0 l = Some e0 -> alookup k l = None -> alookup k (aset k0 e' l) = None.
Proof.
  intros k k0 e0 e' l H0 Hk. destruct (Z.eq_dec k k0) as [->|Hne]; [congruence|].
  rewrite alookup_aset_neq by exact Hne. exact Hk.
Qed.
Lemma ab_shrinks : forall k s s', store_shrinks s s' -> ab k s -> ab k s'.
Proof. unfold ab. intros k s s' H Ha. destruct (H k) as [E|E]; rewrite E; [exact Ha|reflexivity]. Qed.

Lemma call_upsert_ab : forall cfg tid k0 v w ttl rm s s' ret k,
  call_upsert cfg tid k0 v w ttl rm s = (s', ret) -> ab k s -> ab k s'.
Proof.
  intros cfg tid k0 v w ttl rm s s' ret k H Ha.
  destruct (alookup k0 (store s)) as [e0|] eqn:El0.
  - rewrite call_upsert_present_eq with (e := e0) in H by exact El0.
    destruct (ups_new_exp_o rm ttl e0 s) as [new_exp|].
    + apply ups_tail_frame in H as (Hst & _).
      pose proof (ups_s2_fields cfg k0 v e0 new_exp s) as (Fst & _). rewrite Fst in Hst.
      unfold ab in *. rewrite Hst. eapply ab_aset_present; eassumption.
    + inversion H; subst. exact Ha.
  - destruct v as [val|].
    + rewrite upsert_absent_is_put in H by exact El0. apply call_put_spec in H as ((Hst & _) & _).
      eapply ab_eq; eassumption.
    + unfold call_upsert in H. rewrite El0 in H. cbv zeta in H. destruct w; inversion H; subst; exact Ha.
Qed.

Lemma call_ab : forall cfg tid r idxs s s' ret k, call cfg tid r idxs s = (s', ret) -> ab k s -> ab k s'.
Proof.
  intros cfg tid r idxs s s' ret k H Ha. unfold call in H.
  destruct (amem tid (blocked s)); [inversion H; subst; exact Ha|].
  destruct r as [k0 v|k0 v w|k0 v ttl|k0 v w ttl|k0 v w ttl rm|k0|k0|k0|k0|k0|ks|ks|ks| | |]; cbv beta iota zeta in H.
  - destruct (_ <=? 0); [inversion H; subst; exact Ha|].
    destruct (shut s); [inversion H; subst; exact Ha|].
    apply call_put_spec in H as ((Hst & _) & _). eapply ab_eq; eassumption.
  - destruct (shut s); [inversion H; subst; exact Ha|].
    apply call_put_spec in H as ((Hst & _) & _). eapply ab_eq; eassumption.
  - destruct (shut s); [inversion H; subst; exact Ha|].
    apply call_put_spec in H as ((Hst & _) & _). eapply ab_eq; eassumption.
  - destruct (shut s); [inversion H; subst; exact Ha|].
    apply call_put_spec in H as ((Hst & _) & _). eapply ab_eq; eassumption.
  - destruct (shut s); [inversion H; subst; exact Ha|]. eapply call_upsert_ab; eassumption.
  - destruct (shut s); [inversion H; subst; exact Ha|].
    apply do_send_spec in H as ((Hst & _) & _).
    destruct (alookup k0 (store s)) as [e0|] eqn:El0; sred; [|eapply ab_eq; eassumption].
    unfold ab in *. rewrite Hst. eapply ab_aset_present; eassumption.
  - destruct (shut s); [inversion H; subst; exact Ha|].
    destruct (read_one cfg k0 idxs s) as [[[v0 s0] [|i0 idxs0]]|] eqn:E; inversion H; subst; try exact Ha.
    apply read_one_spec in E as ((Hst & _) & _). eapply ab_eq; eassumption.
  - destruct (shut s); [inversion H; subst; exact Ha|].
    destruct (read_one cfg k0 idxs s) as [[[v0 s0] [|i0 idxs0]]|] eqn:E; inversion H; subst; try exact Ha.
    apply read_one_spec in E as ((Hst & _) & _). eapply ab_eq; eassumption.
  - destruct (shut s); [inversion H; subst; exact Ha|].
    destruct (read_one cfg k0 idxs s) as [[[v0 s0] [|i0 idxs0]]|] eqn:E; inversion H; subst; try exact Ha.
    apply read_one_spec in E as ((Hst & _) & _). eapply ab_eq; eassumption.
  - destruct (shut s); [inversion H; subst; exact Ha|].
    destruct (read_one cfg k0 idxs s) as [[[v0 s0] [|i0 idxs0]]|] eqn:E; inversion H; subst; try exact Ha.
    apply read_one_spec in E as ((Hst & _) & _). eapply ab_eq; eassumption.
  - destruct (shut s); [inversion H; subst; exact Ha|].
    destruct (read_many cfg ks idxs s) as [[[v0 s0] [|i0 idxs0]]|] eqn:E; inversion H; subst; try exact Ha.
    apply read_many_spec in E as ((Hst & _) & _). eapply ab_eq; eassumption.
  - destruct (shut s); [inversion H; subst; exact Ha|].
    destruct (read_many cfg ks idxs s) as [[[v0 s0] [|i0 idxs0]]|] eqn:E; inversion H; subst; try exact Ha.
    apply read_many_spec in E as ((Hst & _) & _). eapply ab_eq; eassumption.
  - destruct (shut s); [inversion H; subst; exact Ha|].
    destruct (read_many cfg ks idxs s) as [[[v0 s0] [|i0 idxs0]]|] eqn:E; inversion H; subst; try exact Ha.
    apply read_many_spec in E as ((Hst & _) & _). eapply ab_eq; eassumption.
  - inversion H; subst; exact Ha.
  - inversion H; subst; exact Ha.
  - destruct (shut s); [inversion H; subst; exact Ha|].
    apply shutdown_cmd_store in H. sred. eapply ab_eq_or_nil; eassumption.
Qed.

Lemma resume_ab : forall cfg tid s s' ret k, resume cfg tid s = (s', ret) -> ab k s -> ab k s'.
Proof.
  intros cfg tid s s' ret k H Ha. unfold resume in H.
  destruct (alookup tid (blocked s)) as [c|]; [|inversion H; subst; exact Ha].
  cbv zeta in H. sred.
  destruct c as [c| |].
  - assert (Hd : forall s1 r1, do_send cfg tid c (set_blocked s (aremove tid (blocked s))) = (s1, r1) -> ab k s1).
    { intros s1 r1 Hd. apply do_send_spec in Hd as ((Hst & _) & _). sred. eapply ab_eq; eassumption. }
    destruct (worker s); [destruct (_ <? c_queue cfg)|..];
      first [eapply Hd; exact H | inversion H; subst; exact Ha].
  - assert (Hd : forall s1 r1, shutdown_cmd cfg tid (set_blocked s (aremove tid (blocked s))) = (s1, r1) -> ab k s1).
    { intros s1 r1 Hd. apply shutdown_cmd_store in Hd. sred. eapply ab_eq_or_nil; eassumption. }
    destruct (worker s); [destruct (_ <? c_queue cfg)|..];
      first [eapply Hd; exact H | inversion H; subst; exact Ha].
  - assert (Hd : forall s1 r1, shutdown_chan tid (set_blocked s (aremove tid (blocked s))) = (s1, r1) -> ab k s1).
    { intros s1 r1 Hd. apply shutdown_chan_store in Hd. sred. eapply ab_eq_or_nil; eassumption. }
    destruct (consumer s); [destruct (_ <? chan_capacity)|..];
      first [eapply Hd; exact H | inversion H; subst; exact Ha].
Qed.

Lemma drain_store : forall cfg bl s, store (fst (drain cfg bl s)) = store s.
Proof.
  intros cfg bl s. unfold drain. destruct (consumer s); try reflexivity.
  destruct (chan s) as [|[hs|] rest]; try reflexivity.
  destruct (apply_batch (lfu s) hs bl) as [[l'| |] [|b t]]; try reflexivity.
  cbn [fst]. destruct (consumer_run _); reflexivity.
Qed.

(** every event of the atomic model except a worker step *)
Lemma step_ab : forall cfg s ev k, (forall orc, ev <> EWorker orc) -> ab k s -> ab k (fst (step cfg s ev)).
Proof.
  intros cfg s ev k Hnw Ha. destruct (step cfg s ev) as [s' ret] eqn:E. cbn [fst].
  destruct ev as [tid r idxs|tid|orc| |bl|dt|a]; cbn [step] in E.
  - eapply call_ab; eassumption.
  - eapply resume_ab; eassumption.
  - exfalso. eapply Hnw. reflexivity.
  - apply sweep_frame in E as (_ & Hsh). eapply ab_shrinks; eassumption.
  - pose proof (drain_store cfg bl s) as Hd. rewrite E in Hd. eapply ab_eq; eassumption.
  - inversion E; subst. exact Ha.
  - inversion E; subst. exact Ha.
Qed.

(** ** both facts at once for a transition of the base state *)
Definition T (s s' : state) : Prop := (BAL s -> BAL s') /\ (forall k, ab k s -> ab k s').

Lemma T_refl : forall s, T s s.
Proof. intros s. split; auto. Qed.
Lemma T_trans : forall a b c, T a b -> T b c -> T a c.
Proof. intros a b c (B1 & A1) (B2 & A2). split; auto. Qed.
Lemma T_cframe : forall s s', cframe s s' -> T s s'.
Proof.
  intros s s' F. split; [apply cframe_bal; exact F|]. destruct F as (Hst & _). intros k. apply ab_eq. exact Hst.
Qed.

Lemma T_step : forall cfg s ev, (forall orc, ev <> EWorker orc) -> T s (fst (step cfg s ev)).
Proof.
  intros cfg s ev Hnw. split.
  - intros HB. exact (step_bal cfg s ev HB).
  - intros k. apply step_ab. exact Hnw.
Qed.

Lemma T_send : forall cfg tid c s, T s (fst (do_send cfg tid c s)).
Proof.
  intros cfg tid c s. destruct (do_send cfg tid c s) as [s' ret] eqn:E. cbn [fst].
  apply do_send_spec in E as (F & _). apply T_cframe. apply send_frame_cframe. exact F.
Qed.

Lemma T_soft_mark : forall k0 s, T s (soft_mark k0 s).
Proof.
  intros k0 s. unfold soft_mark. destruct (alookup k0 (store s)) as [e0|] eqn:E0; [|apply T_refl]. split.
  - intros HB. eapply aset_present_bal; [exact E0|reflexivity|reflexivity|reflexivity|exact HB].
  - intros k Ha. unfold ab in *. cbn [store set_store]. eapply ab_aset_present; eassumption.
Qed.

Lemma T_half1 : forall cfg k0 v w ttl rm s,
  match upsert_half1 cfg k0 v w ttl rm s with inl (s', _) => T s s' | inr (s', _) => T s s' end.
Proof.
  intros cfg k0 v w ttl rm s. unfold upsert_half1.
  destruct (alookup k0 (store s)) as [e0|] eqn:E0; [|apply T_refl].
  assert (Hupd : forall x val, T s (set_store s (aset k0 {| e_val := val; e_id := e_id e0; e_exp := x; e_soft := e_soft e0 |} (store s)))).
  { intros x val. split.
    - intros HB. eapply aset_present_bal; [exact E0|reflexivity|reflexivity|reflexivity|exact HB].
    - intros k Ha. unfold ab in *. cbn [store set_store]. eapply ab_aset_present; eassumption. }
  destruct rm; [apply Hupd|]. destruct ttl as [t|]; [|apply Hupd].
  destruct (calc_expiry (now s) t); [apply Hupd|apply T_refl].
Qed.

Lemma T_half2 : forall cfg tid u s, T s (fst (upsert_half2 cfg tid u s)).
Proof.
  intros cfg tid u s. unfold upsert_half2.
  destruct (u_resp u) as [[[id old] new_exp]|].
  - set (existing := match alookup id (weights s) with Some wk => w_weight wk | None => 0 end).
    destruct (type_of_expiry_update old new_exp) as [|n|o|o n]; cbv beta iota zeta.
    + destruct (requested_weight cfg (u_k u) (u_v u) (u_w u) (u_ttl u)) as [wt|]; [|apply T_refl].
      destruct (wt <=? 0); [apply T_refl|apply T_send].
    + destruct (requested_weight cfg (u_k u) (u_v u) (u_w u) (u_ttl u)) as [wt|].
      * destruct (wt <=? 0); [apply T_cframe; unfold cframe; repeat split|].
        eapply T_trans; [|apply T_send]. apply T_cframe; unfold cframe; repeat split.
      * destruct (add_i64 cfg existing ttl_entry_size) as [x|]; [|apply T_cframe; unfold cframe; repeat split].
        destruct (x <=? 0); [apply T_cframe; unfold cframe; repeat split|].
        eapply T_trans; [|apply T_send]. apply T_cframe; unfold cframe; repeat split.
    + destruct (requested_weight cfg (u_k u) (u_v u) (u_w u) (u_ttl u)) as [wt|].
      * destruct (wt <=? 0); [apply T_cframe; unfold cframe; repeat split|].
        eapply T_trans; [|apply T_send]. apply T_cframe; unfold cframe; repeat split.
      * destruct (add_i64 cfg existing (- ttl_entry_size)) as [x|]; [|apply T_cframe; unfold cframe; repeat split].
        destruct (x <=? 0); [apply T_cframe; unfold cframe; repeat split|].
        eapply T_trans; [|apply T_send]. apply T_cframe; unfold cframe; repeat split.
    + destruct (requested_weight cfg (u_k u) (u_v u) (u_w u) (u_ttl u)) as [wt|]; [|apply T_cframe; unfold cframe; repeat split].
      destruct (wt <=? 0); [apply T_cframe; unfold cframe; repeat split|].
      eapply T_trans; [|apply T_send]. apply T_cframe; unfold cframe; repeat split.
  - destruct (u_v u) as [val|]; [|apply T_refl].
    destruct (requested_weight cfg (u_k u) (Some val) (u_w u) (u_ttl u)) as [wt|]; [|apply T_refl].
    destruct (wt <=? 0); [apply T_refl|].
    destruct (u_ttl u); (eapply T_trans; [|apply T_send]); apply T_cframe; unfold cframe; repeat split.
Qed.

(** ** admission only removes store entries *)
Definition abR (s s' : state) : Prop := forall k, ab k s -> ab k s'.
Lemma abR_refl : forall s, abR s s. Proof. intros s k H. exact H. Qed.
Lemma abR_trans : forall a b c, abR a b -> abR b c -> abR a c. Proof. intros a b c H1 H2 k H. auto. Qed.

Lemma store_delete_ab : forall k0 s, abR s (store_delete k0 s).
Proof.
  intros k0 s k Ha. unfold store_delete. destruct (alookup k0 (store s)); [|exact Ha].
  unfold ab in *. cbn [store set_store upd_st set_st]. rewrite alookup_aremove. destruct (k =? k0); [reflexivity|exact Ha].
Qed.

Lemma weights_delete_ab : forall cfg id hook s,
  match weights_delete cfg id hook s with Ok s' | Panic _ s' => abR s s' | Inadmissible _ => True end.
Proof.
  intros cfg id hook s. unfold weights_delete. destruct (alookup id (weights s)) as [wk|]; [|apply abR_refl].
  destruct (add_i64 cfg _ _) as [u|].
  - destruct hook.
    + intros k Ha. pose proof (store_delete_ab (w_key wk) (set_used (set_weights s (aremove id (weights s))) u) k) as H.
      unfold ab in *. cbn [store upd_st set_st] in *. apply H. exact Ha.
    + intros k Ha. exact Ha.
  - intros k Ha. exact Ha.
Qed.

Lemma weights_add_ab : forall cfg k0 id h w s,
  match weights_add cfg k0 id h w s with Ok s' | Panic _ s' => abR s s' | Inadmissible _ => True end.
Proof.
  intros cfg k0 id h w s. unfold weights_add. destruct (add_i64 cfg _ _); intros k Ha; exact Ha.
Qed.

Lemma admission_ab : forall cfg orc k0 id h w s r s' vs, admission cfg orc k0 id h w s = (r, s', vs) -> abR s s'.
Proof. exact (admission_lift abR abR_refl abR_trans weights_delete_ab weights_add_ab). Qed.

(** ** the invariant carried along a micro schedule *)
Definition wkey (ms : mstate) : option Z :=
  match wdel ms with Some (WPCharged _ k _ _ _ _) => Some k | _ => None end.

Record MBal (ms : mstate) : Prop := {
  mb_bal : BAL (mbase ms);
  mb_noshut : forall tid n, alookup tid (cps ms) <> Some (PShut n);
  mb_abs : forall k, wkey ms = Some k -> ab k (mbase ms)
}.

Definition bal_event (ev : mevent) : Prop := match ev with MEnter _ r _ => r <> RShutdown | _ => True end.

Lemma MBal_T : forall ms ms', MBal ms -> T (mbase ms) (mbase ms') -> wdel ms' = wdel ms ->
  (forall tid n, alookup tid (cps ms') <> Some (PShut n)) -> MBal ms'.
Proof.
  intros ms ms' [HB Hn Ha] (TB & TA) Hw Hn'. constructor; [apply TB; exact HB|exact Hn'|].
  intros k Hk. apply TA. apply Ha. unfold wkey in *. rewrite Hw in Hk. exact Hk.
Qed.

Lemma noshut_aset : forall (l : list (Z * cpend)) tid p,
  (forall t n, alookup t l <> Some (PShut n)) -> (forall n, p <> PShut n) ->
  forall t n, alookup t (aset tid p l) <> Some (PShut n).
Proof.
  intros l tid p Hl Hp t n H. rewrite alookup_aset in H. destruct (t =? tid).
  - inversion H. eapply Hp. eassumption.
  - eapply Hl. exact H.
Qed.
Lemma noshut_aremove : forall (l : list (Z * cpend)) tid,
  (forall t n, alookup t l <> Some (PShut n)) -> forall t n, alookup t (aremove tid l) <> Some (PShut n).
Proof.
  intros l tid Hl t n H. rewrite alookup_aremove in H. destruct (t =? tid); [discriminate|]. eapply Hl. exact H.
Qed.

Lemma mstepc_mbal : forall cfg ms tid idxs, MBal ms -> MBal (fst (mstepc cfg ms tid idxs)).
Proof.
  intros cfg ms tid idxs HM. pose proof HM as [HB Hn Ha].
  unfold mstepc. destruct (alookup tid (cps ms)) as [p|] eqn:Hp; [|exact HM].
  assert (Hset : forall s' q, T (mbase ms) s' -> (forall n, q <> PShut n) -> MBal (set_cp ms s' tid q)).
  { intros s' q HT Hq. eapply MBal_T; [exact HM|exact HT|reflexivity|]. cbn [cps set_cp]. apply noshut_aset; assumption. }
  assert (Hend : forall s', T (mbase ms) s' -> MBal (end_cp ms s' tid)).
  { intros s' HT. eapply MBal_T; [exact HM|exact HT|reflexivity|]. cbn [cps end_cp]. apply noshut_aremove; assumption. }
  destruct p as [r|k v w ttl| |h obs|n].
  - destruct r; try exact HM;
      try (unfold put_check; repeat match goal with |- context [if ?b then _ else _] => destruct b end;
           first [apply Hend; apply T_refl | apply Hset; [apply T_refl|discriminate]]).
    + pose proof (T_half1 cfg k v w ttl rm (mbase ms)) as HT.
      destruct (upsert_half1 cfg k v w ttl rm (mbase ms)) as [[s' u]|[s' ret]]; cbn [fst].
      * eapply MBal_T; [exact HM|exact HT|reflexivity|]. cbn [cps]. apply noshut_aremove; assumption.
      * apply Hend. exact HT.
    + cbn [fst]. apply Hset; [|discriminate]. unfold park.
      eapply T_trans; [apply T_soft_mark|]. apply T_cframe. unfold cframe. repeat split.
    + unfold read_lookup. destruct (lookup_alive k (mbase ms)); cbn [fst].
      * apply Hset; [|discriminate]. apply T_cframe. unfold cframe. repeat split.
      * apply Hend. apply T_cframe. unfold cframe. repeat split.
    + unfold read_body. destruct (read_one cfg k idxs (mbase ms)) as [[[v s'] [|i l]]|] eqn:Hr; cbn [fst];
        try (apply Hend; apply T_refl).
      apply Hend. apply T_cframe. eapply read_one_cframe. exact Hr.
    + unfold read_lookup. destruct (lookup_alive k (mbase ms)); cbn [fst].
      * apply Hset; [|discriminate]. apply T_cframe. unfold cframe. repeat split.
      * apply Hend. apply T_cframe. unfold cframe. repeat split.
    + unfold read_body. destruct (read_one cfg k idxs (mbase ms)) as [[[v s'] [|i l]]|] eqn:Hr; cbn [fst];
        try (apply Hend; apply T_refl).
      apply Hend. apply T_cframe. eapply read_one_cframe. exact Hr.
  - cbv zeta. cbn [fst]. apply Hset; [|discriminate]. unfold park. apply T_cframe. unfold cframe. destruct ttl; repeat split.
  - destruct (alookup tid (blocked (mbase ms))) as [[c| |]|]; try exact HM.
    pose proof (T_send cfg tid c (set_blocked (mbase ms) (aremove tid (blocked (mbase ms))))) as HT.
    destruct (do_send cfg tid c (set_blocked (mbase ms) (aremove tid (blocked (mbase ms))))) as [s' ret]. cbn [fst] in *.
    apply Hend. eapply T_trans; [|exact HT]. apply T_cframe. unfold cframe. repeat split.
  - destruct idxs as [|i [|j l]]; try exact HM.
    destruct (pool_add cfg i h (mbase ms)) as [s'|] eqn:Hpa; [|exact HM]. cbn [fst].
    apply Hend. apply T_cframe. eapply pool_add_cframe. exact Hpa.
  - exfalso. eapply Hn. exact Hp.
Qed.

Lemma menter_mbal : forall cfg ms tid r idxs, MBal ms -> r <> RShutdown -> MBal (fst (menter cfg ms tid r idxs)).
Proof.
  intros cfg ms tid r idxs HM Hns. pose proof HM as [HB Hn Ha].
  unfold menter. destruct (negb (caller_free ms tid)); [exact HM|].
  destruct (shut (mbase ms) || negb (micro_request r) || early_panic cfg r).
  - pose proof (T_step cfg (mbase ms) (ECall tid r idxs)) as HT. cbn [step] in HT.
    destruct (call cfg tid r idxs (mbase ms)) as [s' ret]. cbn [fst] in *.
    eapply MBal_T; [exact HM|apply HT; intros orc; discriminate|reflexivity|exact Hn].
  - destruct r; try (exfalso; apply Hns; reflexivity);
      (cbn [fst]; eapply MBal_T; [exact HM|apply T_refl|reflexivity|]; cbn [cps set_cp]; apply noshut_aset; [exact Hn|discriminate]).
Qed.

Lemma T_half2_worker : forall cfg p s, T s (fst (worker_half2 cfg p s)).
Proof. intros cfg p s. unfold worker_half2. cbn [fst]. apply T_cframe. unfold cframe, set_ack. repeat split. Qed.

(** a worker step proper (only BAL matters: it runs when the worker is in no window) *)
Lemma worker_half1_bal : forall cfg orc s, BAL s ->
  match worker_half1 cfg orc s with inl (s', _) => BAL s' | inr (s', _) => BAL s' end.
Proof.
  intros cfg orc s HB. unfold worker_half1.
  assert (Hws : BAL (fst (worker_step cfg orc s))).
  { destruct (worker_step cfg orc s) as [s' ret] eqn:E. cbn [fst]. eapply worker_step_bal; eassumption. }
  destruct (worker s) eqn:Hw; try (destruct (worker_step cfg orc s); exact Hws).
  destruct (queue s) as [|[c a] q] eqn:Hq; [destruct (worker_step cfg orc s); exact Hws|].
  destruct c as [k v id h w|k v id h w ttl|k|id w|]; try (destruct (worker_step cfg orc s); exact Hws).
  destruct (amem k (store (set_queue s q))) eqn:Hk; [destruct (worker_step cfg orc s); exact Hws|].
  destruct (admission cfg orc k id h w (set_queue s q)) as [[r s1] vs] eqn:Had.
  destruct r as [x| |]; try (destruct (worker_step cfg orc s); exact Hws).
  destruct x; try (destruct (worker_step cfg orc s); exact Hws).
  destruct (calc_expiry (now s1) ttl) as [e|]; [|destruct (worker_step cfg orc s); exact Hws].
  apply store_insert_bal.
  - apply (admission_ab _ _ _ _ _ _ _ _ _ _ Had k). unfold ab. cbn [store set_queue].
    unfold amem in Hk. cbn [store set_queue] in Hk. destruct (alookup k (store s)); [discriminate|reflexivity].
  - eapply admission_bal; [exact Had|]. unfold BAL, KB, WB in *. cbn [store st used set_queue]. exact HB.
Qed.

(** the window model's events on the base state *)
Lemma wstep_T : forall cfg ws e,
  match e with WBase (EWorker _) | WPut1 _ => False | _ => True end ->
  T (base ws) (base (fst (wstep cfg ws e))).
Proof.
  intros cfg ws e He. destruct e as [b|tid k v w ttl rm|tid|orc|]; try contradiction.
  - rewrite wstep_base_eq.
    destruct (match b with
              | ECall tid _ _ | ERun tid => negb (amem tid (ups ws))
              | EWorker _ => match wpending ws with Some _ => false | None => true end
              | _ => true end); [|apply T_refl].
    assert (Hnw : forall orc, b <> EWorker orc) by (intros orc Hb; subst b; contradiction).
    pose proof (T_step cfg (base ws) b Hnw) as HT.
    destruct (step cfg (base ws) b) as [s' ret]. exact HT.
  - rewrite wstep_upsert1_eq.
    destruct (amem tid (ups ws) || amem tid (blocked (base ws))); [apply T_refl|].
    destruct (shut (base ws)); [apply T_refl|].
    pose proof (T_half1 cfg k v w ttl rm (base ws)) as HT.
    destruct (upsert_half1 cfg k v w ttl rm (base ws)) as [[s' u]|[s' ret]]; exact HT.
  - rewrite wstep_upsert2_eq. destruct (alookup tid (ups ws)) as [u|]; [|apply T_refl].
    pose proof (T_half2 cfg tid u (base ws)) as HT.
    destruct (upsert_half2 cfg tid u (base ws)) as [s' ret]. exact HT.
  - rewrite wstep_put2_eq. destruct (wpending ws) as [p|]; [|apply T_refl].
    pose proof (T_half2_worker cfg p (base ws)) as HT.
    destruct (worker_half2 cfg p (base ws)) as [s' ret]. exact HT.
Qed.

Lemma wstep_worker_bal : forall cfg ws e,
  match e with WBase (EWorker _) | WPut1 _ => True | _ => False end ->
  BAL (base ws) -> BAL (base (fst (wstep cfg ws e))).
Proof.
  intros cfg ws e He HB. destruct e as [b|tid k v w ttl rm|tid|orc|]; try contradiction.
  - destruct b as [tid r idxs|tid|orc| |bl|dt|a]; try contradiction.
    rewrite wstep_base_eq. destruct (wpending ws); [exact HB|].
    pose proof (step_bal cfg (base ws) (EWorker orc) HB) as HB'. unfold step_state in HB'.
    destruct (step cfg (base ws) (EWorker orc)) as [s' ret]. exact HB'.
  - rewrite wstep_put1_eq. destruct (wpending ws); [exact HB|].
    pose proof (worker_half1_bal cfg orc (base ws) HB) as HB'.
    destruct (worker_half1 cfg orc (base ws)) as [[s' p]|[s' ret]]; exact HB'.
Qed.

Lemma mwin_mbal : forall cfg ms e, MBal ms -> MBal (fst (mstep cfg ms (MWin e))).
Proof.
  intros cfg ms e HM. pose proof HM as [HB Hn Ha]. cbn [mstep].
  destruct (mwin_enabled ms e) eqn:He; [|exact HM].
  assert (Hcase : match e with WBase (EWorker _) | WPut1 _ => True | _ => False end \/
                  match e with WBase (EWorker _) | WPut1 _ => False | _ => True end).
  { destruct e as [[]| | | |]; auto. }
  destruct Hcase as [Hw|Hnw].
  - (* a worker step: the worker is in no window *)
    assert (Hwd : wdel ms = None).
    { unfold mwin_enabled in He. destruct e as [[]| | | |]; try contradiction; destruct (wdel ms); [discriminate|reflexivity|discriminate|reflexivity]. }
    pose proof (wstep_worker_bal cfg (win ms) e Hw HB) as HB'.
    destruct (wstep cfg (win ms) e) as [w' ret]. cbn [fst] in *.
    constructor; [exact HB'|exact Hn|]. intros k0 Hk. unfold wkey in Hk. cbn [wdel] in Hk. rewrite Hwd in Hk. discriminate.
  - pose proof (wstep_T cfg (win ms) e Hnw) as HT.
    destruct (wstep cfg (win ms) e) as [w' ret]. cbn [fst] in *.
    eapply MBal_T; [exact HM|exact HT|reflexivity|exact Hn].
Qed.

Lemma mworker1_mbal : forall cfg ms orc, MBal ms -> MBal (fst (mworker1 cfg ms orc)).
Proof.
  intros cfg ms orc HM. pose proof HM as [HB Hn Ha]. unfold mworker1.
  destruct (wdel ms) eqn:Hwd; [exact HM|]. destruct (wpending (win ms)) eqn:Hwp; [exact HM|].
  assert (Hnone : forall ms', wdel ms' = None -> BAL (mbase ms') -> cps ms' = cps ms -> MBal ms').
  { intros ms' Hw' HB' Hc'. constructor; [exact HB'|rewrite Hc'; exact Hn|].
    intros k0 Hk. unfold wkey in Hk. rewrite Hw' in Hk. discriminate. }
  assert (Hwin : MBal (fst (let '(w', ret) := wstep cfg (win ms) (WPut1 orc) in ({| win := w'; cps := cps ms; wdel := None |}, ret)))).
  { pose proof (wstep_worker_bal cfg (win ms) (WPut1 orc) I HB) as HB'.
    destruct (wstep cfg (win ms) (WPut1 orc)) as [w' ret]. cbn [fst] in *. apply Hnone; [reflexivity|exact HB'|reflexivity]. }
  assert (Hput : forall k v id h w ttl a q, queue (mbase ms) = (match ttl with None => CPut k v id h w | Some t => CPutTTL k v id h w t end, a) :: q ->
                   MBal (fst (mput1 cfg ms orc k v id h w ttl a q))).
  { intros k v id h w ttl a q Hq. unfold mput1.
    assert (HB0 : BAL (set_queue (mbase ms) q)) by (unfold BAL, KB, WB in *; cbn [store st used set_queue]; exact HB).
    destruct (amem k (store (set_queue (mbase ms) q))) eqn:Hk.
    { cbn [fst]. apply Hnone; [exact Hwd| |reflexivity]. cbn [mbase with_mbase win with_base base].
      eapply cframe_bal; [|exact HB0]. unfold cframe, set_ack. repeat split. }
    destruct (admission cfg orc k id h w (set_queue (mbase ms) q)) as [[r s1] vs] eqn:Had.
    pose proof (admission_bal _ _ _ _ _ _ _ _ _ _ Had HB0) as HB1.
    destruct r as [x|site|why].
    - destruct x.
      + cbn [fst]. apply Hnone; [exact Hwd| |reflexivity]. cbn [mbase with_mbase win with_base base].
        eapply cframe_bal; [|exact HB1]. unfold cframe, set_ack. repeat split.
      + cbn [fst]. constructor; [exact HB1|exact Hn|]. intros k0 Hk0. unfold wkey in Hk0. cbn [wdel] in Hk0. inversion Hk0; subst k0.
        cbn [mbase win with_base base]. apply (admission_ab _ _ _ _ _ _ _ _ _ _ Had k). unfold ab.
        unfold amem in Hk. destruct (alookup k (store (set_queue (mbase ms) q))); [discriminate|reflexivity].
      + cbn [fst]. apply Hnone; [exact Hwd| |reflexivity]. cbn [mbase with_mbase win with_base base].
        eapply cframe_bal; [|exact HB1]. unfold cframe, set_ack. repeat split.
      + cbn [fst]. apply Hnone; [exact Hwd| |reflexivity]. cbn [mbase with_mbase win with_base base].
        eapply cframe_bal; [|exact HB1]. unfold cframe, set_ack. repeat split.
    - cbn [fst]. apply Hnone; [exact Hwd| |reflexivity]. cbn [mbase with_mbase win with_base base].
      eapply cframe_bal; [|exact HB1]. unfold cframe. repeat split.
    - exact HM. }
  destruct (worker (mbase ms)) eqn:Hwk; try exact Hwin.
  destruct (queue (mbase ms)) as [|[c a] q] eqn:Hq; [exact Hwin|].
  destruct c as [k v id h w|k v id h w ttl|k|id w|]; try exact Hwin.
  - apply (Hput k v id h w None a q). reflexivity.
  - apply (Hput k v id h w (Some ttl) a q). reflexivity.
  - (* Delete *)
    assert (HB0 : BAL (set_queue (mbase ms) q)) by (unfold BAL, KB, WB in *; cbn [store st used set_queue]; exact HB).
    destruct (alookup k (store (set_queue (mbase ms) q))) as [e|] eqn:Hk; cbn [fst].
    + constructor; [|exact Hn|intros k0 Hk0; unfold wkey in Hk0; cbn [wdel] in Hk0; discriminate].
      cbn [mbase win with_base base]. apply store_delete_bal. exact HB0.
    + apply Hnone; [exact Hwd| |reflexivity]. cbn [mbase with_mbase win with_base base].
      eapply cframe_bal; [|exact HB0]. unfold cframe, set_ack. repeat split.
Qed.

Lemma mworker2_mbal : forall cfg ms, MBal ms -> MBal (fst (mworker2 cfg ms)).
Proof.
  intros cfg ms HM. pose proof HM as [HB Hn Ha]. unfold mworker2.
  destruct (wdel ms) as [[a id exp|a id exp|a k v id ttl obs]|] eqn:Hwd.
  - pose proof (weights_delete_bal cfg id false (mbase ms)) as Hd.
    destruct (weights_delete cfg id false (mbase ms)) as [s2|site s2|why]; cbn [fst].
    + constructor; [apply Hd; exact HB|exact Hn|intros k0 Hk0; unfold wkey in Hk0; cbn [wdel] in Hk0; discriminate].
    + constructor; [|exact Hn|intros k0 Hk0; unfold wkey in Hk0; cbn [wdel] in Hk0; discriminate].
      cbn [mbase win with_base base]. eapply cframe_bal; [|apply Hd; exact HB]. unfold cframe. repeat split.
    + exact HM.
  - cbn [fst]. constructor; [|exact Hn|intros k0 Hk0; unfold wkey in Hk0; cbn [wdel] in Hk0; discriminate].
    cbn [mbase win with_base base]. destruct exp; (eapply cframe_bal; [|exact HB]); unfold cframe, set_ack; repeat split.
  - assert (Hab : ab k (mbase ms)) by (apply Ha; unfold wkey; rewrite Hwd; reflexivity).
    destruct ttl as [t|].
    + destruct (calc_expiry (now (mbase ms)) t) as [e|]; cbn [fst].
      * constructor; [|exact Hn|intros k0 Hk0; unfold wkey in Hk0; cbn [wdel] in Hk0; discriminate].
        cbn [mbase win base]. apply store_insert_bal; [exact Hab|exact HB].
      * constructor; [|exact Hn|intros k0 Hk0; unfold wkey in Hk0; cbn [wdel] in Hk0; discriminate].
        cbn [mbase win with_base base]. eapply cframe_bal; [|exact HB]. unfold cframe. repeat split.
    + cbn [fst]. constructor; [|exact Hn|intros k0 Hk0; unfold wkey in Hk0; cbn [wdel] in Hk0; discriminate].
      cbn [mbase win with_base base]. eapply cframe_bal; [|apply store_insert_bal; [exact Hab|exact HB]].
      unfold cframe, set_ack. repeat split.
  - pose proof (wstep_T cfg (win ms) WPut2 I) as HT.
    destruct (wstep cfg (win ms) WPut2) as [w' ret]. cbn [fst] in *.
    eapply MBal_T; [exact HM|exact HT|exact (eq_sym Hwd)|exact Hn].
Qed.

(* STATEMENT (C16 at every state of every micro schedule): both balances are preserved by every micro step of every
   thread - put_or_update's two halves, the worker's windows inside put, put with time-to-live and Delete, every caller
   step - as long as no caller is inside the stages of shutdown() *)
Lemma mbal_step : forall cfg ms ev, MBal ms -> bal_event ev -> MBal (fst (mstep cfg ms ev)).
Proof.
  intros cfg ms ev HM Hev. destruct ev as [e|tid r idxs|tid idxs|orc|].
  - apply mwin_mbal. exact HM.
  - cbn [mstep]. apply menter_mbal; assumption.
  - cbn [mstep]. apply mstepc_mbal. exact HM.
  - cbn [mstep]. apply mworker1_mbal. exact HM.
  - cbn [mstep]. apply mworker2_mbal. exact HM.
Qed.

Lemma mbal_init : forall cfg, MBal (minit cfg).
Proof.
  intros cfg. constructor; [exact (init_bal cfg)| |].
  - intros tid n H. discriminate.
  - intros k H. discriminate.
Qed.

Lemma mbal_run_from : forall cfg evs ms, MBal ms -> Forall bal_event evs -> MBal (mrun_from cfg ms evs).
Proof.
  intros cfg evs. induction evs as [|ev t IH]; intros ms HM Hall; [exact HM|].
  inversion Hall as [|x xs Hev Ht]; subst. unfold mrun_from in *. cbn [fold_left]. apply IH; [|exact Ht].
  apply mbal_step; assumption.
Qed.

(* STATEMENT: at every state of every micro schedule in which nobody calls shutdown() - whatever is overtaken by whatever,
   windows of put_or_update and of the worker included - keys added minus keys deleted is the number of stored keys and
   weight added minus weight removed is the total weight used (the counters are u64: modulo 2^64) *)
Lemma micro_balances_run : forall cfg evs, Forall bal_event evs ->
  let s := mbase (mrun cfg evs) in
  (s_keys_added (st s) - s_keys_deleted (st s)) mod two64 = Z.of_nat (length (store s)) mod two64 /\
  (s_weight_added (st s) - s_weight_removed (st s)) mod two64 = used s mod two64.
Proof.
  intros cfg evs Hall s. subst s.
  destruct (mb_bal _ (mbal_run_from cfg evs (minit cfg) (mbal_init cfg) Hall)) as ((_ & HK) & HW).
  split; [exact HK|exact HW].
Qed.
